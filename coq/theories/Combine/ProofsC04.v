(** C04 lemmas, part 1 (no well-formedness hypothesis needed): order of the result, absence
    of duplicate routes, absence of loops, expiry. *)
From Sci Require Export Combine.Obs.
From Sci Require Import Combine.Model Combine.Proofs Combine.ProofsEnc Combine.ProofsC19 Combine.ProofsBound Common.ListAux.
From Coq Require Import Lia ZifyBool ZifyNat ZifyN Permutation Sorted.
Local Open Scope N_scope.

Definition edges_weight (l : list sedge) : N := fold_right (fun e acc => e_weight (se_edge e) + acc) 0 l.

Lemma segs_cost_app a b : segs_cost (a ++ b) = segs_cost a + segs_cost b.
Proof. induction a as [|x a IH]; cbn [app segs_cost fold_right]; [reflexivity|]. fold (segs_cost (a ++ b)) (segs_cost a). lia. Qed.
Lemma edges_weight_app a b : edges_weight (a ++ b) = edges_weight a + edges_weight b.
Proof. induction a as [|x a IH]; cbn [app edges_weight fold_right]; [reflexivity|]. fold (edges_weight (a ++ b)) (edges_weight a). lia. Qed.

Lemma hop_step_hops sidx pr st it st' :
  hop_step sidx pr st it = Ok st' -> length (hs_hops st') = S (length (hs_hops st)).
Proof.
  destruct it as [idx ae]. unfold hop_step. intros H. apply bind_ok in H as ([hf m] & _ & H).
  inversion H; subst. cbn [hs_hops]. rewrite app_length. cbn. lia.
Qed.
Lemma hop_fold_hops sidx pr l : forall st st',
  ofold (hop_step sidx pr) l st = Ok st' -> length (hs_hops st') = (length (hs_hops st) + length l)%nat.
Proof.
  induction l as [|it l IH]; intros st st'; cbn [ofold length].
  - intros E; inversion E; subst. lia.
  - intros H. apply bind_ok in H as (st1 & H1 & H). apply hop_step_hops in H1. apply IH in H. lia.
Qed.

Lemma flags_bits cd pr :
  N.testbit (has_flag cd INFO_CONS_DIR + has_flag pr INFO_PEERING) 0 = cd
  /\ N.testbit (has_flag cd INFO_CONS_DIR + has_flag pr INFO_PEERING) 1 = pr.
Proof. destruct cd, pr; split; reflexivity. Qed.

Lemma edge_step_spec st e st' :
  edge_step st e = Ok st' ->
  exists d, ps_segs st' = ps_segs st ++ [d]
            /\ length (ds_hops d) = (seg_len (is_seg (se_seg e)) - e_idx (se_edge e))%nat
            /\ in_cons_dir e = Ok (seg_cons_dir d)
            /\ seg_peering d = (match e_peer (se_edge e) with Some _ => true | None => false end)
            /\ ds_ts d = sg_ts (is_seg (se_seg e)).
Proof.
  unfold edge_step. intros H. apply bind_ok in H as (cap & _ & H). apply bind_ok in H as (hs & Hhs & H).
  apply bind_ok in H as (cd & Hcd & H). apply bind_ok in H as (sid & _ & H).
  destruct (3 <=? length (ps_segs st))%nat; [discriminate|]. inversion H; subst. cbn [ps_segs].
  eexists; split; [reflexivity|]. cbn [ds_hops ds_flags ds_ts].
  apply hop_fold_hops in Hhs. cbn [hs_hops length] in Hhs.
  rewrite rev_length, skipn_length, enumerate_length in Hhs.
  destruct (flags_bits cd (match e_peer (se_edge e) with Some _ => true | None => false end)) as [F0 F1].
  unfold seg_cons_dir, seg_peering; cbn [ds_flags]. rewrite F0, F1.
  split; [destruct cd; rewrite ?rev_length; exact Hhs|]. split; [exact Hcd|]. split; reflexivity.
Qed.

Lemma edge_step_cost st e st' :
  EdgeFull (se_src e) (se_dst e) (se_seg e) (se_edge e) ->
  edge_step st e = Ok st' ->
  segs_cost (ps_segs st') = segs_cost (ps_segs st) + e_weight (se_edge e).
Proof.
  intros ([Hidx _] & Hw & Hv) H. destruct (edge_step_spec _ _ _ H) as (d & -> & Hlen & Hcd & Hp & _).
  rewrite segs_cost_app. f_equal. cbn [segs_cost fold_right]. rewrite N.add_0_r.
  unfold seg_cost. rewrite Hlen, Hp. rewrite Hw.
  replace (seg_len (is_seg (se_seg e)) - e_idx (se_edge e) - 1)%nat
    with (seg_len (is_seg (se_seg e)) - 1 - e_idx (se_edge e))%nat by lia.
  f_equal. destruct Hv as (leaf & ae & Hleaf & Hae & Hv). unfold in_cons_dir in Hcd.
  destruct (e_peer (se_edge e)) as [pi|].
  - destruct Hv as (_ & p & _ & [[_ Hd]|[_ Hd]]); rewrite Hd in *; cbn [vertex_ia] in Hcd.
    + injection Hcd as Hc. rewrite <- Hc. reflexivity.
    + rewrite Hleaf in Hcd. injection Hcd as Hc. rewrite <- Hc, N.eqb_refl. reflexivity.
  - destruct Hv as ([[_ Hd]|[_ Hd]] & _); rewrite Hd; reflexivity.
Qed.

Lemma edges_fold_cost l : forall st st',
  Forall (fun e => EdgeFull (se_src e) (se_dst e) (se_seg e) (se_edge e)) l ->
  ofold edge_step l st = Ok st' ->
  segs_cost (ps_segs st') = segs_cost (ps_segs st) + edges_weight l.
Proof.
  induction l as [|e l IH]; intros st st' Hl; cbn [ofold edges_weight fold_right].
  - intros E; inversion E; subst. lia.
  - inversion Hl; subst. intros H. apply bind_ok in H as (st1 & Hst1 & H).
    apply edge_step_cost in Hst1; [|assumption]. apply IH in H; [|assumption].
    fold (edges_weight l). lia.
Qed.

Lemma sol_path_segs Hfp sol p :
  sol_path Hfp sol = Ok (Some p) ->
  exists st, ofold edge_step (so_edges sol) (mkPS 65535 [] []) = Ok st
             /\ sp_segs p = ps_segs st /\ sp_meta p = Some (mkMeta (odefault 0 (sp_exp p)) (ps_mtu st) (Some (ps_ifs st)))
             /\ std_expiration U32_MAX (ps_segs st) = Ok (odefault 0 (sp_exp p))
             /\ hd_error (ps_ifs st) = Some (sp_src p, snd (odefault (0,0) (hd_error (ps_ifs st))))
             /\ so_edges sol <> [].
Proof.
  unfold sol_path. destruct (so_edges sol) as [|e0 es] eqn:Ee; [discriminate|]. rewrite <- Ee.
  intros H. apply bind_ok in H as (st & Hst & H). exists st. split; [exact Hst|].
  apply bind_ok in H as (ex & Hex & H).
  destruct (wire_valid (ps_segs st)); cbn [negb] in H; [|discriminate].
  destruct (view_size_ok (encode_std (ps_segs st))); cbn [negb] in H; [|discriminate].
  destruct (hd_error (ps_ifs st)) as [f|] eqn:Ef; [|discriminate].
  destruct (hd_error (rev (ps_ifs st))) as [l|]; [|discriminate].
  destruct (Nat.even (length (ps_ifs st))); cbn [negb] in H; [|discriminate].
  apply bind_ok in H as (vexp & Hv & H). inversion H; subst. cbn.
  rewrite Hex in Hv. inversion Hv; subst. destruct f as [fa fi]. cbn.
  repeat split; auto. rewrite Ee. discriminate.
Qed.

(** * the search keeps cost = sum of edge weights; every solution edge is a graph edge *)
Section Search.
Variable ord_v : vertex -> vinfo -> vinfo.
Variable ord_e : vertex -> vertex -> emap -> emap.
Hypothesis ord_v_perm : forall v l, Permutation (ord_v v l) l.
Hypothesis ord_e_perm : forall v w l, Permutation (ord_e v w l) l.

Lemma bfs_Forall (P : solution -> Prop) g dst :
  (forall sol s, P sol -> In s (news ord_v ord_e g sol) -> P s) ->
  forall fuel queue, Forall P queue -> Forall P (bfs ord_v ord_e g dst fuel queue).
Proof.
  intros HP. induction fuel as [|f IH]; intros queue Hq; cbn [bfs]; [constructor|].
  apply Forall_app; split; [|apply IH]; apply Forall_forall; intros s Hs;
    apply in_flat_map in Hs as (pr & Hp & Hs); apply in_map_iff in Hp as (q & <- & Hq');
    rewrite Forall_forall in Hq; specialize (Hq _ Hq').
  - apply expand_snd in Hs. eauto.
  - apply expand_fst in Hs. eauto.
Qed.

Definition CostOK (s : solution) : Prop := so_cost s = edges_weight (so_edges s).

Lemma news_cost g sol s : CostOK sol -> In s (news ord_v ord_e g sol) -> CostOK s.
Proof.
  unfold CostOK. intros Hc H. apply in_flat_map in H as (c & _ & H).
  unfold try_add_edge in H. destruct (negb (valid_next_seg sol (se_seg c))); [destruct H|].
  destruct H as [<-|[]]. cbn [so_cost so_edges]. rewrite edges_weight_app, Hc. f_equal. unfold edges_weight. cbn [fold_right]. lia.
Qed.

Lemma get_paths_cost g src dst : Forall CostOK (get_paths ord_v ord_e g src dst).
Proof.
  unfold get_paths. eapply Permutation_Forall; [symmetry; apply sort_by_perm|].
  apply bfs_Forall; [apply news_cost|]. constructor; [reflexivity|constructor].
Qed.

Definition Rsol (a b : solution) : Prop := so_cost a <= so_cost b.

Lemma cmp_sol_le a b : cmp_sol a b <> Gt -> so_cost a <= so_cost b.
Proof.
  unfold cmp_sol, cmp_then. destruct (N.compare_spec (so_cost a) (so_cost b)) as [E|E|E].
  - intros _. rewrite E. apply N.le_refl.
  - intros _. apply N.lt_le_incl. exact E.
  - intros H; exfalso; apply H; reflexivity.
Qed.
Lemma cmp_sol_ge a b : cmp_sol a b = Gt -> so_cost b <= so_cost a.
Proof.
  unfold cmp_sol, cmp_then. destruct (N.compare_spec (so_cost a) (so_cost b)) as [E|E|E].
  - intros _. rewrite E. apply N.le_refl.
  - discriminate.
  - intros _. apply N.lt_le_incl. exact E.
Qed.

Lemma insert_by_ssorted x l :
  StronglySorted Rsol l -> StronglySorted Rsol (insert_by cmp_sol x l).
Proof.
  induction 1 as [|y r Hr IH Hy]; cbn [insert_by]; [repeat constructor|].
  destruct (cmp_sol x y) eqn:E.
  - constructor; [constructor; assumption|]. constructor; [apply cmp_sol_le; congruence|].
    eapply Forall_impl; [|exact Hy]. intros z Hz. unfold Rsol in *. pose proof (cmp_sol_le x y ltac:(congruence)). lia.
  - constructor; [constructor; assumption|]. constructor; [apply cmp_sol_le; congruence|].
    eapply Forall_impl; [|exact Hy]. intros z Hz. unfold Rsol in *. pose proof (cmp_sol_le x y ltac:(congruence)). lia.
  - constructor; [exact IH|].
    eapply Permutation_Forall; [symmetry; apply insert_by_perm|]. constructor; [apply cmp_sol_ge; exact E|exact Hy].
Qed.
Lemma sort_by_ssorted l : StronglySorted Rsol (sort_by cmp_sol l).
Proof. induction l as [|x l IH]; cbn; [constructor|]. apply insert_by_ssorted; exact IH. Qed.

Lemma get_paths_sorted g src dst : StronglySorted Rsol (get_paths ord_v ord_e g src dst).
Proof. apply sort_by_ssorted. Qed.

Lemma get_paths_full g src dst : GInv g ->
  Forall (fun s => Forall (fun e => EdgeFull (se_src e) (se_dst e) (se_seg e) (se_edge e)) (so_edges s))
         (get_paths ord_v ord_e g src dst).
Proof.
  intros Hg. pose proof (get_paths_ok ord_v ord_e ord_v_perm ord_e_perm g src dst) as H.
  eapply Forall_impl; [|exact H]. intros s [H1 _]. eapply Forall_impl; [|exact H1].
  intros se Hse. exact (Hg _ _ _ _ Hse).
Qed.
End Search.

Lemma sol_path_cost Hfp sol p :
  Forall (fun e => EdgeFull (se_src e) (se_dst e) (se_seg e) (se_edge e)) (so_edges sol) ->
  CostOK sol -> sol_path Hfp sol = Ok (Some p) -> path_cost p = so_cost sol.
Proof.
  intros He Hc H. destruct (sol_path_segs _ _ _ H) as (st & Hst & Hsegs & _).
  unfold path_cost. rewrite Hsegs, Hc. apply edges_fold_cost in Hst; [|exact He]. cbn in Hst. exact Hst.
Qed.

Definition Rpath (a b : spath) : Prop := path_cost a <= path_cost b.

(** paths collected from a cost-sorted list of solutions are cost-sorted *)
Lemma collect_paths_sorted Hfp sols : forall ps,
  StronglySorted Rsol sols ->
  Forall (fun s => Forall (fun e => EdgeFull (se_src e) (se_dst e) (se_seg e) (se_edge e)) (so_edges s)) sols ->
  Forall CostOK sols ->
  collect_paths Hfp sols = Ok ps ->
  StronglySorted Rpath ps
  /\ Forall (fun p => exists s, In s sols /\ sol_path Hfp s = Ok (Some p) /\ path_cost p = so_cost s
                                /\ has_loops p = Ok false) ps.
Proof.
  induction sols as [|s r IH]; intros ps Hs Hf Hc; cbn [collect_paths].
  - intros E; inversion E; subst. split; constructor.
  - inversion Hs as [|? ? Hs' Hhd]; subst. inversion Hf; subst. inversion Hc; subst.
    assert (Hlift : forall ps', (StronglySorted Rpath ps' /\
              Forall (fun p => exists s0, In s0 r /\ sol_path Hfp s0 = Ok (Some p) /\ path_cost p = so_cost s0
                                          /\ has_loops p = Ok false) ps') ->
              StronglySorted Rpath ps' /\
              Forall (fun p => exists s0, In s0 (s :: r) /\ sol_path Hfp s0 = Ok (Some p) /\ path_cost p = so_cost s0
                                          /\ has_loops p = Ok false) ps').
    { intros ps' [A B]. split; [exact A|]. eapply Forall_impl; [|exact B].
      intros p (s0 & Hs0 & Hs1). exists s0. split; [right; exact Hs0|exact Hs1]. }
    destruct (sol_path Hfp s) as [[p|]| |] eqn:Ep; try discriminate; try (intros H; apply Hlift; apply IH; assumption).
    intros H. apply bind_ok in H as (hl & Hhl & H). apply bind_ok in H as (rest & Hrest & H).
    destruct (IH rest) as [A B]; try assumption. inversion H; subst.
    destruct hl; [apply Hlift; split; assumption|].
    pose proof (sol_path_cost Hfp s p ltac:(assumption) ltac:(assumption) Ep) as Hpc.
    split.
    + constructor; [exact A|]. rewrite Forall_forall in B |- *. intros q Hq.
      destruct (B q Hq) as (s0 & Hs0 & _ & Hqc & _). rewrite Forall_forall in Hhd. specialize (Hhd s0 Hs0).
      unfold Rpath, Rsol in *. lia.
    + constructor; [exists s; split; [left; reflexivity|auto]|].
      eapply Forall_impl; [|exact B]. intros q (s0 & Hs0 & Hs1). exists s0. split; [right; exact Hs0|exact Hs1].
Qed.

(** * filter_duplicates *)
Lemma aget_aupd_keys {K V} (eqb : K -> K -> bool) k (f : option V -> V) l v :
  aget eqb k l = Some v -> map fst (aupd eqb k f l) = map fst l.
Proof.
  induction l as [|[k' v'] l IH]; cbn [aget aupd]; [discriminate|].
  destruct (eqb k' k); cbn [map fst]; [reflexivity|]. intros H. rewrite IH by exact H. reflexivity.
Qed.
Lemma aget_none_notin {V} k (l : list (N * V)) : aget N.eqb k l = None -> ~ In k (map fst l).
Proof.
  induction l as [|[k' v'] l IH]; cbn [aget map fst]; [intros _ []|].
  destruct (N.eqb k' k) eqn:E; [discriminate|]. intros H [H1|H1]; [subst; rewrite N.eqb_refl in E; discriminate|].
  exact (IH H H1).
Qed.

Lemma replace_nth_map {A B} (g : A -> B) (l : list A) n x l' b :
  replace_nth n x l = Some l' -> nth_error (map g l) n = Some b -> g x = b -> map g l' = map g l.
Proof.
  revert n l'; induction l as [|y l IH]; intros n l'; cbn [replace_nth]; [destruct n; discriminate|].
  destruct n; cbn.
  - intros E H1 H2; inversion E; subst. inversion H1; subst. cbn. congruence.
  - destruct (replace_nth n x l) eqn:E; cbn; intros H; [|discriminate H]. inversion H; subst.
    intros H1 H2. cbn. f_equal. eapply IH; eauto.
Qed.

Lemma NoDup_app_one {A} (l : list A) x : NoDup l -> ~ In x l -> NoDup (l ++ [x]).
Proof.
  induction 1 as [|y l Hy Hl IH]; cbn [app]; intros Hx; [constructor; [intros []|constructor]|].
  constructor.
  - intros H. apply in_app_or in H as [H|[H|[]]]; [exact (Hy H)|]. subst. apply Hx. left; reflexivity.
  - apply IH. intros H. apply Hx. right; exact H.
Qed.

(** invariant of the loop: [key] is any function of a path that is determined by its
    fingerprint-equality class as far as the loop can tell (it only compares sp_fp) *)
Definition DInv (result : list spath) (uniq : list (N * (N * nat))) : Prop :=
  map fst uniq = map sp_fp result /\ NoDup (map fst uniq)
  /\ forall fp e i, In (fp, (e, i)) uniq -> nth_error (map sp_fp result) i = Some fp.

Lemma filter_duplicates_nodup paths : forall result uniq out,
  DInv result uniq -> filter_duplicates paths result uniq = Ok out -> NoDup (map sp_fp out).
Proof.
  induction paths as [|p r IH]; intros result uniq out (I1 & I2 & I3); cbn [filter_duplicates].
  - intros E; inversion E; subst. rewrite <- I1. exact I2.
  - destruct (aget N.eqb (sp_fp p) uniq) as [[cur i]|] eqn:Eg.
    + destruct (cur <? path_expiration p); [|apply IH; repeat split; assumption].
      destruct (replace_nth i p result) as [res'|] eqn:Er; [|discriminate].
      pose proof Eg as Eg'. apply aget_In in Eg' as (k' & Hin & Hk). apply N.eqb_eq in Hk. subst k'.
      pose proof (I3 _ _ _ Hin) as Hnth.
      pose proof (replace_nth_map sp_fp _ _ _ _ _ Er Hnth eq_refl) as Hmap.
      apply IH. split; [|split].
      * rewrite (aget_aupd_keys _ _ _ _ _ Eg), Hmap. exact I1.
      * rewrite (aget_aupd_keys _ _ _ _ _ Eg). exact I2.
      * intros fp e j Hj. rewrite Hmap.
        apply aupd_In in Hj as [Hj|[[-> Hj]|(v0 & Hj & Hk & Hv)]].
        -- eapply I3; eauto.
        -- inversion Hj; subst. exact Hnth.
        -- apply N.eqb_eq in Hk. subst fp. inversion Hv; subst. exact Hnth.
    + apply IH. split; [|split].
      * rewrite !map_app, I1. reflexivity.
      * rewrite map_app. cbn [map fst]. apply NoDup_app_one; [exact I2|apply aget_none_notin; exact Eg].
      * intros fp e j Hj. rewrite map_app. apply in_app_or in Hj as [Hj|[Hj|[]]].
        -- rewrite nth_error_app1; [eapply I3; eauto|]. eapply nth_error_lt. eapply I3; eauto.
        -- inversion Hj; subst. rewrite nth_error_app2 by (rewrite map_length; lia).
           rewrite map_length, Nat.sub_diag. reflexivity.
Qed.

(** sortedness through filter_duplicates: a replaced entry has the fingerprint of the entry it
    replaces; if equal fingerprints imply equal cost among the candidates, the cost list of
    the result never changes at old positions and new positions are appended in order *)
Definition costs (l : list spath) : list N := map path_cost l.

Lemma ssorted_app_one (l : list N) x :
  StronglySorted N.le l -> Forall (fun y => y <= x) l -> StronglySorted N.le (l ++ [x]).
Proof.
  induction 1 as [|y l Hl IH Hy]; cbn [app]; intros Hx; [repeat constructor|].
  inversion Hx; subst. constructor; [apply IH; assumption|].
  apply Forall_app; split; [exact Hy|]. constructor; [assumption|constructor].
Qed.

Lemma filter_duplicates_sorted cand paths : forall result uniq out,
  (forall x y, In x cand -> In y cand -> sp_fp x = sp_fp y -> path_cost x = path_cost y) ->
  incl result cand -> incl paths cand ->
  DInv result uniq ->
  StronglySorted N.le (costs result) ->
  (forall x q, In x result -> In q paths -> path_cost x <= path_cost q) ->
  StronglySorted Rpath paths ->
  filter_duplicates paths result uniq = Ok out ->
  StronglySorted N.le (costs out).
Proof.
  induction paths as [|p r IH]; intros result uniq out Hc Hr Hp HD S1 S2 S3; cbn [filter_duplicates].
  - intros E; inversion E; subst. exact S1.
  - inversion S3 as [|? ? S3' S3hd]; subst.
    assert (Hpc : In p cand) by (apply Hp; left; reflexivity).
    assert (Hrc : incl r cand) by (intros z Hz; apply Hp; right; exact Hz).
    destruct HD as (I1 & I2 & I3).
    destruct (aget N.eqb (sp_fp p) uniq) as [[cur i]|] eqn:Eg.
    + destruct (cur <? path_expiration p).
      2:{ apply IH; auto; [repeat split; assumption|]. intros x q Hx Hq. apply S2; [exact Hx|right; exact Hq]. }
      destruct (replace_nth i p result) as [res'|] eqn:Er; [|discriminate].
      pose proof Eg as Eg'. apply aget_In in Eg' as (k' & Hin & Hk). apply N.eqb_eq in Hk. subst k'.
      pose proof (I3 _ _ _ Hin) as Hnth.
      pose proof (replace_nth_map sp_fp _ _ _ _ _ Er Hnth eq_refl) as Hmap.
      rewrite nth_error_map in Hnth. destruct (nth_error result i) as [y|] eqn:Ey; [|discriminate].
      cbn in Hnth. injection Hnth as Hy.
      assert (Hyc : In y cand) by (apply Hr; eapply nth_error_In; eauto).
      assert (Hcost : path_cost p = path_cost y) by (apply Hc; auto).
      assert (Hcosts : costs res' = costs result).
      { unfold costs. eapply replace_nth_map; [exact Er| |exact Hcost]. rewrite nth_error_map, Ey. reflexivity. }
      apply IH; auto.
      * intros z Hz. destruct (replace_nth_In _ _ _ _ _ Er Hz) as [->|Hz']; auto.
      * split; [|split].
        -- rewrite (aget_aupd_keys _ _ _ _ _ Eg), Hmap. exact I1.
        -- rewrite (aget_aupd_keys _ _ _ _ _ Eg). exact I2.
        -- intros fp e j Hj. rewrite Hmap.
           apply aupd_In in Hj as [Hj|[[-> Hj]|(v0 & Hj & Hk & Hv)]].
           ++ eapply I3; eauto.
           ++ inversion Hj; subst. rewrite nth_error_map, Ey. cbn. rewrite Hy. reflexivity.
           ++ apply N.eqb_eq in Hk. subst fp. inversion Hv; subst. rewrite nth_error_map, Ey. cbn. rewrite Hy. reflexivity.
      * rewrite Hcosts. exact S1.
      * intros x q Hx Hq. destruct (replace_nth_In _ _ _ _ _ Er Hx) as [->|Hx'].
        -- rewrite Hcost. apply S2; [eapply nth_error_In; eauto|right; exact Hq].
        -- apply S2; [exact Hx'|right; exact Hq].
    + apply IH; auto.
      * intros z Hz. apply in_app_or in Hz as [Hz|[<-|[]]]; auto.
      * split; [|split].
        -- rewrite !map_app, I1. reflexivity.
        -- rewrite map_app. cbn [map fst]. apply NoDup_app_one; [exact I2|apply aget_none_notin; exact Eg].
        -- intros fp e j Hj. rewrite map_app. apply in_app_or in Hj as [Hj|[Hj|[]]].
           ++ rewrite nth_error_app1; [eapply I3; eauto|]. eapply nth_error_lt. eapply I3; eauto.
           ++ inversion Hj; subst. rewrite nth_error_app2 by (rewrite map_length; lia).
              rewrite map_length, Nat.sub_diag. reflexivity.
      * unfold costs. rewrite map_app. cbn [map]. apply ssorted_app_one; [exact S1|].
        apply Forall_forall. intros c Hcst. apply in_map_iff in Hcst as (x & <- & Hx).
        apply S2; [exact Hx|left; reflexivity].
      * intros x q Hx Hq. apply in_app_or in Hx as [Hx|[<-|[]]].
        -- apply S2; [exact Hx|right; exact Hq].
        -- rewrite Forall_forall in S3hd. exact (S3hd q Hq).
Qed.

Lemma DInv_nil : DInv [] [].
Proof. split; [reflexivity|]. split; [constructor|]. intros fp e i []. Qed.

(** * expiry: the path expiration is the earliest hop expiry *)
Definition hop_expiry (ts e : N) : N := N.min U32_MAX (ts + exp_secs (e mod 256)).

Lemma exp_secs_mono a b : a <= b -> exp_secs a <= exp_secs b.
Proof. unfold exp_secs, EXP_UNIT_SECS, EXP_UNIT_NANOS. intros H. apply N.div_le_mono; lia. Qed.

(** * stages of combine_paths *)
Lemma combine_stages Hid Hfp ord_v ord_e src dst cores non_cores out :
  combine_paths Hid Hfp ord_v ord_e src dst cores non_cores = Ok out ->
  (src =? dst = true /\ out = []) \/
  exists g cand,
    src =? dst = false
    /\ add_segments [] (input_segments Hid cores non_cores) = Ok g /\ GInv g
    /\ candidate_paths Hid Hfp ord_v ord_e src dst cores non_cores = Ok cand
    /\ collect_paths Hfp (get_paths ord_v ord_e g src dst) = Ok cand
    /\ filter_duplicates cand [] [] = Ok out.
Proof.
  unfold combine_paths. destruct (src =? dst); [intros E; inversion E; left; auto|].
  intros H. right. apply bind_ok in H as (cand & Hc & H).
  pose proof Hc as Hc'. unfold candidate_paths in Hc'. apply bind_ok in Hc' as (g & Hg & Hc').
  exists g, cand. destruct (add_segments_inv (input_segments Hid cores non_cores) [] GInv_nil) as (g' & Hg' & HI).
  rewrite Hg in Hg'. inversion Hg'; subst. auto 10.
Qed.

Lemma NoDup_map_comp {A B C} (k : A -> B) (h : B -> C) l : NoDup (map (fun x => h (k x)) l) -> NoDup (map k l).
Proof.
  induction l as [|a l IH]; cbn [map]; intros H; [constructor|]. inversion H; subst. constructor; [|auto].
  intros Hin. apply H2. apply in_map_iff in Hin as (x & Hx & Hin). apply in_map_iff. exists x. split; [congruence|exact Hin].
Qed.

Definition route_key (p : spath) : list N := fp_input (sp_src p) (sp_dst p) (sp_segs p).

Lemma combine_nodup_routes Hid Hfp ord_v ord_e src dst cores non_cores out :
  (forall v l, Permutation (ord_v v l) l) -> (forall v w l, Permutation (ord_e v w l) l) ->
  combine_paths Hid Hfp ord_v ord_e src dst cores non_cores = Ok out ->
  NoDup (map route_key out).
Proof.
  intros Hv He H. pose proof (combine_outputs_shape _ _ _ _ _ _ _ _ _ Hv He H) as Hs.
  destruct (combine_stages _ _ _ _ _ _ _ _ _ H) as [[_ ->]|(g & cand & _ & _ & _ & _ & _ & Hf)]; [constructor|].
  pose proof (filter_duplicates_nodup _ _ _ _ DInv_nil Hf) as Hn.
  apply (NoDup_map_comp route_key Hfp).
  erewrite map_ext_in; [exact Hn|]. intros p Hp. rewrite Forall_forall in Hs.
  destruct (Hs p Hp) as (segs & ifs & f & l & mtu & e & -> & _). reflexivity.
Qed.

Lemma combine_sorted_and_loopfree Hid Hfp ord_v ord_e src dst cores non_cores out :
  (forall v l, Permutation (ord_v v l) l) -> (forall v w l, Permutation (ord_e v w l) l) ->
  combine_paths Hid Hfp ord_v ord_e src dst cores non_cores = Ok out ->
  Forall (fun p => has_loops p = Ok false) out
  /\ forall cand, candidate_paths Hid Hfp ord_v ord_e src dst cores non_cores = Ok cand ->
       (forall x y, In x cand -> In y cand -> sp_fp x = sp_fp y -> path_cost x = path_cost y) ->
       StronglySorted N.le (costs out).
Proof.
  intros Hv He H.
  destruct (combine_stages _ _ _ _ _ _ _ _ _ H) as [[_ ->]|(g & cand & _ & Hg & HI & Hcand & Hcol & Hf)].
  { split; [constructor|]. intros; constructor. }
  destruct (collect_paths_sorted Hfp _ _ (get_paths_sorted ord_v ord_e g src dst)
              (get_paths_full ord_v ord_e Hv He g src dst HI) (get_paths_cost ord_v ord_e g src dst) Hcol) as [Hs Hall].
  split.
  - apply Forall_forall. intros p Hp. destruct (filter_duplicates_In _ _ _ _ _ Hf Hp) as [[]|Hin].
    rewrite Forall_forall in Hall. destruct (Hall p Hin) as (s & _ & _ & _ & Hl). exact Hl.
  - intros cand' Hc' Hcost. rewrite Hcand in Hc'. inversion Hc'; subst cand'.
    eapply (filter_duplicates_sorted cand cand [] [] out); eauto.
    + intros x [].
    + apply incl_refl.
    + apply DInv_nil.
    + constructor.
    + intros x q [].
Qed.
