(** Functional characterisation of PathSolution::path: which hop fields, interfaces and MTU
    contributions an edge produces (the imperative loop of the model as list functions). *)
From Sci Require Import Combine.Model Combine.Proofs Combine.ProofsEnc Combine.ProofsC19 Combine.ProofsBound Combine.ProofsC04 Common.ListAux.
From Coq Require Import Lia ZifyBool ZifyNat ZifyN Permutation.
Local Open Scope N_scope.

(** the hop field an entry contributes: the peer entry's at the shortcut index of a peering
    edge, the regular one otherwise *)
Definition item_peer (sidx : nat) (pr : option nat) (it : nat * asentry) : option peer :=
  match pr with
  | Some pi => if Nat.eqb (fst it) sidx then nth_error (ae_peers (snd it)) pi else None
  | None => None
  end.
Definition item_hf (sidx : nat) (pr : option nat) (it : nat * asentry) : hopf :=
  match item_peer sidx pr it with Some p => pe_hf p | None => ae_hf (snd it) end.
Definition item_shortcut (sidx : nat) (it : nat * asentry) : bool :=
  Nat.eqb (fst it) sidx && negb (Nat.eqb (fst it) 0).
Definition item_is_peer (sidx : nat) (pr : option nat) (it : nat * asentry) : bool :=
  Nat.eqb (fst it) sidx && match pr with Some _ => true | None => false end.
(** MTU values an entry contributes: the link it was entered through during beaconing (only
    when that link is traversed), or the peering link; and the AS-internal MTU *)
Definition item_mtus (sidx : nat) (pr : option nat) (it : nat * asentry) : list N :=
  (match item_peer sidx pr it with
   | Some p => [pe_mtu p]
   | None => if negb (ae_imtu (snd it) =? 0) && negb (item_shortcut sidx it) then [ae_imtu (snd it)] else []
   end) ++ [N.min (ae_mtu (snd it)) 65535].
Definition item_ifs (sidx : nat) (pr : option nat) (it : nat * asentry) : list iface :=
  let hf := item_hf sidx pr it in
  (if negb (hf_eg hf =? 0) then [(ae_ia (snd it), hf_eg hf)] else [])
  ++ (if negb (hf_in hf =? 0) && (negb (item_shortcut sidx it) || item_is_peer sidx pr it)
      then [(ae_ia (snd it), hf_in hf)] else []).

Lemma hop_step_pure sidx pr st it st' :
  hop_step sidx pr st it = Ok st' ->
  hs_mtu st' = fold_left N.min (item_mtus sidx pr it) (hs_mtu st)
  /\ hs_ifs st' = hs_ifs st ++ item_ifs sidx pr it
  /\ hs_hops st' = hs_hops st ++ [item_hf sidx pr it]
  /\ (forall pi, pr = Some pi -> fst it = sidx -> exists p, nth_error (ae_peers (snd it)) pi = Some p).
Proof.
  destruct it as [idx ae]. unfold hop_step, item_mtus, item_ifs, item_hf, item_peer, item_shortcut, item_is_peer.
  cbn [fst snd]. intros H. apply bind_ok in H as ([hf m] & Hm & H). inversion H; subst; clear H. cbn [hs_mtu hs_ifs hs_hops].
  assert (Hfin : forall (X : Prop), X -> X) by auto.
  destruct pr as [pi|].
  - destruct (Nat.eqb idx sidx) eqn:E.
    + destruct (nth_error (ae_peers ae) pi) as [p|] eqn:Ep; [|discriminate]. inversion Hm; subst.
      cbn [fold_left app andb negb orb]. rewrite ?orb_true_r, ?andb_true_r.
      split; [reflexivity|]. split; [|split; [reflexivity|]].
      * destruct (negb (hf_eg (pe_hf p) =? 0)), (negb (hf_in (pe_hf p) =? 0)); cbn; rewrite <- ?app_assoc, ?app_nil_r; reflexivity.
      * intros pi' Hpi _. inversion Hpi; subst. eauto.
    + inversion Hm; subst. cbn [andb negb orb]. rewrite ?orb_false_r, ?andb_true_r.
      split; [|split; [|split; [reflexivity|]]].
      * destruct (negb (ae_imtu ae =? 0)); reflexivity.
      * destruct (negb (hf_eg (ae_hf ae) =? 0)), (negb (hf_in (ae_hf ae) =? 0)); cbn; rewrite <- ?app_assoc, ?app_nil_r; reflexivity.
      * intros pi' _ Hs. apply Nat.eqb_neq in E. congruence.
  - inversion Hm; subst. rewrite ?andb_false_r, ?orb_false_r.
    split; [|split; [|split; [reflexivity|]]].
    + destruct (negb (ae_imtu ae =? 0) && negb ((idx =? sidx)%nat && negb (idx =? 0)%nat)); reflexivity.
    + destruct (negb (hf_eg (ae_hf ae) =? 0)), (negb (hf_in (ae_hf ae) =? 0) && negb ((idx =? sidx)%nat && negb (idx =? 0)%nat));
        cbn; rewrite <- ?app_assoc, ?app_nil_r; reflexivity.
    + intros pi' Hpi. discriminate.
Qed.

Lemma hop_fold_pure sidx pr items : forall st st',
  ofold (hop_step sidx pr) items st = Ok st' ->
  hs_mtu st' = fold_left N.min (flat_map (item_mtus sidx pr) items) (hs_mtu st)
  /\ hs_ifs st' = hs_ifs st ++ flat_map (item_ifs sidx pr) items
  /\ hs_hops st' = hs_hops st ++ map (item_hf sidx pr) items.
Proof.
  induction items as [|it items IH]; intros st st'; cbn [ofold flat_map map].
  - intros E; inversion E; subst. rewrite !app_nil_r. auto.
  - intros H. apply bind_ok in H as (st1 & H1 & H). apply hop_step_pure in H1 as (A & B & C & _).
    apply IH in H as (A' & B' & C'). rewrite A', B', C', A, B, C. rewrite fold_left_app, <- !app_assoc. auto.
Qed.

(** the entries an edge traverses, in the order the loop visits them (leaf first) *)
Definition edge_items (e : sedge) : list (nat * asentry) :=
  rev (skipn (e_idx (se_edge e)) (enumerate (sg_entries (is_seg (se_seg e))))).
Definition edge_cons_dir (e : sedge) : bool :=
  match vertex_ia (se_dst e), last_ia (is_seg (se_seg e)) with
  | Some d, Some l => d =? l
  | _, _ => false
  end.
Definition orient {A} (cd : bool) (l : list A) : list A := if cd then rev l else l.
Definition edge_hops (e : sedge) : list hopf :=
  orient (edge_cons_dir e) (map (item_hf (e_idx (se_edge e)) (e_peer (se_edge e))) (edge_items e)).
Definition edge_ifs (e : sedge) : list iface :=
  orient (edge_cons_dir e) (flat_map (item_ifs (e_idx (se_edge e)) (e_peer (se_edge e))) (edge_items e)).
Definition edge_mtus (e : sedge) : list N :=
  flat_map (item_mtus (e_idx (se_edge e)) (e_peer (se_edge e))) (edge_items e).

Lemma in_cons_dir_pure e b : in_cons_dir e = Ok b -> b = edge_cons_dir e.
Proof.
  unfold in_cons_dir, edge_cons_dir. destruct (vertex_ia (se_dst e)); [|intros E; inversion E; reflexivity].
  destruct (last_ia (is_seg (se_seg e))); [|discriminate]. intros E; inversion E; reflexivity.
Qed.

Lemma edge_step_pure st e st' :
  edge_step st e = Ok st' ->
  ps_mtu st' = fold_left N.min (edge_mtus e) (ps_mtu st)
  /\ ps_ifs st' = ps_ifs st ++ edge_ifs e
  /\ exists d, ps_segs st' = ps_segs st ++ [d] /\ ds_hops d = edge_hops e
               /\ ds_ts d = sg_ts (is_seg (se_seg e))
               /\ ds_flags d = has_flag (edge_cons_dir e) INFO_CONS_DIR
                               + has_flag (match e_peer (se_edge e) with Some _ => true | None => false end) INFO_PEERING.
Proof.
  unfold edge_step. intros H. apply bind_ok in H as (cap & _ & H). apply bind_ok in H as (hs & Hhs & H).
  apply bind_ok in H as (cd & Hcd & H). apply bind_ok in H as (sid & _ & H).
  destruct (3 <=? length (ps_segs st))%nat; [discriminate|]. inversion H; subst; clear H. cbn [ps_mtu ps_ifs ps_segs].
  apply hop_fold_pure in Hhs as (A & B & C). cbn [hs_mtu hs_ifs hs_hops app] in A, B, C.
  apply in_cons_dir_pure in Hcd. subst cd.
  unfold edge_mtus, edge_ifs, edge_hops, orient, edge_items. rewrite A, B, C.
  split; [reflexivity|]. split; [reflexivity|]. eexists; split; [reflexivity|]. cbn. auto.
Qed.

Lemma edges_fold_pure l : forall st st',
  ofold edge_step l st = Ok st' ->
  ps_mtu st' = fold_left N.min (flat_map edge_mtus l) (ps_mtu st)
  /\ ps_ifs st' = ps_ifs st ++ flat_map edge_ifs l
  /\ map ds_hops (ps_segs st') = map ds_hops (ps_segs st) ++ map edge_hops l
  /\ length (ps_segs st') = (length (ps_segs st) + length l)%nat.
Proof.
  induction l as [|e l IH]; intros st st'; cbn [ofold flat_map map length].
  - intros E; inversion E; subst. rewrite !app_nil_r. auto.
  - intros H. apply bind_ok in H as (st1 & H1 & H). apply edge_step_pure in H1 as (A & B & d & C & D & _).
    apply IH in H as (A' & B' & C' & D'). rewrite A', B', C', D', A, B, C.
    rewrite fold_left_app, map_app, app_length, <- !app_assoc. cbn [map app length]. rewrite D.
    repeat split; auto. lia.
Qed.
