(** C19: a segment that contributes no edge to any solution of the search does not change the
    result (any input, any position of the segment, any HashMap order; no sort-key ties). *)
From Sci Require Import Combine.Model Combine.SpecRules Combine.Proofs Combine.ProofsEnc Combine.ProofsC19 Combine.ProofsBound Combine.ProofsC04
  Combine.ProofsPath Combine.ProofsWF Combine.ProofsSound Combine.ProofsComplete Combine.ProofsGraph Combine.ProofsOrder Combine.ProofsPerm
  Common.ListAux.
From Coq Require Import Lia ZifyBool ZifyNat ZifyN Permutation.
Local Open Scope N_scope.

(** * the value found under a key depends only on the insertions with that key *)
Definition keyb (a b : vertex) (s : iseg) (x : ins) : bool := key_eqb (key_of x) (a, b, s).

Lemma lookup_last l : forall g a b s,
  glookup (apply_ins l g) a b s
  = fold_left (fun acc x => if keyb a b s x then Some (snd x) else acc) l (glookup g a b s).
Proof.
  induction l as [|[[[a0 b0] s0] e0] l IH]; intros g a b s; cbn [apply_ins fold_left]; [reflexivity|].
  fold (apply_ins l (apply_in g (a0, b0, s0, e0))). rewrite IH. f_equal. cbn [apply_in snd]. unfold keyb. cbn [key_of].
  destruct (key_eqb (a0, b0, s0) (a, b, s)) eqn:E.
  - apply key_eqb_ok in E. inversion E; subst. apply glookup_ade_same.
  - apply glookup_ade_other. intros Hk. rewrite <- Hk in E. rewrite (proj2 (key_eqb_ok _ _) eq_refl) in E. discriminate.
Qed.

Lemma fold_filter {A B} (p : A -> bool) (f : B -> A -> B) l : forall acc,
  fold_left (fun acc x => if p x then f acc x else acc) l acc = fold_left f (filter p l) acc.
Proof. induction l as [|x l IH]; intros acc; cbn [fold_left filter]; [reflexivity|]. destruct (p x); cbn [fold_left]; apply IH. Qed.

Lemma lookup_congr l1 l2 g a b s :
  filter (keyb a b s) l1 = filter (keyb a b s) l2 -> glookup (apply_ins l1 g) a b s = glookup (apply_ins l2 g) a b s.
Proof.
  intros H. rewrite !lookup_last.
  rewrite (fold_filter (keyb a b s) (fun _ x => Some (snd x)) l1), (fold_filter (keyb a b s) (fun _ x => Some (snd x)) l2), H.
  reflexivity.
Qed.

Lemma filter_none {A} (p : A -> bool) l : (forall y, In y l -> p y = false) -> filter p l = [].
Proof.
  induction l as [|y l IH]; intros H; cbn [filter]; [reflexivity|]. rewrite (H y (or_introl eq_refl)).
  apply IH. intros z Hz. apply H. right; exact Hz.
Qed.

Lemma filter_seg_ins_other a b s s0 : s <> s0 -> filter (keyb a b s) (seg_ins s0) = [].
Proof.
  intros Hne. apply filter_none. intros y Hy. destruct (seg_ins_full s0 y Hy) as (a1 & b1 & e1 & -> & _). unfold keyb; cbn.
  destruct (iseg_eqb s0 s) eqn:Es; [apply iseg_eqb_eq in Es; congruence|]. rewrite !andb_false_r. reflexivity.
Qed.

Lemma filter_flat_map_app {A B} (p : B -> bool) (f : A -> list B) l1 x l2 :
  filter p (f x) = [] -> filter p (flat_map f (l1 ++ x :: l2)) = filter p (flat_map f (l1 ++ l2)).
Proof.
  intros H. rewrite !flat_map_app. cbn [flat_map]. rewrite !filter_app, H. reflexivity.
Qed.

Lemma graph_lookup_without L1 s0 L2 a b s :
  s <> s0 -> glookup (graph_of (L1 ++ s0 :: L2)) a b s = glookup (graph_of (L1 ++ L2)) a b s.
Proof.
  intros Hne. unfold graph_of. apply lookup_congr. apply filter_flat_map_app. apply filter_seg_ins_other. exact Hne.
Qed.

Lemma graph_lookup_absent L a b s : ~ In s L -> glookup (graph_of L) a b s = None.
Proof.
  intros Hn. unfold graph_of. rewrite lookup_fold_other; [reflexivity|].
  intros x Hx Hk. apply in_flat_map in Hx as (s' & Hs' & Hx). destruct (seg_ins_full s' x Hx) as (a1 & b1 & e1 & -> & _).
  cbn in Hk. inversion Hk; subst. contradiction.
Qed.

(** * searches on the graph with and without the segment *)
Definition uses (s : iseg) (sol : solution) : bool := existsb (fun e => iseg_eqb (se_seg e) s) (so_edges sol).

Section With.
Variables (L1 L2 : list iseg) (s0 : iseg).
Hypothesis s0_fresh : ~ In s0 (L1 ++ L2).
Let gA := graph_of (L1 ++ s0 :: L2).
Let gB := graph_of (L1 ++ L2).

Lemma KInv_graph_of L : KInv (graph_of L).
Proof. apply KInv_apply_ins, KInv_nil. Qed.

Lemma cand_without sol :
  Permutation (filter (fun c => negb (iseg_eqb (se_seg c) s0)) (candidates ord_id_v ord_id_e gA sol))
              (candidates ord_id_v ord_id_e gB sol).
Proof.
  apply NoDup_Permutation; [apply NoDup_filter, candidates_nodup, KInv_graph_of|apply candidates_nodup, KInv_graph_of|].
  intros c. rewrite filter_In, (candidates_spec gA sol c (KInv_graph_of _)), (candidates_spec gB sol c (KInv_graph_of _)).
  unfold gA, gB. split.
  - intros [[Hs Hl] Hn]. apply negb_true_iff in Hn. split; [exact Hs|].
    rewrite <- (graph_lookup_without L1 s0 L2); [exact Hl|]. intros E. rewrite E, iseg_eqb_refl in Hn. discriminate.
  - intros [Hs Hl].
    assert (Hne : se_seg c <> s0).
    { intros E. rewrite E, (graph_lookup_absent (L1 ++ L2) _ _ s0 s0_fresh) in Hl. discriminate. }
    split; [split; [exact Hs|rewrite (graph_lookup_without L1 s0 L2) by exact Hne; exact Hl]|].
    apply negb_true_iff. destruct (iseg_eqb (se_seg c) s0) eqn:E; [apply iseg_eqb_eq in E; contradiction|reflexivity].
Qed.

Lemma uses_child sol c s :
  try_add_edge sol c = Some s -> uses s0 s = uses s0 sol || iseg_eqb (se_seg c) s0.
Proof.
  intros H. apply try_add_edge_some in H as (E & _). unfold uses. rewrite E, existsb_app. cbn. rewrite orb_false_r. reflexivity.
Qed.

Definition kid (sol : solution) (c : sedge) : list solution :=
  match try_add_edge sol c with Some s => [s] | None => [] end.

Lemma filter_kids sol l :
  uses s0 sol = false ->
  filter (fun s => negb (uses s0 s)) (flat_map (kid sol) l)
  = flat_map (kid sol) (filter (fun c => negb (iseg_eqb (se_seg c) s0)) l).
Proof.
  intros Hu. induction l as [|c l IH]; [reflexivity|].
  cbn [flat_map]. rewrite filter_app, IH. clear IH. cbn [filter]. unfold kid at 1.
  destruct (try_add_edge sol c) as [s|] eqn:Et.
  - cbn [filter]. rewrite (uses_child _ _ _ Et), Hu. cbn [orb].
    destruct (iseg_eqb (se_seg c) s0); cbn [negb flat_map app]; [reflexivity|]. unfold kid. rewrite Et. reflexivity.
  - cbn [filter app]. destruct (negb (iseg_eqb (se_seg c) s0)); cbn [flat_map]; [unfold kid; rewrite Et|]; reflexivity.
Qed.

Lemma news_without sol :
  uses s0 sol = false ->
  Permutation (filter (fun s => negb (uses s0 s)) (news ord_id_v ord_id_e gA sol)) (news ord_id_v ord_id_e gB sol).
Proof.
  intros Hu. unfold news. fold (kid sol). rewrite (filter_kids sol _ Hu).
  apply Permutation_flat_map. apply cand_without.
Qed.

Lemma news_of_user sol s : uses s0 sol = true -> In s (news ord_id_v ord_id_e gA sol) -> uses s0 s = true.
Proof.
  intros Hu H. apply in_flat_map in H as (c & _ & H). destruct (try_add_edge sol c) eqn:Et; [|destruct H].
  destruct H as [<-|[]]. rewrite (uses_child _ _ _ Et), Hu. reflexivity.
Qed.

Lemma filter_filter_comm {A} (p q : A -> bool) l : filter p (filter q l) = filter q (filter p l).
Proof.
  induction l as [|x l IH]; cbn [filter]; [reflexivity|].
  destruct (p x) eqn:Ep, (q x) eqn:Eq; cbn [filter]; rewrite ?Ep, ?Eq, IH; reflexivity.
Qed.

Lemma expand_without dst sol :
  uses s0 sol = false ->
  Permutation (filter (fun s => negb (uses s0 s)) (fst (expand ord_id_v ord_id_e gA dst sol))) (fst (expand ord_id_v ord_id_e gB dst sol))
  /\ Permutation (filter (fun s => negb (uses s0 s)) (snd (expand ord_id_v ord_id_e gA dst sol))) (snd (expand ord_id_v ord_id_e gB dst sol)).
Proof.
  intros Hu. unfold expand; cbn [fst snd]. fold (news ord_id_v ord_id_e gA sol) (news ord_id_v ord_id_e gB sol).
  split; rewrite filter_filter_comm; apply Permutation_filter'; apply news_without; exact Hu.
Qed.

Lemma expand_of_user dst sol :
  uses s0 sol = true ->
  filter (fun s => negb (uses s0 s)) (fst (expand ord_id_v ord_id_e gA dst sol)) = []
  /\ filter (fun s => negb (uses s0 s)) (snd (expand ord_id_v ord_id_e gA dst sol)) = [].
Proof.
  intros Hu. unfold expand; cbn [fst snd]. fold (news ord_id_v ord_id_e gA sol).
  assert (H : forall p, filter (fun s => negb (uses s0 s)) (filter p (news ord_id_v ord_id_e gA sol)) = []).
  { intros p. rewrite filter_filter_comm.
    assert (E : filter (fun s => negb (uses s0 s)) (news ord_id_v ord_id_e gA sol) = []).
    { pose proof (news_of_user sol) as Hn. specialize (fun s => Hn s Hu).
      induction (news ord_id_v ord_id_e gA sol) as [|x l IH]; cbn [filter]; [reflexivity|].
      rewrite (Hn x (or_introl eq_refl)). cbn [negb]. apply IH. intros s Hs. apply Hn. right; exact Hs. }
    rewrite E. reflexivity. }
  split; apply H.
Qed.

Lemma flat_map_without (F G : solution -> list solution) q1 q2 :
  Permutation (filter (fun s => negb (uses s0 s)) q1) q2 ->
  (forall p, uses s0 p = false -> Permutation (filter (fun s => negb (uses s0 s)) (F p)) (G p)) ->
  (forall p, uses s0 p = true -> filter (fun s => negb (uses s0 s)) (F p) = []) ->
  Permutation (filter (fun s => negb (uses s0 s)) (flat_map F q1)) (flat_map G q2).
Proof.
  intros Hq HF HU.
  transitivity (flat_map G (filter (fun s => negb (uses s0 s)) q1)); [|apply Permutation_flat_map; exact Hq].
  clear Hq. induction q1 as [|p q1 IH]; cbn [flat_map filter]; [constructor|].
  rewrite filter_app. destruct (uses s0 p) eqn:Eu; cbn [negb].
  - rewrite (HU p Eu). cbn [app]. exact IH.
  - cbn [flat_map]. apply Permutation_app; [apply HF; exact Eu|exact IH].
Qed.

Lemma bfs_without dst fuel : forall q1 q2,
  Permutation (filter (fun s => negb (uses s0 s)) q1) q2 ->
  Permutation (filter (fun s => negb (uses s0 s)) (bfs ord_id_v ord_id_e gA dst fuel q1)) (bfs ord_id_v ord_id_e gB dst fuel q2).
Proof.
  induction fuel as [|f IH]; intros q1 q2 Hq; cbn [bfs]; [constructor|]. rewrite !flat_map_map, filter_app.
  apply Permutation_app.
  - apply flat_map_without; [exact Hq| |]; intros p Hp; [apply expand_without|apply expand_of_user]; exact Hp.
  - apply IH. apply flat_map_without; [exact Hq| |]; intros p Hp; [apply expand_without|apply expand_of_user]; exact Hp.
Qed.
End With.

Lemma NoTies_perm l1 l2 : Permutation l1 l2 -> NoTies l1 -> NoTies l2.
Proof. intros Hp H a b Ha Hb. apply H; (eapply Permutation_in; [symmetry; exact Hp|assumption]). Qed.

Lemma filter_all {A} (p : A -> bool) l : Forall (fun x => p x = true) l -> filter p l = l.
Proof. induction 1 as [|x l Hx Hl IH]; cbn [filter]; [reflexivity|]. rewrite Hx, IH. reflexivity. Qed.

Lemma get_paths_without L1 L2 s0 ov oe ov' oe' src dst :
  (forall v l, Permutation (ov v l) l) -> (forall v w l, Permutation (oe v w l) l) ->
  (forall v l, Permutation (ov' v l) l) -> (forall v w l, Permutation (oe' v w l) l) ->
  ~ In s0 (L1 ++ L2) ->
  NoTies (bfs ord_id_v ord_id_e (graph_of (L1 ++ s0 :: L2)) dst 4 [sol_new (VAS src)]) ->
  Forall (fun sol => uses s0 sol = false) (bfs ord_id_v ord_id_e (graph_of (L1 ++ s0 :: L2)) dst 4 [sol_new (VAS src)]) ->
  get_paths ov oe (graph_of (L1 ++ s0 :: L2)) src dst = get_paths ov' oe' (graph_of (L1 ++ L2)) src dst.
Proof.
  intros Hv He Hv' He' Hfresh Hnt Hno.
  assert (Hp : Permutation (bfs ord_id_v ord_id_e (graph_of (L1 ++ s0 :: L2)) dst 4 [sol_new (VAS src)])
                           (bfs ord_id_v ord_id_e (graph_of (L1 ++ L2)) dst 4 [sol_new (VAS src)])).
  { rewrite <- (filter_all (fun s => negb (uses s0 s)) (bfs ord_id_v ord_id_e (graph_of (L1 ++ s0 :: L2)) dst 4 [sol_new (VAS src)])).
    - apply bfs_without; [exact Hfresh|]. cbn [filter uses sol_new so_edges existsb negb]. reflexivity.
    - eapply Forall_impl; [|exact Hno]. intros sol H. cbn beta. rewrite H. reflexivity. }
  rewrite (get_paths_order_irrelevant ov oe _ src dst Hv He Hnt).
  rewrite (get_paths_order_irrelevant ov' oe' _ src dst Hv' He' (NoTies_perm _ _ Hp Hnt)).
  unfold get_paths. apply sort_by_perm_eq; assumption.
Qed.

Lemma combine_without Hid Hfp ov oe ov' oe' src dst cores non_cores cores' non_cores' L1 L2 s0 :
  (forall v l, Permutation (ov v l) l) -> (forall v w l, Permutation (oe v w l) l) ->
  (forall v l, Permutation (ov' v l) l) -> (forall v w l, Permutation (oe' v w l) l) ->
  input_segments Hid cores non_cores = L1 ++ s0 :: L2 ->
  input_segments Hid cores' non_cores' = L1 ++ L2 ->
  ~ In s0 (L1 ++ L2) ->
  NoTies (bfs ord_id_v ord_id_e (graph_of (L1 ++ s0 :: L2)) dst 4 [sol_new (VAS src)]) ->
  Forall (fun sol => uses s0 sol = false) (bfs ord_id_v ord_id_e (graph_of (L1 ++ s0 :: L2)) dst 4 [sol_new (VAS src)]) ->
  combine_paths Hid Hfp ov oe src dst cores non_cores = combine_paths Hid Hfp ov' oe' src dst cores' non_cores'.
Proof.
  intros Hv He Hv' He' E1 E2 Hfresh Hnt Hno. unfold combine_paths, candidate_paths. rewrite E1, E2.
  destruct (add_segments_inv (L1 ++ s0 :: L2) [] GInv_nil) as (g1 & Hg1 & _).
  destruct (add_segments_inv (L1 ++ L2) [] GInv_nil) as (g2 & Hg2 & _).
  rewrite Hg1, Hg2. cbn [obind].
  rewrite (add_segments_pure _ _ _ Hg1), (add_segments_pure _ _ _ Hg2).
  fold (graph_of (L1 ++ s0 :: L2)) (graph_of (L1 ++ L2)).
  rewrite (get_paths_without L1 L2 s0 ov oe ov' oe' src dst Hv He Hv' He' Hfresh Hnt Hno). reflexivity.
Qed.
