(** C19: [combine_paths] never reaches a panic site, whatever the segments, the hash functions
    and the HashMap iteration orders. *)
From Sci Require Import Combine.Model Combine.Proofs Combine.ProofsEnc Common.ListAux.
From Coq Require Import Lia Permutation.
Local Open Scope N_scope.

Lemma In_skipn' {A} n (l : list A) x : In x (skipn n l) -> In x l.
Proof.
  revert l; induction n as [|n IH]; intros l; cbn; [auto|]. destruct l; [intros []|]. intros H; right; auto.
Qed.

Lemma std_expiration_no_panic segs : forall acc, is_panic (std_expiration acc segs) = false.
Proof.
  induction segs as [|s r IH]; intros acc; cbn [std_expiration]; [reflexivity|].
  destruct (ds_hops s) as [|h hs]; [reflexivity|].
  pose proof (exp_secs_small (min_list (hf_exp h) (map hf_exp hs))) as Hs.
  destruct (U32_MAX <? exp_secs (min_list (hf_exp h) (map hf_exp hs) mod 256)) eqn:E.
  - apply N.ltb_lt in E. unfold U32_MAX in E. lia.
  - apply IH.
Qed.
Lemma std_expiration_ok segs acc : exists v, std_expiration acc segs = Ok v.
Proof.
  revert acc; induction segs as [|s r IH]; intros acc; cbn [std_expiration]; [eexists; reflexivity|].
  destruct (ds_hops s) as [|h hs]; [eexists; reflexivity|].
  pose proof (exp_secs_small (min_list (hf_exp h) (map hf_exp hs))) as Hs.
  destruct (U32_MAX <? exp_secs (min_list (hf_exp h) (map hf_exp hs) mod 256)) eqn:E.
  - apply N.ltb_lt in E. unfold U32_MAX in E. lia.
  - apply IH.
Qed.

Lemma hop_step_ok sidx pr st idx ae :
  (forall pi, pr = Some pi -> idx = sidx -> (pi < length (ae_peers ae))%nat) ->
  exists st', hop_step sidx pr st (idx, ae) = Ok st'.
Proof.
  intros H. unfold hop_step. destruct pr as [pi|].
  - destruct (Nat.eqb idx sidx) eqn:E.
    + apply Nat.eqb_eq in E. specialize (H pi eq_refl E).
      destruct (nth_error (ae_peers ae) pi) as [p|] eqn:En.
      * cbn [obind]. eexists; reflexivity.
      * apply nth_error_None in En. lia.
    + cbn [obind]. eexists; reflexivity.
  - cbn [obind]. eexists; reflexivity.
Qed.

Lemma in_cons_dir_ok e : (0 < seg_len (is_seg (se_seg e)))%nat -> exists b, in_cons_dir e = Ok b.
Proof.
  intros H. unfold in_cons_dir. destruct (vertex_ia (se_dst e)); [|eexists; reflexivity].
  destruct (last_ia_some _ H) as (l & ->). eexists; reflexivity.
Qed.

Lemma initialize_segment_id_ok e :
  EdgeOK (se_seg e) (se_edge e) -> exists v, initialize_segment_id e = Ok v.
Proof.
  intros [Hidx _]. unfold initialize_segment_id.
  destruct (in_cons_dir_ok e ltac:(lia)) as (ico & ->). cbn [obind].
  assert (exists stop0, (if ico then Ok (e_idx (se_edge e)) else checked_sub P_LEN_SUB (seg_len (is_seg (se_seg e))) 1) = Ok stop0
                        /\ (stop0 < seg_len (is_seg (se_seg e)))%nat) as (stop0 & -> & Hs).
  { destruct ico; [eexists; split; [reflexivity|exact Hidx]|].
    rewrite checked_sub_ok by lia. eexists; split; [reflexivity|lia]. }
  cbn [obind].
  match goal with |- context [(seg_len ?s <? ?x)%nat] => destruct (seg_len s <? x)%nat eqn:E end; [|eexists; reflexivity].
  apply Nat.ltb_lt in E. destruct (e_peer (se_edge e)); [destruct (Nat.eqb _ _)|]; lia.
Qed.

Lemma edge_step_ok st e :
  EdgeOK (se_seg e) (se_edge e) -> (length (ps_segs st) < 3)%nat ->
  exists st', edge_step st e = Ok st' /\ length (ps_segs st') = S (length (ps_segs st)).
Proof.
  intros He Hlen. pose proof He as [Hidx Hpeer]. unfold edge_step.
  rewrite checked_sub_ok by lia. cbn [obind].
  destruct (ofold_inv (fun _ => True)
              (fun it : nat * asentry => nth_error (sg_entries (is_seg (se_seg e))) (fst it) = Some (snd it))
              (hop_step (e_idx (se_edge e)) (e_peer (se_edge e)))
              (rev (skipn (e_idx (se_edge e)) (enumerate (sg_entries (is_seg (se_seg e))))))
              (mkHS (ps_mtu st) [] []) I) as (hs & -> & _).
  { apply Forall_forall. intros [i a] Hi. apply in_rev, In_skipn', in_enumerate in Hi. exact Hi. }
  { intros b [i a] _ Hi. cbn [fst snd] in Hi.
    destruct (hop_step_ok (e_idx (se_edge e)) (e_peer (se_edge e)) b i a) as (st' & Hst).
    - intros pi Hpi ->. rewrite Hpi in Hpeer. destruct Hpeer as (ae & Hae & Hlt). congruence.
    - exists st'; auto. }
  cbn [obind].
  destruct (in_cons_dir_ok e ltac:(lia)) as (cd & ->). cbn [obind].
  destruct (initialize_segment_id_ok e He) as (sid & ->). cbn [obind].
  destruct (3 <=? length (ps_segs st))%nat eqn:E; [apply Nat.leb_le in E; lia|].
  eexists; split; [reflexivity|]. cbn [ps_segs]. rewrite app_length. cbn. lia.
Qed.

Lemma edges_fold_ok l : forall st,
  Forall (fun e => EdgeOK (se_seg e) (se_edge e)) l -> (length (ps_segs st) + length l <= 3)%nat ->
  exists st', ofold edge_step l st = Ok st'.
Proof.
  induction l as [|e l IH]; intros st Hl Hlen; cbn [ofold]; [eexists; reflexivity|].
  inversion Hl; subst. cbn [length] in Hlen.
  destruct (edge_step_ok st e) as (st1 & -> & Hst1); [assumption|lia|]. cbn [obind].
  apply IH; [assumption|lia].
Qed.

(** what a path produced by [sol_path] looks like *)
Definition PathShape (Hfp : list N -> N) (p : spath) : Prop :=
  exists segs ifs f l mtu e,
    p = mkPath (fst f) (fst l) segs (encode_std segs) (Some (mkMeta e mtu (Some ifs)))
               (Hfp (fp_input (fst f) (fst l) segs)) (Some e)
    /\ hd_error ifs = Some f /\ hd_error (rev ifs) = Some l /\ Nat.even (length ifs) = true
    /\ wire_valid segs = true /\ std_expiration U32_MAX segs = Ok e.

Definition EdgesOK (sol : solution) : Prop :=
  Forall (fun e => EdgeOK (se_seg e) (se_edge e)) (so_edges sol) /\ (length (so_edges sol) <= 3)%nat.

Lemma sol_path_spec Hfp sol :
  EdgesOK sol ->
  sol_path Hfp sol = Ok None \/ sol_path Hfp sol = Err tt
  \/ exists p, sol_path Hfp sol = Ok (Some p) /\ PathShape Hfp p.
Proof.
  intros [He Hl]. unfold sol_path. destruct (so_edges sol) as [|e0 es] eqn:Eedges; [left; reflexivity|].
  rewrite <- Eedges in *. clear Eedges.
  destruct (edges_fold_ok (so_edges sol) (mkPS 65535 [] []) He ltac:(cbn; lia)) as (st & ->). cbn [obind].
  destruct (std_expiration_ok (ps_segs st) U32_MAX) as (ex & Hex). rewrite Hex. cbn [obind].
  destruct (wire_valid (ps_segs st)) eqn:Ew; cbn [negb]; [|right; left; reflexivity].
  rewrite (view_accepts_encoding _ Ew). cbn [negb].
  destruct (hd_error (ps_ifs st)) as [f|] eqn:Ef; [|left; reflexivity].
  destruct (hd_error (rev (ps_ifs st))) as [l|] eqn:El; [|left; reflexivity].
  destruct (Nat.even (length (ps_ifs st))) eqn:Eev; cbn [negb]; [|left; reflexivity].
  cbn [obind]. right; right. eexists; split; [reflexivity|].
  exists (ps_segs st), (ps_ifs st), f, l, (ps_mtu st), ex. auto 10.
Qed.

Lemma has_loops_shape Hfp p : PathShape Hfp p -> exists b, has_loops p = Ok b.
Proof.
  intros (segs & ifs & f & l & mtu & e & -> & _). unfold has_loops; cbn. eexists; reflexivity.
Qed.

Lemma collect_paths_ok Hfp sols :
  Forall EdgesOK sols ->
  exists ps, collect_paths Hfp sols = Ok ps /\ Forall (PathShape Hfp) ps.
Proof.
  induction 1 as [|s r Hs Hr IH]; cbn [collect_paths]; [exists []; auto|].
  destruct IH as (ps & Eps & Hps).
  destruct (sol_path_spec Hfp s Hs) as [->|[->|(p & -> & Hp)]]; [eauto|eauto|].
  destruct (has_loops_shape _ _ Hp) as (b & ->). cbn [obind]. rewrite Eps. cbn [obind].
  destruct b; eexists; split; try reflexivity; auto.
Qed.

Lemma replace_nth_some {A} (l : list A) n x :
  (n < length l)%nat -> exists l', replace_nth n x l = Some l' /\ length l' = length l.
Proof.
  revert n; induction l as [|y l IH]; intros n H; cbn in H; [lia|].
  destruct n; cbn [replace_nth]; [eexists; split; reflexivity|].
  destruct (IH n ltac:(lia)) as (l' & -> & E). cbn. eexists; split; [reflexivity|]. cbn; lia.
Qed.

Lemma filter_duplicates_ok paths : forall result uniq,
  (forall fp e i, In (fp, (e, i)) uniq -> (i < length result)%nat) ->
  exists out, filter_duplicates paths result uniq = Ok out.
Proof.
  induction paths as [|p r IH]; intros result uniq Hu; cbn [filter_duplicates]; [eexists; reflexivity|].
  destruct (aget N.eqb (sp_fp p) uniq) as [[cur i]|] eqn:Eg.
  - apply aget_In in Eg as (k' & Hin & _). pose proof (Hu _ _ _ Hin) as Hi.
    destruct (cur <? path_expiration p); [|apply IH; exact Hu].
    destruct (replace_nth_some result i p Hi) as (res' & -> & Hlen).
    apply IH. intros fp e j Hj. rewrite Hlen.
    apply aupd_In in Hj as [Hj|[[_ Hj]|(v0 & Hj & _ & Hv)]].
    + eapply Hu; eauto.
    + inversion Hj; subst. exact Hi.
    + inversion Hv; subst. exact Hi.
  - apply IH. intros fp e j Hj. rewrite app_length. cbn. apply in_app_or in Hj as [Hj|[Hj|[]]].
    + specialize (Hu _ _ _ Hj). lia.
    + inversion Hj; subst. lia.
Qed.

Lemma GInv_edges_ok ord_v ord_e g src dst :
  (forall v l, Permutation (ord_v v l) l) -> (forall v w l, Permutation (ord_e v w l) l) ->
  GInv g -> Forall EdgesOK (get_paths ord_v ord_e g src dst).
Proof.
  intros Hv He Hg. pose proof (get_paths_ok ord_v ord_e Hv He g src dst) as H.
  eapply Forall_impl; [|exact H]. intros s [H1 H2]. split; [|exact H2].
  eapply Forall_impl; [|exact H1]. intros se Hse. exact (proj1 (Hg _ _ _ _ Hse)).
Qed.

Lemma combine_total Hid Hfp ord_v ord_e src dst cores non_cores :
  (forall v l, Permutation (ord_v v l) l) -> (forall v w l, Permutation (ord_e v w l) l) ->
  exists out, combine_paths Hid Hfp ord_v ord_e src dst cores non_cores = Ok out.
Proof.
  intros Hv He. unfold combine_paths, candidate_paths. destruct (src =? dst); [eexists; reflexivity|].
  destruct (add_segments_inv (input_segments Hid cores non_cores) [] GInv_nil) as (g & -> & Hg). cbn [obind].
  destruct (collect_paths_ok Hfp _ (GInv_edges_ok ord_v ord_e g src dst Hv He Hg)) as (ps & -> & _). cbn [obind].
  apply filter_duplicates_ok. intros fp e i [].
Qed.

(** every returned path was produced by [sol_path] *)
Lemma replace_nth_In {A} (l : list A) n x l' y : replace_nth n x l = Some l' -> In y l' -> y = x \/ In y l.
Proof.
  revert n l'; induction l as [|z l IH]; intros n l'; cbn [replace_nth]; [destruct n; discriminate|].
  destruct n; cbn.
  - intros E; inversion E; subst. intros [->|H]; [left; reflexivity|right; right; exact H].
  - destruct (replace_nth n x l) eqn:E; cbn; intros H; [|discriminate H]. inversion H; subst.
    intros [->|Hy]; [right; left; reflexivity|]. destruct (IH _ _ E Hy) as [->|Hy']; [left; reflexivity|right; right; assumption].
Qed.

Lemma filter_duplicates_In paths : forall result uniq out p,
  filter_duplicates paths result uniq = Ok out -> In p out -> In p result \/ In p paths.
Proof.
  induction paths as [|q r IH]; intros result uniq out p; cbn [filter_duplicates].
  - intros E; inversion E; subst. auto.
  - destruct (aget N.eqb (sp_fp q) uniq) as [[cur i]|].
    + destruct (cur <? path_expiration q).
      * destruct (replace_nth i q result) eqn:Er; [|discriminate]. intros H Hp.
        destruct (IH _ _ _ _ H Hp) as [H1|H1]; [|right; right; exact H1].
        destruct (replace_nth_In _ _ _ _ _ Er H1) as [->|H2]; [right; left; reflexivity|left; exact H2].
      * intros H Hp. destruct (IH _ _ _ _ H Hp); auto. right; right; assumption.
    + intros H Hp. destruct (IH _ _ _ _ H Hp) as [H1|H1]; [|right; right; exact H1].
      apply in_app_or in H1 as [H1|[->|[]]]; auto. right; left; reflexivity.
Qed.

Lemma combine_outputs_shape Hid Hfp ord_v ord_e src dst cores non_cores out :
  (forall v l, Permutation (ord_v v l) l) -> (forall v w l, Permutation (ord_e v w l) l) ->
  combine_paths Hid Hfp ord_v ord_e src dst cores non_cores = Ok out ->
  Forall (PathShape Hfp) out.
Proof.
  intros Hv He. unfold combine_paths, candidate_paths. destruct (src =? dst); [intros E; inversion E; constructor|].
  destruct (add_segments_inv (input_segments Hid cores non_cores) [] GInv_nil) as (g & -> & Hg). cbn [obind].
  destruct (collect_paths_ok Hfp _ (GInv_edges_ok ord_v ord_e g src dst Hv He Hg)) as (ps & -> & Hps). cbn [obind].
  intros H. apply Forall_forall. intros p Hp.
  destruct (filter_duplicates_In _ _ _ _ _ H Hp) as [[]|Hin]. rewrite Forall_forall in Hps. auto.
Qed.

(** segments without entries are ignored *)
Lemma add_segment_empty g s : sg_entries (is_seg s) = [] -> add_segment g s = Err tt.
Proof.
  intros E. unfold add_segment, add_core_segment, add_non_core_segment, first_ia, last_ia. rewrite E. cbn.
  destruct (is_kind s); reflexivity.
Qed.
Lemma add_segments_skip_empty l1 s l2 : forall g,
  sg_entries (is_seg s) = [] -> add_segments g (l1 ++ s :: l2) = add_segments g (l1 ++ l2).
Proof.
  induction l1 as [|a l1 IH]; intros g E; cbn [app add_segments].
  - rewrite (add_segment_empty g s E). reflexivity.
  - destruct (add_segment g a); auto.
Qed.
