(** Correspondence driver for C04 / C19: evaluated by [vm_compute] on case files written by
    harness/hc_combine (bin h_combine).  One case = one call of
    sciparse::path::combinator::combine(src, dst, cores, non_cores).  The model is run on the
    same input; SegmentIDs (SHA-256, only their order is observable) are taken from the
    implementation's PathSegment::id(); fingerprints are compared structurally. *)
From Sci Require Export Combine.Model Combine.Spec Combine.Obs Combine.Enum.
Local Open Scope N_scope.

Record ccase := mkCase {
  c_src : N; c_dst : N;
  c_cores : list segment; c_noncores : list segment;
  c_ids : list N;            (* PathSegment::id() of cores ++ non_cores, as 256-bit numbers *)
  c_wf : bool;               (* the generator built a well-formed segment set: C04 oracles apply *)
  c_panic : bool;            (* the implementation panicked *)
  c_stable : bool;           (* repeated calls in fresh HashMaps returned identical results *)
  c_out : list opath;        (* the returned paths, in order *)
  c_bytes0 : list N;         (* raw dp_path bytes of the first returned path ([] if none) *)
  c_has_sub : N;             (* 0: no reference run; 1: the input is "valid set + added segments": the
                                paths of c_sub must be returned in the same relative order; 2: the input
                                is "valid set with added peer entries" (peer indices, a sort key, shift):
                                the routes of c_sub must be returned, in any order (a duplicated peer
                                entry may supersede the hop field, hence the expiry, of a route) *)
  c_sub : list opath;        (* what the implementation returns for the valid subset alone *)
  c_alt : list (list opath) }. (* results of repeated calls that differ from c_out (HashMap order) *)

(** SHA-256 stand-ins for one case *)
Definition case_hid (c : ccase) : list N -> N :=
  let tbl := combine (map id_input (c_cores c ++ c_noncores c)) (c_ids c) in
  fun b => odefault 0 (aget (list_eqb N.eqb) b tbl).
Definition hfp_struct (b : list N) : N := be_val 0 b.
Definition ord_id_v (_ : vertex) (l : vinfo) : vinfo := l.
Definition ord_id_e (_ _ : vertex) (l : emap) : emap := l.

Definition model_run (c : ccase) : res (list spath) :=
  combine_paths (case_hid c) hfp_struct ord_id_v ord_id_e (c_src c) (c_dst c) (c_cores c) (c_noncores c).

Definition ohop_eqb (a b : ohop) : bool :=
  (oh_exp a =? oh_exp b) && (oh_in a =? oh_in b) && (oh_eg a =? oh_eg b) && (oh_mac a =? oh_mac b).
Definition oseg_eqb (a b : oseg) : bool :=
  (os_flags a =? os_flags b) && (os_segid a =? os_segid b) && (os_ts a =? os_ts b)
  && list_eqb ohop_eqb (os_hops a) (os_hops b).
Definition opath_eqb (a b : opath) : bool :=
  (o_src a =? o_src b) && (o_dst a =? o_dst b) && list_eqb oseg_eqb (o_segs a) (o_segs b)
  && (o_exp a =? o_exp b) && (o_mexp a =? o_mexp b) && (o_mtu a =? o_mtu b)
  && list_eqb if_eqb (o_ifs a) (o_ifs b).

(** do two distinct search solutions compare Equal under the sort key?  Then the order of the
    implementation's result depends on HashMap iteration order and only the route set is
    compared. *)
Definition has_ties (l : list solution) : bool := adjacent_ties l.
Definition case_ties (c : ccase) : bool :=
  if c_src c =? c_dst c then false else
  match add_segments [] (input_segments (case_hid c) (c_cores c) (c_noncores c)) with
  | Ok g => has_ties (get_paths ord_id_v ord_id_e g (c_src c) (c_dst c))
  | _ => false
  end.

Definition route_subset (a b : list opath) : bool :=
  forallb (fun p => existsb (same_route p) b) a.

(** byte-level tie: the model's encoding of its first path against the implementation's bytes *)
Definition bytes0_ok (c : ccase) (m : list spath) : bool :=
  match m, c_out c with
  | p :: _, _ :: _ => list_eqb N.eqb (sp_bytes p) (c_bytes0 c)
  | _, _ => true
  end.

(** the implementation's raw bytes of the first path decode (specification decoder) to the
    fields its view accessors report *)
Definition bytes0_decodes (c : ccase) : bool :=
  match c_out c with
  | p :: _ => match decode_std (c_bytes0 c) with
              | Some segs => list_eqb oseg_eqb segs (o_segs p)
              | None => false
              end
  | [] => true
  end.

(** C04 oracles, for cases the generator declares well-formed *)
Definition c04_ok (c : ccase) : bool :=
  sorted_by_hops (c_out c) && no_dup_routes (c_out c)
  && enum_ok (c_cores c) (c_noncores c) (c_src c) (c_dst c) (c_out c)
  && forallb (fun p => loop_free p && ifaces_truthful p
                       && (o_src p =? c_src c) && (o_dst p =? c_dst c)) (c_out c).

Definition verdict (c : ccase) : N :=
  let m := model_run c in
  let ties := case_ties c in
  let mismatch :=
    match m with
    | Panic _ => negb (c_panic c)
    | Err _ => true
    | Ok ps =>
      c_panic c
      || (if ties
          then negb ((length ps =? length (c_out c))%nat
                     && route_subset (map obs_path ps) (c_out c) && route_subset (c_out c) (map obs_path ps))
          else negb (list_eqb opath_eqb (map obs_path ps) (c_out c) && bytes0_ok c ps && c_stable c))
    end in
  (* the generator's claim of well-formedness must be the hypothesis of the C04 theorems *)
  let wf_claim_bad := c_wf c && negb (forallb (fun s => wf_segb s && wf_peersb s) (c_cores c ++ c_noncores c)) in
  let mismatch := mismatch || wf_claim_bad in
  (* hypothesis of combine_sorted_partial, checked on the model's candidates of this case *)
  let sorted_hyp_bad :=
    match candidate_paths (case_hid c) hfp_struct ord_id_v ord_id_e (c_src c) (c_dst c) (c_cores c) (c_noncores c) with
    | Ok cand => negb (fp_cost_consistentb cand && fp_faithfulb cand)
    | _ => false
    end in
  (* combine_sorted: where its decidable hypothesis on the input holds (well-formed, peer hop
     fields distinguishable) the model's result must be sorted by cost *)
  let sorted_thm_bad :=
    c_wf c && peer_sig_distinctb (c_cores c ++ c_noncores c)
    && match m with
       | Ok ps => negb ((fix srt (l : list N) : bool :=
                           match l with a :: ((b :: _) as r) => (a <=? b) && srt r | _ => true end) (map path_cost ps))
       | _ => false
       end in
  let mismatch := mismatch || sorted_hyp_bad || sorted_thm_bad in
  let bad := c_panic c
             || negb (forallb self_consistent (c_out c)) || negb (bytes0_decodes c)
             || negb (forallb (provenance_ok (c_cores c ++ c_noncores c)) (c_out c))
             (* de-duplication keeps the latest expiry: on every observed run, for structurally
                well-formed segment sets (incl. several copies of a segment with other timestamps) *)
             || (forallb (fun s => wf_segb s && wf_peersb s) (c_cores c ++ c_noncores c)
                 && negb (c_panic c)
                 && negb (forallb (expiry_max_ok (c_cores c) (c_noncores c) (c_src c) (c_dst c)) (c_out c :: c_alt c)))
             || ((c_has_sub c =? 1) && negb ties && negb (route_subseq (c_sub c) (c_out c)))
             || ((c_has_sub c =? 2) && negb (forallb (fun p => existsb (same_route p) (c_out c)) (c_sub c)))
             || (c_wf c && negb (c04_ok c)) in
  (if mismatch then 1 else 0) + (if bad then 2 else 0).

Definition verdicts (cs : list ccase) : list N := map verdict cs.
