(** C04 soundness: every returned path is a valid combination in the sense of [SpecRules]. *)
From Sci Require Import Combine.Model Combine.SpecRules Combine.Proofs Combine.ProofsEnc Combine.ProofsC19 Combine.ProofsBound
  Combine.ProofsC04 Combine.ProofsPath Combine.ProofsWF Common.ListAux.
From Coq Require Import Lia ZifyBool ZifyNat ZifyN Permutation.
Local Open Scope N_scope.

Definition jn (v : vertex) : junction :=
  match v with VAS a => JAS a | VPeer a b c d => JLink a b c d end.

Definition use_of_edge (e : sedge) : seguse :=
  mkUse (is_kind (se_seg e)) (is_seg (se_seg e)) (e_idx (se_edge e)) (e_peer (se_edge e))
        (if edge_cons_dir e then Along else Against).

Lemma edge_valid_use e :
  EdgeFull (se_src e) (se_dst e) (se_seg e) (se_edge e) ->
  ValidUse (use_of_edge e) (jn (se_src e)) (jn (se_dst e)).
Proof.
  intros (_ & _ & leaf & ae & Hleaf & Hae & Hv). exists leaf, ae. unfold use_of_edge; cbn [u_seg u_from u_peer u_kind u_dir].
  split; [exact Hleaf|]. split; [exact Hae|]. unfold edge_cons_dir. rewrite Hleaf.
  destruct (e_peer (se_edge e)) as [pi|].
  - destruct Hv as (Hk & p & Hp & Hv). split; [exact Hk|]. exists p. split; [exact Hp|].
    destruct Hv as [[-> ->]|[-> ->]]; cbn [vertex_ia jn]; [auto|]. rewrite N.eqb_refl. auto.
  - destruct Hv as (Hv & Hc & Hn). split; [exact Hc|]. split; [exact Hn|].
    destruct Hv as [[-> ->]|[-> ->]]; cbn [vertex_ia jn].
    + destruct (N.eqb_spec (ae_ia ae) leaf) as [E|E]; [rewrite E|]; auto.
    + rewrite N.eqb_refl. auto.
Qed.

Lemma chain_chained v0 l :
  chain_ok v0 l -> Forall (fun e => EdgeFull (se_src e) (se_dst e) (se_seg e) (se_edge e)) l ->
  Chained (jn v0) (map use_of_edge l) (jn (end_vertex v0 l)).
Proof.
  revert v0; induction l as [|e r IH]; intros v0; cbn [chain_ok map Chained end_vertex]; [reflexivity|].
  intros [Hs Hc] Hf. inversion Hf; subst. exists (jn (se_dst e)). split; [apply edge_valid_use; assumption|].
  apply IH; assumption.
Qed.

Lemma kind_non_core s : is_non_core s = true -> is_kind s = NonCore.
Proof. unfold is_non_core, is_core. destruct (is_kind s); [discriminate|reflexivity]. Qed.
Lemma kind_core s : is_core s = true -> is_kind s = Core.
Proof. unfold is_core. destruct (is_kind s); [reflexivity|discriminate]. Qed.

Lemma kinds_allowed_of l : l <> [] -> kinds_ok l -> kinds_allowed (map use_of_edge l).
Proof.
  intros Hne Hk. unfold kinds_allowed. destruct l as [|a [|b [|c [|d r]]]]; cbn [map use_of_edge u_kind kinds_ok] in *.
  - congruence.
  - exact I.
  - destruct Hk as [H|H]; apply kind_non_core in H; auto.
  - destruct Hk as (H1 & H2 & H3). rewrite (kind_non_core _ H1), (kind_core _ H2), (kind_non_core _ H3). auto.
  - destruct Hk.
Qed.

Lemma from_input_of Hid cores non_cores e :
  In (se_seg e) (input_segments Hid cores non_cores) -> from_input cores non_cores (use_of_edge e).
Proof.
  unfold input_segments, from_input, use_of_edge; cbn [u_kind u_seg]. intros H.
  apply in_app_or in H as [H|H]; apply in_map_iff in H as (x & <- & H); cbn; exact H.
Qed.

(** hop fields *)
Lemma skipn_combine {A B} n (a : list A) (b : list B) : skipn n (combine a b) = combine (skipn n a) (skipn n b).
Proof.
  revert a b; induction n as [|n IH]; intros a b; [reflexivity|].
  destruct a as [|x a], b as [|y b]; cbn [skipn combine]; try reflexivity; [|apply IH].
  destruct (skipn n a); reflexivity.
Qed.
Lemma skipn_seq n s len : skipn n (seq s len) = seq (s + n) (len - n).
Proof.
  revert s len; induction n as [|n IH]; intros s len; cbn [skipn]; [rewrite Nat.add_0_r, Nat.sub_0_r; reflexivity|].
  destruct len; cbn [seq]; [reflexivity|]. rewrite IH. f_equal; lia.
Qed.

Lemma map_item_hf_rest idx pr l : forall s n, (idx < s)%nat ->
  map (item_hf idx pr) (combine (seq s n) l) = map ae_hf (firstn n l).
Proof.
  induction l as [|a l IH]; intros s n Hs; destruct n; cbn; try reflexivity.
  rewrite IH by lia. f_equal. unfold item_hf, item_peer. cbn [fst snd].
  destruct pr; [|reflexivity]. destruct (Nat.eqb_spec s idx); [lia|reflexivity].
Qed.

Lemma edge_hops_use e :
  (e_idx (se_edge e) < seg_len (is_seg (se_seg e)))%nat -> edge_hops e = use_hops (use_of_edge e).
Proof.
  intros Hidx. unfold edge_hops, use_hops, use_of_edge, edge_items, orient. cbn [u_seg u_from u_peer u_dir].
  set (es := sg_entries (is_seg (se_seg e))) in *. set (idx := e_idx (se_edge e)) in *. unfold seg_len in Hidx. fold es in Hidx.
  rewrite map_rev. unfold enumerate. rewrite skipn_combine, skipn_seq. cbn [Nat.add].
  destruct (skipn idx es) as [|ae rest] eqn:Esk.
  { apply (f_equal (@length _)) in Esk. rewrite skipn_length in Esk. cbn in Esk. lia. }
  assert (Hlen : (length es - idx = S (length rest))%nat).
  { apply (f_equal (@length _)) in Esk. rewrite skipn_length in Esk. cbn in Esk. lia. }
  rewrite Hlen. cbn [seq combine map].
  rewrite (map_item_hf_rest idx (e_peer (se_edge e)) rest (S idx) (length rest)) by lia. rewrite firstn_all.
  assert (Hfirst : item_hf idx (e_peer (se_edge e)) (idx, ae) =
                   match e_peer (se_edge e) with
                   | Some pi => match nth_error (ae_peers ae) pi with Some p => pe_hf p | None => ae_hf ae end
                   | None => ae_hf ae
                   end).
  { unfold item_hf, item_peer. cbn [fst snd]. destruct (e_peer (se_edge e)); [|reflexivity]. rewrite Nat.eqb_refl. reflexivity. }
  rewrite Hfirst. destruct (edge_cons_dir e); [rewrite rev_involutive|]; reflexivity.
Qed.

(** per-segment correspondence between the encoded path and the uses *)
Definition SegOfUse (d : dpseg) (u : seguse) : Prop :=
  ds_hops d = use_hops u /\ ds_ts d = sg_ts (u_seg u)
  /\ seg_cons_dir d = use_cons_dir u /\ seg_peering d = use_peering u.

Lemma edges_fold_uses l : forall st st',
  Forall (fun e => (e_idx (se_edge e) < seg_len (is_seg (se_seg e)))%nat) l ->
  ofold edge_step l st = Ok st' ->
  exists ds, ps_segs st' = ps_segs st ++ ds /\ Forall2 SegOfUse ds (map use_of_edge l).
Proof.
  induction l as [|e l IH]; intros st st' Hl; cbn [ofold map].
  - intros E; inversion E; subst. exists []. rewrite app_nil_r. split; [reflexivity|constructor].
  - inversion Hl; subst. intros H. apply bind_ok in H as (st1 & Hst1 & H).
    apply edge_step_pure in Hst1 as (_ & _ & d & Hd & Hh & Ht & Hfl).
    destruct (IH _ _ ltac:(assumption) H) as (ds & Hds & Hall). exists (d :: ds). rewrite Hds, Hd, <- app_assoc. split; [reflexivity|].
    constructor; [|exact Hall]. unfold SegOfUse, use_of_edge, seg_cons_dir, seg_peering, use_cons_dir, use_peering.
    cbn [u_seg u_dir u_peer]. rewrite Hfl.
    destruct (flags_bits (edge_cons_dir e) (match e_peer (se_edge e) with Some _ => true | None => false end)) as [F0 F1].
    rewrite F0, F1, Hh, Ht. split; [apply edge_hops_use; assumption|]. split; [reflexivity|].
    split; [destruct (edge_cons_dir e); reflexivity|reflexivity].
Qed.

Lemma combine_sound_lemma Hid Hfp ord_v ord_e src dst cores non_cores out p :
  (forall v l, Permutation (ord_v v l) l) -> (forall v w l, Permutation (ord_e v w l) l) ->
  combine_paths Hid Hfp ord_v ord_e src dst cores non_cores = Ok out -> In p out ->
  exists uses, ValidCombination cores non_cores src dst uses /\ Forall2 SegOfUse (sp_segs p) uses.
Proof.
  intros Hv He H Hp.
  destruct (combine_stages _ _ _ _ _ _ _ _ _ H) as [[_ ->]|(g & cand & _ & Hg & HI & Hcand & Hcol & Hf)]; [destruct Hp|].
  destruct (collect_paths_sorted Hfp _ _ (get_paths_sorted ord_v ord_e g src dst)
              (get_paths_full ord_v ord_e Hv He g src dst HI) (get_paths_cost ord_v ord_e g src dst) Hcol) as [_ Hall].
  destruct (filter_duplicates_In _ _ _ _ _ Hf Hp) as [[]|Hin].
  rewrite Forall_forall in Hall. destruct (Hall p Hin) as (s & Hs & Hsp & _).
  pose proof (get_paths_chain ord_v ord_e g src dst) as Hch. rewrite Forall_forall in Hch. destruct (Hch s Hs) as [(C1 & C2 & C3) Hcur].
  pose proof (get_paths_full ord_v ord_e Hv He g src dst HI) as Hfull. rewrite Forall_forall in Hfull. specialize (Hfull s Hs).
  pose proof (get_paths_ok ord_v ord_e Hv He g src dst) as Hok. rewrite Forall_forall in Hok. destruct (Hok s Hs) as [Hin_g _].
  destruct (sol_path_ends _ _ _ Hsp) as (st & f & l & Hst & _ & _ & _ & _ & _ & Hsegs).
  exists (map use_of_edge (so_edges s)). split.
  - split; [|split].
    + apply kinds_allowed_of; [|exact C3]. intros E. unfold sol_path in Hsp. rewrite E in Hsp. discriminate.
    + apply Forall_forall. intros u Hu. apply in_map_iff in Hu as (e & <- & Hedge).
      apply (from_input_of Hid). unfold sol_in in Hin_g. rewrite Forall_forall in Hin_g. specialize (Hin_g e Hedge). unfold sedge_in in Hin_g.
      destruct (add_segments_from _ _ _ Hg _ _ _ _ Hin_g) as [(vi & em & [] & _)|Hmem]. exact Hmem.
    + pose proof (chain_chained (VAS src) (so_edges s) C1 Hfull) as Hc. rewrite <- C2, Hcur in Hc. exact Hc.
  - destruct (edges_fold_uses (so_edges s) _ _ ltac:(eapply Forall_impl; [|exact Hfull]; intros e (Hok' & _); exact (proj1 Hok')) Hst)
      as (ds & Hds & Hall'). cbn [ps_segs app] in Hds. rewrite Hsegs, Hds. exact Hall'.
Qed.
