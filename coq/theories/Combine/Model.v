(** Model of crates/libs/sciparse/src/scion/path/combinator.rs and combinator/graph.rs
    (combine_with_weight_fn with weight number_of_hops, MultiGraph::{add_segments,
    add_core_segment, add_non_core_segment, add_directed_edge, get_paths},
    PathSolution::{try_add_edge, valid_next_seg, path}, SolutionEdge::initialize_segment_id,
    has_loops, filter_duplicates), of StandardPath::{expiration, wire_valid, encode} and of the
    size test of StandardPathView::try_from_boxed as far as [path()] uses them.
    Definitions only; statement by statement; every expect / unwrap / index / subtraction /
    try_push of the Rust code is an explicit [Panic] site.

    Modelled tree: /repo with the C19 repair (a solution with an empty or odd interface
    list yields Ok(None); the unrepaired code panicked at interfaces.first().expect(..) on the
    empty list and returned paths with an odd interface list) and the C04 repair (the AS MTU
    saturates at 65535 instead of wrapping: `as_entry.mtu as u16`).

    Parameters (Section variables):
    - [Hid]  : SHA-256 as used by PathSegment::id (only the ORDER of ids is observable: final
               tie-break of the sort);
    - [Hfp]  : SHA-256 as used by DpPathFingerprint (only EQUALITY is observable);
    - [ord_v], [ord_e] : the iteration order of the two std::collections::HashMap levels in
               get_paths (RandomState: unspecified).  The C19 theorems hold for every
               choice; C04 proves the result does not depend on them for well-formed input.
    usize / u64 arithmetic is modelled without the 2^64 wrap: the quantities are list
    lengths and sums of at most three of them. *)
From Sci Require Export Common.Outcome Gen.CombineConfig.
Local Open Scope N_scope.

(** * Input data (segment.rs) *)
Record hopf := mkHF { hf_exp : N; hf_in : N; hf_eg : N; hf_mac : N (* 6 bytes, big endian *) }.
Record peer := mkPE { pe_ia : N; pe_if : N; pe_mtu : N; pe_hf : hopf }.
Record asentry := mkAE {
  ae_ia : N; ae_next : N; ae_mtu : N (* u32 *); ae_imtu : N (* hop_entry.ingress_mtu *);
  ae_hf : hopf; ae_peers : list peer }.
Record segment := mkSeg { sg_ts : N; sg_id : N; sg_entries : list asentry }.

Inductive kind := Core | NonCore.

(** graph.rs InputSegment: segment reference, kind and the pre-computed SegmentID *)
Record iseg := mkIS { is_kind : kind; is_seg : segment; is_id : N }.

(* derived PartialEq *)
Definition hopf_eqb (a b : hopf) : bool :=
  (hf_exp a =? hf_exp b) && (hf_in a =? hf_in b) && (hf_eg a =? hf_eg b) && (hf_mac a =? hf_mac b).
Definition peer_eqb (a b : peer) : bool :=
  (pe_ia a =? pe_ia b) && (pe_if a =? pe_if b) && (pe_mtu a =? pe_mtu b) && hopf_eqb (pe_hf a) (pe_hf b).
Definition asentry_eqb (a b : asentry) : bool :=
  (ae_ia a =? ae_ia b) && (ae_next a =? ae_next b) && (ae_mtu a =? ae_mtu b) && (ae_imtu a =? ae_imtu b)
  && hopf_eqb (ae_hf a) (ae_hf b) && list_eqb peer_eqb (ae_peers a) (ae_peers b).
Definition segment_eqb (a b : segment) : bool :=
  (sg_ts a =? sg_ts b) && (sg_id a =? sg_id b) && list_eqb asentry_eqb (sg_entries a) (sg_entries b).
Definition kind_eqb (a b : kind) : bool :=
  match a, b with Core, Core | NonCore, NonCore => true | _, _ => false end.
Definition iseg_eqb (a b : iseg) : bool :=
  kind_eqb (is_kind a) (is_kind b) && (is_id a =? is_id b) && segment_eqb (is_seg a) (is_seg b).

Definition is_core (s : iseg) : bool := match is_kind s with Core => true | _ => false end.
Definition is_non_core (s : iseg) : bool := negb (is_core s).

Definition seg_len (s : segment) : nat := length (sg_entries s).
Definition first_ia (s : segment) : option N := option_map ae_ia (hd_error (sg_entries s)).
Definition last_ia (s : segment) : option N := option_map ae_ia (hd_error (rev (sg_entries s))).

(** bytes hashed by PathSegment::id *)
Definition id_input (s : segment) : list N :=
  flat_map (fun ae => be_bytes 8 (ae_ia ae) ++ be_bytes 2 (hf_in (ae_hf ae)) ++ be_bytes 2 (hf_eg (ae_hf ae)))
           (sg_entries s).

(** * Graph *)
Inductive vertex := VAS (ia : N) | VPeer (lia lif pia pif : N).
Definition vertex_eqb (a b : vertex) : bool :=
  match a, b with
  | VAS x, VAS y => x =? y
  | VPeer a1 a2 a3 a4, VPeer b1 b2 b3 b4 => (a1 =? b1) && (a2 =? b2) && (a3 =? b3) && (a4 =? b4)
  | _, _ => false
  end.
Definition vertex_ia (v : vertex) : option N := match v with VAS x => Some x | _ => None end.

Record edge := mkEdge { e_weight : N; e_idx : nat; e_peer : option nat }.

Definition emap := list (iseg * edge).
Definition vinfo := list (vertex * emap).
Definition graph := list (vertex * vinfo).

(** HashMap::entry(k).or_default() followed by an update / HashMap::insert: an association
    list with replace-in-place (an existing key is kept) and append for a new key *)
Fixpoint aupd {K V} (eqb : K -> K -> bool) (k : K) (f : option V -> V) (l : list (K * V)) : list (K * V) :=
  match l with
  | [] => [(k, f None)]
  | (k', v) :: r => if eqb k' k then (k', f (Some v)) :: r else (k', v) :: aupd eqb k f r
  end.
Fixpoint aget {K V} (eqb : K -> K -> bool) (k : K) (l : list (K * V)) : option V :=
  match l with
  | [] => None
  | (k', v) :: r => if eqb k' k then Some v else aget eqb k r
  end.
Definition odefault {A} (d : A) (o : option A) : A := match o with Some a => a | None => d end.

Definition add_directed_edge (g : graph) (src dst : vertex) (s : iseg) (e : edge) : graph :=
  aupd vertex_eqb src (fun ov =>
    aupd vertex_eqb dst (fun oe => aupd iseg_eqb s (fun _ => e) (odefault [] oe)) (odefault [] ov)) g.

Definition add_edge (g : graph) (src dst : vertex) (s : iseg) (e : edge) : graph :=
  add_directed_edge (add_directed_edge g src dst s e) dst src s e.

(* panic sites *)
Definition P_WEIGHT_SUB := 1.   (* number_of_hops: len - 1 - shortcut_idx *)
Definition P_LEN_SUB := 2.      (* len() - 1 in add_non_core_segment / initialize_segment_id *)
Definition P_CAP_SUB := 3.      (* path(): len() - shortcut_idx *)
Definition P_PEER_IDX := 4.     (* peer_entries.get(peer_idx).expect *)
Definition P_LAST_IA := 5.      (* last_ia().expect *)
Definition P_SLICE := 6.        (* as_entries[..stop_at] *)
Definition P_TRY_PUSH := 7.     (* path.segments.try_push *)
Definition P_EXP := 8.          (* exp duration try_into u32 *)
Definition P_VIEW := 9.         (* StandardPathView::try_from_boxed(..).expect *)
Definition P_IFACES := 10.      (* interfaces.first().expect -- removed by the repair *)
Definition P_META := 11.        (* has_loops: metadata / interfaces unwrap *)
Definition P_RESULT_IDX := 12.  (* filter_duplicates: path_result[idx] *)

Definition res (A : Type) := outcome A unit.

Definition checked_sub (site : N) (a b : nat) : res nat :=
  if (a <? b)%nat then Panic site else Ok (a - b)%nat.

(** number_of_hops(segment, shortcut_idx, towards_peer) *)
Definition number_of_hops (s : iseg) (idx : nat) (towards_peer : bool) : res N :=
  x <- checked_sub P_WEIGHT_SUB (seg_len (is_seg s)) 1 ;;
  w <- checked_sub P_WEIGHT_SUB x idx ;;
  Ok (if towards_peer then N.of_nat w + 1 else N.of_nat w).

(** add_core_segment: Err = "Segment does not contain any hops" *)
Definition add_core_segment (g : graph) (s : iseg) : res graph :=
  match first_ia (is_seg s), last_ia (is_seg s) with
  | Some f, Some l =>
    w <- number_of_hops s 0 false ;;
    Ok (add_edge g (VAS f) (VAS l) s (mkEdge w 0 None))
  | _, _ => Err tt
  end.

Fixpoint ofold {A B} (f : B -> A -> res B) (l : list A) (b : B) : res B :=
  match l with
  | [] => Ok b
  | a :: r => b' <- f b a ;; ofold f r b'
  end.

Definition enumerate {A} (l : list A) : list (nat * A) := combine (seq 0 (length l)) l.

Definition add_peer_edges (s : iseg) (leaf : N) (idx : nat) (local : N) (g : graph) (pp : nat * peer) : res graph :=
  let '(peer_idx, p) := pp in
  w1 <- number_of_hops s idx true ;;
  let g1 := add_directed_edge g (VAS leaf) (VPeer local (hf_in (pe_hf p)) (pe_ia p) (pe_if p)) s
                              (mkEdge w1 idx (Some peer_idx)) in
  w2 <- number_of_hops s idx false ;;
  Ok (add_directed_edge g1 (VPeer (pe_ia p) (pe_if p) local (hf_in (pe_hf p))) (VAS leaf) s
                        (mkEdge w2 idx (Some peer_idx))).

Definition add_non_core_entry (s : iseg) (leaf : N) (g : graph) (ie : nat * asentry) : res graph :=
  let '(idx, entry) := ie in
  lm1 <- checked_sub P_LEN_SUB (seg_len (is_seg s)) 1 ;;
  g1 <- (if negb (Nat.eqb idx lm1) then
           w <- number_of_hops s idx false ;;
           Ok (add_edge g (VAS leaf) (VAS (ae_ia entry)) s (mkEdge w idx None))
         else Ok g) ;;
  ofold (add_peer_edges s leaf idx (ae_ia entry)) (enumerate (ae_peers entry)) g1.

Definition add_non_core_segment (g : graph) (s : iseg) : res graph :=
  match last_ia (is_seg s) with
  | None => Err tt
  | Some leaf => ofold (add_non_core_entry s leaf) (rev (enumerate (sg_entries (is_seg s)))) g
  end.

Definition add_segment (g : graph) (s : iseg) : res graph :=
  match is_kind s with Core => add_core_segment g s | NonCore => add_non_core_segment g s end.

(** add_segments: a segment whose add_segment returns Err is skipped *)
Fixpoint add_segments (g : graph) (l : list iseg) : res graph :=
  match l with
  | [] => Ok g
  | s :: r =>
    match add_segment g s with
    | Ok g' => add_segments g' r
    | Err _ => add_segments g r
    | Panic p => Panic p
    end
  end.

(** * Search *)
Record sedge := mkSE { se_edge : edge; se_src : vertex; se_dst : vertex; se_seg : iseg }.
Record solution := mkSol { so_edges : list sedge; so_cur : vertex; so_cost : N }.

Definition sol_new (v : vertex) : solution := mkSol [] v 0.

Definition valid_next_seg (sol : solution) (s : iseg) : bool :=
  match so_edges sol with
  | [] => true
  | [last] => is_non_core (se_seg last) || is_non_core s
  | [first; second] => is_non_core (se_seg first) && is_core (se_seg second) && is_non_core s
  | _ => false
  end.

Definition try_add_edge (sol : solution) (e : sedge) : option solution :=
  if negb (valid_next_seg sol (se_seg e)) then None
  else Some (mkSol (so_edges sol ++ [e]) (se_dst e) (so_cost sol + e_weight (se_edge e))).

(** Ord for Option<usize>, usize reversed, SegmentID *)
Definition cmp_opt_nat (a b : option nat) : comparison :=
  match a, b with
  | None, None => Eq | None, Some _ => Lt | Some _, None => Gt
  | Some x, Some y => Nat.compare x y
  end.
Definition cmp_then (c d : comparison) : comparison := match c with Eq => d | _ => c end.

Definition cmp_sedge (a b : sedge) : comparison :=
  cmp_then (cmp_opt_nat (e_peer (se_edge a)) (e_peer (se_edge b)))
  (cmp_then (Nat.compare (e_idx (se_edge b)) (e_idx (se_edge a)))
            (N.compare (is_id (se_seg a)) (is_id (se_seg b)))).

Fixpoint cmp_edges (a b : list sedge) : comparison :=
  match a, b with
  | x :: a', y :: b' => cmp_then (cmp_sedge x y) (cmp_edges a' b')
  | _, _ => Eq
  end.

Definition cmp_sol (a b : solution) : comparison :=
  cmp_then (cmp_then (N.compare (so_cost a) (so_cost b))
                     (Nat.compare (length (so_edges a)) (length (so_edges b))))
           (cmp_edges (so_edges a) (so_edges b)).

(** slice::sort_by is a stable sort; for a total preorder every stable sort returns the same
    list, modelled as insertion sort *)
Fixpoint insert_by {A} (cmp : A -> A -> comparison) (x : A) (l : list A) : list A :=
  match l with
  | [] => [x]
  | y :: r => match cmp x y with Gt => y :: insert_by cmp x r | _ => x :: l end
  end.
Definition sort_by {A} (cmp : A -> A -> comparison) (l : list A) : list A :=
  fold_right (insert_by cmp) [] l.

(** * Output data *)
Record dpseg := mkDS { ds_flags : N; ds_segid : N; ds_ts : N; ds_hops : list hopf }.
Definition iface := (N * N)%type.       (* PathInterface: isd_asn, id *)
Record meta := mkMeta { md_exp : N; md_mtu : N; md_ifaces : option (list iface) }.
Record spath := mkPath {
  sp_src : N; sp_dst : N;
  sp_segs : list dpseg;     (* the StandardPath model that was encoded *)
  sp_bytes : list N;        (* dp_path: the encoded bytes held by the view *)
  sp_meta : option meta;
  sp_fp : N;                (* _fingerprint *)
  sp_exp : option N }.      (* _expiration, from the view *)

(** StandardPath::expiration *)
Definition exp_secs (units : N) : N :=
  ((EXP_UNIT_SECS * 1000000000 + EXP_UNIT_NANOS) * (units + 1)) / 1000000000.
Definition U32_MAX : N := 4294967295.
Fixpoint min_list (d : N) (l : list N) : N :=
  match l with [] => d | x :: r => N.min x (min_list d r) end.
Fixpoint std_expiration (acc : N) (segs : list dpseg) : res N :=
  match segs with
  | [] => Ok acc
  | s :: r =>
    match ds_hops s with
    | [] => Ok 0
    | h :: hs =>
      let units := min_list (hf_exp h) (map hf_exp hs) in
      let d := exp_secs (units mod 256) in          (* expiration_units is a u8 *)
      if U32_MAX <? d then Panic P_EXP
      else std_expiration (N.min acc (N.min U32_MAX (ds_ts s + d))) r
    end
  end.

(** StandardPath::wire_valid / encode *)
Definition seg_size_u8 (segs : list dpseg) (i : nat) : N :=
  match nth_error segs i with Some s => N.of_nat (length (ds_hops s)) mod 256 | None => 0 end.
Definition data_size (s0 s1 s2 : N) : N :=
  INFO_BYTES * ((if 0 <? s0 then 1 else 0) + (if 0 <? s1 then 1 else 0) + (if 0 <? s2 then 1 else 0))
  + HOP_BYTES * (s0 + s1 + s2).
Definition required_size (segs : list dpseg) : N :=
  META_BYTES + data_size (seg_size_u8 segs 0) (seg_size_u8 segs 1) (seg_size_u8 segs 2).

Definition wire_valid (segs : list dpseg) : bool :=
  negb (MAX_PATH_BYTES <? required_size segs)
  && negb (MAX_SEGMENTS <? N.of_nat (length segs))
  && negb (match segs with [] => true | _ => false end)
  && (0 <? N.of_nat (length (flat_map ds_hops segs)))       (* current_hop_field = 0 < hop count *)
  && forallb (fun s => negb (MAX_SEGMENT_HOPS <? N.of_nat (length (ds_hops s)))
                       && negb (match ds_hops s with [] => true | _ => false end)) segs.

(** big-endian bit-range write of [v] (truncated to the field width) into a word of [total] bits *)
Definition put (total : N) (rng : N * N) (v : N) : N :=
  (v mod 2 ^ snd rng) * 2 ^ (total - fst rng - snd rng).
Definition get (total : N) (rng : N * N) (w : N) : N :=
  (w / 2 ^ (total - fst rng - snd rng)) mod 2 ^ snd rng.

Definition enc_meta (s0 s1 s2 : N) : list N :=
  be_bytes 4 (put 32 CURR_INFO_FIELD_RNG 0 + put 32 CURR_HOP_FIELD_RNG 0
              + put 32 SEG0_LEN_RNG s0 + put 32 SEG1_LEN_RNG s1 + put 32 SEG2_LEN_RNG s2).
Definition enc_info (s : dpseg) : list N :=
  be_bytes 8 (put 64 (0, 8) (ds_flags s) + put 64 SEGMENT_ID_RNG (ds_segid s) + put 64 TIMESTAMP_RNG (ds_ts s)).
Definition enc_hop (h : hopf) : list N :=
  be_bytes 12 (put 96 (0, 8) 0 + put 96 EXP_TIME_RNG (hf_exp h) + put 96 CONS_INGRESS_RNG (hf_in h)
               + put 96 CONS_EGRESS_RNG (hf_eg h) + put 96 MAC_RNG (hf_mac h)).
Definition encode_std (segs : list dpseg) : list N :=
  enc_meta (seg_size_u8 segs 0) (seg_size_u8 segs 1) (seg_size_u8 segs 2)
  ++ flat_map enc_info segs ++ flat_map enc_hop (flat_map ds_hops segs).

(** size test of StandardPathView::try_from_boxed (StdPathLayout::try_from_slice + exact size) *)
Definition view_size_ok (b : list N) : bool :=
  if N.of_nat (length b) <? META_BYTES then false else
  let w := be_val 0 (firstn 4 b) in
  N.of_nat (length b) =? META_BYTES + data_size (get 32 SEG0_LEN_RNG w) (get 32 SEG1_LEN_RNG w) (get 32 SEG2_LEN_RNG w).

(** bytes hashed by DpPathFingerprint::from_dp_path for a standard path *)
Definition fp_input (src dst : N) (segs : list dpseg) : list N :=
  1 :: be_bytes 8 src ++ be_bytes 8 dst
    ++ flat_map (fun h => be_bytes 2 (hf_in h) ++ be_bytes 2 (hf_eg h)) (flat_map ds_hops segs).

Definition has_flag (cond : bool) (bit : N) : N := if cond then bit else 0.

Section WithOracles.
Variable Hid : list N -> N.
Variable Hfp : list N -> N.
Variable ord_v : vertex -> vinfo -> vinfo.
Variable ord_e : vertex -> vertex -> emap -> emap.

Definition new_core (s : segment) : iseg := mkIS Core s (Hid (id_input s)).
Definition new_non_core (s : segment) : iseg := mkIS NonCore s (Hid (id_input s)).

(** one iteration of the while loop of get_paths: the candidates in HashMap iteration order *)
Definition candidates (g : graph) (sol : solution) : list sedge :=
  match aget vertex_eqb (so_cur sol) g with
  | None => []
  | Some vi =>
    flat_map (fun '(nv, em) =>
                map (fun '(s, e) => mkSE e (so_cur sol) nv s) (ord_e (so_cur sol) nv em))
             (ord_v (so_cur sol) vi)
  end.

(** (pushed to the queue, pushed to the solutions), both in order *)
Definition expand (g : graph) (dst : N) (sol : solution) : list solution * list solution :=
  let news := flat_map (fun c => match try_add_edge sol c with Some s => [s] | None => [] end)
                       (candidates g sol) in
  (filter (fun s => negb (vertex_eqb (so_cur s) (VAS dst))) news,
   filter (fun s => vertex_eqb (so_cur s) (VAS dst)) news).

(** the FIFO loop processes the queue level by level (all solutions with k edges before any
    with k+1 edges) and appends children in processing order; [bfs] is that order *)
Fixpoint bfs (g : graph) (dst : N) (fuel : nat) (queue : list solution) : list solution :=
  match fuel with
  | O => []
  | S f =>
    let ex := map (expand g dst) queue in
    flat_map snd ex ++ bfs g dst f (flat_map fst ex)
  end.

(** the loop as written: pop_front, push_back; fuel = number of pops allowed *)
Fixpoint bfs_worklist (g : graph) (dst : N) (fuel : nat) (queue sols : list solution) : option (list solution) :=
  match queue with
  | [] => Some sols
  | s :: q =>
    match fuel with
    | O => None
    | S f => let '(cs, ss) := expand g dst s in bfs_worklist g dst f (q ++ cs) (sols ++ ss)
    end
  end.

Definition get_paths (g : graph) (src dst : N) : list solution :=
  sort_by cmp_sol (bfs g dst 4 [sol_new (VAS src)]).

(** * PathSolution::path *)
Record hstate := mkHS { hs_mtu : N; hs_ifs : list iface; hs_hops : list hopf }.

Definition hop_step (sidx : nat) (pr : option nat) (st : hstate) (it : nat * asentry) : res hstate :=
  let '(idx, ae) := it in
  let at_sc := Nat.eqb idx sidx in
  let is_shortcut := at_sc && negb (Nat.eqb idx 0) in
  let regular :=
    Ok (ae_hf ae, if negb (ae_imtu ae =? 0) && negb is_shortcut then N.min (hs_mtu st) (ae_imtu ae) else hs_mtu st) in
  hm <- match pr with
        | Some pi =>
          if at_sc then
            match nth_error (ae_peers ae) pi with
            | None => Panic P_PEER_IDX
            | Some p => Ok (pe_hf p, N.min (hs_mtu st) (pe_mtu p))
            end
          else regular
        | None => regular
        end ;;
  let '(hf, mtu1) := hm in
  let ifs1 := if negb (hf_eg hf =? 0) then hs_ifs st ++ [(ae_ia ae, hf_eg hf)] else hs_ifs st in
  let is_peer := at_sc && match pr with Some _ => true | None => false end in
  let ifs2 := if negb (hf_in hf =? 0) && (negb is_shortcut || is_peer)
              then ifs1 ++ [(ae_ia ae, hf_in hf)] else ifs1 in
  Ok (mkHS (N.min mtu1 (N.min (ae_mtu ae) 65535)) ifs2 (hs_hops st ++ [hf])).   (* repaired: was `as u16` *)

(** dst.ia().is_some_and(|dst| dst == last_ia().expect(..)) *)
Definition in_cons_dir (e : sedge) : res bool :=
  match vertex_ia (se_dst e) with
  | None => Ok false
  | Some d =>
    match last_ia (is_seg (se_seg e)) with
    | None => Panic P_LAST_IA
    | Some l => Ok (d =? l)
    end
  end.

Definition mac_hi16 (h : hopf) : N := (hf_mac h / 2 ^ 32) mod 65536.

Definition initialize_segment_id (e : sedge) : res N :=
  ico <- in_cons_dir e ;;
  let s := is_seg (se_seg e) in
  stop0 <- (if ico then Ok (e_idx (se_edge e)) else checked_sub P_LEN_SUB (seg_len s) 1) ;;
  let stop_at := match e_peer (se_edge e) with
                 | Some _ => if Nat.eqb (e_idx (se_edge e)) stop0 then S stop0 else stop0
                 | None => stop0
                 end in
  if (seg_len s <? stop_at)%nat then Panic P_SLICE
  else Ok (fold_left (fun beta ae => N.lxor beta (mac_hi16 (ae_hf ae))) (firstn stop_at (sg_entries s)) (sg_id s)).

Record pstate := mkPS { ps_mtu : N; ps_segs : list dpseg; ps_ifs : list iface }.

Definition edge_step (st : pstate) (e : sedge) : res pstate :=
  let s := is_seg (se_seg e) in
  let sidx := e_idx (se_edge e) in
  _cap <- checked_sub P_CAP_SUB (seg_len s) sidx ;;
  hs <- ofold (hop_step sidx (e_peer (se_edge e))) (rev (skipn sidx (enumerate (sg_entries s))))
              (mkHS (ps_mtu st) [] []) ;;
  cons_dir <- in_cons_dir e ;;
  let hops := if cons_dir then rev (hs_hops hs) else hs_hops hs in
  let sifs := if cons_dir then rev (hs_ifs hs) else hs_ifs hs in
  let flags := has_flag cons_dir INFO_CONS_DIR
               + has_flag (match e_peer (se_edge e) with Some _ => true | None => false end) INFO_PEERING in
  segid <- initialize_segment_id e ;;
  if (3 <=? length (ps_segs st))%nat then Panic P_TRY_PUSH
  else Ok (mkPS (hs_mtu hs) (ps_segs st ++ [mkDS flags segid (sg_ts s) hops]) (ps_ifs st ++ sifs)).

(** Ok (Some p) / Ok None / Err (EncodeError) / Panic *)
Definition sol_path (sol : solution) : res (option spath) :=
  match so_edges sol with
  | [] => Ok None
  | _ =>
    st <- ofold edge_step (so_edges sol) (mkPS 65535 [] []) ;;
    expiration <- std_expiration U32_MAX (ps_segs st) ;;
    if negb (wire_valid (ps_segs st)) then Err tt else
    let bytes := encode_std (ps_segs st) in
    if negb (view_size_ok bytes) then Panic P_VIEW else
    match hd_error (ps_ifs st), hd_error (rev (ps_ifs st)) with
    | Some f, Some l =>      (* repaired: was interfaces.first().expect(..) *)
      if negb (Nat.even (length (ps_ifs st))) then Ok None else      (* repaired: odd list *)
      vexp <- std_expiration U32_MAX (ps_segs st) ;;     (* ScionPath::new: dp_path.expiration() *)
      Ok (Some (mkPath (fst f) (fst l) (ps_segs st) bytes
                       (Some (mkMeta expiration (ps_mtu st) (Some (ps_ifs st))))
                       (Hfp (fp_input (fst f) (fst l) (ps_segs st)))
                       (Some vexp)))
    | _, _ => Ok None
    end
  end.

(** * combinator.rs *)
Definition count_ia (ia : N) (l : list iface) : nat :=
  length (filter (fun i => fst i =? ia) l).

Definition has_loops (p : spath) : res bool :=
  match sp_meta p with
  | None => Panic P_META
  | Some m =>
    match md_ifaces m with
    | None => Panic P_META
    | Some ifs => Ok (existsb (fun i => (2 <? count_ia (fst i) ifs)%nat) ifs)
    end
  end.

(** ScionPath::expiration().unwrap_or(0) *)
Definition path_expiration (p : spath) : N :=
  match sp_exp p with
  | Some e => e
  | None => match sp_meta p with Some m => md_exp m mod 2 ^ 32 | None => 0 end
  end.

Fixpoint replace_nth {A} (n : nat) (x : A) (l : list A) : option (list A) :=
  match l, n with
  | [], _ => None
  | _ :: r, O => Some (x :: r)
  | y :: r, S k => option_map (cons y) (replace_nth k x r)
  end.

(** unique_paths: fingerprint -> (expiration, index) *)
Fixpoint filter_duplicates (paths : list spath) (result : list spath) (uniq : list (N * (N * nat)))
  : res (list spath) :=
  match paths with
  | [] => Ok result
  | p :: r =>
    match aget N.eqb (sp_fp p) uniq with
    | Some (cur_exp, i) =>
      if cur_exp <? path_expiration p then
        match replace_nth i p result with
        | None => Panic P_RESULT_IDX
        | Some result' =>
          filter_duplicates r result' (aupd N.eqb (sp_fp p) (fun _ => (path_expiration p, i)) uniq)
        end
      else filter_duplicates r result uniq
    | None =>
      filter_duplicates r (result ++ [p]) (uniq ++ [(sp_fp p, (path_expiration p, length result))])
    end
  end.

(** solutions.iter().filter_map(|s| s.path().ok().flatten()).filter(|p| !has_loops(p)) *)
Fixpoint collect_paths (sols : list solution) : res (list spath) :=
  match sols with
  | [] => Ok []
  | s :: r =>
    match sol_path s with
    | Panic p => Panic p
    | Err _ | Ok None => collect_paths r
    | Ok (Some p) =>
      hl <- has_loops p ;;
      rest <- collect_paths r ;;
      Ok (if hl then rest else p :: rest)
    end
  end.

Definition input_segments (cores non_cores : list segment) : list iseg :=
  map new_core cores ++ map new_non_core non_cores.

(** the paths before duplicate filtering *)
Definition candidate_paths (src dst : N) (cores non_cores : list segment) : res (list spath) :=
  g <- add_segments [] (input_segments cores non_cores) ;;
  collect_paths (get_paths g src dst).

Definition combine_paths (src dst : N) (cores non_cores : list segment) : res (list spath) :=
  if src =? dst then Ok [] else
  paths <- candidate_paths src dst cores non_cores ;;
  filter_duplicates paths [] [].

End WithOracles.
