(** Independent statement of what a combined path must look like (C04 / C19), written against
    the OBSERVED output of [combine] (what a caller can read off a ScionPath: source,
    destination, info fields and hop fields of the data-plane path, expiration, metadata).
    Literal numbers are those of the SCION header specification (path meta header 4 bytes,
    info field 8 bytes, hop field 12 bytes, 6-bit segment lengths, ExpTime unit 337.5 s);
    this file does not import the generated constants nor the model. *)
From Sci Require Export Common.Outcome.
Local Open Scope N_scope.

(** observed hop field: ExpTime, ConsIngress, ConsEgress, MAC *)
Definition ohop := (N * N * N * N)%type.
Definition oh_exp (h : ohop) : N := let '(e, _, _, _) := h in e.
Definition oh_in (h : ohop) : N := let '(_, i, _, _) := h in i.
Definition oh_eg (h : ohop) : N := let '(_, _, g, _) := h in g.
Definition oh_mac (h : ohop) : N := let '(_, _, _, m) := h in m.

(** observed segment: info-field flags, SegID, timestamp, hop fields in path order *)
Record oseg := mkOS { os_flags : N; os_segid : N; os_ts : N; os_hops : list ohop }.

Record opath := mkOP {
  o_src : N; o_dst : N;          (* ScionPath::src_ia / dst_ia *)
  o_segs : list oseg;            (* decoded from dp_path through the view accessors *)
  o_exp : N;                     (* ScionPath::expiration() *)
  o_mexp : N; o_mtu : N;         (* metadata.expiration, metadata.mtu *)
  o_ifs : list (N * N) }.        (* metadata.interfaces: (isd_asn, id) *)

Definition cons_dir (s : oseg) : bool := N.testbit (os_flags s) 0.
Definition peering (s : oseg) : bool := N.testbit (os_flags s) 1.

(** ** the data-plane path is a standard SCION path *)
Definition seg_count_ok (p : opath) : bool :=
  match o_segs p with [] => false | [_] | [_; _] | [_; _; _] => true | _ => false end.
Definition seg_hops_ok (p : opath) : bool :=
  forallb (fun s => let n := N.of_nat (length (os_hops s)) in (1 <=? n) && (n <=? 63)) (o_segs p).
Definition fields_in_range (p : opath) : bool :=
  forallb (fun s => (os_flags s <? 256) && (os_segid s <? 65536) && (os_ts s <? 4294967296)
                    && forallb (fun h => (oh_exp h <? 256) && (oh_in h <? 65536) && (oh_eg h <? 65536)
                                         && (oh_mac h <? 281474976710656)) (os_hops s)) (o_segs p).
Definition path_bytes (p : opath) : N :=
  4 + 8 * N.of_nat (length (o_segs p)) + 12 * N.of_nat (length (flat_map os_hops (o_segs p))).
(** a SCION header is at most 1020 bytes, 12 of them common header and at least 24 address header *)
Definition fits_header (p : opath) : bool := path_bytes p <=? 1020 - 12 - 24.

(** ** metadata is consistent with the path *)
(** travel-order (ingress, egress) of a hop field *)
Definition travel_in (s : oseg) (h : ohop) : N := if cons_dir s then oh_in h else oh_eg h.
Definition travel_out (s : oseg) (h : ohop) : N := if cons_dir s then oh_eg h else oh_in h.

(** earliest hop expiry: timestamp + (ExpTime+1) * 337.5 s, saturating at 2^32-1 *)
Definition hop_expiry (ts e : N) : N := N.min 4294967295 (ts + (675 * (e + 1)) / 2).
Fixpoint minl (d : N) (l : list N) : N := match l with [] => d | x :: r => N.min x (minl d r) end.
Definition earliest_expiry (p : opath) : N :=
  minl 4294967295 (flat_map (fun s => map (fun h => hop_expiry (os_ts s) (oh_exp h)) (os_hops s)) (o_segs p)).

Definition even_len {A} (l : list A) : bool := Nat.even (length l).
Definition endpoints_ok (p : opath) : bool :=
  match o_ifs p, rev (o_ifs p) with
  | f :: _, l :: _ => (fst f =? o_src p) && (fst l =? o_dst p)
  | _, _ => false
  end.

(** C19: what every returned path must satisfy, whatever the input *)
Definition self_consistent (p : opath) : bool :=
  seg_count_ok p && seg_hops_ok p && fields_in_range p && fits_header p
  && even_len (o_ifs p) && endpoints_ok p
  && (o_exp p =? earliest_expiry p) && (o_mexp p =? o_exp p) && (o_mtu p <? 65536).

(** ** interface list = links encoded in the hop fields, in travel order (C04) *)
(** The interfaces a packet crosses: for every hop field its travel ingress then its travel
    egress, where interface 0 is "none", and the outer side of the first and of the last hop
    field of a segment is not crossed (the packet starts or ends in that AS, or changes to the
    next segment inside it) -- unless the segment change is a peering crossing, where the
    peering hop field's outer side is the peering link itself. *)
Definition hop_ifaces (s : oseg) (in_crossed out_crossed : bool) (h : ohop) : list N :=
  (if in_crossed && negb (travel_in s h =? 0) then [travel_in s h] else [])
  ++ (if out_crossed && negb (travel_out s h =? 0) then [travel_out s h] else []).

Fixpoint seg_ifaces (s : oseg) (first_in last_out : bool) (is_first : bool) (hops : list ohop) : list N :=
  match hops with
  | [] => []
  | [h] => hop_ifaces s (negb is_first || first_in) last_out h
  | h :: r => hop_ifaces s (negb is_first || first_in) true h ++ seg_ifaces s first_in last_out false r
  end.

Fixpoint path_ifaces (is_first_seg : bool) (segs : list oseg) : list N :=
  match segs with
  | [] => []
  | s :: r =>
    seg_ifaces s (negb is_first_seg && peering s)
               (match r with [] => false | _ => peering s end) true (os_hops s)
    ++ path_ifaces false r
  end.

(** interface ids of the metadata list, in order *)
Definition meta_ids (p : opath) : list N := map snd (o_ifs p).
Definition ifaces_truthful (p : opath) : bool :=
  list_eqb N.eqb (meta_ids p) (path_ifaces true (o_segs p)).

(** ** ordering, duplicates, loops (C04) *)
Definition hop_count (p : opath) : nat := length (o_ifs p).
Fixpoint sorted_by_hops (l : list opath) : bool :=
  match l with
  | a :: ((b :: _) as r) => (hop_count a <=? hop_count b)%nat && sorted_by_hops r
  | _ => true
  end.

Definition if_eqb (a b : N * N) : bool := (fst a =? fst b) && (snd a =? snd b).
Definition hops_key (p : opath) : list (N * N) :=
  flat_map (fun s => map (fun h => (oh_in h, oh_eg h)) (os_hops s)) (o_segs p).
Definition same_route (a b : opath) : bool :=
  (o_src a =? o_src b) && (o_dst a =? o_dst b) && list_eqb if_eqb (hops_key a) (hops_key b).
Fixpoint no_dup_routes (l : list opath) : bool :=
  match l with
  | [] => true
  | a :: r => negb (existsb (same_route a) r) && no_dup_routes r
  end.

Definition ia_count (ia : N) (p : opath) : nat := length (filter (fun i => fst i =? ia) (o_ifs p)).
(** an AS is entered and left at most once: at most two interfaces of any AS *)
Definition loop_free (p : opath) : bool :=
  forallb (fun i => (ia_count (fst i) p <=? 2)%nat) (o_ifs p).

(** ** decoding a standard SCION path (SCION header specification, path type 1)
    PathMeta (4 bytes): C(2) CurrHF(6) RSV(6) Seg0Len(6) Seg1Len(6) Seg2Len(6);
    then one 8-byte info field per non-empty segment: Flags(8) RSV(8) SegID(16) Timestamp(32);
    then 12-byte hop fields: Flags(8) ExpTime(8) ConsIngress(16) ConsEgress(16) MAC(48). *)
Fixpoint chunks {A} (n : nat) (k : nat) (l : list A) : list (list A) :=
  match k with O => [] | S k' => firstn n l :: chunks n k' (skipn n l) end.

Definition dec_info (b : list N) : N * N * N :=
  let w := be_val 0 b in (w / 2 ^ 56, (w / 2 ^ 32) mod 2 ^ 16, w mod 2 ^ 32).
Definition dec_hop (b : list N) : ohop :=
  let w := be_val 0 b in ((w / 2 ^ 80) mod 2 ^ 8, (w / 2 ^ 64) mod 2 ^ 16, (w / 2 ^ 48) mod 2 ^ 16, w mod 2 ^ 48).

Fixpoint split_hops (lens : list nat) (hops : list ohop) : list (list ohop) :=
  match lens with [] => [] | n :: r => firstn n hops :: split_hops r (skipn n hops) end.

Definition decode_std (b : list N) : option (list oseg) :=
  if (length b <? 4)%nat then None else
  let w := be_val 0 (firstn 4 b) in
  let lens := filter (fun n => negb (Nat.eqb n 0))
                     [N.to_nat ((w / 2 ^ 12) mod 64); N.to_nat ((w / 2 ^ 6) mod 64); N.to_nat (w mod 64)] in
  let k := length lens in
  let nh := fold_right Nat.add O lens in
  if negb (Nat.eqb (length b) (4 + 8 * k + 12 * nh)) then None else
  let infos := map dec_info (chunks 8 k (skipn 4 b)) in
  let hops := map dec_hop (chunks 12 nh (skipn (4 + 8 * k) b)) in
  Some (map (fun '((fl, sid, ts), hs) => mkOS fl sid ts hs) (combine infos (split_hops lens hops))).
