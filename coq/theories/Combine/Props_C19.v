(** C19 -- path combination tolerates arbitrary segment sets.  Property theorems only.
    Every theorem quantifies over ALL segment lists (no well-formedness hypothesis), over every
    hash function standing for SHA-256 and over every iteration order of the two HashMap
    levels of the search (any function returning a permutation). *)
From Sci Require Import Combine.Model Combine.Spec Combine.Obs Combine.Proofs Combine.ProofsEnc Combine.ProofsC19 Combine.ProofsBound
  Combine.ProofsDecode Combine.ProofsReparse Combine.ProofsOrder Combine.ProofsPerm Combine.ProofsUseless Combine.ProofsFifo Combine.ProofsC04 Combine.ProofsPath Combine.ProofsWF.
From Coq Require Import Permutation.
Local Open Scope N_scope.

(** No panic site of graph.rs / combinator.rs is reachable: every expect, unwrap, slice index,
    usize subtraction and try_push of the modelled code is an explicit [Panic] in the model,
    and [combine] returns [Ok] for every input. *)
Theorem combine_never_panics :
  forall Hid Hfp ord_v ord_e src dst cores non_cores,
    order_ok ord_v ord_e ->
    exists out, combine_paths Hid Hfp ord_v ord_e src dst cores non_cores = Ok out.
Proof. intros Hid Hfp ord_v ord_e src dst cores non_cores [Hv He]. apply combine_total; assumption. Qed.
Print Assumptions combine_never_panics.

(** Polynomial bound.  With E the number of directed edges of the search graph,
    E <= 2 * (number of AS entries + number of peer entries of the input), the search returns at
    most E + E^2 + E^3 solutions (termination is structural: a solution has at most three
    edges), and the result has no more paths than there are solutions. *)
Theorem solutions_bounded :
  forall Hid Hfp ord_v ord_e src dst cores non_cores g out,
    order_ok ord_v ord_e ->
    add_segments [] (input_segments Hid cores non_cores) = Ok g ->
    combine_paths Hid Hfp ord_v ord_e src dst cores non_cores = Ok out ->
    let E := ecount g in
    (E <= 2 * input_weight (input_segments Hid cores non_cores))%nat
    /\ (length (get_paths ord_v ord_e g src dst) <= E + E ^ 2 + E ^ 3)%nat
    /\ (length out <= E + E ^ 2 + E ^ 3)%nat.
Proof.
  intros Hid Hfp ord_v ord_e src dst cores non_cores g out [Hv He] Hg Hout E.
  pose proof (ecount_add_segments _ _ _ Hg) as H1. cbn in H1.
  pose proof (get_paths_bound ord_v ord_e Hv He g src dst) as H2.
  split; [exact H1|]. split; [exact H2|].
  unfold combine_paths, candidate_paths in Hout. destruct (src =? dst).
  - inversion Hout; subst. cbn. apply Nat.le_0_l.
  - rewrite Hg in Hout. cbn [obind] in Hout. apply bind_ok in Hout as (ps & Hps & Hout).
    apply collect_paths_length in Hps. apply filter_duplicates_length in Hout. cbn [length] in Hout.
    eapply Nat.le_trans; [exact Hout|]. eapply Nat.le_trans; [exact Hps|exact H2].
Qed.
Print Assumptions solutions_bounded.

(** The search loop as written (VecDeque: pop_front, push_back; [bfs_worklist], with fuel = the
    number of pops allowed) terminates after at most 1 + E + E^2 + E^3 pops and computes exactly
    the level-order list [bfs] that [get_paths] sorts: the polynomial bound is a bound on the
    work of the loop, not only on its result. *)
Theorem search_loop_bounded :
  forall ord_v ord_e g src dst fuel,
    order_ok ord_v ord_e ->
    (1 + ecount g + ecount g ^ 2 + ecount g ^ 3 <= fuel)%nat ->
    bfs_worklist ord_v ord_e g dst fuel [sol_new (VAS src)] []
    = Some (bfs ord_v ord_e g dst 4 [sol_new (VAS src)]).
Proof.
  intros ord_v ord_e g src dst fuel [Hv He] Hf. exact (fifo_loop_is_bfs ord_v ord_e Hv He g dst src fuel Hf).
Qed.
Print Assumptions search_loop_bounded.

(** Every returned path encodes and is consistent with its own metadata: the StandardPath
    passed wire_valid (1..3 segments of 1..63 hop fields, at most 984 bytes), the bytes are its
    encoding and pass the size test of the view constructor, source and destination are the
    AS of the first and of the last metadata interface, the interface list is not empty and
    has even length (two interfaces per link), and the metadata expiration equals the
    expiration computed from the data-plane path.
    (That the bytes parse back to the same fields is [outputs_reparse] below.) *)
Theorem outputs_self_consistent :
  forall Hid Hfp ord_v ord_e src dst cores non_cores out p,
    order_ok ord_v ord_e ->
    combine_paths Hid Hfp ord_v ord_e src dst cores non_cores = Ok out -> In p out ->
    wire_valid (sp_segs p) = true
    /\ sp_bytes p = encode_std (sp_segs p) /\ view_size_ok (sp_bytes p) = true
    /\ exists m ifs f l,
         sp_meta p = Some m /\ md_ifaces m = Some ifs
         /\ hd_error ifs = Some f /\ hd_error (rev ifs) = Some l /\ Nat.even (length ifs) = true
         /\ sp_src p = fst f /\ sp_dst p = fst l
         /\ sp_exp p = Some (md_exp m) /\ std_expiration U32_MAX (sp_segs p) = Ok (md_exp m).
Proof.
  intros Hid Hfp ord_v ord_e src dst cores non_cores out p [Hv He] Hout Hp.
  pose proof (combine_outputs_shape _ _ _ _ _ _ _ _ _ Hv He Hout) as Hs.
  rewrite Forall_forall in Hs. destruct (Hs p Hp) as (segs & ifs & f & l & mtu & e & -> & Hf & Hl & Hev & Hw & He').
  cbn. split; [exact Hw|]. split; [reflexivity|]. split; [apply view_accepts_encoding; exact Hw|].
  exists (mkMeta e mtu (Some ifs)), ifs, f, l. cbn. auto 10.
Qed.
Print Assumptions outputs_self_consistent.

(** Parse back: the encoded bytes of every returned path decode -- with the independent decoder
    of [Spec] that follows the SCION header specification (4-byte path meta header with 6-bit
    segment lengths, 8-byte info fields, 12-byte hop fields) -- to exactly the info fields and
    hop fields the path is reported to consist of.  The hypothesis says that the fields of the
    input segments fit their Rust types (u32 timestamp, u16 SegID and interface ids, u8
    ExpTime, 6-byte MAC); nothing else is assumed about the segments. *)
Theorem outputs_reparse :
  forall Hid Hfp ord_v ord_e src dst cores non_cores out p,
    order_ok ord_v ord_e ->
    Forall segment_typed (cores ++ non_cores) ->
    combine_paths Hid Hfp ord_v ord_e src dst cores non_cores = Ok out -> In p out ->
    decode_std (sp_bytes p) = Some (o_segs (obs_path p)).
Proof.
  intros Hid Hfp ord_v ord_e src dst cores non_cores out p [Hv He] Hty Hout Hp.
  exact (combine_reparse _ _ _ _ _ _ _ _ _ _ Hv He Hty Hout Hp).
Qed.
Print Assumptions outputs_reparse.

(** Segments without AS entries are ignored (inserted anywhere in either list, the result is
    unchanged) -- unconditionally, for every iteration order. *)
Theorem empty_segment_ignored :
  forall Hid Hfp ord_v ord_e src dst c1 c2 n1 n2 s,
    sg_entries s = [] ->
    combine_paths Hid Hfp ord_v ord_e src dst (c1 ++ s :: c2) (n1 ++ n2)
    = combine_paths Hid Hfp ord_v ord_e src dst (c1 ++ c2) (n1 ++ n2)
    /\ combine_paths Hid Hfp ord_v ord_e src dst (c1 ++ c2) (n1 ++ s :: n2)
       = combine_paths Hid Hfp ord_v ord_e src dst (c1 ++ c2) (n1 ++ n2).
Proof.
  intros Hid Hfp ord_v ord_e src dst c1 c2 n1 n2 s E. unfold combine_paths, candidate_paths, input_segments.
  split; destruct (src =? dst); try reflexivity.
  - rewrite !map_app. cbn [map]. rewrite <- !app_assoc. cbn [app].
    rewrite (add_segments_skip_empty (map (new_core Hid) c1) (new_core Hid s)) by exact E. reflexivity.
  - rewrite !map_app. cbn [map]. rewrite !app_assoc.
    rewrite (add_segments_skip_empty _ (new_non_core Hid s)) by exact E. reflexivity.
Qed.
Print Assumptions empty_segment_ignored.

(** Segments that cannot contribute a path are ignored without affecting the paths built from
    the others: take ANY segment lists (no well-formedness), insert a segment [s] anywhere
    among the core segments or anywhere among the non-core segments; if no solution of the
    search on the larger input uses an edge of [s], then the result with [s] equals the result
    without [s] -- for any two HashMap iteration orders.  Side conditions: [s] is not also
    present (same kind, same content) among the other segments, and no two distinct solutions
    of the larger search tie under the sort key ([NoTies]: with ties the order of the
    implementation's result is unspecified in both calls). *)
Theorem useless_segment_ignored :
  forall Hid Hfp ov oe ov' oe' src dst c1 c2 n1 n2 s,
    order_ok ov oe -> order_ok ov' oe' ->
    (* as a core segment *)
    (let L1 := map (new_core Hid) c1 in
     let L2 := map (new_core Hid) c2 ++ map (new_non_core Hid) (n1 ++ n2) in
     let s0 := new_core Hid s in
     ~ In s0 (L1 ++ L2) ->
     NoTies (bfs ord_id_v ord_id_e (graph_of (L1 ++ s0 :: L2)) dst 4 [sol_new (VAS src)]) ->
     Forall (fun sol => uses s0 sol = false) (bfs ord_id_v ord_id_e (graph_of (L1 ++ s0 :: L2)) dst 4 [sol_new (VAS src)]) ->
     combine_paths Hid Hfp ov oe src dst (c1 ++ s :: c2) (n1 ++ n2)
     = combine_paths Hid Hfp ov' oe' src dst (c1 ++ c2) (n1 ++ n2))
    /\
    (* as a non-core segment *)
    (let L1 := map (new_core Hid) (c1 ++ c2) ++ map (new_non_core Hid) n1 in
     let L2 := map (new_non_core Hid) n2 in
     let s0 := new_non_core Hid s in
     ~ In s0 (L1 ++ L2) ->
     NoTies (bfs ord_id_v ord_id_e (graph_of (L1 ++ s0 :: L2)) dst 4 [sol_new (VAS src)]) ->
     Forall (fun sol => uses s0 sol = false) (bfs ord_id_v ord_id_e (graph_of (L1 ++ s0 :: L2)) dst 4 [sol_new (VAS src)]) ->
     combine_paths Hid Hfp ov oe src dst (c1 ++ c2) (n1 ++ s :: n2)
     = combine_paths Hid Hfp ov' oe' src dst (c1 ++ c2) (n1 ++ n2)).
Proof.
  intros Hid Hfp ov oe ov' oe' src dst c1 c2 n1 n2 s [Hv He] [Hv' He']. split; cbv zeta; intros Hfresh Hnt Hno.
  - eapply (combine_without Hid Hfp ov oe ov' oe' src dst); eauto.
    + unfold input_segments. rewrite !map_app. cbn [map]. rewrite <- !app_assoc. reflexivity.
    + unfold input_segments. rewrite !map_app, <- !app_assoc. reflexivity.
  - eapply (combine_without Hid Hfp ov oe ov' oe' src dst); eauto.
    + unfold input_segments. rewrite !map_app. cbn [map]. rewrite <- !app_assoc. reflexivity.
    + unfold input_segments. rewrite !map_app, <- !app_assoc. reflexivity.
Qed.
Print Assumptions useless_segment_ignored.

(** Peer-index consistency between graph construction and path construction, for ALL segment
    lists: whenever an edge of a search solution carries a peer index, that index addresses an
    existing peer entry of the AS entry at the edge's shortcut index (counted over ALL peer
    entries of that AS entry), the peering vertex the edge is attached to was built from the
    ids of that very peer entry, and the hop field the path emits for that AS entry is the hop
    field of that very peer entry.  (An implementation that numbers peer entries differently
    when building the graph and when building the path violates the correspondence; the
    harness feeds AS entries with several peer entries, unusable ones in front.) *)
Theorem peer_index_consistent :
  forall Hid ord_v ord_e src dst cores non_cores g sol e pi,
    order_ok ord_v ord_e ->
    add_segments [] (input_segments Hid cores non_cores) = Ok g ->
    In sol (get_paths ord_v ord_e g src dst) -> In e (so_edges sol) -> e_peer (se_edge e) = Some pi ->
    exists leaf ae p,
      last_ia (is_seg (se_seg e)) = Some leaf
      /\ nth_error (sg_entries (is_seg (se_seg e))) (e_idx (se_edge e)) = Some ae
      /\ nth_error (ae_peers ae) pi = Some p
      /\ ((se_src e = VAS leaf /\ se_dst e = VPeer (ae_ia ae) (hf_in (pe_hf p)) (pe_ia p) (pe_if p))
          \/ (se_src e = VPeer (pe_ia p) (pe_if p) (ae_ia ae) (hf_in (pe_hf p)) /\ se_dst e = VAS leaf))
      /\ item_hf (e_idx (se_edge e)) (e_peer (se_edge e)) (e_idx (se_edge e), ae) = pe_hf p
      /\ In (pe_hf p) (edge_hops e).
Proof.
  intros Hid ord_v ord_e src dst cores non_cores g sol e pi [Hv He] Hg Hsol He' Hp.
  destruct (add_segments_inv (input_segments Hid cores non_cores) [] GInv_nil) as (g' & Hg' & HI).
  rewrite Hg in Hg'. inversion Hg'; subst g'.
  pose proof (get_paths_full ord_v ord_e Hv He g src dst HI) as Hfull. rewrite Forall_forall in Hfull.
  specialize (Hfull sol Hsol). rewrite Forall_forall in Hfull.
  exact (peer_edge_consistent e pi (Hfull e He') Hp).
Qed.
Print Assumptions peer_index_consistent.
