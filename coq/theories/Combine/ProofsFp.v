(** C04: with an injective fingerprint hash and typed hop fields, equal fingerprints of
    candidate paths mean equal hop-field interface sequences. *)
From Sci Require Import Combine.Model Combine.Spec Combine.Obs Combine.Proofs Combine.ProofsEnc Combine.ProofsC19 Combine.ProofsBound
  Combine.ProofsC04 Combine.ProofsPath Combine.ProofsWF Combine.ProofsDecode Combine.ProofsReparse Common.ListAux.
From Coq Require Import Lia ZifyBool ZifyNat ZifyN Permutation.
Local Open Scope N_scope.

Lemma app_eq_len {A} (a a' b b' : list A) : length a = length a' -> a ++ b = a' ++ b' -> a = a' /\ b = b'.
Proof.
  revert a'; induction a as [|x a IH]; intros [|y a'] Hl H; cbn in *; try discriminate; [auto|].
  inversion H; subst. destruct (IH a' ltac:(lia) H2) as [-> ->]. auto.
Qed.

Lemma be_bytes2_inj v w : v < 65536 -> w < 65536 -> be_bytes 2 v = be_bytes 2 w -> v = w.
Proof.
  intros Hv Hw H. apply (f_equal (be_val 0)) in H. rewrite !be_val_be_bytes in H.
  change (256 ^ N.of_nat 2) with 65536 in H. rewrite !N.mod_small in H by assumption. exact H.
Qed.

Definition fpb (h : hopf) : list N := be_bytes 2 (hf_in h) ++ be_bytes 2 (hf_eg h).

Lemma fp_hops_inj l : forall l',
  Forall hop_typed l -> Forall hop_typed l' -> flat_map fpb l = flat_map fpb l' -> map sig l = map sig l'.
Proof.
  induction l as [|h l IH]; intros [|h' l'] Ht Ht' H; cbn [flat_map map] in *; [reflexivity| | |].
  - apply (f_equal (@length _)) in H. unfold fpb in H. rewrite !app_length, !be_bytes_length in H. cbn in H. lia.
  - apply (f_equal (@length _)) in H. unfold fpb in H. rewrite !app_length, !be_bytes_length in H. cbn in H. lia.
  - inversion Ht as [|? ? (_ & T1 & T2 & _) Htl]; subst. inversion Ht' as [|? ? (_ & T1' & T2' & _) Htl']; subst.
    apply app_eq_len in H as [Hh Hr]; [|unfold fpb; rewrite !app_length, !be_bytes_length; reflexivity].
    unfold fpb in Hh. apply app_eq_len in Hh as [H1 H2]; [|rewrite !be_bytes_length; reflexivity].
    apply be_bytes2_inj in H1; [|assumption|assumption]. apply be_bytes2_inj in H2; [|assumption|assumption].
    unfold sig at 1 3. rewrite H1, H2. f_equal. apply IH; assumption.
Qed.

Lemma fp_input_sigs s d segs s' d' segs' :
  Forall seg_typed segs -> Forall seg_typed segs' ->
  fp_input s d segs = fp_input s' d' segs' ->
  map sig (flat_map ds_hops segs) = map sig (flat_map ds_hops segs').
Proof.
  intros Ht Ht' H. unfold fp_input in H. apply (f_equal (@tl N)) in H. cbn [tl] in H. rename H into H1.
  apply app_eq_len in H1 as [_ H1]; [|rewrite !be_bytes_length; reflexivity].
  apply app_eq_len in H1 as [_ H1]; [|rewrite !be_bytes_length; reflexivity].
  assert (Hall : forall sg, Forall seg_typed sg -> Forall hop_typed (flat_map ds_hops sg)).
  { intros sg Hs. apply Forall_forall. intros h Hh. apply in_flat_map in Hh as (x & Hx & Hh).
    rewrite Forall_forall in Hs. destruct (Hs x Hx) as (_ & _ & _ & Hhs). rewrite Forall_forall in Hhs. auto. }
  apply fp_hops_inj; auto.
Qed.

Lemma candidates_faithful Hid Hfp ord_v ord_e src dst cores non_cores cand :
  (forall v l, Permutation (ord_v v l) l) -> (forall v w l, Permutation (ord_e v w l) l) ->
  Forall segment_typed (cores ++ non_cores) ->
  candidate_paths Hid Hfp ord_v ord_e src dst cores non_cores = Ok cand ->
  (forall x y, In x cand -> In y cand ->
     Hfp (fp_input (sp_src x) (sp_dst x) (sp_segs x)) = Hfp (fp_input (sp_src y) (sp_dst y) (sp_segs y)) ->
     fp_input (sp_src x) (sp_dst x) (sp_segs x) = fp_input (sp_src y) (sp_dst y) (sp_segs y)) ->
  forall x y, In x cand -> In y cand -> sp_fp x = sp_fp y -> hop_sigs x = hop_sigs y.
Proof.
  intros Hv He Hty Hcand Hinj.
  pose proof Hcand as Hc'. unfold candidate_paths in Hc'. apply bind_ok in Hc' as (g & Hg & Hcol).
  destruct (add_segments_inv (input_segments Hid cores non_cores) [] GInv_nil) as (g' & Hg' & HI).
  rewrite Hg in Hg'. inversion Hg'; subst g'.
  destruct (collect_paths_ok Hfp _ (GInv_edges_ok ord_v ord_e g src dst Hv He HI)) as (ps & Eps & Hshape).
  rewrite Hcol in Eps. inversion Eps; subst ps.
  destruct (collect_paths_sorted Hfp _ _ (get_paths_sorted ord_v ord_e g src dst)
              (get_paths_full ord_v ord_e Hv He g src dst HI) (get_paths_cost ord_v ord_e g src dst) Hcol) as [_ Hall].
  assert (Htyped : forall p, In p cand -> Forall seg_typed (sp_segs p)).
  { intros p Hp. rewrite Forall_forall in Hall. destruct (Hall p Hp) as (s & Hs & Hsp & _).
    destruct (sol_path_ends _ _ _ Hsp) as (st & f' & l' & Hst & _ & _ & _ & _ & _ & Hsegs).
    pose proof (get_paths_ok ord_v ord_e Hv He g src dst) as Hok. rewrite Forall_forall in Hok. destruct (Hok s Hs) as [Hin_g _].
    rewrite Hsegs. eapply (edges_fold_typed (so_edges s) (mkPS 65535 [] [])); [|cbn; constructor|exact Hst].
    eapply Forall_impl; [|exact Hin_g]. intros ed Hedge. unfold sedge_in in Hedge.
    destruct (add_segments_from _ _ _ Hg _ _ _ _ Hedge) as [(vi & em & [] & _)|Hmem].
    rewrite Forall_forall in Hty. apply Hty. eapply input_segments_seg; eauto. }
  assert (Hfpx : forall p, In p cand -> sp_fp p = Hfp (fp_input (sp_src p) (sp_dst p) (sp_segs p))).
  { intros p Hp. rewrite Forall_forall in Hshape. destruct (Hshape p Hp) as (segs & ifs & f & l & mtu & e & -> & _). reflexivity. }
  intros x y Hx Hy Hfpe. rewrite (Hfpx x Hx), (Hfpx y Hy) in Hfpe.
  unfold hop_sigs. exact (fp_input_sigs _ _ _ _ _ _ (Htyped x Hx) (Htyped y Hy) (Hinj x y Hx Hy Hfpe)).
Qed.
