(** The executable enumerator [Enum.combinations] (the oracle the correspondence evaluates on
    the implementation's output) is sound and complete for [SpecRules.ValidCombination]. *)
From Sci Require Import Combine.Model Combine.Spec Combine.SpecRules Combine.Enum Combine.Proofs Combine.ProofsC19 Combine.ProofsC04 Combine.ProofsPath
  Combine.ProofsWF Combine.ProofsSound Combine.ProofsComplete Combine.ProofsGraph Common.ListAux.
From Coq Require Import Lia ZifyBool ZifyNat ZifyN Permutation.
Local Open Scope N_scope.

Lemma junction_eqb_eq a b : junction_eqb a b = true <-> a = b.
Proof.
  destruct a, b; cbn; split; intros H; try discriminate; try congruence.
  - apply N.eqb_eq in H. congruence.
  - inversion H. apply N.eqb_refl.
  - repeat (apply andb_true_iff in H; destruct H as [H ?]). apply N.eqb_eq in H.
    repeat match goal with X : (_ =? _) = true |- _ => apply N.eqb_eq in X end. congruence.
  - inversion H. rewrite !N.eqb_refl. reflexivity.
Qed.

Lemma last_ia_rev s le r : rev (sg_entries s) = le :: r -> last_ia s = Some (ae_ia le).
Proof. intros H. unfold last_ia. rewrite H. reflexivity. Qed.

(** * the uses of one segment *)
Lemma seg_uses_spec k s u a b :
  In (u, a, b) (seg_uses k s) <-> (u_kind u = k /\ u_seg u = s /\ ValidUse u a b).
Proof.
  unfold seg_uses. split.
  - destruct (rev (sg_entries s)) as [|le r] eqn:Er; [intros []|]. pose proof (last_ia_rev s le r Er) as Hleaf.
    intros H. apply in_flat_map in H as ([i ae] & Hie & H). apply in_enumerate in Hie.
    apply in_app_or in H as [H|H].
    + destruct (match k with Core => Nat.eqb i 0 | NonCore => negb (Nat.eqb (S i) (length (sg_entries s))) end) eqn:Ec; [|destruct H].
      assert (Hcond : (k = Core -> i = 0%nat) /\ (k = NonCore -> S i <> seg_len s)).
      { destruct k; split; intros E; try discriminate; [apply Nat.eqb_eq; exact Ec|apply negb_true_iff, Nat.eqb_neq in Ec; exact Ec]. }
      destruct H as [H|[H|[]]]; inversion H; subst; cbn; (split; [reflexivity|split; [reflexivity|]]);
        exists (ae_ia le), ae; cbn; (split; [exact Hleaf|split; [exact Hie|]]); (split; [tauto|split; [tauto|auto]]).
    + destruct k; [destruct H|]. apply in_flat_map in H as ([pi p] & Hp & H). apply in_enumerate in Hp.
      destruct H as [H|[H|[]]]; inversion H; subst; cbn; (split; [reflexivity|split; [reflexivity|]]);
        exists (ae_ia le), ae; cbn; (split; [exact Hleaf|split; [exact Hie|split; [reflexivity|exists p; auto]]]).
  - intros (Hk & Hs & leaf & ae & Hleaf & Hae & Hv). subst k s.
    destruct (entries_split_last _ _ Hleaf) as (es' & le & Hes & Hia).
    assert (Er : rev (sg_entries (u_seg u)) = le :: rev es') by (rewrite Hes, rev_app_distr; reflexivity).
    rewrite Er. rewrite Hia. apply in_flat_map. exists (u_from u, ae). split; [apply nth_error_enumerate; exact Hae|].
    destruct u as [k s i pr d]; cbn [u_kind u_seg u_from u_peer u_dir] in *. apply in_or_app.
    destruct pr as [pi|].
    + right. destruct Hv as (-> & p & Hp & Hv). apply in_flat_map. exists (pi, p). split; [apply nth_error_enumerate; exact Hp|].
      destruct d; destruct Hv as [-> ->]; [right; left; reflexivity|left; reflexivity].
    + left. destruct Hv as (Hc & Hn & Hv).
      assert (Ec : match k with Core => Nat.eqb i 0 | NonCore => negb (Nat.eqb (S i) (length (sg_entries s))) end = true).
      { destruct k; [apply Nat.eqb_eq; auto|apply negb_true_iff, Nat.eqb_neq; apply Hn; reflexivity]. }
      rewrite Ec. destruct d; destruct Hv as [-> ->]; [right; left; reflexivity|left; reflexivity].
Qed.

Definition all_uses (cores non_cores : list segment) : list (seguse * junction * junction) :=
  flat_map (seg_uses Core) cores ++ flat_map (seg_uses NonCore) non_cores.

Lemma all_uses_spec cores non_cores u a b :
  In (u, a, b) (all_uses cores non_cores) <-> (from_input cores non_cores u /\ ValidUse u a b).
Proof.
  unfold all_uses, from_input. rewrite in_app_iff, !in_flat_map. split.
  - intros [(s & Hs & H)|(s & Hs & H)]; apply seg_uses_spec in H as (Hk & Hsg & Hv); rewrite Hk, Hsg; auto.
  - intros [Hf Hv]. destruct (u_kind u) eqn:Ek; [left|right]; exists (u_seg u); (split; [exact Hf|]);
      apply seg_uses_spec; auto.
Qed.

(** * the level lists of the enumerator *)
Definition step_uses (all : list (seguse * junction * junction)) (dst : N) (partial : list (list seguse * junction)) :=
  flat_map (fun '(us, cur) =>
    if junction_eqb cur (JAS dst) then [] else
    flat_map (fun '(u, a, b) => if junction_eqb a cur then [(us ++ [u], b)] else []) all) partial.
Definition level1 (all : list (seguse * junction * junction)) (src : N) :=
  flat_map (fun '(u, a, b) => if junction_eqb a (JAS src) then [([u], b)] else []) all.

Lemma combinations_unfold cores non_cores src dst :
  combinations cores non_cores src dst =
  let all := all_uses cores non_cores in
  let l1 := level1 all src in let l2 := step_uses all dst l1 in let l3 := step_uses all dst l2 in
  map fst (filter (fun '(us, cur) => junction_eqb cur (JAS dst) && kinds_okb (map u_kind us)) (l1 ++ l2 ++ l3)).
Proof. reflexivity. Qed.

Lemma chained_snoc us : forall a b u c, Chained a us b -> ValidUse u b c -> Chained a (us ++ [u]) c.
Proof.
  induction us as [|x us IH]; intros a b u c H Hu; cbn [Chained app] in *.
  - subst. exists c. split; [exact Hu|reflexivity].
  - destruct H as (mid & Hx & H). exists mid. split; [exact Hx|eapply IH; eauto].
Qed.

Definition LevelOK (cores non_cores : list segment) (src : N) (x : list seguse * junction) : Prop :=
  Chained (JAS src) (fst x) (snd x) /\ Forall (from_input cores non_cores) (fst x).

Lemma level1_ok cores non_cores src x : In x (level1 (all_uses cores non_cores) src) -> LevelOK cores non_cores src x.
Proof.
  intros H. apply in_flat_map in H as ([[u a] b] & Hu & H). destruct (junction_eqb a (JAS src)) eqn:E; [|destruct H].
  destruct H as [<-|[]]. apply junction_eqb_eq in E. subst a. apply all_uses_spec in Hu as [Hf Hv].
  split; cbn; [exists b; split; [exact Hv|reflexivity]|constructor; [exact Hf|constructor]].
Qed.

Lemma step_ok cores non_cores src dst l x :
  (forall y, In y l -> LevelOK cores non_cores src y) ->
  In x (step_uses (all_uses cores non_cores) dst l) -> LevelOK cores non_cores src x.
Proof.
  intros Hl H. apply in_flat_map in H as ([us cur] & Hy & H). destruct (junction_eqb cur (JAS dst)); [destruct H|].
  apply in_flat_map in H as ([[u a] b] & Hu & H). destruct (junction_eqb a cur) eqn:E; [|destruct H].
  destruct H as [<-|[]]. apply junction_eqb_eq in E. subst a. apply all_uses_spec in Hu as [Hf Hv].
  destruct (Hl _ Hy) as [Hc Hfr]. cbn in *. split; cbn.
  - eapply chained_snoc; eauto.
  - apply Forall_app; split; [exact Hfr|constructor; [exact Hf|constructor]].
Qed.

Lemma kinds_okb_allowed us : kinds_okb (map u_kind us) = true -> kinds_allowed us.
Proof.
  unfold kinds_okb, kinds_allowed. destruct (map u_kind us) as [|a [|b [|c [|d r]]]]; try discriminate; [auto| |].
  - intros H. apply orb_true_iff in H. destruct a, b; cbn in H; destruct H; try discriminate; auto.
  - intros H. destruct a, b, c; cbn in H; try discriminate. auto.
Qed.
Lemma kinds_allowed_okb us : kinds_allowed us -> kinds_okb (map u_kind us) = true.
Proof.
  unfold kinds_okb, kinds_allowed. destruct (map u_kind us) as [|a [|b [|c [|d r]]]]; try tauto.
  - intros [-> | ->]; [reflexivity|destruct a; reflexivity].
  - intros (-> & -> & ->). reflexivity.
Qed.

(** soundness: everything the enumerator lists is a valid combination *)
Lemma enum_sound_lemma cores non_cores src dst us :
  In us (combinations cores non_cores src dst) -> ValidCombination cores non_cores src dst us.
Proof.
  rewrite combinations_unfold. cbv zeta. intros H. apply in_map_iff in H as ([us' cur] & <- & H).
  apply filter_In in H as [H Hc]. apply andb_true_iff in Hc as [Hcur Hk]. apply junction_eqb_eq in Hcur. subst cur.
  assert (Hok : LevelOK cores non_cores src (us', JAS dst)).
  { apply in_app_or in H as [H|H]; [apply level1_ok; exact H|].
    apply in_app_or in H as [H|H].
    - eapply step_ok; [|exact H]. intros y Hy. apply level1_ok; exact Hy.
    - eapply step_ok; [|exact H]. intros y Hy. eapply step_ok; [|exact Hy]. intros z Hz. apply level1_ok; exact Hz. }
  destruct Hok as [Hch Hfr]. cbn in *. split; [apply kinds_okb_allowed; exact Hk|split; assumption].
Qed.

(** completeness: every valid combination that does not pass through the destination early is listed *)
Lemma enum_complete_lemma cores non_cores src dst us :
  ValidCombination cores non_cores src dst us -> NoEarlyDst dst us -> In us (combinations cores non_cores src dst).
Proof.
  intros (Hk & Hfr & Hch) Hearly. rewrite combinations_unfold. cbv zeta.
  set (all := all_uses cores non_cores).
  assert (Hin1 : forall u a b, from_input cores non_cores u -> ValidUse u a b -> In (u, a, b) all)
    by (intros; apply all_uses_spec; auto).
  assert (Hfin : forall l, In (us, JAS dst) l ->
            In us (map fst (filter (fun '(us0, cur) => junction_eqb cur (JAS dst) && kinds_okb (map u_kind us0)) l))).
  { intros l Hl. apply in_map_iff. exists (us, JAS dst). split; [reflexivity|]. apply filter_In. split; [exact Hl|].
    rewrite (proj2 (junction_eqb_eq _ _) eq_refl), (kinds_allowed_okb us Hk). reflexivity. }
  assert (Hl1 : forall u b, from_input cores non_cores u -> ValidUse u (JAS src) b -> In ([u], b) (level1 all src)).
  { intros u b Hf Hv. apply in_flat_map. exists (u, JAS src, b). split; [apply Hin1; auto|].
    rewrite (proj2 (junction_eqb_eq _ _) eq_refl). left; reflexivity. }
  assert (Hst : forall l us0 cur u b, In (us0, cur) l -> cur <> JAS dst -> from_input cores non_cores u -> ValidUse u cur b ->
                In (us0 ++ [u], b) (step_uses all dst l)).
  { intros l us0 cur u b Hl Hne Hf Hv. apply in_flat_map. exists (us0, cur). split; [exact Hl|].
    destruct (junction_eqb cur (JAS dst)) eqn:E; [apply junction_eqb_eq in E; contradiction|].
    apply in_flat_map. exists (u, cur, b). split; [apply Hin1; auto|]. rewrite (proj2 (junction_eqb_eq _ _) eq_refl). left; reflexivity. }
  apply Hfin. unfold kinds_allowed in Hk.
  destruct us as [|u1 [|u2 [|u3 [|u4 r]]]]; cbn [map] in Hk; try tauto.
  - cbn [Chained] in Hch. destruct Hch as (m1 & V1 & <-). inversion Hfr; subst.
    apply in_or_app. left. apply Hl1; auto.
  - cbn [Chained] in Hch. destruct Hch as (m1 & V1 & m2 & V2 & <-). inversion Hfr as [|? ? F1 Hfr']; subst. inversion Hfr' as [|? ? F2 _]; subst.
    assert (N1 : m1 <> JAS dst) by (apply (Hearly [] u1 [u2] (JAS src) m1 eq_refl); [discriminate|exact V1]).
    apply in_or_app. right. apply in_or_app. left.
    change [u1; u2] with ([u1] ++ [u2]). eapply Hst; eauto.
  - cbn [Chained] in Hch. destruct Hch as (m1 & V1 & m2 & V2 & m3 & V3 & <-).
    inversion Hfr as [|? ? F1 Hfr']; subst. inversion Hfr' as [|? ? F2 Hfr'']; subst. inversion Hfr'' as [|? ? F3 _]; subst.
    assert (N1 : m1 <> JAS dst) by (apply (Hearly [] u1 [u2; u3] (JAS src) m1 eq_refl); [discriminate|exact V1]).
    assert (N2 : m2 <> JAS dst) by (apply (Hearly [u1] u2 [u3] m1 m2 eq_refl); [discriminate|exact V2]).
    apply in_or_app. right. apply in_or_app. right.
    change [u1; u2; u3] with (([u1] ++ [u2]) ++ [u3]). eapply Hst; [|exact N2|exact F3|exact V3]. eapply Hst; eauto.
Qed.

(** * every returned path is one of the enumerated combinations *)
Definition NoEarlyV (dst : N) (l : list sedge) : Prop :=
  forall l1 c l2, l = l1 ++ c :: l2 -> l2 <> [] -> se_dst c <> VAS dst.

Lemma split_not_last {A} (l1 : list A) c l2 p x : l1 ++ c :: l2 = p ++ [x] -> l2 <> [] -> In c p.
Proof.
  intros H Hne. destruct (exists_last Hne) as (l2' & y & ->).
  replace (l1 ++ c :: l2' ++ [y]) with ((l1 ++ c :: l2') ++ [y]) in H by (rewrite <- app_assoc; reflexivity).
  apply app_inj_tail in H as [H _]. rewrite <- H. apply in_or_app. right; left; reflexivity.
Qed.

Section NoEarly.
Variable ord_v : vertex -> vinfo -> vinfo.
Variable ord_e : vertex -> vertex -> emap -> emap.
Variables (g : graph) (dst : N).

Definition Pq (s : solution) : Prop := Forall (fun c => se_dst c <> VAS dst) (so_edges s).

Lemma news_no_early p s : Pq p -> In s (news ord_v ord_e g p) -> NoEarlyV dst (so_edges s).
Proof.
  intros Hp H. apply in_flat_map in H as (c & _ & H). destruct (try_add_edge p c) eqn:Et; [|destruct H].
  destruct H as [<-|[]]. apply try_add_edge_some in Et as (E & _). rewrite E.
  intros l1 c' l2 Hl Hne. symmetry in Hl. apply split_not_last in Hl; [|exact Hne]. unfold Pq in Hp. rewrite Forall_forall in Hp. auto.
Qed.

Lemma news_queue p s : Pq p -> In s (fst (expand ord_v ord_e g dst p)) -> Pq s.
Proof.
  intros Hp H. unfold expand in H; cbn [fst] in H. apply filter_In in H as [H Hc].
  apply in_flat_map in H as (c & _ & H). destruct (try_add_edge p c) eqn:Et; [|destruct H].
  destruct H as [<-|[]]. apply try_add_edge_some in Et as (E & _ & Ecur). unfold Pq. rewrite E.
  apply Forall_app; split; [exact Hp|]. constructor; [|constructor]. rewrite <- Ecur.
  intros Heq. rewrite Heq, vertex_eqb_refl in Hc. discriminate.
Qed.

Lemma bfs_no_early fuel : forall q, Forall Pq q -> Forall (fun s => NoEarlyV dst (so_edges s)) (bfs ord_v ord_e g dst fuel q).
Proof.
  induction fuel as [|f IH]; intros q Hq; cbn [bfs]; [constructor|]. apply Forall_app; split.
  - apply Forall_forall. intros s Hs. apply in_flat_map in Hs as (pr & Hp & Hs). apply in_map_iff in Hp as (p & <- & Hp).
    rewrite Forall_forall in Hq. apply (expand_snd ord_v ord_e) in Hs. eapply news_no_early; eauto.
  - apply IH. apply Forall_forall. intros s Hs. apply in_flat_map in Hs as (pr & Hp & Hs). apply in_map_iff in Hp as (p & <- & Hp).
    rewrite Forall_forall in Hq. eapply news_queue; eauto.
Qed.
End NoEarly.

Lemma ValidUse_fun u a b a' b' : ValidUse u a b -> ValidUse u a' b' -> a = a' /\ b = b'.
Proof.
  intros (leaf & ae & Hl & Hae & Hv) (leaf' & ae' & Hl' & Hae' & Hv'). rewrite Hl in Hl'. inversion Hl'; subst leaf'.
  rewrite Hae in Hae'. inversion Hae'; subst ae'. destruct (u_peer u) as [pi|].
  - destruct Hv as (_ & p & Hp & Hv), Hv' as (_ & p' & Hp' & Hv'). rewrite Hp in Hp'. inversion Hp'; subst p'.
    destruct (u_dir u); destruct Hv as [-> ->], Hv' as [-> ->]; auto.
  - destruct Hv as (_ & _ & Hv), Hv' as (_ & _ & Hv'). destruct (u_dir u); destruct Hv as [-> ->], Hv' as [-> ->]; auto.
Qed.

Lemma no_early_uses dst l :
  Forall (fun e => EdgeFull (se_src e) (se_dst e) (se_seg e) (se_edge e)) l ->
  NoEarlyV dst l -> NoEarlyDst dst (map use_of_edge l).
Proof.
  intros Hf Hne u1 u u2 a b Hsplit Hu2 Hv.
  apply map_eq_app in Hsplit as (l1 & lr & -> & <- & Hr). destruct lr as [|c l2]; [discriminate|]. cbn [map] in Hr.
  inversion Hr; subst. apply Forall_app in Hf as [_ Hf]. inversion Hf as [|? ? Hfc _]; subst.
  pose proof (edge_valid_use c Hfc) as Hvc. destruct (ValidUse_fun _ _ _ _ _ Hv Hvc) as [_ ->].
  intros Hj. apply jn_as in Hj. revert Hj. apply (Hne l1 c l2 eq_refl). intros ->. apply Hu2. reflexivity.
Qed.

Lemma returned_path_enumerated Hid Hfp ord_v ord_e src dst cores non_cores out p :
  (forall v l, Permutation (ord_v v l) l) -> (forall v w l, Permutation (ord_e v w l) l) ->
  combine_paths Hid Hfp ord_v ord_e src dst cores non_cores = Ok out -> In p out ->
  exists us, In us (combinations cores non_cores src dst) /\ Forall2 SegOfUse (sp_segs p) us.
Proof.
  intros Hv He H Hp.
  destruct (combine_stages _ _ _ _ _ _ _ _ _ H) as [[_ ->]|(g & cand & Hne & Hg & HI & Hcand & Hcol & Hf)]; [destruct Hp|].
  apply N.eqb_neq in Hne.
  destruct (collect_paths_sorted Hfp _ _ (get_paths_sorted ord_v ord_e g src dst)
              (get_paths_full ord_v ord_e Hv He g src dst HI) (get_paths_cost ord_v ord_e g src dst) Hcol) as [_ Hall].
  destruct (filter_duplicates_In _ _ _ _ _ Hf Hp) as [[]|Hin].
  rewrite Forall_forall in Hall. destruct (Hall p Hin) as (s & Hs & Hsp & _).
  pose proof (get_paths_chain ord_v ord_e g src dst) as Hch. rewrite Forall_forall in Hch. destruct (Hch s Hs) as [(C1 & C2 & C3) Hcur].
  pose proof (get_paths_full ord_v ord_e Hv He g src dst HI) as Hfull. rewrite Forall_forall in Hfull. specialize (Hfull s Hs).
  pose proof (get_paths_ok ord_v ord_e Hv He g src dst) as Hok. rewrite Forall_forall in Hok. destruct (Hok s Hs) as [Hin_g _].
  destruct (sol_path_ends _ _ _ Hsp) as (st & f & l & Hst & _ & _ & _ & _ & _ & Hsegs).
  assert (Hearly : NoEarlyV dst (so_edges s)).
  { assert (Hb : Forall (fun s0 => NoEarlyV dst (so_edges s0)) (bfs ord_v ord_e g dst 4 [sol_new (VAS src)])).
    { apply bfs_no_early. constructor; [constructor|constructor]. }
    rewrite Forall_forall in Hb. apply Hb. unfold get_paths in Hs. eapply Permutation_in; [apply sort_by_perm|exact Hs]. }
  exists (map use_of_edge (so_edges s)). split.
  - apply enum_complete_lemma; [|apply no_early_uses; assumption]. split; [|split].
    + apply kinds_allowed_of; [|exact C3]. intros E. unfold sol_path in Hsp. rewrite E in Hsp. discriminate.
    + apply Forall_forall. intros u Hu. apply in_map_iff in Hu as (e & <- & Hedge).
      apply (from_input_of Hid). unfold sol_in in Hin_g. rewrite Forall_forall in Hin_g. specialize (Hin_g e Hedge). unfold sedge_in in Hin_g.
      destruct (add_segments_from _ _ _ Hg _ _ _ _ Hin_g) as [(vi & em & [] & _)|Hmem]. exact Hmem.
    + pose proof (chain_chained (VAS src) (so_edges s) C1 Hfull) as Hc. rewrite <- C2, Hcur in Hc. exact Hc.
  - destruct (edges_fold_uses (so_edges s) _ _ ltac:(eapply Forall_impl; [|exact Hfull]; intros e (Hok' & _); exact (proj1 Hok')) Hst)
      as (ds & Hds & Hall'). cbn [ps_segs app] in Hds. rewrite Hsegs, Hds. exact Hall'.
Qed.
