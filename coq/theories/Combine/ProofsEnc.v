(** Encoding lemmas: a StandardPath that passes wire_valid encodes to bytes whose layout the
    view accepts (the [expect] after try_from_boxed in PathSolution::path cannot fire). *)
From Sci Require Import Combine.Model.
From Coq Require Import Lia ZifyBool ZifyNat ZifyN.
Ltac Zify.zify_post_hook ::= Z.div_mod_to_equations.
Local Open Scope N_scope.
Arguments N.add : simpl never. Arguments N.sub : simpl never. Arguments N.mul : simpl never.
Arguments N.div : simpl never. Arguments N.modulo : simpl never. Arguments N.pow : simpl never.
Arguments N.eqb : simpl never. Arguments N.ltb : simpl never. Arguments N.leb : simpl never.

Lemma be_bytes_length n v : length (be_bytes n v) = n.
Proof. revert v; induction n as [|n IH]; intros v; cbn [be_bytes]; [reflexivity|]. rewrite app_length, IH. cbn. lia. Qed.

Lemma be_val_app acc l b : be_val acc (l ++ [b]) = be_val acc l * 256 + b.
Proof. revert acc; induction l as [|x l IH]; intros acc; cbn [be_val app]; [reflexivity|]. apply IH. Qed.

Lemma be_val_be_bytes n v : be_val 0 (be_bytes n v) = v mod 256 ^ N.of_nat n.
Proof.
  revert v; induction n as [|n IH]; intros v; cbn [be_bytes].
  - cbn. rewrite N.mod_1_r. reflexivity.
  - rewrite be_val_app, IH. rewrite Nat2N.inj_succ, N.pow_succ_r'.
    assert (H: 256 ^ N.of_nat n <> 0) by (apply N.pow_nonzero; discriminate).
    rewrite N.mod_mul_r by (auto; discriminate).
    generalize ((v / 256) mod 256 ^ N.of_nat n) (v mod 256). intros X Y. ring.
Qed.

Lemma flat_map_const_length {A B} (f : A -> list B) k l :
  (forall a, length (f a) = k) -> length (flat_map f l) = (k * length l)%nat.
Proof.
  intros H. induction l as [|a l IH]; cbn [flat_map length]; [lia|]. rewrite app_length, H, IH. lia.
Qed.

Lemma encode_std_length segs :
  N.of_nat (length (encode_std segs)) =
  4 + 8 * N.of_nat (length segs) + 12 * N.of_nat (length (flat_map ds_hops segs)).
Proof.
  unfold encode_std, enc_meta. rewrite !app_length, be_bytes_length.
  rewrite (flat_map_const_length enc_info 8) by (intros; apply be_bytes_length).
  rewrite (flat_map_const_length enc_hop 12) by (intros; apply be_bytes_length).
  lia.
Qed.

Lemma meta_word_roundtrip s0 s1 s2 :
  s0 < 64 -> s1 < 64 -> s2 < 64 ->
  let w := be_val 0 (firstn 4 (enc_meta s0 s1 s2)) in
  get 32 SEG0_LEN_RNG w = s0 /\ get 32 SEG1_LEN_RNG w = s1 /\ get 32 SEG2_LEN_RNG w = s2.
Proof.
  intros H0 H1 H2 w. subst w. unfold enc_meta.
  rewrite firstn_all2 by (rewrite be_bytes_length; lia). rewrite be_val_be_bytes.
  unfold get, put, CURR_INFO_FIELD_RNG, CURR_HOP_FIELD_RNG, SEG0_LEN_RNG, SEG1_LEN_RNG, SEG2_LEN_RNG; cbn [fst snd].
  change (256 ^ N.of_nat 4) with 4294967296.
  change (2 ^ 2) with 4. change (2 ^ 6) with 64.
  change (2 ^ (32 - 0 - 2)) with 1073741824. change (2 ^ (32 - 2 - 6)) with 16777216.
  change (2 ^ (32 - 14 - 6)) with 4096. change (2 ^ (32 - 20 - 6)) with 64. change (2 ^ (32 - 26 - 6)) with 1.
  repeat split; lia.
Qed.

Lemma seg_size_small segs i s :
  nth_error segs i = Some s -> N.of_nat (length (ds_hops s)) <= 63 ->
  seg_size_u8 segs i = N.of_nat (length (ds_hops s)).
Proof. intros H Hl. unfold seg_size_u8. rewrite H. apply N.mod_small. lia. Qed.
Lemma seg_size_none segs i : nth_error segs i = None -> seg_size_u8 segs i = 0.
Proof. intros H. unfold seg_size_u8. rewrite H. reflexivity. Qed.

Lemma view_accepts_encoding segs : wire_valid segs = true -> view_size_ok (encode_std segs) = true.
Proof.
  unfold wire_valid. intros H.
  repeat (apply andb_true_iff in H; destruct H as [H ?]).
  match goal with Hf : forallb _ segs = true |- _ => rename Hf into Hall end.
  rewrite forallb_forall in Hall.
  assert (Hseg : forall s, In s segs -> 1 <= N.of_nat (length (ds_hops s)) <= 63).
  { intros s Hs. specialize (Hall s Hs). apply andb_true_iff in Hall as [A B].
    unfold MAX_SEGMENT_HOPS in A. destruct (ds_hops s); [discriminate|]. cbn [length] in *. lia. }
  assert (Hlen : (1 <= length segs <= 3)%nat).
  { unfold MAX_SEGMENTS in *. destruct segs; [discriminate|]. cbn [length] in *. lia. }
  unfold view_size_ok. rewrite encode_std_length. unfold META_BYTES.
  destruct (4 + 8 * N.of_nat (length segs) + 12 * N.of_nat (length (flat_map ds_hops segs)) <? 4) eqn:E; [lia|].
  assert (Hfirst : firstn 4 (encode_std segs) =
                   firstn 4 (enc_meta (seg_size_u8 segs 0) (seg_size_u8 segs 1) (seg_size_u8 segs 2))).
  { unfold encode_std. rewrite firstn_app. unfold enc_meta at 2. rewrite be_bytes_length. cbn [Nat.sub firstn].
    rewrite app_nil_r. reflexivity. }
  rewrite Hfirst.
  assert (Hsz : forall i, seg_size_u8 segs i < 64 /\
                (forall s, nth_error segs i = Some s -> seg_size_u8 segs i = N.of_nat (length (ds_hops s))) /\
                (nth_error segs i = None -> seg_size_u8 segs i = 0)).
  { intros i. destruct (nth_error segs i) as [s|] eqn:En.
    - pose proof (Hseg s (nth_error_In _ _ En)) as Hs.
      rewrite (seg_size_small _ _ _ En) by lia. split; [lia|]. split; [intros s' E'; congruence|discriminate].
    - rewrite (seg_size_none _ _ En). split; [lia|]. split; [discriminate|reflexivity]. }
  destruct (meta_word_roundtrip _ _ _ (proj1 (Hsz 0%nat)) (proj1 (Hsz 1%nat)) (proj1 (Hsz 2%nat))) as (G0 & G1 & G2).
  rewrite G0, G1, G2. unfold data_size, INFO_BYTES, HOP_BYTES.
  destruct segs as [|a [|b [|c [|d r]]]]; cbn [length] in Hlen; try lia.
  - pose proof (Hseg a (or_introl eq_refl)).
    rewrite (proj1 (proj2 (Hsz 0%nat)) a eq_refl), (proj2 (proj2 (Hsz 1%nat)) eq_refl), (proj2 (proj2 (Hsz 2%nat)) eq_refl).
    cbn [flat_map length]. rewrite app_nil_r. apply N.eqb_eq. repeat match goal with |- context [if ?b then _ else _] => destruct b eqn:? end; lia.
  - pose proof (Hseg a (or_introl eq_refl)). pose proof (Hseg b (or_intror (or_introl eq_refl))).
    rewrite (proj1 (proj2 (Hsz 0%nat)) a eq_refl), (proj1 (proj2 (Hsz 1%nat)) b eq_refl), (proj2 (proj2 (Hsz 2%nat)) eq_refl).
    cbn [flat_map length]. rewrite app_nil_r, app_length. apply N.eqb_eq. repeat match goal with |- context [if ?b then _ else _] => destruct b eqn:? end; lia.
  - pose proof (Hseg a (or_introl eq_refl)). pose proof (Hseg b (or_intror (or_introl eq_refl))).
    pose proof (Hseg c (or_intror (or_intror (or_introl eq_refl)))).
    rewrite (proj1 (proj2 (Hsz 0%nat)) a eq_refl), (proj1 (proj2 (Hsz 1%nat)) b eq_refl), (proj1 (proj2 (Hsz 2%nat)) c eq_refl).
    cbn [flat_map length]. rewrite app_nil_r, !app_length. apply N.eqb_eq. repeat match goal with |- context [if ?b then _ else _] => destruct b eqn:? end; lia.
Qed.

Lemma exp_secs_small u : exp_secs (u mod 256) <= 86400.
Proof. unfold exp_secs, EXP_UNIT_SECS, EXP_UNIT_NANOS. assert (u mod 256 < 256) by (apply N.mod_lt; lia). lia. Qed.
