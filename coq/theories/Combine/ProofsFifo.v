(** C19: the level-order formulation [bfs] of the search is exactly what the FIFO loop of
    MultiGraph::get_paths computes (pop_front / push_back), and the loop pops at most
    1 + E + E^2 + E^3 queue entries. *)
From Sci Require Import Combine.Model Combine.Proofs Combine.ProofsEnc Combine.ProofsC19 Combine.ProofsBound Combine.ProofsC04
  Combine.ProofsPath Combine.ProofsWF Combine.ProofsComplete Common.ListAux.
From Coq Require Import Lia ZifyBool ZifyNat ZifyN Permutation.
Local Open Scope nat_scope.

Section Fifo.
Variable ord_v : vertex -> vinfo -> vinfo.
Variable ord_e : vertex -> vertex -> emap -> emap.
Hypothesis ord_v_perm : forall v l, Permutation (ord_v v l) l.
Hypothesis ord_e_perm : forall v w l, Permutation (ord_e v w l) l.
Variables (g : graph) (dst : N).

Notation expand' := (expand ord_v ord_e g dst).
Definition Cq (q : list solution) : list solution := flat_map (fun p => fst (expand' p)) q.
Definition Sq (q : list solution) : list solution := flat_map (fun p => snd (expand' p)) q.

Lemma one_level q1 : forall q2 sols fuel,
  length q1 <= fuel ->
  bfs_worklist ord_v ord_e g dst fuel (q1 ++ q2) sols
  = bfs_worklist ord_v ord_e g dst (fuel - length q1) (q2 ++ Cq q1) (sols ++ Sq q1).
Proof.
  induction q1 as [|p r IH]; intros q2 sols fuel Hf; cbn [app length Cq Sq flat_map].
  - rewrite Nat.sub_0_r, !app_nil_r. reflexivity.
  - destruct fuel as [|f]; [cbn in Hf; lia|]. cbn [bfs_worklist]. destruct (expand' p) as [cs ss] eqn:E. cbn [fst snd].
    rewrite <- app_assoc. rewrite IH by (cbn in Hf; lia). cbn [Nat.sub]. rewrite <- !app_assoc. reflexivity.
Qed.

Lemma Cq_next q : Cq q = next_queue ord_v ord_e g dst q.
Proof. unfold Cq, next_queue. rewrite flat_map_map. reflexivity. Qed.

Fixpoint pops (n : nat) (q : list solution) : nat :=
  match n with O => O | S n' => length q + pops n' (Cq q) end.

Lemma worklist_levels n : forall q sols fuel,
  queue_at ord_v ord_e g dst n q = [] -> pops n q <= fuel ->
  bfs_worklist ord_v ord_e g dst fuel q sols = Some (sols ++ bfs ord_v ord_e g dst n q).
Proof.
  induction n as [|n IH]; intros q sols fuel Hq Hf; cbn [queue_at pops bfs] in *.
  - subst q. destruct fuel; cbn; rewrite app_nil_r; reflexivity.
  - rewrite <- (app_nil_r q) at 1. rewrite one_level by lia. cbn [app].
    rewrite IH; [|rewrite Cq_next; exact Hq|lia].
    rewrite <- app_assoc. unfold Sq, Cq. rewrite !flat_map_map. reflexivity.
Qed.

(** level sizes *)
Lemma Cq_length q : length (Cq q) <= length q * ecount g.
Proof. unfold Cq. apply flat_map_le. intros p. apply expand_fst_length; assumption. Qed.

Lemma Cq_edges k q :
  Forall (fun s => length (so_edges s) = k) q -> Forall (fun s => length (so_edges s) = S k) (Cq q).
Proof.
  intros Hq. apply Forall_forall. intros s Hs. apply in_flat_map in Hs as (p & Hp & Hs).
  apply (expand_fst ord_v ord_e) in Hs. rewrite Forall_forall in Hq. specialize (Hq _ Hp).
  apply in_flat_map in Hs as (c & _ & Hs). destruct (try_add_edge p c) eqn:Et; [|destruct Hs].
  destruct Hs as [<-|[]]. apply try_add_edge_some in Et as (Et & _). rewrite Et, app_length. cbn. lia.
Qed.

Lemma Cq_three q : Forall (fun s => length (so_edges s) = 3) q -> Cq q = [].
Proof.
  intros Hq. unfold Cq. induction Hq as [|p q Hp Hq IH]; cbn [flat_map]; [reflexivity|].
  rewrite IH, (expand_three ord_v ord_e g dst p) by lia. reflexivity.
Qed.

Lemma fifo_loop_is_bfs src fuel :
  let E := ecount g in
  1 + E + E ^ 2 + E ^ 3 <= fuel ->
  bfs_worklist ord_v ord_e g dst fuel [sol_new (VAS src)] [] = Some (bfs ord_v ord_e g dst 4 [sol_new (VAS src)]).
Proof.
  intros E Hf. set (q0 := [sol_new (VAS src)]).
  assert (H0 : Forall (fun s => length (so_edges s) = 0) q0) by (repeat constructor).
  pose proof (Cq_edges 0 q0 H0) as H1. pose proof (Cq_edges 1 _ H1) as H2. pose proof (Cq_edges 2 _ H2) as H3.
  pose proof (Cq_three _ H3) as H4.
  pose proof (Cq_length q0) as L1. pose proof (Cq_length (Cq q0)) as L2. pose proof (Cq_length (Cq (Cq q0))) as L3.
  change (length q0) with 1 in L1. fold E in L1, L2, L3.
  apply (worklist_levels 4 q0 [] fuel).
  - cbn [queue_at]. rewrite <- !Cq_next. exact H4.
  - cbn [pops]. change (length q0) with 1. nia.
Qed.
End Fifo.
