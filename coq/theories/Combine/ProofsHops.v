(** C04: for well-formed segments the cost the result is sorted by is the number of inter-AS
    links of the path: the metadata interface list has exactly two interfaces per unit of cost. *)
From Sci Require Import Combine.Model Combine.Spec Combine.Obs Combine.Proofs Combine.ProofsEnc Combine.ProofsC19 Combine.ProofsBound
  Combine.ProofsC04 Combine.ProofsPath Combine.ProofsWF Combine.ProofsSound Combine.ProofsIfaces Common.ListAux.
From Coq Require Import Lia ZifyBool ZifyNat ZifyN Permutation.
Local Open Scope nat_scope.

Definition b2n (b : bool) : nat := if b then 1 else 0.

Lemma item_count L idx pr it :
  ItemOK L idx pr it -> idx <= fst it ->
  length (item_ifs idx pr it) = b2n (negb (Nat.eqb (fst it) L)) + b2n (negb (Nat.eqb (fst it) idx) || is_some pr).
Proof.
  intros H Hge. transitivity (length (map snd (item_ifs idx pr it))); [symmetry; apply map_length|].
  rewrite item_ifs_ids, app_length. f_equal.
  - unfold eg_part. pose proof (item_hf_eg L idx pr it H) as He.
    destruct (N.eqb_spec (hf_eg (item_hf idx pr it)) 0) as [E|E]; destruct (Nat.eqb_spec (fst it) L) as [E'|E']; cbn; try reflexivity.
    + apply He in E. contradiction.
    + apply He in E'. contradiction.
  - rewrite (in_part_spec L idx pr it _ H eq_refl).
    destruct (negb (Nat.eqb (fst it) idx) || is_some pr) eqn:Ec; cbn [andb b2n]; [|reflexivity].
    assert (Hnz : hf_in (item_hf idx pr it) <> 0%N).
    { unfold item_hf, item_peer. destruct pr as [pi|].
      - destruct (Nat.eqb_spec (fst it) idx) as [E|E].
        + destruct (io_peer_ex _ _ _ _ H pi eq_refl E) as (p & Hp). rewrite Hp.
          exact (proj1 (io_peer _ _ _ _ H pi p eq_refl E Hp)).
        + intros H0. apply (io_in _ _ _ _ H) in H0. lia.
      - cbn [is_some] in Ec. rewrite orb_false_r in Ec. apply negb_true_iff, Nat.eqb_neq in Ec.
        intros H0. apply (io_in _ _ _ _ H) in H0. lia. }
    apply N.eqb_neq in Hnz. rewrite Hnz. reflexivity.
Qed.

Lemma items_count L idx pr l : forall a,
  ItemsOK L idx pr (combine (seq a (length l)) l) -> idx <= a -> a + length l = S L -> l <> [] ->
  length (flat_map (item_ifs idx pr) (combine (seq a (length l)) l))
  = 2 * length l - 1 - b2n (Nat.eqb a idx && negb (is_some pr)).
Proof.
  induction l as [|x l IH]; intros a Hok Ha HL Hne; [congruence|].
  cbn [length seq combine flat_map] in *. unfold ItemsOK in Hok. apply Forall_cons_iff in Hok as [Hx Hrest].
  rewrite app_length, (item_count L idx pr (a, x) Hx Ha). cbn [fst].
  destruct l as [|y l'].
  - cbn [length seq combine flat_map]. replace (Nat.eqb a L) with true by (symmetry; apply Nat.eqb_eq; cbn in HL; lia).
    destruct (Nat.eqb a idx), (is_some pr); cbn; lia.
  - rewrite (IH (S a) Hrest ltac:(lia) ltac:(cbn [length] in *; lia) ltac:(discriminate)).
    replace (Nat.eqb a L) with false by (symmetry; apply Nat.eqb_neq; cbn [length] in HL; lia).
    replace (Nat.eqb (S a) idx) with false by (symmetry; apply Nat.eqb_neq; lia).
    cbn [length andb negb b2n] in *. destruct (Nat.eqb a idx), (is_some pr); cbn; lia.
Qed.

Lemma edge_ifs_count e :
  wf_segment (is_seg (se_seg e)) -> EdgeOK (se_seg e) (se_edge e) ->
  length (edge_ifs e) = 2 * (seg_len (is_seg (se_seg e)) - 1 - e_idx (se_edge e)) + b2n (is_some (e_peer (se_edge e))).
Proof.
  intros Hwf Hok. pose proof (edge_items_ok e Hwf Hok) as Hitems. destruct Hok as [Hidx _].
  unfold edge_ifs, orient, edge_items.
  assert (Hlen : forall A (l : list A), length (if edge_cons_dir e then rev l else l) = length l).
  { intros A l. destruct (edge_cons_dir e); [apply rev_length|reflexivity]. }
  rewrite Hlen.
  set (es := sg_entries (is_seg (se_seg e))) in *. set (idx := e_idx (se_edge e)) in *.
  set (pr := e_peer (se_edge e)) in *. unfold seg_len in *. fold es in Hidx, Hitems |- *.
  assert (Hinc : skipn idx (enumerate es) = combine (seq idx (length (skipn idx es))) (skipn idx es)).
  { unfold enumerate. rewrite skipn_combine, skipn_seq, skipn_length. reflexivity. }
  rewrite Hinc in *. set (l := skipn idx es) in *.
  assert (Hl : length l = length es - idx) by (unfold l; apply skipn_length).
  rewrite (Permutation_length (Permutation_flat_map _ (Permutation_sym (Permutation_rev (combine (seq idx (length l)) l))))).
  rewrite (items_count (length es - 1) idx pr l idx Hitems (Nat.le_refl _) ltac:(lia) ltac:(intros E; rewrite E in Hl; cbn in Hl; lia)).
  rewrite Nat.eqb_refl. cbn [andb]. destruct (is_some pr); cbn; lia.
Qed.

(** peering edges come in pairs *)
Definition is_vpeer (v : vertex) : bool := match v with VPeer _ _ _ _ => true | VAS _ => false end.

Lemma chain_peer_balance : forall l v0,
  chain_ok v0 l ->
  length (filter (fun e => is_vpeer (se_dst e)) l) + b2n (is_vpeer v0)
  = length (filter (fun e => is_vpeer (se_src e)) l) + b2n (is_vpeer (end_vertex v0 l)).
Proof.
  induction l as [|e l IH]; intros v0 Hc; cbn [filter length end_vertex chain_ok] in *; [lia|].
  destruct Hc as [Hs Hc]. specialize (IH _ Hc). rewrite Hs.
  destruct (is_vpeer (se_dst e)), (is_vpeer v0); cbn [length b2n] in *; lia.
Qed.

Lemma edge_peer_ends e :
  EdgeFull (se_src e) (se_dst e) (se_seg e) (se_edge e) ->
  b2n (is_some (e_peer (se_edge e))) = b2n (is_vpeer (se_dst e)) + b2n (is_vpeer (se_src e))
  /\ (is_some (e_peer (se_edge e)) && negb (edge_cons_dir e)) = is_vpeer (se_dst e).
Proof.
  intros (_ & _ & leaf & ae & Hleaf & _ & Hv). unfold edge_cons_dir. rewrite Hleaf.
  destruct (e_peer (se_edge e)) as [pi|]; cbn [is_some].
  - destruct Hv as (_ & p & _ & [[-> ->]|[-> ->]]); cbn; [auto|]. rewrite N.eqb_refl. auto.
  - destruct Hv as ([[-> ->]|[-> ->]] & _); cbn; auto.
Qed.

Lemma ifs_weight l :
  Forall (fun e => EdgeFull (se_src e) (se_dst e) (se_seg e) (se_edge e)) l ->
  Forall (fun e => wf_segment (is_seg (se_seg e))) l ->
  (N.of_nat (length (flat_map edge_ifs l)) + N.of_nat (length (filter (fun e => is_vpeer (se_dst e)) l))
   = 2 * edges_weight l + N.of_nat (length (filter (fun e => is_vpeer (se_src e)) l)))%N.
Proof.
  induction l as [|e l IH]; intros Hf Hw; [reflexivity|]. inversion Hf as [|? ? Hfe Hf']; subst. inversion Hw as [|? ? Hwe Hw']; subst.
  specialize (IH Hf' Hw'). cbn [flat_map filter]. rewrite app_length, (edge_ifs_count e Hwe (proj1 Hfe)).
  destruct (edge_peer_ends e Hfe) as [Hp _]. rewrite Hp.
  unfold edges_weight in *. cbn [fold_right]. destruct Hfe as (_ & Hwt & _). unfold EdgeW in Hwt. rewrite Hwt.
  destruct (se_dst e) as [d|d1 d2 d3 d4], (se_src e) as [s|s1 s2 s3 s4]; cbn [is_vpeer b2n length] in *; lia.
Qed.

Lemma sol_ifaces_twice_cost Hfp sol p src dst m ifs :
  Chain (VAS src) sol -> so_cur sol = VAS dst ->
  Forall (fun e => EdgeFull (se_src e) (se_dst e) (se_seg e) (se_edge e)) (so_edges sol) ->
  Forall (fun e => wf_segment (is_seg (se_seg e))) (so_edges sol) ->
  CostOK sol ->
  sol_path Hfp sol = Ok (Some p) -> sp_meta p = Some m -> md_ifaces m = Some ifs ->
  (N.of_nat (length ifs) = 2 * path_cost p)%N.
Proof.
  intros (C1 & C2 & _) Hcur Hf Hw Hc Hsp Hm Hi.
  rewrite (sol_path_cost Hfp sol p Hf Hc Hsp). rewrite Hc.
  destruct (sol_path_mtu _ _ _ _ Hsp Hm) as (_ & Hifs & _). rewrite Hi in Hifs. inversion Hifs; subst ifs.
  pose proof (ifs_weight (so_edges sol) Hf Hw) as H1.
  pose proof (chain_peer_balance (so_edges sol) (VAS src) C1) as H2. rewrite <- C2, Hcur in H2. cbn [is_vpeer b2n] in H2.
  lia.
Qed.

Lemma combine_ifaces_twice_cost Hid Hfp ord_v ord_e src dst cores non_cores out p m ifs :
  (forall v l, Permutation (ord_v v l) l) -> (forall v w l, Permutation (ord_e v w l) l) ->
  Forall wf_segment (cores ++ non_cores) ->
  combine_paths Hid Hfp ord_v ord_e src dst cores non_cores = Ok out -> In p out ->
  sp_meta p = Some m -> md_ifaces m = Some ifs ->
  (N.of_nat (length ifs) = 2 * path_cost p)%N.
Proof.
  intros Hv He Hwf H Hp Hm Hi.
  destruct (combine_stages _ _ _ _ _ _ _ _ _ H) as [[_ ->]|(g & cand & _ & Hg & HI & Hcand & Hcol & Hf)]; [destruct Hp|].
  destruct (collect_paths_sorted Hfp _ _ (get_paths_sorted ord_v ord_e g src dst)
              (get_paths_full ord_v ord_e Hv He g src dst HI) (get_paths_cost ord_v ord_e g src dst) Hcol) as [_ Hall].
  destruct (filter_duplicates_In _ _ _ _ _ Hf Hp) as [[]|Hin].
  rewrite Forall_forall in Hall. destruct (Hall p Hin) as (s & Hs & Hsp & _).
  pose proof (get_paths_chain ord_v ord_e g src dst) as Hch. rewrite Forall_forall in Hch. destruct (Hch s Hs) as [Hc Hcur].
  pose proof (get_paths_full ord_v ord_e Hv He g src dst HI) as Hfull. rewrite Forall_forall in Hfull. specialize (Hfull s Hs).
  pose proof (get_paths_cost ord_v ord_e g src dst) as Hcost. rewrite Forall_forall in Hcost. specialize (Hcost s Hs).
  pose proof (get_paths_ok ord_v ord_e Hv He g src dst) as Hok. rewrite Forall_forall in Hok. destruct (Hok s Hs) as [Hin_g _].
  assert (Hws : Forall (fun e => wf_segment (is_seg (se_seg e))) (so_edges s)).
  { eapply Forall_impl; [|exact Hin_g]. intros e Hedge. unfold sedge_in in Hedge.
    destruct (add_segments_from _ _ _ Hg _ _ _ _ Hedge) as [(vi & em & [] & _)|Hmem].
    rewrite Forall_forall in Hwf. apply Hwf. eapply input_segments_seg; eauto. }
  eapply sol_ifaces_twice_cost; eauto.
Qed.
