(** C04 completeness, part 2: the search graph contains an edge for every admissible use of
    every (well-formed) input segment. *)
From Sci Require Import Combine.Model Combine.SpecRules Combine.Proofs Combine.ProofsEnc Combine.ProofsC19 Combine.ProofsBound Combine.ProofsC04
  Combine.ProofsPath Combine.ProofsWF Combine.ProofsSound Combine.ProofsComplete Common.ListAux.
From Coq Require Import Lia ZifyBool ZifyNat ZifyN Permutation.
Local Open Scope N_scope.

(** * boolean equalities are reflexive *)
Lemma list_eqb_refl' {A} (eqb : A -> A -> bool) : (forall a, eqb a a = true) -> forall l, list_eqb eqb l l = true.
Proof. intros H l. induction l as [|a l IH]; cbn; [reflexivity|]. rewrite H, IH. reflexivity. Qed.
Lemma hopf_eqb_refl a : hopf_eqb a a = true.
Proof. unfold hopf_eqb. rewrite !N.eqb_refl. reflexivity. Qed.
Lemma peer_eqb_refl a : peer_eqb a a = true.
Proof. unfold peer_eqb. rewrite !N.eqb_refl, hopf_eqb_refl. reflexivity. Qed.
Lemma asentry_eqb_refl a : asentry_eqb a a = true.
Proof. unfold asentry_eqb. rewrite !N.eqb_refl, hopf_eqb_refl, (list_eqb_refl' _ peer_eqb_refl). reflexivity. Qed.
Lemma segment_eqb_refl a : segment_eqb a a = true.
Proof. unfold segment_eqb. rewrite !N.eqb_refl, (list_eqb_refl' _ asentry_eqb_refl). reflexivity. Qed.
Lemma iseg_eqb_refl a : iseg_eqb a a = true.
Proof. unfold iseg_eqb. rewrite N.eqb_refl, segment_eqb_refl. destruct (is_kind a); reflexivity. Qed.

Lemma vertex_eqb_ok a b : vertex_eqb a b = true <-> a = b.
Proof. split; [apply vertex_eqb_eq|intros ->; apply vertex_eqb_refl]. Qed.
Lemma iseg_eqb_ok a b : iseg_eqb a b = true <-> a = b.
Proof. split; [apply iseg_eqb_eq|intros ->; apply iseg_eqb_refl]. Qed.

(** * get/set laws of the graph *)
Lemma glookup_ade_same g a b s e : glookup (add_directed_edge g a b s e) a b s = Some e.
Proof.
  unfold glookup, add_directed_edge.
  rewrite (aget_aupd_same vertex_eqb vertex_eqb_ok), (aget_aupd_same vertex_eqb vertex_eqb_ok),
          (aget_aupd_same iseg_eqb iseg_eqb_ok). reflexivity.
Qed.

Lemma glookup_ade_other g a b s e a' b' s' :
  (a', b', s') <> (a, b, s) -> glookup (add_directed_edge g a b s e) a' b' s' = glookup g a' b' s'.
Proof.
  intros Hne. unfold glookup, add_directed_edge.
  destruct (vertex_eqb a' a) eqn:Ea.
  - apply vertex_eqb_eq in Ea. subst a'. rewrite (aget_aupd_same vertex_eqb vertex_eqb_ok).
    destruct (vertex_eqb b' b) eqn:Eb.
    + apply vertex_eqb_eq in Eb. subst b'. rewrite (aget_aupd_same vertex_eqb vertex_eqb_ok).
      assert (Hs : s' <> s) by (intros ->; apply Hne; reflexivity).
      rewrite (aget_aupd_other iseg_eqb iseg_eqb_ok) by exact Hs.
      destruct (aget vertex_eqb a g) as [vi|]; cbn [odefault]; [|reflexivity].
      destruct (aget vertex_eqb b vi); reflexivity.
    + assert (Hb : b' <> b) by (intros ->; rewrite vertex_eqb_refl in Eb; discriminate).
      rewrite (aget_aupd_other vertex_eqb vertex_eqb_ok) by exact Hb.
      destruct (aget vertex_eqb a g) as [vi|]; reflexivity.
  - assert (Ha : a' <> a) by (intros ->; rewrite vertex_eqb_refl in Ea; discriminate).
    rewrite (aget_aupd_other vertex_eqb vertex_eqb_ok) by exact Ha. reflexivity.
Qed.

(** * the insertions of a whole input, as a list *)
Definition ins := (vertex * vertex * iseg * edge)%type.
Definition apply_in (g : graph) (x : ins) : graph := let '(a, b, s, e) := x in add_directed_edge g a b s e.
Definition apply_ins (l : list ins) (g : graph) : graph := fold_left apply_in l g.

Definition key_of (x : ins) : vertex * vertex * iseg := let '(a, b, s, _) := x in (a, b, s).
Definition key_eqb (k k' : vertex * vertex * iseg) : bool :=
  let '(a, b, s) := k in let '(a', b', s') := k' in vertex_eqb a a' && vertex_eqb b b' && iseg_eqb s s'.
Lemma key_eqb_ok k k' : key_eqb k k' = true <-> k = k'.
Proof.
  destruct k as [[a b] s], k' as [[a' b'] s']. cbn. rewrite !andb_true_iff, !vertex_eqb_ok, iseg_eqb_ok.
  split; [intros [[-> ->] ->]; reflexivity|intros E; inversion E; auto].
Qed.

Lemma lookup_fold_other l : forall g a b s,
  (forall x, In x l -> key_of x <> (a, b, s)) -> glookup (apply_ins l g) a b s = glookup g a b s.
Proof.
  induction l as [|[[[a0 b0] s0] e0] l IH]; intros g a b s H; cbn [apply_ins fold_left]; [reflexivity|].
  fold (apply_ins l (apply_in g (a0, b0, s0, e0))). rewrite IH by (intros x Hx; apply H; right; exact Hx).
  cbn [apply_in]. apply glookup_ade_other. intros E. apply (H (a0, b0, s0, e0) (or_introl eq_refl)). cbn. congruence.
Qed.

Lemma lookup_fold l : forall g a b s e,
  In (a, b, s, e) l -> (forall e', In (a, b, s, e') l -> e' = e) -> glookup (apply_ins l g) a b s = Some e.
Proof.
  induction l as [|[[[a0 b0] s0] e0] l IH]; intros g a b s e Hin Hfun; [destruct Hin|].
  cbn [apply_ins fold_left]. fold (apply_ins l (apply_in g (a0, b0, s0, e0))).
  destruct (existsb (fun x => key_eqb (key_of x) (a, b, s)) l) eqn:Eex.
  - apply existsb_exists in Eex as ([[[a1 b1] s1] e1] & Hx & Hk). apply key_eqb_ok in Hk. cbn in Hk. inversion Hk; subst.
    assert (e1 = e) by (apply Hfun; right; exact Hx). subst e1.
    apply IH; [exact Hx|]. intros e' He'. apply Hfun. right; exact He'.
  - rewrite lookup_fold_other.
    + destruct Hin as [Hin|Hin].
      * inversion Hin; subst. cbn [apply_in]. apply glookup_ade_same.
      * exfalso. assert (existsb (fun x => key_eqb (key_of x) (a, b, s)) l = true); [|congruence].
        apply existsb_exists. exists (a, b, s, e). split; [exact Hin|]. apply key_eqb_ok. reflexivity.
    + intros x Hx Hk. assert (existsb (fun x => key_eqb (key_of x) (a, b, s)) l = true); [|congruence].
      apply existsb_exists. exists x. split; [exact Hx|]. apply key_eqb_ok. exact Hk.
Qed.

(** * add_segment as a list of insertions *)
Definition wN (s : iseg) (idx : nat) (tp : bool) : N :=
  N.of_nat (seg_len (is_seg s) - 1 - idx) + if tp then 1 else 0.

Definition peer_ins (s : iseg) (leaf : N) (idx : nat) (local : N) (pp : nat * peer) : list ins :=
  let '(pi, p) := pp in
  [(VAS leaf, VPeer local (hf_in (pe_hf p)) (pe_ia p) (pe_if p), s, mkEdge (wN s idx true) idx (Some pi));
   (VPeer (pe_ia p) (pe_if p) local (hf_in (pe_hf p)), VAS leaf, s, mkEdge (wN s idx false) idx (Some pi))].

Definition entry_ins (s : iseg) (leaf : N) (ie : nat * asentry) : list ins :=
  let '(idx, entry) := ie in
  (if negb (Nat.eqb idx (seg_len (is_seg s) - 1))
   then [(VAS leaf, VAS (ae_ia entry), s, mkEdge (wN s idx false) idx None);
         (VAS (ae_ia entry), VAS leaf, s, mkEdge (wN s idx false) idx None)]
   else [])
  ++ flat_map (peer_ins s leaf idx (ae_ia entry)) (enumerate (ae_peers entry)).

Definition seg_ins (s : iseg) : list ins :=
  match is_kind s with
  | Core =>
    match first_ia (is_seg s), last_ia (is_seg s) with
    | Some f, Some l => [(VAS f, VAS l, s, mkEdge (wN s 0 false) 0 None); (VAS l, VAS f, s, mkEdge (wN s 0 false) 0 None)]
    | _, _ => []
    end
  | NonCore =>
    match last_ia (is_seg s) with
    | Some leaf => flat_map (entry_ins s leaf) (rev (enumerate (sg_entries (is_seg s))))
    | None => []
    end
  end.

Lemma apply_ins_app a b g : apply_ins (a ++ b) g = apply_ins b (apply_ins a g).
Proof. unfold apply_ins. apply fold_left_app. Qed.

Lemma ofold_pure {A} (f : graph -> A -> res graph) (h : A -> list ins) l : forall g,
  (forall g a, In a l -> f g a = Ok (apply_ins (h a) g)) -> ofold f l g = Ok (apply_ins (flat_map h l) g).
Proof.
  induction l as [|a l IH]; intros g H; cbn [ofold flat_map]; [reflexivity|].
  rewrite (H g a (or_introl eq_refl)). cbn [obind]. rewrite apply_ins_app. apply IH. intros g' a' Ha'. apply H. right; exact Ha'.
Qed.

Lemma number_of_hops_wN s idx tp : (idx < seg_len (is_seg s))%nat -> number_of_hops s idx tp = Ok (wN s idx tp).
Proof. intros H. rewrite (number_of_hops_ok s idx tp H). reflexivity. Qed.

Lemma add_peer_edges_pure s leaf idx local g pp :
  (idx < seg_len (is_seg s))%nat -> add_peer_edges s leaf idx local g pp = Ok (apply_ins (peer_ins s leaf idx local pp) g).
Proof.
  intros H. destruct pp as [pi p]. unfold add_peer_edges. rewrite !number_of_hops_wN by exact H. cbn [obind]. reflexivity.
Qed.

Lemma add_non_core_entry_pure s leaf g ie :
  In ie (enumerate (sg_entries (is_seg s))) -> add_non_core_entry s leaf g ie = Ok (apply_ins (entry_ins s leaf ie) g).
Proof.
  intros Hin. destruct ie as [idx entry]. apply in_enumerate in Hin. pose proof (nth_error_lt _ _ _ Hin) as Hlt.
  unfold add_non_core_entry, entry_ins. rewrite checked_sub_ok by (unfold seg_len; lia). cbn [obind].
  rewrite apply_ins_app.
  destruct (negb (idx =? seg_len (is_seg s) - 1)%nat).
  - rewrite number_of_hops_wN by exact Hlt. cbn [obind]. unfold add_edge.
    apply (ofold_pure _ (peer_ins s leaf idx (ae_ia entry))). intros g' a _. apply add_peer_edges_pure. exact Hlt.
  - cbn [obind]. apply (ofold_pure _ (peer_ins s leaf idx (ae_ia entry))). intros g' a _. apply add_peer_edges_pure. exact Hlt.
Qed.

Lemma add_segment_pure g s :
  add_segment g s = Ok (apply_ins (seg_ins s) g) \/ (add_segment g s = Err tt /\ seg_ins s = []).
Proof.
  unfold add_segment, seg_ins. destruct (is_kind s).
  - unfold add_core_segment. destruct (first_ia (is_seg s)) as [f|] eqn:Ef; [|right; auto].
    destruct (last_ia (is_seg s)) as [l|]; [|right; auto]. left.
    rewrite number_of_hops_wN by (eapply first_ia_len; eauto). cbn [obind]. reflexivity.
  - unfold add_non_core_segment. destruct (last_ia (is_seg s)) as [leaf|]; [|right; auto]. left.
    apply (ofold_pure _ (entry_ins s leaf)). intros g' a Ha. apply add_non_core_entry_pure. apply in_rev in Ha. exact Ha.
Qed.

Lemma add_segments_pure l : forall g g', add_segments g l = Ok g' -> g' = apply_ins (flat_map seg_ins l) g.
Proof.
  induction l as [|s l IH]; intros g g'; cbn [add_segments flat_map].
  - intros E; inversion E; reflexivity.
  - destruct (add_segment_pure g s) as [-> |[-> E]].
    + intros H. rewrite apply_ins_app. apply IH; exact H.
    + intros H. rewrite E. cbn [app]. apply IH; exact H.
Qed.

(** * every insertion is a well-described edge of its own segment *)
Lemma peer_ins_full s leaf idx ae pp x :
  is_kind s = NonCore -> last_ia (is_seg s) = Some leaf -> nth_error (sg_entries (is_seg s)) idx = Some ae ->
  In pp (enumerate (ae_peers ae)) -> In x (peer_ins s leaf idx (ae_ia ae) pp) ->
  exists a b e, x = (a, b, s, e) /\ EdgeFull a b s e.
Proof.
  intros Hk Hleaf Hae Hpp Hx. destruct pp as [pi p]. pose proof (in_enumerate _ _ _ Hpp) as Hp.
  pose proof (nth_error_lt _ _ _ Hae) as Hlt. pose proof (nth_error_lt _ _ _ Hp) as Hpl.
  cbn [peer_ins] in Hx. destruct Hx as [<-|[<-|[]]]; eexists _, _, _; (split; [reflexivity|]);
    (split; [split; cbn; [exact Hlt|exists ae; auto]|split; [unfold EdgeW, wN; cbn; reflexivity|]]);
    exists leaf, ae; cbn; (split; [exact Hleaf|split; [exact Hae|split; [exact Hk|exists p; split; [exact Hp|auto]]]]).
Qed.

Lemma seg_ins_full s x : In x (seg_ins s) -> exists a b e, x = (a, b, s, e) /\ EdgeFull a b s e.
Proof.
  unfold seg_ins. destruct (is_kind s) eqn:Ek.
  - destruct (first_ia (is_seg s)) as [f|] eqn:Ef; [|intros []]. destruct (last_ia (is_seg s)) as [l|] eqn:El; [|intros []].
    pose proof (first_ia_len _ _ Ef) as Hlen. destruct (first_ia_nth _ _ Ef) as (ae & Hae & <-).
    intros [<-|[<-|[]]]; eexists _, _, _; (split; [reflexivity|]);
      (split; [split; cbn; auto|split; [unfold EdgeW, wN; cbn; reflexivity|]]);
      exists l, ae; cbn; (split; [exact El|split; [exact Hae|]]); (split; [|split; [auto|congruence]]); auto.
  - destruct (last_ia (is_seg s)) as [leaf|] eqn:El; [|intros []]. intros H.
    apply in_flat_map in H as ([idx entry] & Hie & H). apply in_rev, in_enumerate in Hie.
    pose proof (nth_error_lt _ _ _ Hie) as Hlt. unfold entry_ins in H. apply in_app_or in H as [H|H].
    + destruct (idx =? seg_len (is_seg s) - 1)%nat eqn:Eidx; cbn [negb] in H; [destruct H|]. apply Nat.eqb_neq in Eidx.
      destruct H as [<-|[<-|[]]]; eexists _, _, _; (split; [reflexivity|]);
        (split; [split; cbn; auto|split; [unfold EdgeW, wN; cbn; reflexivity|]]);
        exists leaf, entry; cbn; (split; [exact El|split; [exact Hie|]]);
        (split; [auto|split; [congruence|intros _; unfold seg_len in *; lia]]).
    + apply in_flat_map in H as (pp & Hpp & H). eapply peer_ins_full; eauto.
Qed.

(** * under well-formedness the key determines the edge *)
Definition peer_key (p : peer) : N * N * N := (hf_in (pe_hf p), pe_ia p, pe_if p).
Definition wf_peers (s : segment) : Prop :=
  forall ae, In ae (sg_entries s) -> NoDup (map peer_key (ae_peers ae)).

Lemma NoDup_map_nth {A B} (f : A -> B) (l : list A) i j x y :
  NoDup (map f l) -> nth_error l i = Some x -> nth_error l j = Some y -> f x = f y -> i = j.
Proof.
  intros Hnd Hi Hj Hf. apply (proj1 (NoDup_nth_error (map f l)) Hnd).
  - rewrite map_length. eapply nth_error_lt; eauto.
  - rewrite !nth_error_map, Hi, Hj. cbn. congruence.
Qed.

Lemma edge_functional s a b e e' :
  wf_segment (is_seg s) -> wf_peers (is_seg s) -> EdgeFull a b s e -> EdgeFull a b s e' -> e = e'.
Proof.
  intros Hwf Hwp ([Hidx _] & Hw & leaf & ae & Hleaf & Hae & Hv) ([Hidx' _] & Hw' & leaf' & ae' & Hleaf' & Hae' & Hv').
  rewrite Hleaf in Hleaf'. inversion Hleaf'; subst leaf'. pose proof Hwf as (Hlen & Hnd & _).
  assert (Hsame : e_idx e = e_idx e' -> e_peer e = e_peer e' -> e = e').
  { intros E1 E2. unfold EdgeW in Hw, Hw'. rewrite <- E1 in Hw'. rewrite <- Hw' in Hw. destruct e, e'; cbn in *; congruence. }
  assert (Hnotleaf : forall i x, nth_error (sg_entries (is_seg s)) i = Some x -> S i <> seg_len (is_seg s) -> ae_ia x <> leaf).
  { intros i x Hx Hne. destruct (entries_split_last _ _ Hleaf) as (es' & le & Hes & Hia).
    unfold seg_len in *. rewrite Hes in *. pose proof (nth_error_lt _ _ _ Hx) as Hl. rewrite app_length in *. cbn [length] in *.
    rewrite nth_error_app1 in Hx by lia. rewrite map_app in Hnd. cbn [map] in Hnd.
    apply NoDup_remove_2 in Hnd. rewrite app_nil_r in Hnd. intros Heq. apply Hnd.
    apply in_map_iff. exists x. split; [congruence|eapply nth_error_In; eauto]. }
  destruct (e_peer e) as [pi|] eqn:Ep, (e_peer e') as [pi'|] eqn:Ep'.
  - destruct Hv as (_ & p & Hp & Hv), Hv' as (_ & p' & Hp' & Hv').
    assert (Hcase : ae_ia ae = ae_ia ae' /\ peer_key p = peer_key p').
    { unfold peer_key. destruct Hv as [[-> ->]|[-> ->]], Hv' as [[Ha Hb]|[Ha Hb]]; try discriminate; inversion Hb; inversion Ha; subst; auto;
        split; congruence. }
    destruct Hcase as [Hia Hpk].
    assert (Ei : e_idx e = e_idx e') by (eapply (NoDup_map_nth ae_ia); eauto).
    rewrite <- Ei in Hae'. rewrite Hae in Hae'. inversion Hae'; subst ae'.
    assert (Epi : pi = pi') by (eapply (NoDup_map_nth peer_key); [apply Hwp; eapply nth_error_In; eauto|eauto|eauto|exact Hpk]).
    apply Hsame; congruence.
  - exfalso. destruct Hv as (_ & p & _ & Hv), Hv' as (Hv' & _).
    destruct Hv as [[-> ->]|[-> ->]], Hv' as [[Ha Hb]|[Ha Hb]]; discriminate.
  - exfalso. destruct Hv' as (_ & p & _ & Hv'), Hv as (Hv & _).
    destruct Hv' as [[-> ->]|[-> ->]], Hv as [[Ha Hb]|[Ha Hb]]; discriminate.
  - destruct Hv as (Hv & Hc & Hn), Hv' as (Hv' & Hc' & Hn').
    assert (Hnl : S (e_idx e) <> seg_len (is_seg s)).
    { destruct (is_kind s) eqn:Ek; [rewrite (Hc eq_refl); unfold seg_len; lia|auto]. }
    assert (Hnl' : S (e_idx e') <> seg_len (is_seg s)).
    { destruct (is_kind s) eqn:Ek; [rewrite (Hc' eq_refl); unfold seg_len; lia|auto]. }
    pose proof (Hnotleaf _ _ Hae Hnl) as H1. pose proof (Hnotleaf _ _ Hae' Hnl') as H2.
    assert (Hia : ae_ia ae = ae_ia ae').
    { destruct Hv as [[-> ->]|[-> ->]], Hv' as [[Ha Hb]|[Ha Hb]]; inversion Ha; inversion Hb; congruence. }
    apply Hsame; [eapply (NoDup_map_nth ae_ia); eauto|reflexivity].
Qed.

(** * every admissible use of an input segment is an edge of the graph *)
Definition vx (j : junction) : vertex :=
  match j with JAS a => VAS a | JLink a b c d => VPeer a b c d end.
Lemma jn_vx j : jn (vx j) = j. Proof. destruct j; reflexivity. Qed.
Lemma vx_jn v : vx (jn v) = v. Proof. destruct v; reflexivity. Qed.

Definition iseg_of (Hid : list N -> N) (u : seguse) : iseg := mkIS (u_kind u) (u_seg u) (Hid (id_input (u_seg u))).

Lemma first_ia_of_nth s ae : nth_error (sg_entries s) 0 = Some ae -> first_ia s = Some (ae_ia ae).
Proof. unfold first_ia. destruct (sg_entries s); cbn; [discriminate|]. intros E; inversion E; reflexivity. Qed.

Lemma use_in_seg_ins Hid u a b :
  ValidUse u a b ->
  exists e, In (vx a, vx b, iseg_of Hid u, e) (seg_ins (iseg_of Hid u)) /\ e_idx e = u_from u /\ e_peer e = u_peer u.
Proof.
  intros (leaf & ae & Hleaf & Hae & Hv). set (s := iseg_of Hid u). unfold seg_ins.
  assert (Hk : is_kind s = u_kind u) by reflexivity. assert (Hs : is_seg s = u_seg u) by reflexivity.
  rewrite Hk, Hs. pose proof (nth_error_lt _ _ _ Hae) as Hlt.
  destruct (u_peer u) as [pi|] eqn:Ep.
  - destruct Hv as (Hnc & p & Hp & Hv). rewrite Hnc, Hleaf.
    destruct (u_dir u); destruct Hv as [-> ->]; cbn [vx];
      eexists (mkEdge _ (u_from u) (Some pi)); (split; [|split; reflexivity]);
      (apply in_flat_map; exists (u_from u, ae); split; [apply in_rev; rewrite rev_involutive; apply nth_error_enumerate; exact Hae|]);
      unfold entry_ins; apply in_or_app; right; apply in_flat_map; exists (pi, p); (split; [apply nth_error_enumerate; exact Hp|]);
      cbn [peer_ins]; [right; left; reflexivity|left; reflexivity].
  - destruct Hv as (Hc & Hn & Hv). destruct (u_kind u) eqn:Eku.
    + specialize (Hc eq_refl). rewrite Hc in Hae. rewrite (first_ia_of_nth _ _ Hae), Hleaf.
      destruct (u_dir u); destruct Hv as [-> ->]; cbn [vx];
        eexists (mkEdge _ 0 None); (split; [|split; [symmetry; exact Hc|reflexivity]]);
        [left; reflexivity|right; left; reflexivity].
    + specialize (Hn eq_refl). rewrite Hleaf.
      assert (E : (u_from u =? seg_len (u_seg u) - 1)%nat = false) by (apply Nat.eqb_neq; unfold seg_len in *; lia).
      destruct (u_dir u); destruct Hv as [-> ->]; cbn [vx];
        eexists (mkEdge _ (u_from u) None); (split; [|split; reflexivity]);
        (apply in_flat_map; exists (u_from u, ae); split; [apply in_rev; rewrite rev_involutive; apply nth_error_enumerate; exact Hae|]);
        unfold entry_ins; apply in_or_app; left; rewrite Hs, E; cbn [negb]; [right; left; reflexivity|left; reflexivity].
Qed.

Definition wf_input (cores non_cores : list segment) : Prop :=
  Forall (fun s => wf_segment s /\ wf_peers s) (cores ++ non_cores).

Lemma iseg_of_in_input Hid cores non_cores u :
  from_input cores non_cores u -> In (iseg_of Hid u) (input_segments Hid cores non_cores).
Proof.
  unfold from_input, iseg_of, input_segments. destruct u as [k sg f p d]; cbn. destruct k; intros H; apply in_or_app; [left|right];
    apply in_map_iff; exists sg; split; auto.
Qed.

Lemma use_glookup Hid cores non_cores g u a b :
  wf_input cores non_cores ->
  add_segments [] (input_segments Hid cores non_cores) = Ok g ->
  from_input cores non_cores u -> ValidUse u a b ->
  exists e, glookup g (vx a) (vx b) (iseg_of Hid u) = Some e /\ e_idx e = u_from u /\ e_peer e = u_peer u.
Proof.
  intros Hwf Hg Hfrom Hu. destruct (use_in_seg_ins Hid u a b Hu) as (e & Hin & Hi & Hp). exists e. split; [|auto].
  rewrite (add_segments_pure _ _ _ Hg). apply lookup_fold.
  - apply in_flat_map. exists (iseg_of Hid u). split; [apply iseg_of_in_input; exact Hfrom|exact Hin].
  - intros e' He'. apply in_flat_map in He' as (s' & Hs' & He').
    destruct (seg_ins_full s' _ He') as (a1 & b1 & e1 & Heq & Hfull'). inversion Heq; subst.
    destruct (seg_ins_full _ _ Hin) as (a2 & b2 & e2 & Heq2 & Hfull). inversion Heq2; subst.
    assert (Hws : wf_segment (u_seg u) /\ wf_peers (u_seg u)).
    { unfold wf_input in Hwf. rewrite Forall_forall in Hwf. apply Hwf.
      exact (input_segments_seg Hid cores non_cores (iseg_of Hid u) Hs'). }
    destruct Hws as [W1 W2]. symmetry.
    exact (edge_functional (iseg_of Hid u) (vx a) (vx b) e2 e1 W1 W2 Hfull Hfull').
Qed.

(** * from a valid combination to a chain of graph edges *)
Definition EdgeOfUse (Hid : list N -> N) (c : sedge) (u : seguse) : Prop :=
  se_seg c = iseg_of Hid u /\ e_idx (se_edge c) = u_from u /\ e_peer (se_edge c) = u_peer u
  /\ ValidUse u (jn (se_src c)) (jn (se_dst c)).

Lemma chained_edges Hid cores non_cores g :
  wf_input cores non_cores -> add_segments [] (input_segments Hid cores non_cores) = Ok g ->
  forall uses start stop,
    Forall (from_input cores non_cores) uses -> Chained start uses stop ->
    exists l, Forall2 (EdgeOfUse Hid) l uses /\ chain_ok (vx start) l /\ end_vertex (vx start) l = vx stop
              /\ Forall (fun c => glookup g (se_src c) (se_dst c) (se_seg c) = Some (se_edge c)) l.
Proof.
  intros Hwf Hg. induction uses as [|u r IH]; intros start stop Hfrom Hc; cbn [Chained] in Hc.
  - subst. exists []. repeat split; constructor.
  - destruct Hc as (mid & Hu & Hc). inversion Hfrom as [|? ? Hfu Hfr]; subst.
    destruct (IH mid stop Hfr Hc) as (l & H2 & Hch & Hend & Hlk).
    destruct (use_glookup Hid cores non_cores g u start mid Hwf Hg Hfu Hu) as (e & He & Hi & Hp).
    exists (mkSE e (vx start) (vx mid) (iseg_of Hid u) :: l). split; [|split; [|split]].
    + constructor; [|exact H2]. unfold EdgeOfUse; cbn. rewrite !jn_vx. auto.
    + cbn. auto.
    + cbn. exact Hend.
    + constructor; [exact He|exact Hlk].
Qed.

(** * completeness *)
Definition NoEarlyDst (dst : N) (uses : list seguse) : Prop :=
  forall u1 u u2 a b, uses = u1 ++ u :: u2 -> u2 <> [] -> ValidUse u a b -> b <> JAS dst.

Lemma jn_as v x : jn v = JAS x -> v = VAS x.
Proof. destruct v; cbn; intros E; inversion E; reflexivity. Qed.
Lemma jn_link v a b c d : jn v = JLink a b c d -> v = VPeer a b c d.
Proof. destruct v; cbn; intros E; inversion E; reflexivity. Qed.

Lemma use_of_edge_of_use Hid c u :
  wf_segment (u_seg u) -> EdgeOfUse Hid c u -> use_of_edge c = u.
Proof.
  intros Hwf (Hs & Hi & Hp & leaf & ae & Hleaf & Hae & Hv). unfold use_of_edge. rewrite Hs, Hi, Hp. cbn [iseg_of is_kind is_seg].
  assert (Hdir : (if edge_cons_dir c then Along else Against) = u_dir u).
  { unfold edge_cons_dir. rewrite Hs. cbn [iseg_of is_seg]. rewrite Hleaf.
    destruct (u_peer u) as [pi|].
    - destruct Hv as (_ & p & _ & Hv). destruct (u_dir u); destruct Hv as [_ Hd].
      + apply jn_as in Hd. rewrite Hd. cbn. rewrite N.eqb_refl. reflexivity.
      + apply jn_link in Hd. rewrite Hd. reflexivity.
    - destruct Hv as (Hc & Hn & Hv). destruct (u_dir u); destruct Hv as [_ Hd]; apply jn_as in Hd; rewrite Hd; cbn.
      + rewrite N.eqb_refl. reflexivity.
      + assert (Hnl : S (u_from u) <> seg_len (u_seg u)).
        { destruct (u_kind u); [rewrite (Hc eq_refl); destruct Hwf as (Hl & _); unfold seg_len; lia|auto]. }
        assert (Hne : ae_ia ae <> leaf).
        { destruct Hwf as (Hlen & Hnd & _). destruct (entries_split_last _ _ Hleaf) as (es' & le & Hes & Hia).
          unfold seg_len in *. rewrite Hes in *. pose proof (nth_error_lt _ _ _ Hae) as Hl. rewrite app_length in *. cbn [length] in *.
          rewrite nth_error_app1 in Hae by lia. rewrite map_app in Hnd. cbn [map] in Hnd.
          apply NoDup_remove_2 in Hnd. rewrite app_nil_r in Hnd. intros Heq. apply Hnd.
          apply in_map_iff. exists ae. split; [congruence|eapply nth_error_In; eauto]. }
        apply N.eqb_neq in Hne. rewrite Hne. reflexivity. }
  rewrite Hdir. destruct u; reflexivity.
Qed.

Lemma Forall2_length' {A B} (R : A -> B -> Prop) l1 l2 : Forall2 R l1 l2 -> length l1 = length l2.
Proof. induction 1; cbn; congruence. Qed.

Lemma combine_complete_lemma Hid Hfp ord_v ord_e src dst cores non_cores out uses :
  (forall v l, Permutation (ord_v v l) l) -> (forall v w l, Permutation (ord_e v w l) l) ->
  wf_input cores non_cores ->
  combine_paths Hid Hfp ord_v ord_e src dst cores non_cores = Ok out -> src <> dst ->
  ValidCombination cores non_cores src dst uses -> NoEarlyDst dst uses ->
  exists l,
    Forall2 (EdgeOfUse Hid) l uses
    /\ forall p, sol_path Hfp (mkSol l (VAS dst) (edges_weight l)) = Ok (Some p) ->
         Forall2 SegOfUse (sp_segs p) uses
         /\ (has_loops p = Ok false ->
             exists q, In q out /\ sp_fp q = sp_fp p /\ path_expiration p <= path_expiration q).
Proof.
  intros Hv He Hwf Hout Hne (Hkinds & Hfrom & Hch) Hearly.
  destruct (combine_stages _ _ _ _ _ _ _ _ _ Hout) as [[E _]|(g & cand & _ & Hg & _ & _ & _ & _)];
    [apply N.eqb_eq in E; contradiction|].
  destruct (chained_edges Hid cores non_cores g Hwf Hg uses (JAS src) (JAS dst) Hfrom Hch) as (l & H2 & Hc & Hend & Hlk).
  cbn [vx] in Hc, Hend. exists l. split; [exact H2|]. intros p Hsp.
  pose proof (Forall2_length' _ _ _ H2) as Hlen.
  assert (Hwfu : Forall (fun u => wf_segment (u_seg u)) uses).
  { apply Forall_forall. intros u Hu. rewrite Forall_forall in Hfrom. specialize (Hfrom u Hu).
    unfold wf_input in Hwf. rewrite Forall_forall in Hwf. apply Hwf. unfold from_input in Hfrom.
    apply in_or_app. destruct (u_kind u); auto. }
  assert (Huses : map use_of_edge l = uses).
  { clear -H2 Hwfu. induction H2 as [|c u l r Hcu H2 IH]; [reflexivity|]. inversion Hwfu; subst. cbn [map]. f_equal; [|auto].
    eapply use_of_edge_of_use; eauto. }
  split.
  - destruct (sol_path_ends _ _ _ Hsp) as (st & f & la & Hst & _ & _ & _ & _ & _ & Hsegs). cbn [so_edges] in Hst.
    assert (Hidx : Forall (fun e => (e_idx (se_edge e) < seg_len (is_seg (se_seg e)))%nat) l).
    { clear -H2. induction H2 as [|c u l r Hcu H2 IH]; constructor; [|exact IH].
      destruct Hcu as (Hs & Hi & _ & leaf & ae & _ & Hae & _). rewrite Hs, Hi. cbn. eapply nth_error_lt; eauto. }
    destruct (edges_fold_uses l _ _ Hidx Hst) as (ds & Hds & Hall). cbn [ps_segs app] in Hds.
    rewrite Hsegs, Hds, <- Huses. exact Hall.
  - intros Hl. eapply (combine_complete_graph Hid Hfp ord_v ord_e src dst cores non_cores out g l p); eauto.
    unfold GraphChain. split; [|split; [exact Hc|split; [exact Hend|split; [|split; [exact Hlk|]]]]].
    + rewrite Hlen. unfold kinds_allowed in Hkinds. destruct uses as [|a [|b [|c [|d r]]]]; cbn in Hkinds |- *; try lia; destruct Hkinds.
    + (* kinds *)
      unfold kinds_allowed in Hkinds. rewrite <- Huses in Hkinds. unfold kinds_ok.
      destruct l as [|a [|b [|c [|d r]]]]; cbn [map use_of_edge u_kind] in Hkinds; auto.
      * unfold is_non_core, is_core. destruct Hkinds as [-> | ->]; auto.
      * unfold is_non_core, is_core. destruct Hkinds as (-> & -> & ->). auto.
    + intros l1 c l2 El Hl2 Hd. subst l. apply Forall2_app_inv_l in H2 as (u1 & u2 & H21 & H22 & ->).
      inversion H22 as [|? u ? u2' Hcu H23]; subst.
      destruct Hcu as (_ & _ & _ & Hvu). rewrite Hd in Hvu. cbn [jn] in Hvu.
      refine (Hearly u1 u u2' _ _ eq_refl _ Hvu eq_refl).
      intros ->. inversion H23; subst. apply Hl2; reflexivity.
Qed.

(** the decidable test for [wf_peers] is sound *)
From Sci Require Import Combine.Obs.
Lemma nodup3b_sound l : nodup3b l = true -> NoDup l.
Proof.
  induction l as [|x r IH]; cbn [nodup3b]; intros H; [constructor|]. apply andb_true_iff in H as [H1 H2].
  constructor; [|auto]. intros Hin. apply negb_true_iff in H1.
  assert (existsb (peer_key3_eqb x) r = true); [|congruence].
  apply existsb_exists. exists x. split; [exact Hin|]. destruct x as [[a b] c]. cbn. rewrite !N.eqb_refl. reflexivity.
Qed.
Lemma wf_peersb_sound s : wf_peersb s = true -> wf_peers s.
Proof.
  unfold wf_peersb, wf_peers. intros H ae Hae. rewrite forallb_forall in H. apply nodup3b_sound. exact (H ae Hae).
Qed.
