(** C04: the result does not depend on the order or multiplicity of the input segments
    (well-formed input, no sort-key ties). *)
From Sci Require Import Combine.Model Combine.SpecRules Combine.Proofs Combine.ProofsEnc Combine.ProofsC19 Combine.ProofsBound Combine.ProofsC04
  Combine.ProofsPath Combine.ProofsWF Combine.ProofsSound Combine.ProofsComplete Combine.ProofsGraph Combine.ProofsOrder Common.ListAux.
From Coq Require Import Lia ZifyBool ZifyNat ZifyN Permutation.
Local Open Scope N_scope.

(** * keys of the association lists stay pairwise distinct *)
Section AKeys.
Context {K V : Type} (eqb : K -> K -> bool).
Hypothesis eqb_ok : forall a b, eqb a b = true <-> a = b.

Lemma aget_none_notin' k (l : list (K * V)) : aget eqb k l = None -> ~ In k (map fst l).
Proof.
  induction l as [|[k' v'] l IH]; cbn [aget map fst]; [intros _ []|].
  destruct (eqb k' k) eqn:E; [discriminate|]. intros H [H1|H1]; [subst; rewrite (proj2 (eqb_ok k k) eq_refl) in E; discriminate|].
  exact (IH H H1).
Qed.
Lemma aupd_keys_none k (f : option V -> V) l : aget eqb k l = None -> map fst (aupd eqb k f l) = map fst l ++ [k].
Proof.
  induction l as [|[k' v'] l IH]; cbn [aget aupd map fst app]; [reflexivity|].
  destruct (eqb k' k); [discriminate|]. intros H. cbn [map fst]. rewrite IH by exact H. reflexivity.
Qed.
Lemma aupd_nodup k (f : option V -> V) l : NoDup (map fst l) -> NoDup (map fst (aupd eqb k f l)).
Proof.
  intros H. destruct (aget eqb k l) as [v|] eqn:E.
  - rewrite (aget_aupd_keys eqb k f l v E). exact H.
  - rewrite (aupd_keys_none k f l E). apply NoDup_app_one; [exact H|apply aget_none_notin'; exact E].
Qed.
Lemma nodup_in_aget k v (l : list (K * V)) : NoDup (map fst l) -> In (k, v) l -> aget eqb k l = Some v.
Proof.
  induction l as [|[k' v'] l IH]; cbn [map fst aget]; [intros _ []|]. intros Hnd [H|H].
  - inversion H; subst. rewrite (proj2 (eqb_ok k k) eq_refl). reflexivity.
  - inversion Hnd as [|? ? Hn Hnd']; subst. destruct (eqb k' k) eqn:E.
    + apply eqb_ok in E. subst k'. exfalso. apply Hn. apply in_map_iff. exists (k, v). auto.
    + apply IH; assumption.
Qed.
End AKeys.

Definition KInv (g : graph) : Prop :=
  NoDup (map fst g)
  /\ forall a vi, In (a, vi) g -> NoDup (map fst vi) /\ forall b em, In (b, em) vi -> NoDup (map fst em).

Lemma KInv_nil : KInv [].
Proof. split; [constructor|intros a vi []]. Qed.

Lemma KInv_ade g a b s e : KInv g -> KInv (add_directed_edge g a b s e).
Proof.
  intros [K1 K2]. unfold add_directed_edge. split; [apply (aupd_nodup vertex_eqb vertex_eqb_ok); exact K1|].
  intros a' vi' Hin.
  assert (Hvi : forall vi0, (vi0 = [] \/ exists a0, In (a0, vi0) g) ->
                let vi1 := aupd vertex_eqb b (fun oe => aupd iseg_eqb s (fun _ => e) (odefault [] oe)) vi0 in
                NoDup (map fst vi1) /\ forall b' em, In (b', em) vi1 -> NoDup (map fst em)).
  { intros vi0 H0 vi1.
    assert (H0' : NoDup (map fst vi0) /\ forall b' em, In (b', em) vi0 -> NoDup (map fst em)).
    { destruct H0 as [->|(a0 & H0)]; [split; [constructor|intros ? ? []]|exact (K2 _ _ H0)]. }
    destruct H0' as [N1 N2]. split; [apply (aupd_nodup vertex_eqb vertex_eqb_ok); exact N1|].
    intros b' em Hb. unfold vi1 in Hb. apply aupd_In in Hb as [Hb|[[_ ->]|(em0 & Hb & _ & ->)]].
    - eapply N2; eauto.
    - cbn [odefault]. apply (aupd_nodup iseg_eqb iseg_eqb_ok). constructor.
    - cbn [odefault]. apply (aupd_nodup iseg_eqb iseg_eqb_ok). eapply N2; eauto. }
  apply aupd_In in Hin as [Hin|[[_ ->]|(vi0 & Hin & _ & ->)]].
  - exact (K2 _ _ Hin).
  - cbn [odefault]. apply Hvi. left; reflexivity.
  - cbn [odefault]. apply Hvi. right; eauto.
Qed.

Lemma KInv_apply_ins l : forall g, KInv g -> KInv (apply_ins l g).
Proof.
  induction l as [|[[[a b] s] e] l IH]; intros g Hg; cbn; [exact Hg|]. apply IH. apply KInv_ade. exact Hg.
Qed.

(** * candidates of a vertex: exactly the edges found by lookup, each once *)
Lemma candidates_spec g sol c :
  KInv g ->
  (In c (candidates ord_id_v ord_id_e g sol) <->
   se_src c = so_cur sol /\ glookup g (so_cur sol) (se_dst c) (se_seg c) = Some (se_edge c)).
Proof.
  intros [K1 K2]. split.
  - intros H. split; [eapply (candidates_src ord_id_v ord_id_e); exact H|].
    unfold candidates in H. unfold glookup. destruct (aget vertex_eqb (so_cur sol) g) as [vi|] eqn:Ea; [|destruct H].
    apply aget_In in Ea as (a' & Hin & Ea'). apply vertex_eqb_eq in Ea'. subst a'. destruct (K2 _ _ Hin) as [N1 N2].
    apply in_flat_map in H as ([nv em] & H1 & H2). unfold ord_id_v in H1. unfold ord_id_e in H2.
    apply in_map_iff in H2 as ([s e] & <- & H2). cbn [se_dst se_seg se_edge].
    rewrite (nodup_in_aget vertex_eqb vertex_eqb_ok nv em vi N1 H1).
    exact (nodup_in_aget iseg_eqb iseg_eqb_ok s e em (N2 _ _ H1) H2).
  - intros [Hs Hl]. apply (glookup_candidates ord_id_v ord_id_e) in Hl; [|intros; reflexivity|intros; reflexivity].
    destruct c; cbn in *. subst. exact Hl.
Qed.

Lemma NoDup_map_inv' {A B} (f : A -> B) l : NoDup (map f l) -> NoDup l.
Proof.
  induction l as [|a l IH]; cbn [map]; intros H; [constructor|]. inversion H; subst. constructor; [|auto].
  intros Hin. apply H2. apply in_map. exact Hin.
Qed.

Lemma NoDup_app_intro {A} (a b : list A) :
  NoDup a -> NoDup b -> (forall x, In x a -> In x b -> False) -> NoDup (a ++ b).
Proof.
  induction 1 as [|x a Hx Ha IH]; intros Hb Hd; cbn [app]; [exact Hb|]. constructor.
  - intros Hin. apply in_app_or in Hin as [Hin|Hin]; [exact (Hx Hin)|]. exact (Hd x (or_introl eq_refl) Hin).
  - apply IH; [exact Hb|]. intros y Hy1 Hy2. exact (Hd y (or_intror Hy1) Hy2).
Qed.

Lemma candidates_nodup g sol : KInv g -> NoDup (candidates ord_id_v ord_id_e g sol).
Proof.
  intros [K1 K2]. unfold candidates. destruct (aget vertex_eqb (so_cur sol) g) as [vi|] eqn:Ea; [|constructor].
  apply aget_In in Ea as (a' & Hin & _). destruct (K2 _ _ Hin) as [N1 N2]. unfold ord_id_v, ord_id_e.
  apply (NoDup_map_inv' (fun c => (se_dst c, se_seg c))).
  clear Hin. induction vi as [|[nv em] vi IH]; cbn [flat_map map]; [constructor|].
  cbn [map fst] in N1. inversion N1 as [|? ? Hn N1']; subst. rewrite map_app. apply NoDup_app_intro.
  - rewrite map_map. cbn [se_dst se_seg].
    assert (Hem : NoDup (map fst em)) by (eapply N2; left; reflexivity).
    clear -Hem. induction em as [|[s e] em IH]; cbn [map fst] in *; [constructor|]. inversion Hem; subst.
    constructor; [|auto]. intros Hin. apply in_map_iff in Hin as ([s' e'] & E & Hin). inversion E; subst.
    apply H1. apply in_map_iff. exists (s, e'). auto.
  - apply IH; [exact N1'|]. intros b em' Hb. apply (N2 b em'). right; exact Hb.
  - intros x Hx1 Hx2. rewrite map_map in Hx1. apply in_map_iff in Hx1 as ([s e] & <- & _). cbn in Hx2.
    apply in_map_iff in Hx2 as (c & Hc & Hx2). apply in_flat_map in Hx2 as ([nv' em'] & Hv & Hx2).
    apply in_map_iff in Hx2 as ([s' e'] & <- & _). cbn in Hc. inversion Hc; subst.
    apply Hn. apply in_map_iff. exists (nv, em'). auto.
Qed.

(** * the graph depends only on the set of (well-formed) input segments *)
Definition graph_of (L : list iseg) : graph := apply_ins (flat_map seg_ins L) [].
Definition InsOf (L : list iseg) (a b : vertex) (s : iseg) (e : edge) : Prop := In s L /\ In (a, b, s, e) (seg_ins s).
Definition wf_isegs (L : list iseg) : Prop := Forall (fun s => wf_segment (is_seg s) /\ wf_peers (is_seg s)) L.

Lemma in_all_ins L a b s e : In (a, b, s, e) (flat_map seg_ins L) <-> InsOf L a b s e.
Proof.
  split.
  - intros H. apply in_flat_map in H as (s' & Hs' & H). destruct (seg_ins_full s' _ H) as (a1 & b1 & e1 & Heq & _).
    inversion Heq; subst. split; assumption.
  - intros [H1 H2]. apply in_flat_map. eauto.
Qed.

Lemma glookup_nil a b s : glookup [] a b s = None.
Proof. reflexivity. Qed.

Lemma graph_lookup_cases L a b s :
  wf_isegs L ->
  (exists e, InsOf L a b s e /\ glookup (graph_of L) a b s = Some e)
  \/ ((forall e, ~ InsOf L a b s e) /\ glookup (graph_of L) a b s = None).
Proof.
  intros Hwf. unfold graph_of.
  destruct (existsb (fun x => key_eqb (key_of x) (a, b, s)) (flat_map seg_ins L)) eqn:Eex.
  - left. apply existsb_exists in Eex as ([[[a1 b1] s1] e1] & Hx & Hk). apply key_eqb_ok in Hk. cbn in Hk. inversion Hk; subst.
    exists e1. split; [apply in_all_ins; exact Hx|]. apply lookup_fold; [exact Hx|].
    intros e' He'. apply in_all_ins in Hx as [Hs Hx]. apply in_all_ins in He' as [_ He'].
    destruct (seg_ins_full _ _ Hx) as (? & ? & ? & Heq & F1). inversion Heq; subst.
    destruct (seg_ins_full _ _ He') as (? & ? & ? & Heq' & F2). inversion Heq'; subst.
    unfold wf_isegs in Hwf. rewrite Forall_forall in Hwf. destruct (Hwf _ Hs) as [W1 W2].
    symmetry. eapply edge_functional; eauto.
  - right. split.
    + intros e He. apply in_all_ins in He.
      assert (existsb (fun x => key_eqb (key_of x) (a, b, s)) (flat_map seg_ins L) = true); [|congruence].
      apply existsb_exists. exists (a, b, s, e). split; [exact He|]. apply key_eqb_ok. reflexivity.
    + rewrite lookup_fold_other; [reflexivity|]. intros x Hx Hk.
      assert (existsb (fun x => key_eqb (key_of x) (a, b, s)) (flat_map seg_ins L) = true); [|congruence].
      apply existsb_exists. exists x. split; [exact Hx|]. apply key_eqb_ok. exact Hk.
Qed.

Lemma graph_lookup_same_set L1 L2 a b s :
  wf_isegs L1 -> wf_isegs L2 -> (forall x, In x L1 <-> In x L2) ->
  glookup (graph_of L1) a b s = glookup (graph_of L2) a b s.
Proof.
  intros W1 W2 Hset.
  assert (Hins : forall e, InsOf L1 a b s e <-> InsOf L2 a b s e).
  { intros e. unfold InsOf. rewrite Hset. reflexivity. }
  destruct (graph_lookup_cases L1 a b s W1) as [(e & H1 & ->)|[H1 ->]];
    destruct (graph_lookup_cases L2 a b s W2) as [(e' & H2 & ->)|[H2 ->]]; try reflexivity.
  - f_equal. apply Hins in H1. destruct H1 as [Hs H1], H2 as [_ H2].
    destruct (seg_ins_full _ _ H1) as (? & ? & ? & Heq & F1). inversion Heq; subst.
    destruct (seg_ins_full _ _ H2) as (? & ? & ? & Heq' & F2). inversion Heq'; subst.
    unfold wf_isegs in W2. rewrite Forall_forall in W2. destruct (W2 _ Hs) as [X1 X2]. eapply edge_functional; eauto.
  - exfalso. apply (H2 e). apply Hins. exact H1.
  - exfalso. apply (H1 e'). apply Hins. exact H2.
Qed.

(** * permutation / duplication invariance *)
Lemma candidates_perm_same_set L1 L2 sol :
  wf_isegs L1 -> wf_isegs L2 -> (forall x, In x L1 <-> In x L2) ->
  Permutation (candidates ord_id_v ord_id_e (graph_of L1) sol) (candidates ord_id_v ord_id_e (graph_of L2) sol).
Proof.
  intros W1 W2 Hset.
  assert (K1 : KInv (graph_of L1)) by (apply KInv_apply_ins, KInv_nil).
  assert (K2 : KInv (graph_of L2)) by (apply KInv_apply_ins, KInv_nil).
  apply NoDup_Permutation; [apply candidates_nodup; exact K1|apply candidates_nodup; exact K2|].
  intros c. rewrite (candidates_spec _ _ _ K1), (candidates_spec _ _ _ K2).
  rewrite (graph_lookup_same_set L1 L2 _ _ _ W1 W2 Hset). reflexivity.
Qed.

Lemma combine_perm_lemma Hid Hfp ov oe ov' oe' src dst cores non_cores cores' non_cores' :
  (forall v l, Permutation (ov v l) l) -> (forall v w l, Permutation (oe v w l) l) ->
  (forall v l, Permutation (ov' v l) l) -> (forall v w l, Permutation (oe' v w l) l) ->
  wf_input cores non_cores -> wf_input cores' non_cores' ->
  (forall s, In s cores <-> In s cores') -> (forall s, In s non_cores <-> In s non_cores') ->
  NoTies (bfs ord_id_v ord_id_e (graph_of (input_segments Hid cores non_cores)) dst 4 [sol_new (VAS src)]) ->
  combine_paths Hid Hfp ov oe src dst cores non_cores = combine_paths Hid Hfp ov' oe' src dst cores' non_cores'.
Proof.
  intros Hv He Hv' He' W W' Sc Sn Hnt.
  set (L1 := input_segments Hid cores non_cores) in *. set (L2 := input_segments Hid cores' non_cores').
  assert (WL : forall c n, wf_input c n -> wf_isegs (input_segments Hid c n)).
  { intros c n Hw. unfold wf_isegs. apply Forall_forall. intros s Hs. unfold wf_input in Hw. rewrite Forall_forall in Hw.
    apply Hw. eapply input_segments_seg; eauto. }
  assert (Hset : forall x, In x L1 <-> In x L2).
  { intros x. unfold L1, L2, input_segments. rewrite !in_app_iff, !in_map_iff.
    split; (intros [(y & E & Hy)|(y & E & Hy)]; [left|right]; exists y; (split; [exact E|])); [apply Sc|apply Sn|apply Sc|apply Sn]; exact Hy. }
  unfold combine_paths, candidate_paths. fold L1 L2.
  destruct (add_segments_inv L1 [] GInv_nil) as (g1 & Hg1 & _). destruct (add_segments_inv L2 [] GInv_nil) as (g2 & Hg2 & _).
  rewrite Hg1, Hg2. cbn [obind].
  pose proof (add_segments_pure _ _ _ Hg1) as E1. pose proof (add_segments_pure _ _ _ Hg2) as E2.
  fold (graph_of L1) in E1. fold (graph_of L2) in E2. subst g1 g2.
  assert (Hgp : get_paths ov oe (graph_of L1) src dst = get_paths ov' oe' (graph_of L2) src dst).
  { rewrite (get_paths_order_irrelevant ov oe (graph_of L1) src dst Hv He Hnt).
    symmetry. rewrite (get_paths_eq ov' ord_id_v oe' ord_id_e (graph_of L2) (graph_of L1)).
    - reflexivity.
    - intros sol. etransitivity; [apply candidates_perm_id; assumption|].
      apply candidates_perm_same_set; [apply WL; exact W'|apply WL; exact W|]. intros x. symmetry. apply Hset.
    - (* NoTies transfers along the permutation of the search lists *)
      intros a b Ha Hb. apply Hnt; (eapply Permutation_in; [|eassumption]);
        apply (bfs_perm ov' ord_id_v oe' ord_id_e (graph_of L2) (graph_of L1)); try reflexivity;
        intros sol; (etransitivity; [apply candidates_perm_id; assumption|]);
        apply candidates_perm_same_set; try (apply WL; assumption); intros x; symmetry; apply Hset. }
  rewrite Hgp. reflexivity.
Qed.
