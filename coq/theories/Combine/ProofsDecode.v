(** C19: the bytes of every returned path decode (by the independent decoder of [Spec]) to the
    very info fields and hop fields of the path. *)
From Sci Require Import Combine.Model Combine.Spec Combine.Obs Combine.Proofs Combine.ProofsEnc.
From Coq Require Import Lia ZifyBool ZifyNat ZifyN.
Ltac Zify.zify_post_hook ::= Z.div_mod_to_equations.
Local Open Scope N_scope.
Arguments N.add : simpl never. Arguments N.sub : simpl never. Arguments N.mul : simpl never.
Arguments N.div : simpl never. Arguments N.modulo : simpl never. Arguments N.pow : simpl never.

Definition hop_typed (h : hopf) : Prop :=
  hf_exp h < 256 /\ hf_in h < 65536 /\ hf_eg h < 65536 /\ hf_mac h < 281474976710656.
Definition seg_typed (d : dpseg) : Prop :=
  ds_flags d < 256 /\ ds_segid d < 65536 /\ ds_ts d < 4294967296 /\ Forall hop_typed (ds_hops d).

Lemma dec_enc_info d : seg_typed d -> dec_info (enc_info d) = (ds_flags d, ds_segid d, ds_ts d).
Proof.
  intros (H1 & H2 & H3 & _). unfold dec_info, enc_info. rewrite be_val_be_bytes.
  unfold put, SEGMENT_ID_RNG, TIMESTAMP_RNG; cbn [fst snd].
  change (256 ^ N.of_nat 8) with 18446744073709551616.
  change (2 ^ 8) with 256. change (2 ^ 16) with 65536. change (2 ^ 32) with 4294967296.
  change (2 ^ (64 - 0 - 8)) with 72057594037927936. change (2 ^ (64 - 16 - 16)) with 4294967296.
  change (2 ^ (64 - 32 - 32)) with 1. change (2 ^ 56) with 72057594037927936.
  rewrite !(N.mod_small _ _ H1), !(N.mod_small _ _ H2), !(N.mod_small _ _ H3).
  f_equal; [f_equal|]; lia.
Qed.

Lemma dec_enc_hop h : hop_typed h -> dec_hop (enc_hop h) = obs_hop h.
Proof.
  intros (H1 & H2 & H3 & H4). unfold dec_hop, enc_hop, obs_hop. rewrite be_val_be_bytes.
  unfold put, EXP_TIME_RNG, CONS_INGRESS_RNG, CONS_EGRESS_RNG, MAC_RNG; cbn [fst snd].
  change (256 ^ N.of_nat 12) with 79228162514264337593543950336.
  change (2 ^ 8) with 256. change (2 ^ 16) with 65536. change (2 ^ 48) with 281474976710656.
  change (2 ^ (96 - 0 - 8)) with 309485009821345068724781056. change (2 ^ (96 - 8 - 8)) with 1208925819614629174706176.
  change (2 ^ (96 - 16 - 16)) with 18446744073709551616. change (2 ^ (96 - 32 - 16)) with 281474976710656.
  change (2 ^ (96 - 48 - 48)) with 1. change (2 ^ 80) with 1208925819614629174706176. change (2 ^ 64) with 18446744073709551616.
  rewrite (N.mod_small 0 256) by lia.
  rewrite !(N.mod_small _ _ H1), !(N.mod_small _ _ H2), !(N.mod_small _ _ H3), !(N.mod_small _ _ H4).
  f_equal; [f_equal; [f_equal|]|]; lia.
Qed.

Lemma chunks_flat_map {A B} (f : A -> list B) n l rest :
  (forall a, length (f a) = n) -> chunks n (length l) (flat_map f l ++ rest) = map f l.
Proof.
  intros Hf. induction l as [|a l IH]; cbn [length chunks flat_map map]; [reflexivity|].
  rewrite <- app_assoc. rewrite firstn_app, (firstn_all2 (f a)) by (rewrite Hf; lia).
  rewrite Hf, Nat.sub_diag. cbn [firstn]. rewrite app_nil_r. f_equal.
  rewrite skipn_app, (skipn_all2 (f a)) by (rewrite Hf; lia). rewrite Hf, Nat.sub_diag. cbn [skipn app]. exact IH.
Qed.

Lemma split_hops_flat (segs : list dpseg) :
  split_hops (map (fun s => length (ds_hops s)) segs) (map obs_hop (flat_map ds_hops segs))
  = map (fun s => map obs_hop (ds_hops s)) segs.
Proof.
  induction segs as [|s r IH]; cbn [map split_hops flat_map]; [reflexivity|].
  rewrite map_app. rewrite firstn_app, firstn_all2 by (rewrite map_length; lia).
  rewrite map_length, Nat.sub_diag. cbn [firstn]. rewrite app_nil_r. f_equal.
  rewrite skipn_app, skipn_all2 by (rewrite map_length; lia). rewrite map_length, Nat.sub_diag. cbn [skipn app]. exact IH.
Qed.

Lemma map_mkOS (segs : list dpseg) :
  map (fun '((fl, sid, ts), hs) => mkOS fl sid ts hs)
      (combine (map (fun d => (ds_flags d, ds_segid d, ds_ts d)) segs) (map (fun s => map obs_hop (ds_hops s)) segs))
  = map obs_seg segs.
Proof. induction segs as [|s r IH]; cbn; [reflexivity|]. rewrite IH. reflexivity. Qed.

Lemma skipn_add {A} a b (l : list A) : skipn a (skipn b l) = skipn (a + b) l.
Proof.
  revert l; induction b as [|b IH]; intros l; [rewrite Nat.add_0_r; reflexivity|].
  destruct l; [rewrite !skipn_nil; reflexivity|]. rewrite Nat.add_succ_r. cbn [skipn]. apply IH.
Qed.

Lemma decode_encode segs :
  wire_valid segs = true -> Forall seg_typed segs -> decode_std (encode_std segs) = Some (map obs_seg segs).
Proof.
  intros Hw Ht. pose proof Hw as Hw'. unfold wire_valid in Hw'.
  repeat (apply andb_true_iff in Hw'; destruct Hw' as [Hw' ?]).
  match goal with Hf : forallb _ segs = true |- _ => rename Hf into Hall end.
  rewrite forallb_forall in Hall.
  assert (Hseg : forall s, In s segs -> (1 <= length (ds_hops s) <= 63)%nat).
  { intros s Hs. specialize (Hall s Hs). apply andb_true_iff in Hall as [A B].
    unfold MAX_SEGMENT_HOPS in A. destruct (ds_hops s); [discriminate|]. cbn [length] in *. lia. }
  assert (Hlen : (1 <= length segs <= 3)%nat).
  { unfold MAX_SEGMENTS in *. destruct segs; [discriminate|]. cbn [length] in *. lia. }
  pose proof (encode_std_length segs) as Hel.
  unfold decode_std.
  destruct (length (encode_std segs) <? 4)%nat eqn:E4; [apply Nat.ltb_lt in E4; lia|].
  assert (Hfirst : firstn 4 (encode_std segs) =
                   firstn 4 (enc_meta (seg_size_u8 segs 0) (seg_size_u8 segs 1) (seg_size_u8 segs 2))).
  { unfold encode_std. rewrite firstn_app. unfold enc_meta at 2. rewrite be_bytes_length. cbn [Nat.sub firstn].
    rewrite app_nil_r. reflexivity. }
  rewrite Hfirst.
  assert (Hsz : forall i, seg_size_u8 segs i < 64 /\
                (forall s, nth_error segs i = Some s -> seg_size_u8 segs i = N.of_nat (length (ds_hops s))) /\
                (nth_error segs i = None -> seg_size_u8 segs i = 0)).
  { intros i. destruct (nth_error segs i) as [s|] eqn:En.
    - pose proof (Hseg s (nth_error_In _ _ En)) as Hs.
      rewrite (seg_size_small _ _ _ En) by lia. split; [lia|]. split; [intros s' E'; congruence|discriminate].
    - rewrite (seg_size_none _ _ En). split; [lia|]. split; [discriminate|reflexivity]. }
  destruct (meta_word_roundtrip _ _ _ (proj1 (Hsz 0%nat)) (proj1 (Hsz 1%nat)) (proj1 (Hsz 2%nat))) as (G0 & G1 & G2).
  unfold get, SEG0_LEN_RNG, SEG1_LEN_RNG, SEG2_LEN_RNG in G0, G1, G2; cbn [fst snd] in G0, G1, G2.
  change (2 ^ (32 - 14 - 6)) with (2 ^ 12) in G0. change (2 ^ (32 - 20 - 6)) with (2 ^ 6) in G1.
  change (2 ^ (32 - 26 - 6)) with 1 in G2. rewrite N.div_1_r in G2. change (2 ^ 6) with 64 in G0, G1, G2 |- *.
  rewrite G0, G1, G2.
  assert (Hlens : filter (fun n => negb (Nat.eqb n 0))
                         [N.to_nat (seg_size_u8 segs 0); N.to_nat (seg_size_u8 segs 1); N.to_nat (seg_size_u8 segs 2)]
                  = map (fun s => length (ds_hops s)) segs).
  { destruct segs as [|a [|b [|c [|d r]]]]; cbn [length] in Hlen; try lia.
    - pose proof (Hseg a (or_introl eq_refl)).
      rewrite (proj1 (proj2 (Hsz 0%nat)) a eq_refl), (proj2 (proj2 (Hsz 1%nat)) eq_refl), (proj2 (proj2 (Hsz 2%nat)) eq_refl).
      rewrite Nat2N.id. cbn [filter map N.to_nat]. destruct (length (ds_hops a)); [lia|reflexivity].
    - pose proof (Hseg a (or_introl eq_refl)). pose proof (Hseg b (or_intror (or_introl eq_refl))).
      rewrite (proj1 (proj2 (Hsz 0%nat)) a eq_refl), (proj1 (proj2 (Hsz 1%nat)) b eq_refl), (proj2 (proj2 (Hsz 2%nat)) eq_refl).
      rewrite !Nat2N.id. cbn [filter map N.to_nat].
      destruct (length (ds_hops a)); [lia|]. destruct (length (ds_hops b)); [lia|]. reflexivity.
    - pose proof (Hseg a (or_introl eq_refl)). pose proof (Hseg b (or_intror (or_introl eq_refl))).
      pose proof (Hseg c (or_intror (or_intror (or_introl eq_refl)))).
      rewrite (proj1 (proj2 (Hsz 0%nat)) a eq_refl), (proj1 (proj2 (Hsz 1%nat)) b eq_refl), (proj1 (proj2 (Hsz 2%nat)) c eq_refl).
      rewrite !Nat2N.id. cbn [filter map N.to_nat].
      destruct (length (ds_hops a)); [lia|]. destruct (length (ds_hops b)); [lia|]. destruct (length (ds_hops c)); [lia|]. reflexivity. }
  rewrite Hlens. rewrite map_length.
  assert (Hsum : fold_right Nat.add 0%nat (map (fun s => length (ds_hops s)) segs) = length (flat_map ds_hops segs)).
  { clear. induction segs as [|s r IH]; cbn [map fold_right flat_map length]; [reflexivity|]. rewrite app_length, IH. reflexivity. }
  rewrite Hsum.
  destruct (Nat.eqb_spec (length (encode_std segs)) (4 + 8 * length segs + 12 * length (flat_map ds_hops segs))) as [El|El]; [|lia].
  cbn [negb]. f_equal.
  assert (Hskip4 : skipn 4 (encode_std segs) = flat_map enc_info segs ++ flat_map enc_hop (flat_map ds_hops segs)).
  { unfold encode_std. rewrite skipn_app, skipn_all2 by (unfold enc_meta; rewrite be_bytes_length; lia).
    unfold enc_meta. rewrite be_bytes_length. reflexivity. }
  assert (Hskip2 : skipn (4 + 8 * length segs) (encode_std segs) = flat_map enc_hop (flat_map ds_hops segs)).
  { replace (4 + 8 * length segs)%nat with (8 * length segs + 4)%nat by lia. rewrite <- skipn_add. rewrite Hskip4.
    rewrite skipn_app, skipn_all2 by (rewrite (flat_map_const_length enc_info 8) by (intros; apply be_bytes_length); lia).
    rewrite (flat_map_const_length enc_info 8) by (intros; apply be_bytes_length).
    replace (8 * length segs - 8 * length segs)%nat with 0%nat by lia. reflexivity. }
  rewrite Hskip4, Hskip2.
  rewrite (chunks_flat_map enc_info 8 segs) by (intros; apply be_bytes_length).
  rewrite <- (app_nil_r (flat_map enc_hop (flat_map ds_hops segs))).
  rewrite (chunks_flat_map enc_hop 12 (flat_map ds_hops segs) []) by (intros; apply be_bytes_length).
  rewrite !map_map.
  assert (Hinfos : map (fun x => dec_info (enc_info x)) segs = map (fun d => (ds_flags d, ds_segid d, ds_ts d)) segs).
  { apply map_ext_in. intros d Hd. apply dec_enc_info. rewrite Forall_forall in Ht. auto. }
  assert (Hhops : map (fun x => dec_hop (enc_hop x)) (flat_map ds_hops segs) = map obs_hop (flat_map ds_hops segs)).
  { apply map_ext_in. intros h Hh. apply dec_enc_hop. apply in_flat_map in Hh as (s & Hs & Hh).
    rewrite Forall_forall in Ht. destruct (Ht s Hs) as (_ & _ & _ & Hhs). rewrite Forall_forall in Hhs. auto. }
  rewrite Hinfos, Hhops, split_hops_flat. apply map_mkOS.
Qed.
