(** C04 lemmas that need structure of the search (chains, segment kinds, provenance of the
    segments) and well-formedness of the segments: endpoints. *)
From Sci Require Import Combine.Model Combine.Proofs Combine.ProofsEnc Combine.ProofsC19 Combine.ProofsBound Combine.ProofsC04 Combine.ProofsPath Common.ListAux.
From Coq Require Import Lia ZifyBool ZifyNat ZifyN Permutation.
Local Open Scope N_scope.

(** * provenance: every edge of the graph carries one of the added segments *)
Definition GSub (s : iseg) (g g' : graph) : Prop :=
  forall src dst s' e', edge_in g' src dst s' e' -> edge_in g src dst s' e' \/ s' = s.

Lemma GSub_refl s g : GSub s g g.
Proof. intros src dst s' e' H; left; exact H. Qed.
Lemma GSub_trans s g1 g2 g3 : GSub s g1 g2 -> GSub s g2 g3 -> GSub s g1 g3.
Proof. intros H1 H2 src dst s' e' H. destruct (H2 _ _ _ _ H) as [H'|H']; auto. Qed.
Lemma GSub_ade s g a b e : GSub s g (add_directed_edge g a b s e).
Proof. intros src dst s' e' H. apply ade_edges in H as [H|(_ & -> & _)]; auto. Qed.
Lemma GSub_add_edge s g a b e : GSub s g (add_edge g a b s e).
Proof. unfold add_edge. eapply GSub_trans; apply GSub_ade. Qed.

Lemma ofold_rel {A B} (R : B -> B -> Prop) (f : B -> A -> res B) l :
  (forall b, R b b) -> (forall a b c, R a b -> R b c -> R a c) ->
  (forall b a b', f b a = Ok b' -> R b b') ->
  forall b b', ofold f l b = Ok b' -> R b b'.
Proof.
  intros Hr Ht Hf. induction l as [|a l IH]; intros b b'; cbn [ofold].
  - intros E; inversion E; subst. apply Hr.
  - intros H. apply bind_ok in H as (b1 & H1 & H). eapply Ht; [eapply Hf; eauto|eapply IH; eauto].
Qed.

Lemma GSub_add_segment g s g' : add_segment g s = Ok g' -> GSub s g g'.
Proof.
  unfold add_segment. destruct (is_kind s).
  - unfold add_core_segment. destruct (first_ia (is_seg s)); [|discriminate].
    destruct (last_ia (is_seg s)); [|discriminate]. intros H. apply bind_ok in H as (w & _ & H).
    inversion H; subst. apply GSub_add_edge.
  - unfold add_non_core_segment. destruct (last_ia (is_seg s)) as [leaf|]; [|discriminate].
    apply (ofold_rel (GSub s)); [apply GSub_refl|apply GSub_trans|].
    intros b [idx entry] b'. unfold add_non_core_entry. intros H.
    apply bind_ok in H as (lm1 & _ & H). apply bind_ok in H as (g1 & H1 & H).
    apply (GSub_trans s b g1 b').
    + destruct (negb (Nat.eqb idx lm1)).
      * apply bind_ok in H1 as (w & _ & H1). inversion H1; subst. apply GSub_add_edge.
      * inversion H1; subst. apply GSub_refl.
    + revert H. apply (ofold_rel (GSub s)); [apply GSub_refl|apply GSub_trans|].
      intros b0 [pi p] b0'. unfold add_peer_edges. intros H.
      apply bind_ok in H as (w1 & _ & H). apply bind_ok in H as (w2 & _ & H). inversion H; subst.
      eapply GSub_trans; apply GSub_ade.
Qed.

Lemma add_segments_from l : forall g g',
  add_segments g l = Ok g' ->
  forall src dst s e, edge_in g' src dst s e -> edge_in g src dst s e \/ In s l.
Proof.
  induction l as [|s0 l IH]; intros g g'; cbn [add_segments].
  - intros E; inversion E; subst. auto.
  - destruct (add_segment g s0) as [g1|u|ps] eqn:E1; try discriminate; intros H src dst s ed He.
    + destruct (IH _ _ H _ _ _ _ He) as [H'|H']; [|right; right; exact H'].
      destruct (GSub_add_segment _ _ _ E1 _ _ _ _ H') as [H''| ->]; [left; exact H''|right; left; reflexivity].
    + destruct (IH _ _ H _ _ _ _ He) as [H'|H']; [left; exact H'|right; right; exact H'].
Qed.

(** * chains *)
Fixpoint chain_ok (v : vertex) (l : list sedge) : Prop :=
  match l with [] => True | e :: r => se_src e = v /\ chain_ok (se_dst e) r end.
Fixpoint end_vertex (v : vertex) (l : list sedge) : vertex :=
  match l with [] => v | e :: r => end_vertex (se_dst e) r end.

Lemma chain_app v l c : chain_ok v l -> se_src c = end_vertex v l -> chain_ok v (l ++ [c]).
Proof. revert v; induction l as [|e r IH]; intros v; cbn; [auto|]. intros [H1 H2] H3. split; auto. Qed.
Lemma end_vertex_app v l c : end_vertex v (l ++ [c]) = se_dst c.
Proof. revert v; induction l as [|e r IH]; intros v; cbn; auto. Qed.

Definition kinds_ok (l : list sedge) : Prop :=
  match l with
  | [] | [_] => True
  | [a; b] => is_non_core (se_seg a) = true \/ is_non_core (se_seg b) = true
  | [a; b; c] => is_non_core (se_seg a) = true /\ is_core (se_seg b) = true /\ is_non_core (se_seg c) = true
  | _ => False
  end.

Definition Chain (v0 : vertex) (s : solution) : Prop :=
  chain_ok v0 (so_edges s) /\ so_cur s = end_vertex v0 (so_edges s) /\ kinds_ok (so_edges s).

Section Search.
Variable ord_v : vertex -> vinfo -> vinfo.
Variable ord_e : vertex -> vertex -> emap -> emap.
Hypothesis ord_v_perm : forall v l, Permutation (ord_v v l) l.
Hypothesis ord_e_perm : forall v w l, Permutation (ord_e v w l) l.

Lemma candidates_src g sol c : In c (candidates ord_v ord_e g sol) -> se_src c = so_cur sol.
Proof.
  unfold candidates. destruct (aget vertex_eqb (so_cur sol) g); [|intros []].
  intros H. apply in_flat_map in H as ([nv em] & _ & H). apply in_map_iff in H as ([s e] & <- & _). reflexivity.
Qed.

Lemma news_chain g v0 sol s : Chain v0 sol -> In s (news ord_v ord_e g sol) -> Chain v0 s.
Proof.
  intros (C1 & C2 & C3) H. apply in_flat_map in H as (c & Hc & H).
  unfold try_add_edge in H. destruct (valid_next_seg sol (se_seg c)) eqn:Ev; cbn [negb] in H; [|destruct H].
  destruct H as [<-|[]]. unfold Chain. cbn [so_edges so_cur].
  apply candidates_src in Hc. split; [apply chain_app; [exact C1|congruence]|].
  split; [rewrite end_vertex_app; reflexivity|].
  unfold valid_next_seg in Ev. destruct (so_edges sol) as [|a [|b [|d r]]]; cbn [app kinds_ok]; auto.
  - apply orb_true_iff in Ev. exact Ev.
  - apply andb_true_iff in Ev as [Ev E3]. apply andb_true_iff in Ev as [E1 E2]. auto.
  - discriminate.
Qed.

Lemma get_paths_chain g src dst :
  Forall (fun s => Chain (VAS src) s /\ so_cur s = VAS dst) (get_paths ord_v ord_e g src dst).
Proof.
  unfold get_paths. eapply Permutation_Forall; [symmetry; apply sort_by_perm|].
  assert (H1 : Forall (Chain (VAS src)) (bfs ord_v ord_e g dst 4 [sol_new (VAS src)])).
  { apply bfs_Forall; [intros; eapply news_chain; eauto|]. constructor; [|constructor]. repeat split. }
  assert (H2 : forall fuel q, Forall (fun s => so_cur s = VAS dst) (bfs ord_v ord_e g dst fuel q)).
  { induction fuel as [|f IH]; intros q; cbn [bfs]; [constructor|]. apply Forall_app; split; [|apply IH].
    apply Forall_forall. intros s Hs. apply in_flat_map in Hs as (pr & Hp & Hs).
    apply in_map_iff in Hp as (q0 & <- & _). unfold expand in Hs; cbn [snd] in Hs.
    apply filter_In in Hs as [_ Hs]. apply vertex_eqb_eq in Hs. exact Hs. }
  specialize (H2 4%nat [sol_new (VAS src)]). rewrite Forall_forall in *. intros s Hs. split; auto.
Qed.
End Search.

(** * well-formed segments *)
Definition wf_segment (s : segment) : Prop :=
  let es := sg_entries s in
  (2 <= length es)%nat /\ NoDup (map ae_ia es)
  /\ forall i ae, nth_error es i = Some ae ->
       (hf_in (ae_hf ae) = 0 <-> i = 0%nat) /\ (hf_eg (ae_hf ae) = 0 <-> S i = length es)
       /\ forall p, In p (ae_peers ae) -> hf_in (pe_hf p) <> 0 /\ hf_eg (pe_hf p) = hf_eg (ae_hf ae).

Lemma combine_app' {A B} (a1 a2 : list A) (b1 b2 : list B) :
  length a1 = length b1 -> combine (a1 ++ a2) (b1 ++ b2) = combine a1 b1 ++ combine a2 b2.
Proof.
  revert b1; induction a1 as [|x a1 IH]; intros [|y b1] H; cbn in *; try discriminate; [reflexivity|].
  f_equal. apply IH. lia.
Qed.

Lemma enumerate_app {A} (l : list A) x : enumerate (l ++ [x]) = enumerate l ++ [(length l, x)].
Proof.
  unfold enumerate. rewrite app_length. cbn [length]. rewrite Nat.add_1_r, seq_S. cbn [Nat.add].
  rewrite combine_app' by (rewrite seq_length; reflexivity). reflexivity.
Qed.

Lemma skipn_app_le {A} n (l1 l2 : list A) : (n <= length l1)%nat -> skipn n (l1 ++ l2) = skipn n l1 ++ l2.
Proof. intros H. rewrite skipn_app. replace (n - length l1)%nat with 0%nat by lia. reflexivity. Qed.

Lemma skipn_combine_seq_cons {A} (l : list A) : forall i s a,
  nth_error l i = Some a -> exists r, skipn i (combine (seq s (length l)) l) = ((s + i)%nat, a) :: r.
Proof.
  induction l as [|x l IH]; intros i s a; [destruct i; discriminate|].
  destruct i; cbn.
  - intros E; inversion E; subst. rewrite Nat.add_0_r. eexists; reflexivity.
  - intros H. destruct (IH i (S s) a H) as (r & Hr). exists r. rewrite Hr. f_equal. f_equal. lia.
Qed.
Lemma skipn_enumerate_cons {A} (l : list A) i a :
  nth_error l i = Some a -> exists r, skipn i (enumerate l) = (i, a) :: r.
Proof. intros H. destruct (skipn_combine_seq_cons l i 0 a H) as (r & Hr). exists r. exact Hr. Qed.

(** * first and last interface of an edge *)
Definition edge_U (e : sedge) : list iface :=
  flat_map (item_ifs (e_idx (se_edge e)) (e_peer (se_edge e))) (edge_items e).

Lemma entries_split_last s leaf :
  last_ia s = Some leaf -> exists es' le, sg_entries s = es' ++ [le] /\ ae_ia le = leaf.
Proof.
  unfold last_ia. destruct (rev (sg_entries s)) as [|le r] eqn:E; cbn; [discriminate|].
  intros H; inversion H; subst. exists (rev r), le. split; [|reflexivity].
  rewrite <- (rev_involutive (sg_entries s)), E. reflexivity.
Qed.

Lemma edge_items_head e leaf :
  last_ia (is_seg (se_seg e)) = Some leaf -> (e_idx (se_edge e) < seg_len (is_seg (se_seg e)))%nat ->
  exists le rest, edge_items e = (seg_len (is_seg (se_seg e)) - 1, le)%nat :: rest /\ ae_ia le = leaf
                  /\ nth_error (sg_entries (is_seg (se_seg e))) (seg_len (is_seg (se_seg e)) - 1) = Some le.
Proof.
  intros Hl Hidx. destruct (entries_split_last _ _ Hl) as (es' & le & Hes & Hia).
  unfold edge_items, seg_len in *. rewrite Hes in *. rewrite app_length in *. cbn [length] in *.
  rewrite enumerate_app, skipn_app_le by (rewrite enumerate_length; lia). rewrite rev_app_distr. cbn [rev app].
  exists le, (rev (skipn (e_idx (se_edge e)) (enumerate es'))). replace (length es' + 1 - 1)%nat with (length es') by lia.
  split; [reflexivity|]. split; [exact Hia|]. rewrite nth_error_app2 by lia. rewrite Nat.sub_diag. reflexivity.
Qed.

Lemma edge_items_last e ae :
  nth_error (sg_entries (is_seg (se_seg e))) (e_idx (se_edge e)) = Some ae ->
  exists rest, edge_items e = rest ++ [(e_idx (se_edge e), ae)].
Proof.
  intros H. destruct (skipn_enumerate_cons _ _ _ H) as (r & Hr). unfold edge_items. rewrite Hr. cbn [rev].
  eexists; reflexivity.
Qed.

Lemma wf_nth s i ae : wf_segment s -> nth_error (sg_entries s) i = Some ae ->
  (hf_in (ae_hf ae) = 0 <-> i = 0%nat) /\ (hf_eg (ae_hf ae) = 0 <-> S i = seg_len s)
  /\ forall p, In p (ae_peers ae) -> hf_in (pe_hf p) <> 0 /\ hf_eg (pe_hf p) = hf_eg (ae_hf ae).
Proof. intros (_ & _ & H) Hn. exact (H i ae Hn). Qed.

Lemma edge_not_leaf_idx e :
  wf_segment (is_seg (se_seg e)) -> EdgeFull (se_src e) (se_dst e) (se_seg e) (se_edge e) ->
  e_peer (se_edge e) = None -> S (e_idx (se_edge e)) <> seg_len (is_seg (se_seg e)).
Proof.
  intros (Hlen & _) (_ & _ & leaf & ae & _ & _ & Hv) Hp. rewrite Hp in Hv. destruct Hv as (_ & Hc & Hn).
  destruct (is_kind (se_seg e)) eqn:Ek; [|auto]. rewrite (Hc eq_refl). unfold seg_len. lia.
Qed.

(** the un-oriented interface list starts at the leaf *)
Lemma edge_U_head e :
  wf_segment (is_seg (se_seg e)) -> EdgeFull (se_src e) (se_dst e) (se_seg e) (se_edge e) ->
  exists leaf x r, last_ia (is_seg (se_seg e)) = Some leaf /\ edge_U e = (leaf, x) :: r.
Proof.
  intros Hwf Hf. pose proof Hf as ([Hidx _] & _ & leaf & ae & Hleaf & Hae & Hv).
  destruct (edge_items_head e leaf Hleaf Hidx) as (le & rest & Hitems & Hia & Hle).
  exists leaf. unfold edge_U. rewrite Hitems. cbn [flat_map].
  destruct (wf_nth _ _ _ Hwf Hle) as (Hin0 & Heg0 & Hpeers).
  pose proof Hwf as (Hlen & _). fold (seg_len (is_seg (se_seg e))) in Hlen.
  set (L := (seg_len (is_seg (se_seg e)) - 1)%nat) in *.
  assert (HegL : hf_eg (ae_hf le) = 0) by (apply Heg0; unfold L; lia).
  assert (HinL : hf_in (ae_hf le) <> 0) by (intros H0; apply Hin0 in H0; unfold L in H0; lia).
  assert (Hitem : exists x r0, item_ifs (e_idx (se_edge e)) (e_peer (se_edge e)) (L, le) = (leaf, x) :: r0).
  { unfold item_ifs, item_hf, item_peer, item_shortcut, item_is_peer. cbn [fst snd].
    destruct (e_peer (se_edge e)) as [pi|] eqn:Epeer.
    - destruct (Nat.eqb L (e_idx (se_edge e))) eqn:EL.
      + apply Nat.eqb_eq in EL. rewrite <- EL in Hae. rewrite Hle in Hae. inversion Hae; subst ae.
        destruct Hv as (_ & p & Hp & _). rewrite Hp. destruct (Hpeers p (nth_error_In _ _ Hp)) as [Hpi Hpe].
        rewrite Hpe, HegL. apply N.eqb_neq in Hpi. rewrite Hpi, N.eqb_refl, orb_true_r. cbn [negb andb app]. rewrite Hia.
        eexists _, _. reflexivity.
      + rewrite HegL. apply N.eqb_neq in HinL. rewrite HinL, N.eqb_refl. cbn [negb andb orb app]. rewrite Hia. eexists _, _. reflexivity.
    - pose proof (edge_not_leaf_idx e Hwf Hf Epeer) as Hnl.
      assert (EL : Nat.eqb L (e_idx (se_edge e)) = false) by (apply Nat.eqb_neq; unfold L; lia).
      rewrite EL, HegL. apply N.eqb_neq in HinL. rewrite HinL, N.eqb_refl. cbn [negb andb orb app]. rewrite Hia. eexists _, _. reflexivity. }
  destruct Hitem as (x & r0 & ->). exists x, (r0 ++ flat_map (item_ifs (e_idx (se_edge e)) (e_peer (se_edge e))) rest).
  split; [exact Hleaf|reflexivity].
Qed.

(** ... and, for a non-peering edge, ends with the egress interface of the entry at the
    shortcut index *)
Lemma edge_U_last e ae :
  wf_segment (is_seg (se_seg e)) -> EdgeFull (se_src e) (se_dst e) (se_seg e) (se_edge e) ->
  e_peer (se_edge e) = None -> nth_error (sg_entries (is_seg (se_seg e))) (e_idx (se_edge e)) = Some ae ->
  exists x r, edge_U e = r ++ [(ae_ia ae, x)].
Proof.
  intros Hwf Hf Epeer Hae. destruct (edge_items_last e ae Hae) as (rest & Hitems).
  unfold edge_U. rewrite Hitems, flat_map_app. cbn [flat_map]. rewrite app_nil_r.
  destruct (wf_nth _ _ _ Hwf Hae) as (Hin0 & Heg0 & _).
  pose proof (edge_not_leaf_idx e Hwf Hf Epeer) as Hnl.
  assert (Heg : hf_eg (ae_hf ae) <> 0) by (intros H0; apply Heg0 in H0; lia).
  unfold item_ifs, item_hf, item_peer, item_shortcut, item_is_peer. rewrite Epeer. cbn [fst snd].
  rewrite Nat.eqb_refl. apply N.eqb_neq in Heg. rewrite Heg. cbn [negb andb orb].
  assert (Hsec : negb (hf_in (ae_hf ae) =? 0) && (negb (negb (e_idx (se_edge e) =? 0)%nat) || false) = false).
  { destruct (Nat.eqb (e_idx (se_edge e)) 0) eqn:E0; cbn.
    - apply Nat.eqb_eq in E0. apply Hin0 in E0. rewrite E0. reflexivity.
    - apply andb_false_r. }
  rewrite Hsec. exists (hf_eg (ae_hf ae)), (flat_map (item_ifs (e_idx (se_edge e)) None) rest). rewrite app_nil_r. reflexivity.
Qed.

Lemma wf_leaf_ne e leaf ae :
  wf_segment (is_seg (se_seg e)) -> last_ia (is_seg (se_seg e)) = Some leaf ->
  nth_error (sg_entries (is_seg (se_seg e))) (e_idx (se_edge e)) = Some ae ->
  S (e_idx (se_edge e)) <> seg_len (is_seg (se_seg e)) -> ae_ia ae <> leaf.
Proof.
  intros (Hlen & Hnd & _) Hl Hae Hne. destruct (entries_split_last _ _ Hl) as (es' & le & Hes & Hia).
  unfold seg_len in *. rewrite Hes in *. pose proof (nth_error_lt _ _ _ Hae) as Hlt.
  rewrite app_length in *. cbn [length] in *.
  rewrite nth_error_app1 in Hae by lia. rewrite map_app in Hnd. cbn [map] in Hnd.
  apply NoDup_remove_2 in Hnd. rewrite app_nil_r in Hnd. intros Heq. apply Hnd.
  apply in_map_iff. exists ae. split; [congruence|eapply nth_error_In; eauto].
Qed.

Lemma edge_first_if e a :
  wf_segment (is_seg (se_seg e)) -> EdgeFull (se_src e) (se_dst e) (se_seg e) (se_edge e) ->
  se_src e = VAS a -> exists x r, edge_ifs e = (a, x) :: r.
Proof.
  intros Hwf Hf Hsrc. destruct (edge_U_head e Hwf Hf) as (leaf & x & r & Hleaf & HU).
  pose proof Hf as (_ & _ & leaf' & ae & Hleaf' & Hae & Hv). rewrite Hleaf in Hleaf'. inversion Hleaf'; subst leaf'.
  unfold edge_ifs, orient, edge_cons_dir. fold (edge_U e). rewrite Hleaf.
  destruct (e_peer (se_edge e)) as [pi|] eqn:Ep.
  - destruct Hv as (_ & p & _ & [[Hs Hd]|[Hs _]]); [|congruence].
    rewrite Hd. cbn [vertex_ia]. rewrite HU. rewrite Hsrc in Hs. inversion Hs; subst. eauto.
  - pose proof (edge_not_leaf_idx e Hwf Hf Ep) as Hnl.
    destruct Hv as ([[Hs Hd]|[Hs Hd]] & _); rewrite Hd; cbn [vertex_ia]; rewrite Hsrc in Hs; inversion Hs; subst.
    + pose proof (wf_leaf_ne e leaf ae Hwf Hleaf Hae Hnl) as Hne. apply N.eqb_neq in Hne. rewrite Hne, HU. eauto.
    + rewrite N.eqb_refl. destruct (edge_U_last e ae Hwf Hf Ep Hae) as (y & r' & HU'). rewrite HU', rev_app_distr. cbn. eauto.
Qed.

Lemma edge_last_if e b :
  wf_segment (is_seg (se_seg e)) -> EdgeFull (se_src e) (se_dst e) (se_seg e) (se_edge e) ->
  se_dst e = VAS b -> exists x r, edge_ifs e = r ++ [(b, x)].
Proof.
  intros Hwf Hf Hdst. destruct (edge_U_head e Hwf Hf) as (leaf & x & r & Hleaf & HU).
  pose proof Hf as (_ & _ & leaf' & ae & Hleaf' & Hae & Hv). rewrite Hleaf in Hleaf'. inversion Hleaf'; subst leaf'.
  unfold edge_ifs, orient, edge_cons_dir. fold (edge_U e). rewrite Hleaf, Hdst. cbn [vertex_ia].
  destruct (e_peer (se_edge e)) as [pi|] eqn:Ep.
  - destruct Hv as (_ & p & _ & [[_ Hd]|[_ Hd]]); [congruence|].
    rewrite Hdst in Hd. inversion Hd; subst. rewrite N.eqb_refl, HU. cbn [rev]. eauto.
  - pose proof (edge_not_leaf_idx e Hwf Hf Ep) as Hnl.
    destruct Hv as ([[_ Hd]|[_ Hd]] & _); rewrite Hdst in Hd; inversion Hd; subst.
    + pose proof (wf_leaf_ne e leaf ae Hwf Hleaf Hae Hnl) as Hne. apply N.eqb_neq in Hne. rewrite Hne.
      destruct (edge_U_last e ae Hwf Hf Ep Hae) as (y & r' & HU'). rewrite HU'. eauto.
    + rewrite N.eqb_refl, HU. cbn [rev]. eauto.
Qed.

(** * endpoints of a path *)
Lemma sol_path_ends Hfp sol p :
  sol_path Hfp sol = Ok (Some p) ->
  exists st f l, ofold edge_step (so_edges sol) (mkPS 65535 [] []) = Ok st
    /\ hd_error (ps_ifs st) = Some f /\ hd_error (rev (ps_ifs st)) = Some l
    /\ sp_src p = fst f /\ sp_dst p = fst l
    /\ sp_meta p = Some (mkMeta (odefault 0 (sp_exp p)) (ps_mtu st) (Some (ps_ifs st)))
    /\ sp_segs p = ps_segs st.
Proof.
  unfold sol_path. destruct (so_edges sol) as [|e0 es] eqn:Ee; [discriminate|]. rewrite <- Ee.
  intros H. apply bind_ok in H as (st & Hst & H). exists st.
  apply bind_ok in H as (ex & Hex & H).
  destruct (wire_valid (ps_segs st)); cbn [negb] in H; [|discriminate].
  destruct (view_size_ok (encode_std (ps_segs st))); cbn [negb] in H; [|discriminate].
  destruct (hd_error (ps_ifs st)) as [f|] eqn:Ef; [|discriminate].
  destruct (hd_error (rev (ps_ifs st))) as [l|] eqn:El; [|discriminate].
  destruct (Nat.even (length (ps_ifs st))); cbn [negb] in H; [|discriminate].
  apply bind_ok in H as (vexp & Hv & H). inversion H; subst. cbn.
  rewrite Hex in Hv. inversion Hv; subst. exists f, l. auto 10.
Qed.

Lemma sol_endpoints Hfp sol p src dst :
  Chain (VAS src) sol -> so_cur sol = VAS dst ->
  Forall (fun e => EdgeFull (se_src e) (se_dst e) (se_seg e) (se_edge e)) (so_edges sol) ->
  Forall (fun e => wf_segment (is_seg (se_seg e))) (so_edges sol) ->
  sol_path Hfp sol = Ok (Some p) -> sp_src p = src /\ sp_dst p = dst.
Proof.
  intros (C1 & C2 & _) Hcur Hf Hw H. destruct (sol_path_ends _ _ _ H) as (st & f & l & Hst & Hf1 & Hl1 & -> & -> & _).
  apply edges_fold_pure in Hst as (_ & Hifs & _). cbn [ps_ifs app] in Hifs. rewrite Hifs in *.
  destruct (so_edges sol) as [|e0 es] eqn:Ee; [cbn in Hf1; discriminate|]. split.
  - cbn [chain_ok] in C1. destruct C1 as [Hs _]. inversion Hf; subst. inversion Hw; subst.
    destruct (edge_first_if e0 src ltac:(assumption) ltac:(assumption) Hs) as (x & r & Hx).
    cbn [flat_map] in Hf1. rewrite Hx in Hf1. cbn in Hf1. inversion Hf1; reflexivity.
  - rewrite <- Ee in *. destruct (exists_last (l := so_edges sol)) as (es' & el & Hlast); [rewrite Ee; discriminate|].
    rewrite Hlast in *. rewrite end_vertex_app in C2. rewrite C2 in Hcur.
    apply Forall_app in Hf as [_ Hf]. inversion Hf; subst. apply Forall_app in Hw as [_ Hw]. inversion Hw; subst.
    destruct (edge_last_if el dst ltac:(assumption) ltac:(assumption) Hcur) as (x & r & Hx).
    rewrite flat_map_app in Hl1. cbn [flat_map] in Hl1. rewrite app_nil_r, Hx, app_assoc, rev_app_distr in Hl1.
    cbn in Hl1. inversion Hl1; reflexivity.
Qed.

Lemma input_segments_seg Hid cores non_cores s :
  In s (input_segments Hid cores non_cores) -> In (is_seg s) (cores ++ non_cores).
Proof.
  unfold input_segments. intros H. apply in_app_or in H as [H|H]; apply in_map_iff in H as (x & <- & H);
    cbn; apply in_or_app; auto.
Qed.

Lemma combine_endpoints Hid Hfp ord_v ord_e src dst cores non_cores out :
  (forall v l, Permutation (ord_v v l) l) -> (forall v w l, Permutation (ord_e v w l) l) ->
  Forall wf_segment (cores ++ non_cores) ->
  combine_paths Hid Hfp ord_v ord_e src dst cores non_cores = Ok out ->
  Forall (fun p => sp_src p = src /\ sp_dst p = dst) out.
Proof.
  intros Hv He Hwf H.
  destruct (combine_stages _ _ _ _ _ _ _ _ _ H) as [[_ ->]|(g & cand & _ & Hg & HI & Hcand & Hcol & Hf)]; [constructor|].
  destruct (collect_paths_sorted Hfp _ _ (get_paths_sorted ord_v ord_e g src dst)
              (get_paths_full ord_v ord_e Hv He g src dst HI) (get_paths_cost ord_v ord_e g src dst) Hcol) as [_ Hall].
  apply Forall_forall. intros p Hp. destruct (filter_duplicates_In _ _ _ _ _ Hf Hp) as [[]|Hin].
  rewrite Forall_forall in Hall. destruct (Hall p Hin) as (s & Hs & Hsp & _).
  pose proof (get_paths_chain ord_v ord_e g src dst) as Hch. rewrite Forall_forall in Hch. destruct (Hch s Hs) as [Hc Hcur].
  pose proof (get_paths_full ord_v ord_e Hv He g src dst HI) as Hfull. rewrite Forall_forall in Hfull.
  pose proof (get_paths_ok ord_v ord_e Hv He g src dst) as Hok. rewrite Forall_forall in Hok. destruct (Hok s Hs) as [Hin_g _].
  eapply sol_endpoints; eauto.
  eapply Forall_impl; [|exact Hin_g]. intros e Hedge. unfold sedge_in in Hedge.
  destruct (add_segments_from _ _ _ Hg _ _ _ _ Hedge) as [(vi & em & [] & _)|Hmem].
  rewrite Forall_forall in Hwf. apply Hwf. eapply input_segments_seg; eauto.
Qed.

(** * MTU *)
Lemma fold_min_spec l : forall d,
  let r := fold_left N.min l d in
  r <= d /\ (forall x, In x l -> r <= x) /\ (r = d \/ In r l).
Proof.
  induction l as [|a l IH]; intros d; cbn [fold_left].
  - split; [lia|]. split; [intros x []|left; reflexivity].
  - destruct (IH (N.min d a)) as (A & B & C). split; [lia|]. split.
    + intros x [<-|Hx]; [lia|auto].
    + destruct C as [C|C]; [|right; right; exact C].
      destruct (N.le_ge_cases d a) as [H|H].
      * left. rewrite C. lia.
      * right; left. rewrite C. lia.
Qed.

Lemma combine_solution_of Hid Hfp ord_v ord_e src dst cores non_cores out p :
  (forall v l, Permutation (ord_v v l) l) -> (forall v w l, Permutation (ord_e v w l) l) ->
  combine_paths Hid Hfp ord_v ord_e src dst cores non_cores = Ok out -> In p out ->
  exists g sol, add_segments [] (input_segments Hid cores non_cores) = Ok g
    /\ In sol (get_paths ord_v ord_e g src dst) /\ sol_path Hfp sol = Ok (Some p).
Proof.
  intros Hv He H Hp.
  destruct (combine_stages _ _ _ _ _ _ _ _ _ H) as [[_ ->]|(g & cand & _ & Hg & HI & Hcand & Hcol & Hf)]; [destruct Hp|].
  destruct (collect_paths_sorted Hfp _ _ (get_paths_sorted ord_v ord_e g src dst)
              (get_paths_full ord_v ord_e Hv He g src dst HI) (get_paths_cost ord_v ord_e g src dst) Hcol) as [_ Hall].
  destruct (filter_duplicates_In _ _ _ _ _ Hf Hp) as [[]|Hin].
  rewrite Forall_forall in Hall. destruct (Hall p Hin) as (s & Hs & Hsp & _). eauto.
Qed.

Lemma sol_path_mtu Hfp sol p m :
  sol_path Hfp sol = Ok (Some p) -> sp_meta p = Some m ->
  md_mtu m = fold_left N.min (flat_map edge_mtus (so_edges sol)) 65535
  /\ md_ifaces m = Some (flat_map edge_ifs (so_edges sol))
  /\ map ds_hops (sp_segs p) = map edge_hops (so_edges sol).
Proof.
  intros H Hm. destruct (sol_path_ends _ _ _ H) as (st & f & l & Hst & _ & _ & _ & _ & Hmeta & Hsegs).
  rewrite Hmeta in Hm. inversion Hm; subst m. cbn [md_mtu md_ifaces].
  apply edges_fold_pure in Hst as (A & B & C & _). cbn [ps_mtu ps_ifs ps_segs app map] in A, B, C.
  rewrite A, B, Hsegs, C. auto.
Qed.

(** * the decidable well-formedness test is sound *)
From Sci Require Import Combine.Obs.
Lemma nodupb_sound l : nodupb l = true -> NoDup l.
Proof.
  induction l as [|x r IH]; cbn [nodupb]; intros H; [constructor|]. apply andb_true_iff in H as [H1 H2].
  constructor; [|auto]. intros Hin. apply negb_true_iff in H1.
  assert (existsb (N.eqb x) r = true) by (apply existsb_exists; exists x; split; [exact Hin|apply N.eqb_refl]). congruence.
Qed.

Lemma nth_error_enumerate {A} (l : list A) i a : nth_error l i = Some a -> In (i, a) (enumerate l).
Proof.
  intros H. destruct (skipn_enumerate_cons l i a H) as (r & Hr).
  apply (In_skipn' i). rewrite Hr. left; reflexivity.
Qed.

Lemma wf_segb_sound s : wf_segb s = true -> wf_segment s.
Proof.
  unfold wf_segb, wf_segment. intros H. apply andb_true_iff in H as [H H3]. apply andb_true_iff in H as [H1 H2].
  split; [apply Nat.leb_le; exact H1|]. split; [apply nodupb_sound; exact H2|].
  intros i ae Hn. rewrite forallb_forall in H3. specialize (H3 _ (nth_error_enumerate _ _ _ Hn)).
  unfold wf_entryb in H3. apply andb_true_iff in H3 as [H3 Hp]. apply andb_true_iff in H3 as [Hi He].
  apply Bool.eqb_prop in Hi, He. split; [|split].
  - rewrite <- N.eqb_eq, Hi. apply Nat.eqb_eq.
  - rewrite <- N.eqb_eq, He. apply Nat.eqb_eq.
  - intros p Hin. rewrite forallb_forall in Hp. specialize (Hp p Hin). apply andb_true_iff in Hp as [A B].
    apply negb_true_iff, N.eqb_neq in A. apply N.eqb_eq in B. auto.
Qed.

(** * the peer index stored in an edge and the peer entry whose hop field is emitted *)
Lemma peer_edge_consistent e pi :
  EdgeFull (se_src e) (se_dst e) (se_seg e) (se_edge e) -> e_peer (se_edge e) = Some pi ->
  exists leaf ae p,
    last_ia (is_seg (se_seg e)) = Some leaf
    /\ nth_error (sg_entries (is_seg (se_seg e))) (e_idx (se_edge e)) = Some ae
    /\ nth_error (ae_peers ae) pi = Some p
    /\ ((se_src e = VAS leaf /\ se_dst e = VPeer (ae_ia ae) (hf_in (pe_hf p)) (pe_ia p) (pe_if p))
        \/ (se_src e = VPeer (pe_ia p) (pe_if p) (ae_ia ae) (hf_in (pe_hf p)) /\ se_dst e = VAS leaf))
    /\ item_hf (e_idx (se_edge e)) (e_peer (se_edge e)) (e_idx (se_edge e), ae) = pe_hf p
    /\ In (pe_hf p) (edge_hops e).
Proof.
  intros (_ & _ & leaf & ae & Hleaf & Hae & Hv) Hp. rewrite Hp in Hv. destruct Hv as (_ & p & Hpe & Hv).
  exists leaf, ae, p. split; [exact Hleaf|]. split; [exact Hae|]. split; [exact Hpe|]. split; [exact Hv|].
  assert (Hitem : item_hf (e_idx (se_edge e)) (e_peer (se_edge e)) (e_idx (se_edge e), ae) = pe_hf p).
  { unfold item_hf, item_peer. rewrite Hp. cbn [fst snd]. rewrite Nat.eqb_refl, Hpe. reflexivity. }
  split; [exact Hitem|].
  destruct (edge_items_last e ae Hae) as (rest & Hitems). unfold edge_hops, orient. rewrite Hitems, map_app. cbn [map].
  rewrite Hitem. destruct (edge_cons_dir e); [apply -> in_rev|]; apply in_or_app; right; left; reflexivity.
Qed.
