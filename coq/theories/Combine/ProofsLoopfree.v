(** C04 completeness, variant: "does not pass through the destination early" follows from
    loop-freeness of the combination's own path (well-formed segments). *)
From Sci Require Import Combine.Model Combine.SpecRules Combine.Proofs Combine.ProofsEnc Combine.ProofsC19 Combine.ProofsBound Combine.ProofsC04
  Combine.ProofsPath Combine.ProofsWF Combine.ProofsSound Combine.ProofsComplete Combine.ProofsGraph Common.ListAux.
From Coq Require Import Lia ZifyBool ZifyNat ZifyN Permutation.
Local Open Scope N_scope.

Lemma glookup_edge_in g a b s e : glookup g a b s = Some e -> edge_in g a b s e.
Proof.
  unfold glookup. destruct (aget vertex_eqb a g) as [vi|] eqn:Ea; [|discriminate].
  destruct (aget vertex_eqb b vi) as [em|] eqn:Eb; [|discriminate]. intros Es.
  apply aget_In in Ea as (a' & Ha & Ea'). apply vertex_eqb_eq in Ea'. subst a'.
  apply aget_In in Eb as (b' & Hb & Eb'). apply vertex_eqb_eq in Eb'. subst b'.
  apply aget_In in Es as (s' & Hs & Es'). apply iseg_eqb_eq in Es'. subst s'.
  exists vi, em. auto.
Qed.

Lemma count_ia_app ia a b : count_ia ia (a ++ b) = (count_ia ia a + count_ia ia b)%nat.
Proof. unfold count_ia. rewrite filter_app, app_length. reflexivity. Qed.
Lemma count_ia_cons_same ia x r : count_ia ia ((ia, x) :: r) = S (count_ia ia r).
Proof. unfold count_ia. cbn [filter fst]. rewrite N.eqb_refl. reflexivity. Qed.
Lemma count_ia_snoc_same ia x r : count_ia ia (r ++ [(ia, x)]) = S (count_ia ia r).
Proof. rewrite count_ia_app, count_ia_cons_same. cbn. unfold count_ia. cbn. lia. Qed.

(** a well-formed edge does not connect an AS with itself *)
Lemma edge_not_self e a :
  wf_segment (is_seg (se_seg e)) -> EdgeFull (se_src e) (se_dst e) (se_seg e) (se_edge e) ->
  se_src e = VAS a -> se_dst e = VAS a -> False.
Proof.
  intros Hwf Hf Hs Hd. pose proof Hf as (_ & _ & leaf & ae & Hleaf & Hae & Hv).
  destruct (e_peer (se_edge e)) as [pi|] eqn:Ep.
  - destruct Hv as (_ & p & _ & [[_ Hd']|[Hs' _]]); congruence.
  - pose proof (edge_not_leaf_idx e Hwf Hf Ep) as Hnl. pose proof (wf_leaf_ne e leaf ae Hwf Hleaf Hae Hnl) as Hne.
    destruct Hv as ([[Hs' Hd']|[Hs' Hd']] & _); rewrite Hs in Hs'; rewrite Hd in Hd'; inversion Hs'; inversion Hd'; congruence.
Qed.

Lemma early_dst_has_loop Hfp l p dst :
  (length l <= 3)%nat ->
  Forall (fun e => EdgeFull (se_src e) (se_dst e) (se_seg e) (se_edge e)) l ->
  Forall (fun e => wf_segment (is_seg (se_seg e))) l ->
  forall v0, chain_ok v0 l -> end_vertex v0 l = VAS dst ->
  sol_path Hfp (mkSol l (VAS dst) (edges_weight l)) = Ok (Some p) -> has_loops p = Ok false ->
  forall l1 c l2, l = l1 ++ c :: l2 -> l2 <> [] -> se_dst c <> VAS dst.
Proof.
  intros Hlen Hf Hw v0 Hc Hend Hsp Hl l1 c l2 El Hl2 Hd.
  destruct l2 as [|c2 l3]; [congruence|]. subst l.
  (* the chain through c and c2 *)
  assert (Hc2src : se_src c2 = VAS dst).
  { clear -Hc Hd. revert v0 Hc. induction l1 as [|x l1 IH]; intros v0 Hc; cbn [app chain_ok] in Hc.
    - destruct Hc as (_ & Hs2 & _). congruence.
    - destruct Hc as (_ & Hc). eapply IH; eauto. }
  apply Forall_app in Hf as [_ Hf]. inversion Hf as [|? ? Hfc Hf2]; subst. inversion Hf2 as [|? ? Hfc2 Hf3]; subst.
  apply Forall_app in Hw as [_ Hw]. inversion Hw as [|? ? Hwc Hw2]; subst. inversion Hw2 as [|? ? Hwc2 Hw3]; subst.
  destruct l3 as [|c3 l4].
  - (* c2 is the last edge: it would connect dst with itself *)
    assert (Hc2dst : se_dst c2 = VAS dst).
    { clear -Hend. revert v0 Hend. induction l1 as [|x l1 IH]; intros v0 Hend; cbn [app end_vertex] in Hend; [exact Hend|eauto]. }
    exact (edge_not_self c2 dst Hwc2 Hfc2 Hc2src Hc2dst).
  - (* three edges: l1 = [], l4 = [] *)
    rewrite app_length in Hlen. cbn [length] in Hlen. destruct l1 as [|x l1]; [|cbn [length] in Hlen; lia].
    destruct l4 as [|c4 l5]; [|cbn [length] in Hlen; lia]. cbn [app] in *.
    cbn [end_vertex] in Hend. inversion Hf3 as [|? ? Hfc3 _]; subst. inversion Hw3 as [|? ? Hwc3 _]; subst.
    destruct (edge_last_if c dst Hwc Hfc Hd) as (x1 & r1 & E1).
    destruct (edge_first_if c2 dst Hwc2 Hfc2 Hc2src) as (x2 & r2 & E2).
    destruct (edge_last_if c3 dst Hwc3 Hfc3 Hend) as (x3 & r3 & E3).
    destruct (sol_path_ends _ _ _ Hsp) as (st & f & la & Hst & _ & _ & _ & _ & Hmeta & _). cbn [so_edges] in Hst.
    apply edges_fold_pure in Hst as (_ & Hifs & _). cbn [ps_ifs app flat_map] in Hifs. rewrite app_nil_r, E1, E2, E3 in Hifs.
    unfold has_loops in Hl. rewrite Hmeta in Hl. cbn [md_ifaces] in Hl. injection Hl as Hl.
    assert (Hex : existsb (fun i => (2 <? count_ia (fst i) (ps_ifs st))%nat) (ps_ifs st) = true); [|congruence].
    apply existsb_exists. exists (dst, x1). split.
    + rewrite Hifs. apply in_or_app. left. apply in_or_app. right. left; reflexivity.
    + cbn [fst]. apply Nat.ltb_lt. rewrite Hifs.
      rewrite !count_ia_app, !count_ia_cons_same. lia.
Qed.

Lemma combine_complete_loopfree_lemma Hid Hfp ord_v ord_e src dst cores non_cores out uses :
  (forall v l, Permutation (ord_v v l) l) -> (forall v w l, Permutation (ord_e v w l) l) ->
  wf_input cores non_cores ->
  combine_paths Hid Hfp ord_v ord_e src dst cores non_cores = Ok out -> src <> dst ->
  ValidCombination cores non_cores src dst uses ->
  exists l,
    Forall2 (EdgeOfUse Hid) l uses
    /\ forall p, sol_path Hfp (mkSol l (VAS dst) (edges_weight l)) = Ok (Some p) ->
         Forall2 SegOfUse (sp_segs p) uses
         /\ (has_loops p = Ok false ->
             exists q, In q out /\ sp_fp q = sp_fp p /\ path_expiration p <= path_expiration q).
Proof.
  intros Hv He Hwf Hout Hne (Hkinds & Hfrom & Hch).
  destruct (combine_stages _ _ _ _ _ _ _ _ _ Hout) as [[E _]|(g & cand & _ & Hg & HI & _ & _ & _)];
    [apply N.eqb_eq in E; contradiction|].
  destruct (chained_edges Hid cores non_cores g Hwf Hg uses (JAS src) (JAS dst) Hfrom Hch) as (l & H2 & Hc & Hend & Hlk).
  cbn [vx] in Hc, Hend. exists l. split; [exact H2|]. intros p Hsp.
  pose proof (Forall2_length' _ _ _ H2) as Hlen.
  assert (Hwfu : Forall (fun u => wf_segment (u_seg u)) uses).
  { apply Forall_forall. intros u Hu. rewrite Forall_forall in Hfrom. specialize (Hfrom u Hu).
    unfold wf_input in Hwf. rewrite Forall_forall in Hwf. apply Hwf. unfold from_input in Hfrom.
    apply in_or_app. destruct (u_kind u); auto. }
  assert (Huses : map use_of_edge l = uses).
  { clear -H2 Hwfu. induction H2 as [|c u l r Hcu H2 IH]; [reflexivity|]. inversion Hwfu; subst. cbn [map]. f_equal; [|auto].
    eapply use_of_edge_of_use; eauto. }
  assert (Hlen3 : (1 <= length l <= 3)%nat).
  { rewrite Hlen. unfold kinds_allowed in Hkinds. destruct uses as [|a [|b [|c [|d r]]]]; cbn in Hkinds |- *; try lia; destruct Hkinds. }
  split.
  - destruct (sol_path_ends _ _ _ Hsp) as (st & f & la & Hst & _ & _ & _ & _ & _ & Hsegs). cbn [so_edges] in Hst.
    assert (Hidx : Forall (fun e => (e_idx (se_edge e) < seg_len (is_seg (se_seg e)))%nat) l).
    { clear -H2. induction H2 as [|c u l r Hcu H2 IH]; constructor; [|exact IH].
      destruct Hcu as (Hs & Hi & _ & leaf & ae & _ & Hae & _). rewrite Hs, Hi. cbn. eapply nth_error_lt; eauto. }
    destruct (edges_fold_uses l _ _ Hidx Hst) as (ds & Hds & Hall). cbn [ps_segs app] in Hds.
    rewrite Hsegs, Hds, <- Huses. exact Hall.
  - intros Hl.
    assert (Hfull : Forall (fun e => EdgeFull (se_src e) (se_dst e) (se_seg e) (se_edge e)) l).
    { eapply Forall_impl; [|exact Hlk]. intros e Hle. apply HI. apply glookup_edge_in. exact Hle. }
    assert (Hwl : Forall (fun e => wf_segment (is_seg (se_seg e))) l).
    { clear -H2 Hwfu. induction H2 as [|c u l r Hcu H2 IH]; constructor; inversion Hwfu; subst; auto.
      destruct Hcu as (Hs & _). rewrite Hs. cbn. assumption. }
    eapply (combine_complete_graph Hid Hfp ord_v ord_e src dst cores non_cores out g l p); eauto.
    unfold GraphChain. split; [exact Hlen3|split; [exact Hc|split; [exact Hend|split; [|split; [exact Hlk|]]]]].
    + unfold kinds_allowed in Hkinds. rewrite <- Huses in Hkinds. unfold kinds_ok.
      destruct l as [|a [|b [|c [|d r]]]]; cbn [map use_of_edge u_kind] in Hkinds; auto.
      * unfold is_non_core, is_core. destruct Hkinds as [-> | ->]; auto.
      * unfold is_non_core, is_core. destruct Hkinds as (-> & -> & ->). auto.
    + exact (early_dst_has_loop Hfp l p dst (proj2 Hlen3) Hfull Hwl (VAS src) Hc Hend Hsp Hl).
Qed.
