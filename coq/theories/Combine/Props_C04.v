(** C04 -- path combination is ordered, duplicate-free, loop-free; metadata is truthful.
    Property theorems only.  The statements are about [combine_paths], the model of
    sciparse::path::combinator::combine, for every hash function standing for SHA-256 and every
    HashMap iteration order (any function returning a permutation). *)
From Sci Require Import Combine.Model Combine.Spec Combine.Obs Combine.Proofs Combine.ProofsC19 Combine.ProofsC04 Combine.ProofsMeta Combine.ProofsPath Combine.ProofsWF Combine.SpecRules Combine.ProofsSound.
From Coq Require Import Permutation Sorted.
Local Open Scope N_scope.

Definition order_ok (ord_v : vertex -> vinfo -> vinfo) (ord_e : vertex -> vertex -> emap -> emap) : Prop :=
  (forall v l, Permutation (ord_v v l) l) /\ (forall v w l, Permutation (ord_e v w l) l).

(** Cheapest first.  [path_cost] is read off the returned path itself: hop fields minus
    segments, plus one for a peering crossing, i.e. the number of inter-AS links; the result
    list is sorted by it (non-decreasing).
    PARTIAL: the candidates (paths before duplicate filtering) are sorted unconditionally;
    for the final list the statement needs that two candidates with the same fingerprint have
    the same cost (filter_duplicates may overwrite an entry by a later candidate of the same
    fingerprint).  Missing clause: that hypothesis is not derived from well-formedness of the
    segments; the correspondence oracle [sorted_by_hops] checks the final order on every case. *)
Theorem combine_sorted_partial :
  forall Hid Hfp ord_v ord_e src dst cores non_cores out cand,
    order_ok ord_v ord_e ->
    combine_paths Hid Hfp ord_v ord_e src dst cores non_cores = Ok out ->
    candidate_paths Hid Hfp ord_v ord_e src dst cores non_cores = Ok cand ->
    (forall x y, In x cand -> In y cand -> sp_fp x = sp_fp y -> path_cost x = path_cost y) ->
    StronglySorted N.le (map path_cost out).
Proof.
  intros Hid Hfp ord_v ord_e src dst cores non_cores out cand [Hv He] Hout Hcand Hcost.
  exact (proj2 (combine_sorted_and_loopfree _ _ _ _ _ _ _ _ _ Hv He Hout) cand Hcand Hcost).
Qed.
Print Assumptions combine_sorted_partial.

(** Each route once: no two returned paths have the same source, destination and sequence of
    hop-field (ConsIngress, ConsEgress) pairs.  Holds for every input and every hash function. *)
Theorem combine_nodup :
  forall Hid Hfp ord_v ord_e src dst cores non_cores out,
    order_ok ord_v ord_e ->
    combine_paths Hid Hfp ord_v ord_e src dst cores non_cores = Ok out ->
    NoDup (map (fun p => fp_input (sp_src p) (sp_dst p) (sp_segs p)) out).
Proof.
  intros Hid Hfp ord_v ord_e src dst cores non_cores out [Hv He] Hout.
  exact (combine_nodup_routes _ _ _ _ _ _ _ _ _ Hv He Hout).
Qed.
Print Assumptions combine_nodup.

(** No returned path visits an AS twice: no AS owns more than two interfaces of the
    metadata interface list (one to enter, one to leave). *)
Theorem no_loops :
  forall Hid Hfp ord_v ord_e src dst cores non_cores out p m ifs,
    order_ok ord_v ord_e ->
    combine_paths Hid Hfp ord_v ord_e src dst cores non_cores = Ok out -> In p out ->
    sp_meta p = Some m -> md_ifaces m = Some ifs ->
    forall ia, (count_ia ia ifs <= 2)%nat.
Proof.
  intros Hid Hfp ord_v ord_e src dst cores non_cores out p m ifs [Hv He] Hout Hp Hm Hi ia.
  pose proof (proj1 (combine_sorted_and_loopfree _ _ _ _ _ _ _ _ _ Hv He Hout)) as Hl.
  rewrite Forall_forall in Hl. specialize (Hl p Hp). unfold has_loops in Hl. rewrite Hm, Hi in Hl.
  injection Hl as Hl. destruct (Nat.leb_spec (count_ia ia ifs) 2) as [H|H]; [exact H|exfalso].
  assert (Hex : exists i, In i ifs /\ fst i = ia).
  { unfold count_ia in H. destruct (filter (fun i => fst i =? ia) ifs) as [|i r] eqn:E; [cbn in H; inversion H|].
    assert (Hi' : In i (filter (fun i => fst i =? ia) ifs)) by (rewrite E; left; reflexivity).
    apply filter_In in Hi' as [A B]. apply N.eqb_eq in B. eauto. }
  destruct Hex as (i & Hin & <-).
  assert (existsb (fun i0 => (2 <? count_ia (fst i0) ifs)%nat) ifs = true).
  { apply existsb_exists. exists i. split; [exact Hin|]. apply Nat.ltb_lt. exact H. }
  congruence.
Qed.
Print Assumptions no_loops.

(** The expiry is the earliest hop expiry: both ScionPath::expiration() and
    metadata.expiration equal the minimum, over all hop fields encoded in the path, of
    timestamp + (ExpTime + 1) * 337.5 s (saturating at 2^32-1) as defined by the SCION
    specification ([Spec.earliest_expiry], stated on the observable path).  The hypothesis
    says the hop fields' ExpTime values are bytes (the Rust type u8). *)
Theorem expiry_is_min :
  forall Hid Hfp ord_v ord_e src dst cores non_cores out p,
    order_ok ord_v ord_e ->
    combine_paths Hid Hfp ord_v ord_e src dst cores non_cores = Ok out -> In p out ->
    Forall (fun s => Forall (fun h => hf_exp h < 256) (ds_hops s)) (sp_segs p) ->
    o_mexp (obs_path p) = Spec.earliest_expiry (obs_path p)
    /\ o_exp (obs_path p) = Spec.earliest_expiry (obs_path p).
Proof.
  intros Hid Hfp ord_v ord_e src dst cores non_cores out p [Hv He] Hout Hp Ht.
  pose proof (combine_outputs_shape _ _ _ _ _ _ _ _ _ Hv He Hout) as Hs. rewrite Forall_forall in Hs.
  exact (shape_expiry Hfp p (Hs p Hp) Ht).
Qed.
Print Assumptions expiry_is_min.

(** Source and destination match the request: for well-formed segments (at least two AS
    entries, no AS twice, interface ids zero exactly at the two ends, peer hop fields with a
    non-zero peering interface and the entry's egress) every returned path starts in [src] and
    ends in [dst]. *)
Theorem endpoints_match :
  forall Hid Hfp ord_v ord_e src dst cores non_cores out p,
    order_ok ord_v ord_e ->
    Forall wf_segment (cores ++ non_cores) ->
    combine_paths Hid Hfp ord_v ord_e src dst cores non_cores = Ok out -> In p out ->
    sp_src p = src /\ sp_dst p = dst.
Proof.
  intros Hid Hfp ord_v ord_e src dst cores non_cores out p [Hv He] Hwf Hout Hp.
  pose proof (combine_endpoints _ _ _ _ _ _ _ _ _ Hv He Hwf Hout) as H. rewrite Forall_forall in H. exact (H p Hp).
Qed.
Print Assumptions endpoints_match.

(** The MTU is the minimum over traversed ASes and links: every returned path was built from
    a search solution, and its metadata MTU is the minimum of 65535 and the values
    [edge_mtus] lists for the traversed entries of each used segment -- the AS-internal MTU
    (as u16) of every traversed AS entry, the ingress-link MTU of every entry entered over
    its construction-ingress link (not at a shortcut entry, not when 0), and the peering-link
    MTU at a peering crossing.  The metadata interface list and the encoded hop fields are
    the concatenation of the per-edge lists. *)
Theorem mtu_is_min :
  forall Hid Hfp ord_v ord_e src dst cores non_cores out p m,
    order_ok ord_v ord_e ->
    combine_paths Hid Hfp ord_v ord_e src dst cores non_cores = Ok out -> In p out ->
    sp_meta p = Some m ->
    exists g sol,
      add_segments [] (input_segments Hid cores non_cores) = Ok g
      /\ In sol (get_paths ord_v ord_e g src dst) /\ sol_path Hfp sol = Ok (Some p)
      /\ let l := flat_map edge_mtus (so_edges sol) in
         md_mtu m <= 65535 /\ (forall x, In x l -> md_mtu m <= x) /\ (md_mtu m = 65535 \/ In (md_mtu m) l)
         /\ md_ifaces m = Some (flat_map edge_ifs (so_edges sol))
         /\ map ds_hops (sp_segs p) = map edge_hops (so_edges sol).
Proof.
  intros Hid Hfp ord_v ord_e src dst cores non_cores out p m [Hv He] Hout Hp Hm.
  destruct (combine_solution_of _ _ _ _ _ _ _ _ _ _ Hv He Hout Hp) as (g & sol & Hg & Hs & Hsp).
  exists g, sol. split; [exact Hg|]. split; [exact Hs|]. split; [exact Hsp|].
  destruct (sol_path_mtu _ _ _ _ Hsp Hm) as (A & B & C). cbn zeta.
  destruct (fold_min_spec (flat_map edge_mtus (so_edges sol)) 65535) as (X & Y & Z). rewrite <- A in X, Y, Z. auto 10.
Qed.
Print Assumptions mtu_is_min.

(** Soundness: every returned path is a valid combination under the SCION rules of
    [SpecRules] (one to three segment uses taken from the given core / non-core lists, kinds
    in an allowed order, each use a suffix of its segment from a shortcut entry or through a
    peer entry, consecutive uses meeting at a common AS or across one peering link, from [src]
    to [dst]), and its data-plane path consists, use by use, of exactly the hop fields of
    that combination in travel order, with the segment's timestamp, the ConsDir flag of the
    travel direction and the Peering flag of a peering use.  For every input (no
    well-formedness hypothesis). *)
Theorem combine_sound :
  forall Hid Hfp ord_v ord_e src dst cores non_cores out p,
    order_ok ord_v ord_e ->
    combine_paths Hid Hfp ord_v ord_e src dst cores non_cores = Ok out -> In p out ->
    exists uses, ValidCombination cores non_cores src dst uses /\ Forall2 SegOfUse (sp_segs p) uses.
Proof.
  intros Hid Hfp ord_v ord_e src dst cores non_cores out p [Hv He] Hout Hp.
  exact (combine_sound_lemma _ _ _ _ _ _ _ _ _ _ Hv He Hout Hp).
Qed.
Print Assumptions combine_sound.
