(** C04 -- path combination is ordered, duplicate-free, loop-free; metadata is truthful.
    Property theorems only.  The statements are about [combine_paths], the model of
    sciparse::path::combinator::combine, for every hash function standing for SHA-256 and every
    HashMap iteration order (any function returning a permutation). *)
From Sci Require Import Combine.Model Combine.Spec Combine.Obs Combine.Proofs Combine.ProofsC19 Combine.ProofsC04 Combine.ProofsMeta Combine.ProofsPath Combine.ProofsWF Combine.SpecRules Combine.ProofsSound Combine.ProofsIfaces Combine.ProofsOrder Combine.ProofsComplete Combine.ProofsGraph Combine.ProofsPerm Combine.ProofsTies Combine.ProofsHops Combine.ProofsLoopfree Combine.ProofsSorted Combine.Enum Combine.ProofsEnum Combine.ProofsDecode Combine.ProofsReparse Combine.ProofsFp.
From Coq Require Import Permutation Sorted.
Local Open Scope N_scope.

(** Cheapest first.  [path_cost] is read off the returned path itself: hop fields minus
    segments, plus one for a peering crossing, i.e. the number of inter-AS links; the result
    list is sorted by it (non-decreasing).
    PARTIAL: the candidates (paths before duplicate filtering) are sorted unconditionally;
    for the final list the statement needs that two candidates with the same fingerprint have
    the same cost (filter_duplicates may overwrite an entry by a later candidate of the same
    fingerprint).  Missing clause: that hypothesis is not derived from well-formedness of the
    segments; the correspondence oracle [sorted_by_hops] checks the final order on every case. *)
Theorem combine_sorted_partial :
  forall Hid Hfp ord_v ord_e src dst cores non_cores out cand,
    order_ok ord_v ord_e ->
    combine_paths Hid Hfp ord_v ord_e src dst cores non_cores = Ok out ->
    candidate_paths Hid Hfp ord_v ord_e src dst cores non_cores = Ok cand ->
    (forall x y, In x cand -> In y cand -> sp_fp x = sp_fp y -> path_cost x = path_cost y) ->
    StronglySorted N.le (map path_cost out).
Proof.
  intros Hid Hfp ord_v ord_e src dst cores non_cores out cand [Hv He] Hout Hcand Hcost.
  exact (proj2 (combine_sorted_and_loopfree _ _ _ _ _ _ _ _ _ Hv He Hout) cand Hcand Hcost).
Qed.
Print Assumptions combine_sorted_partial.

(** The hypothesis of [combine_sorted_partial] in decidable form: when the test
    [fp_cost_consistentb] succeeds on the candidates, the result is sorted by cost.  The
    correspondence driver evaluates this test on the model's candidates of every case (a
    failing test would be reported as a disagreement), so for every input explored the order
    of the result is covered without a hypothesis. *)
Theorem combine_sorted_checked :
  forall Hid Hfp ord_v ord_e src dst cores non_cores out cand,
    order_ok ord_v ord_e ->
    combine_paths Hid Hfp ord_v ord_e src dst cores non_cores = Ok out ->
    candidate_paths Hid Hfp ord_v ord_e src dst cores non_cores = Ok cand ->
    fp_cost_consistentb cand = true ->
    StronglySorted N.le (map path_cost out).
Proof.
  intros Hid Hfp ord_v ord_e src dst cores non_cores out cand Hord Hout Hcand Hb.
  apply (combine_sorted_partial Hid Hfp ord_v ord_e src dst cores non_cores out cand Hord Hout Hcand).
  intros x y Hx Hy Hfp'. unfold fp_cost_consistentb in Hb. rewrite forallb_forall in Hb. specialize (Hb x Hx).
  rewrite forallb_forall in Hb. specialize (Hb y Hy). apply orb_true_iff in Hb as [Hb|Hb].
  - apply negb_true_iff, N.eqb_neq in Hb. contradiction.
  - apply N.eqb_eq in Hb. exact Hb.
Qed.
Print Assumptions combine_sorted_checked.

(** "Fewest hops": for well-formed segments the cost the result is sorted by is the number of
    inter-AS links of the path -- the metadata interface list of every returned path has
    exactly two interfaces per unit of [path_cost] (so sorting by cost is sorting by the hop
    count a caller sees, the quantity the oracle [sorted_by_hops] checks on the implementation). *)
Theorem cost_is_link_count :
  forall Hid Hfp ord_v ord_e src dst cores non_cores out p m ifs,
    order_ok ord_v ord_e ->
    Forall wf_segment (cores ++ non_cores) ->
    combine_paths Hid Hfp ord_v ord_e src dst cores non_cores = Ok out -> In p out ->
    sp_meta p = Some m -> md_ifaces m = Some ifs ->
    N.of_nat (length ifs) = 2 * path_cost p.
Proof.
  intros Hid Hfp ord_v ord_e src dst cores non_cores out p m ifs [Hv He] Hwf Hout Hp Hm Hi.
  exact (combine_ifaces_twice_cost _ _ _ _ _ _ _ _ _ _ _ _ Hv He Hwf Hout Hp Hm Hi).
Qed.
Print Assumptions cost_is_link_count.

(** Cheapest first, without the hypothesis of [combine_sorted_partial]: for a well-formed
    segment set in which no peer hop field has the (ConsIngress, ConsEgress) pair of a regular
    hop field ([peer_sig_distinctb], a decidable condition on the INPUT that the correspondence
    evaluates on every well-formed case), and a fingerprint hash that is injective on the
    candidates of this call (equal fingerprints => equal hop-field interface sequences; the
    fingerprint hashes exactly source, destination and that sequence), the returned list is
    sorted by cost -- which by [cost_is_link_count] is the number of inter-AS links, half the
    interface count.  Reason: a well-formed use of a segment contributes exactly one hop field
    with ConsEgress = 0 (its leaf), so the interface sequence determines the number of segments,
    the number of hop fields and whether a peer hop field occurs, hence the cost; a duplicate
    that replaces an entry therefore has the cost of the entry it replaces. *)
Theorem combine_sorted :
  forall Hid Hfp ord_v ord_e src dst cores non_cores out cand,
    order_ok ord_v ord_e ->
    Forall wf_segment (cores ++ non_cores) -> peer_sig_distinctb (cores ++ non_cores) = true ->
    combine_paths Hid Hfp ord_v ord_e src dst cores non_cores = Ok out ->
    candidate_paths Hid Hfp ord_v ord_e src dst cores non_cores = Ok cand ->
    (forall x y, In x cand -> In y cand -> sp_fp x = sp_fp y -> hop_sigs x = hop_sigs y) ->
    StronglySorted N.le (map path_cost out).
Proof.
  intros Hid Hfp ord_v ord_e src dst cores non_cores out cand Hord Hwf Hd Hout Hcand Hinj.
  destruct (N.eq_dec src dst) as [E|Hne].
  - unfold combine_paths in Hout. rewrite (proj2 (N.eqb_eq src dst) E) in Hout. inversion Hout. constructor.
  - apply (combine_sorted_partial Hid Hfp ord_v ord_e src dst cores non_cores out cand Hord Hout Hcand).
    intros x y Hx Hy Hfp'. destruct Hord as [Hv He].
    exact (combine_fp_cost Hid Hfp ord_v ord_e src dst cores non_cores cand Hv He Hwf Hd Hne Hcand x y Hx Hy (Hinj x y Hx Hy Hfp')).
Qed.
Print Assumptions combine_sorted.

(** [combine_sorted] with the hypothesis on the hash in its literal form: the fingerprint hash
    [Hfp] (SHA-256 in the implementation) is injective on the byte strings hashed for the
    candidates of this call, and the fields of the input segments fit their Rust types (so the
    2-byte encodings of interface ids in the hashed string are faithful). *)
Theorem combine_sorted_injective :
  forall Hid Hfp ord_v ord_e src dst cores non_cores out cand,
    order_ok ord_v ord_e ->
    Forall wf_segment (cores ++ non_cores) -> peer_sig_distinctb (cores ++ non_cores) = true ->
    Forall segment_typed (cores ++ non_cores) ->
    combine_paths Hid Hfp ord_v ord_e src dst cores non_cores = Ok out ->
    candidate_paths Hid Hfp ord_v ord_e src dst cores non_cores = Ok cand ->
    (forall x y, In x cand -> In y cand ->
       Hfp (fp_input (sp_src x) (sp_dst x) (sp_segs x)) = Hfp (fp_input (sp_src y) (sp_dst y) (sp_segs y)) ->
       fp_input (sp_src x) (sp_dst x) (sp_segs x) = fp_input (sp_src y) (sp_dst y) (sp_segs y)) ->
    StronglySorted N.le (map path_cost out).
Proof.
  intros Hid Hfp ord_v ord_e src dst cores non_cores out cand Hord Hwf Hd Hty Hout Hcand Hinj.
  apply (combine_sorted Hid Hfp ord_v ord_e src dst cores non_cores out cand Hord Hwf Hd Hout Hcand).
  destruct Hord as [Hv He].
  exact (candidates_faithful Hid Hfp ord_v ord_e src dst cores non_cores cand Hv He Hty Hcand Hinj).
Qed.
Print Assumptions combine_sorted_injective.

(** Each route once: no two returned paths have the same source, destination and sequence of
    hop-field (ConsIngress, ConsEgress) pairs.  Holds for every input and every hash function. *)
Theorem combine_nodup :
  forall Hid Hfp ord_v ord_e src dst cores non_cores out,
    order_ok ord_v ord_e ->
    combine_paths Hid Hfp ord_v ord_e src dst cores non_cores = Ok out ->
    NoDup (map (fun p => fp_input (sp_src p) (sp_dst p) (sp_segs p)) out).
Proof.
  intros Hid Hfp ord_v ord_e src dst cores non_cores out [Hv He] Hout.
  exact (combine_nodup_routes _ _ _ _ _ _ _ _ _ Hv He Hout).
Qed.
Print Assumptions combine_nodup.

(** No returned path visits an AS twice: no AS owns more than two interfaces of the
    metadata interface list (one to enter, one to leave). *)
Theorem no_loops :
  forall Hid Hfp ord_v ord_e src dst cores non_cores out p m ifs,
    order_ok ord_v ord_e ->
    combine_paths Hid Hfp ord_v ord_e src dst cores non_cores = Ok out -> In p out ->
    sp_meta p = Some m -> md_ifaces m = Some ifs ->
    forall ia, (count_ia ia ifs <= 2)%nat.
Proof.
  intros Hid Hfp ord_v ord_e src dst cores non_cores out p m ifs [Hv He] Hout Hp Hm Hi ia.
  pose proof (proj1 (combine_sorted_and_loopfree _ _ _ _ _ _ _ _ _ Hv He Hout)) as Hl.
  rewrite Forall_forall in Hl. specialize (Hl p Hp). unfold has_loops in Hl. rewrite Hm, Hi in Hl.
  injection Hl as Hl. destruct (Nat.leb_spec (count_ia ia ifs) 2) as [H|H]; [exact H|exfalso].
  assert (Hex : exists i, In i ifs /\ fst i = ia).
  { unfold count_ia in H. destruct (filter (fun i => fst i =? ia) ifs) as [|i r] eqn:E; [cbn in H; inversion H|].
    assert (Hi' : In i (filter (fun i => fst i =? ia) ifs)) by (rewrite E; left; reflexivity).
    apply filter_In in Hi' as [A B]. apply N.eqb_eq in B. eauto. }
  destruct Hex as (i & Hin & <-).
  assert (existsb (fun i0 => (2 <? count_ia (fst i0) ifs)%nat) ifs = true).
  { apply existsb_exists. exists i. split; [exact Hin|]. apply Nat.ltb_lt. exact H. }
  congruence.
Qed.
Print Assumptions no_loops.

(** The expiry is the earliest hop expiry: both ScionPath::expiration() and
    metadata.expiration equal the minimum, over all hop fields encoded in the path, of
    timestamp + (ExpTime + 1) * 337.5 s (saturating at 2^32-1) as defined by the SCION
    specification ([Spec.earliest_expiry], stated on the observable path).  The hypothesis
    says the hop fields' ExpTime values are bytes (the Rust type u8). *)
Theorem expiry_is_min :
  forall Hid Hfp ord_v ord_e src dst cores non_cores out p,
    order_ok ord_v ord_e ->
    combine_paths Hid Hfp ord_v ord_e src dst cores non_cores = Ok out -> In p out ->
    Forall (fun s => Forall (fun h => hf_exp h < 256) (ds_hops s)) (sp_segs p) ->
    o_mexp (obs_path p) = Spec.earliest_expiry (obs_path p)
    /\ o_exp (obs_path p) = Spec.earliest_expiry (obs_path p).
Proof.
  intros Hid Hfp ord_v ord_e src dst cores non_cores out p [Hv He] Hout Hp Ht.
  pose proof (combine_outputs_shape _ _ _ _ _ _ _ _ _ Hv He Hout) as Hs. rewrite Forall_forall in Hs.
  exact (shape_expiry Hfp p (Hs p Hp) Ht).
Qed.
Print Assumptions expiry_is_min.

(** Source and destination match the request: for well-formed segments (at least two AS
    entries, no AS twice, interface ids zero exactly at the two ends, peer hop fields with a
    non-zero peering interface and the entry's egress) every returned path starts in [src] and
    ends in [dst]. *)
Theorem endpoints_match :
  forall Hid Hfp ord_v ord_e src dst cores non_cores out p,
    order_ok ord_v ord_e ->
    Forall wf_segment (cores ++ non_cores) ->
    combine_paths Hid Hfp ord_v ord_e src dst cores non_cores = Ok out -> In p out ->
    sp_src p = src /\ sp_dst p = dst.
Proof.
  intros Hid Hfp ord_v ord_e src dst cores non_cores out p [Hv He] Hwf Hout Hp.
  pose proof (combine_endpoints _ _ _ _ _ _ _ _ _ Hv He Hwf Hout) as H. rewrite Forall_forall in H. exact (H p Hp).
Qed.
Print Assumptions endpoints_match.

(** The MTU is the minimum over traversed ASes and links: every returned path was built from
    a search solution, and its metadata MTU is the minimum of 65535 and the values
    [edge_mtus] lists for the traversed entries of each used segment -- the AS-internal MTU
    (saturated at 65535) of every traversed AS entry, the ingress-link MTU of every entry entered over
    its construction-ingress link (not at a shortcut entry, not when 0), and the peering-link
    MTU at a peering crossing.  The metadata interface list and the encoded hop fields are
    the concatenation of the per-edge lists. *)
Theorem mtu_is_min :
  forall Hid Hfp ord_v ord_e src dst cores non_cores out p m,
    order_ok ord_v ord_e ->
    combine_paths Hid Hfp ord_v ord_e src dst cores non_cores = Ok out -> In p out ->
    sp_meta p = Some m ->
    exists g sol,
      add_segments [] (input_segments Hid cores non_cores) = Ok g
      /\ In sol (get_paths ord_v ord_e g src dst) /\ sol_path Hfp sol = Ok (Some p)
      /\ let l := flat_map edge_mtus (so_edges sol) in
         md_mtu m <= 65535 /\ (forall x, In x l -> md_mtu m <= x) /\ (md_mtu m = 65535 \/ In (md_mtu m) l)
         /\ md_ifaces m = Some (flat_map edge_ifs (so_edges sol))
         /\ map ds_hops (sp_segs p) = map edge_hops (so_edges sol).
Proof.
  intros Hid Hfp ord_v ord_e src dst cores non_cores out p m [Hv He] Hout Hp Hm.
  destruct (combine_solution_of _ _ _ _ _ _ _ _ _ _ Hv He Hout Hp) as (g & sol & Hg & Hs & Hsp).
  exists g, sol. split; [exact Hg|]. split; [exact Hs|]. split; [exact Hsp|].
  destruct (sol_path_mtu _ _ _ _ Hsp Hm) as (A & B & C). cbn zeta.
  destruct (fold_min_spec (flat_map edge_mtus (so_edges sol)) 65535) as (X & Y & Z). rewrite <- A in X, Y, Z. auto 10.
Qed.
Print Assumptions mtu_is_min.

(** Soundness: every returned path is a valid combination under the SCION rules of
    [SpecRules] (one to three segment uses taken from the given core / non-core lists, kinds
    in an allowed order, each use a suffix of its segment from a shortcut entry or through a
    peer entry, consecutive uses meeting at a common AS or across one peering link, from [src]
    to [dst]), and its data-plane path consists, use by use, of exactly the hop fields of
    that combination in travel order, with the segment's timestamp, the ConsDir flag of the
    travel direction and the Peering flag of a peering use.  For every input (no
    well-formedness hypothesis). *)
Theorem combine_sound :
  forall Hid Hfp ord_v ord_e src dst cores non_cores out p,
    order_ok ord_v ord_e ->
    combine_paths Hid Hfp ord_v ord_e src dst cores non_cores = Ok out -> In p out ->
    exists uses, ValidCombination cores non_cores src dst uses /\ Forall2 SegOfUse (sp_segs p) uses.
Proof.
  intros Hid Hfp ord_v ord_e src dst cores non_cores out p [Hv He] Hout Hp.
  exact (combine_sound_lemma _ _ _ _ _ _ _ _ _ _ Hv He Hout Hp).
Qed.
Print Assumptions combine_sound.

(** The interface list tells the truth about the hop fields: for well-formed segments the
    metadata interface ids of every returned path are exactly [Spec.path_ifaces] of the
    encoded path -- for every hop field its travel ingress then travel egress (by ConsDir),
    interface 0 meaning "none", the outer side of the first and last hop field of a segment
    not crossed except across a peering link -- in travel order. *)
Theorem ifaces_match_hopfields :
  forall Hid Hfp ord_v ord_e src dst cores non_cores out p,
    order_ok ord_v ord_e ->
    Forall wf_segment (cores ++ non_cores) ->
    combine_paths Hid Hfp ord_v ord_e src dst cores non_cores = Ok out -> In p out ->
    ifaces_truthful (obs_path p) = true.
Proof.
  intros Hid Hfp ord_v ord_e src dst cores non_cores out p [Hv He] Hwf Hout Hp.
  pose proof (combine_ifaces_truthful _ _ _ _ _ _ _ _ _ Hv He Hwf Hout) as H. rewrite Forall_forall in H. exact (H p Hp).
Qed.
Print Assumptions ifaces_match_hopfields.

(** Non-vacuity: a well-formed segment set (core AS 1 with children 2 and 3) for which the
    model returns the path 2 -> 1 -> 3, so the hypotheses of the theorems above are satisfiable
    together with a non-empty result. *)
Example c04_nonvacuous :
  let up := mkSeg 1700000000 7 [mkAE 1 2 1400 0 (mkHF 63 0 1 11) []; mkAE 2 0 1400 1400 (mkHF 63 1 0 12) []] in
  let down := mkSeg 1700000000 9 [mkAE 1 3 1400 0 (mkHF 63 0 2 13) []; mkAE 3 0 1400 1400 (mkHF 63 1 0 14) []] in
  Forall wf_segment ([] ++ [up; down])
  /\ exists p, combine_paths (be_val 0) (be_val 0) (fun _ l => l) (fun _ _ l => l) 2 3 [] [up; down] = Ok [p]
               /\ md_ifaces (odefault (mkMeta 0 0 None) (sp_meta p)) = Some [(2, 1); (1, 1); (1, 2); (3, 1)].
Proof.
  cbv zeta. split.
  - cbn [app]. constructor; [apply wf_segb_sound; vm_compute; reflexivity|].
    constructor; [apply wf_segb_sound; vm_compute; reflexivity|constructor].
  - eexists; split; vm_compute; reflexivity.
Qed.

(** Independence of HashMap iteration order: whenever no two distinct search solutions have the
    same sort key (cost, number of edges, and per edge: peer index, shortcut index, SegmentID
    -- [NoTies], stated on the solutions found with the insertion-order iteration), the result
    of [combine] is the same for EVERY iteration order of the two HashMap levels.  This is what
    the correspondence relies on when it runs the model with insertion order against an
    implementation whose HashMaps are randomly seeded.  (Invariance under permutation and
    duplication of the input lists is [combine_perm] below.) *)
Theorem combine_order_irrelevant :
  forall Hid Hfp ord_v ord_e src dst cores non_cores g,
    order_ok ord_v ord_e ->
    add_segments [] (input_segments Hid cores non_cores) = Ok g ->
    NoTies (bfs ord_id_v ord_id_e g dst 4 [sol_new (VAS src)]) ->
    combine_paths Hid Hfp ord_v ord_e src dst cores non_cores
    = combine_paths Hid Hfp ord_id_v ord_id_e src dst cores non_cores.
Proof.
  intros Hid Hfp ord_v ord_e src dst cores non_cores g [Hv He] Hg Hnt.
  exact (combine_order_irrelevant_lemma _ _ _ _ _ _ _ _ _ Hv He Hg Hnt).
Qed.
Print Assumptions combine_order_irrelevant.

(** Completeness: every combination allowed by the SCION rules of [SpecRules] is represented
    in the result.  For well-formed segments (as above, and the peer entries of an AS entry
    naming pairwise different peering links) and ANY valid combination [uses] from [src] to
    [dst] there is the corresponding chain of edges of the search graph (edge by edge: same
    segment, same shortcut and peer index); if the path of that chain is produced at all (it
    encodes: at most 63 hop fields per segment and 984 bytes; its interface list is non-empty
    and even) then it consists, use by use, of exactly the hop fields of the combination, and
    if it is loop-free (no AS with more than two interfaces) the result contains a path with
    the same fingerprint (same source, destination and hop-field interface sequence) whose
    expiry is at least as late.  (Loop-freeness of the path is what guarantees that the
    combination does not pass through the destination early, the one situation in which the
    search does not extend a partial solution.) *)
Theorem combine_complete :
  forall Hid Hfp ord_v ord_e src dst cores non_cores out uses,
    order_ok ord_v ord_e ->
    wf_input cores non_cores ->
    combine_paths Hid Hfp ord_v ord_e src dst cores non_cores = Ok out -> src <> dst ->
    ValidCombination cores non_cores src dst uses ->
    exists l,
      Forall2 (EdgeOfUse Hid) l uses
      /\ forall p, sol_path Hfp (mkSol l (VAS dst) (edges_weight l)) = Ok (Some p) ->
           Forall2 SegOfUse (sp_segs p) uses
           /\ (has_loops p = Ok false ->
               exists q, In q out /\ sp_fp q = sp_fp p /\ path_expiration p <= path_expiration q).
Proof.
  intros Hid Hfp ord_v ord_e src dst cores non_cores out uses [Hv He] Hwf Hout Hne Hvc.
  exact (combine_complete_loopfree_lemma _ _ _ _ _ _ _ _ _ _ Hv He Hwf Hout Hne Hvc).
Qed.
Print Assumptions combine_complete.

(** Duplicate filtering keeps the latest expiry: every path produced before duplicate
    filtering is represented in the result by a path with the same fingerprint whose expiry
    is at least as late.  For every input (with src <> dst; for src = dst the result is
    empty by definition). *)
Theorem dedup_keeps_latest_expiry :
  forall Hid Hfp ord_v ord_e src dst cores non_cores out cand p,
    src <> dst ->
    combine_paths Hid Hfp ord_v ord_e src dst cores non_cores = Ok out ->
    candidate_paths Hid Hfp ord_v ord_e src dst cores non_cores = Ok cand -> In p cand ->
    exists q, In q out /\ sp_fp q = sp_fp p /\ path_expiration p <= path_expiration q.
Proof.
  intros Hid Hfp ord_v ord_e src dst cores non_cores out cand p Hne Hout Hcand Hp.
  destruct (combine_stages _ _ _ _ _ _ _ _ _ Hout) as [[E _]|(g & cand' & _ & _ & _ & Hc' & _ & Hf)];
    [apply N.eqb_eq in E; contradiction|].
  rewrite Hcand in Hc'. inversion Hc'; subst cand'.
  exact (filter_duplicates_repr cand [] [] out DInv2_nil Hf p (or_intror Hp)).
Qed.
Print Assumptions dedup_keeps_latest_expiry.

(** Invariance under reordering and duplication of the input lists: two calls whose core
    lists contain the same segments and whose non-core lists contain the same segments (in any
    order, any multiplicity), on well-formed segments, return the same list -- for any two
    HashMap iteration orders -- provided no two distinct search solutions tie under the sort
    key ([NoTies]; segments with identical hop sequences but different timestamps do tie, and
    for them the implementation's result does depend on HashMap order, see the manifest). *)
Theorem combine_perm :
  forall Hid Hfp ov oe ov' oe' src dst cores non_cores cores' non_cores',
    order_ok ov oe -> order_ok ov' oe' ->
    wf_input cores non_cores -> wf_input cores' non_cores' ->
    (forall s, In s cores <-> In s cores') -> (forall s, In s non_cores <-> In s non_cores') ->
    NoTies (bfs ord_id_v ord_id_e (graph_of (input_segments Hid cores non_cores)) dst 4 [sol_new (VAS src)]) ->
    combine_paths Hid Hfp ov oe src dst cores non_cores = combine_paths Hid Hfp ov' oe' src dst cores' non_cores'.
Proof.
  intros Hid Hfp ov oe ov' oe' src dst cores non_cores cores' non_cores' [Hv He] [Hv' He'] W W' Sc Sn Hnt.
  exact (combine_perm_lemma _ _ _ _ _ _ _ _ _ _ _ _ Hv He Hv' He' W W' Sc Sn Hnt).
Qed.
Print Assumptions combine_perm.

(** The [NoTies] hypothesis of [combine_perm] / [combine_order_irrelevant] is decidable: it
    holds whenever no two neighbours of the sorted solution list compare Equal -- the very test
    ([adjacent_ties]) the correspondence driver evaluates on every case to decide between
    exact and route-set comparison. *)
Theorem tie_test_sound :
  forall L src dst,
    adjacent_ties (get_paths ord_id_v ord_id_e (graph_of L) src dst) = false ->
    NoTies (bfs ord_id_v ord_id_e (graph_of L) dst 4 [sol_new (VAS src)]).
Proof.
  intros L src dst H. apply no_adjacent_ties_noties; [apply KInv_graph_of'|exact H].
Qed.
Print Assumptions tie_test_sound.

(** Non-vacuity of [combine_sound] / [combine_complete]: the combination "up-segment from AS 2
    to the core AS 1, down-segment from AS 1 to AS 3" is a [ValidCombination] of the example
    segment set above. *)
Example valid_combination_example :
  let up := mkSeg 1700000000 7 [mkAE 1 2 1400 0 (mkHF 63 0 1 11) []; mkAE 2 0 1400 1400 (mkHF 63 1 0 12) []] in
  let down := mkSeg 1700000000 9 [mkAE 1 3 1400 0 (mkHF 63 0 2 13) []; mkAE 3 0 1400 1400 (mkHF 63 1 0 14) []] in
  ValidCombination [] [up; down] 2 3 [mkUse NonCore up 0 None Against; mkUse NonCore down 0 None Along].
Proof.
  cbv zeta. split; [cbn; auto|]. split.
  - constructor; [cbn; auto|constructor; [cbn; auto|constructor]].
  - cbn [Chained]. exists (JAS 1). split.
    + eexists 2, _. split; [reflexivity|]. split; [reflexivity|]. cbn. repeat split; auto; discriminate.
    + exists (JAS 3). split; [|reflexivity].
      eexists 3, _. split; [reflexivity|]. split; [reflexivity|]. cbn. repeat split; auto; discriminate.
Qed.

(** Non-vacuity of [combine_sorted]: a peering topology (core 1; children 2, 3; 4 below 2 and
    below 1; peering 2--3) whose segment set satisfies all hypotheses, with the structural hash,
    for the request 2 -> 4 (a peering route and a core route of equal cost, and a longer one). *)
Example combine_sorted_example :
  let s12 := mkSeg 1700000000 1 [mkAE 1 2 1400 0 (mkHF 63 0 11 1) []; mkAE 2 0 1400 1300 (mkHF 63 21 0 2) [mkPE 3 31 1250 (mkHF 60 25 0 3)]] in
  let s134 := mkSeg 1700000000 2 [mkAE 1 3 1400 0 (mkHF 63 0 12 4) []; mkAE 3 4 1400 1300 (mkHF 63 32 33 5) [mkPE 2 25 1250 (mkHF 60 31 33 6)];
                                  mkAE 4 0 1400 1300 (mkHF 63 41 0 7) []] in
  let s14 := mkSeg 1700000000 3 [mkAE 1 4 1400 0 (mkHF 63 0 13 8) []; mkAE 4 0 1400 1300 (mkHF 63 42 0 9) []] in
  let ncs := [s12; s134; s14] in
  Forall wf_segment ([] ++ ncs) /\ peer_sig_distinctb ([] ++ ncs) = true
  /\ exists cand out,
       candidate_paths (be_val 0) (be_val 0) (fun _ l => l) (fun _ _ l => l) 2 4 [] ncs = Ok cand
       /\ fp_faithfulb cand = true
       /\ combine_paths (be_val 0) (be_val 0) (fun _ l => l) (fun _ _ l => l) 2 4 [] ncs = Ok out
       /\ map path_cost out = [2; 2; 3].
Proof.
  cbv zeta. split; [|split].
  - cbn [app]. constructor; [apply wf_segb_sound; vm_compute; reflexivity|].
    constructor; [apply wf_segb_sound; vm_compute; reflexivity|].
    constructor; [apply wf_segb_sound; vm_compute; reflexivity|constructor].
  - vm_compute. reflexivity.
  - eexists _, _. split; [vm_compute; reflexivity|]. split; [vm_compute; reflexivity|]. split; vm_compute; reflexivity.
Qed.

(** The executable enumerator of [Enum.v] -- the oracle the correspondence evaluates against
    the implementation's output -- lists only valid combinations ... *)
Theorem enum_sound :
  forall cores non_cores src dst us,
    In us (combinations cores non_cores src dst) -> ValidCombination cores non_cores src dst us.
Proof. exact enum_sound_lemma. Qed.
Print Assumptions enum_sound.

(** ... and lists every valid combination that does not pass through the destination early
    (those that do have a loop, see [combine_complete]). *)
Theorem enum_complete :
  forall cores non_cores src dst us,
    ValidCombination cores non_cores src dst us -> NoEarlyDst dst us ->
    In us (combinations cores non_cores src dst).
Proof. exact enum_complete_lemma. Qed.
Print Assumptions enum_complete.

(** Completeness with exact membership: as [combine_complete], and where the path of the
    combination has no duplicate among the candidates (no other candidate with its
    fingerprint) the path ITSELF is in the result. *)
Theorem combine_complete_exact :
  forall Hid Hfp ord_v ord_e src dst cores non_cores out cand uses,
    order_ok ord_v ord_e ->
    wf_input cores non_cores ->
    combine_paths Hid Hfp ord_v ord_e src dst cores non_cores = Ok out -> src <> dst ->
    candidate_paths Hid Hfp ord_v ord_e src dst cores non_cores = Ok cand ->
    ValidCombination cores non_cores src dst uses ->
    exists l,
      Forall2 (EdgeOfUse Hid) l uses
      /\ forall p, sol_path Hfp (mkSol l (VAS dst) (edges_weight l)) = Ok (Some p) -> has_loops p = Ok false ->
           Forall2 SegOfUse (sp_segs p) uses
           /\ ((forall c, In c cand -> sp_fp c = sp_fp p -> c = p) -> In p out).
Proof.
  intros Hid Hfp ord_v ord_e src dst cores non_cores out cand uses Hord Hwf Hout Hne Hcand Hvc.
  destruct (combine_complete Hid Hfp ord_v ord_e src dst cores non_cores out uses Hord Hwf Hout Hne Hvc) as (l & H2 & Hl).
  exists l. split; [exact H2|]. intros p Hsp Hloop. destruct (Hl p Hsp) as [Hseg Hq]. split; [exact Hseg|].
  intros Huniq. destruct (Hq Hloop) as (q & Hqo & Hfq & _).
  destruct (combine_stages _ _ _ _ _ _ _ _ _ Hout) as [[E _]|(g & cand' & _ & _ & _ & Hc' & _ & Hf)];
    [apply N.eqb_eq in E; contradiction|].
  rewrite Hcand in Hc'. inversion Hc'; subst cand'.
  destruct (filter_duplicates_In _ _ _ _ _ Hf Hqo) as [[]|Hqc].
  rewrite <- (Huniq q Hqc Hfq). exact Hqo.
Qed.
Print Assumptions combine_complete_exact.

(** Tie between the enumeration oracle and the theorems: every combination the enumerator
    lists for a well-formed input is represented in the result exactly as [combine_complete]
    says (its chain of graph edges exists; its path, if produced and loop-free, is in the
    result up to a duplicate of the same fingerprint with an expiry at least as late). *)
Theorem enumerated_combinations_are_returned :
  forall Hid Hfp ord_v ord_e src dst cores non_cores out us,
    order_ok ord_v ord_e ->
    wf_input cores non_cores ->
    combine_paths Hid Hfp ord_v ord_e src dst cores non_cores = Ok out -> src <> dst ->
    In us (combinations cores non_cores src dst) ->
    exists l,
      Forall2 (EdgeOfUse Hid) l us
      /\ forall p, sol_path Hfp (mkSol l (VAS dst) (edges_weight l)) = Ok (Some p) ->
           Forall2 SegOfUse (sp_segs p) us
           /\ (has_loops p = Ok false ->
               exists q, In q out /\ sp_fp q = sp_fp p /\ path_expiration p <= path_expiration q).
Proof.
  intros Hid Hfp ord_v ord_e src dst cores non_cores out us Hord Hwf Hout Hne Hin.
  exact (combine_complete Hid Hfp ord_v ord_e src dst cores non_cores out us Hord Hwf Hout Hne (enum_sound_lemma _ _ _ _ _ Hin)).
Qed.
Print Assumptions enumerated_combinations_are_returned.

(** ... and conversely every returned path IS one of the combinations the enumerator lists
    (for every input): its data-plane path consists, use by use, of the hop fields, timestamp
    and flags of an enumerated combination.  Together with
    [enumerated_combinations_are_returned], [combine_nodup] and [combine_sorted] this
    identifies the result, for well-formed input, with the cost-sorted duplicate-free list of
    the enumerated combinations whose paths are produced and loop-free -- the statement the
    executable oracle [Enum.enum_ok] checks on the implementation's output.
    (Remaining gap, checked by the correspondence only: that [Enum.comb_usable], the
    enumerator's own executable test for "encodes, non-empty even interface list, loop-free",
    coincides with [sol_path] producing a loop-free path.) *)
Theorem returned_paths_are_enumerated :
  forall Hid Hfp ord_v ord_e src dst cores non_cores out p,
    order_ok ord_v ord_e ->
    combine_paths Hid Hfp ord_v ord_e src dst cores non_cores = Ok out -> In p out ->
    exists us, In us (combinations cores non_cores src dst) /\ Forall2 SegOfUse (sp_segs p) us.
Proof.
  intros Hid Hfp ord_v ord_e src dst cores non_cores out p [Hv He] Hout Hp.
  exact (returned_path_enumerated Hid Hfp ord_v ord_e src dst cores non_cores out p Hv He Hout Hp).
Qed.
Print Assumptions returned_paths_are_enumerated.

(** De-duplication keeps the LATEST expiry, as an equation: every returned path is one of the
    candidates, and its expiry is the maximum over all candidates with its fingerprint (no
    candidate of the same fingerprint expires later).  For every input, whatever the order in
    which the duplicates arrive.  The correspondence evaluates the same statement on the
    implementation's output ([Enum.expiry_max_ok], over repeated calls). *)
Theorem dedup_expiry_is_max :
  forall Hid Hfp ord_v ord_e src dst cores non_cores out cand q,
    src <> dst ->
    combine_paths Hid Hfp ord_v ord_e src dst cores non_cores = Ok out ->
    candidate_paths Hid Hfp ord_v ord_e src dst cores non_cores = Ok cand -> In q out ->
    In q cand /\ forall p, In p cand -> sp_fp p = sp_fp q -> path_expiration p <= path_expiration q.
Proof.
  intros Hid Hfp ord_v ord_e src dst cores non_cores out cand q Hne Hout Hcand Hq.
  destruct (combine_stages _ _ _ _ _ _ _ _ _ Hout) as [[E _]|(g & cand' & _ & _ & _ & Hc' & _ & Hf)];
    [apply N.eqb_eq in E; contradiction|].
  rewrite Hcand in Hc'. inversion Hc'; subst cand'.
  split; [destruct (filter_duplicates_In _ _ _ _ _ Hf Hq) as [[]|H]; exact H|].
  intros p Hp Hfp'.
  destruct (filter_duplicates_repr cand [] [] out DInv2_nil Hf p (or_intror Hp)) as (q' & Hq' & Hfq' & Hle).
  pose proof (filter_duplicates_nodup _ _ _ _ DInv_nil Hf) as Hnd.
  assert (q' = q).
  { clear -Hnd Hq Hq' Hfq' Hfp'. induction out as [|x out IH]; [destruct Hq|]. cbn [map] in Hnd. inversion Hnd as [|? ? Hx Hnd']; subst.
    destruct Hq as [->|Hq], Hq' as [->|Hq']; auto.
    - exfalso. apply Hx. apply in_map_iff. exists q'. split; [congruence|exact Hq'].
    - exfalso. apply Hx. apply in_map_iff. exists q. split; [congruence|exact Hq]. }
  subst q'. exact Hle.
Qed.
Print Assumptions dedup_expiry_is_max.
