(** C04 completeness, part 1: every chain of graph edges that obeys the kind rule and does not
    pass through the destination early is found by the search, and its path -- unless dropped
    by the encoder, the interface check or the loop filter -- is represented in the result by
    a path of the same fingerprint whose expiry is at least as late. *)
From Sci Require Import Combine.Model Combine.Proofs Combine.ProofsEnc Combine.ProofsC19 Combine.ProofsBound Combine.ProofsC04
  Combine.ProofsPath Combine.ProofsWF Common.ListAux.
From Coq Require Import Lia ZifyBool ZifyNat ZifyN Permutation.
Local Open Scope N_scope.

(** * lookup of an edge by its key *)
Definition glookup (g : graph) (a b : vertex) (s : iseg) : option edge :=
  match aget vertex_eqb a g with
  | Some vi => match aget vertex_eqb b vi with Some em => aget iseg_eqb s em | None => None end
  | None => None
  end.

Section Search.
Variable ord_v : vertex -> vinfo -> vinfo.
Variable ord_e : vertex -> vertex -> emap -> emap.
Hypothesis ord_v_perm : forall v l, Permutation (ord_v v l) l.
Hypothesis ord_e_perm : forall v w l, Permutation (ord_e v w l) l.

Lemma glookup_candidates g sol b s e :
  glookup g (so_cur sol) b s = Some e -> In (mkSE e (so_cur sol) b s) (candidates ord_v ord_e g sol).
Proof.
  unfold glookup, candidates. destruct (aget vertex_eqb (so_cur sol) g) as [vi|]; [|discriminate].
  destruct (aget vertex_eqb b vi) as [em|] eqn:Eb; [|discriminate]. intros Es.
  apply aget_In in Eb as (b' & Hb & Eb'). apply vertex_eqb_eq in Eb'. subst b'.
  apply aget_In in Es as (s' & Hs & Es'). apply iseg_eqb_eq in Es'. subst s'.
  apply in_flat_map. exists (b, em). split; [eapply Permutation_in; [symmetry; apply ord_v_perm|exact Hb]|].
  apply in_map_iff. exists (s, e). split; [reflexivity|]. eapply Permutation_in; [symmetry; apply ord_e_perm|exact Hs].
Qed.

Definition child (p : solution) (c : sedge) : solution :=
  mkSol (so_edges p ++ [c]) (se_dst c) (so_cost p + e_weight (se_edge c)).

Lemma child_in g dst p c :
  glookup g (so_cur p) (se_dst c) (se_seg c) = Some (se_edge c) -> se_src c = so_cur p ->
  valid_next_seg p (se_seg c) = true ->
  (se_dst c = VAS dst -> In (child p c) (snd (expand ord_v ord_e g dst p)))
  /\ (se_dst c <> VAS dst -> In (child p c) (fst (expand ord_v ord_e g dst p))).
Proof.
  intros Hl Hs Hv. apply glookup_candidates in Hl.
  assert (Hc : mkSE (se_edge c) (so_cur p) (se_dst c) (se_seg c) = c) by (destruct c; cbn in *; subst; reflexivity).
  rewrite Hc in Hl.
  assert (Hn : In (child p c) (news ord_v ord_e g p)).
  { unfold news. apply in_flat_map. exists c. split; [exact Hl|]. unfold try_add_edge. rewrite Hv. cbn. left; reflexivity. }
  unfold expand; cbn [fst snd]. fold (news ord_v ord_e g p). split; intros Hd; apply filter_In; (split; [exact Hn|]); cbn [child so_cur].
  - rewrite Hd. apply vertex_eqb_refl.
  - apply negb_true_iff. destruct (vertex_eqb (se_dst c) (VAS dst)) eqn:E; [|reflexivity]. apply vertex_eqb_eq in E. contradiction.
Qed.

Definition next_queue (g : graph) (dst : N) (q : list solution) : list solution :=
  flat_map fst (map (expand ord_v ord_e g dst) q).
Fixpoint queue_at (g : graph) (dst : N) (k : nat) (q : list solution) : list solution :=
  match k with O => q | S k' => queue_at g dst k' (next_queue g dst q) end.

Lemma bfs_found g dst : forall k fuel q p s,
  (k < fuel)%nat -> In p (queue_at g dst k q) -> In s (snd (expand ord_v ord_e g dst p)) ->
  In s (bfs ord_v ord_e g dst fuel q).
Proof.
  induction k as [|k IH]; intros fuel q p s Hk Hp Hs; destruct fuel as [|f]; try lia; cbn [bfs queue_at] in *.
  - apply in_or_app. left. apply in_flat_map. exists (expand ord_v ord_e g dst p). split; [apply in_map; exact Hp|exact Hs].
  - apply in_or_app. right. eapply IH; [|exact Hp|exact Hs]. lia.
Qed.

Lemma queue_step g dst k q p s :
  In p (queue_at g dst k q) -> In s (fst (expand ord_v ord_e g dst p)) -> In s (queue_at g dst (S k) q).
Proof.
  revert q; induction k as [|k IH]; intros q Hp Hs; cbn [queue_at] in *.
  - unfold next_queue. apply in_flat_map. exists (expand ord_v ord_e g dst p). split; [apply in_map; exact Hp|exact Hs].
  - apply IH; assumption.
Qed.

(** a chain of at most three graph edges, obeying the kind rule, from [src] to [dst], whose
    intermediate vertices are not the destination *)
Definition GraphChain (g : graph) (src dst : N) (l : list sedge) : Prop :=
  (1 <= length l <= 3)%nat /\ chain_ok (VAS src) l /\ end_vertex (VAS src) l = VAS dst /\ kinds_ok l
  /\ Forall (fun c => glookup g (se_src c) (se_dst c) (se_seg c) = Some (se_edge c)) l
  /\ forall l1 c l2, l = l1 ++ c :: l2 -> l2 <> [] -> se_dst c <> VAS dst.

Lemma chain_found g src dst l :
  src <> dst -> GraphChain g src dst l ->
  In (mkSol l (VAS dst) (edges_weight l)) (bfs ord_v ord_e g dst 4 [sol_new (VAS src)]).
Proof.
  intros Hne (Hlen & Hc & Hend & Hk & Hl & Hearly).
  set (root := sol_new (VAS src)).
  assert (Hroot : In root (queue_at g dst 0 [root])) by (left; reflexivity).
  destruct l as [|c1 [|c2 [|c3 [|c4 r]]]]; cbn [length] in Hlen; try lia.
  - (* one edge *)
    cbn [chain_ok end_vertex] in Hc, Hend. destruct Hc as [Hs1 _]. inversion Hl as [|? ? L1 _]; subst.
    rewrite Hs1 in L1.
    destruct (child_in g dst root c1 L1 Hs1 eq_refl) as [Hfin _].
    apply (bfs_found g dst 0 4 [root] root); [lia|exact Hroot|].
    replace (mkSol [c1] (VAS dst) (edges_weight [c1])) with (child root c1); [apply Hfin; exact Hend|].
    unfold child, root, sol_new, edges_weight; cbn. rewrite Hend. f_equal. lia.
  - (* two edges *)
    cbn [chain_ok end_vertex] in Hc, Hend. destruct Hc as (Hs1 & Hs2 & _).
    inversion Hl as [|? ? L1 Hl']; subst. inversion Hl' as [|? ? L2 _]; subst.
    rewrite Hs1 in L1. rewrite Hs2 in L2.
    assert (Hd1 : se_dst c1 <> VAS dst) by (apply (Hearly [] c1 [c2]); [reflexivity|discriminate]).
    destruct (child_in g dst root c1 L1 Hs1 eq_refl) as [_ Hq1]. specialize (Hq1 Hd1).
    pose proof (queue_step g dst 0 [root] root _ Hroot Hq1) as Hin1.
    assert (Hv2 : valid_next_seg (child root c1) (se_seg c2) = true).
    { unfold valid_next_seg, child, root, sol_new; cbn. cbn [kinds_ok] in Hk. destruct Hk as [H|H]; rewrite H; [reflexivity|apply orb_true_r]. }
    destruct (child_in g dst (child root c1) c2 L2 Hs2 Hv2) as [Hfin _].
    apply (bfs_found g dst 1 4 [root] (child root c1)); [lia|exact Hin1|].
    replace (mkSol [c1; c2] (VAS dst) (edges_weight [c1; c2])) with (child (child root c1) c2); [apply Hfin; exact Hend|].
    unfold child, root, sol_new, edges_weight; cbn. rewrite Hend. f_equal. lia.
  - (* three edges *)
    cbn [chain_ok end_vertex] in Hc, Hend. destruct Hc as (Hs1 & Hs2 & Hs3 & _).
    inversion Hl as [|? ? L1 Hl']; subst. inversion Hl' as [|? ? L2 Hl'']; subst. inversion Hl'' as [|? ? L3 _]; subst.
    rewrite Hs1 in L1. rewrite Hs2 in L2. rewrite Hs3 in L3.
    assert (Hd1 : se_dst c1 <> VAS dst) by (apply (Hearly [] c1 [c2; c3]); [reflexivity|discriminate]).
    assert (Hd2 : se_dst c2 <> VAS dst) by (apply (Hearly [c1] c2 [c3]); [reflexivity|discriminate]).
    cbn [kinds_ok] in Hk. destruct Hk as (K1 & K2 & K3).
    destruct (child_in g dst root c1 L1 Hs1 eq_refl) as [_ Hq1]. specialize (Hq1 Hd1).
    pose proof (queue_step g dst 0 [root] root _ Hroot Hq1) as Hin1.
    assert (Hv2 : valid_next_seg (child root c1) (se_seg c2) = true).
    { unfold valid_next_seg, child, root, sol_new; cbn. rewrite K1. reflexivity. }
    destruct (child_in g dst (child root c1) c2 L2 Hs2 Hv2) as [_ Hq2]. specialize (Hq2 Hd2).
    pose proof (queue_step g dst 1 [root] _ _ Hin1 Hq2) as Hin2.
    assert (Hv3 : valid_next_seg (child (child root c1) c2) (se_seg c3) = true).
    { unfold valid_next_seg, child, root, sol_new; cbn. rewrite K1, K2, K3. reflexivity. }
    destruct (child_in g dst (child (child root c1) c2) c3 L3 Hs3 Hv3) as [Hfin _].
    apply (bfs_found g dst 2 4 [root] (child (child root c1) c2)); [lia|exact Hin2|].
    replace (mkSol [c1; c2; c3] (VAS dst) (edges_weight [c1; c2; c3])) with (child (child (child root c1) c2) c3);
      [apply Hfin; exact Hend|].
    unfold child, root, sol_new, edges_weight; cbn. rewrite Hend. f_equal. lia.
Qed.

Lemma chain_in_get_paths g src dst l :
  src <> dst -> GraphChain g src dst l ->
  In (mkSol l (VAS dst) (edges_weight l)) (get_paths ord_v ord_e g src dst).
Proof.
  intros Hne Hc. unfold get_paths. eapply Permutation_in; [symmetry; apply sort_by_perm|].
  apply chain_found; assumption.
Qed.
End Search.

(** * collect_paths keeps every solution's path unless it has loops *)
Lemma collect_paths_In Hfp sols : forall ps sol p,
  collect_paths Hfp sols = Ok ps -> In sol sols -> sol_path Hfp sol = Ok (Some p) -> has_loops p = Ok false -> In p ps.
Proof.
  induction sols as [|s r IH]; intros ps sol p; cbn [collect_paths]; [intros _ []|].
  intros H [->|Hin] Hsp Hl.
  - rewrite Hsp in H. apply bind_ok in H as (hl & Hhl & H). apply bind_ok in H as (rest & _ & H).
    rewrite Hl in Hhl. inversion Hhl; subst. inversion H; subst. left; reflexivity.
  - destruct (sol_path Hfp s) as [[p0|]| |]; try discriminate; try (eapply IH; eauto; fail).
    apply bind_ok in H as (hl & _ & H). apply bind_ok in H as (rest & Hrest & H). inversion H; subst.
    specialize (IH _ _ _ Hrest Hin Hsp Hl). destruct hl; [exact IH|right; exact IH].
Qed.

(** * get/set laws of the association lists *)
Section AList.
Context {K V : Type} (eqb : K -> K -> bool).
Hypothesis eqb_ok : forall a b, eqb a b = true <-> a = b.

Lemma aget_aupd_same k (f : option V -> V) l : aget eqb k (aupd eqb k f l) = Some (f (aget eqb k l)).
Proof.
  induction l as [|[k' v] l IH]; cbn [aupd aget].
  - rewrite (proj2 (eqb_ok k k) eq_refl). reflexivity.
  - destruct (eqb k' k) eqn:E; cbn [aget]; rewrite E; [reflexivity|exact IH].
Qed.
Lemma aget_aupd_other k k0 (f : option V -> V) l : k <> k0 -> aget eqb k (aupd eqb k0 f l) = aget eqb k l.
Proof.
  intros Hne. induction l as [|[k' v] l IH]; cbn [aupd aget].
  - destruct (eqb k0 k) eqn:E; [apply eqb_ok in E; congruence|reflexivity].
  - destruct (eqb k' k0) eqn:E0; cbn [aget].
    + apply eqb_ok in E0. subst k'. destruct (eqb k0 k) eqn:E; [apply eqb_ok in E; congruence|reflexivity].
    + destruct (eqb k' k); [reflexivity|exact IH].
Qed.
Lemma aget_app_one k k0 (v : V) l :
  aget eqb k (l ++ [(k0, v)]) = match aget eqb k l with Some x => Some x | None => if eqb k0 k then Some v else None end.
Proof.
  induction l as [|[k' v'] l IH]; cbn [app aget]; [reflexivity|]. destruct (eqb k' k); [reflexivity|exact IH].
Qed.
End AList.

Lemma N_eqb_ok a b : N.eqb a b = true <-> a = b.
Proof. apply N.eqb_eq. Qed.

(** * filter_duplicates keeps, for every fingerprint, a path with the latest expiry *)
Definition DInv2 (result : list spath) (uniq : list (N * (N * nat))) : Prop :=
  (forall y, In y result -> exists e i, aget N.eqb (sp_fp y) uniq = Some (e, i))
  /\ forall fp e i, aget N.eqb fp uniq = Some (e, i) ->
       exists y, nth_error result i = Some y /\ sp_fp y = fp /\ path_expiration y = e.

Lemma replace_nth_nth {A} (l : list A) n x l' :
  replace_nth n x l = Some l' -> nth_error l' n = Some x /\ forall j, j <> n -> nth_error l' j = nth_error l j.
Proof.
  revert n l'; induction l as [|y l IH]; intros n l'; cbn [replace_nth]; [destruct n; discriminate|].
  destruct n; cbn.
  - intros E; inversion E; subst. split; [reflexivity|]. intros [|j] Hj; [congruence|reflexivity].
  - destruct (replace_nth n x l) eqn:E; cbn; intros H; [|discriminate H]. inversion H; subst.
    destruct (IH _ _ E) as [HA HB]. split; [exact HA|]. intros [|j] Hj; [reflexivity|]. cbn. apply HB. congruence.
Qed.

Lemma filter_duplicates_repr paths : forall result uniq out,
  DInv2 result uniq -> filter_duplicates paths result uniq = Ok out ->
  forall p, In p result \/ In p paths ->
  exists q, In q out /\ sp_fp q = sp_fp p /\ path_expiration p <= path_expiration q.
Proof.
  induction paths as [|p0 r IH]; intros result uniq out (I1 & I3); cbn [filter_duplicates].
  - intros E p [Hp|[]]. inversion E; subst. exists p. split; [exact Hp|]. split; [reflexivity|lia].
  - destruct (aget N.eqb (sp_fp p0) uniq) as [[cur i]|] eqn:Eg.
    + destruct (I3 _ _ _ Eg) as (y & Hy & Hfy & Hey).
      destruct (cur <? path_expiration p0) eqn:Elt.
      * apply N.ltb_lt in Elt.
        destruct (replace_nth i p0 result) as [res'|] eqn:Er; [|discriminate]. intros H p Hp.
        destruct (replace_nth_nth _ _ _ _ Er) as [Hn1 Hn2].
        assert (HD : DInv2 res' (aupd N.eqb (sp_fp p0) (fun _ => (path_expiration p0, i)) uniq)).
        { split.
          - intros z Hz. destruct (N.eq_dec (sp_fp z) (sp_fp p0)) as [E|E].
            + rewrite E, (aget_aupd_same N.eqb N_eqb_ok). eauto.
            + rewrite (aget_aupd_other N.eqb N_eqb_ok) by exact E.
              destruct (replace_nth_In _ _ _ _ _ Er Hz) as [->|Hz']; [congruence|]. apply I1; exact Hz'.
          - intros fp e j Hj. destruct (N.eq_dec fp (sp_fp p0)) as [->|E].
            + rewrite (aget_aupd_same N.eqb N_eqb_ok) in Hj. inversion Hj; subst. exists p0. auto.
            + rewrite (aget_aupd_other N.eqb N_eqb_ok) in Hj by exact E.
              destruct (I3 _ _ _ Hj) as (z & Hz & Hfz & Hez). exists z. split; [|auto].
              rewrite Hn2; [exact Hz|]. intros ->. rewrite Hy in Hz. inversion Hz; subst z. congruence. }
        specialize (IH _ _ _ HD H).
        destruct Hp as [Hp|[->|Hp]].
        -- destruct (In_nth_error _ _ Hp) as (j & Hj). destruct (Nat.eq_dec j i) as [->|Hji].
           ++ rewrite Hy in Hj. inversion Hj; subst p.
              destruct (IH p0 (or_introl (nth_error_In _ _ Hn1))) as (q & Hq & Hfq & Heq).
              exists q. split; [exact Hq|]. split; [congruence|lia].
           ++ apply IH. left. eapply nth_error_In. rewrite (Hn2 j Hji). exact Hj.
        -- apply IH. left. eapply nth_error_In; exact Hn1.
        -- apply IH. right; exact Hp.
      * apply N.ltb_ge in Elt. intros H p Hp. specialize (IH _ _ _ (conj I1 I3) H).
        destruct Hp as [Hp|[->|Hp]]; [apply IH; left; exact Hp| |apply IH; right; exact Hp].
        destruct (IH y (or_introl (nth_error_In _ _ Hy))) as (q & Hq & Hfq & Heq).
        exists q. split; [exact Hq|]. split; [congruence|lia].
    + intros H p Hp.
      assert (HD : DInv2 (result ++ [p0]) (uniq ++ [(sp_fp p0, (path_expiration p0, length result))])).
      { split.
        - intros z Hz. rewrite (aget_app_one N.eqb). apply in_app_or in Hz as [Hz|[<-|[]]].
          + destruct (I1 z Hz) as (e & j & ->). eauto.
          + rewrite Eg, N.eqb_refl. eauto.
        - intros fp e j Hj. rewrite (aget_app_one N.eqb) in Hj. destruct (aget N.eqb fp uniq) as [[e' j']|] eqn:Eo.
          + inversion Hj; subst. destruct (I3 _ _ _ Eo) as (z & Hz & Hfz & Hez). exists z.
            rewrite nth_error_app1 by (eapply nth_error_lt; eauto). auto.
          + destruct (N.eqb_spec (sp_fp p0) fp) as [E|E]; [|discriminate]. inversion Hj; subst.
            exists p0. rewrite nth_error_app2, Nat.sub_diag by lia. auto. }
      specialize (IH _ _ _ HD H). destruct Hp as [Hp|[->|Hp]].
      * apply IH. left. apply in_or_app. left; exact Hp.
      * apply IH. left. apply in_or_app. right; left; reflexivity.
      * apply IH. right; exact Hp.
Qed.

Lemma DInv2_nil : DInv2 [] [].
Proof. split; [intros y []|]. intros fp e i H; discriminate. Qed.

Lemma combine_complete_graph Hid Hfp ord_v ord_e src dst cores non_cores out g l p :
  (forall v l, Permutation (ord_v v l) l) -> (forall v w l, Permutation (ord_e v w l) l) ->
  combine_paths Hid Hfp ord_v ord_e src dst cores non_cores = Ok out ->
  add_segments [] (input_segments Hid cores non_cores) = Ok g ->
  src <> dst -> GraphChain g src dst l ->
  sol_path Hfp (mkSol l (VAS dst) (edges_weight l)) = Ok (Some p) -> has_loops p = Ok false ->
  exists q, In q out /\ sp_fp q = sp_fp p /\ path_expiration p <= path_expiration q.
Proof.
  intros Hv He Hout Hg Hne Hc Hsp Hl.
  destruct (combine_stages _ _ _ _ _ _ _ _ _ Hout) as [[E _]|(g' & cand & _ & Hg' & _ & _ & Hcol & Hf)];
    [apply N.eqb_eq in E; contradiction|].
  rewrite Hg in Hg'. inversion Hg'; subst g'.
  pose proof (chain_in_get_paths ord_v ord_e Hv He g src dst l Hne Hc) as Hin.
  pose proof (collect_paths_In Hfp _ _ _ _ Hcol Hin Hsp Hl) as Hp.
  exact (filter_duplicates_repr cand [] [] out DInv2_nil Hf p (or_intror Hp)).
Qed.
