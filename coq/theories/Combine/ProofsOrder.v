(** The result of the search does not depend on HashMap iteration order (nor on anything else
    that only permutes the candidate edges of a vertex) as long as no two distinct solutions
    tie under the sort key. *)
From Sci Require Import Combine.Model Combine.Obs Combine.Proofs Combine.ProofsC19 Combine.ProofsBound Combine.ProofsC04 Common.ListAux.
From Coq Require Import Lia ZifyBool ZifyNat ZifyN Permutation Sorted ZArith.
Local Open Scope Z_scope.

(** * lexicographic order on lists of integers *)
Fixpoint lexZ (a b : list Z) : comparison :=
  match a, b with
  | [], [] => Eq
  | [], _ :: _ => Lt
  | _ :: _, [] => Gt
  | x :: a', y :: b' => match Z.compare x y with Eq => lexZ a' b' | c => c end
  end.

Lemma lexZ_eq a : forall b, lexZ a b = Eq -> a = b.
Proof.
  induction a as [|x a IH]; intros [|y b]; cbn; try discriminate; [reflexivity|].
  destruct (Z.compare_spec x y) as [E|E|E]; try discriminate. intros Hl. subst. f_equal. auto.
Qed.
Lemma lexZ_refl a : lexZ a a = Eq.
Proof. induction a as [|x a IH]; cbn; [reflexivity|]. rewrite Z.compare_refl. exact IH. Qed.
Lemma lexZ_opp a : forall b, lexZ b a = CompOpp (lexZ a b).
Proof.
  induction a as [|x a IH]; intros [|y b]; cbn; try reflexivity.
  rewrite (Z.compare_antisym x y). destruct (Z.compare x y); cbn; auto.
Qed.
Lemma lexZ_trans_le a : forall b c, lexZ a b <> Gt -> lexZ b c <> Gt -> lexZ a c <> Gt.
Proof.
  induction a as [|x a IH]; intros [|y b] [|z c]; cbn; try congruence.
  destruct (Z.compare_spec x y), (Z.compare_spec y z), (Z.compare_spec x z); try congruence; try lia; subst; eauto; try lia.
Qed.

(** * the sort key as an integer list *)
Definition peer_code (o : option nat) : Z := match o with None => 0 | Some x => Z.of_nat x + 1 end.
Definition sedge_key (e : sedge) : list Z :=
  [peer_code (e_peer (se_edge e)); - Z.of_nat (e_idx (se_edge e)); Z.of_N (is_id (se_seg e))].
Definition sol_key (s : solution) : list Z :=
  Z.of_N (so_cost s) :: Z.of_nat (length (so_edges s)) :: flat_map sedge_key (so_edges s).

Lemma cmp_opt_nat_code a b : cmp_opt_nat a b = Z.compare (peer_code a) (peer_code b).
Proof.
  destruct a as [x|], b as [y|]; cbn [cmp_opt_nat peer_code].
  - rewrite <- (Nat2Z.inj_compare x y). destruct (Z.compare_spec (Z.of_nat x) (Z.of_nat y)) as [E|E|E]; symmetry;
      [apply Z.compare_eq_iff|apply Z.compare_lt_iff|apply Z.compare_gt_iff]; lia.
  - symmetry. apply Z.compare_gt_iff. lia.
  - symmetry. apply Z.compare_lt_iff. lia.
  - reflexivity.
Qed.

Lemma lexZ_app3 x1 x2 x3 y1 y2 y3 a b :
  lexZ ([x1; x2; x3] ++ a) ([y1; y2; y3] ++ b) =
  cmp_then (Z.compare x1 y1) (cmp_then (Z.compare x2 y2) (cmp_then (Z.compare x3 y3) (lexZ a b))).
Proof. cbn. unfold cmp_then. destruct (x1 ?= y1), (x2 ?= y2), (x3 ?= y3); reflexivity. Qed.

Lemma cmp_edges_key a : forall b, length a = length b ->
  cmp_edges a b = lexZ (flat_map sedge_key a) (flat_map sedge_key b).
Proof.
  induction a as [|x a IH]; intros [|y b] H; cbn [length] in H; try discriminate; [reflexivity|].
  cbn [cmp_edges flat_map]. unfold sedge_key at 1 3. rewrite lexZ_app3. rewrite <- IH by lia.
  unfold cmp_sedge. rewrite cmp_opt_nat_code, <- Nat2Z.inj_compare, <- N2Z.inj_compare.
  rewrite Z.compare_opp. unfold cmp_then.
  destruct (peer_code (e_peer (se_edge x)) ?= peer_code (e_peer (se_edge y))); try reflexivity.
  destruct (Z.of_nat (e_idx (se_edge y)) ?= Z.of_nat (e_idx (se_edge x))); reflexivity.
Qed.

Lemma cmp_sol_key a b : cmp_sol a b = lexZ (sol_key a) (sol_key b).
Proof.
  unfold cmp_sol, sol_key. cbn [lexZ]. rewrite <- N2Z.inj_compare, <- Nat2Z.inj_compare. unfold cmp_then.
  destruct (Z.of_N (so_cost a) ?= Z.of_N (so_cost b)); try reflexivity.
  destruct (Z.compare_spec (Z.of_nat (length (so_edges a))) (Z.of_nat (length (so_edges b)))) as [E|E|E]; try reflexivity.
  apply cmp_edges_key. lia.
Qed.

(** * a stable sort by a key comparator returns the unique sorted arrangement when keys are
      pairwise distinct *)
Definition kle (a b : solution) : Prop := lexZ (sol_key a) (sol_key b) <> Gt.

Lemma insert_by_sorted x l : StronglySorted kle l -> StronglySorted kle (insert_by cmp_sol x l).
Proof.
  induction 1 as [|y r Hr IH Hy]; cbn [insert_by]; [repeat constructor|].
  destruct (cmp_sol x y) eqn:E; rewrite cmp_sol_key in E.
  - constructor; [constructor; assumption|]. constructor; [unfold kle; congruence|].
    eapply Forall_impl; [|exact Hy]. intros z Hz. unfold kle in *. eapply lexZ_trans_le; [|exact Hz]. congruence.
  - constructor; [constructor; assumption|]. constructor; [unfold kle; congruence|].
    eapply Forall_impl; [|exact Hy]. intros z Hz. unfold kle in *. eapply lexZ_trans_le; [|exact Hz]. congruence.
  - constructor; [exact IH|].
    eapply Permutation_Forall; [symmetry; apply insert_by_perm|]. constructor; [|exact Hy].
    unfold kle. rewrite lexZ_opp, E. discriminate.
Qed.
Lemma sort_by_sorted l : StronglySorted kle (sort_by cmp_sol l).
Proof. induction l as [|x l IH]; cbn; [constructor|]. apply insert_by_sorted; exact IH. Qed.

Definition NoTies (l : list solution) : Prop :=
  forall a b, In a l -> In b l -> sol_key a = sol_key b -> a = b.

Lemma sorted_perm_unique l1 : forall l2,
  NoTies l1 -> StronglySorted kle l1 -> StronglySorted kle l2 -> Permutation l1 l2 -> l1 = l2.
Proof.
  induction l1 as [|a r1 IH]; intros l2 Hnt S1 S2 Hp.
  - apply Permutation_nil in Hp. subst. reflexivity.
  - destruct l2 as [|b r2]; [apply Permutation_sym, Permutation_nil in Hp; discriminate|].
    inversion S1 as [|? ? S1' Ha]; subst. inversion S2 as [|? ? S2' Hb]; subst.
    assert (Hab : a = b).
    { assert (Hin_a : In a (b :: r2)) by (eapply Permutation_in; [exact Hp|left; reflexivity]).
      assert (Hin_b : In b (a :: r1)) by (eapply Permutation_in; [symmetry; exact Hp|left; reflexivity]).
      destruct Hin_a as [->|Hin_a]; [reflexivity|]. destruct Hin_b as [->|Hin_b]; [reflexivity|].
      rewrite Forall_forall in Ha, Hb. pose proof (Ha b Hin_b) as H1. pose proof (Hb a Hin_a) as H2.
      unfold kle in *. rewrite lexZ_opp in H2.
      destruct (lexZ (sol_key a) (sol_key b)) eqn:E; cbn in H2; try congruence.
      apply lexZ_eq in E. apply Hnt; [left; reflexivity|right; exact Hin_b|exact E]. }
    subst b. f_equal. apply IH; auto.
    + intros x y Hx Hy. apply Hnt; right; assumption.
    + eapply Permutation_cons_inv; exact Hp.
Qed.

Lemma sort_by_perm_eq l1 l2 :
  NoTies l1 -> Permutation l1 l2 -> sort_by cmp_sol l1 = sort_by cmp_sol l2.
Proof.
  intros Hnt Hp. apply sorted_perm_unique; try apply sort_by_sorted.
  - intros a b Ha Hb. apply Hnt; [eapply Permutation_in; [apply sort_by_perm|exact Ha]|eapply Permutation_in; [apply sort_by_perm|exact Hb]].
  - rewrite (sort_by_perm cmp_sol l1), (sort_by_perm cmp_sol l2). exact Hp.
Qed.

(** * the search lists are permutations of each other *)
Lemma Permutation_flat_map_pw {A B} (f f' : A -> list B) l l' :
  Permutation l l' -> (forall x, Permutation (f x) (f' x)) -> Permutation (flat_map f l) (flat_map f' l').
Proof.
  intros Hp Hf. transitivity (flat_map f l'); [apply Permutation_flat_map; exact Hp|].
  clear Hp. induction l' as [|a r IH]; cbn [flat_map]; [constructor|]. apply Permutation_app; auto.
Qed.
Lemma Permutation_filter' {A} (p : A -> bool) l l' : Permutation l l' -> Permutation (filter p l) (filter p l').
Proof.
  induction 1 as [|x l l' Hp IH|x y l|l l' l'' H1 IH1 H2 IH2]; cbn [filter].
  - constructor.
  - destruct (p x); [constructor|]; exact IH.
  - destruct (p x), (p y); try reflexivity. apply perm_swap.
  - etransitivity; eauto.
Qed.

Section TwoSearches.
Variables (ov1 ov2 : vertex -> vinfo -> vinfo) (oe1 oe2 : vertex -> vertex -> emap -> emap) (g1 g2 : graph).
Hypothesis cand_perm : forall sol, Permutation (candidates ov1 oe1 g1 sol) (candidates ov2 oe2 g2 sol).

Lemma news_perm sol : Permutation (news ov1 oe1 g1 sol) (news ov2 oe2 g2 sol).
Proof. unfold news. apply Permutation_flat_map. apply cand_perm. Qed.

Lemma expand_perm dst sol :
  Permutation (fst (expand ov1 oe1 g1 dst sol)) (fst (expand ov2 oe2 g2 dst sol))
  /\ Permutation (snd (expand ov1 oe1 g1 dst sol)) (snd (expand ov2 oe2 g2 dst sol)).
Proof. unfold expand; cbn [fst snd]. split; apply Permutation_filter'; apply news_perm. Qed.

Lemma bfs_perm dst fuel : forall q1 q2, Permutation q1 q2 ->
  Permutation (bfs ov1 oe1 g1 dst fuel q1) (bfs ov2 oe2 g2 dst fuel q2).
Proof.
  induction fuel as [|f IH]; intros q1 q2 Hq; cbn [bfs]; [constructor|]. rewrite !flat_map_map.
  apply Permutation_app.
  - apply Permutation_flat_map_pw; [exact Hq|]. intros s. apply expand_perm.
  - apply IH. apply Permutation_flat_map_pw; [exact Hq|]. intros s. apply expand_perm.
Qed.

Lemma get_paths_eq src dst :
  NoTies (bfs ov1 oe1 g1 dst 4 [sol_new (VAS src)]) ->
  get_paths ov1 oe1 g1 src dst = get_paths ov2 oe2 g2 src dst.
Proof. intros Hnt. unfold get_paths. apply sort_by_perm_eq; [exact Hnt|]. apply bfs_perm. reflexivity. Qed.
End TwoSearches.

Definition ord_id_v (_ : vertex) (l : vinfo) : vinfo := l.
Definition ord_id_e (_ _ : vertex) (l : emap) : emap := l.

Lemma candidates_perm_id ov oe g sol :
  (forall v l, Permutation (ov v l) l) -> (forall v w l, Permutation (oe v w l) l) ->
  Permutation (candidates ov oe g sol) (candidates ord_id_v ord_id_e g sol).
Proof.
  intros Hv He. unfold candidates. destruct (aget vertex_eqb (so_cur sol) g) as [vi|]; [|constructor].
  apply Permutation_flat_map_pw; [apply Hv|]. intros [nv em]. apply Permutation_map. apply He.
Qed.

Lemma get_paths_order_irrelevant ov oe g src dst :
  (forall v l, Permutation (ov v l) l) -> (forall v w l, Permutation (oe v w l) l) ->
  NoTies (bfs ord_id_v ord_id_e g dst 4 [sol_new (VAS src)]) ->
  get_paths ov oe g src dst = get_paths ord_id_v ord_id_e g src dst.
Proof.
  intros Hv He Hnt. symmetry. apply get_paths_eq; [|exact Hnt].
  intros sol. symmetry. apply candidates_perm_id; assumption.
Qed.

Lemma combine_order_irrelevant_lemma Hid Hfp ov oe src dst cores non_cores g :
  (forall v l, Permutation (ov v l) l) -> (forall v w l, Permutation (oe v w l) l) ->
  add_segments [] (input_segments Hid cores non_cores) = Ok g ->
  NoTies (bfs ord_id_v ord_id_e g dst 4 [sol_new (VAS src)]) ->
  combine_paths Hid Hfp ov oe src dst cores non_cores
  = combine_paths Hid Hfp ord_id_v ord_id_e src dst cores non_cores.
Proof.
  intros Hv He Hg Hnt. unfold combine_paths, candidate_paths. rewrite Hg. cbn [obind].
  rewrite (get_paths_order_irrelevant ov oe g src dst Hv He Hnt). reflexivity.
Qed.

(** the decidable tie test used by the correspondence driver implies [NoTies] *)

Lemma sorted_no_adjacent_ties l :
  StronglySorted kle l -> NoDup l -> adjacent_ties l = false -> NoTies l.
Proof.
  induction 1 as [|a r Hr IH Ha]; intros Hnd Hadj; [intros x y []|].
  inversion Hnd as [|? ? Hna Hnd']; subst.
  assert (Hadj' : adjacent_ties r = false).
  { destruct r as [|b r']; [reflexivity|]. cbn [adjacent_ties] in Hadj. apply orb_false_iff in Hadj as [_ H]. exact H. }
  specialize (IH Hnd' Hadj').
  assert (Hhead : forall y, In y r -> sol_key a <> sol_key y).
  { intros y Hy Heq. destruct r as [|b r']; [destruct Hy|].
    cbn [adjacent_ties] in Hadj. apply orb_false_iff in Hadj as [Hab _]. rewrite cmp_sol_key in Hab.
    (* a <= b <= y and key a = key y force key a = key b *)
    inversion Hr as [|? ? _ Hb]; subst. rewrite Forall_forall in Ha, Hb.
    pose proof (Ha b (or_introl eq_refl)) as H1. unfold kle in H1.
    assert (H2 : lexZ (sol_key b) (sol_key a) <> Gt).
    { destruct Hy as [->|Hy]; [rewrite Heq, lexZ_refl; discriminate|]. rewrite Heq. exact (Hb y Hy). }
    rewrite lexZ_opp in H2. destruct (lexZ (sol_key a) (sol_key b)); cbn in H2; congruence. }
  intros x y [->|Hx] [->|Hy] Heq; auto.
  - exfalso. exact (Hhead y Hy Heq).
  - exfalso. exact (Hhead x Hx (eq_sym Heq)).
Qed.
