(** Independent enumerator of the SCION combination rules ([SpecRules]) over the INPUT segments,
    used as a soundness + completeness oracle on the IMPLEMENTATION's output for well-formed
    cases: every loop-free, encodable valid combination must be returned (as a route), and
    every returned path must be one of them.  Definitions only; nothing here looks at the
    search graph or at the model of the implementation. *)
From Sci Require Export Combine.Model Combine.Spec Combine.SpecRules.
Local Open Scope N_scope.

Definition junction_eqb (a b : junction) : bool :=
  match a, b with
  | JAS x, JAS y => x =? y
  | JLink a1 a2 a3 a4, JLink b1 b2 b3 b4 => (a1 =? b1) && (a2 =? b2) && (a3 =? b3) && (a4 =? b4)
  | _, _ => false
  end.

(** every admissible use of one segment, with the junctions where it starts and stops *)
Definition seg_uses (k : kind) (s : segment) : list (seguse * junction * junction) :=
  match rev (sg_entries s) with
  | [] => []
  | le :: _ =>
    let leaf := ae_ia le in
    let len := length (sg_entries s) in
    flat_map (fun '(i, ae) =>
      (if match k with Core => Nat.eqb i 0 | NonCore => negb (Nat.eqb (S i) len) end
       then [(mkUse k s i None Against, JAS leaf, JAS (ae_ia ae));
             (mkUse k s i None Along, JAS (ae_ia ae), JAS leaf)]
       else [])
      ++ match k with
         | Core => []
         | NonCore =>
           flat_map (fun '(pi, p) =>
             [(mkUse k s i (Some pi) Against, JAS leaf, JLink (ae_ia ae) (hf_in (pe_hf p)) (pe_ia p) (pe_if p));
              (mkUse k s i (Some pi) Along, JLink (pe_ia p) (pe_if p) (ae_ia ae) (hf_in (pe_hf p)), JAS leaf)])
             (enumerate (ae_peers ae))
         end)
      (enumerate (sg_entries s))
  end.

Definition kinds_okb (ks : list kind) : bool :=
  let nc := fun k => match k with NonCore => true | Core => false end in
  match ks with
  | [_] => true
  | [a; b] => nc a || nc b
  | [a; b; c] => nc a && negb (nc b) && nc c
  | _ => false
  end.

(** combinations of one to three uses from [src] to [dst] that do not continue beyond [dst] *)
Definition combinations (cores non_cores : list segment) (src dst : N) : list (list seguse) :=
  let all := flat_map (seg_uses Core) cores ++ flat_map (seg_uses NonCore) non_cores in
  let step := fun (partial : list (list seguse * junction)) =>
    flat_map (fun '(us, cur) =>
      if junction_eqb cur (JAS dst) then [] else
      flat_map (fun '(u, a, b) => if junction_eqb a cur then [(us ++ [u], b)] else []) all) partial in
  let l1 := flat_map (fun '(u, a, b) => if junction_eqb a (JAS src) then [([u], b)] else []) all in
  let l2 := step l1 in
  let l3 := step l2 in
  map fst (filter (fun '(us, cur) => junction_eqb cur (JAS dst) && kinds_okb (map u_kind us)) (l1 ++ l2 ++ l3)).

(** the observable segment of a use, and its hop fields labelled with their AS *)
Definition use_oseg (u : seguse) : oseg :=
  mkOS ((if use_cons_dir u then 1 else 0) + (if use_peering u then 2 else 0)) 0 (sg_ts (u_seg u))
       (map (fun h => (hf_exp h, hf_in h, hf_eg h, hf_mac h)) (use_hops u)).
Definition use_ias (u : seguse) : list N :=
  let along := map ae_ia (skipn (u_from u) (sg_entries (u_seg u))) in
  match u_dir u with Along => along | Against => rev along end.

(** labelled version of the crossing rule of [Spec.path_ifaces] *)
Definition lab_hop (s : oseg) (inc outc : bool) (ih : N * ohop) : list (N * N) :=
  let '(ia, h) := ih in
  (if inc && negb (travel_in s h =? 0) then [(ia, travel_in s h)] else [])
  ++ (if outc && negb (travel_out s h =? 0) then [(ia, travel_out s h)] else []).
Fixpoint lab_seg (s : oseg) (first_in last_out is_first : bool) (hops : list (N * ohop)) : list (N * N) :=
  match hops with
  | [] => []
  | [h] => lab_hop s (negb is_first || first_in) last_out h
  | h :: r => lab_hop s (negb is_first || first_in) true h ++ lab_seg s first_in last_out false r
  end.
Fixpoint lab_path (is_first_seg : bool) (us : list seguse) : list (N * N) :=
  match us with
  | [] => []
  | u :: r =>
    let s := use_oseg u in
    lab_seg s (negb is_first_seg && peering s) (match r with [] => false | _ => peering s end) true
            (combine (use_ias u) (os_hops s))
    ++ lab_path false r
  end.

Definition comb_key (us : list seguse) : list (N * N) :=
  flat_map (fun u => map (fun h => (hf_in h, hf_eg h)) (use_hops u)) us.

Definition comb_usable (us : list seguse) : bool :=
  let ifs := lab_path true us in
  let nh := length (comb_key us) in
  forallb (fun u => (length (use_hops u) <=? 63)%nat) us
  && (4 + 8 * N.of_nat (length us) + 12 * N.of_nat nh <=? 984)
  && negb (match ifs with [] => true | _ => false end) && Nat.even (length ifs)
  && forallb (fun i => Nat.leb (length (filter (fun j => N.eqb (fst j) (fst i)) ifs)) 2) ifs.

(** soundness + completeness of a result list against the enumeration *)
Definition enum_ok (cores non_cores : list segment) (src dst : N) (out : list opath) : bool :=
  let combs := filter comb_usable (combinations cores non_cores src dst) in
  let same := fun (us : list seguse) (p : opath) =>
    (o_src p =? src) && (o_dst p =? dst)
    && list_eqb if_eqb (comb_key us) (hops_key p) && list_eqb if_eqb (lab_path true us) (o_ifs p) in
  (if src =? dst then match out with [] => true | _ => false end
   else forallb (fun us => existsb (same us) out) combs && forallb (fun p => existsb (fun us => same us p) combs) out).

(** ** "de-duplication keeps the latest expiry", evaluated on a result list: the expiry of every
    returned path is the maximum, over all usable enumerated combinations with the same route
    (same hop-field interface sequence), of the combination's earliest hop expiry *)
Definition comb_expiry (us : list seguse) : N :=
  minl 4294967295 (flat_map (fun u => map (fun h => hop_expiry (sg_ts (u_seg u)) (hf_exp h)) (use_hops u)) us).
Definition expiry_max_ok (cores non_cores : list segment) (src dst : N) (out : list opath) : bool :=
  let combs := filter comb_usable (combinations cores non_cores src dst) in
  forallb (fun p =>
    let same := filter (fun us => list_eqb if_eqb (comb_key us) (hops_key p)) combs in
    match same with
    | [] => false
    | _ => o_exp p =? fold_right N.max 0 (map comb_expiry same)
    end) out.
