(** Witnesses (closed by vm_compute) for C04 / C19 findings and repaired defects. *)
From Sci Require Import Combine.Cases.
Local Open Scope N_scope.

(** C19, repaired: a non-core segment whose interface ids are ALL ZERO.  The unrepaired
    PathSolution::path panicked at interfaces.first().expect(..) (replayed on the real code by
    the harness, directed case d0); the repaired code -- the one modelled -- skips the solution. *)
Definition zero_ifid_segment : segment :=
  mkSeg 1700000000 7 [mkAE 1 2 1400 0 (mkHF 63 0 0 11) []; mkAE 2 0 1400 0 (mkHF 63 0 0 12) []].
Definition zero_ifid_case : ccase := mkCase 2 1 [] [zero_ifid_segment] [5] false false true [] [] 0 [] [].

Lemma zero_ifid_solution_is_skipped : model_run zero_ifid_case = Ok [].
Proof. vm_compute. reflexivity. Qed.

(** the search does find a solution for that input: the panic site was reachable *)
Lemma zero_ifid_has_a_solution :
  exists g, add_segments [] (input_segments (case_hid zero_ifid_case) [] [zero_ifid_segment]) = Ok g
            /\ length (get_paths ord_id_v ord_id_e g 2 1) = 1%nat.
Proof. eexists; split; vm_compute; reflexivity. Qed.

(** C04, repaired: an AS-internal MTU of 65536 (the field is a u32) was truncated by
    [as_entry.mtu as u16] to 0, so every path through that AS was reported with MTU 0
    (replayed on the real code by the harness, directed case d8:as_mtu_65536); the repaired code
    -- the one modelled -- saturates at 65535, and the link MTU 1400 decides. *)
Definition big_mtu_case : ccase :=
  mkCase 2 3 []
    [mkSeg 1700000000 7 [mkAE 1 2 65536 0 (mkHF 63 0 1 11) []; mkAE 2 0 1500 1400 (mkHF 63 1 0 12) []];
     mkSeg 1700000000 9 [mkAE 1 3 65536 0 (mkHF 63 0 2 13) []; mkAE 3 0 1500 1400 (mkHF 63 1 0 14) []]]
    [5; 6] true false true [] [] 0 [] [].
Lemma big_as_mtu_does_not_zero_the_path_mtu :
  option_map (map o_mtu) (match model_run big_mtu_case with Ok l => Some (map obs_path l) | _ => None end) = Some [1400].
Proof. vm_compute. reflexivity. Qed.
