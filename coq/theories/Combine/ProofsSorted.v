(** C04: for well-formed segment sets whose peer hop fields are distinguishable from regular
    ones, the hop-field interface sequence of a candidate path determines its cost; hence the
    result stays sorted through duplicate filtering. *)
From Sci Require Import Combine.Model Combine.Spec Combine.Obs Combine.Proofs Combine.ProofsEnc Combine.ProofsC19 Combine.ProofsBound
  Combine.ProofsC04 Combine.ProofsPath Combine.ProofsWF Combine.ProofsSound Combine.ProofsIfaces Combine.ProofsHops Combine.ProofsOrder Common.ListAux.
From Coq Require Import Lia ZifyBool ZifyNat ZifyN Permutation.
Local Open Scope nat_scope.

Definition zeg (h : hopf) : bool := N.eqb (hf_eg h) 0.

(** * one leaf marker (ConsEgress = 0) per used segment *)
Lemma items_leaf_count L idx pr l : forall a,
  ItemsOK L idx pr (combine (seq a (length l)) l) -> a + length l = S L -> l <> [] ->
  length (filter zeg (map (item_hf idx pr) (combine (seq a (length l)) l))) = 1.
Proof.
  induction l as [|x l IH]; intros a Hok HL Hne; [congruence|].
  cbn [length seq combine map filter] in *. unfold ItemsOK in Hok. apply Forall_cons_iff in Hok as [Hx Hrest].
  pose proof (item_hf_eg L idx pr (a, x) Hx) as He. cbn [fst] in He. unfold zeg at 1.
  destruct l as [|y l'].
  - cbn. assert (E : hf_eg (item_hf idx pr (a, x)) = 0%N) by (apply He; cbn in HL; lia). rewrite E. reflexivity.
  - destruct (N.eqb_spec (hf_eg (item_hf idx pr (a, x))) 0) as [E|E]; [apply He in E; cbn [length] in HL; lia|].
    apply (IH (S a) Hrest); [cbn [length] in *; lia|discriminate].
Qed.

Lemma filter_length_perm {A} (f : A -> bool) l l' : Permutation l l' -> length (filter f l) = length (filter f l').
Proof. intros H. apply Permutation_length. apply Permutation_filter'. exact H. Qed.

Lemma edge_hops_perm e :
  Permutation (edge_hops e)
    (map (item_hf (e_idx (se_edge e)) (e_peer (se_edge e))) (skipn (e_idx (se_edge e)) (enumerate (sg_entries (is_seg (se_seg e)))))).
Proof.
  unfold edge_hops, orient, edge_items. rewrite map_rev.
  destruct (edge_cons_dir e); [rewrite rev_involutive; reflexivity|symmetry; apply Permutation_rev].
Qed.

Lemma edge_leaf_marker e :
  wf_segment (is_seg (se_seg e)) -> EdgeOK (se_seg e) (se_edge e) -> length (filter zeg (edge_hops e)) = 1.
Proof.
  intros Hwf Hok. pose proof (edge_items_ok e Hwf Hok) as Hitems. destruct Hok as [Hidx _].
  rewrite (filter_length_perm zeg _ _ (edge_hops_perm e)).
  set (es := sg_entries (is_seg (se_seg e))) in *. set (idx := e_idx (se_edge e)) in *. unfold seg_len in *. fold es in Hidx, Hitems.
  assert (Hinc : skipn idx (enumerate es) = combine (seq idx (length (skipn idx es))) (skipn idx es)).
  { unfold enumerate. rewrite skipn_combine, skipn_seq, skipn_length. reflexivity. }
  rewrite Hinc in *. set (l := skipn idx es) in *.
  assert (Hl : length l = length es - idx) by (unfold l; apply skipn_length).
  apply (items_leaf_count (length es - 1)); [exact Hitems|lia|intros E; rewrite E in Hl; cbn in Hl; lia].
Qed.

Lemma edge_hops_length e :
  (e_idx (se_edge e) < seg_len (is_seg (se_seg e))) ->
  length (edge_hops e) = seg_len (is_seg (se_seg e)) - e_idx (se_edge e).
Proof.
  intros H. rewrite (Permutation_length (edge_hops_perm e)), map_length, skipn_length, enumerate_length. reflexivity.
Qed.

Lemma filter_none' {A} (p : A -> bool) l : (forall y, In y l -> p y = false) -> filter p l = [].
Proof.
  induction l as [|y l IH]; intros H; cbn [filter]; [reflexivity|]. rewrite (H y (or_introl eq_refl)).
  apply IH. intros z Hz. apply H. right; exact Hz.
Qed.

Definition EdgesWF (l : list sedge) : Prop :=
  Forall (fun e => EdgeFull (se_src e) (se_dst e) (se_seg e) (se_edge e)) l
  /\ Forall (fun e => wf_segment (is_seg (se_seg e))) l.

Lemma edges_leaf_markers l : EdgesWF l -> length (filter zeg (flat_map edge_hops l)) = length l.
Proof.
  intros [Hf Hw]. induction l as [|e l IH]; [reflexivity|]. inversion Hf; subst. inversion Hw; subst.
  cbn [flat_map length]. rewrite filter_app, app_length, IH by assumption.
  rewrite (edge_leaf_marker e); [reflexivity|assumption|]. match goal with H : EdgeFull _ _ _ _ |- _ => exact (proj1 H) end.
Qed.

(** * cost = hops - segments + (1 if peering) *)
Lemma edges_weight_hops l :
  Forall (fun e => EdgeFull (se_src e) (se_dst e) (se_seg e) (se_edge e)) l ->
  (edges_weight l + N.of_nat (length l)
   = N.of_nat (length (flat_map edge_hops l)) + N.of_nat (length (filter (fun e => is_vpeer (se_dst e)) l)))%N.
Proof.
  induction l as [|e l IH]; intros Hf; [reflexivity|]. inversion Hf as [|? ? Hfe Hf']; subst. specialize (IH Hf').
  unfold edges_weight in *. cbn [fold_right flat_map filter length]. rewrite app_length.
  destruct Hfe as ([Hidx _] & Hw & _). rewrite (edge_hops_length e Hidx). unfold EdgeW in Hw. rewrite Hw.
  destruct (se_dst e); cbn [is_vpeer length]; lia.
Qed.

Definition has_peer (l : list sedge) : bool := existsb (fun e => is_some (e_peer (se_edge e))) l.

Lemma peer_count_split l :
  Forall (fun e => EdgeFull (se_src e) (se_dst e) (se_seg e) (se_edge e)) l ->
  length (filter (fun e => is_some (e_peer (se_edge e))) l)
  = length (filter (fun e => is_vpeer (se_dst e)) l) + length (filter (fun e => is_vpeer (se_src e)) l).
Proof.
  induction l as [|e l IH]; intros Hf; [reflexivity|]. inversion Hf as [|? ? Hfe Hf']; subst. specialize (IH Hf').
  destruct (edge_peer_ends e Hfe) as [Hp _]. cbn [filter].
  destruct (is_some (e_peer (se_edge e))), (is_vpeer (se_dst e)), (is_vpeer (se_src e)); cbn [b2n length] in *; lia.
Qed.

Lemma towards_peer_count l src dst :
  Forall (fun e => EdgeFull (se_src e) (se_dst e) (se_seg e) (se_edge e)) l ->
  chain_ok (VAS src) l -> end_vertex (VAS src) l = VAS dst -> length l <= 3 ->
  length (filter (fun e => is_vpeer (se_dst e)) l) = if has_peer l then 1 else 0.
Proof.
  intros Hf Hc Hend Hlen. pose proof (peer_count_split l Hf) as Hs.
  pose proof (chain_peer_balance l (VAS src) Hc) as Hb. rewrite Hend in Hb. cbn [is_vpeer b2n] in Hb.
  assert (HP : length (filter (fun e => is_some (e_peer (se_edge e))) l) <= length l) by apply filter_length_le.
  unfold has_peer. destruct (existsb (fun e => is_some (e_peer (se_edge e))) l) eqn:E.
  - apply existsb_exists in E as (e & He & Hpe).
    assert (0 < length (filter (fun e => is_some (e_peer (se_edge e))) l)).
    { assert (In e (filter (fun e => is_some (e_peer (se_edge e))) l)) by (apply filter_In; auto).
      destruct (filter (fun e0 => is_some (e_peer (se_edge e0))) l); [contradiction|cbn; lia]. }
    lia.
  - assert (filter (fun e => is_some (e_peer (se_edge e))) l = []).
    { apply filter_none'. intros y Hy. destruct (is_some (e_peer (se_edge y))) eqn:Ey; [|reflexivity].
      assert (existsb (fun e => is_some (e_peer (se_edge e))) l = true) by (apply existsb_exists; eauto). congruence. }
    rewrite H in Hs. cbn in Hs. lia.
Qed.

(** * peer hop fields are recognisable *)
Lemma if_eqb_refl a : if_eqb a a = true.
Proof. unfold if_eqb. rewrite !N.eqb_refl. reflexivity. Qed.

Lemma distinct_sound segs a :
  peer_sig_distinctb segs = true -> In a (peer_sigs segs) -> In a (reg_sigs segs) -> False.
Proof.
  unfold peer_sig_distinctb. intros H Hp Hr. rewrite forallb_forall in H. specialize (H a Hp).
  apply negb_true_iff in H. assert (existsb (if_eqb a) (reg_sigs segs) = true); [|congruence].
  apply existsb_exists. exists a. split; [exact Hr|apply if_eqb_refl].
Qed.

Lemma peer_edge_sig segs e :
  EdgeFull (se_src e) (se_dst e) (se_seg e) (se_edge e) -> In (is_seg (se_seg e)) segs ->
  is_some (e_peer (se_edge e)) = true ->
  exists h, In h (edge_hops e) /\ In (sig h) (peer_sigs segs).
Proof.
  intros Hf Hin Hp. destruct (e_peer (se_edge e)) as [pi|] eqn:Ep; [|discriminate].
  destruct (peer_edge_consistent e pi Hf Ep) as (leaf & ae & p & _ & Hae & Hpe & _ & _ & Hh).
  exists (pe_hf p). split; [exact Hh|]. unfold peer_sigs. apply in_flat_map. exists (is_seg (se_seg e)). split; [exact Hin|].
  apply in_flat_map. exists ae. split; [eapply nth_error_In; eauto|].
  apply in_map_iff. exists p. split; [reflexivity|eapply nth_error_In; eauto].
Qed.

Lemma nonpeer_edge_sigs segs e h :
  In (is_seg (se_seg e)) segs -> e_peer (se_edge e) = None -> In h (edge_hops e) -> In (sig h) (reg_sigs segs).
Proof.
  intros Hin Hp Hh. eapply Permutation_in in Hh; [|apply edge_hops_perm]. rewrite Hp in Hh.
  apply in_map_iff in Hh as ([i a] & <- & Hit). apply In_skipn', in_enumerate in Hit.
  unfold item_hf, item_peer. cbn [snd]. unfold reg_sigs. apply in_flat_map. exists (is_seg (se_seg e)). split; [exact Hin|].
  apply in_map_iff. exists a. split; [reflexivity|eapply nth_error_In; eauto].
Qed.

(** whether a hop-field interface sequence contains a peer hop field of the segment set *)
Definition sigs_peering (segs : list segment) (sigs : list (N * N)) : bool :=
  existsb (fun s => existsb (if_eqb s) (peer_sigs segs)) sigs.

Lemma if_eqb_eq a b : if_eqb a b = true -> a = b.
Proof. destruct a, b. unfold if_eqb; cbn. intros H. apply andb_true_iff in H as [H1 H2]. apply N.eqb_eq in H1, H2. congruence. Qed.

Lemma has_peer_sigs segs l :
  peer_sig_distinctb segs = true ->
  Forall (fun e => EdgeFull (se_src e) (se_dst e) (se_seg e) (se_edge e)) l ->
  Forall (fun e => In (is_seg (se_seg e)) segs) l ->
  has_peer l = sigs_peering segs (map sig (flat_map edge_hops l)).
Proof.
  intros Hd Hf Hin. unfold has_peer, sigs_peering.
  destruct (existsb (fun e => is_some (e_peer (se_edge e))) l) eqn:E.
  - symmetry. apply existsb_exists in E as (e & He & Hp). rewrite Forall_forall in Hf, Hin.
    destruct (peer_edge_sig segs e (Hf e He) (Hin e He) Hp) as (h & Hh & Hs).
    apply existsb_exists. exists (sig h). split; [apply in_map; apply in_flat_map; eauto|].
    apply existsb_exists. exists (sig h). split; [exact Hs|apply if_eqb_refl].
  - symmetry. destruct (existsb _ (map sig (flat_map edge_hops l))) eqn:E2; [|reflexivity]. exfalso.
    apply existsb_exists in E2 as (s & Hs & Hs2). apply existsb_exists in Hs2 as (s' & Hs' & Heq). apply if_eqb_eq in Heq. subst s'.
    apply in_map_iff in Hs as (h & <- & Hh). apply in_flat_map in Hh as (e & He & Hh).
    assert (Hnp : e_peer (se_edge e) = None).
    { destruct (e_peer (se_edge e)) eqn:Ep; [|reflexivity].
      assert (existsb (fun e => is_some (e_peer (se_edge e))) l = true); [|congruence].
      apply existsb_exists. exists e. rewrite Ep. auto. }
    rewrite Forall_forall in Hin. exact (distinct_sound segs (sig h) Hd Hs' (nonpeer_edge_sigs segs e h (Hin e He) Hnp Hh)).
Qed.

(** * the cost as a function of the hop-field interface sequence *)
Definition zsig (s : N * N) : bool := N.eqb (snd s) 0.

Lemma filter_zeg_sig l : length (filter zsig (map sig l)) = length (filter zeg l).
Proof.
  induction l as [|h l IH]; [reflexivity|]. cbn [map filter].
  replace (zsig (sig h)) with (zeg h) by reflexivity. destruct (zeg h); cbn [length]; rewrite IH; reflexivity.
Qed.

Lemma sol_cost_sigs segs sol src dst :
  peer_sig_distinctb segs = true ->
  EdgesWF (so_edges sol) -> Forall (fun e => In (is_seg (se_seg e)) segs) (so_edges sol) ->
  chain_ok (VAS src) (so_edges sol) -> end_vertex (VAS src) (so_edges sol) = VAS dst -> length (so_edges sol) <= 3 ->
  CostOK sol ->
  let sigs := map sig (flat_map edge_hops (so_edges sol)) in
  (so_cost sol + N.of_nat (length (filter zsig sigs)) = N.of_nat (length sigs) + (if sigs_peering segs sigs then 1 else 0))%N.
Proof.
  intros Hd Hwf Hin Hc Hend Hlen Hcost sigs. destruct Hwf as [Hf Hw].
  rewrite Hcost. unfold sigs. rewrite filter_zeg_sig, (edges_leaf_markers _ (conj Hf Hw)), map_length.
  rewrite (edges_weight_hops _ Hf), (towards_peer_count _ src dst Hf Hc Hend Hlen).
  rewrite (has_peer_sigs segs _ Hd Hf Hin). destruct (sigs_peering segs _); reflexivity.
Qed.

Lemma flat_map_concat {A B} (f : A -> list B) l : flat_map f l = concat (map f l).
Proof. induction l; cbn; [reflexivity|]. rewrite IHl. reflexivity. Qed.

Lemma combine_fp_cost Hid Hfp ord_v ord_e src dst cores non_cores cand :
  (forall v l, Permutation (ord_v v l) l) -> (forall v w l, Permutation (ord_e v w l) l) ->
  Forall wf_segment (cores ++ non_cores) -> peer_sig_distinctb (cores ++ non_cores) = true ->
  src <> dst ->
  candidate_paths Hid Hfp ord_v ord_e src dst cores non_cores = Ok cand ->
  forall x y, In x cand -> In y cand -> hop_sigs x = hop_sigs y -> path_cost x = path_cost y.
Proof.
  intros Hv He Hwf Hd Hne Hcand.
  unfold candidate_paths in Hcand. apply bind_ok in Hcand as (g & Hg & Hcol).
  destruct (add_segments_inv (input_segments Hid cores non_cores) [] GInv_nil) as (g' & Hg' & HI).
  rewrite Hg in Hg'. inversion Hg'; subst g'.
  destruct (collect_paths_sorted Hfp _ _ (get_paths_sorted ord_v ord_e g src dst)
              (get_paths_full ord_v ord_e Hv He g src dst HI) (get_paths_cost ord_v ord_e g src dst) Hcol) as [_ Hall].
  assert (Hone : forall p, In p cand ->
    (path_cost p + N.of_nat (length (filter zsig (hop_sigs p)))
     = N.of_nat (length (hop_sigs p)) + (if sigs_peering (cores ++ non_cores) (hop_sigs p) then 1 else 0))%N).
  { intros p Hp. rewrite Forall_forall in Hall. destruct (Hall p Hp) as (s & Hs & Hsp & Hpc & _).
    pose proof (get_paths_chain ord_v ord_e g src dst) as Hch. rewrite Forall_forall in Hch. destruct (Hch s Hs) as [(C1 & C2 & _) Hcur].
    pose proof (get_paths_full ord_v ord_e Hv He g src dst HI) as Hfull. rewrite Forall_forall in Hfull. specialize (Hfull s Hs).
    pose proof (get_paths_cost ord_v ord_e g src dst) as Hcost. rewrite Forall_forall in Hcost. specialize (Hcost s Hs).
    pose proof (get_paths_ok ord_v ord_e Hv He g src dst) as Hok. rewrite Forall_forall in Hok. destruct (Hok s Hs) as [Hin_g Hlen].
    assert (Hmem : Forall (fun e => In (is_seg (se_seg e)) (cores ++ non_cores)) (so_edges s)).
    { eapply Forall_impl; [|exact Hin_g]. intros e Hedge. unfold sedge_in in Hedge.
      destruct (add_segments_from _ _ _ Hg _ _ _ _ Hedge) as [(vi & em & [] & _)|Hmem]. eapply input_segments_seg; eauto. }
    assert (Hws : Forall (fun e => wf_segment (is_seg (se_seg e))) (so_edges s)).
    { eapply Forall_impl; [|exact Hmem]. intros e Hm. rewrite Forall_forall in Hwf. auto. }
    destruct (sol_path_ends _ _ _ Hsp) as (st & f & l & Hst & _ & _ & _ & _ & _ & Hsegs).
    apply edges_fold_pure in Hst as (_ & _ & Hhops & _). cbn [ps_segs map app] in Hhops.
    assert (Hsig : hop_sigs p = map sig (flat_map edge_hops (so_edges s))).
    { unfold hop_sigs. rewrite Hsegs, !flat_map_concat, Hhops. reflexivity. }
    rewrite Hsig, Hpc. rewrite C2 in Hcur.
    exact (sol_cost_sigs (cores ++ non_cores) s src dst Hd (conj Hfull Hws) Hmem C1 Hcur Hlen Hcost). }
  intros x y Hx Hy Hxy. pose proof (Hone x Hx) as H1. pose proof (Hone y Hy) as H2. rewrite Hxy in H1. lia.
Qed.
