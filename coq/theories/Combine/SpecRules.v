(** The SCION path-combination rules, stated on segments (independent of the search graph of
    the implementation).  A combination is a list of one to three segment uses:

    - a use takes a segment from an AS entry [u_from] to its last entry (the leaf), travelling
      [Along] the construction direction (from entry [u_from] to the leaf: a down-segment, or a
      core segment used forwards) or [Against] it (from the leaf up to entry [u_from]: an
      up-segment, or a core segment used backwards);
    - a core segment is used whole ([u_from] = 0, no peering); a non-core segment may be cut
      at any entry above the leaf (shortcut / on-path endpoint) or left/entered through a peer
      entry of entry [u_from];
    - kinds: any single use; two uses unless both are core; three uses only as
      non-core, core, non-core;
    - consecutive uses meet at a common AS or on the two sides of one peering link;
    - the first use starts at the source AS, the last ends at the destination AS. *)
From Sci Require Export Combine.Model.
Local Open Scope N_scope.

Inductive dir := Along | Against.
Record seguse := mkUse { u_kind : kind; u_seg : segment; u_from : nat; u_peer : option nat; u_dir : dir }.

(** where a use starts / ends: inside an AS, or on a peering link seen from one side
    (local AS, local interface, remote AS, remote interface) *)
Inductive junction := JAS (ia : N) | JLink (lia lif ria rif : N).

Definition ValidUse (u : seguse) (start stop : junction) : Prop :=
  exists leaf ae,
    last_ia (u_seg u) = Some leaf /\ nth_error (sg_entries (u_seg u)) (u_from u) = Some ae /\
    match u_peer u with
    | None =>
      (u_kind u = Core -> u_from u = 0%nat) /\ (u_kind u = NonCore -> S (u_from u) <> seg_len (u_seg u)) /\
      match u_dir u with
      | Against => start = JAS leaf /\ stop = JAS (ae_ia ae)
      | Along => start = JAS (ae_ia ae) /\ stop = JAS leaf
      end
    | Some pi =>
      u_kind u = NonCore /\ exists p, nth_error (ae_peers ae) pi = Some p /\
      match u_dir u with
      | Against => start = JAS leaf /\ stop = JLink (ae_ia ae) (hf_in (pe_hf p)) (pe_ia p) (pe_if p)
      | Along => start = JLink (pe_ia p) (pe_if p) (ae_ia ae) (hf_in (pe_hf p)) /\ stop = JAS leaf
      end
    end.

Definition kinds_allowed (l : list seguse) : Prop :=
  match map u_kind l with
  | [_] => True
  | [a; b] => a = NonCore \/ b = NonCore
  | [a; b; c] => a = NonCore /\ b = Core /\ c = NonCore
  | _ => False
  end.

Fixpoint Chained (start : junction) (l : list seguse) (stop : junction) : Prop :=
  match l with
  | [] => start = stop
  | u :: r => exists mid, ValidUse u start mid /\ Chained mid r stop
  end.

Definition from_input (cores non_cores : list segment) (u : seguse) : Prop :=
  match u_kind u with Core => In (u_seg u) cores | NonCore => In (u_seg u) non_cores end.

Definition ValidCombination (cores non_cores : list segment) (src dst : N) (uses : list seguse) : Prop :=
  kinds_allowed uses /\ Forall (from_input cores non_cores) uses /\ Chained (JAS src) uses (JAS dst).

(** the hop fields a use contributes to the data-plane path, in travel order: the hop field
    of the peer entry (peering) or of the AS entry at [u_from], then the hop fields of the
    following entries down to the leaf -- reversed when travelling against construction *)
Definition use_hops (u : seguse) : list hopf :=
  match skipn (u_from u) (sg_entries (u_seg u)) with
  | [] => []
  | ae :: rest =>
    let first := match u_peer u with
                 | Some pi => match nth_error (ae_peers ae) pi with Some p => pe_hf p | None => ae_hf ae end
                 | None => ae_hf ae
                 end in
    let along := first :: map ae_hf rest in
    match u_dir u with Along => along | Against => rev along end
  end.

(** the info field of a use *)
Definition use_cons_dir (u : seguse) : bool := match u_dir u with Along => true | Against => false end.
Definition use_peering (u : seguse) : bool := match u_peer u with Some _ => true | None => false end.
