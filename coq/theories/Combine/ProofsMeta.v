(** C04 metadata lemmas: expiry. *)
From Sci Require Import Combine.Model Combine.Spec Combine.Obs Combine.Proofs Combine.ProofsEnc Combine.ProofsC19 Combine.ProofsC04.
From Coq Require Import Lia ZifyBool ZifyNat ZifyN.
Ltac Zify.zify_post_hook ::= Z.div_mod_to_equations.
Local Open Scope N_scope.
Arguments N.add : simpl never. Arguments N.mul : simpl never. Arguments N.div : simpl never.
Arguments N.modulo : simpl never. Arguments N.min : simpl never.

Definition f_exp (ts e : N) : N := N.min U32_MAX (ts + exp_secs (e mod 256)).

Lemma exp_secs_spec e : exp_secs e = (675 * (e + 1)) / 2.
Proof. unfold exp_secs, EXP_UNIT_SECS, EXP_UNIT_NANOS. lia. Qed.

Lemma f_exp_spec ts e : e < 256 -> f_exp ts e = Spec.hop_expiry ts e.
Proof.
  intros H. unfold f_exp, Spec.hop_expiry, U32_MAX. rewrite N.mod_small by exact H. rewrite exp_secs_spec. reflexivity.
Qed.

Lemma f_exp_mono ts a b : a < 256 -> b < 256 -> a <= b -> f_exp ts a <= f_exp ts b.
Proof.
  intros Ha Hb H. unfold f_exp. rewrite !N.mod_small by assumption. rewrite !exp_secs_spec. lia.
Qed.
Lemma f_exp_min ts a b : a < 256 -> b < 256 -> f_exp ts (N.min a b) = N.min (f_exp ts a) (f_exp ts b).
Proof.
  intros Ha Hb. destruct (N.le_ge_cases a b) as [H|H].
  - rewrite (N.min_l a b H). pose proof (f_exp_mono ts a b Ha Hb H). lia.
  - rewrite (N.min_r a b H). pose proof (f_exp_mono ts b a Hb Ha H). lia.
Qed.
Lemma f_exp_le ts e : f_exp ts e <= U32_MAX.
Proof. unfold f_exp. lia. Qed.

Lemma min_list_lt d l : d < 256 -> Forall (fun x => x < 256) l -> min_list d l < 256.
Proof. intros Hd. induction 1; cbn [min_list]; lia. Qed.

Lemma seg_exp_min ts e0 es :
  e0 < 256 -> Forall (fun x => x < 256) es ->
  f_exp ts (min_list e0 es) = min_list U32_MAX (map (f_exp ts) (e0 :: es)).
Proof.
  intros H0 Hs. induction Hs as [|e es He Hes IH].
  - cbn [min_list map]. pose proof (f_exp_le ts e0). lia.
  - cbn [min_list map] in *. rewrite f_exp_min by (auto using min_list_lt). rewrite IH. lia.
Qed.

Lemma min_list_le d l : min_list d l <= d.
Proof. induction l; cbn [min_list]; lia. Qed.

Lemma min_list_app_acc a b : min_list U32_MAX (a ++ b) = N.min (min_list U32_MAX a) (min_list U32_MAX b).
Proof.
  induction a as [|x a IH]; cbn [app min_list].
  - pose proof (min_list_le U32_MAX b). lia.
  - rewrite IH. lia.
Qed.

Definition hops_typed (segs : list dpseg) : Prop :=
  Forall (fun s => Forall (fun h => hf_exp h < 256) (ds_hops s)) segs.

Definition all_expiries (segs : list dpseg) : list N :=
  flat_map (fun s => map (fun h => f_exp (ds_ts s) (hf_exp h)) (ds_hops s)) segs.

Lemma std_expiration_min segs : forall acc,
  hops_typed segs -> Forall (fun s => ds_hops s <> []) segs -> acc <= U32_MAX ->
  std_expiration acc segs = Ok (N.min acc (min_list U32_MAX (all_expiries segs))).
Proof.
  induction segs as [|s r IH]; intros acc Ht Hn Hacc; cbn [std_expiration all_expiries flat_map].
  - cbn [min_list]. f_equal. lia.
  - inversion Ht as [|? ? Hs Hr]; subst. inversion Hn as [|? ? Hs' Hr']; subst.
    destruct (ds_hops s) as [|h hs] eqn:Eh; [congruence|].
    inversion Hs as [|? ? Hh Hhs]; subst.
    pose proof (exp_secs_small (min_list (hf_exp h) (map hf_exp hs))) as Hsm.
    destruct (U32_MAX <? exp_secs (min_list (hf_exp h) (map hf_exp hs) mod 256)) eqn:E; [unfold U32_MAX in E; lia|].
    rewrite IH; [|assumption|assumption|lia]. f_equal.
    fold (all_expiries r). rewrite min_list_app_acc.
    assert (Hty : Forall (fun x => x < 256) (map hf_exp hs)) by (apply Forall_map; exact Hhs).
    pose proof (seg_exp_min (ds_ts s) (hf_exp h) (map hf_exp hs) Hh Hty) as Hm.
    unfold f_exp at 1 in Hm. cbn [map] in Hm |- *. rewrite map_map in Hm. rewrite Hm.
    cbn [min_list]. lia.
Qed.

Lemma min_list_minl d l : min_list d l = Spec.minl d l.
Proof. induction l; cbn; congruence. Qed.

Lemma all_expiries_spec segs : hops_typed segs ->
  all_expiries segs =
  flat_map (fun s => map (fun h => Spec.hop_expiry (os_ts s) (oh_exp h)) (os_hops s)) (map obs_seg segs).
Proof.
  induction 1 as [|s r Hs Hr IH]; cbn [all_expiries map flat_map]; [reflexivity|].
  fold (all_expiries r). rewrite IH. f_equal. cbn [obs_seg os_ts os_hops]. rewrite map_map.
  apply map_ext_in. intros h Hh. rewrite Forall_forall in Hs. cbn. apply f_exp_spec. exact (Hs h Hh).
Qed.

Lemma wire_valid_nonempty segs : wire_valid segs = true -> Forall (fun s => ds_hops s <> []) segs.
Proof.
  unfold wire_valid. intros H. apply andb_true_iff in H as [_ H]. rewrite forallb_forall in H.
  apply Forall_forall. intros s Hs. specialize (H s Hs). apply andb_true_iff in H as [_ H].
  destruct (ds_hops s); [discriminate|discriminate].
Qed.

Lemma shape_expiry Hfp p :
  PathShape Hfp p -> hops_typed (sp_segs p) ->
  o_mexp (obs_path p) = Spec.earliest_expiry (obs_path p) /\ o_exp (obs_path p) = Spec.earliest_expiry (obs_path p).
Proof.
  intros (segs & ifs & f & l & mtu & e & -> & _ & _ & _ & Hw & He) Ht. cbn in Ht.
  rewrite (std_expiration_min segs U32_MAX Ht (wire_valid_nonempty _ Hw) (N.le_refl _)) in He.
  injection He as He. unfold obs_path, Spec.earliest_expiry, path_expiration. cbn.
  rewrite <- (all_expiries_spec segs Ht), <- min_list_minl.
  pose proof (min_list_le U32_MAX (all_expiries segs)).
  change 4294967295 with U32_MAX. split; lia.
Qed.
