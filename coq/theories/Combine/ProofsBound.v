(** C19: polynomial bound on the graph size and on the number of search solutions. *)
From Sci Require Import Combine.Model Combine.Proofs Common.ListAux.
From Coq Require Import Lia Permutation.
Local Open Scope nat_scope.
Ltac slia := unfold list_sum in *; cbn [fold_right] in *; lia.

Definition vcount (vi : vinfo) : nat := list_sum (map (fun p => length (snd p)) vi).
Definition ecount (g : graph) : nat := list_sum (map (fun p => vcount (snd p)) g).

(** number of AS entries plus number of peer entries of a segment *)
Definition seg_weight (s : segment) : nat :=
  list_sum (map (fun ae => 1 + length (ae_peers ae)) (sg_entries s)).
Definition input_weight (l : list iseg) : nat := list_sum (map (fun s => seg_weight (is_seg s)) l).

Lemma aupd_measure {K V} (eqb : K -> K -> bool) k (f : option V -> V) (m : V -> nat) c l :
  m (f None) <= c -> (forall v, m (f (Some v)) <= m v + c) ->
  list_sum (map (fun p => m (snd p)) (aupd eqb k f l)) <= list_sum (map (fun p => m (snd p)) l) + c.
Proof.
  intros H0 H1. induction l as [|[k' v] l IH]; cbn in *; [slia|].
  destruct (eqb k' k); cbn in *; [specialize (H1 v)|]; slia.
Qed.

Lemma aupd_length {K V} (eqb : K -> K -> bool) k (f : option V -> V) l :
  length (aupd eqb k f l) <= length l + 1.
Proof.
  induction l as [|[k' v] l IH]; cbn [aupd length]; [slia|]. destruct (eqb k' k); cbn [length]; slia.
Qed.

Lemma ecount_ade g a b s e : ecount (add_directed_edge g a b s e) <= ecount g + 1.
Proof.
  unfold add_directed_edge, ecount. apply aupd_measure.
  - unfold vcount. cbn [odefault]. etransitivity; [apply aupd_measure with (c := 1)|cbn; slia].
    + cbn. slia.
    + intros v. cbn [odefault]. apply aupd_length.
  - intros vi. cbn [odefault]. unfold vcount. apply aupd_measure.
    + cbn. slia.
    + intros v. cbn [odefault]. apply aupd_length.
Qed.
Lemma ecount_add_edge g a b s e : ecount (add_edge g a b s e) <= ecount g + 2.
Proof.
  unfold add_edge. pose proof (ecount_ade (add_directed_edge g a b s e) b a s e).
  pose proof (ecount_ade g a b s e). slia.
Qed.

Lemma ofold_measure {A B} (m : B -> nat) (c : A -> nat) (f : B -> A -> res B) l : forall b b',
  (forall b a b', f b a = Ok b' -> m b' <= m b + c a) ->
  ofold f l b = Ok b' -> m b' <= m b + list_sum (map c l).
Proof.
  induction l as [|a l IH]; intros b b' Hf; cbn [ofold map list_sum fold_right].
  - intros E; inversion E; subst. slia.
  - destruct (f b a) as [b1| |] eqn:E1; cbn [obind]; try discriminate.
    intros E. specialize (Hf b a b1 E1) as H1. specialize (IH b1 b' Hf E). slia.
Qed.

Lemma map_snd_combine_seq {A} (l : list A) s : map snd (combine (seq s (length l)) l) = l.
Proof. revert s; induction l as [|a l IH]; intros s; cbn; [reflexivity|]. f_equal. apply IH. Qed.
Lemma list_sum_enumerate {A} (c : A -> nat) (l : list A) :
  list_sum (map (fun p => c (snd p)) (enumerate l)) = list_sum (map c l).
Proof.
  unfold enumerate. rewrite <- (map_map snd c). rewrite map_snd_combine_seq. reflexivity.
Qed.
Lemma list_sum_rev l : list_sum (rev l) = list_sum l.
Proof.
  induction l as [|a l IH]; cbn [rev list_sum fold_right]; [reflexivity|]. rewrite list_sum_app. cbn. slia.
Qed.
Lemma list_sum_const {A} (l : list A) c : list_sum (map (fun _ => c) l) = c * length l.
Proof. induction l; cbn [map list_sum fold_right length]; slia. Qed.

Lemma bind_ok {A B} (o : res A) (f : A -> res B) b : obind o f = Ok b -> exists a, o = Ok a /\ f a = Ok b.
Proof. destruct o; cbn; try discriminate. eauto. Qed.

Lemma ecount_add_peer_edges s leaf idx local g pp g' :
  add_peer_edges s leaf idx local g pp = Ok g' -> ecount g' <= ecount g + 2.
Proof.
  destruct pp as [pi p]. unfold add_peer_edges. intros H.
  apply bind_ok in H as (w1 & _ & H). apply bind_ok in H as (w2 & _ & H). inversion H; subst.
  match goal with |- ecount (add_directed_edge (add_directed_edge ?g0 ?a ?b ?s0 ?e0) ?a1 ?b1 ?s1 ?e1) <= _ =>
    pose proof (ecount_ade (add_directed_edge g0 a b s0 e0) a1 b1 s1 e1); pose proof (ecount_ade g0 a b s0 e0) end.
  slia.
Qed.

Lemma ecount_add_non_core_entry s leaf g ie g' :
  add_non_core_entry s leaf g ie = Ok g' -> ecount g' <= ecount g + 2 * (1 + length (ae_peers (snd ie))).
Proof.
  destruct ie as [idx entry]. unfold add_non_core_entry. intros H.
  apply bind_ok in H as (lm1 & _ & H). apply bind_ok in H as (g1 & H1 & H).
  assert (ecount g1 <= ecount g + 2).
  { destruct (negb (Nat.eqb idx lm1)).
    - apply bind_ok in H1 as (w & _ & H1). inversion H1; subst. apply ecount_add_edge.
    - inversion H1; subst. slia. }
  apply (ofold_measure ecount (fun _ => 2)) in H; [|intros; eapply ecount_add_peer_edges; eauto].
  rewrite list_sum_const, enumerate_length in H. cbn [snd]. slia.
Qed.

Lemma ecount_add_segment g s g' : add_segment g s = Ok g' -> ecount g' <= ecount g + 2 * seg_weight (is_seg s).
Proof.
  unfold add_segment. destruct (is_kind s).
  - unfold add_core_segment. destruct (first_ia (is_seg s)) eqn:Ef; [|discriminate].
    destruct (last_ia (is_seg s)); [|discriminate]. intros H. apply bind_ok in H as (w & _ & H).
    inversion H; subst. pose proof (ecount_add_edge g (VAS n) (VAS n0) s (mkEdge w 0 None)).
    apply first_ia_len in Ef. unfold seg_weight, seg_len in *.
    destruct (sg_entries (is_seg s)); cbn [length map list_sum fold_right] in *; slia.
  - unfold add_non_core_segment. destruct (last_ia (is_seg s)); [|discriminate]. intros H.
    apply (ofold_measure ecount (fun ie => 2 * (1 + length (ae_peers (snd ie))))) in H;
      [|intros; eapply ecount_add_non_core_entry; eauto].
    rewrite map_rev, list_sum_rev in H.
    rewrite (list_sum_enumerate (fun ae => 2 * (1 + length (ae_peers ae)))) in H.
    unfold seg_weight.
    assert (E : forall l : list asentry, list_sum (map (fun ae => 2 * (1 + length (ae_peers ae))) l)
                = 2 * list_sum (map (fun ae => 1 + length (ae_peers ae)) l)).
    { induction l as [|x l IH]; cbn [map list_sum fold_right]; slia. }
    rewrite E in H. exact H.
Qed.

Lemma ecount_add_segments l : forall g g', add_segments g l = Ok g' -> ecount g' <= ecount g + 2 * input_weight l.
Proof.
  induction l as [|s l IH]; intros g g'; cbn [add_segments]; unfold input_weight; cbn [map list_sum fold_right].
  - intros E; inversion E; subst. slia.
  - destruct (add_segment g s) as [g1| |] eqn:E1; try discriminate; intros H.
    + apply ecount_add_segment in E1. apply IH in H. unfold input_weight in H. slia.
    + apply IH in H. unfold input_weight in H. slia.
Qed.

Lemma input_weight_app a b : input_weight (a ++ b) = input_weight a + input_weight b.
Proof. unfold input_weight. rewrite map_app, list_sum_app. reflexivity. Qed.

(** * the search *)
Section Search.
Variable ord_v : vertex -> vinfo -> vinfo.
Variable ord_e : vertex -> vertex -> emap -> emap.
Hypothesis ord_v_perm : forall v l, Permutation (ord_v v l) l.
Hypothesis ord_e_perm : forall v w l, Permutation (ord_e v w l) l.

Lemma list_sum_perm l l' : Permutation l l' -> list_sum l = list_sum l'.
Proof. induction 1; cbn [list_sum fold_right]; slia. Qed.

Lemma flat_map_length_sum {A B} (f : A -> list B) l :
  length (flat_map f l) = list_sum (map (fun a => length (f a)) l).
Proof. induction l as [|a l IH]; cbn [flat_map map list_sum fold_right length]; [reflexivity|]. rewrite app_length, IH. reflexivity. Qed.

Lemma In_le_list_sum {A} (m : A -> nat) l a : In a l -> m a <= list_sum (map m l).
Proof. induction l as [|b l IH]; cbn [map list_sum fold_right]; intros []; [subst; slia|]. specialize (IH H). slia. Qed.

Lemma candidates_length g sol : length (candidates ord_v ord_e g sol) <= ecount g.
Proof.
  unfold candidates. destruct (aget vertex_eqb (so_cur sol) g) as [vi|] eqn:E; [|cbn; slia].
  apply aget_In in E as (k' & Hin & _).
  rewrite flat_map_length_sum.
  transitivity (vcount vi).
  - unfold vcount. rewrite <- (list_sum_perm _ _ (Permutation_map _ (ord_v_perm (so_cur sol) vi))).
    apply Nat.eq_le_incl. f_equal. apply map_ext. intros [nv em]. cbn [snd]. rewrite map_length.
    apply Permutation_length, ord_e_perm.
  - unfold ecount. apply (In_le_list_sum (fun p : vertex * vinfo => vcount (snd p)) g (k', vi) Hin).
Qed.

Lemma flat_map_le {A B} (f : A -> list B) c l :
  (forall a, length (f a) <= c) -> length (flat_map f l) <= length l * c.
Proof.
  intros H. induction l as [|a l IH]; cbn [flat_map length]; [slia|]. rewrite app_length. specialize (H a). slia.
Qed.

Lemma news_length g sol : length (news ord_v ord_e g sol) <= ecount g.
Proof.
  unfold news. etransitivity; [apply (flat_map_le _ 1)|].
  - intros c. destruct (try_add_edge sol c); cbn; slia.
  - pose proof (candidates_length g sol). slia.
Qed.

Lemma news_of_three g sol : 3 <= length (so_edges sol) -> news ord_v ord_e g sol = [].
Proof.
  intros H. unfold news. induction (candidates ord_v ord_e g sol) as [|c l IH]; cbn [flat_map]; [reflexivity|].
  rewrite IH. unfold try_add_edge, valid_next_seg.
  destruct (so_edges sol) as [|a [|b [|d r]]]; cbn [length] in H; try slia. reflexivity.
Qed.

Lemma filter_length_le {A} (f : A -> bool) l : length (filter f l) <= length l.
Proof. induction l as [|a l IH]; cbn; [lia|]. destruct (f a); cbn; lia. Qed.

Lemma expand_fst_length g dst sol : length (fst (expand ord_v ord_e g dst sol)) <= ecount g.
Proof.
  unfold expand; cbn [fst]. fold (news ord_v ord_e g sol).
  etransitivity; [apply filter_length_le|apply news_length].
Qed.
Lemma expand_snd_length g dst sol : length (snd (expand ord_v ord_e g dst sol)) <= ecount g.
Proof.
  unfold expand; cbn [snd]. fold (news ord_v ord_e g sol).
  etransitivity; [apply filter_length_le|apply news_length].
Qed.
Lemma expand_three g dst sol : 3 <= length (so_edges sol) -> expand ord_v ord_e g dst sol = ([], []).
Proof. intros H. unfold expand. fold (news ord_v ord_e g sol). rewrite (news_of_three g sol H). reflexivity. Qed.

Lemma bfs_nil g dst fuel : bfs ord_v ord_e g dst fuel [] = [].
Proof. induction fuel; cbn; auto. Qed.

(** solutions found from a queue whose members all have [k] edges, per queue member *)
Fixpoint G (E fuel k : nat) : nat :=
  match fuel with
  | O => 0
  | S f => if 3 <=? k then 0 else E + E * G E f (S k)
  end.

Lemma flat_map_map {A B C} (f : A -> B) (g : B -> list C) l : flat_map g (map f l) = flat_map (fun a => g (f a)) l.
Proof. induction l; cbn; [reflexivity|]. rewrite IHl. reflexivity. Qed.

Lemma bfs_bound g dst fuel : forall k queue,
  Forall (fun s => length (so_edges s) = k) queue ->
  length (bfs ord_v ord_e g dst fuel queue) <= length queue * G (ecount g) fuel k.
Proof.
  induction fuel as [|f IH]; intros k queue Hq; cbn [bfs G length]; [slia|].
  rewrite !flat_map_map. destruct (3 <=? k) eqn:E3.
  - apply Nat.leb_le in E3.
    assert (Hall : forall (pr : list solution * list solution -> list solution),
               (pr = fst \/ pr = snd) -> flat_map (fun a => pr (expand ord_v ord_e g dst a)) queue = []).
    { intros pr Hpr. induction Hq as [|s q Hs Hq IHq]; cbn [flat_map]; [reflexivity|].
      rewrite IHq, expand_three by slia. destruct Hpr as [-> | ->]; reflexivity. }
    rewrite (Hall snd), (Hall fst) by auto. rewrite bfs_nil. cbn. slia.
  - rewrite app_length.
    pose proof (flat_map_le (fun a => snd (expand ord_v ord_e g dst a)) (ecount g) queue
                            (fun a => expand_snd_length g dst a)) as H1.
    pose proof (flat_map_le (fun a => fst (expand ord_v ord_e g dst a)) (ecount g) queue
                            (fun a => expand_fst_length g dst a)) as H2.
    assert (Hnext : Forall (fun s => length (so_edges s) = S k)
                           (flat_map (fun a => fst (expand ord_v ord_e g dst a)) queue)).
    { apply Forall_forall. intros s Hs. apply in_flat_map in Hs as (q & Hq' & Hs).
      apply expand_fst in Hs. rewrite Forall_forall in Hq. specialize (Hq _ Hq').
      apply in_flat_map in Hs as (c & _ & Hs). destruct (try_add_edge q c) eqn:Et; [|destruct Hs].
      destruct Hs as [<-|[]]. apply try_add_edge_some in Et as (Et & _). rewrite Et, app_length. cbn. slia. }
    specialize (IH (S k) _ Hnext). nia.
Qed.

Lemma get_paths_bound g src dst :
  length (get_paths ord_v ord_e g src dst) <= ecount g + ecount g ^ 2 + ecount g ^ 3.
Proof.
  unfold get_paths. rewrite (Permutation_length (sort_by_perm cmp_sol _)).
  etransitivity; [apply (bfs_bound g dst 4 0)|].
  - constructor; [reflexivity|constructor].
  - cbn. nia.
Qed.

End Search.

Lemma collect_paths_length Hfp sols ps : collect_paths Hfp sols = Ok ps -> length ps <= length sols.
Proof.
  revert ps; induction sols as [|s r IH]; intros ps; cbn [collect_paths length].
  - intros E; inversion E; subst. cbn. slia.
  - destruct (sol_path Hfp s) as [[p|]| |]; try discriminate; try (intros H; specialize (IH _ H); slia).
    intros H. apply bind_ok in H as (hl & _ & H). apply bind_ok in H as (rest & Hr & H).
    specialize (IH _ Hr). inversion H; subst. destruct hl; cbn [length]; slia.
Qed.

Lemma replace_nth_length {A} (l : list A) n x l' : replace_nth n x l = Some l' -> length l' = length l.
Proof.
  revert n l'; induction l as [|y l IH]; intros n l'; cbn [replace_nth]; [destruct n; discriminate|].
  destruct n; cbn; [intros E; inversion E; reflexivity|].
  destruct (replace_nth n x l) eqn:E; cbn; intros H; [|discriminate H]. inversion H; subst. cbn. f_equal. eauto.
Qed.

Lemma filter_duplicates_length paths : forall result uniq out,
  filter_duplicates paths result uniq = Ok out -> length out <= length result + length paths.
Proof.
  induction paths as [|p r IH]; intros result uniq out; cbn [filter_duplicates length].
  - intros E; inversion E; subst. slia.
  - destruct (aget N.eqb (sp_fp p) uniq) as [[cur i]|].
    + destruct (N.ltb cur (path_expiration p)).
      * destruct (replace_nth i p result) eqn:Er; [|discriminate]. intros H. apply IH in H.
        apply replace_nth_length in Er. slia.
      * intros H. apply IH in H. slia.
    + intros H. apply IH in H. rewrite app_length in H. cbn in H. slia.
Qed.
