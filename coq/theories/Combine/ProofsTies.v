(** The decidable tie test of the correspondence driver (no two neighbours of the sorted
    solution list compare Equal) implies the [NoTies] hypothesis of the invariance theorems. *)
From Sci Require Import Combine.Model Combine.Obs Combine.Proofs Combine.ProofsEnc Combine.ProofsC19 Combine.ProofsBound Combine.ProofsC04
  Combine.ProofsPath Combine.ProofsWF Combine.ProofsComplete Combine.ProofsGraph Combine.ProofsOrder Combine.ProofsPerm Common.ListAux.
From Coq Require Import Lia ZifyBool ZifyNat ZifyN Permutation Sorted.
Local Open Scope N_scope.

Lemma app_one_inj {A} (l1 l2 : list A) x y : l1 ++ [x] = l2 ++ [y] -> l1 = l2 /\ x = y.
Proof. intros H. apply app_inj_tail in H. exact H. Qed.

Lemma kids_nodup sol l : NoDup l -> NoDup (map so_edges (flat_map (fun c => match try_add_edge sol c with Some s => [s] | None => [] end) l)).
Proof.
  induction 1 as [|c l Hc Hl IH]; cbn [flat_map map]; [constructor|].
  destruct (try_add_edge sol c) as [s|] eqn:Et; cbn [app map]; [|exact IH].
  constructor; [|exact IH]. intros Hin. apply in_map_iff in Hin as (s' & Es & Hin).
  apply in_flat_map in Hin as (c' & Hc' & Hin). destruct (try_add_edge sol c') as [s''|] eqn:Et'; [|destruct Hin].
  destruct Hin as [<-|[]]. apply try_add_edge_some in Et as (E1 & _). apply try_add_edge_some in Et' as (E2 & _).
  rewrite E1, E2 in Es. apply app_one_inj in Es as [_ Es]. subst c'. contradiction.
Qed.

Lemma NoDup_map_filter {A B} (f : A -> B) (p : A -> bool) l : NoDup (map f l) -> NoDup (map f (filter p l)).
Proof.
  induction l as [|a l IH]; cbn [map filter]; intros H; [constructor|]. inversion H; subst.
  destruct (p a); cbn [map]; [|auto]. constructor; [|auto]. intros Hin. apply H2.
  apply in_map_iff in Hin as (x & Ex & Hx). apply filter_In in Hx as [Hx _]. apply in_map_iff. eauto.
Qed.

Lemma NoTies_perm' l1 l2 : Permutation l1 l2 -> NoTies l1 -> NoTies l2.
Proof. intros Hp H a b Ha Hb. apply H; (eapply Permutation_in; [symmetry; exact Hp|assumption]). Qed.

Section S.
Variable g : graph.
Hypothesis HK : KInv g.

Lemma news_nodup sol : NoDup (map so_edges (news ord_id_v ord_id_e g sol)).
Proof. unfold news. apply kids_nodup. apply candidates_nodup. exact HK. Qed.

Lemma news_edges sol s : In s (news ord_id_v ord_id_e g sol) -> exists c, so_edges s = so_edges sol ++ [c].
Proof.
  intros H. apply in_flat_map in H as (c & _ & H). destruct (try_add_edge sol c) eqn:Et; [|destruct H].
  destruct H as [<-|[]]. apply try_add_edge_some in Et as (E & _). eauto.
Qed.

(** children of a queue whose members have pairwise different edge lists *)
Lemma level_nodup dst (pr : list solution * list solution -> list solution) q :
  (pr = fst \/ pr = snd) -> NoDup (map so_edges q) ->
  NoDup (map so_edges (flat_map (fun p => pr (expand ord_id_v ord_id_e g dst p)) q)).
Proof.
  intros Hpr. induction q as [|p q IH]; cbn [map flat_map]; intros Hnd; [constructor|]. inversion Hnd as [|? ? Hp Hq]; subst.
  rewrite map_app. apply NoDup_app_intro.
  - destruct Hpr as [-> | ->]; unfold expand; cbn [fst snd]; fold (news ord_id_v ord_id_e g p); apply NoDup_map_filter, news_nodup.
  - apply IH; exact Hq.
  - intros es H1 H2. apply in_map_iff in H1 as (s1 & E1 & H1). apply in_map_iff in H2 as (s2 & E2 & H2).
    apply in_flat_map in H2 as (p2 & Hp2 & H2).
    assert (N1 : In s1 (news ord_id_v ord_id_e g p)).
    { destruct Hpr as [-> | ->]; unfold expand in H1; cbn [fst snd] in H1; apply filter_In in H1 as [H1 _]; exact H1. }
    assert (N2 : In s2 (news ord_id_v ord_id_e g p2)).
    { destruct Hpr as [-> | ->]; unfold expand in H2; cbn [fst snd] in H2; apply filter_In in H2 as [H2 _]; exact H2. }
    destruct (news_edges _ _ N1) as (c1 & X1). destruct (news_edges _ _ N2) as (c2 & X2).
    rewrite <- E2, X1, X2 in E1. apply app_one_inj in E1 as [E1 _]. apply Hp. rewrite E1. apply in_map. exact Hp2.
Qed.

Lemma bfs_edges_nodup dst fuel : forall k q,
  Forall (fun s => length (so_edges s) = k) q -> NoDup (map so_edges q) ->
  NoDup (map so_edges (bfs ord_id_v ord_id_e g dst fuel q))
  /\ Forall (fun s => (k < length (so_edges s))%nat) (bfs ord_id_v ord_id_e g dst fuel q).
Proof.
  induction fuel as [|f IH]; intros k q Hk Hnd; cbn [bfs]; [split; constructor|]. rewrite !flat_map_map.
  assert (Hlen : forall pr, (pr = fst \/ pr = snd) ->
            Forall (fun s => length (so_edges s) = S k) (flat_map (fun p => pr (expand ord_id_v ord_id_e g dst p)) q)).
  { intros pr Hpr. apply Forall_forall. intros s Hs. apply in_flat_map in Hs as (p & Hp & Hs).
    assert (N : In s (news ord_id_v ord_id_e g p)).
    { destruct Hpr as [-> | ->]; unfold expand in Hs; cbn [fst snd] in Hs; apply filter_In in Hs as [Hs _]; exact Hs. }
    destruct (news_edges _ _ N) as (c & X). rewrite X, app_length. rewrite Forall_forall in Hk. rewrite (Hk p Hp). cbn. lia. }
  destruct (IH (S k) _ (Hlen fst (or_introl eq_refl)) (level_nodup dst fst q (or_introl eq_refl) Hnd)) as [I1 I2].
  split.
  - rewrite map_app. apply NoDup_app_intro; [apply level_nodup; auto|exact I1|].
    intros es H1 H2. apply in_map_iff in H1 as (s1 & E1 & H1). apply in_map_iff in H2 as (s2 & E2 & H2).
    pose proof (Hlen snd (or_intror eq_refl)) as L1. rewrite Forall_forall in L1, I2. specialize (L1 _ H1). specialize (I2 _ H2).
    rewrite E1 in L1. rewrite E2 in I2. lia.
  - apply Forall_app; split.
    + eapply Forall_impl; [|exact (Hlen snd (or_intror eq_refl))]. intros s Hs. cbn beta in Hs. lia.
    + eapply Forall_impl; [|exact I2]. intros s Hs. cbn beta in Hs. lia.
Qed.

Lemma bfs_nodup src dst : NoDup (bfs ord_id_v ord_id_e g dst 4 [sol_new (VAS src)]).
Proof.
  apply (NoDup_map_inv' so_edges). apply (proj1 (bfs_edges_nodup dst 4 0 [sol_new (VAS src)] ltac:(repeat constructor) ltac:(repeat constructor; intros []))).
Qed.

Lemma no_adjacent_ties_noties src dst :
  adjacent_ties (get_paths ord_id_v ord_id_e g src dst) = false ->
  NoTies (bfs ord_id_v ord_id_e g dst 4 [sol_new (VAS src)]).
Proof.
  intros H. eapply NoTies_perm'; [apply sort_by_perm|].
  apply sorted_no_adjacent_ties; [apply sort_by_sorted| |exact H].
  eapply Permutation_NoDup; [symmetry; apply sort_by_perm|apply bfs_nodup].
Qed.
End S.

Lemma KInv_graph_of' L : KInv (graph_of L).
Proof. apply KInv_apply_ins, KInv_nil. Qed.
