(** C14 -- property theorems only.  Each is closed by short glue from lemmas of [Scmp.Proofs]
    and followed by [Print Assumptions].

    Clause "has a valid checksum": the checksum VALUE written by the encoders is C03's theorem
    (Wire area); C14 judges it on the implementation's output with two independent RFC 1071
    implementations (harness, [Scmp.Spec.packet_checksum_ok]). *)
From Coq Require Import Lia ZifyBool ZifyNat ZifyN.
From Sci Require Import Scmp.Model Scmp.Spec Scmp.Proofs Scmp.Bytes Scmp.SpecTie Scmp.NoPanic.
Local Open Scope N_scope.

(** ** Every SCMP error packet is at most 1232 bytes long.

    For every error kind (type [ty], fixed part [hdr] from the generated table), ALL offending
    lengths [n] and ALL reply header sizes [h]: the header plus the message laid out by
    [Scmp<Kind>Layout::from_offending_packet_length(n, h)] fits in 1232 bytes exactly when the
    header and the fixed part alone do ([h + hdr <= 1232]): the precondition the code needs,
    and it is necessary. *)
Theorem scmp_error_total_le_1232 :
  forall ty hdr n h,
    err_hdr ty = Some hdr ->
    (h + hdr <= 1232 <-> h + from_offending_packet_length hdr n h <= 1232).
Proof.
  intros ty hdr n h _. assert (E : SCMP_MAX = 1232) by reflexivity. split; intros H.
  - rewrite <- E in *. apply from_off_bound. exact H.
  - destruct (N.le_gt_cases (h + hdr) 1232) as [L|G]; [exact L|].
    rewrite <- E in G. destruct (from_off_beyond hdr n h G) as [_ B]. rewrite E in B. lia.
Qed.
Print Assumptions scmp_error_total_le_1232.

(** The call path: [ScionPacket::required_size / encode_unchecked / into_raw] hand the payload
    encoder the REPLY's own [header.required_size()]; a header that passes [wire_valid] has at
    most 1020 bytes, and every kind's fixed part fits next to that.  So every SCMP error
    message, of every kind, in every encodable packet: total size at most 1232. *)
Theorem scmp_error_packet_le_1232 :
  forall (m : emsg) (h s : N),
    header_size_valid h = true -> err_packet_size m h = Some s -> s <= 1232.
Proof.
  intros m h s V H. unfold err_packet_size, err_required_size in H.
  destruct (err_hdr (e_ty m)) as [hdr|] eqn:E; [|discriminate]. inversion H; subst s.
  apply (proj1 (scmp_error_total_le_1232 _ hdr (blen (e_off m)) h E)).
  pose proof (valid_header_fits _ _ _ E V) as F. assert (SCMP_MAX = 1232) by reflexivity. lia.
Qed.
Print Assumptions scmp_error_packet_le_1232.

(** ** The quote is a prefix of the offending packet -- and as long as the budget allows.

    The bytes the encoder produces after the kind's fixed part are the first
    [min(|offending|, 1232 - h - hdr)] bytes of the offending packet; the encoded message has
    exactly the size the layout announced (so the header's payload length is truthful). *)
Theorem quote_is_prefix :
  forall (m : emsg) (h hdr : N) (b : bytes),
    err_hdr (e_ty m) = Some hdr -> encode_err m h = Ok b ->
    let quote := skipn (N.to_nat hdr) b in
    is_prefix quote (e_off m) = true /\
    quote = firstn (N.to_nat (N.min (blen (e_off m)) (1232 - h - hdr))) (e_off m) /\
    Some (h + blen b) = err_packet_size m h.
Proof.
  intros m h hdr b Hh He. destruct (encode_err_shape m h hdr b Hh He) as [L Q].
  cbv zeta. rewrite Q. rewrite from_off_included. split; [apply firstn_is_prefix|].
  split; [reflexivity|]. unfold err_packet_size, err_required_size. rewrite Hh, L. reflexivity.
Qed.
Print Assumptions quote_is_prefix.

(** ** The whole encoded error message, byte for byte: the kind's fixed part -- type, code,
    (checksum, here 0), reserved / MTU / pointer / ISD-AS and interface ids as big-endian
    fields of the widths of the SCMP specification -- followed by the quote. *)
Theorem error_message_bytes :
  forall (m : emsg) (h hdr : N),
    err_hdr (e_ty m) = Some hdr ->
    encode_err m h
    = Ok (err_fixed m ++ firstn (N.to_nat (N.min (blen (e_off m)) (1232 - h - hdr))) (e_off m)).
Proof.
  intros m h hdr Hh. rewrite (encode_err_closed m h hdr Hh), from_off_included. reflexivity.
Qed.
Print Assumptions error_message_bytes.

(** ** Echo: the reply carries the request's identifier, sequence number and data, is addressed
    back to the requester (source and destination swapped) over the reversed path. *)
Theorem echo_reply_faithful :
  forall (v : bytes) (p : dppath) (r : reply),
    echo_handle v p = Ok (Some r) ->
    exists sv dr,
      as_scmp v = Ok (Some sv) /\
      rd sv ScmpEchoRequest_IDENTIFIER_RNG 16 = Ok (rp_id r) /\
      rd sv ScmpEchoRequest_SEQUENCE_NUMBER_RNG 16 = Ok (rp_seq r) /\
      scmp_tail_range T_ECHO_REQUEST sv = Ok dr /\ rp_data r = sub sv (fst dr) (snd dr) /\
      src_scion_addr v = Ok (Some (rp_dst_ia r, rp_dst_host r)) /\
      dst_scion_addr v = Ok (Some (rp_src_ia r, rp_src_host r)) /\
      dp_reverse p = Some (rp_path r) /\
      (* the reply's SCMP message, byte for byte: type 129, code 0, (checksum), identifier,
         sequence number, data *)
      rp_payload r = [129; 0; 0; 0] ++ be_bytes 2 (rp_id r) ++ be_bytes 2 (rp_seq r) ++ rp_data r.
Proof.
  intros v p r H. destruct (echo_handle_some v p r H) as (sv & ty & dr & H1 & H2 & H3 & H4 & H5 & H6 & H7 & H8 & H9 & H10 & H11).
  apply echo_answers_only_echo_request in H3. subst ty.
  exists sv, dr. repeat (split; [assumption|]).
  exact (echo_reply_payload_closed sv r H4 H5 H11).
Qed.
Print Assumptions echo_reply_faithful.

(** The same, by literal offsets, for every decodable raw packet: the reply's SCMP message is
    the request's message from byte 4 on (identifier, sequence number, data) behind type 129,
    code 0 and the checksum field, and it goes back to the literal source address. *)
Theorem echo_reply_literal :
  forall (v : bytes) (p : dppath) (r : reply),
    bytes_ok v = true -> required_size_raw v = Ok (blen v) -> echo_handle v p = Ok (Some r) ->
    rp_payload r = [129; 0; 0; 0] ++ skipn 4 (sp_payload v) /\
    rp_id r = 256 * nthN (sp_payload v) 4 + nthN (sp_payload v) 5 /\
    rp_seq r = 256 * nthN (sp_payload v) 6 + nthN (sp_payload v) 7 /\
    rp_data r = skipn 8 (sp_payload v) /\
    (* addressed back to the requester: destination = the request's source (ISD-AS bytes
       20..27, host after the destination host), source = the request's destination *)
    rp_dst_ia r = sp_src_ia v /\ lit_host (sp_src_nib v) (sp_src_host v) = Some (rp_dst_host r) /\
    rp_src_ia r = sp_dst_ia v /\ lit_host (sp_dst_nib v) (sp_dst_host v) = Some (rp_src_host r).
Proof.
  intros v p r Hb Hr H.
  destruct (echo_reply_is_literal v p r Hb Hr H) as (A & B & C & D).
  destruct (echo_reply_addresses_literal v p r (conj Hb Hr) H) as (E & F & G & I).
  repeat (split; [assumption|]). assumption.
Qed.
Print Assumptions echo_reply_literal.

(** what "reversed" means for a standard path: same segments in reverse order, each with its
    hop fields in reverse order (hop fields themselves untouched, so the MACs stay valid), the
    construction-direction flag of every info field toggled, current indices mirrored *)
Theorem echo_reply_path_reversed :
  forall ci ch segs q,
    dp_reverse (DP_Std ci ch segs) = Some q ->
    exists ci' ch' segs',
      q = DP_Std ci' ch' segs' /\
      length segs' = length segs /\
      all_hops segs' = rev (all_hops segs) /\
      map s_info segs' = rev (map (fun s : seg => toggle_cons_dir (s_info s)) segs) /\
      ch < hop_count segs /\ ci < N.of_nat (length segs) /\
      ch' = trunc 8 (hop_count segs - ch - 1) /\ ci' = trunc 8 (N.of_nat (length segs) - ci - 1).
Proof. intros ci ch segs q H. exact (std_reverse_spec ci ch segs q H). Qed.
Print Assumptions echo_reply_path_reversed.

(** ** A reply is produced exactly for an SCMP echo request (type 128).

    [DefaultEchoHandler::handle p = Some _] iff [p] converts to an SCMP packet view whose
    message type is EchoRequest (128) -- and the reply can be addressed at all: the path can be
    reversed and both host addresses are SCION host addresses.  ([handle] returns an [Option]:
    at most one reply; with this theorem: exactly one.)  No read after the type check can panic. *)
Theorem reply_iff_echo_request :
  forall (v : bytes) (p : dppath),
    (exists r, echo_handle v p = Ok (Some r)) <->
    (exists sv, as_scmp v = Ok (Some sv) /\ scmp_type sv = Ok 128) /\
    (exists rp, dp_reverse p = Some rp) /\
    (exists a, src_scion_addr v = Ok (Some a)) /\ (exists a, dst_scion_addr v = Ok (Some a)).
Proof. exact reply_iff_model. Qed.
Print Assumptions reply_iff_echo_request.

(** The same, with "is an SCMP echo request" read off the bytes by literal offsets
    ([Spec.spec_is_echo_request]: byte 4 = 202, header length 4 * byte 5, payload length in
    bytes 6-7 clipped to what is there, at least 8 payload bytes, first payload byte = 128)
    and "the addresses are SCION host addresses" off the type nibbles of byte 9,
    for every decodable raw packet (what the underlay hands to the socket: every byte < 256,
    [ScionRawPacketView::try_from_slice] accepts the whole buffer). *)
Theorem reply_iff_echo_request_literal :
  forall (v : bytes) (p : dppath),
    bytes_ok v = true -> required_size_raw v = Ok (blen v) ->
    ((exists r, echo_handle v p = Ok (Some r)) <->
     spec_is_echo_request v = true /\
     (exists rp, dp_reverse p = Some rp) /\
     (* both addresses are SCION host addresses (IPv4 / IPv6 / service), read off byte 9 *)
     lit_host (sp_src_nib v) (sp_src_host v) <> None /\ lit_host (sp_dst_nib v) (sp_dst_host v) <> None).
Proof. intros v p Hb Hr. exact (reply_iff_literal v p (conj Hb Hr)). Qed.
Print Assumptions reply_iff_echo_request_literal.

(** Hence: no reply to a packet that is not SCMP or whose SCMP payload is too short to parse
    ([as_scmp v = Ok None]: truncated input), none to any other SCMP type -- in particular none
    to any SCMP error (types 1, 2, 4, 5, 6 and every unassigned type), whatever it quotes (an
    error quoting an error included: the quote is never looked at).

    PARTIAL with respect to the property's "malformed SCMP packet": a request whose checksum
    does not verify IS answered (finding C14-bad-checksum-echo-answered, [Findings]): the
    handler never reads the checksum, so the statement cannot be restricted to exclude it. *)
Theorem no_reply_to_error_or_truncated_partial :
  forall (v : bytes) (p : dppath),
    (as_scmp v = Ok None -> echo_handle v p = Ok None) /\
    (forall sv ty, as_scmp v = Ok (Some sv) -> scmp_type sv = Ok ty -> ty <> 128 ->
       echo_handle v p = Ok None).
Proof.
  intros v p. assert (E : T_ECHO_REQUEST = 128) by reflexivity. split.
  - apply echo_handle_not_scmp.
  - intros sv ty H1 H2 H3. rewrite <- E in H3. exact (echo_handle_other_type v p sv ty H1 H2 H3).
Qed.
Print Assumptions no_reply_to_error_or_truncated_partial.

(** ** No error loops: no component answers an SCMP error message.

    SCMP message types below 128 are error messages (all of them, assigned or not).
    (1) the error handler never returns a reply and the echo handler none for a type other
        than 128 ([no_reply_to_error_or_truncated_partial]; in the receive loop every reply is
        the echo handler's, see the loop theorem);
    (2) pocketscion's simulator computes no reply target for an SCMP packet of type < 128
        (after the repair of this round; before it: only for types 1, 2, 4, 5, 6);
    (3) the SNAP gateway sends nothing for a parseable datagram that is an SCMP message of type
        < 128 (after the repair of this round).
    PARTIAL: a datagram the gateway cannot parse (MalformedPacket) is answered whatever it is. *)
Theorem no_scmp_error_is_answered_partial :
  (forall v p sv ty, as_scmp v = Ok (Some sv) -> scmp_type sv = Ok ty -> ty < 128 ->
     echo_handle v p = Ok None) /\
  (forall v p sv ty, is_scmp v = true -> as_scmp v = Ok (Some sv) -> scmp_type sv = Ok ty -> ty < 128 ->
     sim_reply_target v p = Ok None) /\
  (forall d v rest hv ty r,
     try_from_slice KRaw d = Ok (v, rest) -> pkt_header v = Ok hv -> hv_next_header hv = Ok PROTO_SCMP ->
     pkt_payload v = Ok (ty :: r) -> ty < 128 ->
     gateway_suppresses false d = Ok true).
Proof.
  assert (E1 : SIM_ERROR_TYPE_BOUND = 128) by reflexivity.
  assert (E2 : GW_ERROR_TYPE_BOUND = 128) by reflexivity.
  assert (E3 : T_ECHO_REQUEST = 128) by reflexivity.
  refine (conj _ (conj _ _)).
  - intros v p sv ty H1 H2 H3. apply (echo_handle_other_type v p sv ty H1 H2). rewrite E3. lia.
  - intros v p sv ty H0 H1 H2 H3. apply (sim_no_reply_to_errors v p sv ty H0 H1 H2). rewrite E1. exact H3.
  - intros d v rest hv ty r H1 H2 H3 H4 H5.
    apply (gateway_no_reply_to_errors d v rest hv ty r H1 H2 H3 H4). rewrite E2. exact H5.
Qed.
Print Assumptions no_scmp_error_is_answered_partial.

(** ** The receive loop: received SCMP errors reach the receivers; datagram delivery is unaffected.

    For every stream of decodable raw packets (what the underlay hands to the socket: every
    byte < 256 and [ScionRawPacketView::try_from_slice] accepts the whole buffer), with or
    without the echo handler installed, and for every caller buffer size:
    (0) no step panics: neither handler nor the UDP branch can end the receive task, whatever
        the packets contain (truncated SCMP, wrong lengths, unknown types, odd addresses);
    (1) the datagrams handed to the application are exactly those of the UDP packets of the
        stream, as if the SCMP (and other non-UDP) packets had never arrived, and independent
        of the installed handlers;
    (2) the error callbacks are exactly the SCMP error messages the stream carried (one
        callback per parseable error packet, in arrival order);
    (3) the packets the socket sends back are exactly the echo handler's answers to the SCMP
        packets of the stream: one reply per answered packet, in arrival order, nothing else
        -- by [reply_iff_echo_request], one per echo request and none for anything else. *)
Theorem errors_reach_receivers_and_datagrams_unaffected :
  forall (with_echo : bool) (buflen : N) (pkts : list (bytes * dppath)),
    (forall vp, In vp pkts -> bytes_ok (fst vp) = true /\ required_size_raw (fst vp) = Ok (blen (fst vp))) ->
    no_panic (recv_stream with_echo buflen pkts) /\
    (forall with_echo',
       dgrams_of (recv_stream with_echo buflen pkts)
       = dgrams_of (recv_stream with_echo' buflen (filter (fun vp : bytes * dppath => is_udp (fst vp)) pkts))) /\
    errs_of (recv_stream with_echo buflen pkts)
    = flat_map (fun vp : bytes * dppath =>
                  if is_scmp (fst vp)
                  then match err_handle (fst vp) with Ok o => opt_list o | _ => [] end
                  else []) pkts /\
    replies_of (recv_stream with_echo buflen pkts)
    = flat_map (fun vp : bytes * dppath =>
                  if with_echo && is_scmp (fst vp)
                  then match echo_handle (fst vp) (snd vp) with Ok o => opt_list o | _ => [] end
                  else []) pkts.
Proof.
  intros we b pkts Hraw. pose proof (recv_stream_never_panics we b pkts Hraw) as NP.
  refine (conj NP (conj _ (conj _ _))).
  - intros we'. apply datagrams_unaffected. exact NP.
  - apply errors_reach_receivers. exact NP.
  - apply replies_exact. exact NP.
Qed.
Print Assumptions errors_reach_receivers_and_datagrams_unaffected.

(** What reaches the receivers, read off the bytes by literal offsets.  For every stream of
    decodable raw packets:
    (1) every error callback was caused by a packet of the stream that literally is an SCMP
        message (byte 4 = 202) of one of the five defined error types with its fixed part
        complete, and carries that type and, as offending packet, exactly the bytes after the
        fixed part;
    (2) conversely every such packet of the stream causes a callback with its type and quote.
    PARTIAL with respect to "received SCMP errors": SCMP errors of types without a model
    (type < 128 other than 1, 2, 4, 5, 6) cause no callback (finding
    C14-unknown-error-type-not-reported, [Findings.unknown_error_type_not_reported]). *)
Theorem received_errors_reach_receivers_literal_partial :
  forall (with_echo : bool) (buflen : N) (pkts : list (bytes * dppath)),
    (forall vp, In vp pkts -> bytes_ok (fst vp) = true /\ required_size_raw (fst vp) = Ok (blen (fst vp))) ->
    (forall cb, In cb (errs_of (recv_stream with_echo buflen pkts)) ->
       exists v p, In (v, p) pkts /\ spec_is_known_error v = true /\
                   e_ty (cb_msg cb) = sp_scmp_type v /\ err_quote v = Some (e_off (cb_msg cb))) /\
    (forall v p, In (v, p) pkts -> spec_is_known_error v = true ->
       exists cb, In cb (errs_of (recv_stream with_echo buflen pkts)) /\
                  e_ty (cb_msg cb) = sp_scmp_type v /\ err_quote v = Some (e_off (cb_msg cb))).
Proof. exact errors_literal_both_ways. Qed.
Print Assumptions received_errors_reach_receivers_literal_partial.

(** ** non-vacuity *)

(** an ExternalInterfaceDown for a 2000-byte offending packet in a reply with a 36-byte header:
    1232 bytes in total, the quote is the first 1176 bytes *)
Example error_encodes :
  let off := repeat 7 2000 in
  match encode_err (mkE 5 0 42 9 0 off) 36 with
  | Ok b => (36 + blen b =? 1232) && list_eqb N.eqb (skipn 20 b) (firstn 1176 off)
            && list_eqb N.eqb (firstn 20 b) [5;0;0;0; 0;0;0;0;0;0;0;42; 0;0;0;0;0;0;0;9]
  | _ => false
  end = true.
Proof. vm_compute. reflexivity. Qed.

(** a stream on which the hypotheses of the loop theorem hold and all three outputs are non-empty
    is exhibited in [Findings] ([stream_example]) *)
