(** C14 -- executable statement of the property over observable bytes, independent of the model
    of the implementation and of the generated tables: every number below is a literal of the
    SCION / SCMP specification (SCION header: common header 12 bytes, NextHdr at byte 4, HdrLen
    at byte 5 in 4-byte units, PayloadLen at bytes 6-7, DT/DL/ST/SL nibbles at byte 9, DstISD-AS
    at 12, SrcISD-AS at 20, host addresses from 28; SCMP: type, code, checksum(2), then the
    per-type fixed part; protocol number 202; error messages are types 0-127 and must fit in
    1232 bytes; RFC 1071 checksum over the pseudo header of the SCION upper-layer checksum).

    Used in the theorems of [Props] and, evaluated on the IMPLEMENTATION's output, as the
    search oracle of the correspondence check. *)
From Sci Require Export Common.Outcome.
Local Open Scope N_scope.

Definition spec_max_error_packet : N := 1232.
Definition spec_proto_scmp : N := 202.
Definition spec_proto_udp : N := 17.

(** fixed part (bytes before the quoted packet) of the SCMP error types *)
Definition spec_err_fixed (ty : N) : option N :=
  match ty with
  | 1 => Some 8 | 2 => Some 8 | 4 => Some 8 | 5 => Some 20 | 6 => Some 28
  | _ => None
  end.
(** SCMP: "Type values 0-127 are error messages, 128-255 informational" *)
Definition spec_is_error_type (ty : N) : bool := ty <? 128.
Definition spec_echo_request : N := 128.
Definition spec_echo_reply : N := 129.

Definition lenN {A} (l : list A) : N := N.of_nat (length l).
Definition nthN (l : list N) (i : N) : N := nth (N.to_nat i) l 0.
Definition subN (l : list N) (lo hi : N) : list N :=
  firstn (N.to_nat (hi - lo)) (skipn (N.to_nat lo) l).

Fixpoint is_prefix (q p : list N) : bool :=
  match q, p with
  | [], _ => true
  | a :: q', b :: p' => (a =? b) && is_prefix q' p'
  | _ :: _, [] => false
  end.

(** ** RFC 1071 *)
Fixpoint sum16 (l : list N) (acc : N) : N :=
  match l with
  | a :: b :: r => sum16 r (acc + a * 256 + b)
  | [a] => acc + a * 256
  | [] => acc
  end.
Definition fold16 (s : N) : N :=
  let s1 := s / 65536 + s mod 65536 in
  let s2 := s1 / 65536 + s1 mod 65536 in
  s2 / 65536 + s2 mod 65536.
(** the checksum field value to transmit for [data] (field zeroed inside [data]) *)
Definition rfc1071 (data : list N) : N := 65535 - fold16 (sum16 data 0).
(** a received block (checksum field as transmitted) verifies iff its one's complement sum is
    0xffff *)
Definition rfc1071_verifies (data : list N) : bool := fold16 (sum16 data 0) =? 65535.

(** SCION pseudo header: DstISD-AS, SrcISD-AS, DstHostAddr, SrcHostAddr, upper-layer length
    (32 bit), 24 zero bits, next header *)
Definition pseudo_header (dst_ia src_ia : N) (dst_host src_host : list N) (len proto : N) : list N :=
  be_bytes 8 dst_ia ++ be_bytes 8 src_ia ++ dst_host ++ src_host ++ be_bytes 4 len ++ be_bytes 4 proto.

(** ** literal-offset reader of an encoded SCION packet *)
Definition sp_next_hdr (v : list N) : N := nthN v 4.
Definition sp_hdr_len (v : list N) : N := 4 * nthN v 5.
Definition sp_payload_len (v : list N) : N := 256 * nthN v 6 + nthN v 7.
Definition sp_path_type (v : list N) : N := nthN v 8.
Definition sp_dst_nib (v : list N) : N := nthN v 9 / 16.
Definition sp_src_nib (v : list N) : N := nthN v 9 mod 16.
Definition nib_len (nib : N) : N := (nib mod 4 + 1) * 4.
Definition sp_dst_ia (v : list N) : N := be_val 0 (subN v 12 20).
Definition sp_src_ia (v : list N) : N := be_val 0 (subN v 20 28).
Definition sp_dst_host (v : list N) : list N := subN v 28 (28 + nib_len (sp_dst_nib v)).
Definition sp_src_host (v : list N) : list N :=
  let o := 28 + nib_len (sp_dst_nib v) in subN v o (o + nib_len (sp_src_nib v)).
Definition sp_path (v : list N) : list N :=
  subN v (28 + nib_len (sp_dst_nib v) + nib_len (sp_src_nib v)) (sp_hdr_len v).
(** the upper-layer payload actually present *)
Definition sp_payload (v : list N) : list N :=
  let hl := sp_hdr_len v in
  subN v hl (hl + N.min (sp_payload_len v) (lenN v - hl)).

Definition sp_scmp_type (v : list N) : N := nthN (sp_payload v) 0.
Definition sp_scmp_code (v : list N) : N := nthN (sp_payload v) 1.

(** the upper-layer checksum of packet [v] verifies (pseudo header taken from [v] itself) *)
Definition packet_checksum_ok (v : list N) : bool :=
  let pl := sp_payload v in
  rfc1071_verifies (pseudo_header (sp_dst_ia v) (sp_src_ia v) (sp_dst_host v) (sp_src_host v)
                                  (lenN pl) (sp_next_hdr v) ++ pl).

(** KNOWN-FINDING class C14-checksum-omits-message: the transmitted checksum is the RFC 1071
    checksum of the pseudo header ALONE (the message bytes were never added) *)
Definition checksum_is_pseudo_only (v : list N) : bool :=
  let pl := sp_payload v in
  let ck := 256 * nthN pl 2 + nthN pl 3 in
  ck =? rfc1071 (pseudo_header (sp_dst_ia v) (sp_src_ia v) (sp_dst_host v) (sp_src_host v)
                               (lenN pl) (sp_next_hdr v)).

(** ** Clause 1: an SCMP error packet built for [offending]:
    at most 1232 bytes, an SCMP error type, the quote is a prefix of the offending packet *)
Definition err_len_ok (pkt : list N) : bool := lenN pkt <=? spec_max_error_packet.
Definition err_quote (pkt : list N) : option (list N) :=
  match spec_err_fixed (sp_scmp_type pkt) with
  | Some f => Some (skipn (N.to_nat f) (sp_payload pkt))
  | None => None
  end.
Definition err_quote_ok (offending pkt : list N) : bool :=
  match err_quote pkt with Some q => is_prefix q offending | None => false end.
(** "as much of the offending packet as possible": nothing more would have fit *)
Definition err_quote_maximal (offending pkt : list N) : bool :=
  match err_quote pkt with
  | Some q => (lenN q =? lenN offending) || (lenN pkt =? spec_max_error_packet)
  | None => false
  end.
Definition err_packet_wellformed (pkt : list N) : bool :=
  (sp_next_hdr pkt =? spec_proto_scmp) && (lenN pkt =? sp_hdr_len pkt + sp_payload_len pkt).

(** ** Clause 2/3: received packets *)

(** a received packet (already a decodable SCION packet) is an SCMP echo request: upper layer
    SCMP, at least the 8 fixed bytes of an echo message present, type 128 *)
Definition spec_is_echo_request (v : list N) : bool :=
  (sp_next_hdr v =? spec_proto_scmp) && (8 <=? lenN (sp_payload v)) && (sp_scmp_type v =? spec_echo_request).
(** ... is an SCMP error message *)
Definition spec_is_scmp_error (v : list N) : bool :=
  (sp_next_hdr v =? spec_proto_scmp) && (1 <=? lenN (sp_payload v)) && spec_is_error_type (sp_scmp_type v).

(** [rep] (an encoded packet) is a faithful echo reply to request [req]: type 129, code 0, same
    identifier, sequence number and data, source and destination swapped *)
Definition echo_reply_ok (req rep : list N) : bool :=
  let q := sp_payload req in let r := sp_payload rep in
  (sp_next_hdr rep =? spec_proto_scmp) && (nthN r 0 =? spec_echo_reply) && (nthN r 1 =? 0)
  && list_eqb N.eqb (subN r 4 (lenN r)) (subN q 4 (lenN q))
  && (lenN r =? lenN q)
  && (sp_dst_ia rep =? sp_src_ia req) && (sp_src_ia rep =? sp_dst_ia req)
  && (sp_dst_nib rep =? sp_src_nib req) && (sp_src_nib rep =? sp_dst_nib req)
  && list_eqb N.eqb (sp_dst_host rep) (sp_src_host req)
  && list_eqb N.eqb (sp_src_host rep) (sp_dst_host req).

(** the SCMP message of [rep] is the echo reply to the echo request in [req] (same identifier,
    sequence number and data), whoever sends it *)
Definition echo_reply_payload_ok (req rep : list N) : bool :=
  let q := sp_payload req in let r := sp_payload rep in
  (sp_next_hdr rep =? spec_proto_scmp) && (nthN r 0 =? spec_echo_reply) && (nthN r 1 =? 0)
  && list_eqb N.eqb (subN r 4 (lenN r)) (subN q 4 (lenN q)) && (lenN r =? lenN q).

(** exactly one reply to a well-formed echo request, none to anything else ([nreplies]: what
    the handler / socket sent in response to [req]; [answerable]: the request's addresses are
    SCION host addresses and its path can be reversed -- otherwise no reply can be addressed).
    Well-formed includes a verifying checksum: a packet whose checksum does not verify was
    corrupted or forged, the receiver cannot trust its type, identifier or data (RFC 4443
    2.3 / RFC 792 practice, which SCMP follows: "malformed"). *)
Definition reply_expected (req : list N) (answerable : bool) : bool :=
  spec_is_echo_request req && packet_checksum_ok req && answerable.
Definition reply_count_ok (req : list N) (answerable : bool) (nreplies : N) : bool :=
  if reply_expected req answerable then nreplies =? 1 else nreplies =? 0.

(** KNOWN-FINDING class C14-bad-checksum-echo-answered: an echo request whose checksum does
    not verify (a malformed SCMP packet) *)
Definition bad_checksum_echo (req : list N) : bool :=
  spec_is_echo_request req && negb (packet_checksum_ok req).

(** a received SCMP error of one of the five defined kinds, its fixed part complete *)
Definition spec_is_known_error (v : list N) : bool :=
  (sp_next_hdr v =? spec_proto_scmp)
  && match spec_err_fixed (sp_scmp_type v) with
     | Some f => (f <=? lenN (sp_payload v)) && (1 <=? lenN (sp_payload v))
     | None => false end.
(** KNOWN-FINDING class C14-unknown-error-type-not-reported: an SCMP error (type < 128, the
    8 common bytes present) of a type the SDK has no model for *)
Definition spec_is_unknown_error (v : list N) : bool :=
  spec_is_scmp_error v && (8 <=? lenN (sp_payload v))
  && match spec_err_fixed (sp_scmp_type v) with Some _ => false | None => true end.

(** a received SCION/UDP packet that a UDP socket must hand to the application: UDP header
    present, UDP length field at least 8, source host an IP address *)
Definition spec_udp_len (v : list N) : N := let p := sp_payload v in 256 * nthN p 4 + nthN p 5.
Definition spec_udp_deliverable (v : list N) : bool :=
  (sp_next_hdr v =? spec_proto_udp) && (8 <=? lenN (sp_payload v)) && (8 <=? spec_udp_len v)
  && ((sp_src_nib v =? 0) || (sp_src_nib v =? 3)).
Definition spec_udp_data (v : list N) : list N :=
  let p := sp_payload v in subN p 8 (N.min (lenN p) (spec_udp_len v)).
