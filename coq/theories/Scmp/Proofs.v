(** C14 -- lemmas about [Scmp.Model]. *)
From Coq Require Import Lia ZifyBool ZifyNat ZifyN.
From Sci Require Import Scmp.Model Scmp.Spec.
Local Open Scope N_scope.
Ltac Zify.zify_post_hook ::= Z.div_mod_to_equations.
Arguments N.add : simpl never.
Arguments N.sub : simpl never.
Arguments N.mul : simpl never.
Arguments N.div : simpl never.
Arguments N.modulo : simpl never.
Arguments N.eqb : simpl never.
Arguments N.ltb : simpl never.
Arguments N.leb : simpl never.

(** * 1. the size bound *)

Lemma from_off_bound hdr n h :
  h + hdr <= SCMP_MAX -> h + from_offending_packet_length hdr n h <= SCMP_MAX.
Proof. unfold from_offending_packet_length. intros H. lia. Qed.

(** the precondition is exact: beyond it nothing is quoted and the packet is too long anyway *)
Lemma from_off_beyond hdr n h :
  SCMP_MAX < h + hdr ->
  from_offending_packet_length hdr n h = hdr /\ SCMP_MAX < h + from_offending_packet_length hdr n h.
Proof. unfold from_offending_packet_length. intros H. lia. Qed.

Lemma from_off_ge hdr n h : hdr <= from_offending_packet_length hdr n h.
Proof. unfold from_offending_packet_length. lia. Qed.

Lemma from_off_included hdr n h :
  from_offending_packet_length hdr n h - hdr = N.min n (SCMP_MAX - h - hdr).
Proof. unfold from_offending_packet_length. lia. Qed.

(** every kind's fixed part fits next to every wire-valid header (finite check over the
    generated table) *)
Lemma kinds_fit :
  forallb (fun th : N * N => ScionHeader_MAX_SIZE_BYTES + snd th <=? SCMP_MAX) scmp_error_kinds = true.
Proof. vm_compute. reflexivity. Qed.

Lemma assocN_In k l v : assocN k l = Some v -> In (k, v) l.
Proof.
  induction l as [|[a b] r IH]; cbn [assocN]; [discriminate|].
  destruct (a =? k) eqn:E.
  - intros H. inversion H; subst. apply N.eqb_eq in E. subst. left. reflexivity.
  - intros H. right. apply IH. exact H.
Qed.

Lemma err_hdr_fits ty hdr : err_hdr ty = Some hdr -> ScionHeader_MAX_SIZE_BYTES + hdr <= SCMP_MAX.
Proof.
  intros H. apply assocN_In in H.
  pose proof kinds_fit as K. rewrite forallb_forall in K. specialize (K _ H). cbn [snd] in K. lia.
Qed.

Lemma valid_header_fits ty hdr h :
  err_hdr ty = Some hdr -> header_size_valid h = true -> h + hdr <= SCMP_MAX.
Proof.
  intros H V. apply err_hdr_fits in H. unfold header_size_valid in V.
  apply andb_prop in V. destruct V as [_ V]. lia.
Qed.

(** * 2. buffers keep their length under [wr]; shape of the encoded error *)

Lemma be_bytes_length n v : length (be_bytes n v) = n.
Proof.
  revert v. induction n as [|n IH]; intros v; cbn [be_bytes]; [reflexivity|].
  rewrite app_length, IH. cbn. lia.
Qed.

Lemma byte_lo_le_hi r : byte_lo r <= byte_hi r.
Proof. unfold byte_lo, byte_hi, r_end, r_start. lia. Qed.

Lemma lane_write_length b r v :
  byte_hi r <= blen b -> length (lane_write b r v) = length b.
Proof.
  intros H. unfold lane_write. pose proof (byte_lo_le_hi r) as L. unfold blen in H.
  rewrite !app_length, be_bytes_length, firstn_length, skipn_length. lia.
Qed.

Lemma wr_length v r x v' : wr v r x = Ok v' -> length v' = length v.
Proof.
  unfold wr. destruct (negb (size_bytes r <=? LANE_BYTES)); [discriminate|].
  destruct (negb (byte_hi r <=? blen v)) eqn:E; [discriminate|].
  intros H. inversion H; subst. apply lane_write_length. lia.
Qed.

Lemma wr_blen v r x v' : wr v r x = Ok v' -> blen v' = blen v.
Proof. intros H. unfold blen. rewrite (wr_length _ _ _ _ H). reflexivity. Qed.

Lemma write_fixed_blen m b b' : write_fixed m b = Ok b' -> blen b' = blen b.
Proof.
  unfold write_fixed.
  repeat match goal with |- context [if ?c then _ else _] => destruct c end;
  unfold obind; intros H;
  repeat match type of H with
  | match wr ?a ?r ?x with _ => _ end = _ =>
      let E := fresh "E" in destruct (wr a r x) eqn:E; [apply wr_blen in E | discriminate | discriminate]
  | wr _ _ _ = Ok _ => apply wr_blen in H
  end; congruence.
Qed.

Lemma zeros_blen n : blen (zeros n) = n.
Proof. unfold blen, zeros. rewrite repeat_length. lia. Qed.

Lemma offending_rng_lo hdr plen : byte_lo (offending_rng hdr plen) = hdr.
Proof. unfold offending_rng, byte_lo, r_start. cbn [fst]. lia. Qed.
Lemma offending_rng_hi hdr plen : hdr <= plen -> byte_hi (offending_rng hdr plen) = plen.
Proof. unfold offending_rng, byte_hi, r_end. cbn [fst snd]. lia. Qed.

(** the encoded error message: its length is the layout's size and everything after the fixed
    part is the first [size - hdr] bytes of the offending packet *)
Lemma encode_err_shape m h hdr b :
  err_hdr (e_ty m) = Some hdr -> encode_err m h = Ok b ->
  let size := from_offending_packet_length hdr (blen (e_off m)) h in
  blen b = size /\ skipn (N.to_nat hdr) b = firstn (N.to_nat (size - hdr)) (e_off m).
Proof.
  intros Hh He. unfold encode_err in He. rewrite Hh in He.
  set (size := from_offending_packet_length hdr (blen (e_off m)) h) in *.
  pose proof (from_off_ge hdr (blen (e_off m)) h) as Hge. fold size in Hge.
  unfold obind in He.
  destruct (wr (zeros size) _ _) as [b1| |] eqn:E1; try discriminate.
  destruct (wr b1 _ _) as [b2| |] eqn:E2; try discriminate.
  destruct (wr b2 _ _) as [b3| |] eqn:E3; try discriminate.
  destruct (write_fixed m b3) as [b4| |] eqn:E4; try discriminate.
  apply wr_blen in E1, E2, E3. apply write_fixed_blen in E4.
  assert (L4 : blen b4 = size) by (rewrite E4, E3, E2, E1; apply zeros_blen).
  rewrite offending_rng_lo, (offending_rng_hi _ _ Hge) in He.
  destruct (index_range (e_off m) 0 (size - hdr)) as [q| |] eqn:E5; try discriminate.
  unfold index_range in E5.
  destruct ((0 <=? size - hdr) && (size - hdr <=? blen (e_off m))) eqn:E6; [|discriminate].
  inversion E5; subst q; clear E5.
  unfold splice in He.
  destruct (negb ((hdr <=? size) && (size <=? blen b4))); [discriminate|].
  destruct (negb (blen (sub (e_off m) 0 (size - hdr)) =? size - hdr)) eqn:E7; [discriminate|].
  inversion He; subst b; clear He.
  assert (Hq : blen (sub (e_off m) 0 (size - hdr)) = size - hdr) by lia.
  unfold blen in *. split.
  - rewrite !app_length, firstn_length, skipn_length. lia.
  - assert (Hf : length (firstn (N.to_nat hdr) b4) = N.to_nat hdr) by (rewrite firstn_length; lia).
    rewrite <- Hf at 1. rewrite skipn_app, skipn_all, Nat.sub_diag. cbn [app skipn].
    rewrite (skipn_all2 b4) by lia. rewrite app_nil_r.
    unfold sub. rewrite N.sub_0_r. cbn [N.to_nat skipn]. reflexivity.
Qed.

Lemma firstn_is_prefix n (l : list N) : is_prefix (firstn n l) l = true.
Proof.
  revert n. induction l as [|a l IH]; intros [|n]; cbn [firstn is_prefix]; try reflexivity.
  rewrite N.eqb_refl, IH. reflexivity.
Qed.

(** * 3. echo handler *)

Lemma obind_ok {A B} (o : res A) (f : A -> res B) b :
  obind o f = Ok b -> exists a, o = Ok a /\ f a = Ok b.
Proof. destruct o; cbn [obind]; intros H; try discriminate. eauto. Qed.

(** everything [echo_handle] decided when it answers *)
Lemma echo_handle_some v p r :
  echo_handle v p = Ok (Some r) ->
  exists sv ty dr,
    as_scmp v = Ok (Some sv) /\ scmp_type sv = Ok ty /\ existsb (N.eqb ty) echo_answered_types = true /\
    rd sv ScmpEchoRequest_IDENTIFIER_RNG 16 = Ok (rp_id r) /\
    rd sv ScmpEchoRequest_SEQUENCE_NUMBER_RNG 16 = Ok (rp_seq r) /\
    scmp_tail_range ty sv = Ok dr /\ rp_data r = sub sv (fst dr) (snd dr) /\
    dp_reverse p = Some (rp_path r) /\
    src_scion_addr v = Ok (Some (rp_dst_ia r, rp_dst_host r)) /\
    dst_scion_addr v = Ok (Some (rp_src_ia r, rp_src_host r)) /\
    encode_echo_reply (rp_id r) (rp_seq r) (rp_data r) = Ok (rp_payload r).
Proof.
  unfold echo_handle. intros H.
  apply obind_ok in H. destruct H as (s & Hs & H). destruct s as [sv|]; [|discriminate].
  apply obind_ok in H. destruct H as (ty & Hty & H).
  destruct (existsb (N.eqb ty) echo_answered_types) eqn:Ea; cbn [negb] in H; [|discriminate].
  apply obind_ok in H. destruct H as (id & Hid & H).
  apply obind_ok in H. destruct H as (sq & Hsq & H).
  apply obind_ok in H. destruct H as (dr & Hdr & H).
  destruct (dp_reverse p) as [rp|] eqn:Hrev; [|discriminate].
  apply obind_ok in H. destruct H as (src & Hsrc & H). destruct src as [[sia sh]|]; [|discriminate].
  apply obind_ok in H. destruct H as (dst & Hdst & H). destruct dst as [[dia dh]|]; [|discriminate].
  apply obind_ok in H. destruct H as (pl & Hpl & H).
  inversion H; subst r; clear H. cbn.
  exists sv, ty, dr. repeat (split; [assumption || reflexivity|]). assumption.
Qed.

Lemma echo_answers_only_echo_request ty :
  existsb (N.eqb ty) echo_answered_types = true -> ty = T_ECHO_REQUEST.
Proof.
  unfold echo_answered_types, T_ECHO_REQUEST. cbn [existsb]. rewrite orb_false_r.
  intros H. apply N.eqb_eq in H. congruence.
Qed.

Lemma echo_handle_not_scmp v p : as_scmp v = Ok None -> echo_handle v p = Ok None.
Proof. intros H. unfold echo_handle. rewrite H. reflexivity. Qed.

Lemma echo_handle_other_type v p sv ty :
  as_scmp v = Ok (Some sv) -> scmp_type sv = Ok ty -> ty <> T_ECHO_REQUEST ->
  echo_handle v p = Ok None.
Proof.
  intros H1 H2 H3. unfold echo_handle. rewrite H1. cbn [obind]. rewrite H2. cbn [obind].
  destruct (existsb (N.eqb ty) echo_answered_types) eqn:E; [|reflexivity].
  apply echo_answers_only_echo_request in E. contradiction.
Qed.

(** * 4. path reversal *)

Lemma hop_count_app a b : hop_count (a ++ b) = hop_count a + hop_count b.
Proof. unfold hop_count. induction a as [|s a IH]; cbn [app fold_right]; [lia|]. rewrite IH. lia. Qed.

Lemma hop_count_rev l : hop_count (rev l) = hop_count l.
Proof.
  induction l as [|s l IH]; cbn [rev]; [reflexivity|].
  rewrite hop_count_app, IH. unfold hop_count. cbn [fold_right]. lia.
Qed.

Lemma hop_count_map_info (f : info_f -> info_f) l :
  hop_count (map (fun s : seg => mkSeg (f (s_info s)) (s_hops s)) l) = hop_count l.
Proof. unfold hop_count. induction l as [|s l IH]; cbn [map fold_right s_hops]; [reflexivity|]. rewrite IH. reflexivity. Qed.

Lemma hop_count_map_rev l :
  hop_count (map (fun s : seg => mkSeg (s_info s) (rev (s_hops s))) l) = hop_count l.
Proof.
  unfold hop_count. induction l as [|s l IH]; cbn [map fold_right s_hops]; [reflexivity|].
  rewrite IH, rev_length. reflexivity.
Qed.

(** all hop fields of a path, in travel order *)
Definition all_hops (segs : list seg) : list hop_f := flat_map s_hops segs.

Lemma all_hops_app a b : all_hops (a ++ b) = all_hops a ++ all_hops b.
Proof. unfold all_hops. apply flat_map_app. Qed.

Lemma all_hops_rev_rev (l : list seg) :
  all_hops (map (fun s : seg => mkSeg (s_info s) (rev (s_hops s))) (rev l)) = rev (all_hops l).
Proof.
  induction l as [|s l IH]; cbn [rev]; [reflexivity|].
  rewrite map_app, all_hops_app, IH. unfold all_hops at 2 3. cbn [map flat_map s_hops].
  rewrite app_nil_r, rev_app_distr. reflexivity.
Qed.

Lemma all_hops_map_info (f : info_f -> info_f) l :
  all_hops (map (fun s : seg => mkSeg (f (s_info s)) (s_hops s)) l) = all_hops l.
Proof. unfold all_hops. induction l as [|s l IH]; cbn [map flat_map s_hops]; [reflexivity|]. rewrite IH. reflexivity. Qed.

(** the reversed standard path: same number of segments and hops, the hop fields in reverse
    order (unchanged), every info field's construction-direction flag toggled, the segments in
    reverse order, and the current indices mirrored *)
Lemma std_reverse_spec ci ch segs q :
  std_reverse ci ch segs = Some q ->
  exists ci' ch' segs',
    q = DP_Std ci' ch' segs' /\
    length segs' = length segs /\
    all_hops segs' = rev (all_hops segs) /\
    map s_info segs' = rev (map (fun s : seg => toggle_cons_dir (s_info s)) segs) /\
    ch < hop_count segs /\ ci < N.of_nat (length segs) /\
    ch' = trunc 8 (hop_count segs - ch - 1) /\ ci' = trunc 8 (N.of_nat (length segs) - ci - 1).
Proof.
  unfold std_reverse. intros H.
  destruct (N.of_nat (length segs) =? 0) eqn:E0; [discriminate|].
  destruct (hop_count segs <=? ch) eqn:E1; [discriminate|].
  destruct (N.of_nat (length segs) <=? ci) eqn:E2; [discriminate|].
  inversion H; subst q; clear H.
  eexists _, _, _. split; [reflexivity|].
  rewrite hop_count_map_rev, hop_count_rev, hop_count_map_info.
  refine (conj _ (conj _ (conj _ (conj _ (conj _ (conj _ _)))))); try reflexivity; try lia.
  - rewrite map_length, rev_length, map_length. reflexivity.
  - rewrite all_hops_rev_rev, all_hops_map_info. reflexivity.
  - rewrite map_map. cbn [s_info]. rewrite <- map_rev. rewrite map_map. cbn [s_info]. rewrite map_rev. reflexivity.
Qed.

(** * 5. the receive loop *)

Definition nh_of (v : bytes) : res N := hv <- pkt_header v ;; hv_next_header hv.
Definition is_udp (v : bytes) : bool := match nh_of v with Ok n => n =? PROTO_UDP | _ => false end.
Definition is_scmp (v : bytes) : bool := match nh_of v with Ok n => n =? PROTO_SCMP | _ => false end.

Definition opt_list {A} (o : option A) : list A := match o with Some x => [x] | None => [] end.
Definition dgrams_of (effs : list (res effect)) : list dgram :=
  flat_map (fun e => match e with Ok e => opt_list (ef_dgram e) | _ => [] end) effs.
Definition errs_of (effs : list (res effect)) : list errcb :=
  flat_map (fun e => match e with Ok e => ef_errs e | _ => [] end) effs.
Definition replies_of (effs : list (res effect)) : list reply :=
  flat_map (fun e => match e with Ok e => ef_replies e | _ => [] end) effs.
(** the loop body has no error exit in the Rust code ([Err] is an artefact of the [res] type of
    the byte readers; every [Err] of a conversion is matched inside the step); a stream is
    regular when no step panicked *)
Definition is_ok {A} (e : res A) : bool := match e with Ok _ => true | _ => false end.
Definition no_panic (effs : list (res effect)) : Prop := Forall (fun e => is_ok e = true) effs.
Lemma is_ok_not_panic {A} (e : res A) : is_ok e = true -> is_panic e = false.
Proof. destruct e; cbn; congruence. Qed.

Lemma recv_step_alt we b v p :
  recv_step we b v p =
  obind (nh_of v) (fun nh =>
    if nh =? PROTO_UDP then d <- recv_udp b v ;; Ok (mkEff d [] [])
    else if nh =? PROTO_SCMP then handlers_run we v p
    else Ok no_effect).
Proof. unfold recv_step, nh_of. destruct (pkt_header v); reflexivity. Qed.

Lemma proto_udp_ne_scmp : (PROTO_UDP =? PROTO_SCMP) = false.
Proof. vm_compute. reflexivity. Qed.

(** a UDP packet: the step does not depend on the handlers, sends nothing, reports nothing *)
Lemma recv_step_udp we b v p :
  is_udp v = true -> recv_step we b v p = (d <- recv_udp b v ;; Ok (mkEff d [] [])).
Proof.
  unfold is_udp. rewrite recv_step_alt. destruct (nh_of v) as [n| |]; try discriminate.
  intros H. cbn [obind]. rewrite H. reflexivity.
Qed.

(** anything else never yields a datagram *)
Lemma recv_step_not_udp we b v p :
  is_udp v = false ->
  match recv_step we b v p with Ok e => ef_dgram e = None | _ => True end.
Proof.
  unfold is_udp. rewrite recv_step_alt. destruct (nh_of v) as [n| |]; cbn [obind]; try exact (fun _ => I).
  intros H. rewrite H. destruct (n =? PROTO_SCMP); [|exact eq_refl].
  unfold handlers_run, obind. destruct (err_handle v); try exact I.
  destruct we; [destruct (echo_handle v p)|]; cbn; trivial.
Qed.

Lemma recv_stream_cons we b v p r :
  recv_stream we b ((v, p) :: r) =
  recv_step we b v p :: (if is_panic (recv_step we b v p) then [] else recv_stream we b r).
Proof. reflexivity. Qed.

(** datagram delivery is a function of the UDP packets of the stream alone: SCMP (and other)
    packets in between, and which SCMP handlers are installed, change nothing *)
Lemma datagrams_unaffected we we' b pkts :
  no_panic (recv_stream we b pkts) ->
  dgrams_of (recv_stream we b pkts)
  = dgrams_of (recv_stream we' b (filter (fun vp : bytes * dppath => is_udp (fst vp)) pkts)).
Proof.
  induction pkts as [|[v p] r IH]; intros NP; [reflexivity|].
  rewrite recv_stream_cons in NP. inversion NP as [|x l Hx' Hl]; subst.
  pose proof (is_ok_not_panic _ Hx') as Hx.
  rewrite Hx in Hl. specialize (IH Hl).
  cbn [filter fst]. destruct (is_udp v) eqn:U.
  - rewrite !recv_stream_cons. rewrite (recv_step_udp we' b v p U), <- (recv_step_udp we b v p U), Hx.
    unfold dgrams_of in *. cbn [flat_map]. rewrite IH. reflexivity.
  - rewrite recv_stream_cons, Hx. unfold dgrams_of in *. cbn [flat_map]. rewrite IH.
    pose proof (recv_step_not_udp we b v p U) as N.
    revert N. destruct (recv_step we b v p) as [e| |]; cbn beta iota; intros N; [rewrite N|..]; reflexivity.
Qed.

(** every SCMP error the error handler accepts reaches the receivers, in arrival order, and
    nothing else does *)
Lemma errors_reach_receivers we b pkts :
  no_panic (recv_stream we b pkts) ->
  errs_of (recv_stream we b pkts)
  = flat_map (fun vp : bytes * dppath =>
                if is_scmp (fst vp)
                then match err_handle (fst vp) with Ok o => opt_list o | _ => [] end
                else []) pkts.
Proof.
  induction pkts as [|[v p] r IH]; intros NP; [reflexivity|].
  rewrite recv_stream_cons in *. inversion NP as [|x l Hx' Hl]; subst.
  pose proof (is_ok_not_panic _ Hx') as Hx.
  rewrite Hx in *. specialize (IH Hl).
  unfold errs_of in *. cbn [flat_map fst]. rewrite IH. f_equal.
  clear IH Hl NP Hx. rewrite recv_step_alt in *. unfold is_scmp.
  destruct (nh_of v) as [n| |]; cbn [obind] in *; try reflexivity.
  destruct (n =? PROTO_UDP) eqn:U.
  - apply N.eqb_eq in U. subst n. rewrite proto_udp_ne_scmp.
    unfold obind. destruct (recv_udp b v); reflexivity.
  - destruct (n =? PROTO_SCMP); [|reflexivity].
    unfold handlers_run, obind in *. destruct (err_handle v) as [o| |]; try reflexivity.
    destruct we; [destruct (echo_handle v p) as [ro| |]|]; try discriminate Hx'; destruct o; reflexivity.
Qed.

(** whatever the socket sends in reply was produced by the echo handler for a packet of the
    stream *)
Lemma replies_only_from_echo we b pkts r :
  In r (replies_of (recv_stream we b pkts)) ->
  we = true /\ exists v p, In (v, p) pkts /\ is_scmp v = true /\ echo_handle v p = Ok (Some r).
Proof.
  induction pkts as [|[v p] l IH]; [intros []|].
  rewrite recv_stream_cons. unfold replies_of. cbn [flat_map]. rewrite in_app_iff. intros [H|H].
  - rewrite recv_step_alt in H. unfold is_scmp. destruct (nh_of v) as [n| |] eqn:En; cbn [obind] in H; try contradiction.
    destruct (n =? PROTO_UDP).
    + unfold obind in H. destruct (recv_udp b v); cbn in H; contradiction.
    + destruct (n =? PROTO_SCMP) eqn:Es; [|cbn in H; contradiction].
      unfold handlers_run, obind in H. destruct (err_handle v); try contradiction.
      destruct we.
      * destruct (echo_handle v p) as [[x|]| |] eqn:Ee; cbn in H; try contradiction.
        destruct H as [H|[]]. subst x. split; [reflexivity|].
        exists v, p. split; [left; reflexivity|]. rewrite En. split; assumption.
      * cbn in H. contradiction.
  - destruct (is_panic (recv_step we b v p)); [destruct H|].
    destruct (IH H) as (Hw & v' & p' & Hin & Hs & He). split; [exact Hw|].
    exists v', p'. split; [right; exact Hin|]. split; assumption.
Qed.

(** * 6. an echo request with decodable addresses and a reversible path IS answered: none of
    the reads after the type check can panic *)

Lemma scmp_header_size_ge8 ty : 8 <= scmp_header_size ty.
Proof.
  unfold scmp_header_size.
  repeat match goal with |- context [if ?c then _ else _] => destruct c end; vm_compute; discriminate.
Qed.

Lemma sub_prefix_blen (b : bytes) n : n <= blen b -> blen (sub b 0 n) = n.
Proof. unfold sub, blen. intros H. rewrite N.sub_0_r. cbn [N.to_nat skipn]. rewrite firstn_length. lia. Qed.

Lemma required_size_scmp_msg_bounds ty b n :
  required_size_scmp_msg ty b = Ok n -> 8 <= n /\ n <= blen b.
Proof.
  unfold required_size_scmp_msg. pose proof (scmp_header_size_ge8 ty) as G.
  destruct (blen b <? scmp_header_size ty) eqn:E; [discriminate|].
  intros H. inversion H; subst n. destruct (scmp_fixed_size ty); lia.
Qed.

Lemma required_size_scmp_bounds b n : required_size_scmp b = Ok n -> 8 <= n /\ n <= blen b.
Proof.
  unfold required_size_scmp.
  destruct (required_size_scmp_msg 256 b) as [m|e|s]; [|destruct e; discriminate|discriminate].
  unfold obind. destruct (get_unchecked b 0 m); try discriminate.
  destruct (rd _ _ _); try discriminate. apply required_size_scmp_msg_bounds.
Qed.

Lemma try_scmp_len pl sv rest : try_from_slice KScmp pl = Ok (sv, rest) -> 8 <= blen sv.
Proof.
  unfold try_from_slice. cbn [required_size]. unfold obind.
  destruct (required_size_scmp pl) as [n| |] eqn:E; try discriminate.
  destruct (blen pl <? n); [discriminate|]. intros H. inversion H; subst.
  destruct (required_size_scmp_bounds _ _ E) as [G L]. rewrite sub_prefix_blen; assumption.
Qed.

Lemma as_scmp_len v sv : as_scmp v = Ok (Some sv) -> 8 <= blen sv.
Proof.
  unfold as_scmp, obind. destruct (pkt_header v); try discriminate.
  destruct (hv_next_header _); try discriminate.
  destruct (negb _); [discriminate|].
  destruct (try_from_slice KScmpPkt v) as [[pv r]| |]; try discriminate.
  destruct (pkt_payload pv) as [pl| |]; try discriminate.
  destruct (try_from_slice KScmp pl) as [[sv' r']| |] eqn:E; try discriminate.
  intros H. inversion H; subst. eapply try_scmp_len. exact E.
Qed.

Lemma rd_ok v r bits :
  (size_bytes r <=? LANE_BYTES) = true -> byte_hi r <= blen v -> exists x, rd v r bits = Ok x.
Proof.
  intros H1 H2. unfold rd. rewrite H1. cbn [negb].
  destruct (byte_hi r <=? blen v) eqn:E; [|lia]. cbn [negb]. eexists. reflexivity.
Qed.

Lemma wr_ok v r x :
  (size_bytes r <=? LANE_BYTES) = true -> byte_hi r <= blen v ->
  exists v', wr v r x = Ok v' /\ blen v' = blen v.
Proof.
  intros H1 H2. unfold wr. rewrite H1. cbn [negb].
  destruct (byte_hi r <=? blen v) eqn:E; [|lia]. cbn [negb]. eexists. split; [reflexivity|].
  unfold blen. rewrite lane_write_length; [reflexivity|exact H2].
Qed.

Lemma echo_tail_ok sv : 8 <= blen sv -> exists dr, scmp_tail_range T_ECHO_REQUEST sv = Ok dr.
Proof.
  intros H. unfold scmp_tail_range. assert (E : scmp_header_size T_ECHO_REQUEST = 8) by reflexivity.
  rewrite E. unfold index_range.
  assert (L : byte_lo (8 * 8, (blen sv - 8) * 8) = 8) by (unfold byte_lo, r_start; cbn [fst]; lia).
  assert (U : byte_hi (8 * 8, (blen sv - 8) * 8) = blen sv) by (unfold byte_hi, r_end; cbn [fst snd]; lia).
  rewrite L, U. destruct ((8 <=? blen sv) && (blen sv <=? blen sv)) eqn:C; [|lia].
  cbn [obind]. eexists. reflexivity.
Qed.

Lemma encode_echo_reply_ok id sq data : exists pl, encode_echo_reply id sq data = Ok pl.
Proof.
  unfold encode_echo_reply.
  assert (EH : ScmpEchoReply_HEADER_SIZE_BYTES = 8) by reflexivity. rewrite EH.
  set (size := blen data + 8).
  assert (Z : blen (zeros size) = size) by apply zeros_blen.
  destruct (wr_ok (zeros size) ScmpEchoReply_TYPE_RNG T_ECHO_REPLY eq_refl) as (b1 & E1 & L1);
    [vm_compute byte_hi; lia|].
  rewrite E1. cbn [obind].
  destruct (wr_ok b1 ScmpEchoReply_CODE_RNG 0 eq_refl) as (b2 & E2 & L2); [vm_compute byte_hi; lia|].
  rewrite E2. cbn [obind].
  destruct (wr_ok b2 ScmpEchoReply_CHECKSUM_RNG 0 eq_refl) as (b3 & E3 & L3); [vm_compute byte_hi; lia|].
  rewrite E3. cbn [obind].
  destruct (wr_ok b3 ScmpEchoReply_IDENTIFIER_RNG (trunc 16 id) eq_refl) as (b4 & E4 & L4); [vm_compute byte_hi; lia|].
  rewrite E4. cbn [obind].
  destruct (wr_ok b4 ScmpEchoReply_SEQUENCE_NUMBER_RNG (trunc 16 sq) eq_refl) as (b5 & E5 & L5); [vm_compute byte_hi; lia|].
  rewrite E5. cbn [obind].
  assert (L : byte_lo (8 * 8, (size - 8) * 8) = 8) by (unfold byte_lo, r_start; cbn [fst]; lia).
  assert (U : byte_hi (8 * 8, (size - 8) * 8) = size) by (unfold byte_hi, r_end; cbn [fst snd]; lia).
  rewrite L, U. unfold index_range.
  assert (D : size - 8 = blen data) by lia. rewrite D.
  destruct ((0 <=? blen data) && (blen data <=? blen data)) eqn:C; [|lia]. cbn [obind].
  unfold splice. assert (B5 : blen b5 = size) by congruence. rewrite B5.
  destruct ((8 <=? size) && (size <=? size)) eqn:C2; [|lia]. cbn [negb].
  rewrite (sub_prefix_blen data (blen data)) by lia. rewrite D, N.eqb_refl. cbn [negb].
  eexists. reflexivity.
Qed.

(** the converse of [echo_handle_some] *)
Lemma echo_handle_answers v p sv rp sa da :
  as_scmp v = Ok (Some sv) -> scmp_type sv = Ok T_ECHO_REQUEST ->
  dp_reverse p = Some rp -> src_scion_addr v = Ok (Some sa) -> dst_scion_addr v = Ok (Some da) ->
  exists r, echo_handle v p = Ok (Some r).
Proof.
  intros H1 H2 H3 H4 H5. pose proof (as_scmp_len v sv H1) as L.
  unfold echo_handle. rewrite H1. cbn [obind]. rewrite H2. cbn [obind].
  assert (A : existsb (N.eqb T_ECHO_REQUEST) echo_answered_types = true) by reflexivity.
  rewrite A. cbn [negb].
  destruct (rd_ok sv ScmpEchoRequest_IDENTIFIER_RNG 16 eq_refl) as (id & Eid); [vm_compute byte_hi; lia|].
  rewrite Eid. cbn [obind].
  destruct (rd_ok sv ScmpEchoRequest_SEQUENCE_NUMBER_RNG 16 eq_refl) as (sq & Esq); [vm_compute byte_hi; lia|].
  rewrite Esq. cbn [obind].
  destruct (echo_tail_ok sv L) as (dr & Edr). rewrite Edr. cbn [obind].
  rewrite H3, H4. cbn [obind]. destruct sa as [sia sh]. rewrite H5. cbn [obind]. destruct da as [dia dh].
  destruct (encode_echo_reply_ok id sq (sub sv (fst dr) (snd dr))) as (pl & Epl). rewrite Epl. cbn [obind].
  eexists. reflexivity.
Qed.

(** the replies the socket sends are exactly the echo handler's answers to the SCMP packets of
    the stream, one per answered packet, in arrival order *)
Lemma replies_exact we b pkts :
  no_panic (recv_stream we b pkts) ->
  replies_of (recv_stream we b pkts)
  = flat_map (fun vp : bytes * dppath =>
                if we && is_scmp (fst vp)
                then match echo_handle (fst vp) (snd vp) with Ok o => opt_list o | _ => [] end
                else []) pkts.
Proof.
  induction pkts as [|[v p] r IH]; intros NP; [reflexivity|].
  rewrite recv_stream_cons in *. inversion NP as [|x l Hx' Hl]; subst.
  pose proof (is_ok_not_panic _ Hx') as Hx.
  rewrite Hx in *. specialize (IH Hl).
  unfold replies_of in *. cbn [flat_map fst snd]. rewrite IH. f_equal.
  clear IH Hl NP Hx. rewrite recv_step_alt in *. unfold is_scmp.
  destruct (nh_of v) as [n| |]; cbn [obind] in *; try (destruct we; reflexivity).
  destruct (n =? PROTO_UDP) eqn:U.
  - apply N.eqb_eq in U. subst n. rewrite proto_udp_ne_scmp. rewrite andb_false_r.
    unfold obind. destruct (recv_udp b v); reflexivity.
  - destruct (n =? PROTO_SCMP); [|rewrite andb_false_r; reflexivity].
    unfold handlers_run, obind in *. destruct (err_handle v) as [o| |]; try discriminate Hx'.
    destruct we; [destruct (echo_handle v p) as [ro| |]|]; try discriminate Hx'; try reflexivity.
Qed.

(** * 7. no SCMP error is answered by the simulator or the gateway *)

Lemma sim_no_reply_to_errors v p sv ty :
  is_scmp v = true -> as_scmp v = Ok (Some sv) -> scmp_type sv = Ok ty -> ty < SIM_ERROR_TYPE_BOUND ->
  sim_reply_target v p = Ok None.
Proof.
  unfold is_scmp, nh_of, sim_reply_target. intros Hn Ha Ht Hlt.
  destruct (pkt_header v) as [hv| |]; cbn [obind] in *; try discriminate.
  destruct (hv_next_header hv) as [nh| |]; cbn [obind] in *; try discriminate.
  apply N.eqb_eq in Hn. subst nh.
  assert (E1 : (PROTO_SCMP =? PROTO_UDP) = false) by reflexivity. rewrite E1, N.eqb_refl.
  rewrite Ha. cbn [obind]. rewrite Ht. cbn [obind].
  destruct (ty <? SIM_ERROR_TYPE_BOUND) eqn:E; [|lia]. rewrite orb_true_r. reflexivity.
Qed.

Lemma gateway_no_reply_to_errors d v rest hv ty r :
  try_from_slice KRaw d = Ok (v, rest) -> pkt_header v = Ok hv -> hv_next_header hv = Ok PROTO_SCMP ->
  pkt_payload v = Ok (ty :: r) -> ty < GW_ERROR_TYPE_BOUND ->
  gateway_suppresses false d = Ok true.
Proof.
  intros H1 H2 H3 H4 H5. unfold gateway_suppresses. rewrite H1. cbn [obind fst]. rewrite H2. cbn [obind].
  rewrite H3. cbn [obind]. rewrite N.eqb_refl. cbn [negb]. rewrite H4. cbn [obind].
  destruct (ty <? GW_ERROR_TYPE_BOUND) eqn:E; [reflexivity|lia].
Qed.
