(** C14 -- no step of the receive loop panics on a decodable raw packet: neither handler, nor
    the UDP branch.  (A panic in a handler would end the receive task: "without affecting
    datagram delivery" includes this.)  Uses the raw-view facts of [Scmp.SpecTie]. *)
From Coq Require Import Lia ZifyBool ZifyNat ZifyN.
From Sci Require Import Scmp.Model Scmp.Spec Scmp.Proofs Scmp.Bytes Scmp.SpecTie.
Local Open Scope N_scope.
Ltac Zify.zify_post_hook ::= Z.div_mod_to_equations.
Arguments N.add : simpl never.
Arguments N.sub : simpl never.
Arguments N.mul : simpl never.
Arguments N.div : simpl never.
Arguments N.modulo : simpl never.
Arguments N.eqb : simpl never.
Arguments N.ltb : simpl never.
Arguments N.leb : simpl never.
Arguments N.pow : simpl never.
Arguments N.min : simpl never.

(** * reads on two prefixes of the same buffer agree *)

Lemma firstn_skipn_firstn {A} (l : list A) m a c :
  (c + a <= m)%nat -> firstn c (skipn a (firstn m l)) = firstn c (skipn a l).
Proof.
  revert m l c. induction a as [|a IH]; intros m l c H.
  - cbn [skipn]. revert m l H. induction c as [|c IHc]; intros m l H; [reflexivity|].
    destruct m as [|m]; [lia|]. destruct l as [|x l]; [reflexivity|]. cbn [firstn]. f_equal. apply IHc. lia.
  - destruct m as [|m]; [lia|]. destruct l as [|x l]; [reflexivity|]. cbn [firstn skipn]. apply IH. lia.
Qed.

Lemma sub_sub_prefix (v : bytes) n lo hi : hi <= n -> sub (sub v 0 n) lo hi = sub v lo hi.
Proof.
  intros H. unfold sub. rewrite N.sub_0_r. cbn [N.to_nat skipn].
  destruct (N.le_gt_cases hi lo) as [L|G].
  - replace (hi - lo) with 0 by lia. reflexivity.
  - apply firstn_skipn_firstn. lia.
Qed.

Lemma rd_prefix (v : bytes) n r bits :
  byte_hi r <= n -> n <= blen v -> rd (sub v 0 n) r bits = rd v r bits.
Proof.
  intros H1 H2. unfold rd. rewrite sub_prefix_blen by exact H2.
  destruct (negb (size_bytes r <=? LANE_BYTES)); [reflexivity|].
  destruct (byte_hi r <=? n) eqn:A; destruct (byte_hi r <=? blen v) eqn:B; try lia. cbn [negb].
  f_equal. f_equal. unfold lane_read. rewrite sub_sub_prefix by exact H1. reflexivity.
Qed.

(** * the address part of a decodable header *)

Lemma hat_size_ge4 n : 4 <= hat_size n /\ hat_size n <= 16.
Proof.
  unfold hat_size. repeat match goal with |- context [if ?c then _ else _] => destruct c end;
  try (vm_compute; split; discriminate).
  assert (E3 : N.land n 3 = n mod 4) by (change 3 with (N.ones 2); apply N.land_ones).
  rewrite E3. pose proof (N.mod_lt n 4). lia.
Qed.

Lemma header_layout_addr v l :
  header_layout v = Ok l ->
  exists d s pt,
    rd v CommonHeader_DST_ADDR_INFO_RNG 8 = Ok d /\ rd v CommonHeader_SRC_ADDR_INFO_RNG 8 = Ok s /\
    rd v CommonHeader_PATH_TYPE_RNG 8 = Ok pt /\
    CommonHeader_SIZE_BYTES + addr_hdr_size (hat_size s) (hat_size d) <= hl_header_len l /\
    (pt = PT_ONEHOP ->
     CommonHeader_SIZE_BYTES + addr_hdr_size (hat_size s) (hat_size d) + OneHopPath_SIZE_BYTES <= hl_header_len l).
Proof.
  intros H. unfold header_layout in H.
  destruct (split_off_checked v CommonHeader_SIZE_BYTES) as [cb|] eqn:Es; [|discriminate].
  apply split_off_some' in Es. destruct Es as [Ecb L12].
  assert (S12 : CommonHeader_SIZE_BYTES = 12) by reflexivity. rewrite S12 in *.
  inv_bind H. inversion H; subst l; clear H. cbn [hl_header_len].
  repeat match goal with
  | H : (_ <? _) = false |- _ => apply N.ltb_ge in H
  | H : negb (_ =? _) = false |- _ => apply Bool.negb_false_iff in H; apply N.eqb_eq in H
  end.
  subst cb.
  repeat match goal with
  | E : rd (sub v 0 12) ?r ?b = Ok _ |- _ => rewrite (rd_prefix v 12 r b) in E by (first [vm_compute; discriminate | exact L12])
  end.
  match goal with
  | Ed : rd v CommonHeader_DST_ADDR_INFO_RNG 8 = Ok ?d,
    Es : rd v CommonHeader_SRC_ADDR_INFO_RNG 8 = Ok ?s,
    Ep : rd v CommonHeader_PATH_TYPE_RNG 8 = Ok ?pt |- _ =>
    exists d, s, pt; refine (conj Ed (conj Es (conj Ep _)))
  end.
  split; [lia|].
  intros Hp. subst. assert (N1 : (PT_ONEHOP =? PT_SCION) = false) by reflexivity.
  rewrite N1, N.eqb_refl in *.
  match goal with E : Ok PL_OneHop = Ok ?p |- _ => inversion E; subst p end.
  cbn [path_layout_size] in *. lia.
Qed.

(** * accessors of the header view of a decodable raw packet *)

Lemma addr_hdr_size_comm a b : addr_hdr_size a b = addr_hdr_size b a.
Proof. unfold addr_hdr_size. f_equal. lia. Qed.

Lemma addr_hdr_size_val a b : addr_hdr_size a b = 16 + a + b.
Proof. unfold addr_hdr_size. assert (E : AddressHeader_FIXED_SIZE_BITS = 128) by reflexivity. rewrite E. lia. Qed.

Section HeaderView.
Variable v : bytes.
Variable l : hdr_layout.
Hypothesis Hb : bytes_ok v = true.
Hypothesis Hl : header_layout v = Ok l.

Let hl := 4 * nthN v 5.
Let hv := sub v 0 hl.

Lemma hv_facts :
  12 <= hl /\ hl <= blen v /\ blen hv = hl /\ hl_header_len l = hl.
Proof.
  destruct (header_layout_facts v l Hb Hl) as (L12 & E & G & U & _). fold hl in E. rewrite E in *.
  unfold hv. rewrite sub_prefix_blen by lia. repeat split; lia.
Qed.

Lemma hv_rd r bits : byte_hi r <= 12 -> rd hv r bits = rd v r bits.
Proof. intros H. destruct hv_facts as (A & B & _). unfold hv. apply rd_prefix; lia. Qed.

Lemma hv_path_range_ok : exists x, hv_path_range hv = Ok x.
Proof.
  destruct hv_facts as (A & B & C & D).
  destruct (header_layout_addr v l Hl) as (d & s & pt & Ed & Es & Ep & Hoff & Hone). rewrite D in *.
  assert (S12 : CommonHeader_SIZE_BYTES = 12) by reflexivity. rewrite S12 in *.
  unfold hv_path_range, hv_dst_addr_type, hv_src_addr_type, hv_header_len, hv_path_type.
  rewrite !hv_rd by (vm_compute; discriminate). rewrite Ed, Es. cbn [obind].
  change CommonHeader_HEADER_LEN_RNG with (8 * 5, 8 * 1). rewrite (rd_byte v 5 Hb) by lia. cbn [obind].
  rewrite Ep. cbn [obind]. rewrite S12, (addr_hdr_size_comm (hat_size d) (hat_size s)).
  replace (nthN v 5 * 4) with hl by (unfold hl; lia).
  destruct (pt =? PT_EMPTY); [eexists; reflexivity|].
  destruct (pt =? PT_ONEHOP) eqn:E1.
  - apply N.eqb_eq in E1. specialize (Hone E1). unfold get_unchecked. rewrite C.
    assert (O32 : OneHopPath_SIZE_BYTES = 32) by reflexivity. rewrite O32 in *.
    match goal with |- context [(?a <=? ?b) && (?c <=? ?d)] => destruct ((a <=? b) && (c <=? d)) eqn:Q; [|lia] end.
    cbn [obind]. eexists. reflexivity.
  - unfold get_unchecked. rewrite C.
    match goal with |- context [(?a <=? ?b) && (?c <=? ?d)] => destruct ((a <=? b) && (c <=? d)) eqn:Q; [|lia] end.
    cbn [obind]. eexists. reflexivity.
Qed.

Lemma hv_hosts_ok :
  (exists x, hv_src_host hv = Ok x) /\ (exists x, hv_dst_host hv = Ok x) /\
  (exists x, hv_src_ia hv = Ok x) /\ (exists x, hv_dst_ia hv = Ok x).
Proof.
  destruct hv_facts as (A & B & C & D).
  destruct (header_layout_addr v l Hl) as (d & s & pt & Ed & Es & Ep & Hoff & _). rewrite D in *.
  assert (S12 : CommonHeader_SIZE_BYTES = 12) by reflexivity. rewrite S12 in *.
  rewrite addr_hdr_size_val in Hoff.
  destruct (hat_size_ge4 d) as [Gd Ld]. destruct (hat_size_ge4 s) as [Gs Ls].
  assert (F : AddressHeader_FIXED_SIZE_BITS = 128) by reflexivity.
  refine (conj _ (conj _ (conj _ _))).
  - unfold hv_src_host, hv_src_host_raw, hv_src_addr_type, hv_dst_addr_type.
    rewrite !hv_rd by (vm_compute; discriminate). rewrite Ed, Es. cbn [obind].
    unfold get_unchecked, src_host_rng, rshift, rng_of_range, byte_lo, byte_hi, r_start, r_end. cbn [fst snd].
    rewrite F, S12, C.
    match goal with |- context [(?a <=? ?b) && (?c <=? ?d)] => destruct ((a <=? b) && (c <=? d)) eqn:Q; [|lia] end.
    cbn [obind]. eexists. reflexivity.
  - unfold hv_dst_host, hv_dst_host_raw, hv_src_addr_type, hv_dst_addr_type.
    rewrite !hv_rd by (vm_compute; discriminate). rewrite Ed, Es. cbn [obind].
    unfold get_unchecked, dst_host_rng, rshift, rng_of_range, byte_lo, byte_hi, r_start, r_end. cbn [fst snd].
    rewrite F, S12, C.
    match goal with |- context [(?a <=? ?b) && (?c <=? ?d)] => destruct ((a <=? b) && (c <=? d)) eqn:Q; [|lia] end.
    cbn [obind]. eexists. reflexivity.
  - unfold hv_src_ia. apply rd_ok; [reflexivity|]. rewrite C.
    assert (E : byte_hi (rshift AddressHeader_SRC_IA_RNG CommonHeader_SIZE_BYTES) = 28) by reflexivity. rewrite E. lia.
  - unfold hv_dst_ia. apply rd_ok; [reflexivity|]. rewrite C.
    assert (E : byte_hi (rshift AddressHeader_DST_IA_RNG CommonHeader_SIZE_BYTES) = 20) by reflexivity. rewrite E. lia.
Qed.
End HeaderView.

(** * the conversions and handlers never panic on a decodable raw packet *)

Definition raw_ok (v : bytes) : Prop := bytes_ok v = true /\ required_size_raw v = Ok (blen v).

Lemma raw_layout v : raw_ok v -> exists l, header_layout v = Ok l /\ N.min (hl_header_len l + hl_payload_len l) (blen v) = blen v.
Proof.
  intros [Hb Hr]. unfold required_size_raw, obind in Hr.
  destruct (header_layout v) as [l| |]; try discriminate. exists l. split; [reflexivity|]. congruence.
Qed.

Lemma src_scion_addr_ok v : raw_ok v -> exists o, src_scion_addr v = Ok o.
Proof.
  intros R. destruct (raw_layout v R) as (l & Hl & _). destruct R as [Hb _].
  unfold src_scion_addr. rewrite (raw_pkt_header v l Hb Hl). cbn [obind].
  destruct (hv_hosts_ok v l Hb Hl) as ((x & Hx) & _ & (i & Hi) & _).
  rewrite Hx. cbn [obind]. destruct (scion_host x); [|eexists; reflexivity].
  rewrite Hi. cbn [obind]. eexists. reflexivity.
Qed.

Lemma dst_scion_addr_ok v : raw_ok v -> exists o, dst_scion_addr v = Ok o.
Proof.
  intros R. destruct (raw_layout v R) as (l & Hl & _). destruct R as [Hb _].
  unfold dst_scion_addr. rewrite (raw_pkt_header v l Hb Hl). cbn [obind].
  destruct (hv_hosts_ok v l Hb Hl) as (_ & (x & Hx) & _ & (i & Hi)).
  rewrite Hx. cbn [obind]. destruct (scion_host x); [|eexists; reflexivity].
  rewrite Hi. cbn [obind]. eexists. reflexivity.
Qed.

(** the SCMP payload constructor on any well-formed byte string: Ok or Err *)
Lemma required_size_scmp_cases (pl : bytes) :
  bytes_ok pl = true ->
  (exists n, required_size_scmp pl = Ok n) \/ (exists e, required_size_scmp pl = Err e).
Proof.
  intros Hb. unfold required_size_scmp.
  assert (S8 : scmp_header_size 256 = 8) by reflexivity.
  assert (F : scmp_fixed_size 256 = false) by reflexivity.
  assert (E0 : required_size_scmp_msg 256 pl
               = if blen pl <? 8 then Err (BufTooSmall (scmp_at 256) 8 (blen pl)) else Ok (blen pl))
    by (unfold required_size_scmp_msg; rewrite S8, F; reflexivity).
  rewrite E0. destruct (blen pl <? 8) eqn:C; [right; eexists; reflexivity|].
  unfold obind, get_unchecked. destruct ((0 <=? blen pl) && (blen pl <=? blen pl)) eqn:C2; [|lia].
  rewrite sub_all. change ScmpUnknownMessage_TYPE_RNG with (8 * 0, 8 * 1).
  rewrite (rd_byte pl 0 Hb) by lia.
  unfold required_size_scmp_msg. destruct (blen pl <? scmp_header_size (nthN pl 0)); [right|left]; eexists; reflexivity.
Qed.

Lemma as_scmp_ok v : raw_ok v -> exists o, as_scmp v = Ok o.
Proof.
  intros R. destruct (raw_layout v R) as (l & Hl & Hmin). destruct R as [Hb Hr].
  pose proof (raw_payload v l Hb Hl) as Hp. pose proof (bytes_ok_payload v Hb) as Hbp.
  unfold as_scmp. rewrite (raw_pkt_header v l Hb Hl). cbn [obind].
  rewrite (raw_next_header v l Hb Hl). cbn [obind].
  destruct (negb (nthN v 4 =? PROTO_SCMP)); [eexists; reflexivity|].
  unfold try_from_slice at 1. cbn [required_size]. unfold required_size_scmp_pkt.
  rewrite Hr. cbn [obind]. rewrite Hp. cbn [obind].
  destruct (required_size_scmp_cases (sp_payload v) Hbp) as [(n & E)|(e & E)]; rewrite E; cbn [obind].
  - rewrite N.ltb_irrefl, sub_all, Hp. cbn [obind].
    unfold try_from_slice. cbn [required_size]. rewrite E. cbn [obind].
    destruct (required_size_scmp_bounds _ _ E) as [G L].
    destruct (blen (sp_payload v) <? n) eqn:Ln; [lia|]. eexists. reflexivity.
  - eexists. reflexivity.
Qed.

Lemma tail_ok ty sv : scmp_header_size ty <= blen sv -> exists dr, scmp_tail_range ty sv = Ok dr.
Proof.
  intros H. unfold scmp_tail_range, index_range. set (h := scmp_header_size ty) in *.
  assert (L : byte_lo (h * 8, (blen sv - h) * 8) = h) by (unfold byte_lo, r_start; cbn [fst]; lia).
  assert (U : byte_hi (h * 8, (blen sv - h) * 8) = blen sv) by (unfold byte_hi, r_end; cbn [fst snd]; lia).
  rewrite L, U. destruct ((h <=? blen sv) && (blen sv <=? blen sv)) eqn:C; [|lia].
  cbn [obind]. eexists. reflexivity.
Qed.

Lemma required_size_scmp_msg_hdr ty b n :
  required_size_scmp_msg ty b = Ok n -> scmp_header_size ty <= n /\ n <= blen b.
Proof.
  unfold required_size_scmp_msg. destruct (blen b <? scmp_header_size ty) eqn:E; [discriminate|].
  intros H. inversion H. destruct (scmp_fixed_size ty); lia.
Qed.

(** the SCMP view a decodable raw packet converts to: at least the fixed part of its type *)
Lemma as_scmp_view_facts v sv :
  raw_ok v -> as_scmp v = Ok (Some sv) ->
  exists ty, scmp_type sv = Ok ty /\ 8 <= blen sv /\ scmp_header_size ty <= blen sv.
Proof.
  intros [Hb Hr] Ha. destruct (as_scmp_literal v sv Hb Hr Ha) as (_ & G8 & Ety & n & En & Esv).
  exists (sp_scmp_type v). split; [exact Ety|].
  destruct (required_size_scmp_msg_hdr _ _ _ En) as [A B].
  pose proof (scmp_header_size_ge8 (sp_scmp_type v)) as G.
  subst sv. rewrite sub_prefix_blen by exact B. split; lia.
Qed.

Ltac rd_step sv :=
  match goal with
  | |- context [rd sv ?r ?b] =>
    let x := fresh "x" in let E := fresh "E" in
    destruct (rd_ok sv r b eq_refl) as (x & E); [vm_compute byte_hi; lia | rewrite E; cbn [obind]; clear E]
  end.

Lemma err_to_model_ok ty sv :
  scmp_is_error ty = true -> scmp_header_size ty <= blen sv -> exists m, err_to_model ty sv = Ok m.
Proof.
  intros He Hh.
  assert (K : In ty [1; 2; 4; 5; 6]).
  { unfold scmp_is_error, scmp_is_error_types in He. apply existsb_exists in He.
    destruct He as (x & Hx & Ex). apply N.eqb_eq in Ex. subst x. exact Hx. }
  destruct (tail_ok ty sv Hh) as (dr & Edr).
  unfold err_to_model, scmp_code. rewrite Edr.
  cbn [In] in K. destruct K as [K|[K|[K|[K|[K|[]]]]]]; subst ty;
    (assert (H8 : 8 <= blen sv) by (revert Hh; vm_compute scmp_header_size; lia));
    revert Hh; vm_compute scmp_header_size; intros Hh;
    eqb_consts; repeat rd_step sv; cbn [obind]; eexists; reflexivity.
Qed.

Lemma err_handle_ok v : raw_ok v -> exists o, err_handle v = Ok o.
Proof.
  intros R. destruct (raw_layout v R) as (l & Hl & _). pose proof R as [Hb Hr].
  unfold err_handle. rewrite (raw_pkt_header v l Hb Hl). cbn [obind].
  destruct (hv_path_range_ok v l Hb Hl) as ([[pt lo] hi] & Ep). rewrite Ep. cbn [obind].
  destruct (as_scmp_ok v R) as (o & Ea). rewrite Ea. cbn [obind].
  destruct o as [sv|]; [|eexists; reflexivity].
  destruct (as_scmp_view_facts v sv R Ea) as (ty & Ety & G8 & Gh). rewrite Ety. cbn [obind].
  destruct (scmp_is_error ty) eqn:Eerr; cbn [negb]; [|eexists; reflexivity].
  destruct (err_to_model_ok ty sv Eerr Gh) as (m & Em). rewrite Em. cbn [obind]. eexists. reflexivity.
Qed.

Lemma echo_handle_ok v p : raw_ok v -> exists o, echo_handle v p = Ok o.
Proof.
  intros R. unfold echo_handle.
  destruct (as_scmp_ok v R) as (o & Ea). rewrite Ea. cbn [obind].
  destruct o as [sv|]; [|eexists; reflexivity].
  destruct (as_scmp_view_facts v sv R Ea) as (ty & Ety & G8 & Gh). rewrite Ety. cbn [obind].
  destruct (existsb (N.eqb ty) echo_answered_types) eqn:Ea2; cbn [negb]; [|eexists; reflexivity].
  apply echo_answers_only_echo_request in Ea2. subst ty.
  repeat rd_step sv.
  destruct (echo_tail_ok sv G8) as (dr & Edr). rewrite Edr. cbn [obind].
  destruct (dp_reverse p); [|eexists; reflexivity].
  destruct (src_scion_addr_ok v R) as (so & Es). rewrite Es. cbn [obind].
  destruct so as [[sia sh]|]; [|eexists; reflexivity].
  destruct (dst_scion_addr_ok v R) as (d0 & Ed). rewrite Ed. cbn [obind].
  destruct d0 as [[dia dh]|]; [|eexists; reflexivity].
  rewrite encode_echo_reply_closed. cbn [obind]. eexists. reflexivity.
Qed.

(** * the UDP branch *)

Lemma required_size_udp_cases (pl : bytes) :
  (exists n, required_size_udp pl = Ok n /\ 8 <= n /\ n <= blen pl) \/ (exists e, required_size_udp pl = Err e).
Proof.
  unfold required_size_udp. assert (H8 : UdpDatagram_HEADER_SIZE_BYTES = 8) by reflexivity. rewrite H8.
  destruct (blen pl <? 8) eqn:C; [right; eexists; reflexivity|].
  destruct (rd_ok pl UdpDatagram_LENGTH_RNG 16 eq_refl) as (x & E); [vm_compute byte_hi; lia|].
  rewrite E. cbn [obind]. destruct (x <? 8) eqn:C2; [right; eexists; reflexivity|].
  left. eexists. split; [reflexivity|]. lia.
Qed.

Lemma recv_udp_ok b v : raw_ok v -> exists o, recv_udp b v = Ok o.
Proof.
  intros R. destruct (raw_layout v R) as (l & Hl & Hmin). pose proof R as [Hb Hr].
  pose proof (raw_payload v l Hb Hl) as Hp.
  unfold recv_udp. unfold try_from_slice at 1. cbn [required_size]. unfold required_size_udp_pkt.
  rewrite Hr. cbn [obind]. rewrite Hp. cbn [obind].
  destruct (required_size_udp_cases (sp_payload v)) as [(n & E & G & L)|(e & E)]; rewrite E; cbn [obind];
    [|eexists; reflexivity].
  rewrite N.ltb_irrefl, sub_all.
  (* udp(): the datagram view *)
  unfold udp_view. rewrite Hp. cbn [obind].
  unfold try_from_slice. cbn [required_size]. rewrite E. cbn [obind].
  destruct (blen (sp_payload v) <? n) eqn:Ln; [lia|]. cbv beta iota. cbn [obind].
  set (uv := sub (sp_payload v) 0 n). assert (Lu : blen uv = n) by (unfold uv; apply sub_prefix_blen; exact L).
  unfold udp_src_port. destruct (rd_ok uv UdpDatagram_SRC_PORT_RNG 16 eq_refl) as (port & Eport); [vm_compute byte_hi; lia|].
  rewrite Eport. cbn [obind].
  rewrite (raw_pkt_header v l Hb Hl). cbn [obind].
  destruct (hv_hosts_ok v l Hb Hl) as ((x & Hx) & _ & (i & Hi) & _).
  rewrite Hi. cbn [obind]. rewrite Hx. cbn [obind].
  destruct (scion_host x) as [a|]; [|eexists; reflexivity].
  destruct (is_ip_host a); cbn [negb]; [|eexists; reflexivity].
  unfold udp_payload_range, get_unchecked. assert (H8 : UdpDatagram_HEADER_SIZE_BYTES = 8) by reflexivity. rewrite H8, Lu.
  destruct ((8 <=? n) && (n <=? n)) eqn:C; [|lia]. cbn [obind]. eexists. reflexivity.
Qed.

(** * every step, every stream *)

Lemma recv_step_ok we b v p : raw_ok v -> exists e, recv_step we b v p = Ok e.
Proof.
  intros R. destruct (raw_layout v R) as (l & Hl & _). pose proof R as [Hb Hr].
  unfold recv_step. rewrite (raw_pkt_header v l Hb Hl). cbn [obind].
  rewrite (raw_next_header v l Hb Hl). cbn [obind].
  destruct (nthN v 4 =? PROTO_UDP).
  - destruct (recv_udp_ok b v R) as (o & E). rewrite E. cbn [obind]. eexists. reflexivity.
  - destruct (nthN v 4 =? PROTO_SCMP); [|eexists; reflexivity].
    unfold handlers_run. destruct (err_handle_ok v R) as (o & E). rewrite E. cbn [obind].
    destruct we.
    + destruct (echo_handle_ok v p R) as (o2 & E2). rewrite E2. cbn [obind]. eexists. reflexivity.
    + cbn [obind]. eexists. reflexivity.
Qed.

Theorem recv_stream_never_panics we b pkts :
  (forall vp, In vp pkts -> raw_ok (fst vp)) -> no_panic (recv_stream we b pkts).
Proof.
  induction pkts as [|[v p] r IH]; intros H; [constructor|].
  rewrite recv_stream_cons. destruct (recv_step_ok we b v p (H (v, p) (or_introl eq_refl))) as (e & E).
  rewrite E. cbn [is_panic]. constructor; [reflexivity|]. apply IH. intros vp Hin. apply H. right. exact Hin.
Qed.

(** * completeness: every literal SCMP error of a defined kind is reported *)

Lemma known_error_reported v :
  raw_ok v -> spec_is_known_error v = true -> exists cb, err_handle v = Ok (Some cb).
Proof.
  intros R Hk. destruct (raw_layout v R) as (l & Hl & Hmin). pose proof R as [Hb Hr].
  pose proof (raw_payload v l Hb Hl) as Hp. pose proof (bytes_ok_payload v Hb) as Hbp.
  unfold spec_is_known_error in Hk. apply andb_prop in Hk. destruct Hk as [Hnh Hk].
  unfold sp_next_hdr, spec_proto_scmp in Hnh.
  destruct (spec_err_fixed (sp_scmp_type v)) as [f|] eqn:Ef; [|discriminate].
  apply andb_prop in Hk. destruct Hk as [Hf H1]. apply N.leb_le in Hf, H1.
  unfold lenN in Hf, H1. fold (blen (sp_payload v)) in Hf, H1.
  set (pl := sp_payload v) in *. set (ty := sp_scmp_type v) in *.
  assert (K : In ty [1; 2; 4; 5; 6] /\ scmp_header_size ty = f /\ scmp_fixed_size ty = false /\ 8 <= f).
  { unfold spec_err_fixed in Ef.
    destruct ty as [|p]; [discriminate|].
    repeat (destruct p as [p|p|]; try discriminate Ef); inversion Ef; subst f; cbn [In];
      (split; [tauto|]); repeat split; try reflexivity; lia. }
  destruct K as (K & Hh & Hnf & G8).
  (* the SCMP view exists and is the whole payload *)
  assert (Ers : required_size_scmp pl = Ok (blen pl)).
  { unfold required_size_scmp.
    assert (S8 : scmp_header_size 256 = 8) by reflexivity. assert (F : scmp_fixed_size 256 = false) by reflexivity.
    assert (E0 : required_size_scmp_msg 256 pl = Ok (blen pl)).
    { unfold required_size_scmp_msg. rewrite S8, F. destruct (blen pl <? 8) eqn:C; [lia|reflexivity]. }
    rewrite E0. unfold obind, get_unchecked. destruct ((0 <=? blen pl) && (blen pl <=? blen pl)) eqn:C2; [|lia].
    rewrite sub_all. change ScmpUnknownMessage_TYPE_RNG with (8 * 0, 8 * 1). rewrite (rd_byte pl 0 Hbp) by lia.
    change (nthN pl 0) with ty. unfold required_size_scmp_msg. rewrite Hh, Hnf.
    destruct (blen pl <? f) eqn:C3; [lia|reflexivity]. }
  assert (Ea : as_scmp v = Ok (Some pl)).
  { unfold as_scmp. rewrite (raw_pkt_header v l Hb Hl). cbn [obind].
    rewrite (raw_next_header v l Hb Hl). cbn [obind].
    assert (P : PROTO_SCMP = 202) by reflexivity. rewrite P, Hnh. cbn [negb].
    unfold try_from_slice at 1. cbn [required_size]. unfold required_size_scmp_pkt.
    rewrite Hr. cbn [obind]. rewrite Hp. cbn [obind]. fold pl. rewrite Ers. cbn [obind].
    rewrite N.ltb_irrefl, sub_all, Hp. cbn [obind]. fold pl.
    unfold try_from_slice. cbn [required_size]. rewrite Ers. cbn [obind].
    rewrite N.ltb_irrefl, sub_all. reflexivity. }
  unfold err_handle. rewrite (raw_pkt_header v l Hb Hl). cbn [obind].
  destruct (hv_path_range_ok v l Hb Hl) as ([[pt lo] hi] & Ep). rewrite Ep. cbn [obind].
  rewrite Ea. cbn [obind].
  assert (Ety : scmp_type pl = Ok ty).
  { unfold scmp_type. change ScmpUnknownMessage_TYPE_RNG with (8 * 0, 8 * 1). rewrite (rd_byte pl 0 Hbp) by lia. reflexivity. }
  rewrite Ety. cbn [obind].
  assert (Eerr : scmp_is_error ty = true).
  { unfold scmp_is_error, scmp_is_error_types. apply existsb_exists. exists ty. split; [exact K|apply N.eqb_refl]. }
  rewrite Eerr. cbn [negb].
  destruct (err_to_model_ok ty pl Eerr) as (m & Em); [rewrite Hh; lia|].
  rewrite Em. cbn [obind]. eexists. reflexivity.
Qed.

(** * addresses, by literal offsets *)

Lemma be_val_app acc l : be_val acc l = acc * 256 ^ N.of_nat (length l) + be_val 0 l.
Proof.
  revert acc. induction l as [|a l IH]; intros acc.
  - cbn [be_val length]. change (N.of_nat 0) with 0. rewrite N.pow_0_r. lia.
  - cbn [be_val length]. rewrite IH. rewrite (IH (0 * 256 + a)).
    rewrite Nat2N.inj_succ, N.pow_succ_r'. lia.
Qed.

Lemma be_val_lt (l : bytes) : bytes_ok l = true -> be_val 0 l < 256 ^ N.of_nat (length l).
Proof.
  induction l as [|a l IH]; intros H.
  - cbn. lia.
  - cbn [be_val length]. rewrite be_val_app. unfold bytes_ok in *. cbn [forallb] in H.
    apply andb_prop in H. destruct H as [Ha Hl]. specialize (IH Hl). unfold byte_ok in Ha.
    rewrite Nat2N.inj_succ, N.pow_succ_r'. nia.
Qed.

(** a 64-bit byte-aligned field *)
Lemma rd_u64 v k :
  bytes_ok v = true -> k + 8 <= blen v -> rd v (8 * k, 8 * 8) 64 = Ok (be_val 0 (sub v k (k + 8))).
Proof.
  intros Hb Hk. unfold rd.
  assert (S : size_bytes (8 * k, 8 * 8) = 8) by (unfold size_bytes, byte_hi, byte_lo, r_end, r_start; cbn [fst snd]; lia).
  assert (Ehi : byte_hi (8 * k, 8 * 8) = k + 8) by (unfold byte_hi, r_end; cbn [fst snd]; lia).
  rewrite S, Ehi. change (8 <=? LANE_BYTES) with true. cbn [negb].
  destruct (k + 8 <=? blen v) eqn:E; [|lia]. cbn [negb]. f_equal.
  rewrite lane_read_aligned. pose proof (be_val_lt (sub v k (k + 8)) (bytes_ok_sub v _ _ Hb)) as L.
  assert (Ls : length (sub v k (k + 8)) = 8%nat).
  { unfold sub, blen in *. rewrite firstn_length, skipn_length. lia. }
  rewrite Ls in L. change (256 ^ N.of_nat 8) with (2 ^ 64) in L.
  unfold trunc. change (2 ^ (8 * 8)) with (2 ^ 64). rewrite (N.mod_small _ _ L). rewrite (N.mod_small _ _ L). reflexivity.
Qed.

(** the two address-type nibbles of byte 9 *)
Lemma rd_nibbles v :
  bytes_ok v = true -> 10 <= blen v ->
  rd v CommonHeader_DST_ADDR_INFO_RNG 8 = Ok (nthN v 9 / 16) /\
  rd v CommonHeader_SRC_ADDR_INFO_RNG 8 = Ok (nthN v 9 mod 16).
Proof.
  intros Hb Hl. pose proof (bytes_ok_nth v 9 Hb) as L9.
  assert (S1 : sub v 9 10 = [nthN v 9]) by (apply (sub_1 v 9); lia).
  split; unfold rd, lane_read;
    [change (size_bytes CommonHeader_DST_ADDR_INFO_RNG <=? LANE_BYTES) with true;
     change (byte_hi CommonHeader_DST_ADDR_INFO_RNG) with 10; change (byte_lo CommonHeader_DST_ADDR_INFO_RNG) with 9;
     change (r_end CommonHeader_DST_ADDR_INFO_RNG) with 76; change (r_width CommonHeader_DST_ADDR_INFO_RNG) with 4
    |change (size_bytes CommonHeader_SRC_ADDR_INFO_RNG <=? LANE_BYTES) with true;
     change (byte_hi CommonHeader_SRC_ADDR_INFO_RNG) with 10; change (byte_lo CommonHeader_SRC_ADDR_INFO_RNG) with 9;
     change (r_end CommonHeader_SRC_ADDR_INFO_RNG) with 80; change (r_width CommonHeader_SRC_ADDR_INFO_RNG) with 4];
    cbn [negb]; (destruct (10 <=? blen v) eqn:E; [|lia]); cbn [negb]; f_equal;
    rewrite S1; cbn [be_val]; rewrite N.land_ones, N.shiftr_div_pow2; unfold trunc.
  - change (10 * 8 - 76) with 4. change (2 ^ 4) with 16. change (2 ^ 8) with 256. lia.
  - change (10 * 8 - 80) with 0. change (2 ^ 0) with 1. change (2 ^ 4) with 16. change (2 ^ 8) with 256. lia.
Qed.

Lemma Wire_blen_sub (b : bytes) lo hi : hi <= blen b -> blen (sub b lo hi) = hi - lo.
Proof. unfold blen, sub. rewrite firstn_length, skipn_length. lia. Qed.

(** SCION host address of a literal (type nibble, raw bytes): IPv4, IPv6, service; every other
    type is not a SCION host address *)
Definition lit_host (nib : N) (raw : bytes) : option host_addr :=
  if nib =? 0 then Some (HA_V4 raw)
  else if nib =? 3 then Some (HA_V6 raw)
  else if nib =? 4 then Some (HA_Svc (be_val 0 (firstn 2 raw)))
  else None.

Lemma hat_nib x : hat_size x = nib_len x.
Proof.
  unfold hat_size, nib_len.
  assert (E0 : HAT_IPV4 = 0) by reflexivity. assert (E3 : HAT_IPV6 = 3) by reflexivity.
  assert (E4 : HAT_SERVICE = 4) by reflexivity. rewrite E0, E3, E4.
  destruct (x =? 0) eqn:A; [apply N.eqb_eq in A; subst; reflexivity|].
  destruct (x =? 3) eqn:B; [apply N.eqb_eq in B; subst; reflexivity|].
  destruct (x =? 4) eqn:C; [apply N.eqb_eq in C; subst; reflexivity|].
  assert (E : N.land x 3 = x mod 4) by (change 3 with (N.ones 2); apply N.land_ones). rewrite E. reflexivity.
Qed.

Lemma decode_scion_host s raw :
  blen raw = hat_size s -> scion_host (host_addr_decode s raw) = lit_host s raw.
Proof.
  intros Hl. unfold host_addr_decode, lit_host.
  assert (E0 : HAT_IPV4 = 0) by reflexivity. assert (E3 : HAT_IPV6 = 3) by reflexivity.
  assert (E4 : HAT_SERVICE = 4) by reflexivity. rewrite E0, E3, E4.
  destruct (s =? 0) eqn:A.
  { apply N.eqb_eq in A. subst s. change (hat_size 0) with 4 in Hl. rewrite Hl. reflexivity. }
  destruct (s =? 3) eqn:B.
  { apply N.eqb_eq in B. subst s. change (hat_size 3) with 16 in Hl. rewrite Hl. reflexivity. }
  destruct (s =? 4) eqn:C.
  { apply N.eqb_eq in C. subst s. change (hat_size 4) with 4 in Hl. rewrite Hl. cbn [N.eqb]. rewrite sub_firstn. reflexivity. }
  destruct (blen raw <=? 16); reflexivity.
Qed.

Section Addresses.
Variable v : bytes.
Hypothesis R : raw_ok v.

Lemma scion_addrs_literal :
  src_scion_addr v
  = Ok (match lit_host (sp_src_nib v) (sp_src_host v) with Some a => Some (sp_src_ia v, a) | None => None end) /\
  dst_scion_addr v
  = Ok (match lit_host (sp_dst_nib v) (sp_dst_host v) with Some a => Some (sp_dst_ia v, a) | None => None end).
Proof.
  destruct (raw_layout v R) as (l & Hl & _). destruct R as [Hb Hr].
  destruct (hv_facts v l Hb Hl) as (A & B & C & D).
  destruct (header_layout_addr v l Hl) as (d & s & pt & Ed & Es & Ep & Hoff & _). rewrite D in *.
  destruct (rd_nibbles v Hb) as [Nd Ns]; [lia|]. rewrite Nd in Ed. rewrite Ns in Es.
  inversion Ed; subst d. inversion Es; subst s. clear Ed Es.
  assert (S12 : CommonHeader_SIZE_BYTES = 12) by reflexivity. rewrite S12 in *.
  rewrite addr_hdr_size_val in Hoff.
  assert (F : AddressHeader_FIXED_SIZE_BITS = 128) by reflexivity.
  set (hl := 4 * nthN v 5) in *. set (hv := sub v 0 hl) in *.
  set (dn := nthN v 9 / 16) in *. set (sn := nthN v 9 mod 16) in *.
  assert (Hvb : bytes_ok hv = true) by (apply bytes_ok_sub; exact Hb).
  split.
  - unfold src_scion_addr. rewrite (raw_pkt_header v l Hb Hl). cbn [obind]. fold hl. fold hv.
    unfold hv_src_host, hv_src_host_raw, hv_src_addr_type, hv_dst_addr_type.
    rewrite !(hv_rd v l Hb Hl) by (vm_compute; discriminate). rewrite Nd, Ns. cbn [obind]. fold dn. fold sn.
    unfold get_unchecked, src_host_rng, rshift, rng_of_range, byte_lo, byte_hi, r_start, r_end. cbn [fst snd].
    rewrite F, S12. fold hl. fold hv. rewrite C.
    match goal with |- context [(?a <=? ?b) && (?c <=? ?d)] => destruct ((a <=? b) && (c <=? d)) eqn:Q; [|lia] end.
    cbn [obind fst snd].
    match goal with |- context [sub hv ?lo ?hi] =>
      replace lo with (28 + hat_size dn) by lia; replace hi with (28 + hat_size dn + hat_size sn) by lia end.
    unfold hv. rewrite sub_sub_prefix by lia.
    rewrite decode_scion_host by (rewrite Wire_blen_sub; lia).
    unfold sp_src_host, sp_src_nib, sp_dst_nib, subN. fold dn. fold sn. rewrite <- !hat_nib.
    change (firstn (N.to_nat (28 + hat_size dn + hat_size sn - (28 + hat_size dn))) (skipn (N.to_nat (28 + hat_size dn)) v))
      with (sub v (28 + hat_size dn) (28 + hat_size dn + hat_size sn)).
    destruct (lit_host sn (sub v (28 + hat_size dn) (28 + hat_size dn + hat_size sn))); [|reflexivity].
    unfold hv_src_ia. change (rshift AddressHeader_SRC_IA_RNG CommonHeader_SIZE_BYTES) with (8 * 20, 8 * 8).
    fold hv. rewrite (rd_u64 hv 20 Hvb) by lia. cbn [obind]. unfold hv. rewrite sub_sub_prefix by lia. reflexivity.
  - unfold dst_scion_addr. rewrite (raw_pkt_header v l Hb Hl). cbn [obind]. fold hl. fold hv.
    unfold hv_dst_host, hv_dst_host_raw, hv_src_addr_type, hv_dst_addr_type.
    rewrite !(hv_rd v l Hb Hl) by (vm_compute; discriminate). rewrite Nd, Ns. cbn [obind]. fold dn. fold sn.
    unfold get_unchecked, dst_host_rng, rshift, rng_of_range, byte_lo, byte_hi, r_start, r_end. cbn [fst snd].
    rewrite F, S12. fold hl. fold hv. rewrite C.
    match goal with |- context [(?a <=? ?b) && (?c <=? ?d)] => destruct ((a <=? b) && (c <=? d)) eqn:Q; [|lia] end.
    cbn [obind fst snd].
    match goal with |- context [sub hv ?lo ?hi] =>
      replace lo with 28 by lia; replace hi with (28 + hat_size dn) by lia end.
    unfold hv. rewrite sub_sub_prefix by lia.
    rewrite decode_scion_host by (rewrite Wire_blen_sub; lia).
    unfold sp_dst_host, sp_dst_nib, subN. fold dn. rewrite <- !hat_nib.
    change (firstn (N.to_nat (28 + hat_size dn - 28)) (skipn (N.to_nat 28) v)) with (sub v 28 (28 + hat_size dn)).
    destruct (lit_host dn (sub v 28 (28 + hat_size dn))); [|reflexivity].
    unfold hv_dst_ia. change (rshift AddressHeader_DST_IA_RNG CommonHeader_SIZE_BYTES) with (8 * 12, 8 * 8).
    fold hv. rewrite (rd_u64 hv 12 Hvb) by lia. cbn [obind]. unfold hv. rewrite sub_sub_prefix by lia. reflexivity.
Qed.
End Addresses.

Lemma echo_reply_addresses_literal v p r :
  raw_ok v -> echo_handle v p = Ok (Some r) ->
  rp_dst_ia r = sp_src_ia v /\ lit_host (sp_src_nib v) (sp_src_host v) = Some (rp_dst_host r) /\
  rp_src_ia r = sp_dst_ia v /\ lit_host (sp_dst_nib v) (sp_dst_host v) = Some (rp_src_host r).
Proof.
  intros R H.
  destruct (echo_handle_some v p r H) as (sv & ty & dr & _ & _ & _ & _ & _ & _ & _ & _ & Hs & Hd & _).
  destruct (scion_addrs_literal v R) as [Ls Ld]. rewrite Ls in Hs. rewrite Ld in Hd.
  destruct (lit_host (sp_src_nib v) (sp_src_host v)); [|discriminate].
  destruct (lit_host (sp_dst_nib v) (sp_dst_host v)); [|discriminate].
  inversion Hs. inversion Hd. repeat split; reflexivity.
Qed.

Lemma scion_addr_some_literal v :
  raw_ok v ->
  ((exists a, src_scion_addr v = Ok (Some a)) <-> lit_host (sp_src_nib v) (sp_src_host v) <> None) /\
  ((exists a, dst_scion_addr v = Ok (Some a)) <-> lit_host (sp_dst_nib v) (sp_dst_host v) <> None).
Proof.
  intros R. destruct (scion_addrs_literal v R) as [Ls Ld]. rewrite Ls, Ld.
  clear Ls Ld. split; split.
  - intros [a H]. revert H. destruct (lit_host (sp_src_nib v) (sp_src_host v)); intros H; [intros X; discriminate X|inversion H].
  - intros H. destruct (lit_host (sp_src_nib v) (sp_src_host v)); [eexists; reflexivity|exfalso; apply H; reflexivity].
  - intros [a H]. revert H. destruct (lit_host (sp_dst_nib v) (sp_dst_host v)); intros H; [intros X; discriminate X|inversion H].
  - intros H. destruct (lit_host (sp_dst_nib v) (sp_dst_host v)); [eexists; reflexivity|exfalso; apply H; reflexivity].
Qed.

(** * statements used verbatim by [Props] *)

Lemma echo_reply_payload_closed sv (r : reply) :
  rd sv ScmpEchoRequest_IDENTIFIER_RNG 16 = Ok (rp_id r) ->
  rd sv ScmpEchoRequest_SEQUENCE_NUMBER_RNG 16 = Ok (rp_seq r) ->
  encode_echo_reply (rp_id r) (rp_seq r) (rp_data r) = Ok (rp_payload r) ->
  rp_payload r = [129; 0; 0; 0] ++ be_bytes 2 (rp_id r) ++ be_bytes 2 (rp_seq r) ++ rp_data r.
Proof.
  intros H4 H5 H11. rewrite encode_echo_reply_closed in H11. inversion H11 as [E]. clear H11.
  (* identifier and sequence number were read as 16-bit values *)
  assert (T : forall x, rd sv ScmpEchoRequest_IDENTIFIER_RNG 16 = Ok x \/ rd sv ScmpEchoRequest_SEQUENCE_NUMBER_RNG 16 = Ok x -> trunc 16 x = x).
  { intros x [Hx|Hx]; unfold rd in Hx;
      destruct (negb _) in Hx; try discriminate; destruct (negb _) in Hx; try discriminate;
      inversion Hx; unfold trunc; (rewrite N.mod_mod; [reflexivity|apply N.pow_nonzero; discriminate]). }
  rewrite (T _ (or_introl H4)), (T _ (or_intror H5)). reflexivity.
Qed.

Lemma reply_iff_model (v : bytes) (p : dppath) :
  (exists r, echo_handle v p = Ok (Some r)) <->
  (exists sv, as_scmp v = Ok (Some sv) /\ scmp_type sv = Ok 128) /\
  (exists rp, dp_reverse p = Some rp) /\
  (exists a, src_scion_addr v = Ok (Some a)) /\ (exists a, dst_scion_addr v = Ok (Some a)).
Proof.
  assert (E : T_ECHO_REQUEST = 128) by reflexivity. split.
  - intros [r H]. destruct (echo_handle_some v p r H) as (sv & ty & dr & H1 & H2 & H3 & _ & _ & _ & _ & H8 & H9 & H10 & _).
    apply echo_answers_only_echo_request in H3. subst ty. rewrite E in H2.
    refine (conj _ (conj _ (conj _ _))); eauto.
  - intros [(sv & H1 & H2) [(rp & H3) [(sa & H4) (da & H5)]]]. rewrite <- E in H2.
    exact (echo_handle_answers v p sv rp sa da H1 H2 H3 H4 H5).
Qed.

Lemma reply_iff_literal (v : bytes) (p : dppath) :
  raw_ok v ->
  ((exists r, echo_handle v p = Ok (Some r)) <->
   spec_is_echo_request v = true /\
   (exists rp, dp_reverse p = Some rp) /\
   lit_host (sp_src_nib v) (sp_src_host v) <> None /\ lit_host (sp_dst_nib v) (sp_dst_host v) <> None).
Proof.
  intros R. destruct R as [Hb Hr]. rewrite reply_iff_model.
  rewrite <- (echo_request_reading_is_literal v Hb Hr).
  destruct (scion_addr_some_literal v (conj Hb Hr)) as [As Ad]. rewrite As, Ad.
  assert (E : T_ECHO_REQUEST = 128) by reflexivity.
  assert (Q : (exists sv, as_scmp v = Ok (Some sv) /\ scmp_type sv = Ok 128) <-> reads_as_echo_request v = true).
  { unfold reads_as_echo_request. split.
    - intros (sv & H1 & H2). rewrite H1, H2, E. reflexivity.
    - destruct (as_scmp v) as [[sv|]| |]; try discriminate.
      destruct (scmp_type sv) as [t| |] eqn:Et; try discriminate.
      intros H. apply N.eqb_eq in H. rewrite E in H. subst t. exists sv. split; [reflexivity|exact Et]. }
  rewrite Q. reflexivity.
Qed.

Lemma errors_literal_both_ways (we : bool) (b : N) (pkts : list (bytes * dppath)) :
  (forall vp, In vp pkts -> bytes_ok (fst vp) = true /\ required_size_raw (fst vp) = Ok (blen (fst vp))) ->
  (forall cb, In cb (errs_of (recv_stream we b pkts)) ->
     exists v p, In (v, p) pkts /\ spec_is_known_error v = true /\
                 e_ty (cb_msg cb) = sp_scmp_type v /\ err_quote v = Some (e_off (cb_msg cb))) /\
  (forall v p, In (v, p) pkts -> spec_is_known_error v = true ->
     exists cb, In cb (errs_of (recv_stream we b pkts)) /\
                e_ty (cb_msg cb) = sp_scmp_type v /\ err_quote v = Some (e_off (cb_msg cb))).
Proof.
  intros Hraw. pose proof (recv_stream_never_panics we b pkts Hraw) as NP.
  rewrite (errors_reach_receivers we b pkts NP). split.
  - intros cb Hin. apply in_flat_map in Hin. destruct Hin as ([v p] & Hvp & Hcb). cbn [fst] in Hcb.
    destruct (is_scmp v); [|destruct Hcb].
    destruct (err_handle v) as [[cb'|]| |] eqn:E; cbn in Hcb; try contradiction.
    destruct Hcb as [Hcb|[]]. subst cb'.
    destruct (Hraw _ Hvp) as [Hb Hr]. cbn [fst] in Hb, Hr.
    destruct (reported_error_is_literal v cb Hb Hr E) as (H1 & H2 & H3).
    exists v, p. repeat split; assumption.
  - intros v p Hin Hk. pose proof (Hraw _ Hin) as R. cbn [fst] in R.
    destruct (known_error_reported v R Hk) as (cb & E). destruct R as [Hb Hr].
    destruct (reported_error_is_literal v cb Hb Hr E) as (_ & H2 & H3).
    exists cb. split; [|split; assumption].
    apply in_flat_map. exists (v, p). split; [exact Hin|]. cbn [fst].
    assert (Hs : is_scmp v = true).
    { unfold is_scmp, nh_of. unfold required_size_raw, obind in Hr.
      destruct (header_layout v) as [l| |] eqn:Hl; try discriminate.
      rewrite (raw_pkt_header v l Hb Hl). cbn [obind]. rewrite (raw_next_header v l Hb Hl).
      unfold spec_is_known_error in Hk. apply andb_prop in Hk. destruct Hk as [Hk _]. exact Hk. }
    rewrite Hs, E. left. reflexivity.
Qed.
