(** C14 -- the model's reading of a received packet ("converts to an SCMP packet view whose
    message type is 128", through the Wire model's view constructors and bit-range readers)
    coincides with the literal-offset reading of [Scmp.Spec] (byte 4 = 202, header length
    4 * byte 5, payload length bytes 6-7, at least 8 payload bytes, first payload byte = 128),
    for every decodable raw packet. *)
From Coq Require Import Lia ZifyBool ZifyNat ZifyN.
From Sci Require Import Scmp.Model Scmp.Spec Scmp.Proofs.
Local Open Scope N_scope.
Ltac Zify.zify_post_hook ::= Z.div_mod_to_equations.
Arguments N.add : simpl never.
Arguments N.sub : simpl never.
Arguments N.mul : simpl never.
Arguments N.div : simpl never.
Arguments N.modulo : simpl never.
Arguments N.eqb : simpl never.
Arguments N.ltb : simpl never.
Arguments N.leb : simpl never.
Arguments N.pow : simpl never.
Arguments N.min : simpl never.

(** * byte-aligned reads *)

Lemma lane_read_aligned v k w :
  lane_read v (8 * k, 8 * w) = be_val 0 (sub v k (k + w)) mod 2 ^ (8 * w).
Proof.
  unfold lane_read.
  assert (Elo : byte_lo (8 * k, 8 * w) = k) by (unfold byte_lo, r_start; cbn [fst]; lia).
  assert (Ehi : byte_hi (8 * k, 8 * w) = k + w) by (unfold byte_hi, r_end; cbn [fst snd]; lia).
  rewrite Elo, Ehi. unfold r_width, r_end. cbn [fst snd].
  replace ((k + w) * 8 - (8 * k + 8 * w)) with 0 by lia.
  rewrite N.shiftr_0_r, N.land_ones. reflexivity.
Qed.

Lemma skipn_nth {A} (l : list A) n d : (n < length l)%nat -> skipn n l = nth n l d :: skipn (S n) l.
Proof.
  revert n. induction l as [|a l IH]; intros n H; [cbn in H; lia|].
  destruct n as [|n]; [reflexivity|]. cbn [skipn nth]. apply IH. cbn in H. lia.
Qed.

Lemma sub_1 (v : bytes) k : k < blen v -> sub v k (k + 1) = [nthN v k].
Proof.
  intros H. unfold sub, nthN, blen in *. replace (k + 1 - k) with 1 by lia.
  rewrite (skipn_nth v (N.to_nat k) 0) by lia. reflexivity.
Qed.

Lemma sub_2 (v : bytes) k : k + 2 <= blen v -> sub v k (k + 2) = [nthN v k; nthN v (k + 1)].
Proof.
  intros H. unfold sub, nthN, blen in *. replace (k + 2 - k) with 2 by lia.
  rewrite (skipn_nth v (N.to_nat k) 0) by lia.
  rewrite (skipn_nth v (S (N.to_nat k)) 0) by lia.
  replace (N.to_nat (k + 1)) with (S (N.to_nat k)) by lia. reflexivity.
Qed.

Lemma bytes_ok_nth (v : bytes) k : bytes_ok v = true -> nthN v k < 256.
Proof.
  intros H. unfold nthN, bytes_ok in *. rewrite forallb_forall in H.
  destruct (Nat.lt_ge_cases (N.to_nat k) (length v)) as [L|G].
  - specialize (H _ (nth_In v 0 L)). unfold byte_ok in H. lia.
  - rewrite nth_overflow by exact G. lia.
Qed.

Lemma rd_byte v k :
  bytes_ok v = true -> k < blen v -> rd v (8 * k, 8 * 1) 8 = Ok (nthN v k).
Proof.
  intros Hb Hk. unfold rd.
  assert (S : size_bytes (8 * k, 8 * 1) = 1) by (unfold size_bytes, byte_hi, byte_lo, r_end, r_start; cbn [fst snd]; lia).
  assert (Ehi : byte_hi (8 * k, 8 * 1) = k + 1) by (unfold byte_hi, r_end; cbn [fst snd]; lia).
  rewrite S, Ehi. change (1 <=? LANE_BYTES) with true. cbn [negb].
  destruct (k + 1 <=? blen v) eqn:E; [|lia]. cbn [negb]. f_equal.
  rewrite lane_read_aligned, sub_1 by exact Hk. cbn [be_val]. pose proof (bytes_ok_nth v k Hb) as L.
  unfold trunc. change (2 ^ (8 * 1)) with 256. change (2 ^ 8) with 256. lia.
Qed.

Lemma rd_u16 v k :
  bytes_ok v = true -> k + 2 <= blen v -> rd v (8 * k, 8 * 2) 16 = Ok (256 * nthN v k + nthN v (k + 1)).
Proof.
  intros Hb Hk. unfold rd.
  assert (S : size_bytes (8 * k, 8 * 2) = 2) by (unfold size_bytes, byte_hi, byte_lo, r_end, r_start; cbn [fst snd]; lia).
  assert (Ehi : byte_hi (8 * k, 8 * 2) = k + 2) by (unfold byte_hi, r_end; cbn [fst snd]; lia).
  rewrite S, Ehi. change (2 <=? LANE_BYTES) with true. cbn [negb].
  destruct (k + 2 <=? blen v) eqn:E; [|lia]. cbn [negb]. f_equal.
  rewrite lane_read_aligned, sub_2 by exact Hk. cbn [be_val].
  pose proof (bytes_ok_nth v k Hb) as L1. pose proof (bytes_ok_nth v (k + 1) Hb) as L2.
  unfold trunc. change (2 ^ (8 * 2)) with 65536. change (2 ^ 16) with 65536. lia.
Qed.

(** prefixes *)
Lemma In_firstn {A} (x : A) n l : In x (firstn n l) -> In x l.
Proof.
  revert l. induction n as [|n IH]; intros l H; [destruct H|]. destruct l as [|a l]; [destruct H|].
  destruct H as [H|H]; [left; exact H|right; apply IH; exact H].
Qed.
Lemma In_skipn {A} (x : A) n l : In x (skipn n l) -> In x l.
Proof.
  revert l. induction n as [|n IH]; intros l H; [exact H|]. destruct l as [|a l]; [destruct H|].
  right. apply IH. exact H.
Qed.
Lemma bytes_ok_sub (v : bytes) lo hi : bytes_ok v = true -> bytes_ok (sub v lo hi) = true.
Proof.
  unfold bytes_ok, sub. rewrite !forallb_forall. intros H x Hx. apply H.
  apply In_firstn in Hx. apply In_skipn in Hx. exact Hx.
Qed.

Lemma nth_firstn {A} (l : list A) n i d : (i < n)%nat -> nth i (firstn n l) d = nth i l d.
Proof.
  revert l i. induction n as [|n IH]; intros l i H; [lia|].
  destruct l as [|a l]; [reflexivity|]. destruct i as [|i]; [reflexivity|].
  cbn [firstn nth]. apply IH. lia.
Qed.

Lemma nthN_prefix (v : bytes) n k : k < n -> nthN (sub v 0 n) k = nthN v k.
Proof.
  intros H. unfold nthN, sub. rewrite N.sub_0_r. cbn [N.to_nat skipn]. apply nth_firstn. lia.
Qed.

(** * what a decodable raw packet guarantees about its first bytes *)

Ltac inv_bind H :=
  repeat match type of H with
  | obind ?x _ = _ => let E := fresh "E" in destruct x eqn:E; cbn [obind] in H; try discriminate H
  | (if ?c then _ else _) = _ => let C := fresh "C" in destruct c eqn:C; try discriminate H
  | match ?x with _ => _ end = _ => let E := fresh "E" in destruct x eqn:E; try discriminate H
  end.

Lemma split_off_some' b n cb :
  split_off_checked b n = Some cb -> cb = sub b 0 n /\ n <= blen b.
Proof.
  unfold split_off_checked. destruct (n <=? blen b) eqn:E; [|discriminate].
  intros H. inversion H. split; [reflexivity|lia].
Qed.

Lemma header_layout_facts v l :
  bytes_ok v = true -> header_layout v = Ok l ->
  12 <= blen v /\ hl_header_len l = 4 * nthN v 5 /\ 12 <= hl_header_len l /\ hl_header_len l <= blen v
  /\ hl_payload_len l = 256 * nthN v 6 + nthN v 7.
Proof.
  intros Hb H. unfold header_layout in H.
  destruct (split_off_checked v CommonHeader_SIZE_BYTES) as [cb|] eqn:Es; [|discriminate].
  apply split_off_some' in Es. destruct Es as [Ecb L12].
  assert (S12 : CommonHeader_SIZE_BYTES = 12) by reflexivity. rewrite S12 in *.
  assert (Hcb : bytes_ok cb = true) by (subst cb; apply bytes_ok_sub; exact Hb).
  assert (Lcb : blen cb = 12) by (subst cb; apply sub_prefix_blen; exact L12).
  inv_bind H. inversion H; subst l; clear H. cbn [hl_header_len hl_payload_len].
  repeat match goal with
  | E : rd cb CommonHeader_HEADER_LEN_RNG 8 = Ok ?x |- _ =>
    change CommonHeader_HEADER_LEN_RNG with (8 * 5, 8 * 1) in E;
    rewrite (rd_byte cb 5 Hcb) in E by lia; inversion E; subst x; clear E
  | E : rd cb CommonHeader_PAYLOAD_LEN_RNG 16 = Ok ?x |- _ =>
    change CommonHeader_PAYLOAD_LEN_RNG with (8 * 6, 8 * 2) in E;
    rewrite (rd_u16 cb 6 Hcb) in E by lia; inversion E; subst x; clear E
  end.
  change (6 + 1) with 7. rewrite Ecb, !nthN_prefix by lia.
  repeat match goal with
  | H : (_ <? _) = false |- _ => apply N.ltb_ge in H
  | H : negb (_ =? _) = false |- _ => apply Bool.negb_false_iff in H; apply N.eqb_eq in H
  end.
  rewrite Ecb, !nthN_prefix in * by lia.
  refine (conj L12 (conj _ (conj _ (conj _ _)))); lia.
Qed.

(** * header view, next header and payload of a decodable raw packet, by literal offsets *)

Section RawView.
Variable v : bytes.
Variable l : hdr_layout.
Hypothesis Hb : bytes_ok v = true.
Hypothesis Hl : header_layout v = Ok l.

Let hl := 4 * nthN v 5.

Lemma raw_hdr_len : hv_header_len v = Ok hl.
Proof.
  destruct (header_layout_facts v l Hb Hl) as (L12 & _).
  unfold hv_header_len. change CommonHeader_HEADER_LEN_RNG with (8 * 5, 8 * 1).
  rewrite (rd_byte v 5 Hb) by lia. cbn [obind]. unfold hl. f_equal. lia.
Qed.

Lemma raw_pkt_header : pkt_header v = Ok (sub v 0 hl).
Proof.
  destruct (header_layout_facts v l Hb Hl) as (L12 & E & G & U & _).
  unfold pkt_header. rewrite raw_hdr_len. cbn [obind]. unfold get_unchecked.
  fold hl in E. rewrite E in *. destruct ((0 <=? hl) && (hl <=? blen v)) eqn:C; [reflexivity|lia].
Qed.

Lemma raw_next_header : hv_next_header (sub v 0 hl) = Ok (nthN v 4).
Proof.
  destruct (header_layout_facts v l Hb Hl) as (L12 & E & G & U & _). fold hl in E. rewrite E in *.
  unfold hv_next_header. change CommonHeader_NEXT_HEADER_RNG with (8 * 4, 8 * 1).
  rewrite rd_byte; [|apply bytes_ok_sub; exact Hb|rewrite sub_prefix_blen; lia].
  rewrite nthN_prefix by lia. reflexivity.
Qed.

Lemma sp_payload_eq : sp_payload v = sub v hl (hl + N.min (256 * nthN v 6 + nthN v 7) (blen v - hl)).
Proof. reflexivity. Qed.

Lemma raw_payload : pkt_payload v = Ok (sp_payload v).
Proof.
  destruct (header_layout_facts v l Hb Hl) as (L12 & E & G & U & _). fold hl in E. rewrite E in *.
  unfold pkt_payload, pkt_payload_range.
  change CommonHeader_HEADER_LEN_RNG with (8 * 5, 8 * 1). rewrite (rd_byte v 5 Hb) by lia. cbn [obind].
  replace (nthN v 5 * 4) with hl by (unfold hl; lia).
  unfold get_unchecked at 1. destruct ((0 <=? hl) && (hl <=? blen v)) eqn:C; [|lia]. cbn [obind].
  change CommonHeader_PAYLOAD_LEN_RNG with (8 * 6, 8 * 2).
  rewrite rd_u16; [|apply bytes_ok_sub; exact Hb|rewrite sub_prefix_blen; lia]. cbn [obind].
  change (6 + 1) with 7. rewrite !nthN_prefix by lia.
  set (n := N.min (256 * nthN v 6 + nthN v 7) (blen v - hl)).
  unfold get_unchecked. destruct ((hl <=? hl + n) && (hl + n <=? blen v)) eqn:C2; [|lia]. cbn [obind fst snd].
  rewrite sp_payload_eq. reflexivity.
Qed.
End RawView.

(** * the SCMP payload view: its first byte is the type *)

Lemma sub_all (b : bytes) : sub b 0 (blen b) = b.
Proof. unfold sub, blen. rewrite N.sub_0_r, Nat2N.id. cbn [N.to_nat skipn]. apply firstn_all. Qed.

Lemma try_scmp_view pl sv rest :
  bytes_ok pl = true -> try_from_slice KScmp pl = Ok (sv, rest) ->
  8 <= blen pl /\ scmp_type sv = Ok (nthN pl 0) /\
  exists n, required_size_scmp_msg (nthN pl 0) pl = Ok n /\ sv = sub pl 0 n.
Proof.
  intros Hb H. unfold try_from_slice in H. cbn [required_size] in H. unfold obind in H.
  destruct (required_size_scmp pl) as [n| |] eqn:E; try discriminate.
  destruct (blen pl <? n) eqn:Ln; [discriminate|]. inversion H; subst sv rest; clear H.
  destruct (required_size_scmp_bounds _ _ E) as [G L].
  unfold required_size_scmp in E.
  destruct (required_size_scmp_msg 256 pl) as [m|e|s] eqn:E0; [|destruct e; discriminate|discriminate].
  assert (Em : m = blen pl /\ 8 <= blen pl).
  { unfold required_size_scmp_msg in E0. assert (S8 : scmp_header_size 256 = 8) by reflexivity.
    rewrite S8 in E0. destruct (blen pl <? 8) eqn:C; [discriminate|].
    assert (F : scmp_fixed_size 256 = false) by reflexivity. rewrite F in E0. inversion E0. split; [reflexivity|lia]. }
  destruct Em as [Em G8]. subst m. unfold obind in E.
  unfold get_unchecked in E. destruct ((0 <=? blen pl) && (blen pl <=? blen pl)) eqn:C; [|lia].
  rewrite sub_all in E. change ScmpUnknownMessage_TYPE_RNG with (8 * 0, 8 * 1) in E.
  rewrite (rd_byte pl 0 Hb) in E by lia.
  refine (conj G8 (conj _ _)).
  - unfold scmp_type. change ScmpUnknownMessage_TYPE_RNG with (8 * 0, 8 * 1).
    rewrite rd_byte; [|apply bytes_ok_sub; exact Hb|rewrite sub_prefix_blen; lia].
    rewrite nthN_prefix by lia. reflexivity.
  - exists n. split; [exact E|reflexivity].
Qed.
