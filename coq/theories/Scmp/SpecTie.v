(** C14 -- the model's reading of a received packet ("converts to an SCMP packet view whose
    message type is 128", through the Wire model's view constructors and bit-range readers)
    coincides with the literal-offset reading of [Scmp.Spec] (byte 4 = 202, header length
    4 * byte 5, payload length bytes 6-7, at least 8 payload bytes, first payload byte = 128),
    for every decodable raw packet. *)
From Coq Require Import Lia ZifyBool ZifyNat ZifyN.
From Sci Require Import Scmp.Model Scmp.Spec Scmp.Proofs Scmp.Bytes.
Local Open Scope N_scope.
Ltac Zify.zify_post_hook ::= Z.div_mod_to_equations.
Arguments N.add : simpl never.
Arguments N.sub : simpl never.
Arguments N.mul : simpl never.
Arguments N.div : simpl never.
Arguments N.modulo : simpl never.
Arguments N.eqb : simpl never.
Arguments N.ltb : simpl never.
Arguments N.leb : simpl never.
Arguments N.pow : simpl never.
Arguments N.min : simpl never.

(** * byte-aligned reads *)

Lemma lane_read_aligned v k w :
  lane_read v (8 * k, 8 * w) = be_val 0 (sub v k (k + w)) mod 2 ^ (8 * w).
Proof.
  unfold lane_read.
  assert (Elo : byte_lo (8 * k, 8 * w) = k) by (unfold byte_lo, r_start; cbn [fst]; lia).
  assert (Ehi : byte_hi (8 * k, 8 * w) = k + w) by (unfold byte_hi, r_end; cbn [fst snd]; lia).
  rewrite Elo, Ehi. unfold r_width, r_end. cbn [fst snd].
  replace ((k + w) * 8 - (8 * k + 8 * w)) with 0 by lia.
  rewrite N.shiftr_0_r, N.land_ones. reflexivity.
Qed.

Lemma skipn_nth {A} (l : list A) n d : (n < length l)%nat -> skipn n l = nth n l d :: skipn (S n) l.
Proof.
  revert n. induction l as [|a l IH]; intros n H; [cbn in H; lia|].
  destruct n as [|n]; [reflexivity|]. cbn [skipn nth]. apply IH. cbn in H. lia.
Qed.

Lemma sub_1 (v : bytes) k : k < blen v -> sub v k (k + 1) = [nthN v k].
Proof.
  intros H. unfold sub, nthN, blen in *. replace (k + 1 - k) with 1 by lia.
  rewrite (skipn_nth v (N.to_nat k) 0) by lia. reflexivity.
Qed.

Lemma sub_2 (v : bytes) k : k + 2 <= blen v -> sub v k (k + 2) = [nthN v k; nthN v (k + 1)].
Proof.
  intros H. unfold sub, nthN, blen in *. replace (k + 2 - k) with 2 by lia.
  rewrite (skipn_nth v (N.to_nat k) 0) by lia.
  rewrite (skipn_nth v (S (N.to_nat k)) 0) by lia.
  replace (N.to_nat (k + 1)) with (S (N.to_nat k)) by lia. reflexivity.
Qed.

Lemma bytes_ok_nth (v : bytes) k : bytes_ok v = true -> nthN v k < 256.
Proof.
  intros H. unfold nthN, bytes_ok in *. rewrite forallb_forall in H.
  destruct (Nat.lt_ge_cases (N.to_nat k) (length v)) as [L|G].
  - specialize (H _ (nth_In v 0 L)). unfold byte_ok in H. lia.
  - rewrite nth_overflow by exact G. lia.
Qed.

Lemma rd_byte v k :
  bytes_ok v = true -> k < blen v -> rd v (8 * k, 8 * 1) 8 = Ok (nthN v k).
Proof.
  intros Hb Hk. unfold rd.
  assert (S : size_bytes (8 * k, 8 * 1) = 1) by (unfold size_bytes, byte_hi, byte_lo, r_end, r_start; cbn [fst snd]; lia).
  assert (Ehi : byte_hi (8 * k, 8 * 1) = k + 1) by (unfold byte_hi, r_end; cbn [fst snd]; lia).
  rewrite S, Ehi. change (1 <=? LANE_BYTES) with true. cbn [negb].
  destruct (k + 1 <=? blen v) eqn:E; [|lia]. cbn [negb]. f_equal.
  rewrite lane_read_aligned, sub_1 by exact Hk. cbn [be_val]. pose proof (bytes_ok_nth v k Hb) as L.
  unfold trunc. change (2 ^ (8 * 1)) with 256. change (2 ^ 8) with 256. lia.
Qed.

Lemma rd_u16 v k :
  bytes_ok v = true -> k + 2 <= blen v -> rd v (8 * k, 8 * 2) 16 = Ok (256 * nthN v k + nthN v (k + 1)).
Proof.
  intros Hb Hk. unfold rd.
  assert (S : size_bytes (8 * k, 8 * 2) = 2) by (unfold size_bytes, byte_hi, byte_lo, r_end, r_start; cbn [fst snd]; lia).
  assert (Ehi : byte_hi (8 * k, 8 * 2) = k + 2) by (unfold byte_hi, r_end; cbn [fst snd]; lia).
  rewrite S, Ehi. change (2 <=? LANE_BYTES) with true. cbn [negb].
  destruct (k + 2 <=? blen v) eqn:E; [|lia]. cbn [negb]. f_equal.
  rewrite lane_read_aligned, sub_2 by exact Hk. cbn [be_val].
  pose proof (bytes_ok_nth v k Hb) as L1. pose proof (bytes_ok_nth v (k + 1) Hb) as L2.
  unfold trunc. change (2 ^ (8 * 2)) with 65536. change (2 ^ 16) with 65536. lia.
Qed.

(** prefixes *)
Lemma In_firstn {A} (x : A) n l : In x (firstn n l) -> In x l.
Proof.
  revert l. induction n as [|n IH]; intros l H; [destruct H|]. destruct l as [|a l]; [destruct H|].
  destruct H as [H|H]; [left; exact H|right; apply IH; exact H].
Qed.
Lemma In_skipn {A} (x : A) n l : In x (skipn n l) -> In x l.
Proof.
  revert l. induction n as [|n IH]; intros l H; [exact H|]. destruct l as [|a l]; [destruct H|].
  right. apply IH. exact H.
Qed.
Lemma bytes_ok_sub (v : bytes) lo hi : bytes_ok v = true -> bytes_ok (sub v lo hi) = true.
Proof.
  unfold bytes_ok, sub. rewrite !forallb_forall. intros H x Hx. apply H.
  apply In_firstn in Hx. apply In_skipn in Hx. exact Hx.
Qed.

Lemma nth_firstn {A} (l : list A) n i d : (i < n)%nat -> nth i (firstn n l) d = nth i l d.
Proof.
  revert l i. induction n as [|n IH]; intros l i H; [lia|].
  destruct l as [|a l]; [reflexivity|]. destruct i as [|i]; [reflexivity|].
  cbn [firstn nth]. apply IH. lia.
Qed.

Lemma nthN_prefix (v : bytes) n k : k < n -> nthN (sub v 0 n) k = nthN v k.
Proof.
  intros H. unfold nthN, sub. rewrite N.sub_0_r. cbn [N.to_nat skipn]. apply nth_firstn. lia.
Qed.

(** * what a decodable raw packet guarantees about its first bytes *)

Ltac inv_bind H :=
  repeat match type of H with
  | obind ?x _ = _ => let E := fresh "E" in destruct x eqn:E; cbn [obind] in H; try discriminate H
  | (if ?c then _ else _) = _ => let C := fresh "C" in destruct c eqn:C; try discriminate H
  | match ?x with _ => _ end = _ => let E := fresh "E" in destruct x eqn:E; try discriminate H
  end.

Lemma split_off_some' b n cb :
  split_off_checked b n = Some cb -> cb = sub b 0 n /\ n <= blen b.
Proof.
  unfold split_off_checked. destruct (n <=? blen b) eqn:E; [|discriminate].
  intros H. inversion H. split; [reflexivity|lia].
Qed.

Lemma header_layout_facts v l :
  bytes_ok v = true -> header_layout v = Ok l ->
  12 <= blen v /\ hl_header_len l = 4 * nthN v 5 /\ 12 <= hl_header_len l /\ hl_header_len l <= blen v
  /\ hl_payload_len l = 256 * nthN v 6 + nthN v 7.
Proof.
  intros Hb H. unfold header_layout in H.
  destruct (split_off_checked v CommonHeader_SIZE_BYTES) as [cb|] eqn:Es; [|discriminate].
  apply split_off_some' in Es. destruct Es as [Ecb L12].
  assert (S12 : CommonHeader_SIZE_BYTES = 12) by reflexivity. rewrite S12 in *.
  assert (Hcb : bytes_ok cb = true) by (subst cb; apply bytes_ok_sub; exact Hb).
  assert (Lcb : blen cb = 12) by (subst cb; apply sub_prefix_blen; exact L12).
  inv_bind H. inversion H; subst l; clear H. cbn [hl_header_len hl_payload_len].
  repeat match goal with
  | E : rd cb CommonHeader_HEADER_LEN_RNG 8 = Ok ?x |- _ =>
    change CommonHeader_HEADER_LEN_RNG with (8 * 5, 8 * 1) in E;
    rewrite (rd_byte cb 5 Hcb) in E by lia; inversion E; subst x; clear E
  | E : rd cb CommonHeader_PAYLOAD_LEN_RNG 16 = Ok ?x |- _ =>
    change CommonHeader_PAYLOAD_LEN_RNG with (8 * 6, 8 * 2) in E;
    rewrite (rd_u16 cb 6 Hcb) in E by lia; inversion E; subst x; clear E
  end.
  change (6 + 1) with 7. rewrite Ecb, !nthN_prefix by lia.
  repeat match goal with
  | H : (_ <? _) = false |- _ => apply N.ltb_ge in H
  | H : negb (_ =? _) = false |- _ => apply Bool.negb_false_iff in H; apply N.eqb_eq in H
  end.
  rewrite Ecb, !nthN_prefix in * by lia.
  refine (conj L12 (conj _ (conj _ (conj _ _)))); lia.
Qed.

(** * header view, next header and payload of a decodable raw packet, by literal offsets *)

Section RawView.
Variable v : bytes.
Variable l : hdr_layout.
Hypothesis Hb : bytes_ok v = true.
Hypothesis Hl : header_layout v = Ok l.

Let hl := 4 * nthN v 5.

Lemma raw_hdr_len : hv_header_len v = Ok hl.
Proof.
  destruct (header_layout_facts v l Hb Hl) as (L12 & _).
  unfold hv_header_len. change CommonHeader_HEADER_LEN_RNG with (8 * 5, 8 * 1).
  rewrite (rd_byte v 5 Hb) by lia. cbn [obind]. unfold hl. f_equal. lia.
Qed.

Lemma raw_pkt_header : pkt_header v = Ok (sub v 0 hl).
Proof.
  destruct (header_layout_facts v l Hb Hl) as (L12 & E & G & U & _).
  unfold pkt_header. rewrite raw_hdr_len. cbn [obind]. unfold get_unchecked.
  fold hl in E. rewrite E in *. destruct ((0 <=? hl) && (hl <=? blen v)) eqn:C; [reflexivity|lia].
Qed.

Lemma raw_next_header : hv_next_header (sub v 0 hl) = Ok (nthN v 4).
Proof.
  destruct (header_layout_facts v l Hb Hl) as (L12 & E & G & U & _). fold hl in E. rewrite E in *.
  unfold hv_next_header. change CommonHeader_NEXT_HEADER_RNG with (8 * 4, 8 * 1).
  rewrite rd_byte; [|apply bytes_ok_sub; exact Hb|rewrite sub_prefix_blen; lia].
  rewrite nthN_prefix by lia. reflexivity.
Qed.

Lemma sp_payload_eq : sp_payload v = sub v hl (hl + N.min (256 * nthN v 6 + nthN v 7) (blen v - hl)).
Proof. reflexivity. Qed.

Lemma raw_payload : pkt_payload v = Ok (sp_payload v).
Proof.
  destruct (header_layout_facts v l Hb Hl) as (L12 & E & G & U & _). fold hl in E. rewrite E in *.
  unfold pkt_payload, pkt_payload_range.
  change CommonHeader_HEADER_LEN_RNG with (8 * 5, 8 * 1). rewrite (rd_byte v 5 Hb) by lia. cbn [obind].
  replace (nthN v 5 * 4) with hl by (unfold hl; lia).
  unfold get_unchecked at 1. destruct ((0 <=? hl) && (hl <=? blen v)) eqn:C; [|lia]. cbn [obind].
  change CommonHeader_PAYLOAD_LEN_RNG with (8 * 6, 8 * 2).
  rewrite rd_u16; [|apply bytes_ok_sub; exact Hb|rewrite sub_prefix_blen; lia]. cbn [obind].
  change (6 + 1) with 7. rewrite !nthN_prefix by lia.
  set (n := N.min (256 * nthN v 6 + nthN v 7) (blen v - hl)).
  unfold get_unchecked. destruct ((hl <=? hl + n) && (hl + n <=? blen v)) eqn:C2; [|lia]. cbn [obind fst snd].
  rewrite sp_payload_eq. reflexivity.
Qed.
End RawView.

(** * the SCMP payload view: its first byte is the type *)

Lemma sub_all (b : bytes) : sub b 0 (blen b) = b.
Proof. unfold sub, blen. rewrite N.sub_0_r, Nat2N.id. cbn [N.to_nat skipn]. apply firstn_all. Qed.

Lemma try_scmp_view pl sv rest :
  bytes_ok pl = true -> try_from_slice KScmp pl = Ok (sv, rest) ->
  8 <= blen pl /\ scmp_type sv = Ok (nthN pl 0) /\
  exists n, required_size_scmp_msg (nthN pl 0) pl = Ok n /\ sv = sub pl 0 n.
Proof.
  intros Hb H. unfold try_from_slice in H. cbn [required_size] in H. unfold obind in H.
  destruct (required_size_scmp pl) as [n| |] eqn:E; try discriminate.
  destruct (blen pl <? n) eqn:Ln; [discriminate|]. inversion H; subst sv rest; clear H.
  destruct (required_size_scmp_bounds _ _ E) as [G L].
  unfold required_size_scmp in E.
  destruct (required_size_scmp_msg 256 pl) as [m|e|s] eqn:E0; [|destruct e; discriminate|discriminate].
  assert (Em : m = blen pl /\ 8 <= blen pl).
  { unfold required_size_scmp_msg in E0. assert (S8 : scmp_header_size 256 = 8) by reflexivity.
    rewrite S8 in E0. destruct (blen pl <? 8) eqn:C; [discriminate|].
    assert (F : scmp_fixed_size 256 = false) by reflexivity. rewrite F in E0. inversion E0. split; [reflexivity|lia]. }
  destruct Em as [Em G8]. subst m. unfold obind in E.
  unfold get_unchecked in E. destruct ((0 <=? blen pl) && (blen pl <=? blen pl)) eqn:C; [|lia].
  rewrite sub_all in E. change ScmpUnknownMessage_TYPE_RNG with (8 * 0, 8 * 1) in E.
  rewrite (rd_byte pl 0 Hb) in E by lia.
  refine (conj G8 (conj _ _)).
  - unfold scmp_type. change ScmpUnknownMessage_TYPE_RNG with (8 * 0, 8 * 1).
    rewrite rd_byte; [|apply bytes_ok_sub; exact Hb|rewrite sub_prefix_blen; lia].
    rewrite nthN_prefix by lia. reflexivity.
  - exists n. split; [exact E|reflexivity].
Qed.

(** * the tie *)

(** the model's reading: converts to an SCMP packet view whose message type is EchoRequest *)
Definition reads_as_echo_request (v : bytes) : bool :=
  match as_scmp v with
  | Ok (Some sv) => match scmp_type sv with Ok t => t =? T_ECHO_REQUEST | _ => false end
  | _ => false
  end.

Lemma bytes_ok_payload v : bytes_ok v = true -> bytes_ok (sp_payload v) = true.
Proof. intros H. unfold sp_payload, subN. apply (bytes_ok_sub v _ _ H). Qed.

Theorem echo_request_reading_is_literal v :
  bytes_ok v = true -> required_size_raw v = Ok (blen v) ->
  reads_as_echo_request v = spec_is_echo_request v.
Proof.
  intros Hb Hr. unfold required_size_raw, obind in Hr.
  destruct (header_layout v) as [l| |] eqn:Hl; try discriminate.
  pose proof (raw_pkt_header v l Hb Hl) as Hh. pose proof (raw_next_header v l Hb Hl) as Hn.
  pose proof (raw_payload v l Hb Hl) as Hp. pose proof (bytes_ok_payload v Hb) as Hbp.
  unfold reads_as_echo_request, as_scmp, spec_is_echo_request.
  rewrite Hh. cbn [obind]. rewrite Hn. cbn [obind].
  unfold sp_next_hdr, spec_proto_scmp. assert (P : PROTO_SCMP = 202) by reflexivity. rewrite P.
  destruct (nthN v 4 =? 202) eqn:Enh; cbn [negb andb]; [|reflexivity].
  (* try_from_slice KScmpPkt v *)
  unfold try_from_slice at 1. cbn [required_size]. unfold required_size_scmp_pkt.
  unfold required_size_raw at 1. rewrite Hl. cbn [obind]. rewrite Hp. cbn [obind].
  inversion Hr as [Hmin]. rewrite Hmin.
  set (pl := sp_payload v) in *.
  destruct (required_size_scmp pl) as [n| |] eqn:Ers; cbn [obind].
  - (* the packet view is the whole buffer *)
    rewrite !Hmin, N.ltb_irrefl. rewrite sub_all. rewrite Hp. cbn [obind].
    unfold try_from_slice. cbn [required_size]. rewrite Ers. cbn [obind].
    destruct (required_size_scmp_bounds _ _ Ers) as [G L].
    destruct (blen pl <? n) eqn:Ln; [lia|].
    assert (T : try_from_slice KScmp pl = Ok (sub pl 0 n, sub pl n (blen pl))).
    { unfold try_from_slice. cbn [required_size]. rewrite Ers. cbn [obind]. rewrite Ln. reflexivity. }
    destruct (try_scmp_view pl _ _ Hbp T) as (G8 & Ety & _).
    rewrite Ety. unfold sp_scmp_type. fold pl. unfold lenN. fold (blen pl).
    destruct (8 <=? blen pl) eqn:C8; [|lia]. cbn [andb].
    assert (E128 : T_ECHO_REQUEST = spec_echo_request) by reflexivity. rewrite E128. reflexivity.
  - (* too short / inconsistent: no SCMP view; the specification agrees *)
    unfold lenN. fold (blen pl). unfold sp_scmp_type. fold pl.
    destruct (8 <=? blen pl) eqn:C8; [|reflexivity]. cbn [andb].
    (* 8 bytes are there, so the type-specific fixed part is missing: not an echo request *)
    destruct (nthN pl 0 =? spec_echo_request) eqn:C128; [|reflexivity].
    exfalso. apply N.eqb_eq in C128.
    unfold required_size_scmp in Ers.
    assert (E0 : required_size_scmp_msg 256 pl = Ok (blen pl)).
    { unfold required_size_scmp_msg. assert (S8 : scmp_header_size 256 = 8) by reflexivity. rewrite S8.
      destruct (blen pl <? 8) eqn:C; [lia|]. reflexivity. }
    rewrite E0 in Ers. unfold obind, get_unchecked in Ers.
    destruct ((0 <=? blen pl) && (blen pl <=? blen pl)) eqn:C; [|lia].
    rewrite sub_all in Ers. change ScmpUnknownMessage_TYPE_RNG with (8 * 0, 8 * 1) in Ers.
    rewrite (rd_byte pl 0 Hbp) in Ers by lia. rewrite C128 in Ers.
    unfold required_size_scmp_msg in Ers. assert (S : scmp_header_size spec_echo_request = 8) by reflexivity.
    rewrite S in Ers. destruct (blen pl <? 8) eqn:C'; [lia|discriminate].
  - (* the constructors never panic *)
    exfalso. unfold required_size_scmp in Ers.
    assert (S8 : scmp_header_size 256 = 8) by reflexivity.
    assert (F : scmp_fixed_size 256 = false) by reflexivity.
    unfold required_size_scmp_msg at 1 in Ers. rewrite S8, F in Ers.
    destruct (blen pl <? 8) eqn:C; [discriminate|].
    unfold obind, get_unchecked in Ers. destruct ((0 <=? blen pl) && (blen pl <=? blen pl)) eqn:C2; [|lia].
    rewrite sub_all in Ers. change ScmpUnknownMessage_TYPE_RNG with (8 * 0, 8 * 1) in Ers.
    rewrite (rd_byte pl 0 Hbp) in Ers by lia.
    unfold required_size_scmp_msg in Ers. destruct (_ <? _) in Ers; discriminate.
Qed.

(** * SCMP errors: what reaches the receivers, by literal offsets *)

Lemma as_scmp_literal v sv :
  bytes_ok v = true -> required_size_raw v = Ok (blen v) -> as_scmp v = Ok (Some sv) ->
  sp_next_hdr v = spec_proto_scmp /\ 8 <= blen (sp_payload v) /\
  scmp_type sv = Ok (sp_scmp_type v) /\
  exists n, required_size_scmp_msg (sp_scmp_type v) (sp_payload v) = Ok n /\ sv = sub (sp_payload v) 0 n.
Proof.
  intros Hb Hr Ha. unfold required_size_raw, obind in Hr.
  destruct (header_layout v) as [l| |] eqn:Hl; try discriminate.
  pose proof (raw_pkt_header v l Hb Hl) as Hh. pose proof (raw_next_header v l Hb Hl) as Hn.
  pose proof (raw_payload v l Hb Hl) as Hp. pose proof (bytes_ok_payload v Hb) as Hbp.
  unfold as_scmp in Ha. rewrite Hh in Ha. cbn [obind] in Ha. rewrite Hn in Ha. cbn [obind] in Ha.
  assert (P : PROTO_SCMP = 202) by reflexivity. rewrite P in Ha.
  destruct (nthN v 4 =? 202) eqn:Enh; cbn [negb] in Ha; [|discriminate].
  unfold try_from_slice at 1 in Ha. cbn [required_size] in Ha. unfold required_size_scmp_pkt in Ha.
  unfold required_size_raw at 1 in Ha. rewrite Hl in Ha. cbn [obind] in Ha. rewrite Hp in Ha. cbn [obind] in Ha.
  inversion Hr as [Hmin].
  destruct (required_size_scmp (sp_payload v)) as [n| |] eqn:Ers; cbn [obind] in Ha; try discriminate.
  rewrite !Hmin, N.ltb_irrefl, sub_all, Hp in Ha. cbn [obind] in Ha.
  destruct (try_from_slice KScmp (sp_payload v)) as [[sv' rest]| |] eqn:T; try discriminate.
  inversion Ha; subst sv'; clear Ha.
  destruct (try_scmp_view _ _ _ Hbp T) as (G8 & Ety & n' & En' & Esv).
  unfold sp_next_hdr, spec_proto_scmp, sp_scmp_type. apply N.eqb_eq in Enh.
  refine (conj Enh (conj G8 (conj Ety _))). exists n'. split; assumption.
Qed.

(** what the error handler reports is, literally: an SCMP packet of one of the five defined
    error kinds whose fixed part is complete, with its type, and as offending packet everything
    after the kind's fixed part *)
Theorem reported_error_is_literal v cb :
  bytes_ok v = true -> required_size_raw v = Ok (blen v) -> err_handle v = Ok (Some cb) ->
  spec_is_known_error v = true /\
  e_ty (cb_msg cb) = sp_scmp_type v /\
  err_quote v = Some (e_off (cb_msg cb)).
Proof.
  intros Hb Hr H. unfold err_handle in H.
  apply obind_ok in H. destruct H as (hv & _ & H).
  apply obind_ok in H. destruct H as ([[pt lo] hi] & _ & H).
  apply obind_ok in H. destruct H as (s & Hs & H). destruct s as [sv|]; [|discriminate].
  apply obind_ok in H. destruct H as (ty & Hty & H).
  destruct (scmp_is_error ty) eqn:Eerr; cbn [negb] in H; [|discriminate].
  apply obind_ok in H. destruct H as (m & Hm & H). inversion H; subst cb; clear H. cbn [cb_msg].
  destruct (as_scmp_literal v sv Hb Hr Hs) as (Enh & G8 & Ety & n & En & Esv).
  assert (Et : ty = sp_scmp_type v) by (rewrite Ety in Hty; inversion Hty; reflexivity). clear Hty.
  (* the five kinds: the view keeps the whole payload *)
  assert (K : In ty [1; 2; 4; 5; 6]).
  { unfold scmp_is_error, scmp_is_error_types in Eerr. apply existsb_exists in Eerr.
    destruct Eerr as (x & Hx & Ex). apply N.eqb_eq in Ex. subst x. exact Hx. }
  assert (Hfix : exists f, spec_err_fixed ty = Some f /\ scmp_header_size ty = f /\ scmp_fixed_size ty = false).
  { cbn [In] in K. destruct K as [K|[K|[K|[K|[K|[]]]]]]; rewrite <- K; eexists; repeat split; reflexivity. }
  destruct Hfix as (f & Hf & Hh & Hnf).
  rewrite <- Et in En. unfold required_size_scmp_msg in En. rewrite Hh, Hnf in En.
  destruct (blen (sp_payload v) <? f) eqn:C; [discriminate|]. inversion En; subst n; clear En.
  rewrite sub_all in Esv. subst sv.
  (* the model message *)
  assert (Hoff : e_ty m = ty /\ e_off m = skipn (N.to_nat f) (sp_payload v)).
  { unfold err_to_model in Hm. apply obind_ok in Hm. destruct Hm as (code & _ & Hm).
    apply obind_ok in Hm. destruct Hm as (tr & Htr & Hm).
    assert (Etr : sub (sp_payload v) (fst tr) (snd tr) = skipn (N.to_nat f) (sp_payload v)).
    { unfold scmp_tail_range in Htr. rewrite Hh in Htr. apply obind_ok in Htr. destruct Htr as (x & _ & Htr).
      inversion Htr; subst tr; clear Htr. cbn [fst snd].
      assert (L : byte_lo (f * 8, (blen (sp_payload v) - f) * 8) = f) by (unfold byte_lo, r_start; cbn [fst]; lia).
      assert (U : byte_hi (f * 8, (blen (sp_payload v) - f) * 8) = blen (sp_payload v)) by (unfold byte_hi, r_end; cbn [fst snd]; lia).
      rewrite L, U. unfold sub. apply firstn_all2. rewrite skipn_length. unfold blen. lia. }
    rewrite Etr in Hm.
    repeat match type of Hm with
    | (if ?c then _ else _) = _ => destruct c
    | obind ?x _ = _ => let E := fresh in destruct x eqn:E; cbn [obind] in Hm; try discriminate Hm
    end; inversion Hm; subst m; split; reflexivity. }
  destruct Hoff as [Hmty Hmoff].
  refine (conj _ (conj _ _)).
  - unfold spec_is_known_error. rewrite Enh, N.eqb_refl. cbn [andb]. rewrite <- Et, Hf.
    unfold lenN. fold (blen (sp_payload v)). apply andb_true_intro. split; apply N.leb_le; lia.
  - rewrite Hmty. exact Et.
  - unfold err_quote. rewrite <- Et, Hf, Hmoff. reflexivity.
Qed.

(** * the echo reply, by literal offsets: the request's SCMP message from byte 4 on, behind
    type 129, code 0 and the (recomputed) checksum *)

Lemma be_bytes_2 a b : a < 256 -> b < 256 -> be_bytes 2 (256 * a + b) = [a; b].
Proof.
  intros Ha Hb. cbn [be_bytes app]. f_equal; [|f_equal]; lia.
Qed.

Lemma skipn4_8 (l : bytes) :
  8 <= blen l -> skipn 4 l = [nthN l 4; nthN l 5; nthN l 6; nthN l 7] ++ skipn 8 l.
Proof.
  intros H. unfold blen, nthN in *.
  rewrite (skipn_nth l 4 0) by lia. rewrite (skipn_nth l 5 0) by lia.
  rewrite (skipn_nth l 6 0) by lia. rewrite (skipn_nth l 7 0) by lia. reflexivity.
Qed.

Theorem echo_reply_is_literal v p r :
  bytes_ok v = true -> required_size_raw v = Ok (blen v) -> echo_handle v p = Ok (Some r) ->
  rp_payload r = [129; 0; 0; 0] ++ skipn 4 (sp_payload v) /\
  rp_id r = 256 * nthN (sp_payload v) 4 + nthN (sp_payload v) 5 /\
  rp_seq r = 256 * nthN (sp_payload v) 6 + nthN (sp_payload v) 7 /\
  rp_data r = skipn 8 (sp_payload v).
Proof.
  intros Hb Hr H.
  destruct (echo_handle_some v p r H) as (sv & ty & dr & H1 & H2 & H3 & H4 & H5 & H6 & H7 & _ & _ & _ & H11).
  apply echo_answers_only_echo_request in H3. subst ty.
  destruct (as_scmp_literal v sv Hb Hr H1) as (_ & G8 & Ety & n & En & Esv).
  pose proof (bytes_ok_payload v Hb) as Hbp. set (pl := sp_payload v) in *.
  assert (Et : sp_scmp_type v = T_ECHO_REQUEST) by (rewrite Ety in H2; inversion H2; reflexivity).
  rewrite Et in En. unfold required_size_scmp_msg in En.
  assert (S8 : scmp_header_size T_ECHO_REQUEST = 8) by reflexivity.
  assert (F : scmp_fixed_size T_ECHO_REQUEST = false) by reflexivity. rewrite S8, F in En.
  destruct (blen pl <? 8); [discriminate|]. inversion En; subst n; clear En.
  rewrite sub_all in Esv. subst sv.
  change ScmpEchoRequest_IDENTIFIER_RNG with (8 * 4, 8 * 2) in H4. rewrite (rd_u16 pl 4 Hbp) in H4 by lia.
  change ScmpEchoRequest_SEQUENCE_NUMBER_RNG with (8 * 6, 8 * 2) in H5. rewrite (rd_u16 pl 6 Hbp) in H5 by lia.
  change (4 + 1) with 5 in *. change (6 + 1) with 7 in *.
  assert (Eid : rp_id r = 256 * nthN pl 4 + nthN pl 5) by congruence.
  assert (Esq : rp_seq r = 256 * nthN pl 6 + nthN pl 7) by congruence.
  assert (Edata : rp_data r = skipn 8 pl).
  { rewrite H7. unfold scmp_tail_range in H6. rewrite S8 in H6. apply obind_ok in H6. destruct H6 as (x & _ & H6).
    inversion H6; subst dr. cbn [fst snd].
    assert (L : byte_lo (8 * 8, (blen pl - 8) * 8) = 8) by (unfold byte_lo, r_start; cbn [fst]; lia).
    assert (U : byte_hi (8 * 8, (blen pl - 8) * 8) = blen pl) by (unfold byte_hi, r_end; cbn [fst snd]; lia).
    rewrite L, U. unfold sub. change (N.to_nat 8) with 8%nat. apply firstn_all2. rewrite skipn_length. unfold blen. lia. }
  refine (conj _ (conj Eid (conj Esq Edata))).
  rewrite Scmp.Bytes.encode_echo_reply_closed in H11. inversion H11 as [Epl]. clear H11.
  rewrite Edata, Eid, Esq.
  pose proof (bytes_ok_nth pl 4 Hbp). pose proof (bytes_ok_nth pl 5 Hbp).
  pose proof (bytes_ok_nth pl 6 Hbp). pose proof (bytes_ok_nth pl 7 Hbp).
  assert (T1 : trunc 16 (256 * nthN pl 4 + nthN pl 5) = 256 * nthN pl 4 + nthN pl 5)
    by (unfold trunc; change (2 ^ 16) with 65536; lia).
  assert (T2 : trunc 16 (256 * nthN pl 6 + nthN pl 7) = 256 * nthN pl 6 + nthN pl 7)
    by (unfold trunc; change (2 ^ 16) with 65536; lia).
  rewrite T1, T2, (skipn4_8 pl G8). cbn [app]. repeat f_equal; lia.
Qed.
