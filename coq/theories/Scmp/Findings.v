(** C14 -- witnesses by computation on the model for the recorded findings
    (known_findings/C14.json) and non-vacuity examples for the theorems of [Props]. *)
From Sci Require Import Scmp.Model Scmp.Spec Scmp.Proofs Scmp.Cases.
Local Open Scope N_scope.

(** a SCION packet with IPv4 hosts 10.0.0.2 -> 10.0.0.1, ISD-AS 1-ff00:0:111 -> 1-ff00:0:110,
    empty path, upper layer [next] with payload [pl] *)
Definition IA_110 : N := 281105609523472.   (* 0x0001_ff00_0000_0110 *)
Definition IA_111 : N := 281105609523473.
Definition mk_pkt (next : N) (pl : bytes) : bytes :=
  [0; 0; 0; 0; next; 9; blen pl / 256; blen pl mod 256; 0; 0; 0; 0]
  ++ be_bytes 8 IA_110 ++ be_bytes 8 IA_111 ++ [10; 0; 0; 1] ++ [10; 0; 0; 2] ++ pl.

(** SCMP message with the RFC 1071 checksum of [Spec] (or that checksum + [delta]) *)
Definition mk_scmp (ty code : N) (rest : bytes) (delta : N) : bytes :=
  let m0 := [ty; code; 0; 0] ++ rest in
  let ck := (rfc1071 (pseudo_header IA_110 IA_111 [10; 0; 0; 1] [10; 0; 0; 2] (blen m0) 202 ++ m0) + delta) mod 65536 in
  [ty; code; ck / 256; ck mod 256] ++ rest.

Definition echo_req_good : bytes := mk_pkt 202 (mk_scmp 128 0 [0; 7; 0; 9; 112; 105; 110; 103] 0).
Definition echo_req_badck : bytes := mk_pkt 202 (mk_scmp 128 0 [0; 7; 0; 9; 112; 105; 110; 103] 1).

(** the well-formed request verifies and is answered with identifier 7, sequence number 9, the
    same data, addresses swapped *)
Lemma echo_good_answered :
  match echo_handle echo_req_good DP_Empty with
  | Ok (Some r) =>
    packet_checksum_ok echo_req_good && (rp_id r =? 7) && (rp_seq r =? 9)
    && list_eqb N.eqb (rp_data r) [112; 105; 110; 103]
    && (rp_dst_ia r =? IA_111) && (rp_src_ia r =? IA_110)
    && list_eqb N.eqb (rp_payload r) [129; 0; 0; 0; 0; 7; 0; 9; 112; 105; 110; 103]
  | _ => false
  end = true.
Proof. vm_compute. reflexivity. Qed.

(** FINDING C14-bad-checksum-echo-answered: the same request with a checksum that does not
    verify is answered all the same: nothing on the receive side looks at the checksum *)
Lemma bad_checksum_echo_answered :
  bad_checksum_echo echo_req_badck = true /\
  match echo_handle echo_req_badck DP_Empty with Ok (Some r) => rp_id r =? 7 | _ => false end = true.
Proof. vm_compute. split; reflexivity. Qed.

(** the reply decision never reads the checksum: for the class predicate of the finding the
    handler's answer is the answer to the corrected packet *)
Lemma bad_checksum_same_answer :
  match echo_handle echo_req_badck DP_Empty, echo_handle echo_req_good DP_Empty with
  | Ok (Some a), Ok (Some b) => list_eqb N.eqb (rp_payload a) (rp_payload b)
  | _, _ => false
  end = true.
Proof. vm_compute. reflexivity. Qed.

(** FINDING C14-unknown-error-type-not-reported: an SCMP error of unassigned type 3 (checksum
    fine) is an SCMP error by the specification and reaches no receiver *)
Definition err_type3 : bytes := mk_pkt 202 (mk_scmp 3 0 [0; 0; 0; 0; 1; 2; 3; 4] 0).
Lemma unknown_error_type_not_reported :
  spec_is_unknown_error err_type3 = true /\ packet_checksum_ok err_type3 = true /\
  err_handle err_type3 = Ok None.
Proof. vm_compute. repeat split; reflexivity. Qed.

(** FIXED C14-gateway-answers-scmp-error: the SNAP gateway's reply to an inbound datagram that
    fails its check is [ParameterProblem(code, pointer, datagram)]; before the repair also for
    a datagram that itself is an SCMP error.  Now a parseable SCMP error (DestinationUnreachable,
    unassigned type 3) is recognised and nothing is sent; an echo request failing the check is
    still answered, and so is a datagram too damaged to parse *)
Definition err_du : bytes := mk_pkt 202 (mk_scmp 1 3 [0; 0; 0; 0; 1; 2; 3; 4] 0).
Lemma gateway_ignores_scmp_errors :
  spec_is_scmp_error err_du = true /\
  gateway_suppresses false err_du = Ok true /\
  gateway_suppresses false err_type3 = Ok true /\
  gateway_suppresses false echo_req_good = Ok false /\
  gateway_suppresses true err_du = Ok false /\
  match encode_err (mkE 4 33 32 0 0 echo_req_good) 36 with
  | Ok b => is_prefix (skipn 8 b) echo_req_good && (nth 0 b 0 =? 4)
  | _ => false end = true.
Proof. vm_compute. repeat split; reflexivity. Qed.

(** FIXED C14-unknown-error-type-answered (pocketscion): after the repair no reply target is
    computed for an SCMP error of unassigned type; an echo request still gets one *)
Lemma pocketscion_ignores_unknown_error_types :
  sim_reply_target err_type3 DP_Empty = Ok None /\
  sim_reply_target err_du DP_Empty = Ok None /\
  match sim_reply_target echo_req_good DP_Empty with Ok (Some (ia, _, _)) => ia =? IA_111 | _ => false end = true.
Proof. vm_compute. repeat split; reflexivity. Qed.

(** the precondition of the size theorem is necessary: with a (not encodable) 1210-byte header
    an InternalConnectivityDown message quotes nothing and still ends beyond 1232 *)
Lemma size_precondition_necessary :
  from_offending_packet_length 28 100 1210 = 28 /\ (1232 <? 1210 + from_offending_packet_length 28 100 1210) = true.
Proof. vm_compute. split; reflexivity. Qed.

(** non-vacuity of the receive-loop theorem: a UDP datagram, a DestinationUnreachable error and
    an echo request, echo handler installed, 4-byte caller buffer: no step panics, one
    datagram (reported length 5, first 4 bytes copied), one error callback, one reply *)
Definition udp_pkt : bytes := mk_pkt 17 [3; 232; 7; 208; 0; 13; 0; 0; 1; 2; 3; 4; 5].
Definition stream3 : list (bytes * dppath) :=
  [(udp_pkt, DP_Empty); (err_du, DP_Empty); (echo_req_good, DP_Empty)].
Lemma stream_example :
  let effs := recv_stream true 4 stream3 in
  forallb is_ok effs = true /\
  map (fun d => (dg_len d, dg_data d, dg_src_port d)) (dgrams_of effs) = [(5, [1; 2; 3; 4], 1000)] /\
  map (fun c => (e_ty (cb_msg c), e_code (cb_msg c), e_off (cb_msg c))) (errs_of effs) = [(1, 3, [1; 2; 3; 4])] /\
  map rp_id (replies_of effs) = [7].
Proof. vm_compute. repeat split; reflexivity. Qed.

(** non-vacuity of [Props.reply_iff_echo_request_literal]: the example request is a decodable
    raw packet (bytes < 256, the raw view is the whole buffer) and reads as an echo request
    both ways *)
Lemma literal_premises_hold :
  bytes_ok echo_req_good = true /\ required_size_raw echo_req_good = Ok (blen echo_req_good) /\
  spec_is_echo_request echo_req_good = true /\ spec_is_echo_request err_du = false /\
  bytes_ok err_du = true /\ required_size_raw err_du = Ok (blen err_du).
Proof. vm_compute. repeat split; reflexivity. Qed.
