(** C14 -- model of SCMP handling.  Definitions only, statement by statement after

    - sciparse  proto/payload/scmp/layout.rs   [*Layout::from_offending_packet_length]
    - sciparse  proto/payload/scmp/model.rs    error / echo-reply [PayloadEncode::encode_unchecked]
    - sciparse  proto/packet/model.rs          [ScionPacket::required_size / into_raw] (who passes
                                               which header size)
    - scion-stack stack/scmp_handler/echo.rs   [DefaultEchoHandler::handle]
    - scion-stack stack/scmp_handler/error.rs  [ScmpErrorHandler::handle]
    - scion-stack stack/socket.rs              [PathUnawareUdpScionSocket::recv_from*] loop
    - sciparse  proto/dataplane_path/{model,standard/model,onehop/model}.rs  [try_reverse]
    - pocketscion network/local/simulator.rs   [maybe_create_scmp_reply]

    Byte-level reading of received packets goes through [Sci.Wire.Model] (imported, not copied):
    every read is [rd]/[get_unchecked]/[index_range], which return [Panic] where the Rust code
    would.  Constants come from [Gen.ScmpConfig] (tools/gen.d/scmp.py) and [Gen.Layout] /
    [Gen.Tables] (tools/gen.d/wire.py).

    The checksum field: every encoder writes the checksum last, over bytes 2..3 of the message.
    The value is C03's subject ([Wire] area); here the encoders leave the field 0 and the
    correspondence compares all other bytes, while the checksum of the IMPLEMENTATION's output
    is judged by the independent RFC 1071 oracle of [Scmp.Spec]. *)
From Sci Require Export Wire.Model Gen.ScmpConfig.
Local Open Scope N_scope.

(** * 1. Error layouts (layout.rs) *)

Fixpoint assocN (k : N) (l : list (N * N)) : option N :=
  match l with [] => None | (a, b) :: r => if a =? k then Some b else assocN k r end.

(** HEADER_SIZE_BYTES of the error kind with type number [ty] *)
Definition err_hdr (ty : N) : option N := assocN ty scmp_error_kinds.

(** [Scmp<Kind>Layout::from_offending_packet_length(n, h).size_bytes()], [hdr] = the kind's
    HEADER_SIZE_BYTES.  [N] subtraction is [saturating_sub]. *)
Definition from_offending_packet_length (hdr n h : N) : N :=
  let max_payload := SCMP_MAX - h in
  let max_offending_len := max_payload - hdr in
  let included_offending := N.min n max_offending_len in
  hdr + included_offending.

(** [offending_packet_rng()] of a layout with [payload_length = plen] *)
Definition offending_rng (hdr plen : N) : rng := (hdr * 8, (plen - hdr) * 8).

(** * 2. Error messages and their encoder (model.rs) *)

(** [e_f1..3]: DestinationUnreachable: -; PacketTooBig: mtu; ParameterProblem: pointer;
    ExternalInterfaceDown: isd_asn, interface_id; InternalConnectivityDown: isd_asn, ingress,
    egress.  [e_code] is used by DestinationUnreachable and ParameterProblem only. *)
Record emsg := mkE { e_ty : N; e_code : N; e_f1 : N; e_f2 : N; e_f3 : N; e_off : bytes }.

Definition zeros (n : N) : bytes := repeat 0 (N.to_nat n).

(** buf.get_unchecked_mut(lo..hi).copy_from_slice(src): both slices must have equal length *)
Definition P_COPYLEN := 20.
Definition splice (buf : bytes) (lo hi : N) (src : bytes) : res bytes :=
  if negb ((lo <=? hi) && (hi <=? blen buf)) then Panic P_OOB
  else if negb (blen src =? hi - lo) then Panic P_COPYLEN
  else Ok (firstn (N.to_nat lo) buf ++ src ++ skipn (N.to_nat hi) buf).

(** the fixed fields after type/code/checksum, per kind *)
Definition write_fixed (m : emsg) (buf : bytes) : res bytes :=
  let ty := e_ty m in
  if ty =? SCMP_T_DestinationUnreachable then
    wr buf ScmpDestinationUnreachable_RESERVED_RNG 0
  else if ty =? SCMP_T_PacketTooBig then
    b <- wr buf ScmpPacketTooBig_RESERVED_RNG 0 ;;
    wr b ScmpPacketTooBig_MTU_RNG (trunc 16 (e_f1 m))
  else if ty =? SCMP_T_ParameterProblem then
    b <- wr buf ScmpParameterProblem_RESERVED_RNG 0 ;;
    wr b ScmpParameterProblem_POINTER_RNG (trunc 16 (e_f1 m))
  else if ty =? SCMP_T_ExternalInterfaceDown then
    b <- wr buf ScmpExternalInterfaceDown_ISD_AS_RNG (trunc 64 (e_f1 m)) ;;
    wr b ScmpExternalInterfaceDown_INTERFACE_ID_RNG (trunc 16 (e_f2 m))
  else
    b <- wr buf ScmpInternalConnectivityDown_ISD_AS_RNG (trunc 64 (e_f1 m)) ;;
    b <- wr b ScmpInternalConnectivityDown_INGRESS_INTERFACE_ID_RNG (trunc 16 (e_f2 m)) ;;
    wr b ScmpInternalConnectivityDown_EGRESS_INTERFACE_ID_RNG (trunc 16 (e_f3 m)).

(** the code written: PacketTooBig / ExternalInterfaceDown / InternalConnectivityDown write 0 *)
Definition written_code (m : emsg) : N :=
  if (e_ty m =? SCMP_T_DestinationUnreachable) || (e_ty m =? SCMP_T_ParameterProblem)
  then trunc 8 (e_code m) else 0.

(** [PayloadEncode::required_size(h)] of an error message *)
Definition err_required_size (m : emsg) (h : N) : option N :=
  match err_hdr (e_ty m) with
  | Some hdr => Some (from_offending_packet_length hdr (blen (e_off m)) h)
  | None => None
  end.

Definition P_NOT_ERROR := 21.  (* model misuse: [e_ty] is not an error kind *)

(** [encode_unchecked(buf, _, h)] on the zeroed buffer [into_raw]/[encode] hands it
    ([vec![0u8; payload_size]] / freshly sized), checksum field left 0 (see file header) *)
Definition encode_err (m : emsg) (h : N) : res bytes :=
  match err_hdr (e_ty m) with
  | None => Panic P_NOT_ERROR
  | Some hdr =>
    let message_length := from_offending_packet_length hdr (blen (e_off m)) h in
    let buf := zeros message_length in
    b <- wr buf ScmpUnknownMessage_TYPE_RNG (e_ty m) ;;
    b <- wr b ScmpUnknownMessage_CODE_RNG (written_code m) ;;
    b <- wr b ScmpUnknownMessage_CHECKSUM_RNG 0 ;;
    b <- write_fixed m b ;;
    let r := offending_rng hdr message_length in
    let lo := byte_lo r in let hi := byte_hi r in
    let offending_packet_len := hi - lo in
    (* &self.offending_packet[..offending_packet_len] *)
    q <- index_range (e_off m) 0 offending_packet_len ;;
    splice b lo hi q
  end.

(** * 3. Whole packets: who passes which header size (packet/model.rs)

    [ScionPacket::required_size] = header.required_size() + payload.required_size(header.required_size());
    [encode_unchecked] and [into_raw] pass the same [header_size] to the payload encoder.  The
    header itself is C03's; here only its size matters. *)

(** ScionPacketHeader::required_size for host address lengths and a path of [path_size] bytes *)
Definition header_required_size (dst_len src_len path_size : N) : N :=
  CommonHeader_SIZE_BYTES + addr_hdr_size src_len dst_len + path_size.

(** total size of an encoded SCMP error packet whose own header has size [h] *)
Definition err_packet_size (m : emsg) (h : N) : option N :=
  match err_required_size m h with Some s => Some (h + s) | None => None end.

(** ScionPacketHeader::wire_valid, size part *)
Definition header_size_valid (h : N) : bool := (h mod 4 =? 0) && (h <=? ScionHeader_MAX_SIZE_BYTES).

(** * 4. Data-plane paths, structurally (dataplane_path/*/model.rs) *)

(** The structural path is [Wire.Types.dp_path] ([DP_Std ci ch segs | DP_OneHop i h1 h2 |
    DP_Empty | DP_Unsupported pt data], [segment = mkSeg info hops], [info_f = mkIF flags segid
    ts], [hop_f = mkHF flags exp ingress egress mac]). *)
Definition dppath := dp_path.
Definition seg := segment.

Definition FLAG_CONS_DIR : N := 1.
Definition toggle_cons_dir (i : info_f) : info_f :=
  mkIF (N.lxor (i_flags i) FLAG_CONS_DIR) (i_segid i) (i_ts i).
Definition hop_count (segs : list seg) : N :=
  fold_right (fun s acc => N.of_nat (length (s_hops s)) + acc) 0 segs.

(** StandardPath::try_reverse *)
Definition std_reverse (ci ch : N) (segs : list seg) : option dppath :=
  let seg_count := N.of_nat (length segs) in
  if seg_count =? 0 then None
  else if hop_count segs <=? ch then None
  else if seg_count <=? ci then None
  else
    let segs1 := map (fun s : seg => mkSeg (toggle_cons_dir (s_info s)) (s_hops s)) segs in
    let segs2 := rev segs1 in
    let segs3 := map (fun s : seg => mkSeg (s_info s) (rev (s_hops s))) segs2 in
    let total_hops := hop_count segs3 in
    let new_hop_idx := (total_hops - ch) - 1 in
    let new_info_idx := (seg_count - ci) - 1 in
    Some (DP_Std (trunc 8 new_info_idx) (trunc 8 new_hop_idx) segs3).

(** DpPath::try_reverse (OneHop becomes a Standard path) *)
Definition dp_reverse (p : dppath) : option dppath :=
  match p with
  | DP_Std ci ch segs => std_reverse ci ch segs
  | DP_OneHop i h1 h2 =>
    if h_in h2 =? 0 then None
    else Some (DP_Std 0 0 [mkSeg (toggle_cons_dir i) [h2; h1]])
  | DP_Empty => Some DP_Empty
  | DP_Unsupported _ _ => None
  end.

(** * 5. Received packets: the SCMP view of a raw packet view (packet/view.rs) *)

(** [ScionRawPacketView::try_as_scmp] then [.scmp()]: the bytes of the SCMP payload view.
    [Ok None] = the conversion returned [Err] (next header not SCMP / payload too small). *)
Definition as_scmp (v : bytes) : res (option bytes) :=
  hv <- pkt_header v ;;
  nh <- hv_next_header hv ;;
  if negb (nh =? PROTO_SCMP) then Ok None else
  match try_from_slice KScmpPkt v with
  | Err _ => Ok None
  | Panic s => Panic s
  | Ok (pv, _) =>
    (* .scmp(): ScmpPayloadView::try_from_slice(self.payload()).expect(..) *)
    pl <- pkt_payload pv ;;
    match try_from_slice KScmp pl with
    | Err _ => Panic P_SCMP_EXPECT
    | Panic s => Panic s
    | Ok (sv, _) => Ok (Some sv)
    end
  end.

(** WireHostAddr -> ScionHostAddr: unknown types and size mismatches are errors *)
Definition scion_host (o : option host_addr) : option host_addr :=
  match o with
  | Some (HA_Unknown _ _) => None
  | Some a => Some a
  | None => None
  end.

(** ScionPacketView::src_scion_addr / dst_scion_addr *)
Definition src_scion_addr (v : bytes) : res (option (N * host_addr)) :=
  hv <- pkt_header v ;;
  h <- hv_src_host hv ;;
  match scion_host h with
  | None => Ok None
  | Some a => ia <- hv_src_ia hv ;; Ok (Some (ia, a))
  end.
Definition dst_scion_addr (v : bytes) : res (option (N * host_addr)) :=
  hv <- pkt_header v ;;
  h <- hv_dst_host hv ;;
  match scion_host h with
  | None => Ok None
  | Some a => ia <- hv_dst_ia hv ;; Ok (Some (ia, a))
  end.

(** * 6. DefaultEchoHandler (echo.rs) *)

(** ScmpEchoReply::encode_unchecked on a zeroed buffer, checksum field left 0 *)
Definition encode_echo_reply (id sq : N) (data : bytes) : res bytes :=
  let size := blen data + ScmpEchoReply_HEADER_SIZE_BYTES in
  let buf := zeros size in
  b <- wr buf ScmpEchoReply_TYPE_RNG T_ECHO_REPLY ;;
  b <- wr b ScmpEchoReply_CODE_RNG 0 ;;
  b <- wr b ScmpEchoReply_CHECKSUM_RNG 0 ;;
  b <- wr b ScmpEchoReply_IDENTIFIER_RNG (trunc 16 id) ;;
  b <- wr b ScmpEchoReply_SEQUENCE_NUMBER_RNG (trunc 16 sq) ;;
  let r : rng := (ScmpEchoReply_HEADER_SIZE_BYTES * 8, (size - ScmpEchoReply_HEADER_SIZE_BYTES) * 8) in
  let lo := byte_lo r in let hi := byte_hi r in
  q <- index_range data 0 (hi - lo) ;;
  splice b lo hi q.

(** the reply [ScionRawPacket] (model: addresses, path, encoded payload; next_header = SCMP,
    traffic class and flow id 0) *)
Record reply := mkReply {
  rp_src_ia : N; rp_src_host : host_addr;
  rp_dst_ia : N; rp_dst_host : host_addr;
  rp_path : dppath;
  rp_id : N; rp_seq : N; rp_data : bytes;
  rp_payload : bytes }.

(** [DefaultEchoHandler::handle(p_raw)]; [p] is [p_raw.header().path().to_model()] (the
    structural path; view-to-model agreement is C12's subject).  Errors of [try_echo_reply]
    are logged and give [None]. *)
Definition echo_handle (v : bytes) (p : dppath) : res (option reply) :=
  s <- as_scmp v ;;
  match s with
  | None => Ok None                                   (* "Packet is not a valid SCMP packet" *)
  | Some sv =>
    ty <- scmp_type sv ;;
    if negb (existsb (N.eqb ty) echo_answered_types) then Ok None else
    id <- rd sv ScmpEchoRequest_IDENTIFIER_RNG 16 ;;
    sq <- rd sv ScmpEchoRequest_SEQUENCE_NUMBER_RNG 16 ;;
    dr <- scmp_tail_range ty sv ;;
    let data := sub sv (fst dr) (snd dr) in
    match dp_reverse p with
    | None => Ok None                                 (* "Failed to reverse path" *)
    | Some rpath =>
      src <- src_scion_addr v ;;
      match src with
      | None => Ok None                               (* "Failed to decode source address" *)
      | Some (src_ia, src_host) =>
        dst <- dst_scion_addr v ;;
        match dst with
        | None => Ok None                             (* "Failed to decode destination address" *)
        | Some (dst_ia, dst_host) =>
          (* ScionScmpPacket::new(dst, src, reply_path, reply_msg); reply.into() = into_raw() *)
          pl <- encode_echo_reply id sq data ;;
          Ok (Some (mkReply dst_ia dst_host src_ia src_host rpath id sq data pl))
        end
      end
    end
  end.

(** * 7. ScmpErrorHandler (error.rs) *)

(** what a registered [ScmpErrorReceiver] is called with: the decoded error message (to_model:
    interface ids are truncated to u16) and the raw path of the packet it came in *)
Record errcb := mkCb { cb_msg : emsg; cb_path_type : N; cb_path : bytes }.

Definition scmp_is_error (ty : N) : bool := existsb (N.eqb ty) scmp_is_error_types.

(** [Scmp<Kind>::from_view] *)
Definition err_to_model (ty : N) (sv : bytes) : res emsg :=
  code <- scmp_code sv ;;
  tr <- scmp_tail_range ty sv ;;
  let off := sub sv (fst tr) (snd tr) in
  if ty =? SCMP_T_DestinationUnreachable then Ok (mkE ty code 0 0 0 off)
  else if ty =? SCMP_T_PacketTooBig then
    mtu <- rd sv ScmpPacketTooBig_MTU_RNG 16 ;; Ok (mkE ty 0 mtu 0 0 off)
  else if ty =? SCMP_T_ParameterProblem then
    ptr <- rd sv ScmpParameterProblem_POINTER_RNG 16 ;; Ok (mkE ty code ptr 0 0 off)
  else if ty =? SCMP_T_ExternalInterfaceDown then
    ia <- rd sv ScmpExternalInterfaceDown_ISD_AS_RNG 64 ;;
    i1 <- rd sv ScmpExternalInterfaceDown_INTERFACE_ID_RNG 64 ;;
    Ok (mkE ty 0 ia (trunc 16 i1) 0 off)
  else
    ia <- rd sv ScmpInternalConnectivityDown_ISD_AS_RNG 64 ;;
    i1 <- rd sv ScmpInternalConnectivityDown_INGRESS_INTERFACE_ID_RNG 64 ;;
    i2 <- rd sv ScmpInternalConnectivityDown_EGRESS_INTERFACE_ID_RNG 64 ;;
    Ok (mkE ty 0 ia (trunc 16 i1) (trunc 16 i2) off).

(** [ScmpErrorHandler::handle]: the callback made to every live receiver ([None]: no callback).
    The handler itself never returns a reply. *)
Definition err_handle (v : bytes) : res (option errcb) :=
  hv <- pkt_header v ;;
  pr <- hv_path_range hv ;;
  let '(pt, lo, hi) := pr in
  s <- as_scmp v ;;
  match s with
  | None => Ok None
  | Some sv =>
    ty <- scmp_type sv ;;
    if negb (scmp_is_error ty) then Ok None else
    m <- err_to_model ty sv ;;
    Ok (Some (mkCb m pt (sub hv lo hi)))
  end.

(** * 8. The receive loop of PathUnawareUdpScionSocket (socket.rs) *)

(** one datagram handed to the caller *)
Record dgram := mkDg {
  dg_len : N;            (* reported length: the full UDP payload length *)
  dg_data : bytes;       (* bytes copied into the caller's buffer *)
  dg_src_ia : N; dg_src_host : host_addr; dg_src_port : N }.

(** what one received packet makes the loop do *)
Record effect := mkEff { ef_dgram : option dgram; ef_replies : list reply; ef_errs : list errcb }.
Definition no_effect := mkEff None [] [].

(** ScionUdpPacketView::udp(): UdpDatagramView::try_from_slice(self.payload()).expect(..) *)
Definition udp_view (pv : bytes) : res bytes :=
  pl <- pkt_payload pv ;;
  match try_from_slice KUdp pl with
  | Err _ => Panic P_UDP_EXPECT
  | Panic s => Panic s
  | Ok (uv, _) => Ok uv
  end.

Definition is_ip_host (a : host_addr) : bool :=
  match a with HA_V4 _ | HA_V6 _ => true | _ => false end.

(** the UDP branch of the loop body; [buflen] = caller's buffer length *)
Definition recv_udp (buflen : N) (v : bytes) : res (option dgram) :=
  match try_from_slice KUdpPkt v with            (* packet.try_as_udp() (next header checked before) *)
  | Err _ => Ok None
  | Panic s => Panic s
  | Ok (pv, _) =>
    (* src_socket_addr(): port first, then ia, then host *)
    uv <- udp_view pv ;;
    port <- udp_src_port uv ;;
    hv <- pkt_header pv ;;
    ia <- hv_src_ia hv ;;
    h <- hv_src_host hv ;;
    match scion_host h with
    | None => Ok None
    | Some a =>
      if negb (is_ip_host a) then Ok None else   (* try_to_scion_sock_ip_addr *)
      pr <- udp_payload_range uv ;;
      let payload := sub uv (fst pr) (snd pr) in
      let max_read := N.min buflen (blen payload) in
      Ok (Some (mkDg (blen payload) (sub payload 0 max_read) ia a port))
    end
  end.

(** Every handler is asked in turn; a reply is encoded (reply.try_encode_to_owned_view()) and
    handed to the underlay's try_send.  The encode can only fail for a reply that is not
    wire-valid; an echo reply has the request's addresses and a reversed path of the request's
    size (+4 bytes for a one-hop path), so the model sends every reply the echo handler
    returns; the correspondence compares the packets actually passed to try_send. *)
Definition handlers_run (with_echo : bool) (v : bytes) (p : dppath) : res effect :=
  e <- err_handle v ;;
  r <- (if with_echo then echo_handle v p else Ok None) ;;
  Ok (mkEff None
        (match r with Some x => [x] | None => [] end)
        (match e with Some x => [x] | None => [] end)).

(** one iteration of the loop body on packet [v] (a decodable raw packet, as the underlay
    guarantees); handlers = [ScmpErrorHandler; DefaultEchoHandler?] in that order *)
Definition recv_step (with_echo : bool) (buflen : N) (v : bytes) (p : dppath) : res effect :=
  hv <- pkt_header v ;;
  nh <- hv_next_header hv ;;
  if nh =? PROTO_UDP then
    d <- recv_udp buflen v ;; Ok (mkEff d [] [])
  else if nh =? PROTO_SCMP then handlers_run with_echo v p
  else Ok no_effect.

(** the observable behaviour of the socket on a stream of received packets: one effect per
    packet, in order ([None] after a panic: the task died) *)
Fixpoint recv_stream (with_echo : bool) (buflen : N) (pkts : list (bytes * dppath)) : list (res effect) :=
  match pkts with
  | [] => []
  | (v, p) :: r =>
    let e := recv_step with_echo buflen v p in
    e :: (if is_panic e then [] else recv_stream with_echo buflen r)
  end.

(** * 9. pocketscion: maybe_create_scmp_reply (simulator.rs): is a reply produced at all?
    [Ok None]: no reply; [Ok (Some (dst_ia, dst_host, rpath))]: reply addressed to the source of
    the offending packet over the reversed path.  Errors ([?]) abort without reply ([Ok None]). *)
Definition host_is_multicast (a : host_addr) : bool :=
  match a with
  | HA_V4 b => match b with x :: _ => (224 <=? x) && (x <=? 239) | _ => false end
  | HA_V6 b => match b with x :: _ => x =? 255 | _ => false end
  | _ => false
  end.

Definition sim_reply_target (v : bytes) (p : dppath) : res (option (N * host_addr * dppath)) :=
  hv <- pkt_header v ;;
  nh <- hv_next_header hv ;;
  (* try_classify: malformed UDP/SCMP payloads abort *)
  cls <- (if nh =? PROTO_UDP then
            match try_from_slice KUdpPkt v with Err _ => Ok None | Panic s => Panic s | Ok _ => Ok (Some 0) end
          else if nh =? PROTO_SCMP then
            s <- as_scmp v ;;
            match s with
            | None => Ok None
            | Some sv => ty <- scmp_type sv ;; Ok (Some (if scmp_is_error ty || (ty <? SIM_ERROR_TYPE_BOUND) then 1 else 0))
            end
          else Ok (Some 0)) ;;
  match cls with
  | None => Ok None
  | Some 1 => Ok None                               (* don't reply to SCMP error messages *)
  | Some _ =>
    src <- src_scion_addr v ;;
    match src with
    | None => Ok None
    | Some (ia, a) =>
      if host_is_multicast a then Ok None else
      match dp_reverse p with
      | None => Ok None
      | Some rp => Ok (Some (ia, a, rp))
      end
    end
  end.

(** * 10. SNAP tunnel gateway: PacketPolicyError::offending_is_scmp_error (packet_policy.rs).
    [malformed]: the failed check was MalformedPacket (no view exists); otherwise [d] is the
    datagram and the view is its decodable prefix.  [Ok true]: the gateway sends nothing. *)
Definition gateway_suppresses (malformed : bool) (d : bytes) : res bool :=
  if malformed then Ok false else
  vr <- try_from_slice KRaw d ;;
  let v := fst vr in
  hv <- pkt_header v ;;
  nh <- hv_next_header hv ;;
  if negb (nh =? PROTO_SCMP) then Ok false else
  pl <- pkt_payload v ;;
  Ok (match pl with t :: _ => t <? GW_ERROR_TYPE_BOUND | [] => false end).

(** * 11. pocketscion: handle_scmp (simulator.rs), the router answering echo / traceroute requests
    addressed to one of its interfaces.  [Ok None]: no reply (or an error was returned);
    otherwise the reply's destination, reversed path and SCMP message (source: local AS and
    router address). *)
Definition sim_handle_scmp (v : bytes) (p : dppath) (local_as ifid : N)
  : res (option (N * host_addr * dppath * scmp_msg)) :=
  s <- as_scmp v ;;
  match s with
  | None => Ok None                                  (* "error classifying SCION packet for SCMP response" *)
  | Some sv =>
    ty <- scmp_type sv ;;
    if ty =? T_ECHO_REQUEST then
      id <- rd sv ScmpEchoRequest_IDENTIFIER_RNG 16 ;;
      sq <- rd sv ScmpEchoRequest_SEQUENCE_NUMBER_RNG 16 ;;
      dr <- scmp_tail_range ty sv ;;
      t <- sim_reply_target v p ;;
      Ok (match t with Some x => Some (x, SM_EchoRep id sq (sub sv (fst dr) (snd dr))) | None => None end)
    else if ty =? T_TRACEROUTE_REQUEST then
      id <- rd sv ScmpTracerouteRequest_IDENTIFIER_RNG 16 ;;
      sq <- rd sv ScmpTracerouteRequest_SEQUENCE_NUMBER_RNG 16 ;;
      t <- sim_reply_target v p ;;
      Ok (match t with Some x => Some (x, SM_TrRep id sq local_as ifid) | None => None end)
    else Ok None                                     (* bail!("Unexpected SCMP message") *)
  end.
