(** Correspondence driver for C14: evaluated by [vm_compute] on case files written by the Rust
    harness (harness/hc_scmp/src/bin/h_scmp.rs).

    Producers of SCMP error packets and the case kinds that judge them -- every one with the
    same oracles [err_oracles] (total <= 1232, well-formed, SCMP error type, quote is a prefix of
    the offending packet and maximal), [ck_verdict] (RFC 1071) and "no reply to an SCMP error":
      sciparse encoders      CEnc src 0   all five kinds (round-robin), every header shape
      SNAP gateway           CEnc src 2   ParameterProblem for the three failed checks
      pocketscion, local     CSim         all five kinds via SendSCMPErrorResponse, every
                                          StandardRoutingError::to_scmp_error variant, local dispatch
      pocketscion, routing   CNet         errors raised by the real traversal of real paths (link
                                          down, MAC, expiry, ingress, interface, delivery ...); the
                                          offending packet is the packet AS IT STOOD AT THE ROUTER
                                          THAT RAISED THE ERROR (path pointers / SegIDs advanced by
                                          the traversal; identical to the injected packet outside
                                          the path, which is checked)  For each case the model is run on the same
    input as the implementation and the results are compared (bit 1); the property oracles of
    [Scmp.Spec] are evaluated on the IMPLEMENTATION's observed output (bit 2, or the bit of a
    known-finding class):

      16  C14-bad-checksum-echo-answered   an echo request whose checksum does not verify is answered
      32  C14-checksum-omits-message       transmitted checksum covers the pseudo header only
                                           (repaired by C03: must not occur)
      64  C14-unknown-error-type-answered  an SCMP error of a type outside {1,2,4,5,6} is answered
                                           with an SCMP error (pocketscion simulator; repaired: must not occur)
     128  C14-gateway-answers-scmp-error   the SNAP gateway answers an inbound (parseable) SCMP error
                                           with an SCMP error (repaired: must not occur)
     256  C14-unknown-error-type-not-reported  a received SCMP error of a type outside {1,2,4,5,6}
                                           never reaches the ScmpErrorReceivers *)
From Sci Require Export Scmp.Model Scmp.Spec.
From Sci Require Import Wire.Codec.
Local Open Scope N_scope.

Definition rl := list (N * N).          (* run-length encoded bytes *)

Inductive scase :=
(** direct call of Scmp<Kind>Layout::from_offending_packet_length(n, h).size_bytes() *)
| CLay (ty n h size : N)
(** an SCMP error packet built by [src]: 0 = ScionScmpPacket::try_encode (sciparse),
    2 = SNAP gateway (create_scmp_error for an inbound datagram failing the check).
    message fields, offending packet, reply header shape, outcome code (0 = bytes produced,
    1 = encode error, 99 = panic), produced bytes *)
| CEnc (src : N) (ty code f1 f2 f3 : N) (off : rl) (dst_len src_len path_size : N) (oc : N) (out : rl)
(** DefaultEchoHandler::handle on a received packet: packet, its path (to_model), outcome
    (0 = None, 1 = Some and encodable, 3 = Some but not encodable, 99 = panic), the encoded
    reply and the reply's structural path *)
| CHnd (pkt : rl) (p : dppath) (oc : N) (rep : rl) (rpath : dppath)
(** pocketscion LocalNetworkSimulation::handle_local_routing_action on a received packet with
    an action that asks for the SCMP error (ety, ecode, ef1..3): local AS, router address
    length, outcome (0 = no reply, 1 = reply, 2 = Err, 99 = panic), encoded reply *)
| CSim (pkt : rl) (p : dppath) (ety ecode ef1 ef2 ef3 : N) (local_as router_len : N) (oc : N) (out : rl)
(** pocketscion handle_local_routing_action(IngressSCMPHandleRequest) = handle_scmp: echo and
    traceroute requests answered by the router: local AS, router address (nibble, bytes),
    interface id, outcome (0 = Ok(None), 1 = reply, 2 = Err, 99 = panic), encoded reply *)
| CSimEcho (pkt : rl) (p : dppath) (local_as rnib : N) (rraw : list N) (ifid : N) (oc : N) (out : rl)
(** pocketscion's routing simulator (ScionNetworkSim::simulate_traversal with the specification
    routing logic) followed, as in NetworkSimulator::dispatch, by handle_local_routing_action at
    the router the traversal ended at: the packet as injected, the packet as it stood at that
    router when the error was raised (the traversal moves the path pointers and SegIDs in place;
    THIS is the offending packet the router quotes), the scenario's expected SCMP type / code
    (0 = not fixed by the scenario), whether the scenario must produce a reply, the AS that
    answered, outcome (0 = no reply, 1 = reply, 2 = Err, 3 = not encodable, 99 = panic), reply *)
| CNet (inj at_ : rl) (ety ecode : N) (expect_reply : bool) (at_as : N) (oc : N) (out : rl)
(** the socket receive loop on a stream of packets: observed datagrams / replies / error
    callbacks, each tagged with the 1-based index of the packet that caused it *)
| CStr (with_echo : bool) (buflen : N) (pkts : list (rl * dppath))
       (dgs : list (N * (N * rl * N * N * rl * N)))             (* k, (len, data, src_ia, src_nib, src_host, port) *)
       (reps : list (N * rl))
       (errs : list (N * (N * N * N * N * N * rl * N * rl))).   (* k, (ty, code, f1, f2, f3, quote, path type, path) *)

Definition zero_ck (m : bytes) : bytes :=
  match m with a :: b :: _ :: _ :: r => a :: b :: 0 :: 0 :: r | _ => m end.

Definition host_nib_raw (a : host_addr) : N * bytes :=
  match a with
  | HA_V4 b => (0, b) | HA_V6 b => (3, b)
  | HA_Svc n => (4, be_bytes 2 n ++ [0; 0])
  | HA_Unknown id b => (hat_unknown_nibble id (blen b), b)
  end.
Definition host_len (a : host_addr) : N := blen (snd (host_nib_raw a)).

Definition dppath_eqb := path_eqb.
(** encoded size of a path *)
Definition dp_size (p : dppath) : N :=
  match p with
  | DP_Empty => 0
  | DP_OneHop _ _ _ => OneHopPath_SIZE_BYTES
  | DP_Std _ _ segs => StdPathMeta_SIZE_BYTES + N.of_nat (length segs) * InfoField_SIZE_BYTES
                       + hop_count segs * HopField_SIZE_BYTES
  | DP_Unsupported _ d => blen d
  end.

(** ** cross-checks against the byte-level packet model of the Wire area (C03) *)

(** the structural path the harness obtained from the implementation ([path().to_model()]) is
    the one [Wire.Codec.decode_header] reads from the same bytes *)
Definition path_agrees (v : bytes) (p : dppath) : bool :=
  match pkt_header v with
  | Ok hv => match decode_header hv with
             | Ok h => path_eqb (h_path h) p
             | Err _ =>      (* undecodable host address: only the path part is compared *)
               match hv_path_range hv with
               | Ok (pt, lo, hi) =>
                 if pt =? PT_EMPTY then path_eqb DP_Empty p
                 else match (if pt =? PT_SCION then x <- get_unchecked hv lo hi ;; decode_stdpath x
                             else if pt =? PT_ONEHOP then x <- get_unchecked hv lo hi ;; decode_onehop x
                             else x <- get_unchecked hv lo hi ;; Ok (DP_Unsupported pt x)) with
                      | Ok q => path_eqb q p | _ => false end
               | _ => false end
             | Panic _ => false end
  | _ => false end.

(** this model's error message as a [Wire.Types.scmp_msg] *)
Definition to_wire_msg (m : emsg) : scmp_msg :=
  let ty := e_ty m in
  if ty =? SCMP_T_DestinationUnreachable then SM_DestUnreach (written_code m) (e_off m)
  else if ty =? SCMP_T_PacketTooBig then SM_PktTooBig (trunc 16 (e_f1 m)) (e_off m)
  else if ty =? SCMP_T_ParameterProblem then SM_ParamProblem (written_code m) (trunc 16 (e_f1 m)) (e_off m)
  else if ty =? SCMP_T_ExternalInterfaceDown then SM_ExtIfDown (trunc 64 (e_f1 m)) (trunc 16 (e_f2 m)) (e_off m)
  else SM_IntConnDown (trunc 64 (e_f1 m)) (trunc 16 (e_f2 m)) (trunc 16 (e_f3 m)) (e_off m).
(** [encode_err] agrees with [Wire.Codec.encode_scmp_body] (both leave the checksum 0) *)
Definition enc_agrees (m : emsg) (h : N) (mb : bytes) : bool :=
  let w := to_wire_msg m in
  bytes_eqb (encode_scmp_body w h (Codec.zeros (scmp_size w h))) mb.
(** the whole echo reply packet as [Wire.Codec.encode_packet] produces it, checksum included *)
Definition reply_packet (x : reply) : packet :=
  mkP (mkH 0 0 PROTO_SCMP (rp_dst_ia x) (rp_src_ia x) (rp_dst_host x) (rp_src_host x) (rp_path x))
      (PL_Scmp (SM_EchoRep (rp_id x) (rp_seq x) (rp_data x))).

(** the model's and the specification's reading of a received packet agree: "is an echo
    request" and "is an SCMP error of a defined kind" *)
Definition model_is_echo (v : bytes) : bool :=
  match as_scmp v with
  | Ok (Some sv) => match scmp_type sv with Ok t => t =? T_ECHO_REQUEST | _ => false end
  | _ => false end.
Definition model_is_known_error (v : bytes) : bool :=
  match err_handle v with Ok (Some _) => true | _ => false end.
Definition reading_agrees (v : bytes) : bool :=
  Bool.eqb (model_is_echo v) (spec_is_echo_request v)
  && Bool.eqb (model_is_known_error v) (spec_is_known_error v).

(** addresses of a received packet are SCION host addresses of the right size (literal reader) *)
Definition spec_nib_ok (nib : N) : bool := (nib =? 0) || (nib =? 3) || (nib =? 4).
Definition spec_addrs_ok (v : bytes) : bool := spec_nib_ok (sp_dst_nib v) && spec_nib_ok (sp_src_nib v).

Definition b2n (b : bool) (k : N) : N := if b then k else 0.
Infix "|+" := N.lor (at level 50, left associativity).

Fixpoint list_eqb_het {A B} (f : A -> B -> bool) (x : list A) (y : list B) : bool :=
  match x, y with
  | [], [] => true
  | a :: x', b :: y' => f a b && list_eqb_het f x' y'
  | _, _ => false
  end.

(** oracles common to every SCMP error packet [out] built for offending packet [off] *)
Definition err_oracles (off out : bytes) : bool * bool :=
  (* (all clauses except the checksum hold, checksum verifies) *)
  (err_len_ok out && err_packet_wellformed out && spec_is_scmp_error out
   && err_quote_ok off out && err_quote_maximal off out,
   packet_checksum_ok out).

(** verdict of the checksum clause: 0 fine, 32 known class, 2 unknown failure *)
Definition ck_verdict (out : bytes) : N :=
  if packet_checksum_ok out then 0 else if checksum_is_pseudo_only out then 32 else 2.

Definition verdict (c : scase) : N :=
  match c with
  | CLay ty n h size =>
    match err_hdr ty with
    | None => 1
    | Some hdr =>
      let m := from_offending_packet_length hdr n h in
      b2n (negb (m =? size)) 1
      |+ b2n ((h + hdr <=? spec_max_error_packet) && negb (h + size <=? spec_max_error_packet)) 2
    end
  | CEnc src ty code f1 f2 f3 off dl sl ps oc out =>
    let offb := rle_expand off in let outb := rle_expand out in
    let h := header_required_size dl sl ps in
    let m := mkE ty code f1 (if src =? 2 then 0 else f2) f3 offb in
    let suppressed :=
      if src =? 2 then match gateway_suppresses (f2 =? 0) offb with Ok b => Some b | _ => None end
      else Some false in
    let mis :=
      match suppressed with
      | None => negb (oc =? 99)
      | Some true => negb (oc =? 2)
      | Some false =>
      if negb (header_size_valid h) then negb (oc =? 1)
      else match encode_err m h with
           | Ok mb => negb ((oc =? 0) && (sp_hdr_len outb =? h) && enc_agrees m h mb
                            && bytes_eqb (zero_ck (skipn (N.to_nat h) outb)) mb
                            && optN_eqb (Some (blen outb)) (err_packet_size m h)
                            && (sp_dst_nib outb mod 4 + 1 =? dl / 4) && (sp_src_nib outb mod 4 + 1 =? sl / 4))
           | _ => negb (oc =? 99)
           end
      end in
    let '(ok, _) := err_oracles offb outb in
    (* a datagram that parses as a SCION packet and is an SCMP error must not be answered *)
    let parses := match required_size_raw offb with Ok _ => true | _ => false end in
    let loop := (src =? 2) && (oc =? 0) && parses && spec_is_scmp_error offb in
    b2n mis 1
    |+ (if oc =? 0 then b2n (negb ok) 2 |+ ck_verdict outb else b2n (oc =? 99) 2)
    |+ b2n loop 128
  | CHnd pkt p oc rep rpath =>
    let v := rle_expand pkt in let r := rle_expand rep in
    let answered := (oc =? 1) || (oc =? 3) in
    let mis :=
      negb (path_agrees v p) || negb (reading_agrees v) ||
      match echo_handle v p with
      | Ok None => negb (oc =? 0)
      | Ok (Some x) =>
        negb (answered && dppath_eqb (rp_path x) rpath
              && ((oc =? 3) || bytes_eqb (encode_packet (reply_packet x)) r)
              && ((oc =? 3) ||
                  (let '(sn, sr) := host_nib_raw (rp_src_host x) in
                   let '(dn, dr) := host_nib_raw (rp_dst_host x) in
                   (sp_src_ia r =? rp_src_ia x) && (sp_dst_ia r =? rp_dst_ia x)
                   && (sp_src_nib r =? sn) && (sp_dst_nib r =? dn)
                   && bytes_eqb (sp_src_host r) sr && bytes_eqb (sp_dst_host r) dr
                   && (sp_next_hdr r =? PROTO_SCMP)
                   && bytes_eqb (zero_ck (sp_payload r)) (rp_payload x)
                   && (sp_hdr_len r =? header_required_size (blen dr) (blen sr) (dp_size (rp_path x)))
                   && (blen r =? sp_hdr_len r + blen (rp_payload x)))))
      | _ => negb (oc =? 99)
      end in
    let answerable := spec_addrs_ok v && match dp_reverse p with Some _ => true | None => false end in
    let count_bad := negb (reply_count_ok v answerable (if answered then 1 else 0)) in
    let content_bad := (oc =? 1) && negb (echo_reply_ok v r) in
    let known16 := answered && bad_checksum_echo v in
    b2n mis 1
    |+ b2n ((oc =? 99) || ((count_bad || content_bad) && negb known16)) 2
    |+ b2n known16 16
    |+ (if oc =? 1 then ck_verdict r else 0)
  | CSim pkt p ety ecode ef1 ef2 ef3 local_as rlen oc out =>
    let v := rle_expand pkt in let o := rle_expand out in
    let replied := oc =? 1 in
    let mis :=
      negb (path_agrees v p) ||
      match sim_reply_target v p with
      | Ok None => negb (oc =? 0) && negb (oc =? 2)
      | Ok (Some (ia, a, rp)) =>
        if sp_src_ia v =? local_as then negb (oc =? 0) else
        let h := header_required_size (host_len a) rlen (dp_size rp) in
        let m := mkE ety ecode ef1 ef2 ef3 v in
        match encode_err m h with
        | Ok mb =>
          let '(dn, dr) := host_nib_raw a in
          negb (replied && (sp_hdr_len o =? h) && bytes_eqb (zero_ck (skipn (N.to_nat h) o)) mb
                && optN_eqb (Some (blen o)) (err_packet_size m h)
                && (sp_dst_ia o =? ia) && (sp_dst_nib o =? dn) && bytes_eqb (sp_dst_host o) dr
                && (sp_src_ia o =? local_as))
        | _ => negb (oc =? 99)
        end
      | _ => negb (oc =? 99)
      end in
    let '(ok, _) := err_oracles v o in
    (* addressed back to the source of the offending packet, by literal offsets *)
    let addressed := (sp_dst_ia o =? sp_src_ia v) && (sp_dst_nib o =? sp_src_nib v)
                     && bytes_eqb (sp_dst_host o) (sp_src_host v) in
    let loop := replied && spec_is_scmp_error v in
    let loop_known := loop && negb (existsb (N.eqb (sp_scmp_type v)) [1; 2; 4; 5; 6]) in
    b2n mis 1
    |+ (if replied then b2n (negb (ok && addressed)) 2 |+ ck_verdict o else b2n (oc =? 99) 2)
    |+ b2n (loop && negb loop_known) 2 |+ b2n loop_known 64
  | CSimEcho pkt p local_as rnib rraw ifid oc out =>
    let v := rle_expand pkt in let o := rle_expand out in
    let replied := oc =? 1 in
    let rhost := if rnib =? 0 then HA_V4 rraw else HA_V6 rraw in
    let mis :=
      negb (path_agrees v p) ||
      match sim_handle_scmp v p local_as ifid with
      | Ok None => negb (oc =? 0) && negb (oc =? 2)
      | Ok (Some (ia, a, rp, msg)) =>
        if sp_src_ia v =? local_as then negb (oc =? 0) else
        negb (replied && bytes_eqb (encode_packet (mkP (mkH 0 0 PROTO_SCMP ia local_as a rhost rp) (PL_Scmp msg))) o)
      | _ => negb (oc =? 99)
      end in
    (* oracles: a reply only to an echo / traceroute request; an echo reply is faithful and its
       checksum verifies *)
    let is_req := (sp_next_hdr v =? spec_proto_scmp) && (8 <=? lenN (sp_payload v))
                  && ((sp_scmp_type v =? 128) || (sp_scmp_type v =? 130)) in
    let bad := (oc =? 99) || (replied && negb is_req)
               || (replied && (sp_scmp_type v =? 128)
                   && negb (echo_reply_payload_ok v o && (sp_dst_ia o =? sp_src_ia v)
                            && bytes_eqb (sp_dst_host o) (sp_src_host v))) in
    b2n mis 1 |+ b2n bad 2 |+ (if replied then ck_verdict o else 0)
  | CNet inj at_ ety ecode expect_reply at_as oc out =>
    let iv := rle_expand inj in let av := rle_expand at_ in let o := rle_expand out in
    let replied := oc =? 1 in
    (* the router's copy differs from the injected packet only inside the path *)
    let pstart := 28 + nib_len (sp_dst_nib iv) + nib_len (sp_src_nib iv) in
    let same_outside := (lenN iv =? lenN av) && bytes_eqb (subN iv 0 pstart) (subN av 0 pstart)
                        && bytes_eqb (skipn (N.to_nat (sp_hdr_len iv)) iv) (skipn (N.to_nat (sp_hdr_len iv)) av) in
    (* the model's encoder on the message the reply announces *)
    let pl := sp_payload o in
    let ty := nthN pl 0 in
    let f16 := 256 * nthN pl 6 + nthN pl 7 in
    let m := if ty =? 1 then mkE 1 (nthN pl 1) 0 0 0 av
             else if (ty =? 2) || (ty =? 4) then mkE ty (nthN pl 1) f16 0 0 av
             else mkE ty 0 (be_val 0 (subN pl 4 12)) (be_val 0 (subN pl 12 20)) (be_val 0 (subN pl 20 28)) av in
    let h := sp_hdr_len o in
    let mis :=
      negb same_outside ||
      (if replied then
         match encode_err m h with
         | Ok mb => negb (bytes_eqb (zero_ck pl) mb && optN_eqb (Some (blen o)) (err_packet_size m h)
                          && ((ety =? 0) || (ty =? ety)) && ((ecode =? 0) || (nthN pl 1 =? ecode))
                          && (negb ((ty =? 5) || (ty =? 6)) || (be_val 0 (subN pl 4 12) =? at_as)))
         | _ => true
         end
       else (oc =? 0) && expect_reply && negb (spec_is_scmp_error iv)) in
    let '(ok, _) := err_oracles av o in
    let addressed := (sp_dst_ia o =? sp_src_ia iv) && (sp_dst_nib o =? sp_src_nib iv)
                     && bytes_eqb (sp_dst_host o) (sp_src_host iv) && (sp_src_ia o =? at_as) in
    let loop := replied && spec_is_scmp_error iv in
    b2n mis 1
    |+ (if replied then b2n (negb (ok && addressed) || loop) 2 |+ ck_verdict o else b2n ((oc =? 99) || (oc =? 3)) 2)
  | CStr with_echo buflen pkts dgs reps errs =>
    let ps := map (fun x : rl * dppath => (rle_expand (fst x), snd x)) pkts in
    let effs := recv_stream with_echo buflen ps in
    let idx := combine (map N.of_nat (seq 1 (length effs))) effs in
    let panicked := existsb (fun e : res effect => is_panic e) effs in
    (* model's observable triple *)
    let m_dgs := flat_map (fun ke : N * res effect =>
                   match snd ke with
                   | Ok e => match ef_dgram e with
                             | Some d => let '(nib, raw) := host_nib_raw (dg_src_host d) in
                                         [(fst ke, (dg_len d, dg_data d, dg_src_ia d, nib, raw, dg_src_port d))]
                             | None => [] end
                   | _ => [] end) idx in
    let m_reps := flat_map (fun ke : N * res effect =>
                   match snd ke with Ok e => map (fun r => (fst ke, r)) (ef_replies e) | _ => [] end) idx in
    let m_errs := flat_map (fun ke : N * res effect =>
                   match snd ke with Ok e => map (fun r => (fst ke, r)) (ef_errs e) | _ => [] end) idx in
    let dg_eq (a : N * (N * bytes * N * N * bytes * N)) (b : N * (N * rl * N * N * rl * N)) : bool :=
      let '(k, (l, d, ia, nib, raw, port)) := a in let '(k', (l', d', ia', nib', raw', port')) := b in
      (k =? k') && (l =? l') && bytes_eqb d (rle_expand d') && (ia =? ia') && (nib =? nib')
      && bytes_eqb raw (rle_expand raw') && (port =? port') in
    let rep_eq (a : N * reply) (b : N * rl) : bool :=
      let r := rle_expand (snd b) in
      (fst a =? fst b) && bytes_eqb (zero_ck (sp_payload r)) (rp_payload (snd a))
      && (sp_dst_ia r =? rp_dst_ia (snd a)) && (sp_src_ia r =? rp_src_ia (snd a)) in
    let err_eq (a : N * errcb) (b : N * (N * N * N * N * N * rl * N * rl)) : bool :=
      let '(k', (ty, code, f1, f2, f3, q, pt, pb)) := b in
      let m := cb_msg (snd a) in
      (fst a =? k') && (e_ty m =? ty) && (e_code m =? code) && (e_f1 m =? f1) && (e_f2 m =? f2)
      && (e_f3 m =? f3) && bytes_eqb (e_off m) (rle_expand q)
      && (cb_path_type (snd a) =? pt) && bytes_eqb (cb_path (snd a)) (rle_expand pb) in
    let mis := panicked || negb (forallb (fun vp : bytes * dppath => path_agrees (fst vp) (snd vp) && reading_agrees (fst vp)) ps)
               || negb (list_eqb_het dg_eq m_dgs dgs && list_eqb_het rep_eq m_reps reps
                                 && list_eqb_het err_eq m_errs errs) in
    (* oracles on the implementation's observation, packet by packet *)
    let kps := combine (map N.of_nat (seq 1 (length ps))) ps in
    let bad := existsb (fun kp : N * (bytes * dppath) =>
      let k := fst kp in let v := fst (snd kp) in let p := snd (snd kp) in
      let nrep := lenN (filter (fun r : N * rl => fst r =? k) reps) in
      let nerr := lenN (filter (fun r : N * (N * N * N * N * N * rl * N * rl) => fst r =? k) errs) in
      let ndg := lenN (filter (fun r : N * (N * rl * N * N * rl * N) => fst r =? k) dgs) in
      let answerable := with_echo && spec_addrs_ok v && match dp_reverse p with Some _ => true | None => false end in
      let known_err := spec_is_known_error v in
      let dgs_k := filter (fun r : N * (N * rl * N * N * rl * N) => fst r =? k) dgs in
      (negb (bad_checksum_echo v && (1 <=? nrep)) && negb (reply_count_ok v answerable nrep))
      || (known_err && negb (nerr =? 1)) || (negb known_err && negb (nerr =? 0))
      || (if spec_udp_deliverable v
          then negb (match dgs_k with
                     | [(_, (l, d, ia, nib, raw, port))] =>
                       (l =? lenN (spec_udp_data v)) && bytes_eqb (rle_expand d) (firstn (N.to_nat buflen) (spec_udp_data v))
                       && (ia =? sp_src_ia v) && (nib =? sp_src_nib v) && bytes_eqb (rle_expand raw) (sp_src_host v)
                     | _ => false end)
          else negb (ndg =? 0))
      || existsb (fun r : N * rl => (fst r =? k) && negb (echo_reply_ok v (rle_expand (snd r)))) reps) kps in
    let unk256 := existsb (fun kp : N * (bytes * dppath) =>
      spec_is_unknown_error (fst (snd kp))
      && negb (existsb (fun r : N * (N * N * N * N * N * rl * N * rl) => fst r =? fst kp) errs)) kps in
    let known16 := existsb (fun kp : N * (bytes * dppath) =>
      bad_checksum_echo (fst (snd kp)) && existsb (fun r : N * rl => fst r =? fst kp) reps) kps in
    let ck := fold_right (fun r acc => N.lor (ck_verdict (rle_expand (snd r))) acc) 0 reps in
    b2n mis 1 |+ b2n bad 2 |+ b2n known16 16 |+ b2n unk256 256 |+ ck
  end.

Definition verdicts (cs : list scase) : list N := map verdict cs.
