(** C14 -- byte-level lemmas about [Wire.BitField.lane_write] / [lane_read] on byte-aligned
    fields, used to give the SCMP encoders of [Scmp.Model] their closed byte form. *)
From Coq Require Import Lia ZifyBool ZifyNat ZifyN.
From Sci Require Import Scmp.Model Scmp.Spec Scmp.Proofs.
Local Open Scope N_scope.
Ltac Zify.zify_post_hook ::= Z.div_mod_to_equations.
Arguments N.add : simpl never.
Arguments N.sub : simpl never.
Arguments N.mul : simpl never.
Arguments N.div : simpl never.
Arguments N.modulo : simpl never.
Arguments N.eqb : simpl never.
Arguments N.ltb : simpl never.
Arguments N.leb : simpl never.
Arguments N.pow : simpl never.

Lemma be_val_zeros n acc : be_val acc (repeat 0 n) = acc * 256 ^ N.of_nat n.
Proof.
  revert acc. induction n as [|n IH]; intros acc.
  - cbn [repeat be_val]. change (N.of_nat 0) with 0. rewrite N.pow_0_r. lia.
  - cbn [repeat be_val]. rewrite IH. rewrite Nat2N.inj_succ, N.pow_succ_r'. lia.
Qed.

(** a write of a byte-aligned field over bytes that are still zero puts the big-endian bytes
    of the (truncated) value there and touches nothing else *)
Lemma lane_write_aligned_zero b k w v :
  k + w <= blen b -> sub b k (k + w) = repeat 0 (N.to_nat w) ->
  lane_write b (8 * k, 8 * w) v
  = firstn (N.to_nat k) b ++ be_bytes (N.to_nat w) (v mod 2 ^ (8 * w)) ++ skipn (N.to_nat (k + w)) b.
Proof.
  intros Hlen Hz. unfold lane_write.
  assert (Elo : byte_lo (8 * k, 8 * w) = k) by (unfold byte_lo, r_start; cbn [fst]; lia).
  assert (Ehi : byte_hi (8 * k, 8 * w) = k + w) by (unfold byte_hi, r_end; cbn [fst snd]; lia).
  rewrite Elo, Ehi, Hz. unfold r_width, r_end. cbn [fst snd].
  rewrite be_val_zeros. rewrite N.mul_0_l.
  replace ((k + w) * 8 - (8 * k + 8 * w)) with 0 by lia.
  rewrite !N.shiftl_0_r, N.ldiff_0_l, N.lor_0_l, N.land_ones.
  replace (k + w - k) with w by lia. reflexivity.
Qed.

Lemma byte_lo_le_hi' r : byte_lo r <= byte_hi r.
Proof. unfold byte_lo, byte_hi, r_end, r_start. lia. Qed.

Lemma be_bytes_length' n v : length (be_bytes n v) = n.
Proof. revert v. induction n as [|n IH]; intros v; cbn [be_bytes]; [reflexivity|]. rewrite app_length, IH. cbn. lia. Qed.
Lemma lane_write_length' b r v : byte_hi r <= blen b -> length (lane_write b r v) = length b.
Proof.
  intros H. unfold lane_write. pose proof (byte_lo_le_hi' r) as L. unfold blen in H.
  rewrite !app_length, be_bytes_length', firstn_length, skipn_length. lia.
Qed.

(** a write only concerns the prefix that contains its byte range *)
Lemma lane_write_app b t r v :
  byte_hi r <= blen b -> lane_write (b ++ t) r v = lane_write b r v ++ t.
Proof.
  intros H. unfold lane_write. pose proof (byte_lo_le_hi' r) as L. unfold blen in H.
  assert (S1 : sub (b ++ t) (byte_lo r) (byte_hi r) = sub b (byte_lo r) (byte_hi r)).
  { unfold sub. rewrite skipn_app. replace (N.to_nat (byte_lo r) - length b)%nat with 0%nat by lia.
    cbn [skipn]. rewrite firstn_app, skipn_length.
    replace (N.to_nat (byte_hi r - byte_lo r) - (length b - N.to_nat (byte_lo r)))%nat with 0%nat by lia.
    cbn [firstn]. rewrite app_nil_r. reflexivity. }
  rewrite S1. rewrite firstn_app. replace (N.to_nat (byte_lo r) - length b)%nat with 0%nat by lia.
  cbn [firstn]. rewrite app_nil_r. rewrite skipn_app.
  replace (N.to_nat (byte_hi r) - length b)%nat with 0%nat by lia. cbn [skipn].
  rewrite <- !app_assoc. reflexivity.
Qed.

Lemma wr_eq v r x :
  (size_bytes r <=? LANE_BYTES) = true -> byte_hi r <= blen v -> wr v r x = Ok (lane_write v r x).
Proof.
  intros H1 H2. unfold wr. rewrite H1. cbn [negb].
  destruct (byte_hi r <=? blen v) eqn:E; [reflexivity|lia].
Qed.

Lemma trunc_idem bits v : trunc bits v mod 2 ^ bits = trunc bits v.
Proof. unfold trunc. rewrite N.mod_mod; [reflexivity|]. apply N.pow_nonzero. discriminate. Qed.

Ltac aligned_write k w :=
  match goal with
  | |- context [lane_write ?b ?r ?v] =>
    change r with (8 * k, 8 * w);
    rewrite (lane_write_aligned_zero b k w v) by (vm_compute; first [reflexivity | discriminate])
  end.

Ltac norm_lists :=
  repeat match goal with
         | |- context [N.to_nat ?n] =>
           let m := eval vm_compute in (N.to_nat n) in progress change (N.to_nat n) with m
         end;
  cbn [firstn skipn app be_bytes].

(** the 8 fixed bytes of an echo reply *)
Lemma echo_hdr8 id sq :
  lane_write (lane_write (lane_write (lane_write (lane_write (repeat 0 8)
    ScmpEchoReply_TYPE_RNG T_ECHO_REPLY) ScmpEchoReply_CODE_RNG 0) ScmpEchoReply_CHECKSUM_RNG 0)
    ScmpEchoReply_IDENTIFIER_RNG (trunc 16 id)) ScmpEchoReply_SEQUENCE_NUMBER_RNG (trunc 16 sq)
  = [129; 0; 0; 0] ++ be_bytes 2 (trunc 16 id) ++ be_bytes 2 (trunc 16 sq).
Proof.
  cbn [repeat].
  aligned_write 0 1. norm_lists.
  aligned_write 1 1. norm_lists.
  aligned_write 2 2. norm_lists.
  aligned_write 4 2. norm_lists.
  aligned_write 6 2. norm_lists.
  change (8 * 2) with 16. rewrite !trunc_idem.
  repeat (f_equal; try (vm_compute; reflexivity)).
Qed.

Lemma zeros_split a b : zeros (a + b) = repeat 0 (N.to_nat a) ++ zeros b.
Proof. unfold zeros. rewrite N2Nat.inj_add, repeat_app. reflexivity. Qed.

(** ScmpEchoReply::encode_unchecked in closed form: type 129, code 0, (checksum), identifier,
    sequence number, data -- for every identifier, sequence number and data *)
Lemma encode_echo_reply_closed id sq data :
  encode_echo_reply id sq data
  = Ok ([129; 0; 0; 0] ++ be_bytes 2 (trunc 16 id) ++ be_bytes 2 (trunc 16 sq) ++ data).
Proof.
  unfold encode_echo_reply.
  assert (EH : ScmpEchoReply_HEADER_SIZE_BYTES = 8) by reflexivity. rewrite EH.
  rewrite (N.add_comm (blen data) 8), zeros_split. change (N.to_nat 8) with 8%nat.
  set (t := zeros (blen data)). assert (Lt : blen t = blen data) by (unfold t, blen, zeros; rewrite repeat_length; lia).
  assert (B : forall z : bytes, length z = 8%nat -> blen (z ++ t) = 8 + blen data)
    by (intros z Hz; unfold blen in *; rewrite app_length; lia).
  assert (W : forall (z : bytes) r x, length z = 8%nat -> (size_bytes r <=? LANE_BYTES) = true -> byte_hi r <= 8 ->
              wr (z ++ t) r x = Ok (lane_write z r x ++ t) /\ length (lane_write z r x) = 8%nat).
  { intros z r x Hz Hs Hh. rewrite wr_eq; [|exact Hs|rewrite (B z Hz); lia].
    rewrite lane_write_app by (unfold blen; lia). split; [reflexivity|].
    rewrite lane_write_length'; [exact Hz|unfold blen; lia]. }
  destruct (W (repeat 0 8) ScmpEchoReply_TYPE_RNG T_ECHO_REPLY eq_refl eq_refl) as [E1 L1]; [vm_compute; discriminate|].
  rewrite E1. cbn [obind]. clear E1.
  destruct (W _ ScmpEchoReply_CODE_RNG 0 L1 eq_refl) as [E2 L2]; [vm_compute; discriminate|].
  rewrite E2. cbn [obind]. clear E2.
  destruct (W _ ScmpEchoReply_CHECKSUM_RNG 0 L2 eq_refl) as [E3 L3]; [vm_compute; discriminate|].
  rewrite E3. cbn [obind]. clear E3.
  destruct (W _ ScmpEchoReply_IDENTIFIER_RNG (trunc 16 id) L3 eq_refl) as [E4 L4]; [vm_compute; discriminate|].
  rewrite E4. cbn [obind]. clear E4.
  destruct (W _ ScmpEchoReply_SEQUENCE_NUMBER_RNG (trunc 16 sq) L4 eq_refl) as [E5 L5]; [vm_compute; discriminate|].
  rewrite E5. cbn [obind]. clear E5.
  rewrite echo_hdr8 in *.
  set (h := [129; 0; 0; 0] ++ be_bytes 2 (trunc 16 id) ++ be_bytes 2 (trunc 16 sq)) in *.
  assert (Lo : byte_lo (8 * 8, (8 + blen data - 8) * 8) = 8) by (unfold byte_lo, r_start; cbn [fst]; lia).
  assert (Hi : byte_hi (8 * 8, (8 + blen data - 8) * 8) = 8 + blen data) by (unfold byte_hi, r_end; cbn [fst snd]; lia).
  rewrite Lo, Hi. replace (8 + blen data - 8) with (blen data) by lia.
  unfold index_range. destruct ((0 <=? blen data) && (blen data <=? blen data)) eqn:C; [|lia]. cbn [obind].
  assert (Sd : sub data 0 (blen data) = data).
  { unfold sub, blen. rewrite N.sub_0_r, Nat2N.id. cbn [N.to_nat skipn]. apply firstn_all. }
  rewrite Sd. unfold splice. rewrite (B h L5).
  destruct ((8 <=? 8 + blen data) && (8 + blen data <=? 8 + blen data)) eqn:C2; [|lia]. cbn [negb].
  match goal with |- context [negb (?a =? ?b)] => destruct (negb (a =? b)) eqn:C3; [lia|] end. f_equal.
  change (N.to_nat 8) with 8%nat. rewrite <- L5 at 1. rewrite firstn_app, firstn_all, Nat.sub_diag.
  cbn [firstn]. rewrite app_nil_r. rewrite skipn_all2; [|unfold blen in *; rewrite app_length; unfold t in *; lia].
  rewrite app_nil_r. unfold h. rewrite <- !app_assoc. reflexivity.
Qed.

(** * the fixed part of the five error messages in closed form *)

Definition err_fixed (m : emsg) : bytes :=
  let ty := e_ty m in
  if ty =? 1 then [1; trunc 8 (e_code m); 0; 0; 0; 0; 0; 0]
  else if ty =? 2 then [2; 0; 0; 0; 0; 0] ++ be_bytes 2 (trunc 16 (e_f1 m))
  else if ty =? 4 then [4; trunc 8 (e_code m); 0; 0; 0; 0] ++ be_bytes 2 (trunc 16 (e_f1 m))
  else if ty =? 5 then [5; 0; 0; 0] ++ be_bytes 8 (trunc 64 (e_f1 m)) ++ be_bytes 8 (trunc 16 (e_f2 m))
  else [6; 0; 0; 0] ++ be_bytes 8 (trunc 64 (e_f1 m)) ++ be_bytes 8 (trunc 16 (e_f2 m)) ++ be_bytes 8 (trunc 16 (e_f3 m)).

Lemma wr_prefix (z t : bytes) r x :
  (size_bytes r <=? LANE_BYTES) = true -> byte_hi r <= blen z ->
  wr (z ++ t) r x = Ok (lane_write z r x ++ t) /\ length (lane_write z r x) = length z.
Proof.
  intros Hs Hh. rewrite wr_eq; [|exact Hs|unfold blen in *; rewrite app_length; lia].
  rewrite lane_write_app by exact Hh. split; [reflexivity|]. apply lane_write_length'. exact Hh.
Qed.

Lemma trunc_small a b v : a <= b -> trunc a v mod 2 ^ b = trunc a v.
Proof.
  intros H. unfold trunc. apply N.mod_small.
  apply N.lt_le_trans with (2 ^ a); [apply N.mod_lt; apply N.pow_nonzero; discriminate|].
  apply N.pow_le_mono_r; [discriminate|exact H].
Qed.

Ltac wr_step W L :=
  match goal with
  | |- context [wr (?z ++ ?t) ?r ?x] =>
    let E := fresh "E" in let L' := fresh "L" in
    destruct (wr_prefix z t r x eq_refl) as [E L'];
    [ unfold blen; rewrite L; vm_compute; discriminate
    | rewrite E; cbn [obind]; clear E; rewrite L in L'; clear L; rename L' into L ]
  end.

Ltac eqb_consts :=
  repeat match goal with
         | |- context [?a =? ?b] =>
           let v := eval vm_compute in (a =? b) in
           match v with
           | true => change (a =? b) with true
           | false => change (a =? b) with false
           end
         end; cbn [negb andb orb].

Lemma sub_firstn (l : bytes) n : sub l 0 n = firstn (N.to_nat n) l.
Proof. unfold sub. rewrite N.sub_0_r. reflexivity. Qed.

Lemma splice_tail (z t q : bytes) hdr size :
  length z = N.to_nat hdr -> blen t = size - hdr -> hdr <= size -> blen q = size - hdr ->
  splice (z ++ t) hdr size q = Ok (z ++ q).
Proof.
  intros Hz Ht Hle Hq. unfold splice.
  assert (B : blen (z ++ t) = size) by (unfold blen in *; rewrite app_length; lia).
  rewrite B. destruct ((hdr <=? size) && (size <=? size)) eqn:C; [|lia]. cbn [negb].
  destruct (negb (blen q =? size - hdr)) eqn:C2; [lia|]. f_equal.
  rewrite <- Hz at 1. rewrite firstn_app, firstn_all, Nat.sub_diag. cbn [firstn]. rewrite app_nil_r.
  rewrite skipn_all2; [|unfold blen in *; rewrite app_length; lia]. rewrite app_nil_r. reflexivity.
Qed.

Lemma trunc8_256 v : trunc 8 v mod 256 = trunc 8 v.
Proof. unfold trunc. change (2 ^ 8) with 256. rewrite N.mod_mod; [reflexivity|discriminate]. Qed.

Ltac fin_bytes :=
  change (8 * 1) with 8; change (8 * 2) with 16; change (8 * 4) with 32; change (8 * 8) with 64;
  rewrite ?trunc_idem, ?(trunc_small 16 64), ?trunc8_256 by lia;
  norm_lists;
  repeat (f_equal; try (vm_compute; reflexivity)).

Ltac hdr_steps :=
  cbn [repeat];
  repeat (first [ aligned_write 0 1 | aligned_write 1 1 | aligned_write 2 2 | aligned_write 4 4
                | aligned_write 4 2 | aligned_write 6 2 | aligned_write 4 8 | aligned_write 12 8
                | aligned_write 20 8 ]; norm_lists).

Lemma encode_err_closed m h hdr :
  err_hdr (e_ty m) = Some hdr ->
  encode_err m h
  = Ok (err_fixed m ++ firstn (N.to_nat (from_offending_packet_length hdr (blen (e_off m)) h - hdr)) (e_off m)).
Proof.
  intros Hh. pose proof Hh as Hin. apply assocN_In in Hin.
  unfold scmp_error_kinds in Hin. cbn [In] in Hin.
  unfold encode_err. rewrite Hh.
  set (size := from_offending_packet_length hdr (blen (e_off m)) h).
  pose proof (from_off_ge hdr (blen (e_off m)) h) as Hge. fold size in Hge.
  replace size with (hdr + (size - hdr)) at 1 by lia. rewrite zeros_split.
  set (t := zeros (size - hdr)).
  assert (Lt : blen t = size - hdr) by (unfold t; apply zeros_blen).
  rewrite offending_rng_lo, (offending_rng_hi _ _ Hge).
  assert (Hincl : size - hdr <= blen (e_off m)) by (unfold size; rewrite from_off_included; lia).
  unfold index_range. destruct ((0 <=? size - hdr) && (size - hdr <=? blen (e_off m))) eqn:C; [|lia].
  assert (Hq : blen (sub (e_off m) 0 (size - hdr)) = size - hdr) by (apply sub_prefix_blen; exact Hincl).
  unfold written_code, write_fixed, err_fixed.
  destruct Hin as [H|[H|[H|[H|[H|[]]]]]]; injection H as Hty Hhdr; subst hdr; try rewrite <- !Hty;
    eqb_consts;
    match goal with |- context [repeat 0 (N.to_nat ?n)] =>
      let k := eval vm_compute in (N.to_nat n) in change (N.to_nat n) with k end;
    match goal with |- context [repeat 0 ?k ++ t] =>
      assert (L : length (repeat 0 k) = k) by apply repeat_length end;
    repeat wr_step wr_prefix L;
    (rewrite splice_tail; [|rewrite L; reflexivity|exact Lt|exact Hge|exact Hq]);
    rewrite sub_firstn; f_equal; f_equal; clear.
  all: hdr_steps; fin_bytes.
Qed.
