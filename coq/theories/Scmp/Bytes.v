(** C14 -- byte-level lemmas about [Wire.BitField.lane_write] / [lane_read] on byte-aligned
    fields, used to give the SCMP encoders of [Scmp.Model] their closed byte form. *)
From Coq Require Import Lia ZifyBool ZifyNat ZifyN.
From Sci Require Import Scmp.Model.
Local Open Scope N_scope.
Ltac Zify.zify_post_hook ::= Z.div_mod_to_equations.
Arguments N.add : simpl never.
Arguments N.sub : simpl never.
Arguments N.mul : simpl never.
Arguments N.div : simpl never.
Arguments N.modulo : simpl never.
Arguments N.eqb : simpl never.
Arguments N.ltb : simpl never.
Arguments N.leb : simpl never.
Arguments N.pow : simpl never.

Lemma be_val_zeros n acc : be_val acc (repeat 0 n) = acc * 256 ^ N.of_nat n.
Proof.
  revert acc. induction n as [|n IH]; intros acc.
  - cbn [repeat be_val]. change (N.of_nat 0) with 0. rewrite N.pow_0_r. lia.
  - cbn [repeat be_val]. rewrite IH. rewrite Nat2N.inj_succ, N.pow_succ_r'. lia.
Qed.

(** a write of a byte-aligned field over bytes that are still zero puts the big-endian bytes
    of the (truncated) value there and touches nothing else *)
Lemma lane_write_aligned_zero b k w v :
  k + w <= blen b -> sub b k (k + w) = repeat 0 (N.to_nat w) ->
  lane_write b (8 * k, 8 * w) v
  = firstn (N.to_nat k) b ++ be_bytes (N.to_nat w) (v mod 2 ^ (8 * w)) ++ skipn (N.to_nat (k + w)) b.
Proof.
  intros Hlen Hz. unfold lane_write.
  assert (Elo : byte_lo (8 * k, 8 * w) = k) by (unfold byte_lo, r_start; cbn [fst]; lia).
  assert (Ehi : byte_hi (8 * k, 8 * w) = k + w) by (unfold byte_hi, r_end; cbn [fst snd]; lia).
  rewrite Elo, Ehi, Hz. unfold r_width, r_end. cbn [fst snd].
  rewrite be_val_zeros. rewrite N.mul_0_l.
  replace ((k + w) * 8 - (8 * k + 8 * w)) with 0 by lia.
  rewrite !N.shiftl_0_r, N.ldiff_0_l, N.lor_0_l, N.land_ones.
  replace (k + w - k) with w by lia. reflexivity.
Qed.

Lemma byte_lo_le_hi' r : byte_lo r <= byte_hi r.
Proof. unfold byte_lo, byte_hi, r_end, r_start. lia. Qed.

(** a write only concerns the prefix that contains its byte range *)
Lemma lane_write_app b t r v :
  byte_hi r <= blen b -> lane_write (b ++ t) r v = lane_write b r v ++ t.
Proof.
  intros H. unfold lane_write. pose proof (byte_lo_le_hi' r) as L. unfold blen in H.
  assert (S1 : sub (b ++ t) (byte_lo r) (byte_hi r) = sub b (byte_lo r) (byte_hi r)).
  { unfold sub. rewrite skipn_app. replace (N.to_nat (byte_lo r) - length b)%nat with 0%nat by lia.
    cbn [skipn]. rewrite firstn_app, skipn_length.
    replace (N.to_nat (byte_hi r - byte_lo r) - (length b - N.to_nat (byte_lo r)))%nat with 0%nat by lia.
    cbn [firstn]. rewrite app_nil_r. reflexivity. }
  rewrite S1. rewrite firstn_app. replace (N.to_nat (byte_lo r) - length b)%nat with 0%nat by lia.
  cbn [firstn]. rewrite app_nil_r. rewrite skipn_app.
  replace (N.to_nat (byte_hi r) - length b)%nat with 0%nat by lia. cbn [skipn].
  rewrite <- !app_assoc. reflexivity.
Qed.

Lemma wr_eq v r x :
  (size_bytes r <=? LANE_BYTES) = true -> byte_hi r <= blen v -> wr v r x = Ok (lane_write v r x).
Proof.
  intros H1 H2. unfold wr. rewrite H1. cbn [negb].
  destruct (byte_hi r <=? blen v) eqn:E; [reflexivity|lia].
Qed.

Lemma trunc_idem bits v : trunc bits v mod 2 ^ bits = trunc bits v.
Proof. unfold trunc. rewrite N.mod_mod; [reflexivity|]. apply N.pow_nonzero. discriminate. Qed.

Ltac aligned_write k w :=
  match goal with
  | |- context [lane_write ?b ?r ?v] =>
    change r with (8 * k, 8 * w);
    rewrite (lane_write_aligned_zero b k w v) by (vm_compute; first [reflexivity | discriminate])
  end.

(** the 8 fixed bytes of an echo reply *)
Lemma echo_hdr8 id sq :
  lane_write (lane_write (lane_write (lane_write (lane_write (repeat 0 8)
    ScmpEchoReply_TYPE_RNG T_ECHO_REPLY) ScmpEchoReply_CODE_RNG 0) ScmpEchoReply_CHECKSUM_RNG 0)
    ScmpEchoReply_IDENTIFIER_RNG (trunc 16 id)) ScmpEchoReply_SEQUENCE_NUMBER_RNG (trunc 16 sq)
  = [129; 0; 0; 0] ++ be_bytes 2 (trunc 16 id) ++ be_bytes 2 (trunc 16 sq).
Proof.
  cbn [repeat].
  aligned_write 0 1. Show.
Abort.
