(** Correspondence driver for C20: evaluated by [vm_compute] on case files written by the Rust
    harness (harness/hc_sync/src/bin/h_sync.rs).  A case is one run of the REAL manager under a
    real tokio runtime: the linearised trace of its atomic steps (logged by the verif-hooks
    trace callback), the values the callers' futures returned, and the view through the
    handles after the end.  Checked: (1) trace inclusion -- the observed trace is a trace of
    the model ([run] accepts every label), the model's callers end in [ADone] with exactly the
    values the real callers got, and the model's final path-set state equals the real one;
    (2) the property oracles of [Spec] on the observations alone. *)
From Coq Require Import NArith.
From Sci Require Export Sync.Model Sync.Spec.
From Sci Require Import Gen.SyncShape.
From Coq Require Import List Bool Arith.
Import ListNotations.

Record scase := mkC {
  c_strict : bool;                     (* current-thread run: every observation is checked *)
  c_nw : nat;
  c_tr : list label;
  c_res : list (nat * wres);           (* value returned to caller i *)
  c_hung : bool;                       (* some caller had not returned at the harness' deadline *)
  c_dropped : bool;                    (* manager dropped at the end, grace period waited *)
  c_fin : list (nat * hview);          (* per path set: view through its handles after the end *)
  c_fetches : nat }.                   (* fetch_paths invocations counted by the fetcher *)

Definition err_class (o : option perr) : nat :=
  match o with
  | None => 0 | Some ENoPaths => 1 | Some EInternal => 2
  | Some (EExit XMgrDropped) => 10 | Some (EExit XCancelled) => 11 | Some (EExit XIdle) => 12
  end.

Definition view_of (p : pset) : hview := (active p, inited p, ongoing p, err_class (cerr p)).
Definition hview_eqb (a b : hview) : bool :=
  let '(a1, a2, a3, a4) := a in let '(b1, b2, b3, b4) := b in
  eqb a1 b1 && eqb a2 b2 && eqb a3 b3 && Nat.eqb a4 b4.

(** [shape_ok]: the translator found every construct the model's atomic steps rely on, in the
    order the model assumes (tools/gen.d/sync.py) *)
Definition model_agrees (c : scase) : bool :=
  shape_ok &&
  match run (c_strict c) (c_tr c) (init (c_nw c)) with
  | None => false
  | Some sf =>
    forallb (fun '(i, r) => match wts sf i with ADone r' => wres_eqb r r' | _ => false end) (c_res c)
    && forallb (fun '(e, v) => (e <? nps sf) && hview_eqb v (view_of (pss sf e))) (c_fin c)
    && Nat.eqb (length (c_fin c)) (nps sf)
  end.

Definition property_ok (c : scase) : bool :=
  negb (c_hung c)
  && all_released (c_tr c) (c_res c)
  && registered_woken (c_tr c)
  && result_shape_ok (c_tr c) (c_res c)
  (* removals are logged after remove_sync returns, not under the bucket lock: on a multi-thread
     runtime a spawn that follows a removal can be logged before it, so only the totals are
     compared there; on the current-thread runtime every prefix is checked *)
  && (if c_strict c then single_worker_prefix 0 0 (c_tr c) else single_worker_ok (c_tr c))
  && Nat.eqb (c_fetches c) (count_l is_begin (c_tr c))
  && (negb (c_dropped c) || after_drop_ok (c_tr c) (c_fin c)).

(** bit 1: the model does not explain the run; bit 2: the run violates the property *)
Definition verdict (c : scase) : N :=
  ((if model_agrees c then 0 else 1) + (if property_ok c then 0 else 2))%N.

Definition verdicts (cs : list scase) : list N := map verdict cs.

(** for replays: index of the first label the model refuses *)
Definition where_rejected (c : scase) : option nat :=
  first_reject (c_strict c) 0 (c_tr c) (init (c_nw c)).
