(** C20 -- lemmas: the invariant of the protocol model and its consequences. *)
From Coq Require Import List Bool Arith Lia.
From Sci Require Import Sync.Model Sync.Spec.
Import ListNotations.

(** * basic facts *)
Lemma upd_same {A} (f : nat -> A) i x : upd f i x i = x.
Proof. unfold upd. now rewrite Nat.eqb_refl. Qed.
Lemma upd_other {A} (f : nat -> A) i j x : j <> i -> upd f i x j = f j.
Proof. unfold upd. intros H. destruct (Nat.eqb_spec j i); congruence. Qed.

Lemma chk_true b : chk true b = b.
Proof. reflexivity. Qed.

(** * per-path-set invariant, as a boolean *)
Definition perr_is_exit (o : option perr) : bool :=
  match o with Some (EExit _) => true | _ => false end.
Definition perr_is_internal (o : option perr) : bool :=
  match o with Some EInternal => true | _ => false end.

Definition ps_ok (p : pset) : bool :=
  (negb (active p) || g_ok p) &&
  (negb (perr_is_internal (cerr p)) || g_err p) &&
  match wc p with
  | WInit => negb (ongoing p) && negb (inited p) && negb (perr_is_exit (cerr p))
  | WFetched FErr => ongoing p && negb (perr_is_exit (cerr p)) && g_err p
  | WFetching | WFetched _ | WErrSet => ongoing p && negb (perr_is_exit (cerr p))
  | WCompleted | WSleeping => negb (ongoing p) && inited p && negb (perr_is_exit (cerr p))
  | WExiting _ | WExit2 _ => negb (ongoing p) && negb (perr_is_exit (cerr p))
  | WExit3 => negb (ongoing p) && inited p && perr_is_exit (cerr p)
  | WExited => negb (ongoing p) && inited p && perr_is_exit (cerr p) && negb (active p)
  | WBug => false
  end.

Definition handle_of (w : wst) : option nat :=
  match w with
  | AHandle e | ALoaded e | AReg e _ | AAwaited e | ALoaded2 e => Some e
  | _ => None
  end.

Record Inv (s : state) : Prop := mkInv {
  inv_ps : forall e, e < nps s -> ps_ok (pss s e) = true;
  inv_map : forall e, pmap s = Some e -> e < nps s;
  inv_h : forall i e, handle_of (wts s i) = Some e -> e < nps s;
  inv_reg : forall i e, wts s i = AReg e false ->
                        ongoing (pss s e) = true \/ inited (pss s e) = false;
  inv_drop : udrop s = true -> forall i, idle_w (wts s i) = true;
  inv_nw : forall i, nw s <= i -> wts s i = AStart;
  inv_count : nps s = nrem s + (if has_entry s then 1 else 0);
  inv_res : forall i r, wts s i = ADone r -> ResultJustified s r }.

Lemma Inv_init n : Inv (init n).
Proof.
  constructor; cbn; intros; try lia; try discriminate; auto.
Qed.

(** * tactics *)
Ltac step_inv H :=
  unfold step in H; cbv zeta in H;
  repeat match type of H with
         | context [match ?x with _ => _ end] => destruct x eqn:?; try discriminate H
         end;
  try (injection H as <-);
  repeat match goal with
         | H' : context [match wc ?p with _ => _ end] |- _ =>
           destruct (wc p) eqn:?; try discriminate H'
         | H' : context [match wts ?s ?i with _ => _ end] |- _ =>
           destruct (wts s i) eqn:?; try discriminate H'
         | H' : match ?r with XMgrDropped => _ | _ => _ end = true |- _ =>
           destruct r; try discriminate H'
         | H' : Some _ = Some ?w |- _ => is_var w; injection H' as <-
         end.

Ltac bool_hyps :=
  repeat match goal with
         | H : _ && _ = true |- _ => apply andb_prop in H; destruct H
         | H : chk true _ = true |- _ => rewrite chk_true in H
         | H : (_ <? _) = true |- _ => apply Nat.ltb_lt in H
         | H : (_ =? _) = true |- _ => apply Nat.eqb_eq in H; subst
         | H : negb _ = true |- _ => apply negb_true_iff in H
         | H : eqb _ _ = true |- _ => apply eqb_prop in H
         end.

Ltac upd_cases :=
  repeat match goal with
         | |- context [upd _ ?i _ ?j] =>
           destruct (Nat.eq_dec j i);
           [subst; rewrite !upd_same | rewrite !(upd_other _ i j) by assumption]
         | H : context [upd _ ?i _ ?j] |- _ =>
           destruct (Nat.eq_dec j i);
           [subst; rewrite !upd_same in H | rewrite !(upd_other _ i j) in H by assumption]
         end.

(** * monotonicity of the ghost facts used by [ResultJustified] *)
Definition ps_le (p q : pset) : Prop :=
  (g_ok p = true -> g_ok q = true) /\ (g_err p = true -> g_err q = true) /\
  (forall x, cerr p = Some (EExit x) -> (wc p = WExit3 \/ wc p = WExited) ->
             cerr q = Some (EExit x) /\ (wc q = WExit3 \/ wc q = WExited)).

Lemma ps_le_refl p : ps_le p p.
Proof. repeat split; auto. Qed.

Lemma step_mono s l s' :
  step true l s = Some s' ->
  nps s <= nps s' /\ forall e, e < nps s -> ps_le (pss s e) (pss s' e).
Proof.
  intros H. destruct l; step_inv H; cbn [pss nps set_w set_p set_wts remove_entry];
    (split; [lia|]); intros e' He'; try apply ps_le_refl;
    bool_hyps; unfold upd;
    match goal with
    | |- context [e' =? ?x] => destruct (Nat.eqb_spec e' x); [subst|apply ps_le_refl]
    end; try lia;
    unfold ps_le, set_wc; cbn;
    (split; [|split]);
    try tauto; try (intros; apply orb_true_iff; tauto);
    intros xx Hx [Hc|Hc]; try congruence; try (rewrite Hc in *; discriminate);
    (split; [exact Hx|tauto]).
Qed.

Lemma RJ_mono s l s' r :
  step true l s = Some s' -> ResultJustified s r -> ResultJustified s' r.
Proof.
  intros H HR. destruct (step_mono _ _ _ H) as [Hn Hm].
  destruct r as [| |[| |x]|]; cbn in *; auto.
  - destruct HR as (e & He & Hg). exists e. split; [lia|]. now apply (Hm e He).
  - destruct HR as (e & He & Hg). exists e. split; [lia|]. now apply (Hm e He).
  - destruct HR as (e & He & Hc & Hw). exists e. split; [lia|].
    now apply (proj2 (proj2 (Hm e He)) x Hc Hw).
Qed.

(** * preservation of the invariant *)
Lemma ps_ok_new : ps_ok new_ps = true.
Proof. reflexivity. Qed.

Ltac ps_crunch :=
  match goal with
  | Hps : ps_ok ?p = true |- _ =>
    let Hp := fresh "Hp" in
    remember p as pp eqn:Hp in *; clear Hp;
    destruct pp as [o i c a w gk ge]; unfold ps_ok, set_wc in *; cbn in *; subst;
    repeat match goal with
           | r : fres |- _ => destruct r
           | b : bool |- _ => destruct b
           | c : option perr |- _ => destruct c as [[| |[]]|]
           end;
    cbn in *; try discriminate; try reflexivity
  end.

Ltac eqb_cases :=
  repeat match goal with
         | |- context [?a =? ?b] => destruct (Nat.eqb_spec a b); [subst|]
         end.

Lemma step_ps s l s' :
  Inv s -> step true l s = Some s' -> forall e, e < nps s' -> ps_ok (pss s' e) = true.
Proof.
  intros I H. pose proof (inv_ps _ I) as Hps.
  destruct l; step_inv H; cbn [pss nps set_w set_p set_wts remove_entry] in *;
    intros e' He'; bool_hyps; auto; unfold upd; eqb_cases;
    try (apply Hps; lia); try apply ps_ok_new.
  all: try (match goal with |- context [pss _ ?e] => specialize (Hps e ltac:(assumption)) end; ps_crunch).
Qed.

Lemma step_map s l s' :
  Inv s -> step true l s = Some s' -> forall e, pmap s' = Some e -> e < nps s'.
Proof.
  intros I H. pose proof (inv_map _ I) as Hm.
  destruct l; step_inv H; cbn [pmap nps set_w set_p set_wts remove_entry] in *;
    intros e' He'; bool_hyps; auto; try discriminate.
  all: try (injection He' as <-; lia).
Qed.

Lemma notify_handle e w i : handle_of (notify e w i) = handle_of (w i).
Proof.
  unfold notify. destruct (w i) as [| | | |e' [|]| | | | |]; try reflexivity.
  destruct (e' =? e); reflexivity.
Qed.

Lemma step_h s l s' :
  Inv s -> step true l s = Some s' -> forall i e, handle_of (wts s' i) = Some e -> e < nps s'.
Proof.
  intros I H. pose proof (inv_h _ I) as Hh.
  destruct l; step_inv H; cbn [wts nps set_w set_p set_wts remove_entry] in *;
    intros i' e' He'; bool_hyps; try (rewrite notify_handle in He'); eauto;
    unfold upd in He';
    try (destruct (Nat.eqb_spec i' i); [subst i'|]); eauto; cbn in He';
    try (destruct got; cbn in He'; try discriminate);
    try (destruct ret; cbn in He'; try discriminate);
    try (injection He' as <-); try discriminate; try lia;
    try (match goal with Hw : wts s ?i = _ |- _ => apply (Hh i); rewrite Hw; reflexivity end).
  all: try (apply Hh in He'; lia).
Qed.

Lemma notify_reg e w i e0 : notify e w i = AReg e0 false -> w i = AReg e0 false /\ e0 <> e.
Proof.
  unfold notify. destruct (w i) as [| | | |e' [|]| | | | |]; try discriminate; intros H.
  destruct (Nat.eqb_spec e' e); [discriminate H|]. injection H as <-. auto.
Qed.

Lemma step_reg s l s' :
  Inv s -> step true l s = Some s' ->
  forall i e, wts s' i = AReg e false -> ongoing (pss s' e) = true \/ inited (pss s' e) = false.
Proof.
  intros I H. pose proof (inv_reg _ I) as Hr.
  destruct l; step_inv H; cbn [wts pss nps set_w set_p set_wts remove_entry] in *;
    intros i' e' He'; bool_hyps;
    try (apply notify_reg in He'; destruct He' as [He' Hne]);
    unfold upd in *;
    try (destruct (Nat.eqb_spec i' i); [subst i'|]);
    try (destruct got; try discriminate He');
    try (destruct ret; try discriminate He');
    try discriminate He';
    try (destruct (Nat.eqb_spec e' e); [subst e'|]); cbn; eauto; try congruence.
  - destruct (Nat.eqb_spec e' (nps s)); cbn; eauto.
  - destruct (Nat.eqb_spec e' (nps s)); cbn; eauto.
  - destruct (ongoing (pss s e)), (inited (pss s e)); cbn in *; auto; discriminate.
Qed.

Lemma notify_idle e w i : idle_w (notify e w i) = idle_w (w i).
Proof.
  unfold notify. destruct (w i) as [| | | |e' [|]| | | | |]; try reflexivity.
  destruct (e' =? e); reflexivity.
Qed.

Lemma step_nw s l s' :
  Inv s -> step true l s = Some s' -> nw s' = nw s /\ forall i, nw s <= i -> wts s' i = AStart.
Proof.
  intros I H. pose proof (inv_nw _ I) as Hn.
  destruct l; step_inv H; cbn [wts nw set_w set_p set_wts remove_entry] in *;
    (split; [reflexivity|]); intros i' Hi'; bool_hyps; auto; unfold upd;
    try (destruct (Nat.eqb_spec i' i); [subst i'|]); auto;
    try (rewrite (Hn _ Hi') in *; discriminate); try lia.
  all: unfold notify; rewrite (Hn _ Hi'); reflexivity.
Qed.

Lemma step_drop s l s' :
  Inv s -> step true l s = Some s' -> udrop s' = true -> forall i, idle_w (wts s' i) = true.
Proof.
  intros I H. pose proof (inv_drop _ I) as Hd. pose proof (inv_nw _ I) as Hn.
  destruct l; step_inv H; cbn [wts udrop set_w set_p set_wts remove_entry] in *;
    intros Hu i'; bool_hyps; try rewrite notify_idle; auto; try congruence;
    try (match goal with Hw : wts s ?i = _ |- _ =>
           specialize (Hd Hu i); rewrite Hw in Hd; discriminate Hd end);
    try (unfold upd; destruct (Nat.eqb_spec i' i); [reflexivity|auto]).
  destruct (Nat.lt_ge_cases i' (nw s)) as [Hlt|Hge].
  - rewrite forallb_forall in H0. apply H0, in_seq. lia.
  - now rewrite (Hn _ Hge).
Qed.

Lemma step_count s l s' :
  Inv s -> step true l s = Some s' -> nps s' = nrem s' + (if has_entry s' then 1 else 0).
Proof.
  intros I H. pose proof (inv_count _ I) as Hc.
  destruct l; step_inv H; unfold has_entry in *;
    cbn [pmap nps nrem set_w set_p set_wts remove_entry] in *; bool_hyps; auto;
    destruct (pmap s); try discriminate; lia.
Qed.



Lemma wres_eqb_eq a b : wres_eqb a b = true -> a = b.
Proof.
  destruct a as [| |[| |[]]|], b as [| |[| |[]]|]; cbn; intros; try discriminate; reflexivity.
Qed.

Lemma ps_ok_active p : ps_ok p = true -> active p = true -> g_ok p = true.
Proof.
  unfold ps_ok. intros H Ha. rewrite Ha in H. cbn in H.
  apply andb_prop in H as [H _]. apply andb_prop in H as [H _]. exact H.
Qed.
Lemma ps_ok_internal p : ps_ok p = true -> cerr p = Some EInternal -> g_err p = true.
Proof.
  unfold ps_ok. intros H Ha. rewrite Ha in H. cbn in H.
  apply andb_prop in H as [H _]. apply andb_prop in H as [_ H]. exact H.
Qed.
Lemma ps_ok_exit p x :
  ps_ok p = true -> cerr p = Some (EExit x) -> wc p = WExit3 \/ wc p = WExited.
Proof.
  unfold ps_ok. intros H Ha. rewrite Ha in H. cbn in H.
  apply andb_prop in H as [_ H].
  destruct (wc p) as [| |[]| | | | | | | |]; auto;
    repeat (apply andb_prop in H; destruct H as [H ?]); try discriminate;
    repeat match goal with H : _ && _ = true |- _ => apply andb_prop in H; destruct H end;
    discriminate.
Qed.

Lemma step_res s l s' :
  Inv s -> step true l s = Some s' -> forall i r, wts s' i = ADone r -> ResultJustified s' r.
Proof.
  intros I H i' r' Hd.
  assert (Hpre : wts s i' = ADone r' \/ ResultJustified s r').
  { pose proof (inv_ps _ I) as Hps. pose proof (inv_map _ I) as Hm. pose proof (inv_h _ I) as Hh.
    clear - H Hd Hps Hm Hh.
    destruct l; step_inv H; cbn [wts set_w set_p set_wts remove_entry] in *; bool_hyps; auto;
      try (left; revert Hd; unfold notify; destruct (wts s i') as [| | | |e' [|]| | | | |];
           try (destruct (e' =? e)); intros Hd; try discriminate Hd; exact Hd);
      unfold upd in Hd;
      (destruct (Nat.eqb_spec i' i); [subst i'|now left]); right;
      try (destruct got; try discriminate Hd);
      try (destruct ret; try discriminate Hd);
      try discriminate Hd; injection Hd as <-; cbn; auto.
    all: try (match goal with Hw : wts ?s ?i = _ ?e |- exists _, _ /\ g_ok _ = true =>
                assert (He : e < nps s) by (apply (Hh i); rewrite Hw; reflexivity);
                exists e; split; [exact He|apply ps_ok_active; auto] end).
    - unfold slot_at in *. destruct (pmap s) as [e|] eqn:Hpm; [|discriminate].
      exists e. split; [auto|apply ps_ok_active; auto].
    - unfold slot_at in *. destruct (pmap s) as [e|] eqn:Hpm; [|discriminate].
      exists e. split; [auto|apply ps_ok_active; auto].
    - assert (He : e < nps s) by (apply (Hh i); rewrite Heqw; reflexivity).
      apply wres_eqb_eq in H0. subst r. unfold err_result.
      destruct (cerr (pss s e)) as [[| |x]|] eqn:Hc; cbn; auto.
      + exists e. split; [exact He|]. apply ps_ok_internal; auto.
      + exists e. split; [exact He|]. split; [exact Hc|]. eapply ps_ok_exit; eauto. }
  destruct Hpre as [Hpre|Hpre]; [apply (inv_res _ I) in Hpre|]; eapply RJ_mono; eauto.
Qed.

Lemma Inv_step s l s' : Inv s -> step true l s = Some s' -> Inv s'.
Proof.
  intros I H. constructor.
  - eapply step_ps; eauto.
  - eapply step_map; eauto.
  - eapply step_h; eauto.
  - eapply step_reg; eauto.
  - eapply step_drop; eauto.
  - destruct (step_nw _ _ _ I H) as [Hn Hw]. intros i Hi. apply Hw. lia.
  - eapply step_count; eauto.
  - eapply step_res; eauto.
Qed.

Lemma Inv_reach n s : reach n s -> Inv s.
Proof. induction 1; [apply Inv_init|eapply Inv_step; eauto]. Qed.

(** * no lost wake-up *)
Lemma ps_ok_ahead p :
  ps_ok p = true -> ongoing p = true \/ inited p = false -> notify_ahead (wc p) = true.
Proof.
  unfold ps_ok. intros H Hf. apply andb_prop in H as [_ H].
  destruct (wc p) as [| |[]| | | | | | | |]; cbn; auto;
    repeat match goal with H : _ && _ = true |- _ => apply andb_prop in H; destruct H end;
    repeat match goal with H : negb _ = true |- _ => apply negb_true_iff in H end;
    destruct Hf; congruence.
Qed.

Lemma Inv_no_lost_wakeup s : Inv s -> NoLostWakeup s.
Proof.
  intros I i e Hw.
  assert (He : e < nps s) by (apply (inv_h _ I i); rewrite Hw; reflexivity).
  split; [exact He|]. apply ps_ok_ahead; [apply (inv_ps _ I); exact He|apply (inv_reg _ I i); exact Hw].
Qed.

Lemma Inv_no_bug s e : Inv s -> e < nps s -> wc (pss s e) <> WBug.
Proof.
  intros I He Hb. pose proof (inv_ps _ I e He) as H. unfold ps_ok in H. rewrite Hb in H.
  now rewrite andb_false_r in H.
Qed.

(** every step of worker e other than a slot store either runs the notifying block or gets
    strictly closer to it *)
Lemma notify_all e w i : w i = AReg e false -> notify e w i = AReg e true.
Proof. unfold notify. intros ->. now rewrite Nat.eqb_refl. Qed.

Lemma progress_step s l s' e :
  Inv s -> step true l s = Some s' -> progress_of e l = true ->
  notify_ahead (wc (pss s e)) = true ->
  (forall i, wts s i = AReg e false -> wts s' i = AReg e true) \/
  (notify_ahead (wc (pss s' e)) = true /\ wdist (wc (pss s' e)) < wdist (wc (pss s e)) /\
   forall i, wts s' i = wts s i).
Proof.
  intros I H Hp Ha.
  destruct l; cbn in Hp; try discriminate Hp; apply Nat.eqb_eq in Hp; subst e0;
    step_inv H; cbn [wts pss set_w set_p set_wts remove_entry] in *; bool_hyps;
    try rewrite upd_same.
  all: try (cbn in Ha; discriminate Ha).
  all: try (left; intros i Hi; apply notify_all; exact Hi).
  all: try (right; unfold set_wc; cbn; rewrite ?Heqw; cbn; repeat split; auto; lia).
  exfalso. pose proof (inv_ps _ I e ltac:(assumption)) as Hps. unfold ps_ok in Hps.
  rewrite Heqw, Heqb0 in Hps. cbn in Hps. now rewrite andb_false_r in Hps.
Qed.

Lemma ahead_dist c : notify_ahead c = true -> 0 < wdist c.
Proof. destruct c; cbn; intros; try discriminate; lia. Qed.

(** any other step leaves worker e where it is and an unnotified caller of e unnotified (unless
    that caller gives up) *)
Lemma other_step s l s' e :
  Inv s -> step true l s = Some s' -> progress_of e l = false -> e < nps s ->
  wc (pss s' e) = wc (pss s e) /\
  forall i, wts s i = AReg e false -> wts s' i = AReg e false \/ passed (wts s' i) = true.
Proof.
  intros I H Hp He.
  destruct l; cbn in Hp; step_inv H; cbn [wts pss set_w set_p set_wts remove_entry] in *; bool_hyps;
    try (apply Nat.eqb_neq in Hp);
    (split; [unfold upd; try (destruct (Nat.eqb_spec e e0); [subst; try congruence; try lia|]); try reflexivity|]).
  all: try (intros i' Hi'; unfold upd; destruct (Nat.eqb_spec i' i);
            [subst i'; first [congruence | right; reflexivity]|left; exact Hi']).
  all: try (intros i' Hi'; left; exact Hi').
  all: try (intros i' Hi'; left; unfold notify; rewrite Hi'; destruct (Nat.eqb_spec e e0); [congruence|reflexivity]).
  all: try (destruct (Nat.eqb_spec e (nps s)); [lia|reflexivity]).
  all: cbn; congruence.
Qed.

Lemma passed_step s l s' i :
  step true l s = Some s' -> passed (wts s i) = true -> passed (wts s' i) = true.
Proof.
  intros H Hp.
  destruct l; step_inv H; cbn [wts set_w set_p set_wts remove_entry] in *; bool_hyps; auto;
    try (unfold notify; destruct (wts s i) as [| | | |e' [|]| | | | |]; try discriminate Hp;
         try (destruct (e' =? e)); reflexivity);
    unfold upd; (destruct (Nat.eqb_spec i i0); [subst i0|exact Hp]);
    try (match goal with Hw : wts s i = _ |- _ => rewrite Hw in Hp; discriminate Hp end);
    try (destruct got); try (destruct ret); reflexivity.
Qed.

Lemma passed_run tr : forall s s' i,
  run true tr s = Some s' -> passed (wts s i) = true -> passed (wts s' i) = true.
Proof.
  induction tr as [|l tr IH]; cbn; intros s s' i H Hp.
  - now injection H as <-.
  - destruct (step true l s) as [s1|] eqn:Hs; [|discriminate]. eapply IH; eauto using passed_step.
Qed.

Lemma Inv_run tr : forall s s', Inv s -> run true tr s = Some s' -> Inv s'.
Proof.
  induction tr as [|l tr IH]; cbn; intros s s' I H.
  - now injection H as <-.
  - destruct (step true l s) as [s1|] eqn:Hs; [|discriminate]. eauto using Inv_step.
Qed.

(** liveness, fairness made explicit as a count: once worker e has taken [wdist] steps (the
    completion of the lookup is one of them), every caller registered with e is past its wait *)
Lemma wake_within_run tr : forall s s' i e,
  Inv s -> run true tr s = Some s' -> wts s i = AReg e false ->
  wdist (wc (pss s e)) <= count_l (progress_of e) tr -> passed (wts s' i) = true.
Proof.
  induction tr as [|l tr IH]; intros s s' i e I H Hw Hd.
  - destruct (Inv_no_lost_wakeup _ I i e Hw) as [_ Ha]. apply ahead_dist in Ha. cbn in Hd. lia.
  - cbn in H. destruct (step true l s) as [s1|] eqn:Hs; [|discriminate].
    destruct (Inv_no_lost_wakeup _ I i e Hw) as [He Ha].
    pose proof (Inv_step _ _ _ I Hs) as I1.
    unfold count_l in Hd. cbn [filter] in Hd.
    destruct (progress_of e l) eqn:Hp.
    + destruct (progress_step _ _ _ _ I Hs Hp Ha) as [Hn|(Ha1 & Hlt & Hsame)].
      * eapply passed_run; eauto. rewrite (Hn i Hw). reflexivity.
      * eapply (IH s1 s' i e I1 H); [rewrite Hsame; exact Hw|].
        cbn [length] in Hd. unfold count_l. lia.
    + destruct (other_step _ _ _ _ I Hs Hp He) as [Hwc Hk].
      destruct (Hk i Hw) as [Hk1|Hk1]; [|eapply passed_run; eauto].
      eapply (IH s1 s' i e I1 H); [exact Hk1|]. rewrite Hwc. exact Hd.
Qed.


(** * enabledness: nobody who has something to do is blocked *)
Lemma wres_eqb_refl r : wres_eqb r r = true.
Proof. destruct r as [| |[| |[]]|]; reflexivity. Qed.

(** a worker with a notifying block ahead always has an enabled non-store step; in [WFetching]
    that step is the completion of the lookup -- the explicit premise "the lookup terminates" *)
Lemma worker_enabled s e :
  Inv s -> e < nps s -> notify_ahead (wc (pss s e)) = true ->
  exists l s', progress_of e l = true /\ step true l s = Some s'.
Proof.
  intros I He Ha. pose proof (inv_ps _ I e He) as Hps.
  apply Nat.ltb_lt in He.
  destruct (wc (pss s e)) eqn:Hw; try discriminate Ha.
  - (* WInit *) destruct (alive s) eqn:Hal.
    + exists (LBegin e). eexists. split; [cbn; apply Nat.eqb_refl|].
      unfold step; cbv zeta. rewrite He, Hal, Hw. cbn [andb chk].
      assert (Ho : ongoing (pss s e) = false).
      { unfold ps_ok in Hps. rewrite Hw in Hps.
        repeat (apply andb_prop in Hps; destruct Hps as [Hps ?]).
        repeat match goal with H : _ && _ = true |- _ => apply andb_prop in H; destruct H end.
        now apply negb_true_iff. }
      rewrite Ho. reflexivity.
    + exists (LQuit e XMgrDropped). eexists. split; [cbn; apply Nat.eqb_refl|].
      unfold step; cbv zeta. rewrite He, Hw, Hal. reflexivity.
  - exists (LFetched e FOk). eexists. split; [cbn; apply Nat.eqb_refl|].
    unfold step; cbv zeta. rewrite He, Hw. reflexivity.
  - exists (LSetErr e). eexists. split; [cbn; apply Nat.eqb_refl|].
    unfold step; cbv zeta. rewrite He, Hw. reflexivity.
  - exists (LComplete e). eexists. split; [cbn; apply Nat.eqb_refl|].
    unfold step; cbv zeta. rewrite He, Hw. reflexivity.
  - destruct (alive s && has_entry s) eqn:Hc.
    + exists (LExitRemove e). eexists. split; [cbn; apply Nat.eqb_refl|].
      unfold step; cbv zeta. rewrite He, Hw. cbn [chk]. rewrite Hc. reflexivity.
    + exists (LExitSkip e). eexists. split; [cbn; apply Nat.eqb_refl|].
      unfold step; cbv zeta. rewrite He, Hw. cbn [chk].
      replace (negb (alive s) || negb (has_entry s)) with true
        by (destruct (alive s), (has_entry s); cbn in *; congruence). reflexivity.
  - exists (LExitBlock e). eexists. split; [cbn; apply Nat.eqb_refl|].
    unfold step; cbv zeta. rewrite He, Hw. reflexivity.
Qed.

(** a caller inside the manager can always take its next step, unless it waits for a
    notification that has not come (then [worker_enabled] applies to its worker) *)
Lemma caller_enabled s i :
  Inv s ->
  match wts s i with AStart | ADone _ | AReg _ false => False | _ => True end ->
  exists l s', caller_of l = Some i /\ step true l s = Some s'.
Proof.
  intros I Hc. destruct (wts s i) eqn:Hw; try contradiction.
  - (* APeeked *) destruct (pmap s) as [e|] eqn:Hm.
    + exists (LEnsure i false e). eexists. split; [reflexivity|].
      unfold step; cbv zeta. rewrite Hw. unfold in_map. rewrite Hm, Nat.eqb_refl.
      pose proof (inv_map _ I e Hm) as He. apply Nat.ltb_lt in He. rewrite He. reflexivity.
    + exists (LEnsure i true (nps s)). eexists. split; [reflexivity|].
      unfold step; cbv zeta. rewrite Hw, Nat.eqb_refl. unfold has_entry. rewrite Hm. reflexivity.
  - exists (LLoad1 i (active (pss s e))). eexists. split; [reflexivity|].
    unfold step; cbv zeta. rewrite Hw. cbn [chk]. rewrite eqb_reflx. reflexivity.
  - exists (LCheck i (negb (ongoing (pss s e)) && inited (pss s e))). eexists. split; [reflexivity|].
    unfold step; cbv zeta. rewrite Hw, eqb_reflx. reflexivity.
  - destruct notified; [|contradiction]. exists (LWake i). eexists. split; [reflexivity|].
    unfold step. rewrite Hw. reflexivity.
  - exists (LLoad2 i (active (pss s e))). eexists. split; [reflexivity|].
    unfold step; cbv zeta. rewrite Hw. cbn [chk]. rewrite eqb_reflx. reflexivity.
  - exists (LErr i (err_result (pss s e))). exists (set_w s i (ADone (err_result (pss s e)))).
    split; [reflexivity|].
    unfold step; cbv zeta. rewrite Hw. cbn [chk]. rewrite wres_eqb_refl.
    unfold err_result. destruct (cerr (pss s e)); reflexivity.
  - exists (LContains i (has_entry s)). eexists. split; [reflexivity|].
    unfold step; cbv zeta. rewrite Hw. cbn [chk]. rewrite eqb_reflx. reflexivity.
  - (* CContained *) destruct (pmap s) as [e|] eqn:Hm.
    + exists (LEnsure i false e). eexists. split; [reflexivity|].
      unfold step; cbv zeta. rewrite Hw. unfold in_map. rewrite Hm, Nat.eqb_refl.
      pose proof (inv_map _ I e Hm) as He. apply Nat.ltb_lt in He. rewrite He. reflexivity.
    + exists (LEnsure i true (nps s)). eexists. split; [reflexivity|].
      unfold step; cbv zeta. rewrite Hw, Nat.eqb_refl. unfold has_entry. rewrite Hm. reflexivity.
Qed.

(** * after the manager is dropped *)
Lemma alive_false s :
  alive s = false <-> udrop s = true /\ forall e, e < nps s -> holds (wc (pss s e)) = false.
Proof.
  unfold alive. rewrite orb_false_iff, negb_false_iff. split; intros [Hu Hh]; split; auto.
  - intros e He. destruct (holds (wc (pss s e))) eqn:Hc; [|reflexivity].
    assert (existsb (fun e => holds (wc (pss s e))) (seq 0 (nps s)) = true).
    { apply existsb_exists. exists e. split; [apply in_seq; lia|exact Hc]. }
    congruence.
  - destruct (existsb _ _) eqn:Hx; [|reflexivity].
    apply existsb_exists in Hx as (e & Hin & Hc). apply in_seq in Hin. rewrite Hh in Hc by lia.
    discriminate.
Qed.

Definition is_worker_of (e : nat) (l : label) : bool :=
  match worker_of l with Some e' => Nat.eqb e' e | None => false end.

(** once the manager is gone no step revives it, no worker is spawned, and every step of a
    worker brings it strictly closer to [WExited] *)
Lemma dead_step s l s' :
  Inv s -> alive s = false -> step true l s = Some s' ->
  alive s' = false /\ nps s' = nps s /\
  forall e, e < nps s ->
    if is_worker_of e l then xdist (wc (pss s' e)) < xdist (wc (pss s e))
    else wc (pss s' e) = wc (pss s e).
Proof.
  intros I Hd H. pose proof (proj1 (alive_false s) Hd) as [Hu Hh].
  pose proof (inv_drop _ I Hu) as Hidle.
  assert (Hgoal : udrop s' = true /\ nps s' = nps s /\
                  (forall e, e < nps s -> holds (wc (pss s' e)) = false) /\
                  forall e, e < nps s ->
                    if is_worker_of e l then xdist (wc (pss s' e)) < xdist (wc (pss s e))
                    else wc (pss s' e) = wc (pss s e)).
  { destruct l; unfold is_worker_of; cbn [worker_of];
      step_inv H; cbn [udrop nps pss wts set_w set_p set_wts remove_entry] in *; bool_hyps;
      try congruence;
      try (match goal with Hw : wts _ ?i = _ |- _ =>
             specialize (Hidle i); rewrite Hw in Hidle; discriminate Hidle end);
      try (match goal with Hw : wc (pss _ ?e) = _, Hlt : ?e < nps _ |- _ =>
             specialize (Hh e Hlt); rewrite Hw in Hh; discriminate Hh end);
      try (refine (conj Hu (conj eq_refl (conj Hh _))); intros; reflexivity).
    all: refine (conj Hu (conj eq_refl (conj _ _))); intros e' He'; unfold upd;
      destruct (Nat.eqb_spec e' e); try subst e'; auto;
      try (destruct (Nat.eqb_spec e e'); [congruence|auto]);
      try rewrite Nat.eqb_refl; unfold set_wc; cbn;
      try (match goal with Hw : wc (pss _ ?e) = _ |- _ => rewrite Hw end); cbn; try lia; auto.
    }
  destruct Hgoal as (Hu' & Hn & Hh' & Hx). split; [|split; auto].
  apply alive_false. split; [exact Hu'|]. rewrite Hn. exact Hh'.
Qed.

Lemma dead_worker_enabled s e :
  Inv s -> alive s = false -> e < nps s -> wc (pss s e) <> WExited ->
  exists l s', is_worker_of e l = true /\ step true l s = Some s'.
Proof.
  intros I Hd He Hne. pose proof (proj1 (alive_false s) Hd) as [Hu Hh].
  specialize (Hh e He). pose proof (Inv_no_bug _ _ I He) as Hnb.
  apply Nat.ltb_lt in He. unfold is_worker_of.
  destruct (wc (pss s e)) eqn:Hw; try discriminate Hh; try congruence.
  - exists (LQuit e XMgrDropped). eexists. split; [cbn; apply Nat.eqb_refl|].
    unfold step; cbv zeta. rewrite He, Hw, Hd. reflexivity.
  - exists (LQuit e XMgrDropped). eexists. split; [cbn; apply Nat.eqb_refl|].
    unfold step; cbv zeta. rewrite He, Hw, Hd. reflexivity.
  - exists (LExitSkip e). eexists. split; [cbn; apply Nat.eqb_refl|].
    unfold step; cbv zeta. rewrite He, Hw, Hd. reflexivity.
  - exists (LExitBlock e). eexists. split; [cbn; apply Nat.eqb_refl|].
    unfold step; cbv zeta. rewrite He, Hw. reflexivity.
  - exists (LExitClear e). eexists. split; [cbn; apply Nat.eqb_refl|].
    unfold step; cbv zeta. rewrite He, Hw. reflexivity.
Qed.

Lemma ps_ok_exited p : ps_ok p = true -> wc p = WExited -> HandleDead p.
Proof.
  unfold ps_ok, HandleDead. intros H Hw. rewrite Hw in H.
  repeat match goal with H : _ && _ = true |- _ => apply andb_prop in H; destruct H end.
  repeat match goal with H : negb _ = true |- _ => apply negb_true_iff in H end.
  repeat split; auto.
  destruct (cerr p) as [[| |x]|]; try discriminate. eauto.
Qed.

Lemma after_drop_run tr : forall s s' e,
  Inv s -> alive s = false -> run true tr s = Some s' -> e < nps s ->
  xdist (wc (pss s e)) <= count_l (is_worker_of e) tr ->
  alive s' = false /\ nps s' = nps s /\ wc (pss s' e) = WExited /\ HandleDead (pss s' e).
Proof.
  induction tr as [|l tr IH]; intros s s' e I Hd H He Hx.
  - cbn in H. injection H as <-. cbn in Hx.
    pose proof (proj1 (alive_false s) Hd) as [Hu Hh]. specialize (Hh e He).
    pose proof (Inv_no_bug _ _ I He) as Hnb.
    assert (Hw : wc (pss s e) = WExited).
    { destruct (wc (pss s e)); cbn in *; try lia; try discriminate; congruence. }
    refine (conj Hd (conj eq_refl (conj Hw _))).
    apply ps_ok_exited; [apply (inv_ps _ I); exact He|exact Hw].
  - cbn in H. destruct (step true l s) as [s1|] eqn:Hs; [|discriminate].
    destruct (dead_step _ _ _ I Hd Hs) as (Hd1 & Hn1 & Hk). specialize (Hk e He).
    pose proof (Inv_step _ _ _ I Hs) as I1.
    unfold count_l in Hx. cbn [filter] in Hx.
    destruct (IH s1 s' e I1 Hd1 H ltac:(lia)) as (A & B & C & D).
    + destruct (is_worker_of e l); [cbn [length] in Hx; unfold count_l; lia|].
      rewrite Hk. exact Hx.
    + refine (conj A (conj _ (conj C D))). congruence.
Qed.

Lemma run_reach n tr : forall s s', reach n s -> run true tr s = Some s' -> reach n s'.
Proof.
  induction tr as [|l tr IH]; cbn; intros s s' R H.
  - now injection H as <-.
  - destruct (step true l s) as [s1|] eqn:Hs; [|discriminate]. eapply IH; [|exact H].
    econstructor; eauto.
Qed.

(** when no worker has a notifying block ahead (all sleeping, between lookups, or gone) nobody
    is waiting for a notification *)
Lemma quiescent_nobody_waits s :
  Inv s -> (forall e, e < nps s -> notify_ahead (wc (pss s e)) = false) ->
  forall i e, wts s i <> AReg e false.
Proof.
  intros I Hq i e Hw. destruct (Inv_no_lost_wakeup _ I i e Hw) as [He Ha].
  rewrite (Hq e He) in Ha. discriminate.
Qed.

Lemma chk_relax b : chk true b = true -> chk false b = true.
Proof. reflexivity. Qed.

(** the relaxed semantics (used for multi-thread traces) accepts every strict trace *)
Lemma strict_step_relaxed l s s' : step true l s = Some s' -> step false l s = Some s'.
Proof.
  destruct l; unfold step, chk; cbv zeta; intros H;
    repeat match type of H with
           | context [match ?x with _ => _ end] =>
             let E := fresh "E" in destruct x eqn:E; try discriminate H
           end;
    bool_hyps;
    repeat match goal with
           | E : ?x = _ |- context [?x] =>
             lazymatch x with true => fail | false => fail | _ => rewrite E end
           end; cbn [andb orb negb]; try rewrite ?andb_true_r;
    repeat match goal with
           | E : (?a <? ?b) = true |- _ => fail 1
           | E : ?a < ?b |- context [?a <? ?b] => rewrite (proj2 (Nat.ltb_lt a b) E)
           end;
    try rewrite Nat.eqb_refl; cbn [andb orb negb]; try exact H; try reflexivity.
  - destruct (wc (pss s e)); try discriminate H0; reflexivity.
  - destruct (wc (pss s e)); try discriminate H0; destruct r; try discriminate; try discriminate H0; reflexivity.
Qed.

(** * from woken to released: at most three steps of the caller itself *)
Definition cdist (w : wst) : nat :=
  match w with AReg _ true => 3 | AAwaited _ => 2 | ALoaded2 _ => 1 | _ => 0 end.
Definition is_caller (i : nat) (l : label) : bool :=
  match caller_of l with Some j => Nat.eqb j i | None => false end.

Lemma done_step s l s' i r :
  step true l s = Some s' -> wts s i = ADone r -> exists r', wts s' i = ADone r'.
Proof.
  intros H Hd.
  destruct l; step_inv H; cbn [wts set_w set_p set_wts remove_entry] in *; bool_hyps; eauto;
    try (unfold notify; rewrite Hd; eauto);
    unfold upd; destruct (Nat.eqb_spec i i0); try subst i0; eauto; try congruence.
Qed.

Lemma done_run tr : forall s s' i r,
  run true tr s = Some s' -> wts s i = ADone r -> exists r', wts s' i = ADone r'.
Proof.
  induction tr as [|l tr IH]; cbn; intros s s' i r H Hd.
  - injection H as <-. eauto.
  - destruct (step true l s) as [s1|] eqn:Hs; [|discriminate].
    destruct (done_step _ _ _ _ _ Hs Hd) as [r1 Hd1]. eauto.
Qed.

Lemma caller_step s l s' i :
  step true l s = Some s' -> passed (wts s i) = true ->
  if is_caller i l
  then cdist (wts s' i) < cdist (wts s i) \/ exists r, wts s i = ADone r
  else wts s' i = wts s i.
Proof.
  intros H Hp.
  destruct l; unfold is_caller; cbn [caller_of];
    step_inv H; cbn [wts set_w set_p set_wts remove_entry] in *; bool_hyps;
    try reflexivity;
    try (unfold notify; destruct (wts s i) as [| | | |e' [|]| | | | |]; try discriminate Hp; reflexivity);
    unfold upd; destruct (Nat.eqb_spec i0 i); try subst i0;
    try (destruct (Nat.eqb_spec i i0); [congruence|]); try rewrite Nat.eqb_refl; try reflexivity;
    try (right; eexists; eassumption);
    left;
    try (match goal with Hw : wts _ i = _ |- _ => rewrite Hw in *; try discriminate Hp end);
    try (destruct got); cbn; try lia; try reflexivity.
  destruct notified; [lia|discriminate Hp].
Qed.

Lemma released_within_run tr : forall s s' i,
  run true tr s = Some s' -> passed (wts s i) = true ->
  cdist (wts s i) <= count_l (is_caller i) tr -> exists r, wts s' i = ADone r.
Proof.
  induction tr as [|l tr IH]; intros s s' i H Hp Hc.
  - cbn in H. injection H as <-. cbn in Hc.
    destruct (wts s i) as [| | | |e [|]| | | | |r]; try discriminate Hp; cbn in Hc; try lia. eauto.
  - cbn in H. destruct (step true l s) as [s1|] eqn:Hs; [|discriminate].
    pose proof (caller_step _ _ _ i Hs Hp) as Hk. pose proof (passed_step _ _ _ i Hs Hp) as Hp1.
    unfold count_l in Hc. cbn [filter] in Hc.
    destruct (is_caller i l).
    + destruct Hk as [Hk|[r Hr]].
      * apply (IH s1 s' i H Hp1). unfold count_l. cbn [length] in Hc. lia.
      * destruct (done_step _ _ _ _ _ Hs Hr) as [r1 Hr1]. eapply done_run; eauto.
    + apply (IH s1 s' i H Hp1). unfold count_l. rewrite Hk. exact Hc.
Qed.

(** example runs used for the non-vacuity examples of [Props] *)
Definition ex_prefix : list label :=
  [LPeek 0 KPath false; LEnsure 0 true 0; LLoad1 0 false; LCheck 0 false;
   LPeek 1 KPath false; LEnsure 1 false 0; LBegin 0; LLoad1 1 false; LCheck 1 false;
   LPeek 2 KPath false; LEnsure 2 false 0; LLoad1 2 false; LCheck 2 false].
Definition ex_suffix : list label :=
  [LFetched 0 FOk; LSetErr 0; LSlot 0 true; LComplete 0; LWake 1; LLoad2 1 true].
Definition ex_drop_prefix : list label :=
  [LPeek 0 KCached false; LContains 0 false; LEnsure 0 true 0; LBegin 0; LFetched 0 FEmpty; LSetErr 0;
   LComplete 0; LRelease 0; LStop; LPeek 1 KCached false; LContains 1 false; LEnsure 1 true 1; LDrop].
Definition ex_drop_suffix : list label :=
  [LQuit 1 XMgrDropped; LQuit 0 XCancelled; LExitSkip 0; LExitSkip 1; LExitBlock 0; LExitBlock 1;
   LExitClear 1; LExitClear 0].

Lemma cdist_le3 w : cdist w <= 3.
Proof. destruct w as [| | | |e [|]| | | | |]; cbn; lia. Qed.

(** the two halves together: registered and un-notified now, released after the worker's
    [wdist] steps and three steps of its own *)
Lemma waiter_released_run s tr1 s1 tr2 s2 i e :
  Inv s -> wts s i = AReg e false ->
  run true tr1 s = Some s1 -> wdist (wc (pss s e)) <= count_l (progress_of e) tr1 ->
  run true tr2 s1 = Some s2 -> 3 <= count_l (is_caller i) tr2 ->
  exists r, wts s2 i = ADone r.
Proof.
  intros I Hw H1 Hd H2 Hc.
  pose proof (wake_within_run tr1 s s1 i e I H1 Hw Hd) as Hp.
  apply (released_within_run tr2 s1 s2 i H2 Hp). pose proof (cdist_le3 (wts s1 i)). lia.
Qed.
