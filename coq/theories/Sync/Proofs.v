(** C20 -- lemmas: the invariant of the protocol model and its consequences. *)
From Coq Require Import List Bool Arith Lia.
From Sci Require Import Sync.Model Sync.Spec.
Import ListNotations.

(** * basic facts *)
Lemma upd_same {A} (f : nat -> A) i x : upd f i x i = x.
Proof. unfold upd. now rewrite Nat.eqb_refl. Qed.
Lemma upd_other {A} (f : nat -> A) i j x : j <> i -> upd f i x j = f j.
Proof. unfold upd. intros H. destruct (Nat.eqb_spec j i); congruence. Qed.

Lemma chk_true b : chk true b = b.
Proof. reflexivity. Qed.

(** * per-path-set invariant, as a boolean *)
Definition perr_is_exit (o : option perr) : bool :=
  match o with Some (EExit _) => true | _ => false end.
Definition perr_is_internal (o : option perr) : bool :=
  match o with Some EInternal => true | _ => false end.

Definition ps_ok (p : pset) : bool :=
  (negb (active p) || g_ok p) &&
  (negb (perr_is_internal (cerr p)) || g_err p) &&
  match wc p with
  | WInit => negb (ongoing p) && negb (inited p) && negb (perr_is_exit (cerr p))
  | WFetched FErr => ongoing p && negb (perr_is_exit (cerr p)) && g_err p
  | WFetching | WFetched _ | WErrSet => ongoing p && negb (perr_is_exit (cerr p))
  | WCompleted | WSleeping => negb (ongoing p) && inited p && negb (perr_is_exit (cerr p))
  | WExiting _ | WExit2 _ => negb (ongoing p) && negb (perr_is_exit (cerr p))
  | WExit3 => negb (ongoing p) && inited p && perr_is_exit (cerr p)
  | WExited => negb (ongoing p) && inited p && perr_is_exit (cerr p) && negb (active p)
  | WBug => false
  end.

Definition handle_of (w : wst) : option nat :=
  match w with
  | AHandle e | ALoaded e | AReg e _ | AAwaited e | ALoaded2 e => Some e
  | _ => None
  end.

Record Inv (s : state) : Prop := mkInv {
  inv_ps : forall e, e < nps s -> ps_ok (pss s e) = true;
  inv_map : forall e, pmap s = Some e -> e < nps s;
  inv_h : forall i e, handle_of (wts s i) = Some e -> e < nps s;
  inv_reg : forall i e, wts s i = AReg e false ->
                        ongoing (pss s e) = true \/ inited (pss s e) = false;
  inv_drop : udrop s = true -> forall i, idle_w (wts s i) = true;
  inv_nw : forall i, nw s <= i -> wts s i = AStart;
  inv_count : nps s = nrem s + (if has_entry s then 1 else 0);
  inv_res : forall i r, wts s i = ADone r -> ResultJustified s r }.

Lemma Inv_init n : Inv (init n).
Proof.
  constructor; cbn; intros; try lia; try discriminate; auto.
Qed.

(** * tactics *)
Ltac step_inv H :=
  unfold step in H; cbv zeta in H;
  repeat match type of H with
         | context [match ?x with _ => _ end] => destruct x eqn:?; try discriminate H
         end;
  try (injection H as <-);
  repeat match goal with
         | H' : context [match wc ?p with _ => _ end] |- _ =>
           destruct (wc p) eqn:?; try discriminate H'
         | H' : context [match wts ?s ?i with _ => _ end] |- _ =>
           destruct (wts s i) eqn:?; try discriminate H'
         | H' : match ?r with XMgrDropped => _ | _ => _ end = true |- _ =>
           destruct r; try discriminate H'
         | H' : Some _ = Some ?w |- _ => is_var w; injection H' as <-
         end.

Ltac bool_hyps :=
  repeat match goal with
         | H : _ && _ = true |- _ => apply andb_prop in H; destruct H
         | H : chk true _ = true |- _ => rewrite chk_true in H
         | H : (_ <? _) = true |- _ => apply Nat.ltb_lt in H
         | H : (_ =? _) = true |- _ => apply Nat.eqb_eq in H; subst
         | H : negb _ = true |- _ => apply negb_true_iff in H
         | H : eqb _ _ = true |- _ => apply eqb_prop in H
         end.

Ltac upd_cases :=
  repeat match goal with
         | |- context [upd _ ?i _ ?j] =>
           destruct (Nat.eq_dec j i);
           [subst; rewrite !upd_same | rewrite !(upd_other _ i j) by assumption]
         | H : context [upd _ ?i _ ?j] |- _ =>
           destruct (Nat.eq_dec j i);
           [subst; rewrite !upd_same in H | rewrite !(upd_other _ i j) in H by assumption]
         end.

(** * monotonicity of the ghost facts used by [ResultJustified] *)
Definition ps_le (p q : pset) : Prop :=
  (g_ok p = true -> g_ok q = true) /\ (g_err p = true -> g_err q = true) /\
  (forall x, cerr p = Some (EExit x) -> (wc p = WExit3 \/ wc p = WExited) ->
             cerr q = Some (EExit x) /\ (wc q = WExit3 \/ wc q = WExited)).

Lemma ps_le_refl p : ps_le p p.
Proof. repeat split; auto. Qed.

Lemma step_mono s l s' :
  step true l s = Some s' ->
  nps s <= nps s' /\ forall e, e < nps s -> ps_le (pss s e) (pss s' e).
Proof.
  intros H. destruct l; step_inv H; cbn [pss nps set_w set_p set_wts remove_entry];
    (split; [lia|]); intros e' He'; try apply ps_le_refl;
    bool_hyps; unfold upd;
    match goal with
    | |- context [e' =? ?x] => destruct (Nat.eqb_spec e' x); [subst|apply ps_le_refl]
    end; try lia;
    unfold ps_le, set_wc; cbn;
    (split; [|split]);
    try tauto; try (intros; apply orb_true_iff; tauto);
    intros xx Hx [Hc|Hc]; try congruence; try (rewrite Hc in *; discriminate);
    (split; [exact Hx|tauto]).
Qed.

Lemma RJ_mono s l s' r :
  step true l s = Some s' -> ResultJustified s r -> ResultJustified s' r.
Proof.
  intros H HR. destruct (step_mono _ _ _ H) as [Hn Hm].
  destruct r as [| |[| |x]]; cbn in *; auto.
  - destruct HR as (e & He & Hg). exists e. split; [lia|]. now apply (Hm e He).
  - destruct HR as (e & He & Hg). exists e. split; [lia|]. now apply (Hm e He).
  - destruct HR as (e & He & Hc & Hw). exists e. split; [lia|].
    now apply (proj2 (proj2 (Hm e He)) x Hc Hw).
Qed.

(** * preservation of the invariant *)
Lemma ps_ok_new : ps_ok new_ps = true.
Proof. reflexivity. Qed.

Ltac ps_crunch :=
  match goal with
  | Hps : ps_ok ?p = true |- _ =>
    let Hp := fresh "Hp" in
    remember p as pp eqn:Hp in *; clear Hp;
    destruct pp as [o i c a w gk ge]; unfold ps_ok, set_wc in *; cbn in *; subst;
    repeat match goal with
           | r : fres |- _ => destruct r
           | b : bool |- _ => destruct b
           | c : option perr |- _ => destruct c as [[| |[]]|]
           end;
    cbn in *; try discriminate; try reflexivity
  end.

Ltac eqb_cases :=
  repeat match goal with
         | |- context [?a =? ?b] => destruct (Nat.eqb_spec a b); [subst|]
         end.

Lemma step_ps s l s' :
  Inv s -> step true l s = Some s' -> forall e, e < nps s' -> ps_ok (pss s' e) = true.
Proof.
  intros I H. pose proof (inv_ps _ I) as Hps.
  destruct l; step_inv H; cbn [pss nps set_w set_p set_wts remove_entry] in *;
    intros e' He'; bool_hyps; auto; unfold upd; eqb_cases;
    try (apply Hps; lia); try apply ps_ok_new.
  all: try (match goal with |- context [pss _ ?e] => specialize (Hps e ltac:(assumption)) end; ps_crunch).
Qed.

Lemma step_map s l s' :
  Inv s -> step true l s = Some s' -> forall e, pmap s' = Some e -> e < nps s'.
Proof.
  intros I H. pose proof (inv_map _ I) as Hm.
  destruct l; step_inv H; cbn [pmap nps set_w set_p set_wts remove_entry] in *;
    intros e' He'; bool_hyps; auto; try discriminate.
  all: try (injection He' as <-; lia).
Qed.

Lemma notify_handle e w i : handle_of (notify e w i) = handle_of (w i).
Proof.
  unfold notify. destruct (w i) as [| | | |e' [|]| | | | |]; try reflexivity.
  destruct (e' =? e); reflexivity.
Qed.

Lemma step_h s l s' :
  Inv s -> step true l s = Some s' -> forall i e, handle_of (wts s' i) = Some e -> e < nps s'.
Proof.
  intros I H. pose proof (inv_h _ I) as Hh.
  destruct l; step_inv H; cbn [wts nps set_w set_p set_wts remove_entry] in *;
    intros i' e' He'; bool_hyps; try (rewrite notify_handle in He'); eauto;
    unfold upd in He';
    try (destruct (Nat.eqb_spec i' i); [subst i'|]); eauto; cbn in He';
    try (destruct got; cbn in He'; try discriminate);
    try (destruct ret; cbn in He'; try discriminate);
    try (injection He' as <-); try discriminate; try lia;
    try (match goal with Hw : wts s ?i = _ |- _ => apply (Hh i); rewrite Hw; reflexivity end).
  all: try (apply Hh in He'; lia).
Qed.

Lemma notify_reg e w i e0 : notify e w i = AReg e0 false -> w i = AReg e0 false /\ e0 <> e.
Proof.
  unfold notify. destruct (w i) as [| | | |e' [|]| | | | |]; try discriminate; intros H.
  destruct (Nat.eqb_spec e' e); [discriminate H|]. injection H as <-. auto.
Qed.

Lemma step_reg s l s' :
  Inv s -> step true l s = Some s' ->
  forall i e, wts s' i = AReg e false -> ongoing (pss s' e) = true \/ inited (pss s' e) = false.
Proof.
  intros I H. pose proof (inv_reg _ I) as Hr.
  destruct l; step_inv H; cbn [wts pss nps set_w set_p set_wts remove_entry] in *;
    intros i' e' He'; bool_hyps;
    try (apply notify_reg in He'; destruct He' as [He' Hne]);
    unfold upd in *;
    try (destruct (Nat.eqb_spec i' i); [subst i'|]);
    try (destruct got; try discriminate He');
    try (destruct ret; try discriminate He');
    try discriminate He';
    try (destruct (Nat.eqb_spec e' e); [subst e'|]); cbn; eauto; try congruence.
  - destruct (Nat.eqb_spec e' (nps s)); cbn; eauto.
  - destruct (Nat.eqb_spec e' (nps s)); cbn; eauto.
  - destruct (ongoing (pss s e)), (inited (pss s e)); cbn in *; auto; discriminate.
Qed.

Lemma notify_idle e w i : idle_w (notify e w i) = idle_w (w i).
Proof.
  unfold notify. destruct (w i) as [| | | |e' [|]| | | | |]; try reflexivity.
  destruct (e' =? e); reflexivity.
Qed.

Lemma step_nw s l s' :
  Inv s -> step true l s = Some s' -> nw s' = nw s /\ forall i, nw s <= i -> wts s' i = AStart.
Proof.
  intros I H. pose proof (inv_nw _ I) as Hn.
  destruct l; step_inv H; cbn [wts nw set_w set_p set_wts remove_entry] in *;
    (split; [reflexivity|]); intros i' Hi'; bool_hyps; auto; unfold upd;
    try (destruct (Nat.eqb_spec i' i); [subst i'|]); auto;
    try (rewrite (Hn _ Hi') in *; discriminate); try lia.
  all: unfold notify; rewrite (Hn _ Hi'); reflexivity.
Qed.

Lemma step_drop s l s' :
  Inv s -> step true l s = Some s' -> udrop s' = true -> forall i, idle_w (wts s' i) = true.
Proof.
  intros I H. pose proof (inv_drop _ I) as Hd. pose proof (inv_nw _ I) as Hn.
  destruct l; step_inv H; cbn [wts udrop set_w set_p set_wts remove_entry] in *;
    intros Hu i'; bool_hyps; try rewrite notify_idle; auto; try congruence;
    try (match goal with Hw : wts s ?i = _ |- _ =>
           specialize (Hd Hu i); rewrite Hw in Hd; discriminate Hd end).
  destruct (Nat.lt_ge_cases i' (nw s)) as [Hlt|Hge].
  - rewrite forallb_forall in H0. apply H0, in_seq. lia.
  - now rewrite (Hn _ Hge).
Qed.

Lemma step_count s l s' :
  Inv s -> step true l s = Some s' -> nps s' = nrem s' + (if has_entry s' then 1 else 0).
Proof.
  intros I H. pose proof (inv_count _ I) as Hc.
  destruct l; step_inv H; unfold has_entry in *;
    cbn [pmap nps nrem set_w set_p set_wts remove_entry] in *; bool_hyps; auto;
    destruct (pmap s); try discriminate; lia.
Qed.



Lemma wres_eqb_eq a b : wres_eqb a b = true -> a = b.
Proof.
  destruct a as [| |[| |[]]], b as [| |[| |[]]]; cbn; intros; try discriminate; reflexivity.
Qed.

Lemma ps_ok_active p : ps_ok p = true -> active p = true -> g_ok p = true.
Proof.
  unfold ps_ok. intros H Ha. rewrite Ha in H. cbn in H.
  apply andb_prop in H as [H _]. apply andb_prop in H as [H _]. exact H.
Qed.
Lemma ps_ok_internal p : ps_ok p = true -> cerr p = Some EInternal -> g_err p = true.
Proof.
  unfold ps_ok. intros H Ha. rewrite Ha in H. cbn in H.
  apply andb_prop in H as [H _]. apply andb_prop in H as [_ H]. exact H.
Qed.
Lemma ps_ok_exit p x :
  ps_ok p = true -> cerr p = Some (EExit x) -> wc p = WExit3 \/ wc p = WExited.
Proof.
  unfold ps_ok. intros H Ha. rewrite Ha in H. cbn in H.
  apply andb_prop in H as [_ H].
  destruct (wc p) as [| |[]| | | | | | | |]; auto;
    repeat (apply andb_prop in H; destruct H as [H ?]); try discriminate;
    repeat match goal with H : _ && _ = true |- _ => apply andb_prop in H; destruct H end;
    discriminate.
Qed.

Lemma step_res s l s' :
  Inv s -> step true l s = Some s' -> forall i r, wts s' i = ADone r -> ResultJustified s' r.
Proof.
  intros I H i' r' Hd.
  assert (Hpre : wts s i' = ADone r' \/ ResultJustified s r').
  { pose proof (inv_ps _ I) as Hps. pose proof (inv_map _ I) as Hm. pose proof (inv_h _ I) as Hh.
    clear - H Hd Hps Hm Hh.
    destruct l; step_inv H; cbn [wts set_w set_p set_wts remove_entry] in *; bool_hyps; auto;
      try (left; revert Hd; unfold notify; destruct (wts s i') as [| | | |e' [|]| | | | |];
           try (destruct (e' =? e)); intros Hd; try discriminate Hd; exact Hd);
      unfold upd in Hd;
      (destruct (Nat.eqb_spec i' i); [subst i'|now left]); right;
      try (destruct got; try discriminate Hd);
      try (destruct ret; try discriminate Hd);
      try discriminate Hd; injection Hd as <-; cbn; auto.
    all: try (match goal with Hw : wts ?s ?i = _ ?e |- exists _, _ /\ g_ok _ = true =>
                assert (He : e < nps s) by (apply (Hh i); rewrite Hw; reflexivity);
                exists e; split; [exact He|apply ps_ok_active; auto] end).
    - unfold slot_at in *. destruct (pmap s) as [e|] eqn:Hpm; [|discriminate].
      exists e. split; [auto|apply ps_ok_active; auto].
    - unfold slot_at in *. destruct (pmap s) as [e|] eqn:Hpm; [|discriminate].
      exists e. split; [auto|apply ps_ok_active; auto].
    - assert (He : e < nps s) by (apply (Hh i); rewrite Heqw; reflexivity).
      apply wres_eqb_eq in H0. subst r. unfold err_result.
      destruct (cerr (pss s e)) as [[| |x]|] eqn:Hc; cbn; auto.
      + exists e. split; [exact He|]. apply ps_ok_internal; auto.
      + exists e. split; [exact He|]. split; [exact Hc|]. eapply ps_ok_exit; eauto. }
  destruct Hpre as [Hpre|Hpre]; [apply (inv_res _ I) in Hpre|]; eapply RJ_mono; eauto.
Qed.
