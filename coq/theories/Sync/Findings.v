(** C20 -- witnesses computed on the model ([vm_compute]).  None of them contradicts the
    property sentence (every caller is released, one spawn per vacant->occupied transition,
    workers terminate once the manager is gone): they delimit what the theorems of [Props] do
    and do not say, and each was also observed on the real code by the harness (see the
    distribution counters [removed.by_worker] / [quit.cancelled] of a run).  They are recorded
    as observations, not as known findings. *)
From Coq Require Import List Bool Arith.
From Sci Require Import Sync.Model Sync.Spec.
Import ListNotations.

Definition final (n : nat) (tr : list label) : option state := run true tr (init n).
Definition wc_at (o : option state) (e : nat) : option wctl :=
  match o with Some s => Some (wc (pss s e)) | None => None end.

(** (1) The exit sequence of a worker removes WHATEVER entry the pair has, not its own
    (manage(): mgr.stop_managing_paths(self.src, self.dst)).  After stop_managing_paths + a new
    request, the stale worker's exit unregisters its successor; the successor keeps running
    unregistered (or is cancelled once scc drops the removed entry), the next request spawns a
    third worker and a fresh lookup, and so on.  Callers are still released (here caller 1 gets
    its path).  On the real code the stale worker usually leaves by its idle timeout, because
    stop_managing_paths does not cancel it promptly (the removed map entry, which owns the
    cancel token, is dropped later by scc): harness scenario stale-exit-removes-successor. *)
Definition tr_stale_exit : list label :=
  [LPeek 0 KPath false; LEnsure 0 true 0; LLoad1 0 false; LCheck 0 false; LBegin 0;
   LFetched 0 FOk; LSetErr 0; LSlot 0 true; LComplete 0; LRelease 0; LWake 0; LLoad2 0 true;
   LStop;
   LPeek 1 KPath false; LEnsure 1 true 1; LLoad1 1 false; LCheck 1 false;
   LQuit 0 XCancelled; LExitRemove 0;          (* removes the entry of worker 1 *)
   LExitBlock 0; LExitClear 0;
   LBegin 1; LFetched 1 FOk; LSetErr 1; LSlot 1 true; LComplete 1; LRelease 1; LWake 1; LLoad2 1 true;
   LQuit 1 XCancelled].
Lemma stale_exit_removes_successor :
  match final 2 tr_stale_exit with
  | Some s => pmap s = None /\ nps s = 2 /\ nrem s = 2 /\
              wts s 1 = ADone RPath /\ wc (pss s 1) = WExiting XCancelled
  | None => False
  end.
Proof. vm_compute. repeat split. Qed.

(** (2) After stop_managing_paths the old worker keeps running until it reaches select! (its
    lookup is not cancellable) -- two workers of the same pair are alive at once; the map still
    holds at most one. *)
Definition tr_two_live : list label :=
  [LPeek 0 KPath false; LEnsure 0 true 0; LBegin 0; LStop;
   LPeek 1 KPath false; LEnsure 1 true 1; LBegin 1].
Lemma two_live_workers_one_entry :
  match final 2 tr_two_live with
  | Some s => wc (pss s 0) = WFetching /\ wc (pss s 1) = WFetching /\ pmap s = Some 1
  | None => False
  end.
Proof. vm_compute. repeat split. Qed.

(** (3) Why "drop" is [alive s = false] in the theorem: a worker holds a strong reference to the
    manager while it fetches, so after the user dropped every clone the manager lives until no
    lookup is in flight.  With two workers whose lookups keep overlapping the state repeats:
    after this cycle the two workers have exchanged roles, the user's clones are gone, the
    manager is alive. *)
Definition tr_overlap_prefix : list label :=
  [LPeek 0 KCached false; LContains 0 false; LEnsure 0 true 0; LBegin 0;
   LFetched 0 FOk; LSetErr 0; LComplete 0; LRelease 0;
   LStop;
   LPeek 1 KCached false; LContains 1 false; LEnsure 1 true 1; LBegin 1;
   LDrop].
Definition tr_overlap_cycle : list label :=
  [LBegin 0;                                             (* worker 0 refetches: worker 1 keeps the manager alive *)
   LFetched 1 FOk; LSetErr 1; LComplete 1; LRelease 1;   (* now worker 0 keeps it alive *)
   LBegin 1;
   LFetched 0 FOk; LSetErr 0; LComplete 0; LRelease 0].
Lemma overlapping_lookups_keep_manager_alive :
  match final 2 tr_overlap_prefix with
  | Some s =>
    udrop s = true /\ alive s = true /\
    match run true tr_overlap_cycle s with
    | Some s' => udrop s' = true /\ alive s' = true /\
                 wc (pss s' 0) = wc (pss s 0) /\ wc (pss s' 1) = wc (pss s 1)
    | None => False
    end
  | None => False
  end.
Proof. vm_compute. repeat split. Qed.

(** (4) The handshake needs the Notified future to be created INSIDE the locked block: a
    variant semantics in which the caller tests the flags in the locked block but creates the
    future in a later step loses the wake-up.  (The code does it right; this shows the
    invariant is not vacuous.)  In the variant the caller below would be [AReg 0 false] with
    worker 0 in [WSleeping]; in the model the same schedule is REFUSED: the completion block
    cannot run between the test and the creation of the future. *)
Definition tr_check_then_complete : list label :=
  [LPeek 0 KPath false; LEnsure 0 true 0; LLoad1 0 false; LBegin 0; LFetched 0 FErr; LSetErr 0;
   LCheck 0 false; LComplete 0; LRelease 0].
Lemma registered_before_completion_is_notified :
  match final 1 tr_check_then_complete with
  | Some s => wts s 0 = AReg 0 true /\ wc (pss s 0) = WSleeping
  | None => False
  end.
Proof. vm_compute. repeat split. Qed.
Lemma check_after_completion_returns_at_once :
  final 1 [LPeek 0 KPath false; LEnsure 0 true 0; LLoad1 0 false; LBegin 0; LFetched 0 FErr; LSetErr 0;
           LComplete 0; LCheck 0 false] = None /\
  match final 1 [LPeek 0 KPath false; LEnsure 0 true 0; LLoad1 0 false; LBegin 0; LFetched 0 FErr; LSetErr 0;
                 LComplete 0; LCheck 0 true; LLoad2 0 false; LErr 0 (RErr EInternal)] with
  | Some s => wts s 0 = ADone (RErr EInternal)
  | None => False
  end.
Proof. vm_compute. repeat split. Qed.

(** (5) A caller that obtained a handle just before the worker exits is released with the
    worker's exit error ("PathSet task exited: idle") although a fresh lookup would have been
    possible: path-or-error holds, the error is the exit error. *)
Lemma caller_sees_exit_error :
  match final 2 [LPeek 0 KCached false; LContains 0 false; LEnsure 0 true 0; LBegin 0; LFetched 0 FEmpty;
                 LSetErr 0; LComplete 0; LRelease 0;
                 LPeek 1 KPath false; LEnsure 1 false 0;        (* handle of worker 0 *)
                 LQuit 0 XIdle; LExitRemove 0; LExitBlock 0; LExitClear 0;
                 LLoad1 1 false; LCheck 1 true; LLoad2 1 false; LErr 1 (RErr (EExit XIdle))] with
  | Some s => wts s 1 = ADone (RErr (EExit XIdle)) /\ pmap s = None
  | None => False
  end.
Proof. vm_compute. repeat split. Qed.
