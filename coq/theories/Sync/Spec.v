(** C20 -- what the property sentence says, stated independently of the step function:
    (a) predicates on model states used by the theorems of [Props];
    (b) executable oracles evaluated on what the IMPLEMENTATION was observed to do (the logged
        trace, the values the callers' futures returned, the view through the handles after
        the end); they never run the model. *)
From Coq Require Import List Bool Arith Lia.
From Sci Require Import Sync.Model.
Import ListNotations.

(** ** (a) state predicates *)

(** the worker still has a locked block that calls notify_waiters ahead of it, on EVERY
    continuation (no new lookup has to be started for it) *)
Definition notify_ahead (c : wctl) : bool :=
  match c with
  | WInit | WFetching | WFetched _ | WErrSet | WExiting _ | WExit2 _ => true
  | _ => false
  end.

(** number of worker steps (not counting slot stores) after which the notifying block has run *)
Definition wdist (c : wctl) : nat :=
  match c with
  | WInit => 4 | WFetching => 3 | WFetched _ => 2 | WErrSet => 1
  | WExiting _ => 2 | WExit2 _ => 1
  | _ => 0
  end.

(** no lost wake-up: a caller whose Notified future exists and has not been notified waits on a
    path set whose worker will notify *)
Definition NoLostWakeup (s : state) : Prop :=
  forall i e, wts s i = AReg e false -> e < nps s /\ notify_ahead (wc (pss s e)) = true.

(** the caller is past its wait *)
Definition passed (w : wst) : bool :=
  match w with AReg _ true | AAwaited _ | ALoaded2 _ | ADone _ => true | _ => false end.

(** a released caller holds a path or an error, and neither comes out of thin air *)
Definition ResultJustified (s : state) (r : wres) : Prop :=
  match r with
  | RPath => exists e, e < nps s /\ g_ok (pss s e) = true
  | RNone | RTimeout => True
  | RErr ENoPaths => True
  | RErr EInternal => exists e, e < nps s /\ g_err (pss s e) = true
  | RErr (EExit x) => exists e, e < nps s /\ cerr (pss s e) = Some (EExit x) /\
                                (wc (pss s e) = WExit3 \/ wc (pss s e) = WExited)
  end.

(** what every handle of an exited worker reports *)
Definition HandleDead (p : pset) : Prop :=
  (exists x, cerr p = Some (EExit x)) /\ active p = false /\ inited p = true /\ ongoing p = false.

(** steps to termination once the manager is gone *)
Definition xdist (c : wctl) : nat :=
  match c with
  | WInit | WSleeping => 4
  | WExiting _ => 3 | WExit2 _ => 2 | WExit3 => 1
  | _ => 0
  end.

(** labels of worker e; [progress] excludes slot stores (at most two per lookup in the code) *)
Definition worker_of (l : label) : option nat :=
  match l with
  | LBegin e | LFetched e _ | LSetErr e | LSlot e _ | LComplete e | LRelease e | LQuit e _
  | LExitRemove e | LExitSkip e | LExitBlock e | LExitClear e => Some e
  | _ => None
  end.
Definition progress_of (e : nat) (l : label) : bool :=
  match l with
  | LSlot _ _ => false
  | _ => match worker_of l with Some e' => Nat.eqb e' e | None => false end
  end.
Definition caller_of (l : label) : option nat :=
  match l with
  | LPeek i _ _ | LContains i _ | LEnsure i _ _ | LLoad1 i _ | LCheck i _ | LWake i
  | LLoad2 i _ | LErr i _ | LAbandon i | LExpired i _ => Some i
  | _ => None
  end.

(** ** (b) oracles on observations *)

Definition count_l (f : label -> bool) (tr : list label) : nat := length (filter f tr).

Definition is_spawn l := match l with LEnsure _ true _ => true | _ => false end.
Definition is_removal l := match l with LStop | LExitRemove _ => true | _ => false end.
Definition is_begin l := match l with LBegin _ => true | _ => false end.
Definition is_exit_clear e l := match l with LExitClear e' => Nat.eqb e' e | _ => false end.

(** one worker per vacant->occupied transition of the pair: the map is vacant initially and after
    each removal only; in particular without removals any number of concurrent first requests
    start exactly one worker *)
Definition single_worker_ok (tr : list label) : bool :=
  count_l is_spawn tr <=? 1 + count_l is_removal tr.

(** prefix-closed version (checked on every prefix of the observed trace) *)
Fixpoint single_worker_prefix (spawns rems : nat) (tr : list label) : bool :=
  match tr with
  | [] => true
  | l :: r =>
    let spawns' := if is_spawn l then S spawns else spawns in
    let rems' := if is_removal l then S rems else rems in
    (spawns' <=? 1 + rems) && single_worker_prefix spawns' rems' r
  end.

(** every caller that entered the manager got a value back *)
Definition started (tr : list label) : list nat :=
  nodup Nat.eq_dec (flat_map (fun l => match l with LPeek i _ _ => [i] | _ => [] end) tr).
Definition all_released (tr : list label) (res : list (nat * wres)) : bool :=
  forallb (fun i => existsb (fun '(j, _) => Nat.eqb i j) res) (started tr).

(** a caller whose locked block created a Notified future is woken later (or gives up) *)
Fixpoint registered_woken (tr : list label) : bool :=
  match tr with
  | [] => true
  | LCheck i false :: r =>
    existsb (fun l => match l with LWake j | LAbandon j => Nat.eqb i j | _ => false end) r && registered_woken r
  | _ :: r => registered_woken r
  end.

(** path() returns a path or an error, cached_path() a path or None *)
Definition kind_of (tr : list label) (i : nat) : option kind :=
  match filter (fun l => match l with LPeek j _ _ => Nat.eqb i j | _ => false end) tr with
  | LPeek _ k _ :: _ => Some k
  | _ => None
  end.
Definition result_shape_ok (tr : list label) (res : list (nat * wres)) : bool :=
  forallb (fun '(i, r) =>
             match kind_of tr i, r with
             | Some KPath, RNone => false
             | Some KCached, RErr _ | Some KCached, RTimeout => false
             | None, _ => false
             | _, _ => true
             end) res.

(** handle view after the end: (active, initialized, ongoing, error class) with error classes
    0 none, 1 no paths, 2 other, 10.. "PathSet task exited" *)
Definition hview := (bool * bool * bool * nat)%type.
Definition view_dead (v : hview) : bool :=
  let '(a, ini, ong, ec) := v in negb a && ini && negb ong && (10 <=? ec).

(** after the drop: every worker ever spawned ran its exit sequence to the end and every handle
    reports an error and no path *)
Definition after_drop_ok (tr : list label) (fin : list (nat * hview)) : bool :=
  let n := count_l is_spawn tr in
  forallb (fun e => (0 <? count_l (is_exit_clear e) tr) &&
                    existsb (fun '(e', v) => Nat.eqb e e' && view_dead v) fin) (seq 0 n).
