(** C20 -- protocol model of the waiter / worker handshake of the multipath manager.

    Hand-written from crates/scion-stack/src/path/manager.rs (cached_path, path,
    fast_ensure_managed_paths, ensure_managed_paths, stop_managing_paths) and
    path/manager/pathset.rs (PathSet::manage, fetch_and_update, PathSetHandle::active_path,
    await_ongoing_update, current_error, PathSetTask::drop).

    One (src,dst) pair (the concurrent map's entry API is atomic per key, keys do not
    interact).  A small-step interleaving semantics given as a DETERMINISTIC labelled step
    function: a label names the actor, the atomic step and every value the step observes or
    chooses; [step strict l s = Some s'] iff the step is enabled in [s].  Atomic steps are exactly
    the critical sections (std Mutex [PathSetSharedState::sync], the bucket lock held by a
    [scc::hash_index::Entry]) and the lock-free operations (ArcSwap load/store, [peek_with],
    [contains], [remove_sync], [Weak::upgrade]) of the code.

    Runtime semantics assumed (trusted base, quoted from tokio 1.52.3 sync/notify.rs):
      "The Notified future is guaranteed to receive wakeups from notify_waiters() as soon as it
       has been created, even if it has not yet been polled."   (Notify::notified / notified_owned)
      "This has no effect on notifications sent using notify_waiters, which are received as long
       as they happen after the creation of the Notified regardless of whether enable or poll has
       been called."                                               (Notified::enable)
    [await_ongoing_update] creates the future with [notified_owned()] INSIDE the mutex block and
    never calls [enable()]: by the quoted guarantee it need not.  Hence [AReg e false] (future
    created, no notification yet) is turned into [AReg e true] by every [notify_waiters] of path
    set [e] that is executed after the waiter's locked block.
    scc 3.8.4 HashIndex::remove_sync: "Returns true if the key existed ... after marking the entry
    unreachable; the memory will be reclaimed later": the removed [PathSetTask] (whose Drop
    cancels the token) is dropped at some later time; the model lets a worker observe
    cancellation at any time after its entry left the map (or the manager died).

    Not modelled: the early returns of path() for wildcard addresses and src = dst (no
    synchronisation involved), the idle flag [was_used_in_idle_period] and all timing (an idle
    exit and a refetch are possible whenever the worker sleeps), the contents of the path cache
    (a slot store may write Some only after some lookup returned paths).  A caller may give up
    at any point of path() ([LAbandon]: the future is dropped, e.g. by path_timeout).

    [strict = true] is the semantics the theorems are about and the one used to check traces of
    current-thread runs.  [strict = false] trusts the logged value of lock-free observations
    (they are logged next to, not atomically with, the operation; on a multi-thread runtime the
    log order of two racing lock-free operations can differ from their real order) and still
    checks everything that is ordered by the mutex or by causality. *)
From Coq Require Import List Bool Arith Lia.
Import ListNotations.

Inductive kind := KPath | KCached.
(** result of one lookup: paths / none (fetcher returned none, or all filtered out) / failure *)
Inductive fres := FOk | FEmpty | FErr.
(** why [maintain] returned: "manager dropped" | "cancelled" | "idle" *)
Inductive xreason := XMgrDropped | XCancelled | XIdle.
(** values of [current_error] *)
Inductive perr := ENoPaths | EInternal | EExit (r : xreason).
(** what a caller gets: a path | cached_path's None | an error | nothing, because it gave up
    (path_timeout elapsed: the path() future is dropped) *)
Inductive wres := RPath | RNone | RErr (e : perr) | RTimeout.

(** worker control state (one worker per path set, spawned by [manage()]) *)
Inductive wctl :=
| WInit                 (* spawned, has not run *)
| WFetching             (* first locked block of fetch_and_update done: ongoing_start = Some *)
| WFetched (r : fres)   (* the fetcher's future returned *)
| WErrSet               (* current_error updated *)
| WCompleted            (* last locked block done (flags cleared, notify_waiters) *)
| WSleeping             (* in select!; holds no strong reference to the manager *)
| WExiting (r : xreason)(* [maintain] returned reason r *)
| WExit2 (r : xreason)  (* past the removal of the pair's entry from the map *)
| WExit3                (* exit block done: flags cleared, notify_waiters, error set *)
| WExited               (* active slot cleared; task finished *)
| WBug.                 (* fetch_and_update found ongoing_start already set (debug_assert) *)

Record pset := mkPs {
  ongoing : bool;            (* ongoing_start.is_some() *)
  inited : bool;             (* initialized *)
  cerr : option perr;        (* current_error *)
  active : bool;             (* active_path slot is Some *)
  wc : wctl;
  g_ok : bool;               (* ghost: some lookup of this path set returned paths *)
  g_err : bool }.            (* ghost: some lookup of this path set failed *)

Definition new_ps := mkPs false false None false WInit false false.

(** caller control state; [e] is the path set the caller holds a handle of *)
Inductive wst :=
| AStart
| APeeked                  (* path(): peek found no active path *)
| AHandle (e : nat)        (* ensure_managed_paths returned a handle *)
| ALoaded (e : nat)        (* active_path(): first load was None *)
| AReg (e : nat) (notified : bool)   (* Notified future exists; notified = it received a notify_waiters *)
| AAwaited (e : nat)       (* await_ongoing_update returned *)
| ALoaded2 (e : nat)       (* second load was None *)
| CPeeked                  (* cached_path(): peek found no active path *)
| CContained               (* fast_ensure_managed_paths: contains() said no *)
| ADone (r : wres).

Record state := mkSt {
  pss : nat -> pset;       (* path sets ever created, by creation index *)
  nps : nat;               (* how many were created (= workers spawned) *)
  pmap : option nat;       (* managed_paths entry of the pair *)
  udrop : bool;            (* every user-held MultiPathManager clone is dropped *)
  wts : nat -> wst;
  nw : nat;                (* callers are 0 .. nw-1 *)
  nrem : nat }.            (* ghost: successful removals of the pair's entry *)

Definition init (n : nat) : state :=
  mkSt (fun _ => new_ps) 0 None false (fun _ => AStart) n 0.

Inductive label :=
(* callers *)
| LPeek (i : nat) (k : kind) (got : bool)   (* peek_with + try_active_path *)
| LContains (i : nat) (got : bool)          (* managed_paths.contains *)
| LEnsure (i : nat) (vacant : bool) (e : nat)  (* entry_sync: Occupied e | Vacant -> insert + spawn e *)
| LLoad1 (i : nat) (got : bool)             (* active_path(): first slot load *)
| LCheck (i : nat) (ret : bool)             (* locked block of await_ongoing_update *)
| LWake (i : nat)                           (* the Notified future completes *)
| LLoad2 (i : nat) (got : bool)             (* second slot load *)
| LErr (i : nat) (r : wres)                 (* current_error() and the value path() returns *)
| LAbandon (i : nat)                        (* the caller drops its path() future (path_timeout) *)
| LExpired (i : nat) (r : wres)             (* the path read from the slot is expired at the caller's [now]:
                                               path() returns NoPathsFound, cached_path() None *)
(* workers *)
| LBegin (e : nat)                          (* upgrade + first locked block of fetch_and_update *)
| LFetched (e : nat) (r : fres)             (* the lookup finishes *)
| LSetErr (e : nat)
| LSlot (e : nat) (v : bool)                (* store into the active slot (cache update / decision / issue) *)
| LComplete (e : nat)                       (* last locked block of fetch_and_update *)
| LRelease (e : nat)                        (* strong manager reference dropped *)
| LQuit (e : nat) (r : xreason)             (* [maintain] returns *)
| LExitRemove (e : nat)                     (* exit: stop_managing_paths removed an entry *)
| LExitSkip (e : nat)                       (* exit: nothing to remove (manager gone or pair not managed) *)
| LExitBlock (e : nat)                      (* exit: locked block *)
| LExitClear (e : nat)                      (* exit: active_path.store(None) *)
(* user *)
| LStop                                     (* stop_managing_paths removed an entry *)
| LDrop.                                    (* last user-held clone dropped *)

Definition upd {A} (f : nat -> A) (i : nat) (x : A) : nat -> A :=
  fun j => if Nat.eqb j i then x else f j.

Definition set_w (s : state) (i : nat) (w : wst) : state :=
  mkSt (pss s) (nps s) (pmap s) (udrop s) (upd (wts s) i w) (nw s) (nrem s).
Definition set_p (s : state) (e : nat) (p : pset) : state :=
  mkSt (upd (pss s) e p) (nps s) (pmap s) (udrop s) (wts s) (nw s) (nrem s).
Definition set_wts (s : state) (w : nat -> wst) : state :=
  mkSt (pss s) (nps s) (pmap s) (udrop s) w (nw s) (nrem s).
Definition remove_entry (s : state) : state :=
  mkSt (pss s) (nps s) None (udrop s) (wts s) (nw s) (S (nrem s)).
Definition set_wc (p : pset) (c : wctl) : pset :=
  mkPs (ongoing p) (inited p) (cerr p) (active p) c (g_ok p) (g_err p).

(** control states in which the worker owns a strong reference (upgraded Weak) *)
Definition holds (c : wctl) : bool :=
  match c with WFetching | WFetched _ | WErrSet | WCompleted => true | _ => false end.

(** MultiPathManagerInner not yet dropped *)
Definition alive (s : state) : bool :=
  negb (udrop s) || existsb (fun e => holds (wc (pss s e))) (seq 0 (nps s)).

(** notify_waiters on path set e's Notify *)
Definition notify (e : nat) (w : nat -> wst) : nat -> wst :=
  fun j => match w j with
           | AReg e' false => if Nat.eqb e' e then AReg e' true else AReg e' false
           | x => x
           end.

Definition slot_at (s : state) : bool :=
  match pmap s with Some e => active (pss s e) | None => false end.
Definition idle_w (w : wst) : bool :=
  match w with AStart | ADone _ => true | _ => false end.
Definition in_map (s : state) (e : nat) : bool :=
  match pmap s with Some e' => Nat.eqb e' e | None => false end.
Definition has_entry (s : state) : bool :=
  match pmap s with Some _ => true | None => false end.
Definition err_result (p : pset) : wres :=
  match cerr p with Some x => RErr x | None => RErr ENoPaths end.
Definition wres_eqb (a b : wres) : bool :=
  match a, b with
  | RPath, RPath | RNone, RNone | RTimeout, RTimeout => true
  | RErr ENoPaths, RErr ENoPaths | RErr EInternal, RErr EInternal => true
  | RErr (EExit XMgrDropped), RErr (EExit XMgrDropped)
  | RErr (EExit XCancelled), RErr (EExit XCancelled)
  | RErr (EExit XIdle), RErr (EExit XIdle) => true
  | _, _ => false
  end.
Definition fres_err (r : fres) : option perr :=
  match r with FOk => None | FEmpty => Some ENoPaths | FErr => Some EInternal end.

Section Step.
Variable strict : bool.
Definition chk (b : bool) : bool := if strict then b else true.

Definition step (l : label) (s : state) : option state :=
  match l with
  | LPeek i k got =>
    match wts s i with
    | AStart =>
      if (i <? nw s) && negb (udrop s) && chk (eqb got (slot_at s)) then
        Some (set_w s i (if got then ADone RPath
                         else match k with KPath => APeeked | KCached => CPeeked end))
      else None
    | _ => None
    end
  | LContains i got =>
    match wts s i with
    | CPeeked =>
      if chk (eqb got (has_entry s)) then
        Some (set_w s i (if got then ADone RNone else CContained))
      else None
    | _ => None
    end
  | LEnsure i vacant e =>
    let next := match wts s i with
                | APeeked => Some (AHandle e) | CContained => Some (ADone RNone) | _ => None end in
    match next with
    | None => None
    | Some w' =>
      if vacant then
        if (e =? nps s) && chk (negb (has_entry s)) then
          Some (mkSt (upd (pss s) e new_ps) (S (nps s)) (Some e) (udrop s)
                     (upd (wts s) i w') (nw s) (nrem s))
        else None
      else
        if (e <? nps s) && chk (in_map s e) then Some (set_w s i w') else None
    end
  | LLoad1 i got =>
    match wts s i with
    | AHandle e =>
      if chk (eqb got (active (pss s e))) then
        Some (set_w s i (if got then ADone RPath else ALoaded e))
      else None
    | _ => None
    end
  | LCheck i ret =>
    match wts s i with
    | ALoaded e =>
      (* ordered by the mutex: checked in both modes *)
      if eqb ret (negb (ongoing (pss s e)) && inited (pss s e)) then
        Some (set_w s i (if ret then AAwaited e else AReg e false))
      else None
    | _ => None
    end
  | LWake i =>
    match wts s i with
    | AReg e true => Some (set_w s i (AAwaited e))
    | _ => None
    end
  | LLoad2 i got =>
    match wts s i with
    | AAwaited e =>
      if chk (eqb got (active (pss s e))) then
        Some (set_w s i (if got then ADone RPath else ALoaded2 e))
      else None
    | _ => None
    end
  | LErr i r =>
    match wts s i with
    | ALoaded2 e =>
      if match r with RErr _ => true | _ => false end && chk (wres_eqb r (err_result (pss s e)))
      then Some (set_w s i (ADone r)) else None
    | _ => None
    end
  | LAbandon i =>
    match wts s i with
    | APeeked | AHandle _ | ALoaded _ | AReg _ _ | AAwaited _ | ALoaded2 _ =>
      Some (set_w s i (ADone RTimeout))
    | _ => None
    end
  | LExpired i r =>
    match wts s i, r with
    | ADone RPath, RNone | ADone RPath, RErr ENoPaths => Some (set_w s i (ADone r))
    | _, _ => None
    end
  | LBegin e =>
    if (e <? nps s) && chk (alive s) then
      let p := pss s e in
      match wc p with
      | WInit | WSleeping =>
        if ongoing p then Some (set_p s e (set_wc p WBug))
        else Some (set_p s e (mkPs true (inited p) (cerr p) (active p) WFetching (g_ok p) (g_err p)))
      | _ => None
      end
    else None
  | LFetched e r =>
    if e <? nps s then
      let p := pss s e in
      match wc p with
      | WFetching =>
        Some (set_p s e (mkPs (ongoing p) (inited p) (cerr p) (active p) (WFetched r)
                              (g_ok p || match r with FOk => true | _ => false end)
                              (g_err p || match r with FErr => true | _ => false end)))
      | _ => None
      end
    else None
  | LSetErr e =>
    if e <? nps s then
      let p := pss s e in
      match wc p with
      | WFetched r =>
        Some (set_p s e (mkPs (ongoing p) (inited p) (fres_err r) (active p) WErrSet (g_ok p) (g_err p)))
      | _ => None
      end
    else None
  | LSlot e v =>
    if e <? nps s then
      let p := pss s e in
      let ok := match wc p with
                | WFetched _ | WErrSet => true
                | WSleeping => chk (alive s)      (* issue handling upgrades the Weak first *)
                | _ => false end in
      (* a path in the slot comes from the cache, the cache from a successful lookup *)
      if ok && (negb v || g_ok p) then
        Some (set_p s e (mkPs (ongoing p) (inited p) (cerr p) v (wc p) (g_ok p) (g_err p)))
      else None
    else None
  | LComplete e =>
    if e <? nps s then
      let p := pss s e in
      match wc p with
      | WErrSet =>
        Some (set_wts (set_p s e (mkPs false true (cerr p) (active p) WCompleted (g_ok p) (g_err p)))
                      (notify e (wts s)))
      | _ => None
      end
    else None
  | LRelease e =>
    if e <? nps s then
      let p := pss s e in
      match wc p with
      | WCompleted => Some (set_p s e (set_wc p WSleeping))
      | _ => None
      end
    else None
  | LQuit e r =>
    if e <? nps s then
      let p := pss s e in
      let ok := match wc p, r with
                | WInit, XMgrDropped => chk (negb (alive s))
                | WSleeping, XMgrDropped => chk (negb (alive s))
                | WSleeping, XCancelled => chk (negb (in_map s e) || negb (alive s))
                | WSleeping, XIdle => chk (alive s)
                | _, _ => false end in
      if ok then Some (set_p s e (set_wc p (WExiting r))) else None
    else None
  | LExitRemove e =>
    if (e <? nps s) && chk (alive s && has_entry s) then
      let p := pss s e in
      match wc p with
      | WExiting r => Some (remove_entry (set_p s e (set_wc p (WExit2 r))))
      | _ => None
      end
    else None
  | LExitSkip e =>
    if (e <? nps s) && chk (negb (alive s) || negb (has_entry s)) then
      let p := pss s e in
      match wc p with
      | WExiting r => Some (set_p s e (set_wc p (WExit2 r)))
      | _ => None
      end
    else None
  | LExitBlock e =>
    if e <? nps s then
      let p := pss s e in
      let r := match wc p with
               | WExit2 r => Some r
               | _ => None end in
      match r with
      | Some r =>
        Some (set_wts (set_p s e (mkPs false true (Some (EExit r)) (active p) WExit3 (g_ok p) (g_err p)))
                      (notify e (wts s)))
      | None => None
      end
    else None
  | LExitClear e =>
    if e <? nps s then
      let p := pss s e in
      match wc p with
      | WExit3 => Some (set_p s e (mkPs (ongoing p) (inited p) (cerr p) false WExited (g_ok p) (g_err p)))
      | _ => None
      end
    else None
  | LStop =>
    if negb (udrop s) && chk (has_entry s) then Some (remove_entry s) else None
  | LDrop =>
    if negb (udrop s) && forallb (fun i => idle_w (wts s i)) (seq 0 (nw s)) then
      Some (mkSt (pss s) (nps s) (pmap s) true (wts s) (nw s) (nrem s))
    else None
  end.

Fixpoint run (tr : list label) (s : state) : option state :=
  match tr with
  | [] => Some s
  | l :: r => match step l s with Some s' => run r s' | None => None end
  end.

(** index of the first label the model refuses (for replays) *)
Fixpoint first_reject (k : nat) (tr : list label) (s : state) : option nat :=
  match tr with
  | [] => None
  | l :: r => match step l s with Some s' => first_reject (S k) r s' | None => Some k end
  end.
End Step.

(** the semantics the theorems are about *)
Definition Step (s s' : state) : Prop := exists l, step true l s = Some s'.

Inductive reach (n : nat) : state -> Prop :=
| reach_init : reach n (init n)
| reach_step s l s' : reach n s -> step true l s = Some s' -> reach n s'.
