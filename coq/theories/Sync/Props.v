(** C20 -- property theorems only.  Each is closed by short glue from lemmas of [Proofs] and
    followed by [Print Assumptions].

    The theorems are about the protocol model [Sync.Model] (strict semantics): ALL
    interleavings of the atomic steps, ANY number [n] of callers, any number of workers over
    time (induction over [reach] / over runs; nothing is enumerated).  tokio's scheduler, Notify
    and the mutex are the trusted runtime (quotations in Model.v); the model is tied to the code
    by trace inclusion on real runs (Cases.v).  "Drop" in the last group means
    MultiPathManagerInner is gone ([alive s = false]). *)
From Coq Require Import List Bool Arith Lia.
From Sci Require Import Sync.Model Sync.Spec Sync.Proofs.
Import ListNotations.

(** No lost wake-up (safety): in every reachable state, a caller whose Notified future exists and
    has not been notified waits on a path set whose worker still has a locked block that calls
    notify_waiters ahead of it on every continuation. *)
Theorem no_lost_wakeup :
  forall n s, reach n s -> NoLostWakeup s.
Proof. intros n s R. apply Inv_no_lost_wakeup. eapply Inv_reach; eauto. Qed.
Check no_lost_wakeup : forall n s, reach n s ->
  forall i e, wts s i = AReg e false -> e < nps s /\ notify_ahead (wc (pss s e)) = true.
Print Assumptions no_lost_wakeup.

(** ... and that worker is never blocked: it has an enabled step other than a slot store.  In
    [WFetching] the step is [LFetched]: THE PREMISE "the lookup terminates" enters exactly here. *)
Theorem worker_with_waiters_can_step :
  forall n s e, reach n s -> e < nps s -> notify_ahead (wc (pss s e)) = true ->
  exists l s', progress_of e l = true /\ step true l s = Some s'.
Proof. intros n s e R. apply worker_enabled. eapply Inv_reach; eauto. Qed.
Print Assumptions worker_with_waiters_can_step.

(** Liveness with fairness as an explicit count: along ANY run from a reachable state, once
    worker [e] has taken [wdist] (at most 4) steps other than slot stores -- the completion of
    the lookup is one of them -- every caller that was registered with [e] is past its wait.
    (Weak fairness of the scheduler towards the worker task plus termination of the fetcher's
    future give the count; both are premises, not theorems.) *)
Theorem wakeup_within_bounded_worker_steps :
  forall n s tr s' i e,
    reach n s -> run true tr s = Some s' -> wts s i = AReg e false ->
    wdist (wc (pss s e)) <= count_l (progress_of e) tr ->
    passed (wts s' i) = true.
Proof. intros n s tr s' i e R. apply wake_within_run. eapply Inv_reach; eauto. Qed.
Print Assumptions wakeup_within_bounded_worker_steps.

(** a caller inside the manager that is not waiting for a notification can always take its next
    step (so a woken caller reaches [ADone] in at most three steps of its own) *)
Theorem caller_can_step :
  forall n s i, reach n s ->
    match wts s i with AStart | ADone _ | AReg _ false => False | _ => True end ->
    exists l s', caller_of l = Some i /\ step true l s = Some s'.
Proof. intros n s i R. apply caller_enabled. eapply Inv_reach; eauto. Qed.
Print Assumptions caller_can_step.

(** when every worker is asleep, between lookups or gone, no caller is waiting for a wake-up *)
Theorem quiescent_nobody_waits :
  forall n s, reach n s -> (forall e, e < nps s -> notify_ahead (wc (pss s e)) = false) ->
  forall i e, wts s i <> AReg e false.
Proof. intros n s R. apply quiescent_nobody_waits. eapply Inv_reach; eauto. Qed.
Print Assumptions quiescent_nobody_waits.

(** Released with a path or an error, neither out of thin air: a path only if some lookup for
    the pair returned paths, a fetch error only if some lookup failed, "task exited: r" only if
    a worker ran its exit block with reason r. *)
Theorem released_with_path_or_error :
  forall n s i r, reach n s -> wts s i = ADone r -> ResultJustified s r.
Proof. intros n s i r R. apply inv_res. eapply Inv_reach; eauto. Qed.
Print Assumptions released_with_path_or_error.

(** Exactly one worker per vacant->occupied transition of the pair: workers spawned = removals
    of the entry + (1 if the entry is present).  Hence any number of concurrent first requests
    (no removal yet) start exactly one worker. *)
Theorem single_worker_per_pair :
  forall n s, reach n s ->
    nps s = nrem s + (if has_entry s then 1 else 0) /\
    (forall e, pmap s = Some e -> e < nps s).
Proof.
  intros n s R. pose proof (Inv_reach _ _ R) as I. split; [apply (inv_count _ I)|apply (inv_map _ I)].
Qed.
Print Assumptions single_worker_per_pair.

Theorem concurrent_first_requests_one_worker :
  forall n s, reach n s -> nrem s = 0 -> nps s <= 1.
Proof.
  intros n s R H0. destruct (single_worker_per_pair n s R) as [H _]. rewrite H0 in H.
  destruct (has_entry s); lia.
Qed.
Print Assumptions concurrent_first_requests_one_worker.

(** the branch of fetch_and_update that finds a lookup already in progress (debug_assert!) is
    unreachable *)
Theorem refetch_guard_unreachable :
  forall n s e, reach n s -> e < nps s -> wc (pss s e) <> WBug.
Proof. intros n s e R. apply Inv_no_bug. eapply Inv_reach; eauto. Qed.
Print Assumptions refetch_guard_unreachable.

(** After the drop: the manager stays gone, no worker is spawned, every step of a worker brings
    it strictly closer to termination; so along ANY run in which worker [e] takes [xdist] (at
    most 4) steps it has terminated, and every handle of its path set reports an error, no
    path, initialised, nothing ongoing. *)
Theorem after_drop_all_exit_and_error :
  forall n s tr s' e,
    reach n s -> alive s = false -> run true tr s = Some s' -> e < nps s ->
    xdist (wc (pss s e)) <= count_l (is_worker_of e) tr ->
    alive s' = false /\ nps s' = nps s /\ wc (pss s' e) = WExited /\ HandleDead (pss s' e).
Proof. intros n s tr s' e R. apply after_drop_run. eapply Inv_reach; eauto. Qed.
Print Assumptions after_drop_all_exit_and_error.

(** ... and a worker that has not terminated can always step once the manager is gone *)
Theorem after_drop_worker_can_step :
  forall n s e, reach n s -> alive s = false -> e < nps s -> wc (pss s e) <> WExited ->
  exists l s', is_worker_of e l = true /\ step true l s = Some s'.
Proof. intros n s e R. apply dead_worker_enabled. eapply Inv_reach; eauto. Qed.
Print Assumptions after_drop_worker_can_step.

(** at any time: the handles of a terminated worker report an error and no path *)
Theorem exited_handle_reports_error :
  forall n s e, reach n s -> e < nps s -> wc (pss s e) = WExited -> HandleDead (pss s e).
Proof.
  intros n s e R He Hw. apply ps_ok_exited; [|exact Hw]. apply (inv_ps _ (Inv_reach _ _ R)); exact He.
Qed.
Print Assumptions exited_handle_reports_error.

(** the relaxed semantics used to check multi-thread traces accepts every trace of the strict
    semantics (it only trusts more observations, it never demands more) *)
Theorem relaxed_accepts_strict :
  forall l s s', step true l s = Some s' -> step false l s = Some s'.
Proof. exact strict_step_relaxed. Qed.
Print Assumptions relaxed_accepts_strict.

(** non-vacuity: a reachable state with three callers registered and unnotified while the
    lookup runs, and the run from there that releases them *)
Example ex_registered :
  exists s, reach 3 s /\ wts s 0 = AReg 0 false /\ wts s 1 = AReg 0 false /\ wts s 2 = AReg 0 false /\
            exists s', run true ex_suffix s = Some s' /\ wts s' 1 = ADone RPath /\ wts s' 2 = AReg 0 true.
Proof.
  destruct (run true ex_prefix (init 3)) as [s|] eqn:H; [|vm_compute in H; discriminate].
  exists s. split; [eapply run_reach; [constructor|exact H]|].
  vm_compute in H. injection H as <-. vm_compute. repeat split.
  eexists. repeat split.
Qed.

(** The liveness half of the property in one statement: a caller that is registered and not
    yet notified is released along ANY run in which (first) its worker takes [wdist] <= 4 steps
    other than slot stores -- the lookup's completion being one of them: the premise that the
    lookup terminates -- and (then) the caller itself takes three steps.  No assumption on what
    anybody else does in between: arrivals, completions, idle exits, stop_managing_paths,
    cancellations, callers giving up. *)
Theorem waiting_caller_is_released :
  forall n s tr1 s1 tr2 s2 i e,
    reach n s -> wts s i = AReg e false ->
    run true tr1 s = Some s1 -> wdist (wc (pss s e)) <= count_l (progress_of e) tr1 ->
    run true tr2 s1 = Some s2 -> 3 <= count_l (is_caller i) tr2 ->
    exists r, wts s2 i = ADone r.
Proof. intros n s tr1 s1 tr2 s2 i e R. apply waiter_released_run. eapply Inv_reach; eauto. Qed.
Print Assumptions waiting_caller_is_released.

(** non-vacuity of the after-drop theorems: a reachable state in which the manager is gone while
    a worker sleeps and another has not run yet; four steps each later both have terminated *)
Example ex_dropped :
  exists s, reach 2 s /\ alive s = false /\ nps s = 2 /\
            wc (pss s 0) = WSleeping /\ wc (pss s 1) = WInit /\
            exists s', run true ex_drop_suffix s = Some s' /\
                       wc (pss s' 0) = WExited /\ wc (pss s' 1) = WExited /\
                       cerr (pss s' 0) = Some (EExit XCancelled) /\ cerr (pss s' 1) = Some (EExit XMgrDropped).
Proof.
  destruct (run true ex_drop_prefix (init 2)) as [s|] eqn:H; [|vm_compute in H; discriminate].
  exists s. split; [eapply run_reach; [constructor|exact H]|].
  vm_compute in H. injection H as <-. vm_compute. repeat split.
  eexists. repeat split.
Qed.

(** From woken to released: along ANY run, once a caller that is past its wait has taken three
    steps of its own it holds its result.  Together with [wakeup_within_bounded_worker_steps] and
    the two "can step" theorems: in every fair run in which the lookup terminates, every waiting
    caller is released. *)
Theorem released_within_bounded_caller_steps :
  forall s tr s' i,
    run true tr s = Some s' -> passed (wts s i) = true ->
    cdist (wts s i) <= count_l (is_caller i) tr -> exists r, wts s' i = ADone r.
Proof. intros s tr s' i. apply released_within_run. Qed.
Print Assumptions released_within_bounded_caller_steps.
