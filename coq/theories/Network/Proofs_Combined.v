(** Network area, C01: paths assembled from beaconed segments (no peering hop) are path
    descriptions in the sense of [Proofs_Deliver] whose authenticity part holds by the chain
    invariant; so the reference router delivers them wherever the topology carries them. *)
From Coq Require Import Lia ZifyBool ZifyNat ZifyN.
From Sci Require Import Network.Model Network.Spec Network.Proofs Network.Proofs_Sound
     Network.Proofs_C01 Network.Proofs_Deliver Network.Proofs_Complete.
Local Open Scope N_scope.
Arguments N.add : simpl never. Arguments N.sub : simpl never. Arguments N.mul : simpl never.
Arguments N.div : simpl never. Arguments N.modulo : simpl never. Arguments N.eqb : simpl never.
Arguments N.ltb : simpl never. Arguments N.leb : simpl never.

Section B.
Context {key : Type}.
Variable mac : key -> N -> N -> N -> N -> N -> N.
Variable t : topology key.
Variable now : N.

(** a use of a beaconed segment without peering hop *)
Record buse := mkBuse { bu_b0 : N; bu_ts : N; bu_us : list (@uentry key); bu_k : nat; bu_cons : bool }.
Definition use_of (b : buse) : suse :=
  mkUse (beacon mac (bu_b0 b) (bu_ts b) (bu_us b)) (bu_k b) None (bu_cons b).
Definition bu_hops (b : buse) : list hopf :=
  match use_hops (use_of b) with Some hs => hs | None => [] end.
Definition bu_ias (b : buse) : list N :=
  let l := map ue_ia (skipn (bu_k b) (bu_us b)) in if bu_cons b then l else rev l.

Fixpoint zip4 (ias : list N) (ks : list key) (hs : list hopf) (vs : list N) : list hopd :=
  match ias, ks, hs, vs with
  | ia :: ias', K :: ks', h :: hs', v :: vs' => mkHopd ia K h v :: zip4 ias' ks' hs' vs'
  | _, _, _, _ => []
  end.

(** the description of the use: every hop with its AS, key and the SegID carried there *)
Definition tseg_of (b : buse) : tseg :=
  mkTseg (bu_cons b) (bu_ts b)
         (zip4 (bu_ias b) (use_keys (bu_us b) (use_of b)) (bu_hops b) (use_carried (use_of b) (bu_hops b))).

(** chaining of the carried values, per direction *)
Fixpoint chained (cons : bool) (hs : list hopf) (vs : list N) : Prop :=
  match hs, vs with
  | h :: ((h' :: _) as hs'), v :: ((v' :: _) as vs') =>
    (if cons then v' = beta_step v (h_mac h) else v' = beta_step v (h_mac h')) /\ chained cons hs' vs'
  | _, _ => True
  end.

Lemma carried_cons_chained : forall hs s, chained true hs (carried_cons s hs false).
Proof.
  induction hs as [|h hs IH]; intros s; [exact I|].
  destruct hs as [|h' hs']; [exact I|].
  cbn [carried_cons chained]. split; [reflexivity|]. apply (IH (beta_step s (h_mac h))).
Qed.
Lemma carried_rev_chained : forall hs s first, chained false hs (carried_rev s hs first false).
Proof.
  induction hs as [|h hs IH]; intros s first; [exact I|].
  destruct hs as [|h' hs']; [exact I|].
  cbn [carried_rev chained andb orb]. rewrite !orb_false_r. split; [reflexivity|].
  apply (IH _ false).
Qed.

Lemma carried_cons_length hs : forall s p, length (carried_cons s hs p) = length hs.
Proof. induction hs; intros; cbn; [reflexivity|rewrite IHhs; reflexivity]. Qed.

Lemma seg_auth_zip g : forall hs ias ks vs,
  length ias = length hs -> length ks = length hs -> length vs = length hs ->
  Forall2 (fun K hv => verifies mac (g_ts g) K (fst hv) (snd hv)) ks (combine hs vs) ->
  chained (g_cons g) hs vs ->
  match zip4 ias ks hs vs with
  | d :: r => seg_auth mac g d r
  | [] => True
  end.
Proof.
  induction hs as [|h hs IH]; intros ias ks vs L1 L2 L3 F C.
  - destruct ias, ks, vs; exact I.
  - destruct ias as [|ia ias]; [discriminate|]. destruct ks as [|K ks]; [discriminate|].
    destruct vs as [|v vs]; [discriminate|].
    cbn [zip4]. cbn [combine] in F. inversion F as [|? ? ? ? V F']; subst.
    cbn [length] in *.
    specialize (IH ias ks vs ltac:(lia) ltac:(lia) ltac:(lia) F').
    destruct hs as [|h' hs'].
    + destruct ias, ks, vs; cbn [zip4 seg_auth]; (split; [exact V|exact I]).
    + destruct ias as [|ia' ias']; [discriminate|]. destruct ks as [|K' ks']; [discriminate|].
      destruct vs as [|v' vs']; [discriminate|].
      cbn [chained] in C. destruct C as (C1 & C2). specialize (IH C2).
      cbn [zip4] in *. cbn [seg_auth]. split; [exact V|]. split; [|exact IH].
      unfold chain_ok. cbn. destruct (g_cons g); exact C1.
Qed.

Lemma zip4_hops : forall hs ias ks vs,
  length ias = length hs -> length ks = length hs -> length vs = length hs ->
  map d_hop (zip4 ias ks hs vs) = hs /\ length (zip4 ias ks hs vs) = length hs.
Proof.
  induction hs as [|h hs IH]; intros ias ks vs L1 L2 L3.
  - destruct ias, ks, vs; split; reflexivity.
  - destruct ias as [|ia ias]; [discriminate|]. destruct ks as [|K ks]; [discriminate|].
    destruct vs as [|v vs]; [discriminate|]. cbn [length] in *.
    destruct (IH ias ks vs ltac:(lia) ltac:(lia) ltac:(lia)) as (A & B).
    cbn [zip4 map length d_hop]. rewrite A, B. split; reflexivity.
Qed.

(** facts about one use *)
Lemma bu_facts (b : buse) : (S (bu_k b) < length (bu_us b))%nat ->
  exists d d1 r, g_hops (tseg_of b) = d :: d1 :: r
    /\ seg_auth mac (tseg_of b) d (d1 :: r)
    /\ map d_hop (g_hops (tseg_of b)) = bu_hops b
    /\ glen (tseg_of b) = length (bu_hops b)
    /\ ginit (tseg_of b) = use_info (use_of b)
    /\ use_hops (use_of b) = Some (bu_hops b).
Proof.
  intros Hk. set (g := tseg_of b).
  assert (Hk' : (bu_k b < length (bu_us b))%nat) by lia.
  destruct (use_hops (use_of b)) as [hs|] eqn:Eh.
  2:{ exfalso. unfold use_hops, use_of in Eh. cbn in Eh.
      destruct (skipn (bu_k b) (beacon_entries mac (bu_b0 b) (bu_ts b) (bu_us b))); discriminate. }
  assert (Ebh : bu_hops b = hs) by (unfold bu_hops; rewrite Eh; reflexivity).
  pose proof (chain_invariant_use mac (bu_b0 b) (bu_ts b) (bu_us b) (bu_k b) None (bu_cons b) hs Hk' Eh) as CI.
  fold (use_of b) in CI.
  (* lengths *)
  assert (Lh : length hs = (length (bu_us b) - bu_k b)%nat).
  { unfold use_hops, use_of in Eh. cbn [us_seg us_k us_peer us_cons sg_entries beacon] in Eh.
    destruct (skipn (bu_k b) (beacon_entries mac (bu_b0 b) (bu_ts b) (bu_us b))) as [|e0 r0] eqn:Es.
    - assert (length (skipn (bu_k b) (beacon_entries mac (bu_b0 b) (bu_ts b) (bu_us b))) = 0%nat) by (rewrite Es; reflexivity).
      rewrite skipn_length, beacon_entries_length in H. lia.
    - assert (Hl : length (skipn (bu_k b) (beacon_entries mac (bu_b0 b) (bu_ts b) (bu_us b))) = S (length r0)) by (rewrite Es; reflexivity).
      rewrite skipn_length, beacon_entries_length in Hl.
      injection Eh as Eh. subst hs. destruct (bu_cons b); rewrite ?app_length, ?rev_length; cbn [length]; rewrite ?map_length; lia. }
  assert (Lk : length (use_keys (bu_us b) (use_of b)) = length hs).
  { unfold use_keys. cbn [us_k us_cons use_of]. destruct (bu_cons b); [|rewrite rev_length];
      rewrite map_length, skipn_length; lia. }
  assert (Li : length (bu_ias b) = length hs).
  { unfold bu_ias. destruct (bu_cons b); [|rewrite rev_length]; rewrite map_length, skipn_length; lia. }
  assert (Lv : length (use_carried (use_of b) hs) = length hs).
  { unfold use_carried. cbn [us_cons us_peer use_of]. destruct (bu_cons b);
      [apply carried_cons_length|apply carried_rev_length]. }
  assert (Ch : chained (bu_cons b) hs (use_carried (use_of b) hs)).
  { unfold use_carried. cbn [us_cons us_peer use_of]. destruct (bu_cons b);
      [apply carried_cons_chained|apply carried_rev_chained]. }
  pose proof (seg_auth_zip g hs (bu_ias b) _ _ Li Lk Lv CI Ch) as SA.
  destruct (zip4_hops hs (bu_ias b) (use_keys (bu_us b) (use_of b)) (use_carried (use_of b) hs) Li Lk Lv) as (Zh & Zl).
  unfold g, tseg_of in *. cbn [g_hops g_cons g_ts] in *. rewrite Ebh in *.
  destruct (zip4 (bu_ias b) (use_keys (bu_us b) (use_of b)) hs (use_carried (use_of b) hs)) as [|d [|d1 r]] eqn:Ez;
    cbn [length] in Zl; try lia.
  exists d, d1, r. refine (conj eq_refl (conj SA (conj Zh (conj _ (conj _ eq_refl))))).
  - unfold glen. cbn [g_hops]. try rewrite Ez. exact Zl.
  - (* the initial SegID is the value carried at the first hop *)
    unfold ginit, first_beta, g_info, use_info. cbn [g_hops g_cons g_ts us_peer us_cons us_seg use_of sg_ts beacon].
    try rewrite Ez. f_equal.
    destruct hs as [|h0 hs0]; [cbn in Zl; lia|].
    destruct (bu_ias b) as [|i0 ?]; [discriminate|]. destruct (use_keys (bu_us b) (use_of b)) as [|k0 ?]; [discriminate|].
    unfold use_carried in Ez. cbn [us_cons us_peer use_of] in Ez.
    destruct (bu_cons b); cbn [carried_cons carried_rev orb zip4] in Ez; inversion Ez; reflexivity.
Qed.

Lemma route_auth_tail g d0 d1 r rest :
  route_auth mac g d0 (d1 :: r) rest -> route_auth mac g d1 r rest.
Proof. destruct rest; cbn [route_auth seg_auth]; tauto. Qed.

(** authenticity of a whole assembled path *)
Lemma route_auth_of : forall (bs : list buse) b,
  Forall (fun b => (S (bu_k b) < length (bu_us b))%nat) (b :: bs) ->
  match g_hops (tseg_of b) with
  | d :: r => route_auth mac (tseg_of b) d r (map tseg_of bs)
  | [] => False
  end.
Proof.
  induction bs as [|b' bs IH]; intros b F; inversion F as [|? ? Hb F']; subst.
  - destruct (bu_facts b Hb) as (d & d1 & r & Hg & SA & _). rewrite Hg. cbn [map route_auth]. split; [exact SA|exact I].
  - destruct (bu_facts b Hb) as (d & d1 & r & Hg & SA & _). rewrite Hg. cbn [map route_auth].
    split; [exact SA|]. specialize (IH b' F').
    inversion F' as [|? ? Hb' _]; subst.
    destruct (bu_facts b' Hb') as (d0 & d1' & r' & Hg' & SA' & _). rewrite Hg' in *.
    cbn [seg_auth] in SA'. destruct SA' as (A0 & Ac & _).
    refine (conj A0 (conj Ac _)). apply route_auth_tail with (d0 := d0). exact IH.
Qed.

(** the packet the combinator assembles is the packet of the description *)
Lemma assemble_packet_of dst : forall (bs : list buse) b,
  Forall (fun b => (S (bu_k b) < length (bu_us b))%nat) (b :: bs) ->
  assemble dst (map use_of (b :: bs)) = Some (packet_of (tseg_of b) (map tseg_of bs) dst).
Proof.
  intros bs b F.
  assert (G : forall l, Forall (fun b => (S (bu_k b) < length (bu_us b))%nat) l ->
              map use_hops (map use_of l) = map (fun b => Some (bu_hops b)) l
              /\ map glen (map tseg_of l) = map (fun b => length (bu_hops b)) l
              /\ map ginit (map tseg_of l) = map use_info (map use_of l)
              /\ flat_map (fun g' => map d_hop (g_hops g')) (map tseg_of l) = concat (map bu_hops l)).
  { induction l as [|x l IHl]; intros Fl; [repeat split; reflexivity|].
    inversion Fl as [|? ? Hx Fl']; subst. destruct (IHl Fl') as (I1 & I2 & I3 & I4).
    destruct (bu_facts x Hx) as (d & d1 & r & Hg & _ & Hh & Hl & Hi & Hu).
    cbn [map flat_map concat]. rewrite I1, I2, I3, I4, Hu, Hl, Hi, Hh. repeat split; reflexivity. }
  destruct (G (b :: bs) F) as (G1 & G2 & G3 & G4).
  unfold assemble. rewrite G1.
  assert (Hall : forallb (fun o : option (list hopf) => match o with Some _ => true | None => false end)
                         (map (fun b0 => Some (bu_hops b0)) (b :: bs)) = true).
  { apply forallb_forall. intros x Hx. apply in_map_iff in Hx. destruct Hx as (y & <- & _). reflexivity. }
  rewrite Hall. unfold packet_of, all_hops.
  cbn [map] in G2, G3. cbn [map flat_map] in G4.
  rewrite G2, G3, G4. rewrite !map_map. reflexivity.
Qed.

(** ** delivery of assembled paths *)
Theorem combined_delivers dst (b : buse) (bs : list buse) pk :
  Forall (fun b => (S (bu_k b) < length (bu_us b))%nat) (b :: bs) ->
  assemble dst (map use_of (b :: bs)) = Some pk ->
  exists d r, g_hops (tseg_of b) = d :: r /\
    (route_topo t now (tseg_of b) d r (map tseg_of bs) dst ->
     delivers mac t now (length r + S (fuel_rest (map tseg_of bs))) (d_ia d) 0 pk dst
       (fin (all_hops (tseg_of b) (map tseg_of bs)) (glen (tseg_of b) :: map glen (map tseg_of bs))
            (final_infos [] (tseg_of b) d r (map tseg_of bs)) dst)).
Proof.
  intros F Ha. rewrite (assemble_packet_of dst bs b F) in Ha. inversion Ha; subst pk; clear Ha.
  pose proof (route_auth_of bs b F) as RA.
  inversion F as [|? ? Hb _]; subst.
  destruct (bu_facts b Hb) as (d & d1 & r & Hg & _). rewrite Hg in RA.
  exists d, (d1 :: r). split; [exact Hg|]. intros RT.
  apply routed_path_delivers_aux; auto. right. discriminate.
Qed.

(** ** reversal: the description of the way back *)
Definition rev_seg (g : @tseg key) : @tseg key := mkTseg (negb (g_cons g)) (g_ts g) (rev (g_hops g)).

Definition chain_rel (c : bool) (d d' : @hopd key) : Prop :=
  if c then d_beta d' = beta_step (d_beta d) (h_mac (d_hop d))
  else d_beta d' = beta_step (d_beta d) (h_mac (d_hop d')).
Fixpoint chain_list (c : bool) (l : list (@hopd key)) : Prop :=
  match l with
  | d :: ((d' :: _) as l') => chain_rel c d d' /\ chain_list c l'
  | _ => True
  end.

Lemma chain_rel_flip c d d' : chain_rel c d d' -> chain_rel (negb c) d' d.
Proof.
  unfold chain_rel. destruct c; cbn [negb]; intros ->; rewrite beta_step_invol; reflexivity.
Qed.

Lemma chain_list_snoc c : forall l x,
  chain_list c l -> match rev l with y :: _ => chain_rel c y x | [] => True end ->
  chain_list c (l ++ [x]).
Proof.
  induction l as [|a l IH]; intros x H L; [exact I|].
  destruct l as [|b l'].
  - cbn in *. split; [exact L|exact I].
  - cbn [app chain_list] in *. destruct H as (H1 & H2). split; [exact H1|].
    apply IH; [exact H2|].
    cbn [rev] in L |- *. destruct (rev l' ++ [b]) eqn:E; [destruct (rev l'); discriminate|].
    cbn [app] in L. exact L.
Qed.

Lemma chain_list_rev c : forall l, chain_list c l -> chain_list (negb c) (rev l).
Proof.
  induction l as [|a l IH]; intros H; [exact I|].
  cbn [rev]. destruct l as [|b l'].
  - exact I.
  - cbn [chain_list] in H. destruct H as (H1 & H2).
    apply chain_list_snoc; [apply IH; exact H2|].
    rewrite rev_involutive. apply chain_rel_flip. exact H1.
Qed.

Lemma seg_auth_iff g : forall r d,
  seg_auth mac g d r <-> Forall (hop_auth mac g) (d :: r) /\ chain_list (g_cons g) (d :: r).
Proof.
  induction r as [|d' r IH]; intros d; cbn [seg_auth chain_list].
  - split; [intros (H & _); split; [constructor; [exact H|constructor]|exact I]|].
    intros (H & _). inversion H; subst. tauto.
  - rewrite IH. unfold chain_ok, chain_rel. split.
    + intros (H1 & H2 & H3 & H4). split; [constructor; assumption|]. split; assumption.
    + intros (H1 & H2 & H3). inversion H1; subst. tauto.
Qed.

Lemma seg_auth_rev g d r :
  seg_auth mac g d r ->
  match rev (d :: r) with
  | d' :: r' => seg_auth mac (rev_seg g) d' r'
  | [] => False
  end.
Proof.
  intros H. apply seg_auth_iff in H. destruct H as (H1 & H2).
  destruct (rev (d :: r)) as [|d' r'] eqn:E.
  - apply (f_equal (@length _)) in E. rewrite rev_length in E. discriminate.
  - apply seg_auth_iff. rewrite <- E. split.
    + apply Forall_rev. exact H1.
    + cbn [rev_seg g_cons]. apply chain_list_rev. exact H2.
Qed.

(** a path description as a list of segments *)
Definition hopsf (g : @tseg key) : list hopf := map d_hop (g_hops g).
Definition segs_auth (segs : list (@tseg key)) : Prop :=
  Forall (fun g => match g_hops g with d :: r => seg_auth mac g d r | [] => False end) segs.
Definition segs_two (segs : list (@tseg key)) : Prop :=
  Forall (fun g => exists d0 d1 r, g_hops g = d0 :: d1 :: r) segs.

Lemma route_auth_segs : forall rest g d r,
  g_hops g = d :: r -> route_auth mac g d r rest -> segs_auth (g :: rest).
Proof.
  induction rest as [|g' rest IH]; intros g d r Hg (A & A'); constructor; try (rewrite Hg; exact A).
  - constructor.
  - destruct (g_hops g') as [|d0 [|d1 r']] eqn:Hg'; try contradiction.
    destruct A' as (A0 & Ac & Ar).
    assert (R : route_auth mac g' d0 (d1 :: r') rest).
    { destruct rest; cbn [route_auth seg_auth] in *; tauto. }
    apply (IH g' d0 (d1 :: r') Hg' R).
Qed.

Lemma segs_route_auth : forall rest g d r,
  g_hops g = d :: r -> segs_auth (g :: rest) -> segs_two rest -> route_auth mac g d r rest.
Proof.
  induction rest as [|g' rest IH]; intros g d r Hg A T; inversion A as [|? ? A1 A2]; subst;
    rewrite Hg in A1; cbn [route_auth].
  - split; [exact A1|exact I].
  - split; [exact A1|]. inversion T as [|? ? (d0 & d1 & r' & Hg') T']; subst. rewrite Hg'.
    specialize (IH g' d0 (d1 :: r') Hg' A2 T').
    assert (S0 : seg_auth mac g' d0 (d1 :: r')) by (destruct rest; cbn [route_auth] in IH; tauto).
    cbn [seg_auth] in S0. destruct S0 as (X1 & X2 & _).
    refine (conj X1 (conj X2 _)). apply route_auth_tail with (d0 := d0). exact IH.
Qed.

Lemma segs_auth_rev segs : segs_auth segs -> segs_auth (rev (map rev_seg segs)).
Proof.
  intros H. apply Forall_rev. apply Forall_forall. intros g' Hin.
  apply in_map_iff in Hin. destruct Hin as (g & <- & Hin).
  unfold segs_auth in H. rewrite Forall_forall in H. specialize (H g Hin).
  destruct (g_hops g) as [|d r] eqn:Hg; [contradiction|].
  pose proof (seg_auth_rev g d r H) as R. cbn [rev_seg g_hops]. rewrite Hg. exact R.
Qed.

Lemma segs_two_rev segs : segs_two segs -> segs_two (rev (map rev_seg segs)).
Proof.
  intros H. apply Forall_rev. apply Forall_forall. intros g' Hin.
  apply in_map_iff in Hin. destruct Hin as (g & <- & Hin).
  unfold segs_two in H. rewrite Forall_forall in H. destruct (H g Hin) as (d0 & d1 & r & Hg).
  cbn [rev_seg g_hops]. rewrite Hg.
  destruct (rev (d0 :: d1 :: r)) as [|x [|y l]] eqn:E;
    try (apply (f_equal (@length _)) in E; rewrite rev_length in E; cbn in E; lia).
  eauto.
Qed.

(** the info fields left behind, as a map over the segments *)
Definition last_info (g : @tseg key) : infof := g_info g (first_beta (rev_seg g)).

Lemma hd_rev_last {A} (l : list A) x : hd x (rev l) = last l x.
Proof. rewrite <- (rev_involutive l) at 2. rewrite last_rev_hd. reflexivity. Qed.

Lemma last_beta_eq g d r : g_hops g = d :: r -> d_beta (last r d) = first_beta (rev_seg g).
Proof.
  intros Hg. unfold first_beta, rev_seg. cbn [g_hops]. rewrite Hg.
  rewrite <- (last_shift r d d). rewrite <- hd_rev_last.
  destruct (rev (d :: r)) eqn:E; [apply (f_equal (@length _)) in E; rewrite rev_length in E; discriminate|reflexivity].
Qed.

Lemma final_infos_map : forall rest Ipre g d r,
  d_beta (last r d) = first_beta (rev_seg g) -> segs_two rest ->
  final_infos Ipre g d r rest = Ipre ++ map last_info (g :: rest).
Proof.
  induction rest as [|g' rest IH]; intros Ipre g d r Hb T; cbn [final_infos].
  - cbn [map]. unfold last_info. rewrite Hb. reflexivity.
  - inversion T as [|? ? (d0 & d1 & r' & Hg') T']; subst. rewrite Hg'.
    rewrite (IH _ g' d1 r').
    + rewrite <- app_assoc. cbn [app map]. unfold last_info at 2. rewrite Hb. reflexivity.
    + rewrite <- (last_beta_eq g' d0 (d1 :: r') Hg'). f_equal. symmetry. apply last_shift.
    + exact T'.
Qed.

Lemma rev_flat_hops (segs : list (@tseg key)) :
  rev (flat_map hopsf segs) = flat_map hopsf (rev (map rev_seg segs)).
Proof.
  induction segs as [|g segs IH]; [reflexivity|].
  cbn [flat_map map rev]. rewrite rev_app_distr, IH, flat_map_app. cbn [flat_map].
  rewrite app_nil_r. f_equal. unfold hopsf, rev_seg. cbn [g_hops]. rewrite map_rev. reflexivity.
Qed.

(** the reversed arrived packet is the packet of the reversed description *)
Lemma reversed_packet g rest d r src dst pk' g2 rest2 :
  g_hops g = d :: r -> segs_two rest ->
  fin (all_hops g rest) (glen g :: map glen rest) (final_infos [] g d r rest) dst pk' ->
  rev (map rev_seg (g :: rest)) = g2 :: rest2 ->
  mkPkt src (path_reverse (k_path pk')) = packet_of g2 rest2 src.
Proof.
  intros Hg T (F1 & F2 & F3 & F4 & F5 & F6) E.
  unfold path_reverse, packet_of. rewrite F2, F3, F4. f_equal.
  rewrite (final_infos_map rest [] g d r (last_beta_eq g d r Hg) T). cbn [app].
  assert (Hl : glen g2 :: map glen rest2 = rev (glen g :: map glen rest)).
  { change (glen g2 :: map glen rest2) with (map glen (g2 :: rest2)). rewrite <- E.
    change (glen g :: map glen rest) with (map glen (g :: rest)).
    rewrite map_rev, map_map. f_equal. apply map_ext. intros x. unfold glen, rev_seg. cbn. apply rev_length. }
  assert (Hi : ginit g2 :: map ginit rest2
               = rev (map (fun i => mkInfo (i_peer i) (negb (i_cons i)) (i_segid i) (i_ts i)) (map last_info (g :: rest)))).
  { change (ginit g2 :: map ginit rest2) with (map ginit (g2 :: rest2)). rewrite <- E.
    rewrite map_rev, !map_map. f_equal. }
  assert (Hh : all_hops g2 rest2 = rev (all_hops g rest)).
  { change (all_hops g2 rest2) with (flat_map hopsf (g2 :: rest2)). rewrite <- E.
    change (all_hops g rest) with (flat_map hopsf (g :: rest)). symmetry. apply rev_flat_hops. }
  rewrite Hl, Hi, Hh. f_equal; lia.
Qed.

(** the reply over the reversed arrived path is authentic hop by hop; where the topology
    carries it, the reference router delivers it to the sender *)
Theorem reverse_delivers_desc g rest d r src dst pk' :
  g_hops g = d :: r -> segs_two (g :: rest) ->
  route_auth mac g d r rest ->
  fin (all_hops g rest) (glen g :: map glen rest) (final_infos [] g d r rest) dst pk' ->
  exists g2 rest2 d2 r2,
    rev (map rev_seg (g :: rest)) = g2 :: rest2 /\ g_hops g2 = d2 :: r2
    /\ (route_topo t now g2 d2 r2 rest2 src ->
        delivers mac t now (length r2 + S (fuel_rest rest2)) (d_ia d2) 0
                 (mkPkt src (path_reverse (k_path pk'))) src
                 (fin (all_hops g2 rest2) (glen g2 :: map glen rest2) (final_infos [] g2 d2 r2 rest2) src)).
Proof.
  intros Hg T RA F.
  pose proof (route_auth_segs rest g d r Hg RA) as SA.
  pose proof (segs_auth_rev _ SA) as SA2. pose proof (segs_two_rev _ T) as T2.
  destruct (rev (map rev_seg (g :: rest))) as [|g2 rest2] eqn:E.
  { apply (f_equal (@length _)) in E. rewrite rev_length, map_length in E. discriminate. }
  inversion T2 as [|? ? (d2 & d3 & r3 & Hg2) T2']; subst.
  exists g2, rest2, d2, (d3 :: r3). refine (conj eq_refl (conj Hg2 _)). intros RT.
  inversion T as [|? ? _ T']; subst.
  rewrite (reversed_packet g rest d r src dst pk' g2 rest2 Hg T' F E).
  apply routed_path_delivers_aux; auto.
  - right. discriminate.
  - apply segs_route_auth; auto.
Qed.

(** ** ... and so does the SDK's own simulated router (after the repairs): no PEERING flag,
    every segment at least two hops, so [sdk_complete_wrt_ref] applies *)
Lemma packet_of_shape (g : @tseg key) (rest : list (@tseg key)) dst :
  segs_two (g :: rest) ->
  lens_two (p_lens (k_path (packet_of g rest dst)))
  /\ sum_nat (p_lens (k_path (packet_of g rest dst))) = length (p_hops (k_path (packet_of g rest dst)))
  /\ uses_peering (k_path (packet_of g rest dst)) = false.
Proof.
  intros T. unfold packet_of. cbn [k_path p_lens p_hops p_infos].
  change (glen g :: map glen rest) with (map glen (g :: rest)).
  change (ginit g :: map ginit rest) with (map ginit (g :: rest)).
  change (all_hops g rest) with (flat_map hopsf (g :: rest)).
  generalize (g :: rest) T. clear. intros l T. unfold lens_two, uses_peering, segs_two in *.
  induction T as [|x l (d0 & d1 & r & Hx) T IH]; [repeat split; constructor|].
  destruct IH as (I1 & I2 & I3). cbn [map flat_map existsb].
  refine (conj _ (conj _ _)).
  - constructor; [unfold glen; rewrite Hx; cbn; lia|exact I1].
  - unfold sum_nat in *. cbn [fold_right]. rewrite app_length, I2. unfold hopsf, glen. rewrite map_length. reflexivity.
  - cbn. exact I3.
Qed.

Theorem combined_delivers_sdk dst (b : buse) (bs : list buse) pk :
  wf_topo t = true ->
  Forall (fun b => (S (bu_k b) < length (bu_us b))%nat) (b :: bs) ->
  assemble dst (map use_of (b :: bs)) = Some pk ->
  (length (p_hops (k_path pk)) <= 64)%nat ->
  exists d r, g_hops (tseg_of b) = d :: r /\
    (route_topo t now (tseg_of b) d r (map tseg_of bs) dst ->
     exists tr pk' pre il,
       sdk_sim mac (length r + S (fuel_rest (map tseg_of bs))) t now (d_ia d) 0 pk = (tr, EndVerdict, pk')
       /\ tr = pre ++ [mkStep dst il ALocal]).
Proof.
  intros W F Ha H64. destruct (combined_delivers dst b bs pk F Ha) as (d & r & Hg & D).
  exists d, r. split; [exact Hg|]. intros RT. destruct (D RT) as (rtr & pk' & R & _).
  rewrite (assemble_packet_of dst bs b F) in Ha. inversion Ha; subst pk; clear Ha.
  assert (T : segs_two (tseg_of b :: map tseg_of bs)).
  { change (tseg_of b :: map tseg_of bs) with (map tseg_of (b :: bs)).
    unfold segs_two. apply Forall_forall. intros g Hin. apply in_map_iff in Hin. destruct Hin as (x & <- & Hx).
    rewrite Forall_forall in F. destruct (bu_facts x (F x Hx)) as (d0 & d1 & r0 & Hg0 & _). eauto. }
  destruct (packet_of_shape (tseg_of b) (map tseg_of bs) dst T) as (S1 & S2 & S3).
  destruct (ref_sim_complete mac _ t now W _ _ _ _ _ _ S1 S2 H64 S3 R) as (tr & Hs & _ & pre & il & Et).
  exists tr, pk', pre, il. split; assumption.
Qed.

End B.
