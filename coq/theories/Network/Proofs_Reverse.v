(** Network area, C01: in a topology whose interfaces identify their link, the way back of
    a well-routed path is well routed: [route_topo] of the reversed description follows from
    [route_topo] of the forward one. *)
From Coq Require Import Lia ZifyBool ZifyNat ZifyN.
From Sci Require Import Network.Model Network.Spec Network.Proofs Network.Proofs_Sound
     Network.Proofs_C01 Network.Proofs_Deliver Network.Proofs_Combined.
Local Open Scope N_scope.
Arguments N.add : simpl never. Arguments N.sub : simpl never. Arguments N.mul : simpl never.
Arguments N.div : simpl never. Arguments N.modulo : simpl never. Arguments N.eqb : simpl never.
Arguments N.ltb : simpl never. Arguments N.leb : simpl never.

Section R.
Context {key : Type}.
Variable t : topology key.
Variable now : N.

Definition touches (l : link) (ia i : N) : bool :=
  ((l_aif l =? i) && (l_a l =? ia)) || ((l_bif l =? i) && (l_b l =? ia)).

(** every (AS, interface) belongs to at most one link; no link joins an AS to itself
    (both enforced by [ScionTopologyBuilder::add_link] / [ScionLinkId::new]) *)
Definition links_wf : Prop :=
  (forall l1 l2 ia i, In l1 (t_links t) -> In l2 (t_links t) ->
                      touches l1 ia i = true -> touches l2 ia i = true -> l1 = l2)
  /\ (forall l, In l (t_links t) -> l_a l <> l_b l).

Lemma scion_link_touches ia i l : scion_link t ia i = Some l -> In l (t_links t) /\ touches l ia i = true.
Proof. unfold scion_link. intros H. apply find_some in H. exact H. Qed.

Lemma scion_link_unique ia i l : links_wf -> In l (t_links t) -> touches l ia i = true ->
  scion_link t ia i = Some l.
Proof.
  intros (U & _) Hin Ht. unfold scion_link.
  change (find (fun l0 => touches l0 ia i) (t_links t) = Some l).
  destruct (find (fun l0 => touches l0 ia i) (t_links t)) as [l'|] eqn:F.
  - apply find_some in F. destruct F as (Hin' & Ht'). f_equal. apply (U l' l ia i); assumption.
  - exfalso. pose proof (find_none _ _ F l Hin) as X. cbn in X. rewrite Ht in X. discriminate.
Qed.

(** the far end of a link leads back *)
Lemma link_sym a e l b i :
  links_wf -> scion_link t a e = Some l -> get_peer l a = Some (b, i) ->
  scion_link t b i = Some l /\ get_peer l b = Some (a, e) /\ a <> b.
Proof.
  intros Wf Hs Hp. pose proof Wf as (_ & NS).
  destruct (scion_link_touches _ _ _ Hs) as (Hin & Ht). specialize (NS l Hin).
  assert (Ht' : (l_aif l = e /\ l_a l = a) \/ (l_bif l = e /\ l_b l = a)).
  { unfold touches in Ht. apply orb_true_iff in Ht. destruct Ht as [Ht|Ht]; apply andb_true_iff in Ht;
      destruct Ht as (X & Y); apply N.eqb_eq in X, Y; auto. }
  clear Ht. unfold get_peer in Hp.
  destruct (l_a l =? a) eqn:Ea.
  - apply N.eqb_eq in Ea. inversion Hp; subst b i; clear Hp.
    assert (He : l_aif l = e) by (destruct Ht' as [(X & _)|(_ & Y)]; [exact X|congruence]).
    refine (conj _ (conj _ _)).
    + apply scion_link_unique; [exact Wf|exact Hin|]. unfold touches. rewrite !N.eqb_refl. apply orb_true_r.
    + unfold get_peer. assert ((l_a l =? l_b l) = false) as -> by (apply N.eqb_neq; exact NS).
      rewrite N.eqb_refl. congruence.
    + congruence.
  - apply N.eqb_neq in Ea. destruct (l_b l =? a) eqn:Eb; [|discriminate]. apply N.eqb_eq in Eb.
    inversion Hp; subst b i; clear Hp.
    assert (He : l_bif l = e) by (destruct Ht' as [(_ & Y)|(X & _)]; [congruence|exact X]).
    refine (conj _ (conj _ _)).
    + apply scion_link_unique; [exact Wf|exact Hin|]. unfold touches. rewrite !N.eqb_refl. reflexivity.
    + unfold get_peer. rewrite N.eqb_refl. congruence.
    + congruence.
Qed.

(** link types seen from the two ends are reverses of each other *)
Definition rlt_rev (x : rlt) : rlt :=
  match x with ToCore => ToCore | ToParent => ToChild | ToChild => ToParent | ToPeer => ToPeer end.

Lemma iface_sym a e l b i ty up :
  links_wf -> scion_link t a e = Some l -> get_peer l a = Some (b, i) ->
  iface_state t a e = Some (ty, up) ->
  iface_state t b i = Some (rlt_rev ty, up).
Proof.
  intros Wf Hs Hp Hi. destruct (link_sym a e l b i Wf Hs Hp) as (Hs' & Hp' & Hne).
  unfold iface_state in *. rewrite Hs in Hi. rewrite Hs'.
  pose proof Wf as (_ & NS). destruct (scion_link_touches _ _ _ Hs) as (Hin & _). specialize (NS l Hin).
  unfold get_link_type, get_peer in *.
  destruct (l_a l =? a) eqn:Ea.
  - apply N.eqb_eq in Ea. inversion Hp; subst b i.
    assert ((l_a l =? l_b l) = false) as -> by (apply N.eqb_neq; exact NS). rewrite N.eqb_refl.
    inversion Hi; subst. f_equal. f_equal. destruct (l_ty l); vm_compute; reflexivity.
  - destruct (l_b l =? a) eqn:Eb; [|discriminate]. inversion Hp; subst b i. rewrite N.eqb_refl.
    inversion Hi; subst. f_equal. f_equal. destruct (l_ty l); vm_compute; reflexivity.
Qed.

(** the valid crossover pairs are closed under swapping arrival and departure (both link
    types are seen from the crossover AS) *)
Lemma xover_swap a b : ref_xover_ok a b = true -> ref_xover_ok b a = true.
Proof. destruct a, b; cbn; intros; congruence. Qed.

(** ** list view of [route_topo] *)
Fixpoint links_list (g : @tseg key) (l : list (@hopd key)) : Prop :=
  match l with
  | d :: ((d' :: _) as l') => link_ok t g d g d' /\ links_list g l'
  | _ => True
  end.
Definition seg_topo_l (g : @tseg key) : Prop :=
  Forall (hop_topo t now g) (g_hops g) /\ links_list g (g_hops g).

(** crossover between consecutive segments: last hop of [g], first hop of [g'] *)
Definition xo (g g' : @tseg key) : Prop :=
  match rev (g_hops g), g_hops g' with
  | dl :: _, d0 :: _ =>
    d_ia d0 = d_ia dl
    /\ exists lin upi lout,
         iface_state t (d_ia dl) (d_in g dl) = Some (lin, upi)
         /\ iface_state t (d_ia dl) (d_eg g' d0) = Some (lout, true)
         /\ ref_xover_ok lin lout = true
  | _, _ => False
  end.
Fixpoint xovers (segs : list (@tseg key)) : Prop :=
  match segs with
  | g :: ((g' :: _) as rest) => xo g g' /\ xovers rest
  | _ => True
  end.
Definition last_ia (segs : list (@tseg key)) : N :=
  match rev segs with
  | g :: _ => match rev (g_hops g) with d :: _ => d_ia d | [] => 0 end
  | [] => 0
  end.
Definition route_topo_l (segs : list (@tseg key)) (dst : N) : Prop :=
  Forall seg_topo_l segs /\ xovers segs /\ last_ia segs = dst.

Lemma seg_topo_iff g : forall r d,
  seg_topo t now g d r <-> Forall (hop_topo t now g) (d :: r) /\ links_list g (d :: r).
Proof.
  induction r as [|d' r IH]; intros d; cbn [seg_topo links_list].
  - split; [intros (H & _); split; [constructor; [exact H|constructor]|exact I]|].
    intros (H & _). inversion H; subst. tauto.
  - rewrite IH. split.
    + intros (H1 & H2 & H3 & H4). split; [constructor; assumption|]. split; assumption.
    + intros (H1 & H2 & H3). inversion H1; subst. tauto.
Qed.

Lemma rev_last_hd {A} (l : list A) (d x : A) : rev (d :: l) = x :: tl (rev (d :: l)) -> x = last l d.
Proof.
  intros H. pose proof (hd_rev_last (d :: l) d) as E. rewrite H in E. cbn [hd] in E.
  rewrite E. apply last_shift.
Qed.

Lemma route_topo_shift g d0 d1 r rest dst :
  route_topo t now g d0 (d1 :: r) rest dst
  <-> hop_topo t now g d0 /\ link_ok t g d0 g d1 /\ route_topo t now g d1 r rest dst.
Proof.
  destruct rest as [|g' rest]; cbn [route_topo seg_topo]; rewrite (last_shift r d1 d0); tauto.
Qed.

Lemma route_topo_to_l dst : forall rest g d r,
  g_hops g = d :: r -> route_topo t now g d r rest dst -> route_topo_l (g :: rest) dst.
Proof.
  induction rest as [|g' rest IH]; intros g d r Hg (T & T'); unfold route_topo_l.
  - refine (conj _ (conj I _)).
    + constructor; [|constructor]. unfold seg_topo_l. rewrite Hg. apply seg_topo_iff. exact T.
    + unfold last_ia. cbn [rev app]. rewrite Hg.
      destruct (rev (d :: r)) as [|x l] eqn:E; [apply (f_equal (@length _)) in E; rewrite rev_length in E; discriminate|].
      rewrite <- T'. f_equal. apply rev_last_hd. rewrite E. reflexivity.
  - destruct (g_hops g') as [|d0 [|d1 r']] eqn:Hg'; try contradiction.
    destruct T' as ((Hia & X) & Tl & T0 & Tr).
    assert (Tr' : route_topo t now g' d0 (d1 :: r') rest dst) by (apply route_topo_shift; auto).
    destruct (IH g' d0 (d1 :: r') Hg' Tr') as (F & XO & L).
    refine (conj _ (conj _ _)).
    + constructor; [|exact F]. unfold seg_topo_l. rewrite Hg. apply seg_topo_iff. exact T.
    + cbn [xovers]. split; [|exact XO]. unfold xo. rewrite Hg, Hg'.
      destruct (rev (d :: r)) as [|x l] eqn:E; [apply (f_equal (@length _)) in E; rewrite rev_length in E; discriminate|].
      assert (x = last r d) by (apply rev_last_hd; rewrite E; reflexivity). subst x.
      split; [exact Hia|exact X].
    + unfold last_ia in *. cbn [rev] in *. destruct (rev rest ++ [g']) eqn:E1; [destruct (rev rest); discriminate|].
      rewrite <- L. cbn [app]. reflexivity.
Qed.

Lemma route_topo_of_l dst : forall rest g d r,
  g_hops g = d :: r -> segs_two rest -> route_topo_l (g :: rest) dst -> route_topo t now g d r rest dst.
Proof.
  induction rest as [|g' rest IH]; intros g d r Hg T2 (F & XO & L); cbn [route_topo].
  - pose proof (Forall_inv F) as F1. unfold seg_topo_l in F1. rewrite Hg in F1.
    split; [apply seg_topo_iff; exact F1|].
    unfold last_ia in L. cbn [rev app] in L. rewrite Hg in L.
    destruct (rev (d :: r)) as [|x l] eqn:E; [apply (f_equal (@length _)) in E; rewrite rev_length in E; discriminate|].
    rewrite <- L. f_equal. symmetry. apply rev_last_hd. rewrite E. reflexivity.
  - pose proof (Forall_inv F) as F1. pose proof (Forall_inv_tail F) as F2. unfold seg_topo_l in F1. rewrite Hg in F1.
    split; [apply seg_topo_iff; exact F1|].
    pose proof (Forall_inv T2) as (d0 & d1 & r' & Hg'). pose proof (Forall_inv_tail T2) as T2'. rewrite Hg'.
    cbn [xovers] in XO. destruct XO as (X & XO').
    assert (L' : last_ia (g' :: rest) = dst).
    { unfold last_ia in *. cbn [rev] in *. destruct (rev rest ++ [g']) eqn:E1; [destruct (rev rest); discriminate|].
      cbn [app] in L. exact L. }
    pose proof (IH g' d0 (d1 :: r') Hg' T2' (conj F2 (conj XO' L'))) as R.
    unfold xo in X. rewrite Hg, Hg' in X.
    destruct (rev (d :: r)) as [|x l] eqn:E; [contradiction|].
    assert (x = last r d) by (apply rev_last_hd; rewrite E; reflexivity). subst x.
    pose proof (Forall_inv F2) as F21. unfold seg_topo_l in F21. rewrite Hg' in F21.
    destruct F21 as (FH & FL). pose proof (Forall_inv FH) as H0. cbn [links_list] in FL. destruct FL as (Ll & _).
    refine (conj X (conj Ll (conj H0 _))).
    apply route_topo_shift in R. tauto.
Qed.

(** ** reversal *)
Fixpoint consec {A} (R : A -> A -> Prop) (l : list A) : Prop :=
  match l with
  | a :: ((b :: _) as l') => R a b /\ consec R l'
  | _ => True
  end.

Lemma consec_snoc {A} (R : A -> A -> Prop) : forall l x,
  consec R l -> match rev l with y :: _ => R y x | [] => True end -> consec R (l ++ [x]).
Proof.
  induction l as [|a l IH]; intros x H L; [exact I|].
  destruct l as [|b l'].
  - cbn in *. split; [exact L|exact I].
  - cbn [app consec] in *. destruct H as (H1 & H2). split; [exact H1|].
    apply IH; [exact H2|].
    cbn [rev] in L |- *. destruct (rev l' ++ [b]) eqn:E; [destruct (rev l'); discriminate|].
    cbn [app] in L. exact L.
Qed.

Lemma consec_rev {A} (R R' : A -> A -> Prop) : (forall a b, R a b -> R' b a) ->
  forall l, consec R l -> consec R' (rev l).
Proof.
  intros HR. induction l as [|a l IH]; intros H; [exact I|].
  cbn [rev]. destruct l as [|b l'].
  - exact I.
  - cbn [consec] in H. destruct H as (H1 & H2).
    apply consec_snoc; [apply IH; exact H2|].
    rewrite rev_involutive. apply HR. exact H1.
Qed.

Lemma consec_map {A B} (f : A -> B) (R : B -> B -> Prop) : forall l,
  consec (fun x y => R (f x) (f y)) l -> consec R (map f l).
Proof.
  induction l as [|a l IH]; intros H; [exact I|]. destruct l as [|b l']; [exact I|].
  cbn [map consec] in *. destruct H as (H1 & H2). split; [exact H1|]. apply IH. exact H2.
Qed.

Lemma links_list_consec g l : links_list g l <-> consec (fun d d' => link_ok t g d g d') l.
Proof.
  induction l as [|a l IH]; [tauto|]. destruct l as [|b l']; [cbn; tauto|].
  cbn [links_list consec]. rewrite IH. tauto.
Qed.

Hypothesis Wf : links_wf.
Hypothesis W0 : wf_topo t = true.

(** a link crossed in the other direction *)
Lemma link_rev g d d' : link_ok t g d g d' -> link_ok t (rev_seg g) d' (rev_seg g) d.
Proof.
  intros (ty & l & Hif & Hsl & Hgp & Hnz).
  destruct (link_sym _ _ _ _ _ Wf Hsl Hgp) as (Hsl' & Hgp' & _).
  pose proof (iface_sym _ _ _ _ _ _ _ Wf Hsl Hgp Hif) as Hif'.
  assert (E1 : d_eg (rev_seg g) d' = d_in g d') by (unfold d_eg, d_in, rev_seg; cbn; destruct (g_cons g); reflexivity).
  assert (E2 : d_in (rev_seg g) d = d_eg g d) by (unfold d_eg, d_in, rev_seg; cbn; destruct (g_cons g); reflexivity).
  unfold link_ok. rewrite E1, E2. exists (rlt_rev ty), l. refine (conj Hif' (conj Hsl' (conj Hgp' _))).
  eapply iface_nonzero; eauto.
Qed.

Lemma hop_topo_rev g d : hop_topo t now g d -> hop_topo t now (rev_seg g) d.
Proof. unfold hop_topo. tauto. Qed.

Lemma seg_topo_l_rev g : seg_topo_l g -> seg_topo_l (rev_seg g).
Proof.
  intros (F & L). unfold seg_topo_l. cbn [rev_seg g_hops]. split.
  - apply Forall_rev. revert F. apply Forall_impl. intros d. apply hop_topo_rev.
  - apply links_list_consec. apply links_list_consec in L.
    revert L. apply consec_rev. intros a b. apply link_rev.
Qed.

(** the link on which the last hop of a segment was reached is up, seen from that hop *)
Lemma last_ingress_up g dl dp rest' : seg_topo_l g -> rev (g_hops g) = dl :: dp :: rest' ->
  exists ty, iface_state t (d_ia dl) (d_in g dl) = Some (ty, true).
Proof.
  intros (_ & L) E. apply links_list_consec in L.
  pose proof (consec_rev _ (fun b a => link_ok t g a g b) (fun a b H => H) _ L) as C.
  rewrite E in C. cbn [consec] in C. destruct C as ((ty & l & Hif & Hsl & Hgp & _) & _).
  exists (rlt_rev ty). eapply iface_sym; eauto.
Qed.

Lemma xo_rev g g' : seg_topo_l g -> (exists d0 d1 r, g_hops g = d0 :: d1 :: r) ->
  xo g g' -> xo (rev_seg g') (rev_seg g).
Proof.
  intros ST (h0 & h1 & hr & Hg) X. unfold xo in *. cbn [rev_seg g_hops]. rewrite rev_involutive.
  destruct (rev (g_hops g)) as [|dl [|dp rest']] eqn:E; try contradiction.
  { apply (f_equal (@length _)) in E. rewrite rev_length, Hg in E. discriminate. }
  destruct (g_hops g') as [|d0 r0]; [contradiction|].
  destruct X as (Hia & lin & upi & lout & H1 & H2 & H3).
  destruct (last_ingress_up g dl dp rest' ST E) as (ty & Hup). rewrite H1 in Hup. inversion Hup; subst ty upi.
  assert (E1 : d_in (rev_seg g') d0 = d_eg g' d0) by (unfold d_eg, d_in, rev_seg; cbn; destruct (g_cons g'); reflexivity).
  assert (E2 : d_eg (rev_seg g) dl = d_in g dl) by (unfold d_eg, d_in, rev_seg; cbn; destruct (g_cons g); reflexivity).
  split; [symmetry; exact Hia|]. rewrite E1, E2, Hia. exists lout, true, lin.
  refine (conj H2 (conj H1 _)). apply xover_swap. exact H3.
Qed.

Definition first_ia (segs : list (@tseg key)) : N :=
  match segs with g :: _ => match g_hops g with d :: _ => d_ia d | [] => 0 end | [] => 0 end.

Lemma route_topo_l_rev segs dst :
  segs_two segs -> route_topo_l segs dst -> route_topo_l (rev (map rev_seg segs)) (first_ia segs).
Proof.
  intros T2 (F & XO & _). unfold route_topo_l. refine (conj _ (conj _ _)).
  - apply Forall_rev. apply Forall_forall. intros x Hin. apply in_map_iff in Hin. destruct Hin as (g & <- & Hin).
    apply seg_topo_l_rev. rewrite Forall_forall in F. apply F. exact Hin.
  - assert (C : consec (fun g g' => xo (rev_seg g') (rev_seg g)) segs).
    { clear - F XO T2 Wf W0. induction segs as [|g segs IH]; [exact I|]. destruct segs as [|g' segs']; [exact I|].
      cbn [xovers] in XO. destruct XO as (X & XO'). cbn [consec]. split.
      - apply xo_rev; [exact (Forall_inv F)|exact (Forall_inv T2)|exact X].
      - apply IH; [exact (Forall_inv_tail T2)|exact (Forall_inv_tail F)|exact XO']. }
    assert (C2 : consec xo (rev (map rev_seg segs))).
    { apply (consec_rev (fun a b => xo b a) xo (fun a b H => H)). apply consec_map. exact C. }
    clear - C2. revert C2. generalize (rev (map rev_seg segs)). induction l as [|a l IH]; intros C; [exact I|].
    destruct l as [|b l']; [exact I|]. cbn [xovers consec] in *. destruct C as (C1 & C2). split; [exact C1|apply IH; exact C2].
  - unfold last_ia, first_ia. rewrite rev_involutive. destruct segs as [|g segs']; [reflexivity|].
    cbn [map rev_seg g_hops]. rewrite rev_involutive. reflexivity.
Qed.

(** the reply reaches the sender: only forward conditions are assumed *)
Theorem reverse_delivers_full (mac : key -> N -> N -> N -> N -> N -> N) g rest d r dst pk' :
  g_hops g = d :: r -> segs_two (g :: rest) ->
  route_auth mac g d r rest -> route_topo t now g d r rest dst ->
  fin (all_hops g rest) (glen g :: map glen rest) (final_infos [] g d r rest) dst pk' ->
  exists g2 rest2 d2 r2,
    rev (map rev_seg (g :: rest)) = g2 :: rest2 /\ g_hops g2 = d2 :: r2
    /\ delivers mac t now (length r2 + S (fuel_rest rest2)) (d_ia d2) 0
                (mkPkt (d_ia d) (path_reverse (k_path pk'))) (d_ia d)
                (fin (all_hops g2 rest2) (glen g2 :: map glen rest2) (final_infos [] g2 d2 r2 rest2) (d_ia d)).
Proof.
  intros Hg T2 RA RT F.
  destruct (reverse_delivers_desc mac t now g rest d r (d_ia d) dst pk' Hg T2 RA F)
    as (g2 & rest2 & d2 & r2 & E & Hg2 & D).
  exists g2, rest2, d2, r2. refine (conj E (conj Hg2 _)). apply D.
  pose proof (route_topo_to_l dst rest g d r Hg RT) as RL.
  pose proof (route_topo_l_rev (g :: rest) dst T2 RL) as RL2. rewrite E in RL2.
  assert (Hf : first_ia (g :: rest) = d_ia d) by (unfold first_ia; rewrite Hg; reflexivity).
  rewrite Hf in RL2.
  apply route_topo_of_l; [exact Hg2| |exact RL2].
  pose proof (segs_two_rev mac now _ T2) as T2r. rewrite E in T2r. exact (Forall_inv_tail T2r).
Qed.

End R.
