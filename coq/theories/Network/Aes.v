(** AES-128 and AES-CMAC (RFC 4493) for one complete 16-byte block, written in Gallina so that
    the executable instance of the hop-field MAC used by the correspondence check is the
    real function (validated below against FIPS-197 / RFC 4493 vectors and, on every run,
    against [calculate_hop_mac] of the implementation by the harness).
    The theorems of this area never look inside: there the MAC is a [Section] variable. *)
From Coq Require Import List NArith Bool.
Import ListNotations.
Local Open Scope N_scope.

Definition xtime (b : N) : N := let s := b * 2 in if 256 <=? s then N.lxor (s - 256) 27 else s.
Fixpoint gmul_aux (n : nat) (a b acc : N) : N :=
  match n with
  | O => acc
  | S k => gmul_aux k (xtime a) (b / 2) (if N.odd b then N.lxor acc a else acc)
  end.
Definition gmul (a b : N) : N := gmul_aux 8 a b 0.
Definition ginv (a : N) : N :=
  let a2 := gmul a a in let a4 := gmul a2 a2 in let a8 := gmul a4 a4 in
  let a16 := gmul a8 a8 in let a32 := gmul a16 a16 in let a64 := gmul a32 a32 in
  let a128 := gmul a64 a64 in
  gmul a2 (gmul a4 (gmul a8 (gmul a16 (gmul a32 (gmul a64 a128))))).
Definition rotl8 (b : N) (k : N) : N := N.lor ((b * 2 ^ k) mod 256) (b / 2 ^ (8 - k)).
Definition sbox_calc (b : N) : N :=
  let x := ginv b in
  N.lxor (N.lxor (N.lxor (N.lxor (N.lxor x (rotl8 x 1)) (rotl8 x 2)) (rotl8 x 3)) (rotl8 x 4)) 99.
Definition sbox_list : list N :=
  Eval vm_compute in map (fun i => sbox_calc (N.of_nat i)) (seq 0 256).
Fixpoint chunk16 (n : nat) (l : list N) : list (list N) :=
  match n with O => [] | S k => firstn 16 l :: chunk16 k (skipn 16 l) end.
Definition sbox_rows : list (list N) := Eval vm_compute in chunk16 16 sbox_list.
(** two-level lookup (16 x 16): cheap under vm_compute *)
Definition sbox (b : N) : N := nth (N.to_nat (b mod 16)) (nth (N.to_nat (b / 16)) sbox_rows []) 0.

Fixpoint xorl (a b : list N) : list N :=
  match a, b with x :: a', y :: b' => N.lxor x y :: xorl a' b' | _, _ => [] end.

Definition nthb (l : list N) (i : nat) : N := nth i l 0.

Definition shift_rows (s : list N) : list N :=
  map (nthb s) [0; 5; 10; 15; 4; 9; 14; 3; 8; 13; 2; 7; 12; 1; 6; 11]%nat.

Definition mix1 (a0 a1 a2 a3 : N) : list N :=
  let x3 v := N.lxor (xtime v) v in
  [ N.lxor (N.lxor (xtime a0) (x3 a1)) (N.lxor a2 a3);
    N.lxor (N.lxor a0 (xtime a1)) (N.lxor (x3 a2) a3);
    N.lxor (N.lxor a0 a1) (N.lxor (xtime a2) (x3 a3));
    N.lxor (N.lxor (x3 a0) a1) (N.lxor a2 (xtime a3)) ].
Fixpoint mix_columns (s : list N) : list N :=
  match s with
  | a0 :: a1 :: a2 :: a3 :: r => mix1 a0 a1 a2 a3 ++ mix_columns r
  | _ => []
  end.

Definition next_round_key (rk : list N) (rcon : N) : list N :=
  match rk with
  | [k0; k1; k2; k3; k4; k5; k6; k7; k8; k9; k10; k11; k12; k13; k14; k15] =>
    let w0 := xorl [k0; k1; k2; k3] [N.lxor (sbox k13) rcon; sbox k14; sbox k15; sbox k12] in
    let w1 := xorl [k4; k5; k6; k7] w0 in
    let w2 := xorl [k8; k9; k10; k11] w1 in
    let w3 := xorl [k12; k13; k14; k15] w2 in
    w0 ++ w1 ++ w2 ++ w3
  | _ => []
  end.
Fixpoint round_keys (rk : list N) (rcons : list N) : list (list N) :=
  match rcons with
  | [] => [rk]
  | c :: r => rk :: round_keys (next_round_key rk c) r
  end.
Definition key_schedule (k : list N) : list (list N) :=
  round_keys k [1; 2; 4; 8; 16; 32; 64; 128; 27; 54].

Fixpoint aes_rounds (s : list N) (rks : list (list N)) : list N :=
  match rks with
  | [] => s
  | [last] => xorl (shift_rows (map sbox s)) last
  | rk :: r => aes_rounds (xorl (mix_columns (shift_rows (map sbox s))) rk) r
  end.
Definition aes_enc (rks : list (list N)) (blk : list N) : list N :=
  match rks with
  | rk0 :: r => aes_rounds (xorl blk rk0) r
  | [] => []
  end.

Fixpoint shl1 (l : list N) : list N * N :=
  match l with
  | [] => ([], 0)
  | b :: r => let '(r', c) := shl1 r in (((b * 2) mod 256 + c) :: r', b / 128)
  end.
Definition dbl (l : list N) : list N :=
  let '(l', c) := shl1 l in
  if c =? 1 then xorl l' (repeat 0 15 ++ [135]) else l'.

(** a key prepared for CMAC of single complete blocks: round keys and subkey K1 *)
Definition cmac_key : Type := (list (list N) * list N)%type.
Definition cmac_prep (k : list N) : cmac_key :=
  let rks := key_schedule k in (rks, dbl (aes_enc rks (repeat 0 16))).
Definition cmac_block (pk : cmac_key) (m : list N) : list N :=
  aes_enc (fst pk) (xorl m (snd pk)).

Definition be2 (v : N) : list N := [(v / 256) mod 256; v mod 256].
Definition be4 (v : N) : list N :=
  [(v / 16777216) mod 256; (v / 65536) mod 256; (v / 256) mod 256; v mod 256].
Fixpoint be_val (acc : N) (l : list N) : N :=
  match l with [] => acc | b :: r => be_val (acc * 256 + b) r end.

(** [calculate_hop_mac]: CMAC over the 16-byte block 0,0,SegID,Timestamp,0,ExpTime,
    ConsIngress,ConsEgress,0,0 truncated to the first 6 bytes (as a 48-bit number) *)
Definition hop_mac_input (beta ts exp cin ceg : N) : list N :=
  [0; 0] ++ be2 beta ++ be4 ts ++ [0; exp mod 256] ++ be2 cin ++ be2 ceg ++ [0; 0].
Definition hop_mac (pk : cmac_key) (beta ts exp cin ceg : N) : N :=
  be_val 0 (firstn 6 (cmac_block pk (hop_mac_input beta ts exp cin ceg))).

(** validation vectors *)
Definition hex_key : list N :=
  [43; 126; 21; 22; 40; 174; 210; 166; 171; 247; 21; 136; 9; 207; 79; 60].
Example sbox_vectors : (sbox 0, sbox 1, sbox 83, sbox 255) = (99, 124, 237, 22).
Proof. vm_compute. reflexivity. Qed.
(* FIPS-197 appendix B: input 3243f6a8885a308d313198a2e0370734 *)
Example fips197_B :
  aes_enc (key_schedule hex_key)
          [50; 67; 246; 168; 136; 90; 48; 141; 49; 49; 152; 162; 224; 55; 7; 52]
  = [57; 37; 132; 29; 2; 220; 9; 251; 220; 17; 133; 151; 25; 106; 11; 50].
Proof. vm_compute. reflexivity. Qed.
(* RFC 4493 section 4: subkey K1 and example 2 (16-byte message) *)
Example rfc4493_k1 :
  snd (cmac_prep hex_key)
  = [251; 238; 214; 24; 53; 113; 51; 102; 124; 133; 224; 143; 114; 54; 168; 222].
Proof. vm_compute. reflexivity. Qed.
Example rfc4493_ex2 :
  cmac_block (cmac_prep hex_key)
             [107; 193; 190; 226; 46; 64; 159; 150; 233; 61; 126; 17; 115; 147; 23; 42]
  = [7; 10; 22; 180; 107; 77; 65; 68; 247; 155; 221; 157; 208; 74; 40; 124].
Proof. vm_compute. reflexivity. Qed.
