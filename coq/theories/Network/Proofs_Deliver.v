(** Network area, C01: the reference router carries every well-routed path of MAC-chained
    segments to its destination.  The path is described abstractly (travel order): per hop
    the owning AS, its key, the hop field and the SegID value its MAC was computed over; the
    chain-invariant theorem ([Proofs_C01]) supplies exactly these descriptions for uses of
    beaconed segments. *)
From Coq Require Import Lia ZifyBool ZifyNat ZifyN.
From Sci Require Import Network.Model Network.Spec Network.Proofs Network.Proofs_Sound.
Local Open Scope N_scope.
Arguments N.add : simpl never. Arguments N.sub : simpl never. Arguments N.mul : simpl never.
Arguments N.div : simpl never. Arguments N.modulo : simpl never. Arguments N.eqb : simpl never.
Arguments N.ltb : simpl never. Arguments N.leb : simpl never.
Arguments Nat.eqb : simpl never. Arguments Nat.ltb : simpl never. Arguments Nat.leb : simpl never.

Section D.
Context {key : Type}.
Variable mac : key -> N -> N -> N -> N -> N -> N.
Variable t : topology key.
Variable now : N.

(** one hop of a path: owner AS, its key, hop field, the SegID its MAC is over *)
Record hopd := mkHopd { d_ia : N; d_key : key; d_hop : hopf; d_beta : N }.
(** one segment of a path in travel order *)
Record tseg := mkTseg { g_cons : bool; g_ts : N; g_hops : list hopd }.

Definition g_info (g : tseg) (segid : N) : infof := mkInfo false (g_cons g) segid (g_ts g).
Definition d_in (g : tseg) (d : hopd) : N := if g_cons g then h_in (d_hop d) else h_eg (d_hop d).
Definition d_eg (g : tseg) (d : hopd) : N := if g_cons g then h_eg (d_hop d) else h_in (d_hop d).

(** a hop field its AS accepts at time [now] *)
Definition hop_ok (g : tseg) (d : hopd) : Prop :=
  h_mac (d_hop d) = mac (d_key d) (d_beta d) (g_ts g) (h_exp (d_hop d)) (h_in (d_hop d)) (h_eg (d_hop d))
  /\ ref_time_ok now (d_hop d) (g_info g 0) = true
  /\ h_ain (d_hop d) = false /\ h_aeg (d_hop d) = false
  /\ exists a, find_as t (d_ia d) = Some a /\ a_key a = d_key d.

(** [d] hands over to [d'] (possibly in the next segment [g']): an up link joins the egress
    interface of [d] to the ingress interface of [d'] *)
Definition link_ok (g : tseg) (d : hopd) (g' : tseg) (d' : hopd) : Prop :=
  exists ty l, iface_state t (d_ia d) (d_eg g d) = Some (ty, true)
    /\ scion_link t (d_ia d) (d_eg g d) = Some l
    /\ get_peer l (d_ia d) = Some (d_ia d', d_in g' d')
    /\ (d_in g' d' =? 0) = false.

(** SegID chaining between consecutive hops of one segment, per direction *)
Definition chain_ok (g : tseg) (d d' : hopd) : Prop :=
  if g_cons g then d_beta d' = beta_step (d_beta d) (h_mac (d_hop d))
  else d_beta d' = beta_step (d_beta d) (h_mac (d_hop d')).

(** hops of one segment from [d] on *)
Fixpoint seg_ok (g : tseg) (d : hopd) (r : list hopd) : Prop :=
  hop_ok g d /\
  match r with
  | [] => True
  | d' :: r' => chain_ok g d d' /\ link_ok g d g d' /\ seg_ok g d' r'
  end.

(** crossover from the last hop [d] of [g] to the first hop [d'] of [g'] in one AS *)
Definition xover_ok (g : tseg) (d : hopd) (g' : tseg) (d' : hopd) : Prop :=
  d_ia d' = d_ia d /\ d_key d' = d_key d
  /\ exists lin upi lout,
       iface_state t (d_ia d) (d_in g d) = Some (lin, upi)
       /\ iface_state t (d_ia d) (d_eg g' d') = Some (lout, true)
       /\ ref_xover_ok lin lout = true.

Definition first_beta (g : tseg) : N := match g_hops g with d :: _ => d_beta d | [] => 0 end.

(** the rest of a path: current segment from hop [d] on ([r] its remaining hops), then
    whole segments; every later segment has at least two hops and starts in the AS the
    previous one ends in; the last AS is the destination *)
Fixpoint route_ok (g : tseg) (d : hopd) (r : list hopd) (rest : list tseg) (dst : N) {struct rest} : Prop :=
  seg_ok g d r /\
  match rest with
  | [] => d_ia (last r d) = dst
  | g' :: rest' =>
    match g_hops g' with
    | d0 :: d1 :: r' => xover_ok g (last r d) g' d0 /\ link_ok g' d0 g' d1 /\ chain_ok g' d0 d1
                        /\ hop_ok g' d0 /\ route_ok g' d1 r' rest' dst
    | _ => False
    end
  end.

Definition glen (g : tseg) : nat := length (g_hops g).
Definition ginit (g : tseg) : infof := g_info g (first_beta g).
Definition flat (d : hopd) (r : list hopd) (rest : list tseg) : list hopf :=
  d_hop d :: map d_hop r ++ flat_map (fun g' => map d_hop (g_hops g')) rest.

(** the packet on arrival at the AS of hop [d]: [done] hops of the current segment behind *)
Definition at_pos (pk : packet) (Lpre : list nat) (Ipre : list infof) (g : tseg) (done : nat)
           (d : hopd) (r : list hopd) (rest : list tseg) (segid dst : N) : Prop :=
  let p := k_path pk in
  k_dst pk = dst
  /\ p_lens p = Lpre ++ (done + S (length r))%nat :: map glen rest
  /\ p_infos p = Ipre ++ g_info g segid :: map ginit rest
  /\ length Ipre = length Lpre
  /\ p_ci p = length Lpre
  /\ p_ch p = (sum_nat Lpre + done)%nat
  /\ skipn (p_ch p) (p_hops p) = flat d r rest
  /\ length (p_hops p) = (p_ch p + length (flat d r rest))%nat.

(** the SegID on arrival is the one from which this AS obtains the value its MAC is over *)
Definition arr_ok (g : tseg) (d : hopd) (i segid : N) : Prop :=
  if g_cons g then segid = d_beta d
  else if i =? 0 then segid = d_beta d
  else d_beta d = beta_step segid (h_mac (d_hop d)).

(** ** list facts *)
Lemma skipn_nth {A} (l : list A) n x y : skipn n l = x :: y -> nth_error l n = Some x.
Proof.
  revert l. induction n as [|n IH]; intros [|a l] H; cbn in *; try discriminate.
  - inversion H; reflexivity.
  - apply IH. exact H.
Qed.
Lemma skipn_S_tl' {A} (l : list A) k : skipn (S k) l = tl (skipn k l).
Proof.
  revert l. induction k as [|k IH]; intros l.
  - destruct l; reflexivity.
  - destruct l as [|a l]; [reflexivity|].
    change (skipn (S (S k)) (a :: l)) with (skipn (S k) l).
    change (skipn (S k) (a :: l)) with (skipn k l). apply IH.
Qed.
Lemma nth_error_zip {A} (pre : list A) x post : nth_error (pre ++ x :: post) (length pre) = Some x.
Proof. induction pre; cbn; [reflexivity|assumption]. Qed.
Lemma nth_error_zip_S {A} (pre : list A) x y post :
  nth_error (pre ++ x :: y :: post) (S (length pre)) = Some y.
Proof. induction pre; cbn; [reflexivity|assumption]. Qed.
Lemma upd_zip {A} (pre : list A) x x' post : upd (pre ++ x :: post) (length pre) x' = pre ++ x' :: post.
Proof. induction pre as [|a pre IH]; [reflexivity|]. cbn [app length]. rewrite upd_cons_S, IH. reflexivity. Qed.
Lemma upd_zip_S {A} (pre : list A) x y y' post :
  upd (pre ++ x :: y :: post) (S (length pre)) y' = pre ++ x :: y' :: post.
Proof.
  induction pre as [|a pre IH]; [reflexivity|]. cbn [app length]. rewrite upd_cons_S, IH. reflexivity.
Qed.
Lemma seg_of_zip Lpre l Lpost j : (j < l)%nat ->
  seg_of (Lpre ++ l :: Lpost) (sum_nat Lpre + j) = Some (length Lpre).
Proof.
  intros Hj. induction Lpre as [|a Lpre IH]; unfold sum_nat in *; cbn [app fold_right length seg_of Nat.add].
  - assert ((j <? l)%nat = true) as -> by (apply Nat.ltb_lt; lia). reflexivity.
  - assert ((a + fold_right Nat.add 0%nat Lpre + j <? a)%nat = false) as -> by (apply Nat.ltb_ge; lia).
    replace (a + fold_right Nat.add 0%nat Lpre + j - a)%nat with (fold_right Nat.add 0%nat Lpre + j)%nat by lia.
    rewrite IH. reflexivity.
Qed.
Lemma sum_nat_app a b : sum_nat (a ++ b) = (sum_nat a + sum_nat b)%nat.
Proof. unfold sum_nat. induction a; cbn; [reflexivity|rewrite IHa; lia]. Qed.

Lemma g_info_upd g s i h :
  seg_upd i (g_info g s) h = g_info g (if negb (i =? 0) && negb (g_cons g) then beta_step s (h_mac h) else s).
Proof. unfold seg_upd, g_info. cbn. destruct (negb (i =? 0) && negb (g_cons g)); reflexivity. Qed.
Lemma g_info_chain g s h :
  seg_chain (g_info g s) h = g_info g (if g_cons g then beta_step s (h_mac h) else s).
Proof. unfold seg_chain, g_info. cbn. destruct (g_cons g); reflexivity. Qed.

Lemma arr_segid g d i segid : arr_ok g d i segid ->
  (i = 0 \/ (i =? 0) = false) ->
  (if negb (i =? 0) && negb (g_cons g) then beta_step segid (h_mac (d_hop d)) else segid) = d_beta d.
Proof.
  unfold arr_ok. intros H Hi. destruct (g_cons g); cbn [negb andb].
  - rewrite andb_false_r. exact H.
  - rewrite andb_true_r. destruct (i =? 0); cbn [negb]; [exact H|symmetry; exact H].
Qed.

(** ** one plain step *)
Lemma step_plain pk Lpre Ipre g done d d' r rest segid dst i :
  hop_ok g d -> link_ok g d g d' -> chain_ok g d d' ->
  at_pos pk Lpre Ipre g done d (d' :: r) rest segid dst ->
  arr_ok g d i segid ->
  (i = 0 \/ ((i =? 0) = false /\ i = d_in g d)) ->
  exists pk1 segid1,
    ref_step mac t (d_ia d) (d_key d) now i pk = RForward (d_eg g d) pk1
    /\ at_pos pk1 Lpre Ipre g (S done) d' r rest segid1 dst
    /\ arr_ok g d' (d_in g d') segid1
    /\ p_hops (k_path pk1) = p_hops (k_path pk) /\ p_lens (k_path pk1) = p_lens (k_path pk).
Proof.
  intros (Hm & Ht & Ha1 & Ha2 & _) (ty & l & Hif & _ & _ & Hnz) Hc
         (Hd & HL & HI & HIl & Hci & Hch & Hsk & Hlen) Harr Hi.
  destruct pk as [dst' p]. cbn [k_path k_dst] in *. subst dst'.
  assert (Hi' : i = 0 \/ (i =? 0) = false) by tauto.
  pose proof (arr_segid g d i segid Harr Hi') as Hseg.
  pose proof (skipn_nth _ _ _ _ Hsk) as Eh.
  assert (Ei : nth_error (p_infos p) (p_ci p) = Some (g_info g segid)).
  { rewrite HI, Hci, <- HIl. apply nth_error_zip. }
  assert (So : seg_of (p_lens p) (p_ch p) = Some (p_ci p)).
  { rewrite HL, Hch, Hci. apply seg_of_zip. cbn [length]. lia. }
  assert (Sn : seg_of (p_lens p) (S (p_ch p)) = Some (p_ci p)).
  { rewrite HL, Hch, Hci. replace (S (sum_nat Lpre + done)) with (sum_nat Lpre + S done)%nat by lia.
    apply seg_of_zip. cbn [length]. lia. }
  assert (Hlt : (S (p_ch p) < length (p_hops p))%nat).
  { rewrite Hlen. unfold flat. cbn [length map app]. lia. }
  assert (Heg : hop_egress (d_hop d) (g_info g segid) = d_eg g d) by reflexivity.
  assert (Hin : hop_ingress (d_hop d) (g_info g segid) = d_in g d) by reflexivity.
  pose proof (GPlain mac t (d_ia d) (d_key d) now i dst p (d_hop d) (g_info g segid) ty
                Eh Ei So eq_refl Sn Hlt) as G.
  rewrite Heg in G.
  assert (G' := fun a b c d0 e f => good_to_ref mac t (d_ia d) (d_key d) now i _ _ _ (G a b c d0 e f)).
  cbn in G'.
  eexists. eexists. split; [apply G'|split; [|split; [|split; reflexivity]]].
  - exact Ht.
  - rewrite Hin. destruct Hi as [->|(E0 & ->)]; [reflexivity|]. rewrite E0, N.eqb_refl. reflexivity.
  - rewrite g_info_upd, Hseg. unfold hop_mac_ok. cbn. rewrite Hm. apply N.eqb_refl.
  - replace (in_alert (d_hop d) (g_info g segid)) with false
      by (unfold in_alert, g_info; cbn; rewrite Ha1, Ha2; destruct (g_cons g); reflexivity).
    apply andb_false_r.
  - exact Hif.
  - unfold eg_alert, g_info. cbn. rewrite Ha1, Ha2. destruct (g_cons g); reflexivity.
  - (* the successor state *)
    unfold at_pos. cbn [k_path k_dst p_lens p_infos p_ci p_ch p_hops].
    rewrite g_info_upd, Hseg, g_info_chain.
    refine (conj eq_refl (conj _ (conj _ (conj HIl (conj Hci (conj _ (conj _ _))))))).
    + rewrite HL. f_equal. f_equal. cbn [length]. lia.
    + rewrite HI, Hci, <- HIl. rewrite upd_zip, upd_zip. reflexivity.
    + rewrite Hch. lia.
    + rewrite skipn_S_tl', Hsk. reflexivity.
    + rewrite Hlen. unfold flat. cbn [length map app]. lia.
  - unfold arr_ok. unfold chain_ok in Hc. destruct (g_cons g).
    + symmetry. exact Hc.
    + rewrite Hnz. exact Hc.
Qed.

Lemma app_cons_assoc {A} (l : list A) a r : l ++ a :: r = (l ++ [a]) ++ r.
Proof. rewrite <- app_assoc. reflexivity. Qed.

(** ** delivery at the last hop *)
Lemma step_deliver pk Lpre Ipre g done d segid dst i :
  hop_ok g d -> d_ia d = dst ->
  at_pos pk Lpre Ipre g done d [] [] segid dst ->
  arr_ok g d i segid ->
  (i = 0 \/ ((i =? 0) = false /\ i = d_in g d)) ->
  exists pk1, ref_step mac t (d_ia d) (d_key d) now i pk = RDeliver pk1
    /\ k_dst pk1 = dst
    /\ p_hops (k_path pk1) = p_hops (k_path pk) /\ p_lens (k_path pk1) = p_lens (k_path pk)
    /\ p_infos (k_path pk1) = Ipre ++ [g_info g (d_beta d)]
    /\ p_ci (k_path pk1) = length Lpre /\ S (p_ch (k_path pk1)) = length (p_hops (k_path pk)).
Proof.
  intros (Hm & Ht & Ha1 & Ha2 & _) Hdst (Hd & HL & HI & HIl & Hci & Hch & Hsk & Hlen) Harr Hi.
  destruct pk as [dst' p]. cbn [k_path k_dst] in *. subst dst'.
  assert (Hi' : i = 0 \/ (i =? 0) = false) by tauto.
  pose proof (arr_segid g d i segid Harr Hi') as Hseg.
  pose proof (skipn_nth _ _ _ _ Hsk) as Eh.
  assert (Ei : nth_error (p_infos p) (p_ci p) = Some (g_info g segid)).
  { rewrite HI, Hci, <- HIl. apply nth_error_zip. }
  assert (So : seg_of (p_lens p) (p_ch p) = Some (p_ci p)).
  { rewrite HL, Hch, Hci. apply seg_of_zip. cbn [length]. lia. }
  assert (Hl : S (p_ch p) = length (p_hops p)).
  { rewrite Hlen. unfold flat. cbn [length map app flat_map]. lia. }
  assert (Hin : hop_ingress (d_hop d) (g_info g segid) = d_in g d) by reflexivity.
  eexists. split.
  { refine (good_to_ref mac t (d_ia d) (d_key d) now i _ ALocal _
            (GDeliver mac t (d_ia d) (d_key d) now i dst p (d_hop d) (g_info g segid)
                      Eh Ei So eq_refl Hl Ht _ _ _ Hdst)).
    - rewrite Hin. destruct Hi as [->|(E0 & ->)]; [reflexivity|]. rewrite E0, N.eqb_refl. reflexivity.
    - rewrite g_info_upd, Hseg. unfold hop_mac_ok. cbn. rewrite Hm. apply N.eqb_refl.
    - replace (in_alert (d_hop d) (g_info g segid)) with false
        by (unfold in_alert, g_info; cbn; rewrite Ha1, Ha2; destruct (g_cons g); reflexivity).
      apply andb_false_r. }
  cbn [k_path k_dst p_lens p_infos p_ci p_ch p_hops].
  refine (conj eq_refl (conj eq_refl (conj eq_refl (conj _ (conj Hci Hl))))).
  rewrite g_info_upd, Hseg, HI, Hci, <- HIl. cbn [map]. apply upd_zip.
Qed.

(** ** segment crossover *)
Lemma step_xover pk Lpre Ipre g done d g' d0 d1 r' rest' segid dst i :
  g_hops g' = d0 :: d1 :: r' ->
  hop_ok g d -> xover_ok g d g' d0 -> hop_ok g' d0 -> link_ok g' d0 g' d1 -> chain_ok g' d0 d1 ->
  at_pos pk Lpre Ipre g done d [] (g' :: rest') segid dst ->
  arr_ok g d i segid ->
  (i =? 0) = false -> i = d_in g d ->
  exists pk1 segid1,
    ref_step mac t (d_ia d) (d_key d) now i pk = RForward (d_eg g' d0) pk1
    /\ at_pos pk1 (Lpre ++ [(done + 1)%nat]) (Ipre ++ [g_info g (d_beta d)]) g' 1 d1 r' rest' segid1 dst
    /\ arr_ok g' d1 (d_in g' d1) segid1
    /\ p_hops (k_path pk1) = p_hops (k_path pk) /\ p_lens (k_path pk1) = p_lens (k_path pk).
Proof.
  intros Hg' (Hm & Ht & Ha1 & Ha2 & _) (Hia & Hk & lin & upi & lout & Hli & Hlo & Hx)
         (Hm0 & Ht0 & Hb1 & Hb2 & _) (ty & l & Hif & _ & _ & Hnz) Hc
         (Hd & HL & HI & HIl & Hci & Hch & Hsk & Hlen) Harr E0 Hi.
  destruct pk as [dst' p]. cbn [k_path k_dst] in *. subst dst'.
  pose proof (arr_segid g d i segid Harr (or_intror E0)) as Hseg.
  rewrite E0 in Hseg. cbn [negb andb] in Hseg.
  pose proof (skipn_nth _ _ _ _ Hsk) as Eh.
  assert (Ei : nth_error (p_infos p) (p_ci p) = Some (g_info g segid)).
  { rewrite HI, Hci, <- HIl. apply nth_error_zip. }
  assert (So : seg_of (p_lens p) (p_ch p) = Some (p_ci p)).
  { rewrite HL, Hch, Hci. apply seg_of_zip. cbn [length]. lia. }
  cbn [length map] in HL. unfold glen at 1 in HL. rewrite Hg' in HL. cbn [length] in HL.
  assert (HL2 : p_lens p = (Lpre ++ [(done + 1)%nat]) ++ S (S (length r')) :: map glen rest')
    by (rewrite HL; apply app_cons_assoc).
  assert (Hs2 : sum_nat (Lpre ++ [(done + 1)%nat]) = S (p_ch p)).
  { rewrite sum_nat_app, Hch. unfold sum_nat. cbn. lia. }
  assert (Sn : seg_of (p_lens p) (S (p_ch p)) = Some (S (p_ci p))).
  { rewrite HL2, <- Hs2, Hci. replace (sum_nat (Lpre ++ [(done + 1)%nat])) with (sum_nat (Lpre ++ [(done + 1)%nat]) + 0)%nat by lia.
    rewrite seg_of_zip by lia. rewrite app_length. cbn. f_equal. lia. }
  assert (Sn2 : seg_of (p_lens p) (S (S (p_ch p))) = Some (S (p_ci p))).
  { rewrite HL2, <- Hs2, Hci. replace (S (sum_nat (Lpre ++ [(done + 1)%nat]))) with (sum_nat (Lpre ++ [(done + 1)%nat]) + 1)%nat by lia.
    rewrite seg_of_zip by lia. rewrite app_length. cbn. f_equal. lia. }
  unfold flat in Hsk, Hlen. cbn [map app flat_map] in Hsk, Hlen. rewrite Hg' in Hsk, Hlen.
  cbn [map app] in Hsk, Hlen.
  assert (Hsk1 : skipn (S (p_ch p)) (p_hops p)
                 = d_hop d0 :: d_hop d1 :: map d_hop r' ++ flat_map (fun g' => map d_hop (g_hops g')) rest')
    by (rewrite skipn_S_tl', Hsk; reflexivity).
  pose proof (skipn_nth _ _ _ _ Hsk1) as Enh.
  assert (Eni : nth_error (p_infos p) (S (p_ci p)) = Some (g_info g' (d_beta d0))).
  { rewrite HI, Hci, <- HIl. cbn [map]. rewrite nth_error_zip_S. unfold ginit, first_beta. rewrite Hg'. reflexivity. }
  assert (Hlt : (S (p_ch p) < length (p_hops p))%nat) by (rewrite Hlen; cbn [length]; lia).
  assert (Hin : hop_ingress (d_hop d) (g_info g segid) = d_in g d) by reflexivity.
  assert (Heg0 : hop_egress (d_hop d0) (g_info g' (d_beta d0)) = d_eg g' d0) by reflexivity.
  pose proof (GXover mac t (d_ia d) (d_key d) now i dst p (d_hop d) (g_info g segid)
                (d_hop d0) (g_info g' (d_beta d0)) lin upi lout
                Eh Ei So eq_refl Sn Hlt Sn2 Enh Eni Ht E0) as G.
  rewrite Heg0 in G.
  assert (G' := fun a b c d2 e f g0 h0 i0 j0 k0 =>
                  good_to_ref mac t (d_ia d) (d_key d) now i _ _ _ (G a b c d2 e f g0 h0 i0 j0 k0)).
  cbn in G'.
  eexists. eexists. split; [apply G'|split; [|split; [|split; reflexivity]]].
  - rewrite Hin, Hi. apply N.eqb_refl.
  - rewrite g_info_upd, E0. cbn [negb andb]. rewrite Hseg. unfold hop_mac_ok. cbn. rewrite Hm. apply N.eqb_refl.
  - unfold in_alert, g_info; cbn; rewrite Ha1, Ha2; destruct (g_cons g); reflexivity.
  - unfold eg_alert, g_info; cbn; rewrite Ha1, Ha2; destruct (g_cons g); reflexivity.
  - unfold in_alert, g_info; cbn; rewrite Hb1, Hb2; destruct (g_cons g'); reflexivity.
  - exact Ht0.
  - unfold hop_mac_ok. cbn. rewrite Hm0, <- Hk. apply N.eqb_refl.
  - rewrite Hi. exact Hli.
  - exact Hlo.
  - exact Hx.
  - unfold eg_alert, g_info; cbn; rewrite Hb1, Hb2; destruct (g_cons g'); reflexivity.
  - (* the successor state *)
    unfold at_pos. cbn [k_path k_dst p_lens p_infos p_ci p_ch p_hops].
    rewrite g_info_upd, E0. cbn [negb andb]. rewrite Hseg, g_info_chain.
    refine (conj eq_refl (conj _ (conj _ (conj _ (conj _ (conj _ (conj _ _))))))).
    + rewrite HL2. reflexivity.
    + rewrite HI, Hci, <- HIl. cbn [map]. rewrite upd_zip.
      replace (S (length Ipre)) with (S (length Ipre)) by reflexivity.
      rewrite upd_zip_S. rewrite app_cons_assoc. reflexivity.
    + rewrite !app_length. cbn. lia.
    + rewrite app_length. cbn. lia.
    + rewrite Hs2. lia.
    + rewrite skipn_S_tl', Hsk1. reflexivity.
    + rewrite Hlen. unfold flat. cbn [length map app]. lia.
  - unfold arr_ok. unfold chain_ok in Hc. destruct (g_cons g').
    + symmetry. exact Hc.
    + rewrite Hnz. exact Hc.
Qed.

(** ** runs *)
Definition delivers (fuel : nat) (ia i : N) (pk : packet) (dst : N) (Q : packet -> Prop) : Prop :=
  exists tr pk', ref_sim mac fuel t now ia i pk = (tr, RDelivered dst, pk') /\ Q pk'.

Lemma ref_sim_fwd f ia i pk a eg pk1 l ia' i' dst Q :
  find_as t ia = Some a -> ref_step mac t ia (a_key a) now i pk = RForward eg pk1 ->
  scion_link t ia eg = Some l -> get_peer l ia = Some (ia', i') ->
  delivers f ia' i' pk1 dst Q -> delivers (S f) ia i pk dst Q.
Proof.
  intros Ha Hs Hl Hp (tr & pk' & H & HQ). unfold delivers. cbn [ref_sim].
  rewrite Ha, Hs, Hl, Hp, H. eexists. eexists. split; [reflexivity|exact HQ].
Qed.
Lemma ref_sim_deliver f ia i pk a pk1 (Q : packet -> Prop) :
  find_as t ia = Some a -> ref_step mac t ia (a_key a) now i pk = RDeliver pk1 -> Q pk1 ->
  delivers (S f) ia i pk ia Q.
Proof.
  intros Ha Hs HQ. unfold delivers. cbn [ref_sim]. rewrite Ha, Hs. eexists. eexists. split; [reflexivity|exact HQ].
Qed.

Lemma last_shift {A} : forall (r : list A) (a d : A), last (a :: r) d = last r a.
Proof.
  induction r as [|b r IH]; intros a d; [reflexivity|].
  change (last (a :: b :: r) d) with (last (b :: r) d). rewrite IH. symmetry. apply IH.
Qed.

(** along one segment up to its last hop; [H0], [L0]: the hop fields and segment lengths,
    which no step changes *)
Lemma seg_run g rest dst Lpre Ipre f H0 L0 Q : forall r d done segid pk i,
  seg_ok g d r -> at_pos pk Lpre Ipre g done d r rest segid dst -> arr_ok g d i segid ->
  (i = 0 \/ ((i =? 0) = false /\ i = d_in g d)) ->
  p_hops (k_path pk) = H0 -> p_lens (k_path pk) = L0 ->
  (forall pkl segidl il,
      at_pos pkl Lpre Ipre g (done + length r) (last r d) [] rest segidl dst ->
      arr_ok g (last r d) il segidl ->
      ((r = [] /\ il = i) \/ ((il =? 0) = false /\ il = d_in g (last r d))) ->
      p_hops (k_path pkl) = H0 -> p_lens (k_path pkl) = L0 ->
      delivers f (d_ia (last r d)) il pkl dst Q) ->
  delivers (length r + f) (d_ia d) i pk dst Q.
Proof.
  induction r as [|d' r IH]; intros d done segid pk i Hs Hat Harr Hi HH HLs K.
  - cbn [length Nat.add last]. cbn [length last] in K. rewrite Nat.add_0_r in K.
    apply (K pk segid i Hat Harr); auto.
  - cbn [seg_ok] in Hs. destruct Hs as (Hh & Hc & Hl & Hs').
    destruct (step_plain pk Lpre Ipre g done d d' r rest segid dst i Hh Hl Hc Hat Harr Hi)
      as (pk1 & segid1 & Hstep & Hat1 & Harr1 & Hh1 & Hl1).
    destruct Hh as (_ & _ & _ & _ & a & Ha & Hk).
    destruct Hl as (ty & l & _ & Hsl & Hgp & Hnz).
    cbn [length Nat.add]. rewrite <- Hk in Hstep.
    eapply (ref_sim_fwd _ _ _ _ a _ pk1 l _ _ dst Q Ha Hstep Hsl Hgp).
    apply (IH d' (S done) segid1 pk1 (d_in g d') Hs' Hat1 Harr1).
    + right. split; [exact Hnz|reflexivity].
    + congruence.
    + congruence.
    + intros pkl segidl il Hatl Harrl Hil HHl HLl.
      assert (El : last (d' :: r) d = last r d') by apply last_shift.
      rewrite El in K. apply (K pkl segidl il); auto.
      * cbn [length]. replace (done + S (length r))%nat with (S done + length r)%nat by lia. exact Hatl.
      * right. destruct Hil as [(-> & ->)|Hil].
        -- cbn [last]. split; [exact Hnz|reflexivity].
        -- exact Hil.
Qed.

Lemma seg_ok_last g : forall r d, seg_ok g d r -> hop_ok g (last r d).
Proof.
  induction r as [|d' r IH]; intros d H; cbn [seg_ok] in H.
  - tauto.
  - destruct H as (_ & _ & _ & H'). replace (last (d' :: r) d) with (last r d') by (symmetry; apply last_shift).
    apply IH. exact H'.
Qed.

Fixpoint fuel_rest (rest : list tseg) : nat :=
  match rest with [] => 0%nat | g' :: rest' => (glen g' - 1 + fuel_rest rest')%nat end.

(** the info fields a completed traversal leaves behind: every segment's SegID is the value
    its last hop field (in travel order) was verified with *)
Fixpoint final_infos (Ipre : list infof) (g : tseg) (d : hopd) (r : list hopd) (rest : list tseg)
  : list infof :=
  match rest with
  | [] => Ipre ++ [g_info g (d_beta (last r d))]
  | g' :: rest' =>
    match g_hops g' with
    | d0 :: d1 :: r' => final_infos (Ipre ++ [g_info g (d_beta (last r d))]) g' d1 r' rest'
    | _ => Ipre
    end
  end.

Definition fin (H0 : list hopf) (L0 : list nat) (FI : list infof) (dst : N) (pk' : packet) : Prop :=
  k_dst pk' = dst /\ p_hops (k_path pk') = H0 /\ p_lens (k_path pk') = L0
  /\ p_infos (k_path pk') = FI
  /\ S (p_ci (k_path pk')) = length L0 /\ S (p_ch (k_path pk')) = length H0.

(** the whole route *)
Lemma route_run dst H0 L0 : forall rest g d r done Lpre Ipre segid pk i,
  route_ok g d r rest dst -> at_pos pk Lpre Ipre g done d r rest segid dst -> arr_ok g d i segid ->
  ((i = 0 /\ (rest = [] \/ r <> [])) \/ ((i =? 0) = false /\ i = d_in g d)) ->
  p_hops (k_path pk) = H0 -> p_lens (k_path pk) = L0 ->
  delivers (length r + S (fuel_rest rest)) (d_ia d) i pk dst
           (fin H0 L0 (final_infos Ipre g d r rest) dst).
Proof.
  induction rest as [|g' rest' IH]; intros g d r done Lpre Ipre segid pk i Hr Hat Harr Hi HH HLs;
    cbn [route_ok] in Hr; destruct Hr as (Hs & Hr).
  - (* last segment *)
    apply (seg_run g [] dst Lpre Ipre _ H0 L0 _ r d done segid pk i Hs Hat Harr); [tauto|auto|auto|].
    intros pkl segidl il Hatl Harrl Hil HHl HLl.
    pose proof (seg_ok_last g r d Hs) as Hh.
    assert (Hil' : il = 0 \/ ((il =? 0) = false /\ il = d_in g (last r d))).
    { destruct Hil as [(-> & ->)|Hil]; [|right; exact Hil]. cbn [last]. tauto. }
    destruct (step_deliver pkl Lpre Ipre g _ (last r d) segidl dst il Hh Hr Hatl Harrl Hil')
      as (pk1 & Hstep & F1 & F2 & F3 & F4 & F5 & F6).
    destruct Hh as (_ & _ & _ & _ & a & Ha & Hk). rewrite <- Hk in Hstep.
    cbn [fuel_rest]. rewrite <- Hr at 1.
    eapply ref_sim_deliver; eauto.
    unfold fin. cbn [final_infos]. rewrite F2, F3, F4, F5, HHl, HLl.
    refine (conj _ (conj eq_refl (conj eq_refl (conj eq_refl (conj _ _))))).
    + exact F1.
    + destruct Hatl as (_ & HL' & _). rewrite HLl in HL'. rewrite HL'. rewrite app_length. cbn. lia.
    + rewrite <- HHl. exact F6.
  - destruct (g_hops g') as [|d0 [|d1 r']] eqn:Hg'; try contradiction.
    destruct Hr as (Hx & Hl0 & Hc0 & Hh0 & Hr').
    cbn [final_infos]. rewrite Hg'.
    apply (seg_run g (g' :: rest') dst Lpre Ipre _ H0 L0 _ r d done segid pk i Hs Hat Harr); [tauto|auto|auto|].
    intros pkl segidl il Hatl Harrl Hil HHl HLl.
    pose proof (seg_ok_last g r d Hs) as Hh.
    assert (Hil' : (il =? 0) = false /\ il = d_in g (last r d)).
    { destruct Hil as [(-> & ->)|Hil]; [|exact Hil]. cbn [last].
      destruct Hi as [(_ & [Hc|Hc])|Hi]; [discriminate|congruence|exact Hi]. }
    destruct Hil' as (E0 & Eil).
    destruct (step_xover pkl Lpre Ipre g _ (last r d) g' d0 d1 r' rest' segidl dst il
                Hg' Hh Hx Hh0 Hl0 Hc0 Hatl Harrl E0 Eil)
      as (pk1 & segid1 & Hstep & Hat1 & Harr1 & Hh1 & Hl1).
    destruct Hh as (_ & _ & _ & _ & a & Ha & Hk). rewrite <- Hk in Hstep.
    destruct Hx as (Hia & _). destruct Hl0 as (ty & l & _ & Hsl & Hgp & Hnz).
    rewrite Hia in Hsl, Hgp.
    cbn [fuel_rest]. unfold glen at 1. rewrite Hg'. cbn [length].
    replace (S (S (length r')) - 1 + fuel_rest rest')%nat with (S (length r' + fuel_rest rest'))%nat by lia.
    eapply (ref_sim_fwd _ _ _ _ a _ pk1 l _ _ dst _ Ha Hstep Hsl Hgp).
    assert (Hgoal := IH g' d1 r' 1%nat _ _ segid1 pk1 (d_in g' d1) Hr' Hat1 Harr1
                        (or_intror (conj Hnz eq_refl))
                        ltac:(congruence) ltac:(congruence)).
    replace (S (length r' + fuel_rest rest')) with (length r' + S (fuel_rest rest'))%nat by lia.
    exact Hgoal.
Qed.

(** ** the route conditions split into what authenticity gives (MAC, SegID chain) and what
    the topology and the clock give (links, link types, lifetimes, keys of the ASes) *)
Definition hop_auth (g : tseg) (d : hopd) : Prop :=
  h_mac (d_hop d) = mac (d_key d) (d_beta d) (g_ts g) (h_exp (d_hop d)) (h_in (d_hop d)) (h_eg (d_hop d)).
Definition hop_topo (g : tseg) (d : hopd) : Prop :=
  ref_time_ok now (d_hop d) (g_info g 0) = true
  /\ h_ain (d_hop d) = false /\ h_aeg (d_hop d) = false
  /\ exists a, find_as t (d_ia d) = Some a /\ a_key a = d_key d.
Fixpoint seg_auth (g : tseg) (d : hopd) (r : list hopd) : Prop :=
  hop_auth g d /\ match r with [] => True | d' :: r' => chain_ok g d d' /\ seg_auth g d' r' end.
Fixpoint seg_topo (g : tseg) (d : hopd) (r : list hopd) : Prop :=
  hop_topo g d /\ match r with [] => True | d' :: r' => link_ok g d g d' /\ seg_topo g d' r' end.
Fixpoint route_auth (g : tseg) (d : hopd) (r : list hopd) (rest : list tseg) {struct rest} : Prop :=
  seg_auth g d r /\
  match rest with
  | [] => True
  | g' :: rest' =>
    match g_hops g' with
    | d0 :: d1 :: r' => hop_auth g' d0 /\ chain_ok g' d0 d1 /\ route_auth g' d1 r' rest'
    | _ => False
    end
  end.
Fixpoint route_topo (g : tseg) (d : hopd) (r : list hopd) (rest : list tseg) (dst : N) {struct rest} : Prop :=
  seg_topo g d r /\
  match rest with
  | [] => d_ia (last r d) = dst
  | g' :: rest' =>
    match g_hops g' with
    | d0 :: d1 :: r' =>
      (d_ia d0 = d_ia (last r d)
       /\ exists lin upi lout,
            iface_state t (d_ia (last r d)) (d_in g (last r d)) = Some (lin, upi)
            /\ iface_state t (d_ia (last r d)) (d_eg g' d0) = Some (lout, true)
            /\ ref_xover_ok lin lout = true)
      /\ link_ok g' d0 g' d1 /\ hop_topo g' d0 /\ route_topo g' d1 r' rest' dst
    | _ => False
    end
  end.

Lemma seg_ok_of g : forall r d, seg_auth g d r -> seg_topo g d r -> seg_ok g d r.
Proof.
  induction r as [|d' r IH]; intros d (A1 & A2) ((T1 & T2 & T3 & T4) & T5); cbn [seg_ok].
  - split; [|exact I]. unfold hop_ok. auto.
  - destruct A2 as (A2 & A3). destruct T5 as (T5 & T6).
    split; [unfold hop_ok; auto|]. split; [exact A2|]. split; [exact T5|]. apply IH; assumption.
Qed.
Lemma seg_topo_last g : forall r d, seg_topo g d r -> hop_topo g (last r d).
Proof.
  induction r as [|d' r IH]; intros d H; cbn [seg_topo] in H.
  - tauto.
  - destruct H as (_ & _ & H'). replace (last (d' :: r) d) with (last r d') by (symmetry; apply last_shift).
    apply IH. exact H'.
Qed.

Lemma route_ok_of dst : forall rest g d r,
  route_auth g d r rest -> route_topo g d r rest dst -> route_ok g d r rest dst.
Proof.
  induction rest as [|g' rest' IH]; intros g d r (A & A') (T & T'); cbn [route_ok].
  - split; [apply seg_ok_of; assumption|exact T'].
  - split; [apply seg_ok_of; assumption|].
    destruct (g_hops g') as [|d0 [|d1 r']]; try contradiction.
    destruct A' as (A0 & Ac & Ar). destruct T' as ((Hia & X) & Tl & T0 & Tr).
    pose proof (seg_topo_last g r d T) as (_ & _ & _ & a & Ha & Hk).
    destruct T0 as (T01 & T02 & T03 & a0 & Ha0 & Hk0).
    refine (conj _ (conj Tl (conj Ac (conj _ (IH _ _ _ Ar Tr))))).
    + unfold xover_ok. refine (conj Hia (conj _ X)).
      rewrite Hia in Ha0. rewrite Ha in Ha0. inversion Ha0; subst a0. congruence.
    + unfold hop_ok. refine (conj A0 (conj T01 (conj T02 (conj T03 _)))). exists a0. auto.
Qed.

(** the packet a sender builds from a path description *)
Definition all_hops (g : tseg) (rest : list tseg) : list hopf :=
  map d_hop (g_hops g) ++ flat_map (fun g' => map d_hop (g_hops g')) rest.
Definition packet_of (g : tseg) (rest : list tseg) (dst : N) : packet :=
  mkPkt dst (mkPath 0 0 (glen g :: map glen rest) (ginit g :: map ginit rest) (all_hops g rest)).

Lemma routed_path_delivers_aux g d r rest dst :
  g_hops g = d :: r -> (rest = [] \/ r <> []) ->
  route_auth g d r rest -> route_topo g d r rest dst ->
  delivers (length r + S (fuel_rest rest)) (d_ia d) 0 (packet_of g rest dst) dst
           (fin (all_hops g rest) (glen g :: map glen rest) (final_infos [] g d r rest) dst).
Proof.
  intros Hg Hne A T.
  apply (route_run dst _ _ rest g d r 0%nat [] [] (d_beta d) (packet_of g rest dst) 0
                   (route_ok_of dst rest g d r A T)).
  - unfold at_pos, packet_of, all_hops, flat, glen, ginit, first_beta. rewrite Hg.
    cbn [k_path k_dst p_lens p_infos p_ci p_ch p_hops app length skipn map sum_nat fold_right Nat.add].
    repeat split; try reflexivity.
  - unfold arr_ok. destruct (g_cons g); reflexivity.
  - left. split; [reflexivity|exact Hne].
  - reflexivity.
  - reflexivity.
Qed.

End D.
