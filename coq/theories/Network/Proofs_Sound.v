(** Network area: the SDK router never accepts more than the reference router
    ([sdk_step_sound]) -- lemmas. *)
From Coq Require Import Lia ZifyBool ZifyNat ZifyN.
From Sci Require Import Network.Model Network.Spec Network.Proofs.
Local Open Scope N_scope.
Ltac Zify.zify_post_hook ::= Z.div_mod_to_equations.
Arguments N.add : simpl never. Arguments N.sub : simpl never. Arguments N.mul : simpl never.
Arguments N.div : simpl never. Arguments N.modulo : simpl never. Arguments N.eqb : simpl never.
Arguments N.ltb : simpl never. Arguments N.leb : simpl never. Arguments N.min : simpl never.

Arguments Nat.eqb : simpl never. Arguments Nat.ltb : simpl never. Arguments Nat.leb : simpl never.

(** * segment arithmetic: the SDK's [seg_index] against the reference router's [seg_of] *)

Definition lens_ok (lens : list nat) : Prop := Forall (fun l => (1 <= l)%nat) lens.

Lemma seg_index_aux_cons l r agg idx h :
  seg_index_aux (l :: r) agg idx h =
  if (h <? agg + l)%nat then Some (idx, (h =? agg)%nat, (S h =? agg + l)%nat)
  else seg_index_aux r (agg + l) (S idx) h.
Proof. reflexivity. Qed.

Lemma seg_index_aux_spec lens : lens_ok lens -> forall agg idx h s st en,
  (agg <= h)%nat ->
  seg_index_aux lens agg idx h = Some (s, st, en) ->
  (idx <= s)%nat /\ seg_of lens (h - agg) = Some (s - idx)%nat
  /\ (h < agg + sum_nat lens)%nat
  /\ (en = false -> seg_of lens (S h - agg) = Some (s - idx)%nat /\ (S h < agg + sum_nat lens)%nat)
  /\ (en = true -> seg_of lens (S h - agg) =
                   if (S h <? agg + sum_nat lens)%nat then Some (S (s - idx)) else None).
Proof.
  intros Hok. induction Hok as [|l r Hl Hr IH]; intros agg idx h s st en Hle H;
    [discriminate|]. rewrite seg_index_aux_cons in H.
  unfold sum_nat in *. cbn [fold_right seg_of].
  destruct (h <? agg + l)%nat eqn:E.
  - apply Nat.ltb_lt in E. injection H as H1 H2 H3. subst s st en.
    replace (idx - idx)%nat with 0%nat by lia.
    assert (Eh : (h - agg <? l)%nat = true) by (apply Nat.ltb_lt; lia). rewrite Eh.
    refine (conj _ (conj eq_refl (conj _ (conj _ _)))); try lia.
    + intros Hen. apply Nat.eqb_neq in Hen.
      assert (Es : (S h - agg <? l)%nat = true) by (apply Nat.ltb_lt; lia). rewrite Es.
      split; [reflexivity|lia].
    + intros Hen. apply Nat.eqb_eq in Hen.
      assert (Es : (S h - agg <? l)%nat = false) by (apply Nat.ltb_ge; lia). rewrite Es.
      replace (S h - agg - l)%nat with 0%nat by lia.
      destruct r as [|l2 r2].
      * cbn [seg_of fold_right]. assert ((S h <? agg + (l + 0))%nat = false) as -> by (apply Nat.ltb_ge; lia).
        reflexivity.
      * inversion Hr as [|? ? Hl2 _]; subst. cbn [seg_of fold_right].
        assert ((0 <? l2)%nat = true) as -> by (apply Nat.ltb_lt; lia).
        assert ((S h <? agg + (l + (l2 + fold_right Nat.add 0%nat r2)))%nat = true) as ->
            by (apply Nat.ltb_lt; lia).
        reflexivity.
  - apply Nat.ltb_ge in E.
    specialize (IH (agg + l)%nat (S idx) h s st en E H).
    destruct IH as (I1 & I2 & I3 & I4 & I5).
    assert (Eh : (h - agg <? l)%nat = false) by (apply Nat.ltb_ge; lia). rewrite Eh.
    replace (h - agg - l)%nat with (h - (agg + l))%nat by lia. rewrite I2.
    assert (Es : (S h - agg <? l)%nat = false) by (apply Nat.ltb_ge; lia). rewrite Es.
    replace (S h - agg - l)%nat with (S h - (agg + l))%nat by lia.
    refine (conj _ (conj _ (conj _ (conj _ _)))); try lia.
    + f_equal. lia.
    + intros Hen. destruct (I4 Hen) as (J1 & J2). rewrite J1. split; [f_equal; lia|lia].
    + intros Hen. rewrite (I5 Hen).
      replace (agg + l + fold_right Nat.add 0%nat r)%nat with (agg + (l + fold_right Nat.add 0%nat r))%nat by lia.
      destruct (S h <? agg + (l + fold_right Nat.add 0%nat r))%nat; [f_equal; lia|reflexivity].
Qed.

Lemma seg_index_spec lens h s st en : lens_ok lens ->
  seg_index lens h = Some (s, st, en) ->
  seg_of lens h = Some s /\ (h < sum_nat lens)%nat
  /\ (en = false -> seg_of lens (S h) = Some s /\ (S h < sum_nat lens)%nat)
  /\ (en = true -> seg_of lens (S h) = if (S h <? sum_nat lens)%nat then Some (S s) else None).
Proof.
  intros Hok H. unfold seg_index in H.
  destruct (seg_index_aux_spec lens Hok 0%nat 0%nat h s st en (Nat.le_0_l _) H) as (_ & A & B & C & D).
  rewrite !Nat.sub_0_r in *. cbn [Nat.add] in *. auto.
Qed.

(** * time window *)
Lemma time_ok_iff now h i :
  ((now <? i_ts i) || (expiry_ts h i <? now)) = negb (ref_time_ok now h i).
Proof.
  unfold ref_time_ok, expiry_ts.
  destruct (now <? i_ts i) eqn:E1; destruct (i_ts i <=? now) eqn:E2;
    destruct (N.min (i_ts i + (h_exp h + 1) * 675 / 2) 4294967295 <? now) eqn:E3;
    destruct (2 * now <=? 2 * i_ts i + (h_exp h + 1) * 675) eqn:E4;
    destruct (now <=? 4294967295) eqn:E5; cbn [orb andb negb]; try reflexivity; exfalso; lia.
Qed.

(** the two tables agree off the peering pairs (16 pairs, by computation) *)
Lemma xover_tables a b :
  involves_peer a b = false -> sdk_seg_change_ok a b = true -> ref_xover_ok a b = true.
Proof. destruct a, b; vm_compute; intros; congruence. Qed.

Lemma or_else_none {A} (a b : option A) : or_else a b = None -> a = None /\ b = None.
Proof. destruct a; cbn; [discriminate|auto]. Qed.

Section S.
Context {key : Type}.
Variable mac : key -> N -> N -> N -> N -> N -> N.

Lemma validate_ingress_none ac i now K h inf :
  sdk_validate_hop mac true ac i now K h inf = None ->
  (ac = false -> (i =? 0) = false -> (hop_ingress h inf =? i) = true)
  /\ ref_time_ok now h inf = true /\ hop_mac_ok mac K h inf = true.
Proof.
  unfold sdk_validate_hop. cbn [andb negb].
  pose proof (time_ok_iff now h inf) as T.
  destruct ac; cbn [negb andb];
    destruct (i =? 0) eqn:E0; cbn [negb andb];
    destruct (hop_ingress h inf =? i) eqn:E1; cbn [negb andb]; try discriminate;
    destruct (now <? i_ts inf); try discriminate;
    destruct (expiry_ts h inf <? now); try discriminate; cbn [orb] in T;
    destruct (hop_mac_ok mac K h inf); cbn [negb]; try discriminate;
    destruct (ref_time_ok now h inf); try discriminate; intros _; repeat split; congruence.
Qed.

Lemma validate_egress_none ac e now K h inf :
  sdk_validate_hop mac false ac e now K h inf = None ->
  hop_egress h inf = e /\ ref_time_ok now h inf = true /\ hop_mac_ok mac K h inf = true.
Proof.
  unfold sdk_validate_hop. cbn [andb negb].
  pose proof (time_ok_iff now h inf) as T.
  destruct (hop_egress h inf =? e) eqn:E1; cbn [negb]; try discriminate.
  apply N.eqb_eq in E1.
  destruct (now <? i_ts inf); try discriminate.
  destruct (expiry_ts h inf <? now); try discriminate. cbn [orb] in T.
  destruct (hop_mac_ok mac K h inf); cbn [negb]; try discriminate.
  destruct (ref_time_ok now h inf); try discriminate. auto.
Qed.

Lemma no_peer_flag infos k inf :
  existsb i_peer infos = false -> nth_error infos k = Some inf -> i_peer inf = false.
Proof.
  revert k. induction infos as [|a l IH]; intros [|k] H E; cbn in *; try discriminate.
  - inversion E; subst. apply orb_false_iff in H. tauto.
  - apply orb_false_iff in H. eapply IH; [tauto|exact E].
Qed.

Lemma iface_nonzero (t : topology key) ia e r :
  wf_topo t = true -> iface_state t ia e = Some r -> (e =? 0) = false.
Proof.
  unfold wf_topo, iface_state, scion_link. intros W H.
  destruct (find _ (t_links t)) as [l|] eqn:F; [|discriminate].
  apply find_some in F. destruct F as (Hin & Hb).
  rewrite forallb_forall in W. specialize (W l Hin).
  apply andb_true_iff in W. destruct W as (W1 & W2).
  apply negb_true_iff in W1, W2.
  apply orb_true_iff in Hb. destruct Hb as [Hb|Hb]; apply andb_true_iff in Hb; destruct Hb as (Hb & _);
    apply N.eqb_eq in Hb; subst e; assumption.
Qed.

Lemma hop_ingress_inv h inf (a c : bool) s :
  hop_ingress (if a then (if c then set_ain h false else set_aeg h false) else h)
              (if c then inf else set_segid inf s) = hop_ingress h inf.
Proof. destruct a, c; reflexivity. Qed.

End S.

Section Sound.
Context {key : Type}.
Variable mac : key -> N -> N -> N -> N -> N -> N.

Definition path_ok (p : path) : Prop :=
  lens_ok (p_lens p) /\ sum_nat (p_lens p) = length (p_hops p).

(** the SegID an ingress router restores against construction direction, and the chaining an
    egress router does in construction direction *)
Definition seg_upd (i : N) (inf : infof) (h : hopf) : infof :=
  if negb (i =? 0) && negb (i_cons inf)
  then set_segid inf (beta_step (i_segid inf) (h_mac h)) else inf.
Definition seg_chain (inf : infof) (h : hopf) : infof :=
  if i_cons inf then set_segid inf (beta_step (i_segid inf) (h_mac h)) else inf.
Definition in_alert (h : hopf) (inf : infof) : bool := if i_cons inf then h_ain h else h_aeg h.
Definition eg_alert (h : hopf) (inf : infof) : bool := if i_cons inf then h_aeg h else h_ain h.

Lemma hop_egress_chain h inf (a c : bool) h' :
  hop_egress (if a then (if c then set_aeg h false else set_ain h false) else h)
             (seg_chain inf h') = hop_egress h inf.
Proof. unfold seg_chain, hop_egress. destruct a, c, (i_cons inf) eqn:E; cbn; rewrite ?E; reflexivity. Qed.

(** what both routers agree a good step is (outside the peering findings) *)
Inductive good_step (t : topology key) (ia : N) (K : key) (now i : N)
  : packet -> action -> packet -> Prop :=
| GDeliver dst p h inf :
    nth_error (p_hops p) (p_ch p) = Some h -> nth_error (p_infos p) (p_ci p) = Some inf ->
    seg_of (p_lens p) (p_ch p) = Some (p_ci p) -> i_peer inf = false ->
    S (p_ch p) = length (p_hops p) ->
    ref_time_ok now h inf = true ->
    (negb (i =? 0) && negb (hop_ingress h inf =? i)) = false ->
    hop_mac_ok mac K h (seg_upd i inf h) = true ->
    (negb (i =? 0) && in_alert h inf) = false ->
    ia = dst ->
    good_step t ia K now i (mkPkt dst p) ALocal
      (mkPkt dst (mkPath (p_ci p) (p_ch p) (p_lens p)
                         (upd (p_infos p) (p_ci p) (seg_upd i inf h)) (p_hops p)))
| GPlain dst p h inf ty :
    nth_error (p_hops p) (p_ch p) = Some h -> nth_error (p_infos p) (p_ci p) = Some inf ->
    seg_of (p_lens p) (p_ch p) = Some (p_ci p) -> i_peer inf = false ->
    seg_of (p_lens p) (S (p_ch p)) = Some (p_ci p) -> (S (p_ch p) < length (p_hops p))%nat ->
    ref_time_ok now h inf = true ->
    (negb (i =? 0) && negb (hop_ingress h inf =? i)) = false ->
    hop_mac_ok mac K h (seg_upd i inf h) = true ->
    (negb (i =? 0) && in_alert h inf) = false ->
    iface_state t ia (hop_egress h inf) = Some (ty, true) ->
    eg_alert h inf = false ->
    good_step t ia K now i (mkPkt dst p) (AFwd (hop_egress h inf))
      (mkPkt dst (mkPath (p_ci p) (S (p_ch p)) (p_lens p)
                         (upd (upd (p_infos p) (p_ci p) (seg_upd i inf h)) (p_ci p)
                              (seg_chain (seg_upd i inf h) h)) (p_hops p)))
| GXover dst p h inf nh ninf lin upi lout :
    nth_error (p_hops p) (p_ch p) = Some h -> nth_error (p_infos p) (p_ci p) = Some inf ->
    seg_of (p_lens p) (p_ch p) = Some (p_ci p) -> i_peer inf = false ->
    seg_of (p_lens p) (S (p_ch p)) = Some (S (p_ci p)) -> (S (p_ch p) < length (p_hops p))%nat ->
    seg_of (p_lens p) (S (S (p_ch p))) = Some (S (p_ci p)) ->
    nth_error (p_hops p) (S (p_ch p)) = Some nh -> nth_error (p_infos p) (S (p_ci p)) = Some ninf ->
    ref_time_ok now h inf = true ->
    (i =? 0) = false -> (hop_ingress h inf =? i) = true ->
    hop_mac_ok mac K h (seg_upd i inf h) = true ->
    in_alert h inf = false ->
    eg_alert h inf = false -> in_alert nh ninf = false ->
    ref_time_ok now nh ninf = true -> hop_mac_ok mac K nh ninf = true ->
    iface_state t ia i = Some (lin, upi) ->
    iface_state t ia (hop_egress nh ninf) = Some (lout, true) ->
    ref_xover_ok lin lout = true ->
    eg_alert nh ninf = false ->
    good_step t ia K now i (mkPkt dst p) (AFwd (hop_egress nh ninf))
      (mkPkt dst (mkPath (S (p_ci p)) (S (S (p_ch p))) (p_lens p)
                         (upd (upd (p_infos p) (p_ci p) (seg_upd i inf h)) (S (p_ci p))
                              (seg_chain ninf nh)) (p_hops p))).

(** the reference router performs every good step *)
Lemma good_to_ref t ia K now i pk a pk' :
  good_step t ia K now i pk a pk' ->
  match a with
  | AFwd e => ref_step mac t ia K now i pk = RForward e pk'
  | ALocal => ref_step mac t ia K now i pk = RDeliver pk'
  | _ => True
  end.
Proof.
  intros G. destruct G as
    [dst p h inf Eh Ei So Pf Hl Vt Ring Vm Hal Hd
    |dst p h inf ty Eh Ei So Pf Sn Hlt Vt Ring Vm Hal Hif Hea
    |dst p h inf nh ninf lin upi lout Eh Ei So Pf Sn Hlt Sn2 Enh Eni Vt E0 Eing Vm Hia Hea Hina Vt2 Vm2 Hli Hlo Hx Hea2].
  - unfold ref_step. cbn [k_path k_dst]. rewrite Eh, So, Nat.eqb_refl, Ei. cbn [negb].
    rewrite Pf. cbn [andb negb]. rewrite Vt. cbn [negb]. rewrite Ring.
    replace (if negb (i_cons inf) && negb (i =? 0) && true
             then set_segid inf (beta_step (i_segid inf) (h_mac h)) else inf)
      with (seg_upd i inf h)
      by (unfold seg_upd; destruct (i_cons inf), (i =? 0); reflexivity).
    rewrite Vm. cbn [negb]. fold (in_alert h inf). rewrite Hal.
    rewrite Hl, Nat.eqb_refl. subst ia. rewrite N.eqb_refl. reflexivity.
  - unfold ref_step. cbn [k_path k_dst]. rewrite Eh, So, Nat.eqb_refl, Ei. cbn [negb].
    rewrite Pf. cbn [andb negb]. rewrite Vt. cbn [negb]. rewrite Ring.
    replace (if negb (i_cons inf) && negb (i =? 0) && true
             then set_segid inf (beta_step (i_segid inf) (h_mac h)) else inf)
      with (seg_upd i inf h)
      by (unfold seg_upd; destruct (i_cons inf), (i =? 0); reflexivity).
    rewrite Vm. cbn [negb]. fold (in_alert h inf). rewrite Hal.
    assert ((S (p_ch p) =? length (p_hops p))%nat = false) as -> by (apply Nat.eqb_neq; lia).
    rewrite Sn, Nat.eqb_refl. cbn [negb andb].
    assert (Heg : hop_egress h (seg_upd i inf h) = hop_egress h inf)
      by (unfold seg_upd; destruct (negb (i =? 0) && negb (i_cons inf)); reflexivity).
    rewrite Heg, Hif. cbn [negb].
    assert (Hc : i_cons (seg_upd i inf h) = i_cons inf)
      by (unfold seg_upd; destruct (negb (i =? 0) && negb (i_cons inf)); reflexivity).
    rewrite Hc. fold (eg_alert h inf). rewrite Hea. cbn [negb]. rewrite Sn.
    unfold seg_chain. rewrite Hc. destruct (i_cons inf); reflexivity.
  - unfold ref_step. cbn [k_path k_dst]. rewrite Eh, So, Nat.eqb_refl, Ei. cbn [negb].
    rewrite Pf. cbn [andb negb]. rewrite Vt. cbn [negb]. rewrite E0, Eing. cbn [negb andb].
    replace (if negb (i_cons inf) && true && true
             then set_segid inf (beta_step (i_segid inf) (h_mac h)) else inf)
      with (seg_upd i inf h)
      by (unfold seg_upd; rewrite E0; destruct (i_cons inf); reflexivity).
    rewrite Vm. cbn [negb]. fold (in_alert h inf). rewrite Hia.
    assert ((S (p_ch p) =? length (p_hops p))%nat = false) as -> by (apply Nat.eqb_neq; lia).
    rewrite Sn. assert ((S (p_ci p) =? p_ci p)%nat = false) as -> by (apply Nat.eqb_neq; lia).
    cbn [negb andb]. rewrite Enh.
    assert (Eni' : nth_error (upd (p_infos p) (p_ci p) (seg_upd i inf h)) (S (p_ci p)) = Some ninf)
      by (rewrite nth_error_upd_neq; [exact Eni|lia]).
    rewrite Eni'. fold (eg_alert h inf) (in_alert nh ninf). rewrite Hea, Hina. cbn [orb].
    rewrite Vt2, Vm2. cbn [negb]. rewrite Hlo, Hli, Hx. cbn [negb].
    fold (eg_alert nh ninf). rewrite Hea2. rewrite Sn2.
    unfold seg_chain. destruct (i_cons ninf); reflexivity.
Qed.

(** ... and the SDK router only ever forwards or delivers by a good step *)
Lemma sdk_to_good t ia K now i pk a pk' :
  wf_topo t = true -> path_ok (k_path pk) -> step_scope t ia i (k_path pk) = true ->
  sdk_route mac t ia K now i pk = (a, pk') ->
  match a with AFwd _ | ALocal => good_step t ia K now i pk a pk' | _ => True end.
Proof.
  intros W (Hlens & Hsum) Sc. destruct pk as [dst p]. cbn [k_path] in *.
  unfold step_scope in Sc. apply andb_true_iff in Sc. destruct Sc as (Sp & Sx).
  apply negb_true_iff in Sp. unfold uses_peering in Sp.
  unfold sdk_route, sdk_handle, sdk_advance_ingress. cbn [k_path k_dst].
  destruct (seg_index (p_lens p) (p_ch p)) as [[[seg st] en]|] eqn:Es;
    [|intros H; inversion H; exact I].
  destruct (st && en); [intros H; inversion H; exact I|].
  destruct (seg =? p_ci p)%nat eqn:Eci; cbn [negb]; [|intros H; inversion H; exact I].
  apply Nat.eqb_eq in Eci. subst seg.
  destruct (nth_error (p_hops p) (p_ch p)) as [h|] eqn:Eh; [|intros H; inversion H; exact I].
  destruct (nth_error (p_infos p) (p_ci p)) as [inf|] eqn:Ei; [|intros H; inversion H; exact I].
  pose proof (no_peer_flag _ _ _ Sp Ei) as Pf.
  destruct (seg_index_spec _ _ _ _ _ Hlens Es) as (So & Hlt & Sn0 & Sn1).
  rewrite Hsum in *.
  fold (seg_upd i inf h). fold (in_alert h inf).
  set (inf1 := seg_upd i inf h).
  set (al := in_alert h inf).
  set (h1 := if negb (i =? 0) && al then (if i_cons inf then set_ain h false else set_aeg h false) else h).
  assert (Tinf : ref_time_ok now h inf1 = ref_time_ok now h inf).
  { unfold inf1, seg_upd. destruct (negb (i =? 0) && negb (i_cons inf)); reflexivity. }
  assert (Iinf : hop_ingress h inf1 = hop_ingress h inf).
  { unfold inf1, seg_upd. destruct (negb (i =? 0) && negb (i_cons inf)); reflexivity. }
  assert (Cinf : i_cons inf1 = i_cons inf).
  { unfold inf1, seg_upd. destruct (negb (i =? 0) && negb (i_cons inf)); reflexivity. }
  destruct (sdk_validate_hop mac true false i now K h inf1) as [err|] eqn:Ev.
  { destruct (length (p_hops p) <=? p_ch p + 1)%nat; destruct en;
      try (intros H; inversion H; exact I).
    - intros H; inversion H; subst; destruct err; exact I.
    - destruct (63 <? S (p_ch p))%nat; [intros H; inversion H; exact I|].
      destruct (nth_error (p_hops p) (S (p_ch p))); [|intros H; inversion H; exact I].
      destruct (nth_error (p_infos p) (S (p_ci p))); [|intros H; inversion H; exact I].
      cbn [or_else]. intros H; inversion H; subst; destruct err; exact I.
    - intros H; inversion H; subst; destruct err; exact I. }
  destruct (validate_ingress_none mac _ _ _ _ _ _ Ev) as (Ving & Vt & Vm).
  rewrite Tinf in Vt.
  assert (Ring : (negb (i =? 0) && negb (hop_ingress h inf =? i)) = false).
  { destruct (i =? 0) eqn:E0; [reflexivity|]. cbn [negb andb].
    rewrite <- Iinf. rewrite (Ving eq_refl eq_refl). reflexivity. }
  (* when no ingress alert decision is taken, the alert flag was not cleared *)
  assert (Hal_of : forall ing', ing' = hop_ingress h inf ->
            (al && negb (i =? 0) && (ing' =? i)) = false -> (negb (i =? 0) && al) = false).
  { intros ing' -> Ea. destruct (i =? 0) eqn:E0; [reflexivity|]. cbn [negb andb] in *.
    destruct al; [|reflexivity]. cbn [andb] in Ea. rewrite <- Iinf in Ea.
    rewrite (Ving eq_refl eq_refl) in Ea. discriminate. }
  destruct (length (p_hops p) <=? p_ch p + 1)%nat eqn:Ef; destruct en.
  - (* final hop *)
    cbn [or_else].
    destruct (al && negb (i =? 0) && (hop_ingress h inf =? i)) eqn:Ea;
      [intros H; inversion H; exact I|].
    pose proof (Hal_of _ eq_refl Ea) as Hal.
    destruct (ia =? dst) eqn:Ed; intros H; inversion H; subst; [|exact I].
    unfold h1. rewrite Hal. rewrite (upd_same _ _ _ Eh).
    apply N.eqb_eq in Ed.
    apply (GDeliver t ia K now i dst p h inf); auto.
    apply Nat.leb_le in Ef. lia.
  - intros H; inversion H; exact I.
  - (* segment change *)
    apply Nat.leb_gt in Ef.
    destruct (63 <? S (p_ch p))%nat; [intros H; inversion H; exact I|].
    destruct (nth_error (p_hops p) (S (p_ch p))) as [nh|] eqn:Enh; [|intros H; inversion H; exact I].
    destruct (nth_error (p_infos p) (S (p_ci p))) as [ninf|] eqn:Eni; [|intros H; inversion H; exact I].
    cbn [or_else].
    destruct (or_else (sdk_validate_seg_change t ia h1 inf1 nh ninf)
                      (sdk_validate_hop mac true true i now K nh ninf)) as [err|] eqn:Ev2;
      [intros H; inversion H; subst; destruct err; exact I|].
    apply or_else_none in Ev2. destruct Ev2 as (Vsc & Vnh).
    destruct (validate_ingress_none mac _ _ _ _ _ _ Vnh) as (_ & Vt2 & Vm2).
    destruct (al && negb (i =? 0) && (hop_ingress h inf =? i)) eqn:Ea;
      [intros H; inversion H; exact I|].
    pose proof (Hal_of _ eq_refl Ea) as Hal.
    (* scope: came from a neighbour *)
    assert (Ef' : (length (p_hops p) <=? p_ch p + 1)%nat = false) by (apply Nat.leb_gt; lia).
    try rewrite Ef' in Sx. try rewrite Enh in Sx. try rewrite Eni in Sx. apply andb_true_iff in Sx. destruct Sx as (E0 & Sx).
    apply negb_true_iff in E0.
    rewrite E0 in Hal. cbn [negb andb] in Hal.
    assert (Eing : (hop_ingress h inf =? i) = true) by (rewrite <- Iinf; apply Ving; auto).
    assert (Hh1 : h1 = h) by (unfold h1; rewrite Hal, andb_false_r; reflexivity).
    rewrite Hh1 in *. clear Hh1.
    (* the segment-change validation *)
    unfold sdk_validate_seg_change in Vsc. rewrite Cinf in Vsc. fold (eg_alert h inf) in Vsc.
    fold (in_alert nh ninf) in Vsc.
    destruct (eg_alert h inf) eqn:Hea; [discriminate|].
    destruct (in_alert nh ninf) eqn:Hina; [discriminate|].
    rewrite Iinf in Vsc. apply N.eqb_eq in Eing. rewrite Eing in Vsc.
    destruct (iface_state t ia i) as [[lin upi]|] eqn:Hli; [|discriminate].
    destruct (iface_state t ia (hop_egress nh ninf)) as [[lout upo]|] eqn:Hlo; [|discriminate].
    destruct (sdk_seg_change_ok lin lout) eqn:Htab; [|discriminate].
    apply negb_true_iff in Sx.
    pose proof (xover_tables _ _ Sx Htab) as Hx.
    cbn [p_infos p_ci p_ch p_hops p_lens].
    assert (Eni1 : nth_error (upd (p_infos p) (p_ci p) inf1) (S (p_ci p)) = Some ninf)
      by (rewrite nth_error_upd_neq; [exact Eni|lia]).
    rewrite Eni1.
    destruct upo; cbn [negb]; [|intros H; inversion H; exact I].
    (* egress half on the next hop field *)
    unfold sdk_advance_egress. cbn [p_infos p_ci p_ch p_hops p_lens].
    destruct (seg_index (p_lens p) (S (p_ch p))) as [[[seg2 st2] en2]|] eqn:Es2;
      [|intros H; inversion H; exact I].
    destruct (seg_index_spec _ _ _ _ _ Hlens Es2) as (So2 & Hlt2 & Sm0 & Sm1).
    rewrite Hsum in *.
    pose proof (Sn1 eq_refl) as Sn. 
    assert ((S (p_ch p) <? length (p_hops p))%nat = true) as Hb by (apply Nat.ltb_lt; lia).
    rewrite Hb in Sn. rewrite Sn in So2. inversion So2; subst seg2. rewrite Nat.eqb_refl. cbn [negb].
    rewrite upd_length.
    assert (Enh1 : nth_error (upd (p_hops p) (p_ch p) h) (S (p_ch p)) = Some nh)
      by (rewrite nth_error_upd_neq; [exact Enh|lia]).
    rewrite Enh1, Eni1.
    destruct (length (p_hops p) <=? S (p_ch p) + 1)%nat eqn:Ef2; [intros H; inversion H; exact I|].
    destruct (63 <? S (S (p_ch p)))%nat; [intros H; inversion H; exact I|].
    destruct en2; [intros H; inversion H; exact I|].
    destruct (sdk_validate_hop mac false false (hop_egress nh ninf) now K nh ninf) as [err|] eqn:Ev3;
      [intros H; inversion H; subst; destruct err; exact I|].
    fold (eg_alert nh ninf). fold (seg_chain ninf nh).
    rewrite hop_egress_chain.
    pose proof (iface_nonzero t ia _ _ W Hlo) as Enz.
    rewrite Enz, N.eqb_refl. cbn [negb]. rewrite andb_true_r.
    destruct (eg_alert nh ninf) eqn:Hea2; [intros H; inversion H; exact I|].
    intros H; inversion H; subst a pk'; clear H.
    rewrite (upd_same _ _ _ Eh). rewrite (upd_same _ _ _ Enh).
    destruct (Sm0 eq_refl) as (Sn2 & _).
    eapply (GXover t ia K now i dst p h inf nh ninf lin upi lout); eauto.
    apply N.eqb_eq. exact Eing.
  - (* plain forward *)
    apply Nat.leb_gt in Ef.
    destruct (al && negb (i =? 0) && (hop_ingress h inf =? i)) eqn:Ea;
      [intros H; inversion H; exact I|].
    pose proof (Hal_of _ eq_refl Ea) as Hal.
    assert (Hh1 : h1 = h) by (unfold h1; rewrite Hal; reflexivity).
    rewrite Hh1. clear Hh1. cbn [p_infos p_ci p_ch p_hops p_lens].
    assert (Ei1 : nth_error (upd (p_infos p) (p_ci p) inf1) (p_ci p) = Some inf1).
    { apply nth_error_upd_eq. apply nth_error_Some. congruence. }
    rewrite Ei1.
    assert (Heg : hop_egress h inf1 = hop_egress h inf)
      by (unfold inf1, seg_upd; destruct (negb (i =? 0) && negb (i_cons inf)); reflexivity).
    rewrite Heg.
    destruct (iface_state t ia (hop_egress h inf)) as [[ty up]|] eqn:Hif;
      [|intros H; inversion H; subst; exact I].
    destruct up; cbn [negb]; [|intros H; inversion H; exact I].
    unfold sdk_advance_egress. cbn [p_infos p_ci p_ch p_hops p_lens].
    rewrite Es, Nat.eqb_refl. cbn [negb]. rewrite upd_length.
    rewrite (upd_same _ _ _ Eh). rewrite Eh, Ei1.
    assert ((length (p_hops p) <=? p_ch p + 1)%nat = false) as -> by (apply Nat.leb_gt; lia).
    destruct (63 <? S (p_ch p))%nat; [intros H; inversion H; exact I|].
    destruct (sdk_validate_hop mac false false (hop_egress h inf) now K h inf1) as [err|] eqn:Ev3;
      [intros H; inversion H; subst; destruct err; exact I|].
    rewrite Cinf. fold (eg_alert h inf).
    replace (if i_cons inf then set_segid inf1 (beta_step (i_segid inf1) (h_mac h)) else inf1)
      with (seg_chain inf1 h) by (unfold seg_chain; rewrite Cinf; reflexivity).
    rewrite hop_egress_chain. rewrite Heg.
    pose proof (iface_nonzero t ia _ _ W Hif) as Enz.
    rewrite Enz, N.eqb_refl. cbn [negb]. rewrite andb_true_r.
    destruct (eg_alert h inf) eqn:Hea; [intros H; inversion H; exact I|].
    intros H; inversion H; subst a pk'; clear H.
    rewrite (upd_same _ _ _ Eh).
    destruct (Sn0 eq_refl) as (Sn & Hlt').
    eapply (GPlain t ia K now i dst p h inf ty); eauto.
Qed.

(** stepwise soundness of the SDK router with respect to the reference router *)
Lemma sdk_step_sound t ia K now i pk :
  wf_topo t = true -> path_ok (k_path pk) -> step_scope t ia i (k_path pk) = true ->
  (forall e pk', sdk_route mac t ia K now i pk = (AFwd e, pk') ->
                 ref_step mac t ia K now i pk = RForward e pk')
  /\ (forall pk', sdk_route mac t ia K now i pk = (ALocal, pk') ->
                  ref_step mac t ia K now i pk = RDeliver pk').
Proof.
  intros W P S. split.
  - intros e pk' H. pose proof (sdk_to_good _ _ _ _ _ _ _ _ W P S H) as G. cbn in G.
    exact (good_to_ref _ _ _ _ _ _ _ _ G).
  - intros pk' H. pose proof (sdk_to_good _ _ _ _ _ _ _ _ W P S H) as G. cbn in G.
    exact (good_to_ref _ _ _ _ _ _ _ _ G).
Qed.

(** every forwarding decision rests on a hop field that is authentic for this AS over the
    SegID carried at that moment, within its lifetime, and names the egress interface used;
    the hop field the packet entered on was validated too (no error from the ingress half) *)
Lemma sdk_fwd_authentic t ia K now i pk e pk' :
  sdk_route mac t ia K now i pk = (AFwd e, pk') ->
  exists p1 al ing act h inf,
    sdk_advance_ingress mac t ia K now i (k_path pk) = Ok (p1, al, ing, act, None)
    /\ nth_error (p_hops p1) (p_ch p1) = Some h /\ nth_error (p_infos p1) (p_ci p1) = Some inf
    /\ hop_egress h inf = e /\ hop_mac_ok mac K h inf = true /\ ref_time_ok now h inf = true.
Proof.
  unfold sdk_route. destruct (sdk_handle mac t ia K now i (k_path pk)) as [p' r] eqn:E.
  destruct r as [a| |]; try (intros H; inversion H; fail).
  2:{ destruct e0; cbn; intros H; inversion H. }
  destruct a; try (intros H; inversion H; fail).
  2:{ destruct (ia =? k_dst pk); intros H; inversion H. }
  intros H; inversion H; subst eg pk'; clear H.
  unfold sdk_handle in E.
  destruct (sdk_advance_ingress mac t ia K now i (k_path pk)) as [[[[[p1 al] ing] act] verr]| |] eqn:Ei;
    [|inversion E|inversion E].
  destruct verr; [inversion E|].
  destruct (al && negb (i =? 0) && (ing =? i)); [inversion E|].
  destruct act as [eg|]; [|inversion E].
  destruct (nth_error (p_infos p1) (p_ci p1)) as [ci|] eqn:Eci; [|inversion E].
  destruct (iface_state t ia eg) as [[ty up]|]; [|inversion E].
  destruct up; cbn [negb] in E; [|inversion E].
  destruct (sdk_advance_egress mac K now eg p1) as [[[[p2 al2] eg2] verr2]| |] eqn:Ee;
    [|inversion E|inversion E].
  destruct verr2; [inversion E|].
  destruct (al2 && negb (eg2 =? 0) && (eg2 =? eg)); inversion E; subst; clear E.
  unfold sdk_advance_egress in Ee.
  destruct (seg_index (p_lens p1) (p_ch p1)) as [[[seg st] en]|]; [|discriminate].
  destruct (negb (seg =? p_ci p1)%nat); [discriminate|].
  destruct (nth_error (p_hops p1) (p_ch p1)) as [h|] eqn:Eh; [|discriminate].
  rewrite Eci in Ee.
  destruct (length (p_hops p1) <=? p_ch p1 + 1)%nat; [discriminate|].
  destruct (63 <? S (p_ch p1))%nat; [discriminate|].
  destruct en; [discriminate|].
  injection Ee as Hp Hal Heg Hv.
  destruct (validate_egress_none mac _ _ _ _ _ _ Hv) as (A & B & C).
  exists p1, al, ing, (Some eg), h, ci. repeat split; auto.
  rewrite <- Heg. rewrite hop_egress_inv. reflexivity.
Qed.

(** * run level *)

(** [step_scope] holds at every AS the SDK's run visits *)
Fixpoint run_scope (fuel : nat) (t : topology key) (now ia i : N) (pk : packet) : bool :=
  match fuel with
  | O => true
  | S f =>
    step_scope t ia i (k_path pk) &&
    match find_as t ia with
    | None => true
    | Some a =>
      match sdk_route mac t ia (a_key a) now i pk with
      | (AFwd eg, pk') =>
        match scion_link t ia eg with
        | Some l => match get_peer l ia with
                    | Some (ia', if') => run_scope f t now ia' if' pk'
                    | None => true
                    end
        | None => true
        end
      | _ => true
      end
    end
  end.

Definition fwd_of_steps (tr : list step) : list (N * N * N) :=
  flat_map (fun s => match s_act s with AFwd e => [(s_ia s, s_if s, e)] | _ => [] end) tr.

Lemma sdk_sim_sound fuel t now : wf_topo t = true ->
  forall ia i pk tr e pk',
  path_ok (k_path pk) -> run_scope fuel t now ia i pk = true ->
  sdk_sim mac fuel t now ia i pk = (tr, e, pk') ->
  forall rtr rend rpk, ref_sim mac fuel t now ia i pk = (rtr, rend, rpk) ->
  (exists more, rtr = fwd_of_steps tr ++ more)
  /\ (forall pre s, tr = pre ++ [s] -> s_act s = ALocal ->
        rtr = fwd_of_steps tr /\ rend = RDelivered (s_ia s) /\ rpk = pk').
Proof.
  intros W. induction fuel as [|f IH]; intros ia i pk tr e pk' P Sc H rtr rend rpk R;
    cbn [sdk_sim ref_sim run_scope] in *.
  - inversion H; subst. inversion R; subst. split; [exists []; reflexivity|].
    intros pre s Hp. destruct pre; discriminate.
  - apply andb_true_iff in Sc. destruct Sc as (Sc1 & Sc2).
    destruct (find_as t ia) as [a|] eqn:Ea.
    2:{ inversion H; subst. inversion R; subst. split; [exists []; reflexivity|].
        intros pre s Hp. destruct pre; discriminate. }
    destruct (sdk_step_sound t ia (a_key a) now i pk W P Sc1) as (SF & SL).
    destruct (sdk_route mac t ia (a_key a) now i pk) as [act pk1] eqn:Er.
    assert (Hother : forall x, (forall eg, act <> AFwd eg) -> act <> ALocal ->
              tr = [mkStep ia i act] -> x = fwd_of_steps tr ++ x
              /\ (forall pre s, tr = pre ++ [s] -> s_act s = ALocal -> False)).
    { intros x N1 N2 ->. split.
      - unfold fwd_of_steps. cbn. destruct act; try reflexivity. exfalso; eapply N1; reflexivity.
      - intros pre s Hp Hs. destruct pre as [|y pre]; cbn in Hp.
        + inversion Hp; subst s. cbn in Hs. congruence.
        + inversion Hp. destruct pre; discriminate. }
    destruct act.
    + (* forward *)
      rewrite (SF _ _ eq_refl) in R.
      pose proof (sdk_route_fwd _ _ _ _ _ _ _ _ _ Er) as (_ & (HL & HH & _) & _).
      assert (P1 : path_ok (k_path pk1)).
      { destruct P as (P1 & P2). split; [rewrite HL; exact P1|rewrite HL, HH; exact P2]. }
      destruct (scion_link t ia eg) as [l|].
      2:{ inversion H; subst. inversion R; subst. split; [exists []; reflexivity|].
          intros pre s Hp. destruct pre; discriminate. }
      destruct (get_peer l ia) as [[ia' if']|].
      2:{ inversion H; subst. inversion R; subst. split; [exists []; reflexivity|].
          intros pre s Hp. destruct pre; discriminate. }
      destruct (ref_sim mac f t now ia' if' pk1) as [[rtr1 rend1] rpk1] eqn:R1.
      inversion R; subst rtr rend rpk; clear R.
      destruct (find_as t ia').
      2:{ inversion H; subst. split; [exists ((ia, i, eg) :: rtr1); reflexivity|].
          intros pre s Hp. destruct pre; discriminate. }
      destruct (sdk_sim mac f t now ia' if' pk1) as [[tr1 e1] pk2] eqn:S1.
      inversion H; subst tr e pk'; clear H.
      destruct (IH _ _ _ _ _ _ P1 Sc2 S1 _ _ _ R1) as ((more & Hm) & Hd).
      split.
      * exists more. unfold fwd_of_steps in *.
        cbn [flat_map s_act s_ia s_if app]. f_equal. exact Hm.
      * intros pre s Hp Hs. destruct pre as [|y pre]; cbn in Hp.
        -- inversion Hp; subst s. cbn in Hs. discriminate.
        -- inversion Hp; subst y. destruct (Hd pre s H1 Hs) as (A & B & C).
           split; [|split; assumption]. unfold fwd_of_steps in *.
           cbn [flat_map s_act s_ia s_if app]. f_equal. rewrite H1 in A. exact A.
    + (* deliver *)
      rewrite (SL _ eq_refl) in R. inversion R; subst; clear R. inversion H; subst; clear H.
      split; [exists []; reflexivity|].
      intros pre s Hp Hs. destruct pre as [|y pre]; cbn in Hp.
      * inversion Hp; subst s. cbn. auto.
      * inversion Hp. destruct pre; discriminate.
    + inversion H; subst. destruct (Hother rtr ltac:(congruence) ltac:(congruence) eq_refl) as (A & B).
      split; [exists rtr; exact A|]. intros pre s Hp Hs. destruct (B pre s Hp Hs).
    + inversion H; subst. destruct (Hother rtr ltac:(congruence) ltac:(congruence) eq_refl) as (A & B).
      split; [exists rtr; exact A|]. intros pre s Hp Hs. destruct (B pre s Hp Hs).
    + inversion H; subst. destruct (Hother rtr ltac:(congruence) ltac:(congruence) eq_refl) as (A & B).
      split; [exists rtr; exact A|]. intros pre s Hp Hs. destruct (B pre s Hp Hs).
    + inversion H; subst. destruct (Hother rtr ltac:(congruence) ltac:(congruence) eq_refl) as (A & B).
      split; [exists rtr; exact A|]. intros pre s Hp Hs. destruct (B pre s Hp Hs).
    + inversion H; subst. destruct (Hother rtr ltac:(congruence) ltac:(congruence) eq_refl) as (A & B).
      split; [exists rtr; exact A|]. intros pre s Hp Hs. destruct (B pre s Hp Hs).
Qed.
End Sound.
