(** Network area, C01: peering paths.  Two segments, both with the PEERING flag: the first
    travelled against construction direction and ending in a peering hop field, the second in
    construction direction and starting with one; the peering link joins the two.  The
    reference router carries such a path to its destination when the SegIDs are the values
    the chain invariant ([Proofs_C01.chain_invariant_use], peer cases) establishes. *)
From Coq Require Import Lia ZifyBool ZifyNat ZifyN.
From Sci Require Import Network.Model Network.Spec Network.Proofs Network.Proofs_Sound Network.Proofs_Deliver
     Network.Proofs_C01 Network.Proofs_Combined.
Local Open Scope N_scope.
Arguments N.add : simpl never. Arguments N.sub : simpl never. Arguments N.mul : simpl never.
Arguments N.div : simpl never. Arguments N.modulo : simpl never. Arguments N.eqb : simpl never.
Arguments N.ltb : simpl never. Arguments N.leb : simpl never.
Arguments Nat.eqb : simpl never. Arguments Nat.ltb : simpl never. Arguments Nat.leb : simpl never.

Section P.
Context {key : Type}.
Variable mac : key -> N -> N -> N -> N -> N -> N.
Variable t : topology key.
Variable now : N.

Definition pinfo (c : bool) (v ts : N) : infof := mkInfo true c v ts.

(** the two-segment peering packet at hop position [ch] *)
Definition ppkt (dst : N) (ci ch a b : nat) (v0 ts0 v1 ts1 : N) (H : list hopf) : packet :=
  mkPkt dst (mkPath ci ch [a; b] [pinfo false v0 ts0; pinfo true v1 ts1] H).

Lemma seg_of_two_0 a b ch : (ch < a)%nat -> seg_of [a; b] ch = Some 0%nat.
Proof. intros. cbn [seg_of]. assert ((ch <? a)%nat = true) as -> by (apply Nat.ltb_lt; lia). reflexivity. Qed.
Lemma seg_of_two_1 a b ch : (a <= ch)%nat -> (ch < a + b)%nat -> seg_of [a; b] ch = Some 1%nat.
Proof.
  intros. cbn [seg_of]. assert ((ch <? a)%nat = false) as -> by (apply Nat.ltb_ge; lia).
  assert ((ch - a <? b)%nat = true) as -> by (apply Nat.ltb_lt; lia). reflexivity.
Qed.
Lemma seg_of_two_none a b ch : (a + b <= ch)%nat -> seg_of [a; b] ch = None.
Proof.
  intros. cbn [seg_of]. assert ((ch <? a)%nat = false) as -> by (apply Nat.ltb_ge; lia).
  assert ((ch - a <? b)%nat = false) as -> by (apply Nat.ltb_ge; lia). reflexivity.
Qed.

Definition tok (h : hopf) (ts : N) : bool := ref_time_ok now h (mkInfo false false 0 ts).
Lemma tok_eq h p c v ts : ref_time_ok now h (mkInfo p c v ts) = tok h ts.
Proof. reflexivity. Qed.

(** (P1) a hop of the first segment before the peering hop: against construction direction *)
Lemma ref_p1 ia K i dst ch a b v0 ts0 v1 ts1 H h ty :
  nth_error H ch = Some h -> (S ch < a)%nat -> (0 < b)%nat -> length H = (a + b)%nat ->
  tok h ts0 = true ->
  (negb (i =? 0) && negb (h_eg h =? i)) = false ->
  let v := if negb (i =? 0) then beta_step v0 (h_mac h) else v0 in
  h_mac h = mac K v ts0 (h_exp h) (h_in h) (h_eg h) ->
  h_ain h = false -> h_aeg h = false ->
  iface_state t ia (h_in h) = Some (ty, true) ->
  ref_step mac t ia K now i (ppkt dst 0 ch a b v0 ts0 v1 ts1 H)
  = RForward (h_in h) (ppkt dst 0 (S ch) a b v ts0 v1 ts1 H).
Proof.
  intros Eh Hlt Hb Hlen Ht Hing v Hm Ha1 Ha2 Hif.
  unfold ref_step, ppkt, pinfo. cbn [k_path k_dst p_hops p_ch p_ci p_lens p_infos].
  rewrite Eh. rewrite (seg_of_two_0 a b ch) by lia. cbn [Nat.eqb negb nth_error].
  change ((0 =? 0)%nat) with true. cbn [negb].
  cbn [i_peer pinfo length hd andb].
  change ((2 =? 2)%nat) with true. cbn [negb andb].
  assert ((S ch =? a)%nat = false) as -> by (apply Nat.eqb_neq; lia).
  assert ((ch =? a)%nat = false) as -> by (apply Nat.eqb_neq; lia).
  cbn [orb andb negb]. rewrite tok_eq, Ht. cbn [negb].
  unfold hop_ingress. cbn [i_cons]. rewrite Hing.
  cbn [i_cons negb andb]. rewrite andb_true_r.
  replace (if negb (i =? 0) then set_segid (mkInfo true false v0 ts0) (beta_step (i_segid (mkInfo true false v0 ts0)) (h_mac h)) else mkInfo true false v0 ts0)
    with (mkInfo true false v ts0) by (unfold v; destruct (negb (i =? 0)); reflexivity).
  unfold hop_mac_ok. cbn [i_segid i_ts]. rewrite <- Hm, N.eqb_refl. cbn [negb].
  cbn [i_cons]. rewrite Ha2, andb_false_r.
  assert ((S ch =? length H)%nat = false) as -> by (apply Nat.eqb_neq; lia).
  rewrite (seg_of_two_0 a b (S ch)) by lia. change ((0 =? 0)%nat) with true. cbn [negb andb].
  unfold hop_egress. cbn [i_cons]. rewrite Hif. cbn [negb].
  rewrite Ha1. cbn [negb andb]. rewrite (seg_of_two_0 a b (S ch)) by lia.
  cbn [upd skipn firstn app]. reflexivity.
Qed.

(** (P2) the peering hop that ends the first segment: verified with the SegID as carried, no
    restore; the packet leaves over the peering link and the pointers move to segment two *)
Lemma ref_p2 ia K i dst ch a b v0 ts0 v1 ts1 H h ty :
  nth_error H ch = Some h -> S ch = a -> (0 < b)%nat -> length H = (a + b)%nat ->
  tok h ts0 = true ->
  (negb (i =? 0) && negb (h_eg h =? i)) = false ->
  h_mac h = mac K v0 ts0 (h_exp h) (h_in h) (h_eg h) ->
  h_ain h = false -> h_aeg h = false ->
  iface_state t ia (h_in h) = Some (ty, true) ->
  ref_step mac t ia K now i (ppkt dst 0 ch a b v0 ts0 v1 ts1 H)
  = RForward (h_in h) (ppkt dst 1 a a b v0 ts0 v1 ts1 H).
Proof.
  intros Eh Hlt Hb Hlen Ht Hing Hm Ha1 Ha2 Hif.
  unfold ref_step, ppkt, pinfo. cbn [k_path k_dst p_hops p_ch p_ci p_lens p_infos].
  rewrite Eh. rewrite (seg_of_two_0 a b ch) by lia. cbn [Nat.eqb negb nth_error].
  change ((0 =? 0)%nat) with true. cbn [negb].
  cbn [i_peer length hd andb].
  change ((2 =? 2)%nat) with true. cbn [negb andb].
  assert ((S ch =? a)%nat = true) as -> by (apply Nat.eqb_eq; lia).
  cbn [orb andb negb]. rewrite tok_eq, Ht. cbn [negb].
  unfold hop_ingress. cbn [i_cons]. rewrite Hing.
  cbn [i_cons negb andb]. rewrite andb_false_r.
  unfold hop_mac_ok. cbn [i_segid i_ts]. rewrite <- Hm, N.eqb_refl. cbn [negb].
  cbn [i_cons]. rewrite Ha2, andb_false_r.
  assert ((S ch =? length H)%nat = false) as -> by (apply Nat.eqb_neq; lia).
  rewrite (seg_of_two_1 a b (S ch)) by lia. change ((1 =? 0)%nat) with false. cbn [negb andb].
  unfold hop_egress. cbn [i_cons]. rewrite Hif. cbn [negb].
  rewrite Ha1. cbn [negb andb]. rewrite (seg_of_two_1 a b (S ch)) by lia.
  cbn [upd skipn firstn app]. subst a. reflexivity.
Qed.

(** (P3) the peering hop that starts the second segment (construction direction): verified
    with the SegID as carried, and not chained on egress *)
Lemma ref_p3 ia K i dst a b v0 ts0 v1 ts1 H h ty :
  nth_error H a = Some h -> (1 < b)%nat -> (0 < a)%nat -> length H = (a + b)%nat ->
  tok h ts1 = true ->
  (negb (i =? 0) && negb (h_in h =? i)) = false ->
  h_mac h = mac K v1 ts1 (h_exp h) (h_in h) (h_eg h) ->
  h_ain h = false -> h_aeg h = false ->
  iface_state t ia (h_eg h) = Some (ty, true) ->
  ref_step mac t ia K now i (ppkt dst 1 a a b v0 ts0 v1 ts1 H)
  = RForward (h_eg h) (ppkt dst 1 (S a) a b v0 ts0 v1 ts1 H).
Proof.
  intros Eh Hb Ha Hlen Ht Hing Hm Ha1 Ha2 Hif.
  unfold ref_step, ppkt, pinfo. cbn [k_path k_dst p_hops p_ch p_ci p_lens p_infos].
  rewrite Eh. rewrite (seg_of_two_1 a b a) by lia. cbn [negb nth_error].
  change ((1 =? 1)%nat) with true. cbn [negb].
  cbn [i_peer length hd andb].
  change ((2 =? 2)%nat) with true. cbn [negb andb].
  rewrite (Nat.eqb_refl a). rewrite orb_true_r.
  cbn [orb andb negb]. rewrite tok_eq, Ht. cbn [negb].
  unfold hop_ingress. cbn [i_cons]. rewrite Hing.
  cbn [i_cons negb andb].
  unfold hop_mac_ok. cbn [i_segid i_ts]. rewrite <- Hm, N.eqb_refl. cbn [negb].
  cbn [i_cons]. rewrite Ha1, andb_false_r.
  assert ((S a =? length H)%nat = false) as -> by (apply Nat.eqb_neq; lia).
  rewrite (seg_of_two_1 a b (S a)) by lia. change ((1 =? 1)%nat) with true. cbn [negb andb].
  unfold hop_egress. cbn [i_cons]. rewrite Hif. cbn [negb].
  rewrite Ha2. cbn [negb andb]. rewrite (seg_of_two_1 a b (S a)) by lia.
  cbn [upd skipn firstn app]. reflexivity.
Qed.

(** (P3') ... or it is the last hop field: delivery *)
Lemma ref_p3d ia K i a v0 ts0 v1 ts1 H h :
  nth_error H a = Some h -> (0 < a)%nat -> length H = (a + 1)%nat ->
  tok h ts1 = true ->
  (negb (i =? 0) && negb (h_in h =? i)) = false ->
  h_mac h = mac K v1 ts1 (h_exp h) (h_in h) (h_eg h) ->
  h_ain h = false ->
  ref_step mac t ia K now i (ppkt ia 1 a a 1 v0 ts0 v1 ts1 H)
  = RDeliver (ppkt ia 1 a a 1 v0 ts0 v1 ts1 H).
Proof.
  intros Eh Ha Hlen Ht Hing Hm Ha1.
  unfold ref_step, ppkt, pinfo. cbn [k_path k_dst p_hops p_ch p_ci p_lens p_infos].
  rewrite Eh. rewrite (seg_of_two_1 a 1 a) by lia. cbn [negb nth_error].
  change ((1 =? 1)%nat) with true. cbn [negb].
  cbn [i_peer length hd andb].
  change ((2 =? 2)%nat) with true. cbn [negb andb].
  rewrite (Nat.eqb_refl a). rewrite orb_true_r.
  cbn [orb andb negb]. rewrite tok_eq, Ht. cbn [negb].
  unfold hop_ingress. cbn [i_cons]. rewrite Hing.
  cbn [i_cons negb andb].
  unfold hop_mac_ok. cbn [i_segid i_ts]. rewrite <- Hm, N.eqb_refl. cbn [negb].
  cbn [i_cons]. rewrite Ha1, andb_false_r.
  assert ((S a =? length H)%nat = true) as -> by (apply Nat.eqb_eq; lia).
  rewrite N.eqb_refl. cbn [upd skipn firstn app]. reflexivity.
Qed.

(** (P4) a later hop of the second segment: plain construction-direction processing *)
Lemma ref_p4 ia K i dst ch a b v0 ts0 v1 ts1 H h ty :
  nth_error H ch = Some h -> (a < ch)%nat -> (S ch < a + b)%nat -> length H = (a + b)%nat ->
  tok h ts1 = true ->
  (negb (i =? 0) && negb (h_in h =? i)) = false ->
  h_mac h = mac K v1 ts1 (h_exp h) (h_in h) (h_eg h) ->
  h_ain h = false -> h_aeg h = false ->
  iface_state t ia (h_eg h) = Some (ty, true) ->
  ref_step mac t ia K now i (ppkt dst 1 ch a b v0 ts0 v1 ts1 H)
  = RForward (h_eg h) (ppkt dst 1 (S ch) a b v0 ts0 (beta_step v1 (h_mac h)) ts1 H).
Proof.
  intros Eh Hgt Hlt Hlen Ht Hing Hm Ha1 Ha2 Hif.
  unfold ref_step, ppkt, pinfo. cbn [k_path k_dst p_hops p_ch p_ci p_lens p_infos].
  rewrite Eh. rewrite (seg_of_two_1 a b ch) by lia. cbn [negb nth_error].
  change ((1 =? 1)%nat) with true. cbn [negb].
  cbn [i_peer length hd andb].
  change ((2 =? 2)%nat) with true. cbn [negb andb].
  assert ((S ch =? a)%nat = false) as -> by (apply Nat.eqb_neq; lia).
  assert ((ch =? a)%nat = false) as -> by (apply Nat.eqb_neq; lia).
  cbn [orb andb negb]. rewrite tok_eq, Ht. cbn [negb].
  unfold hop_ingress. cbn [i_cons]. rewrite Hing.
  cbn [i_cons negb andb].
  unfold hop_mac_ok. cbn [i_segid i_ts]. rewrite <- Hm, N.eqb_refl. cbn [negb].
  cbn [i_cons]. rewrite Ha1, andb_false_r.
  assert ((S ch =? length H)%nat = false) as -> by (apply Nat.eqb_neq; lia).
  rewrite (seg_of_two_1 a b (S ch)) by lia. change ((1 =? 1)%nat) with true. cbn [negb andb].
  unfold hop_egress. cbn [i_cons]. rewrite Hif. cbn [negb].
  rewrite Ha2. cbn [negb andb]. rewrite (seg_of_two_1 a b (S ch)) by lia.
  cbn [upd skipn firstn app set_segid i_peer i_cons i_segid i_ts]. reflexivity.
Qed.

(** (P5) the last hop of the second segment (not the peering hop): delivery *)
Lemma ref_p5 ia K i ch a b v0 ts0 v1 ts1 H h :
  nth_error H ch = Some h -> (a < ch)%nat -> S ch = (a + b)%nat -> length H = (a + b)%nat ->
  tok h ts1 = true ->
  (negb (i =? 0) && negb (h_in h =? i)) = false ->
  h_mac h = mac K v1 ts1 (h_exp h) (h_in h) (h_eg h) ->
  h_ain h = false ->
  ref_step mac t ia K now i (ppkt ia 1 ch a b v0 ts0 v1 ts1 H)
  = RDeliver (ppkt ia 1 ch a b v0 ts0 v1 ts1 H).
Proof.
  intros Eh Hgt Hl Hlen Ht Hing Hm Ha1.
  unfold ref_step, ppkt, pinfo. cbn [k_path k_dst p_hops p_ch p_ci p_lens p_infos].
  rewrite Eh. rewrite (seg_of_two_1 a b ch) by lia. cbn [negb nth_error].
  change ((1 =? 1)%nat) with true. cbn [negb].
  cbn [i_peer length hd andb].
  change ((2 =? 2)%nat) with true. cbn [negb andb].
  assert ((S ch =? a)%nat = false) as -> by (apply Nat.eqb_neq; lia).
  assert ((ch =? a)%nat = false) as -> by (apply Nat.eqb_neq; lia).
  cbn [orb andb negb]. rewrite tok_eq, Ht. cbn [negb].
  unfold hop_ingress. cbn [i_cons]. rewrite Hing.
  cbn [i_cons negb andb].
  unfold hop_mac_ok. cbn [i_segid i_ts]. rewrite <- Hm, N.eqb_refl. cbn [negb].
  cbn [i_cons]. rewrite Ha1, andb_false_r.
  assert ((S ch =? length H)%nat = true) as -> by (apply Nat.eqb_eq; lia).
  rewrite N.eqb_refl. cbn [upd skipn firstn app]. reflexivity.
Qed.

(** ** the run over a peering path *)
Definition auth (d : @hopd key) (ts : N) : Prop :=
  h_mac (d_hop d) = mac (d_key d) (d_beta d) ts (h_exp (d_hop d)) (h_in (d_hop d)) (h_eg (d_hop d)).
Definition hopok (d : @hopd key) (ts : N) : Prop :=
  tok (d_hop d) ts = true /\ h_ain (d_hop d) = false /\ h_aeg (d_hop d) = false
  /\ exists a, find_as t (d_ia d) = Some a /\ a_key a = d_key d.
Definition plink (ia eg ia' in' : N) : Prop :=
  exists ty l, iface_state t ia eg = Some (ty, true) /\ scion_link t ia eg = Some l
    /\ get_peer l ia = Some (ia', in') /\ (in' =? 0) = false.

(** second segment after its peering hop: construction direction from [e] on *)
Fixpoint p4_ok (ts1 dst : N) (e : @hopd key) (r : list (@hopd key)) : Prop :=
  auth e ts1 /\ hopok e ts1 /\
  match r with
  | [] => d_ia e = dst
  | e' :: r' =>
    d_beta e' = beta_step (d_beta e) (h_mac (d_hop e))
    /\ plink (d_ia e) (h_eg (d_hop e)) (d_ia e') (h_in (d_hop e')) /\ p4_ok ts1 dst e' r'
  end.

Lemma run_p4 dst a b v0 ts0 ts1 H : forall r e ch i,
  skipn ch H = map d_hop (e :: r) -> (a < ch)%nat -> length H = (a + b)%nat ->
  p4_ok ts1 dst e r -> (i =? 0) = false -> i = h_in (d_hop e) ->
  delivers mac t now (S (length r)) (d_ia e) i (ppkt dst 1 ch a b v0 ts0 (d_beta e) ts1 H) dst
           (fun pk' => pk' = ppkt dst 1 (a + b - 1) a b v0 ts0 (d_beta (last r e)) ts1 H).
Proof.
  induction r as [|e' r IH]; intros e ch i Hsk Hgt Hlen Hok E0 Ei; cbn [p4_ok] in Hok.
  - destruct Hok as (Ha & (Ht & Ha1 & Ha2 & ak & Hfa & Hk) & Hd).
    pose proof (skipn_nth _ _ _ _ Hsk) as Eh.
    assert (Hl : S ch = (a + b)%nat).
    { assert (L : length (skipn ch H) = 1%nat) by (rewrite Hsk; reflexivity). rewrite skipn_length in L. lia. }
    subst dst. eapply ref_sim_deliver; [exact Hfa| |cbn [last]; replace (a + b - 1)%nat with ch by lia; reflexivity].
    rewrite Hk. apply (ref_p5 (d_ia e) (d_key e) i ch a b v0 ts0 (d_beta e) ts1 H (d_hop e)); auto.
    rewrite E0, Ei, N.eqb_refl. reflexivity.
  - destruct Hok as (Ha & (Ht & Ha1 & Ha2 & ak & Hfa & Hk) & Hc & (ty & l & Hif & Hsl & Hgp & Hnz) & Hok').
    pose proof (skipn_nth _ _ _ _ Hsk) as Eh.
    assert (Hl : (S ch < a + b)%nat).
    { assert (L : length (skipn ch H) = S (S (length r))) by (rewrite Hsk; cbn; rewrite map_length; reflexivity).
      rewrite skipn_length in L. lia. }
    eapply ref_sim_fwd; [exact Hfa| |exact Hsl|exact Hgp|].
    + rewrite Hk. apply (ref_p4 (d_ia e) (d_key e) i dst ch a b v0 ts0 (d_beta e) ts1 H (d_hop e) ty); auto.
      rewrite E0, Ei, N.eqb_refl. reflexivity.
    + rewrite <- Hc. rewrite (last_shift r e' e). apply IH; auto; try lia.
      rewrite skipn_S_tl', Hsk. reflexivity.
Qed.

(** first segment: plain hops [ds0] (against construction direction), then the peering hop
    [dp]; [carried] is the SegID on arrival, [first] says whether the hop is the source's *)
Fixpoint p1_ok (ts0 : N) (ds0 : list (@hopd key)) (dp dq : @hopd key) (carried : N) (first : bool) : Prop :=
  match ds0 with
  | [] => d_beta dp = carried /\ auth dp ts0 /\ hopok dp ts0
          /\ plink (d_ia dp) (h_in (d_hop dp)) (d_ia dq) (h_in (d_hop dq))
  | d :: r =>
    d_beta d = (if first then carried else beta_step carried (h_mac (d_hop d)))
    /\ auth d ts0 /\ hopok d ts0
    /\ plink (d_ia d) (h_in (d_hop d)) (d_ia (hd dp r)) (h_eg (d_hop (hd dp r)))
    /\ p1_ok ts0 r dp dq (d_beta d) false
  end.

(** the whole peering path from hop position [ch] of the first segment *)
Lemma run_peer dst a b ts0 ts1 H dq r1 : forall ds0 dp ch v0 i first,
  skipn ch H = map d_hop (ds0 ++ [dp]) ++ map d_hop (dq :: r1) ->
  (ch + length ds0 + 1 = a)%nat -> b = S (length r1) -> length H = (a + b)%nat ->
  p1_ok ts0 ds0 dp dq v0 first ->
  auth dq ts1 -> hopok dq ts1 ->
  match r1 with
  | [] => d_ia dq = dst
  | e :: r' => d_beta e = d_beta dq
               /\ plink (d_ia dq) (h_eg (d_hop dq)) (d_ia e) (h_in (d_hop e)) /\ p4_ok ts1 dst e r'
  end ->
  (if first then i = 0 else (i =? 0) = false /\ i = h_eg (d_hop (hd dp ds0))) ->
  delivers mac t now (length ds0 + 2 + length r1) (d_ia (hd dp ds0)) i
           (ppkt dst 0 ch a b v0 ts0 (d_beta dq) ts1 H) dst
           (fun pk' => pk' = ppkt dst 1 (a + b - 1) a b (d_beta dp) ts0 (d_beta (last r1 dq)) ts1 H).
Proof.
  induction ds0 as [|d r IH]; intros dp ch v0 i first Hsk Hch Hb Hlen Hok Aq Hq Hr1 Hi; cbn [p1_ok] in Hok.
  - (* at the peering hop of the first segment *)
    destruct Hok as (Hbeta & Ap & (Ht & Ha1 & Ha2 & ak & Hfa & Hk) & (ty & l & Hif & Hsl & Hgp & Hnz)).
    cbn [app map hd length Nat.add] in *.
    pose proof (skipn_nth _ _ _ _ Hsk) as Eh.
    assert (Hsk1 : skipn a H = map d_hop (dq :: r1)).
    { replace a with (S ch) by lia. rewrite skipn_S_tl', Hsk. reflexivity. }
    pose proof (skipn_nth _ _ _ _ Hsk1) as Ehq.
    assert (Hing : (negb (i =? 0) && negb (h_eg (d_hop dp) =? i)) = false).
    { destruct first; [subst i; reflexivity|]. destruct Hi as (E0 & ->). rewrite E0, N.eqb_refl. reflexivity. }
    eapply ref_sim_fwd; [exact Hfa| |exact Hsl|exact Hgp|].
    + rewrite Hk. apply (ref_p2 (d_ia dp) (d_key dp) i dst ch a b v0 ts0 (d_beta dq) ts1 H (d_hop dp) ty); auto; try lia.
      unfold auth in Ap. rewrite Hbeta in Ap. exact Ap.
    + (* at the peering hop of the second segment *)
      destruct Hq as (Htq & Hq1 & Hq2 & aq & Hfq & Hkq).
      assert (Hingq : (negb (h_in (d_hop dq) =? 0) && negb (h_in (d_hop dq) =? h_in (d_hop dq))) = false)
        by (rewrite N.eqb_refl; apply andb_false_r).
      destruct r1 as [|e r'].
      * subst dst b. cbn [length]. eapply ref_sim_deliver; [exact Hfq| |cbn [last length]; rewrite Hbeta; replace (a + 1 - 1)%nat with a by lia; reflexivity].
        rewrite Hkq. apply (ref_p3d (d_ia dq) (d_key dq) _ a v0 ts0 (d_beta dq) ts1 H (d_hop dq)); auto; try lia.
      * destruct Hr1 as (He & (ty2 & l2 & Hif2 & Hsl2 & Hgp2 & Hnz2) & Hok4).
        cbn [length]. replace (0 + 2 + S (length r'))%nat with (S (S (S (length r')))) by lia.
        eapply ref_sim_fwd; [exact Hfq| |exact Hsl2|exact Hgp2|].
        -- rewrite Hkq. apply (ref_p3 (d_ia dq) (d_key dq) _ dst a b v0 ts0 (d_beta dq) ts1 H (d_hop dq) ty2); auto; try lia.
           cbn [length] in Hb. lia.
        -- rewrite <- He. rewrite Hbeta. rewrite (last_shift r' e dq).
           apply (run_p4 dst a b v0 ts0 ts1 H r' e (S a) _); auto; try lia.
           rewrite skipn_S_tl', Hsk1. reflexivity.
  - (* a plain hop of the first segment *)
    destruct Hok as (Hbeta & Ad & (Ht & Ha1 & Ha2 & ak & Hfa & Hk) & (ty & l & Hif & Hsl & Hgp & Hnz) & Hok').
    cbn [app map hd length Nat.add] in *.
    pose proof (skipn_nth _ _ _ _ Hsk) as Eh.
    assert (Hing : (negb (i =? 0) && negb (h_eg (d_hop d) =? i)) = false).
    { destruct first; [subst i; reflexivity|]. destruct Hi as (E0 & ->). rewrite E0, N.eqb_refl. reflexivity. }
    assert (Hv : (if negb (i =? 0) then beta_step v0 (h_mac (d_hop d)) else v0) = d_beta d).
    { rewrite Hbeta. destruct first; [subst i; reflexivity|]. destruct Hi as (E0 & _). rewrite E0. reflexivity. }
    eapply ref_sim_fwd; [exact Hfa| |exact Hsl|exact Hgp|].
    + rewrite Hk.
      apply (ref_p1 (d_ia d) (d_key d) i dst ch a b v0 ts0 (d_beta dq) ts1 H (d_hop d) ty); auto; try lia.
      rewrite Hv. exact Ad.
    + cbv zeta. rewrite Hv.
      apply (IH dp (S ch) (d_beta d) _ false); auto; try lia.
      rewrite skipn_S_tl', Hsk. reflexivity.
Qed.

(** ** the same over whole hop lists (as the chain invariant delivers them) *)

(** topology part, first segment: every hop usable, joined to the next; the last one (the
    peering hop) joined to [dq] over the peering link *)
Fixpoint p1_topo (ts0 : N) (L : list (@hopd key)) (dq : @hopd key) : Prop :=
  match L with
  | [] => False
  | [dp] => hopok dp ts0 /\ plink (d_ia dp) (h_in (d_hop dp)) (d_ia dq) (h_in (d_hop dq))
  | d :: ((d' :: _) as r) =>
    hopok d ts0 /\ plink (d_ia d) (h_in (d_hop d)) (d_ia d') (h_eg (d_hop d')) /\ p1_topo ts0 r dq
  end.
Fixpoint p4_topo (ts1 dst : N) (e : @hopd key) (r : list (@hopd key)) : Prop :=
  hopok e ts1 /\
  match r with
  | [] => d_ia e = dst
  | e' :: r' => plink (d_ia e) (h_eg (d_hop e)) (d_ia e') (h_in (d_hop e')) /\ p4_topo ts1 dst e' r'
  end.

(** authenticity part: MACs over the carried values, carried values as the data-plane rules
    evolve them ([carried_rev .. peer_last = true], [carried_cons .. peer_first = true]) *)
Definition betas_of (L : list (@hopd key)) : list N := map d_beta L.
Definition hops_of (L : list (@hopd key)) : list hopf := map d_hop L.

Lemma carried_rev_cons2 s h h' r first pl :
  carried_rev s (h :: h' :: r) first pl
  = (if first then s else beta_step s (h_mac h))
    :: carried_rev (if first then s else beta_step s (h_mac h)) (h' :: r) false pl.
Proof.
  change (carried_rev s (h :: h' :: r) first pl)
    with ((if first || (pl && false) then s else beta_step s (h_mac h))
          :: carried_rev (if first || (pl && false) then s else beta_step s (h_mac h)) (h' :: r) false pl).
  rewrite andb_false_r, orb_false_r. reflexivity.
Qed.

Lemma p1_split ts0 dq : forall L carried first,
  Forall (fun d => auth d ts0) L ->
  betas_of L = carried_rev carried (hops_of L) first true ->
  p1_topo ts0 L dq ->
  exists ds0 dp, L = ds0 ++ [dp] /\ p1_ok ts0 ds0 dp dq carried first.
Proof.
  induction L as [|d L IH]; intros carried first FA HB HT; [contradiction|].
  destruct L as [|d' L'].
  - exists [], d. split; [reflexivity|]. cbn [p1_ok p1_topo] in *.
    inversion FA; subst. destruct HT as (T1 & T2).
    cbn in HB. rewrite orb_true_r in HB. inversion HB. auto.
  - cbn [p1_topo] in HT. destruct HT as (T1 & T2 & T3).
    inversion FA as [|? ? A1 FA']; subst.
    unfold betas_of, hops_of in HB. cbn [map] in HB. rewrite carried_rev_cons2 in HB.
    pose proof (f_equal (hd 0) HB) as HB1. pose proof (f_equal (@tl N) HB) as HB2.
    cbn [hd tl] in HB1, HB2.
    destruct (IH (d_beta d) false FA') as (ds0 & dp & EL & P).
    + unfold betas_of, hops_of. cbn [map]. rewrite HB2. rewrite HB1. reflexivity.
    + exact T3.
    + exists (d :: ds0), dp. split; [cbn [app]; rewrite EL; reflexivity|].
      cbn [p1_ok]. refine (conj _ (conj A1 (conj T1 (conj _ P)))).
      * rewrite HB1. destruct first; reflexivity.
      * replace (hd dp ds0) with d'; [exact T2|].
        destruct ds0; cbn [app] in EL; inversion EL; reflexivity.
Qed.

Lemma p4_join ts1 dst : forall r e,
  Forall (fun d => auth d ts1) (e :: r) ->
  betas_of (e :: r) = carried_cons (d_beta e) (hops_of (e :: r)) false ->
  p4_topo ts1 dst e r -> p4_ok ts1 dst e r.
Proof.
  induction r as [|e' r IH]; intros e FA HB HT; cbn [p4_ok p4_topo] in *;
    inversion FA as [|? ? A1 FA']; subst; destruct HT as (T1 & T2).
  - auto.
  - destruct T2 as (T2 & T3). unfold betas_of, hops_of in HB. cbn [map] in HB.
    change (carried_cons (d_beta e) (d_hop e :: d_hop e' :: map d_hop r) false)
      with (d_beta e :: carried_cons (beta_step (d_beta e) (h_mac (d_hop e))) (d_hop e' :: map d_hop r) false) in HB.
    pose proof (f_equal (@tl N) HB) as HB2. cbn [tl] in HB2.
    assert (HBc : d_beta e' = beta_step (d_beta e) (h_mac (d_hop e))).
    { pose proof (f_equal (hd 0) HB2) as X. exact X. }
    refine (conj A1 (conj T1 (conj HBc (conj T2 _)))).
    apply IH; [exact FA'| |exact T3].
    unfold betas_of, hops_of. cbn [map]. rewrite <- HBc in HB2. exact HB2.
Qed.

(** the reference router delivers every authentic, well-routed peering path *)
Theorem peering_delivers (L0 : list (@hopd key)) (dq : @hopd key) (r1 : list (@hopd key))
        (s0 ts0 s1 ts1 dst : N) :
  Forall (fun d => auth d ts0) L0 ->
  betas_of L0 = carried_rev s0 (hops_of L0) true true ->
  p1_topo ts0 L0 dq ->
  Forall (fun d => auth d ts1) (dq :: r1) ->
  betas_of (dq :: r1) = carried_cons s1 (hops_of (dq :: r1)) true ->
  hopok dq ts1 ->
  match r1 with
  | [] => d_ia dq = dst
  | e :: r' => plink (d_ia dq) (h_eg (d_hop dq)) (d_ia e) (h_in (d_hop e)) /\ p4_topo ts1 dst e r'
  end ->
  delivers mac t now (length L0 + 1 + length r1) (d_ia (hd dq L0)) 0
           (ppkt dst 0 0 (length L0) (S (length r1)) s0 ts0 s1 ts1 (hops_of L0 ++ hops_of (dq :: r1)))
           dst
           (fun pk' => pk' = ppkt dst 1 (length L0 + length r1) (length L0) (S (length r1))
                                  (last (betas_of L0) 0) ts0 (last (betas_of (dq :: r1)) 0) ts1
                                  (hops_of L0 ++ hops_of (dq :: r1))).
Proof.
  intros FA0 HB0 HT0 FA1 HB1 Hq HT1.
  destruct (p1_split ts0 dq L0 s0 true FA0 HB0 HT0) as (ds0 & dp & EL & P1).
  inversion FA1 as [|? ? Aq FA1']; subst.
  unfold betas_of, hops_of in HB1. cbn [map] in HB1.
  change (carried_cons s1 (d_hop dq :: map d_hop r1) true)
    with (s1 :: carried_cons s1 (map d_hop r1) false) in HB1.
  pose proof (f_equal (hd 0) HB1) as Hs1. cbn [hd] in Hs1.
  pose proof (f_equal (@tl N) HB1) as HB1t. cbn [tl] in HB1t.
  rewrite app_length. cbn [length].
  replace (length ds0 + 1 + 1 + length r1)%nat with (length ds0 + 2 + length r1)%nat by lia.
  replace (hd dq (ds0 ++ [dp])) with (hd dp ds0) by (destruct ds0; reflexivity).
  rewrite <- Hs1.
  assert (Hr1 : match r1 with
                | [] => d_ia dq = dst
                | e :: r' => d_beta e = d_beta dq
                             /\ plink (d_ia dq) (h_eg (d_hop dq)) (d_ia e) (h_in (d_hop e)) /\ p4_ok ts1 dst e r'
                end).
  { destruct r1 as [|e r']; [exact HT1|]. destruct HT1 as (T1 & T2).
    cbn [map] in HB1t.
    change (carried_cons s1 (d_hop e :: map d_hop r') false)
      with (s1 :: carried_cons (beta_step s1 (h_mac (d_hop e))) (map d_hop r') false) in HB1t.
    pose proof (f_equal (hd 0) HB1t) as He. cbn [hd] in He.
    refine (conj _ (conj T1 _)); [congruence|].
    apply p4_join; [exact FA1'| |exact T2].
    unfold betas_of, hops_of. cbn [map].
    change (carried_cons (d_beta e) (d_hop e :: map d_hop r') false)
      with (d_beta e :: carried_cons (beta_step (d_beta e) (h_mac (d_hop e))) (map d_hop r') false).
    rewrite <- He in HB1t. exact HB1t. }
  assert (Hlen : length (hops_of (ds0 ++ [dp]) ++ hops_of (dq :: r1)) = (length ds0 + 1 + S (length r1))%nat).
  { unfold hops_of. rewrite app_length, !map_length, app_length. cbn [length]. lia. }
  destruct (run_peer dst (length ds0 + 1) (S (length r1)) ts0 ts1 _ dq r1 ds0 dp 0%nat s0 0 true
                  eq_refl ltac:(lia) eq_refl Hlen P1 Aq Hq Hr1 eq_refl) as (tr & pk' & R & HQ).
  exists tr, pk'. split; [exact R|]. rewrite HQ.
  assert (E1 : last (betas_of (ds0 ++ [dp])) 0 = d_beta dp).
  { unfold betas_of. rewrite map_app. cbn [map]. apply last_last. }
  assert (E2 : last (betas_of (dq :: r1)) 0 = d_beta (last r1 dq)).
  { unfold betas_of. change (map d_beta (dq :: r1)) with (d_beta dq :: map d_beta r1).
    rewrite (last_shift (map d_beta r1) (d_beta dq) 0). clear. revert dq. induction r1 as [|x r IH]; intros dq; [reflexivity|].
    cbn [map]. rewrite (last_shift (map d_beta r) (d_beta x) (d_beta dq)), (last_shift r x dq). apply IH. }
  rewrite E1, E2.
  replace (length ds0 + 1 + S (length r1) - 1)%nat with (length ds0 + 1 + length r1)%nat by lia. reflexivity.
Qed.

(** ** uses of beaconed segments through a peer entry are such descriptions *)
Lemma zip4_auth ts : forall hs ias ks vs,
  length ias = length hs -> length ks = length hs -> length vs = length hs ->
  Forall2 (fun K hv => verifies mac ts K (fst hv) (snd hv)) ks (combine hs vs) ->
  Forall (fun d => auth d ts) (zip4 ias ks hs vs)
  /\ betas_of (zip4 ias ks hs vs) = vs /\ hops_of (zip4 ias ks hs vs) = hs.
Proof.
  induction hs as [|h hs IH]; intros ias ks vs L1 L2 L3 F.
  - destruct ias, ks, vs; try discriminate. repeat split; constructor.
  - destruct ias as [|ia ias]; [discriminate|]. destruct ks as [|K ks]; [discriminate|].
    destruct vs as [|v vs]; [discriminate|]. cbn [length] in *.
    cbn [combine] in F. inversion F as [|? ? ? ? V F']; subst.
    destruct (IH ias ks vs ltac:(lia) ltac:(lia) ltac:(lia) F') as (A & B & C).
    cbn [zip4]. unfold betas_of, hops_of in *. cbn [map d_beta d_hop]. rewrite B, C.
    repeat split. constructor; [exact V|exact A].
Qed.

(** [b]: beacon parameters; the use goes through peer entry [pi] of entry [bu_k b] *)
Definition peer_use (b : @buse key) (pi : nat) : suse :=
  mkUse (beacon mac (bu_b0 b) (bu_ts b) (bu_us b)) (bu_k b) (Some pi) (bu_cons b).
Definition peer_desc (b : @buse key) (pi : nat) (hs : list hopf) : list (@hopd key) :=
  zip4 (bu_ias b) (use_keys (bu_us b) (peer_use b pi)) hs (use_carried (peer_use b pi) hs).

Lemma peer_desc_auth (b : @buse key) pi hs :
  (bu_k b < length (bu_us b))%nat -> use_hops (peer_use b pi) = Some hs ->
  Forall (fun d => auth d (bu_ts b)) (peer_desc b pi hs)
  /\ hops_of (peer_desc b pi hs) = hs
  /\ betas_of (peer_desc b pi hs)
     = if bu_cons b then carried_cons (init_segid (peer_use b pi)) hs true
       else carried_rev (init_segid (peer_use b pi)) hs true true.
Proof.
  intros Hk Eh.
  pose proof (chain_invariant_use mac (bu_b0 b) (bu_ts b) (bu_us b) (bu_k b) (Some pi) (bu_cons b) hs Hk Eh) as CI.
  fold (peer_use b pi) in CI.
  assert (Lh : length hs = (length (bu_us b) - bu_k b)%nat).
  { unfold use_hops, peer_use in Eh. cbn [us_seg us_k us_peer us_cons sg_entries beacon] in Eh.
    destruct (skipn (bu_k b) (beacon_entries mac (bu_b0 b) (bu_ts b) (bu_us b))) as [|e0 r0] eqn:Es.
    - assert (X : length (skipn (bu_k b) (beacon_entries mac (bu_b0 b) (bu_ts b) (bu_us b))) = 0%nat) by (rewrite Es; reflexivity).
      rewrite skipn_length, beacon_entries_length in X. lia.
    - assert (Hl : length (skipn (bu_k b) (beacon_entries mac (bu_b0 b) (bu_ts b) (bu_us b))) = S (length r0)) by (rewrite Es; reflexivity).
      rewrite skipn_length, beacon_entries_length in Hl.
      destruct (nth_error (se_peers e0) pi) as [[[pa pf] ph]|]; [|discriminate].
      injection Eh as Eh. subst hs. destruct (bu_cons b); rewrite ?app_length, ?rev_length; cbn [length]; rewrite ?map_length; lia. }
  assert (Lk : length (use_keys (bu_us b) (peer_use b pi)) = length hs).
  { unfold use_keys. cbn [us_k us_cons peer_use]. destruct (bu_cons b); [|rewrite rev_length];
      rewrite map_length, skipn_length; lia. }
  assert (Li : length (bu_ias b) = length hs).
  { unfold bu_ias. destruct (bu_cons b); [|rewrite rev_length]; rewrite map_length, skipn_length; lia. }
  assert (Lv : length (use_carried (peer_use b pi) hs) = length hs).
  { unfold use_carried. cbn [us_cons us_peer peer_use]. destruct (bu_cons b);
      [apply carried_cons_length|apply carried_rev_length]. }
  destruct (zip4_auth (bu_ts b) hs (bu_ias b) _ _ Li Lk Lv CI) as (A & B & C).
  unfold peer_desc. refine (conj A (conj C _)). rewrite B.
  unfold use_carried. cbn [us_cons us_peer peer_use]. reflexivity.
Qed.

End P.
