(** C01 -- property theorems only (MAC chain of beaconed segments, assembled paths).  The hop
    MAC is an arbitrary function: the routers recompute the same function, no cryptographic
    hypothesis is needed for these positive results. *)
From Sci Require Import Gen.NetworkTables Network.Model Network.Spec Network.Proofs Network.Proofs_C01
     Network.Proofs_Deliver Network.Proofs_Combined Network.Proofs_Peer Network.Proofs_Reverse
     Network.Proofs_PeerRev.
From Sci Require Network.Proofs_Joinable Combine.Model Combine.SpecRules Combine.Proofs Combine.ProofsGraph Combine.ProofsC04.
Local Open Scope N_scope.

(** The code that extends a beacon ([SignedPathSegment::add_entry] = [AsEntry::update_macs]
    then push, modelled AS WRITTEN; which beta the peer entries are MACed over is a flag
    regenerated from segment.rs), iterated over any list of AS entries WITHOUT peer entries,
    builds exactly the specification's segment: sigma_i over beta_i, beta_(i+1) = beta_i xor
    sigma_i[0..2].  Outside this class the sentence is false of the code:
    [Findings.update_macs_peer_beta_refuted] (open finding C01-peer-mac-over-beta-i: peer
    entries are MACed over beta_i, the specification says beta_(i+1)). *)
Theorem update_macs_builds_beacon :
  forall (key : Type) (mac : key -> N -> N -> N -> N -> N -> N) b0 ts (us : list (@uentry key)),
    has_peer_entries us = false ->
    code_beacon mac b0 ts us = beacon mac b0 ts us.
Proof. intros. apply code_beacon_is_beacon. assumption. Qed.
Print Assumptions update_macs_builds_beacon.

(** With peer entries, too, the AS sequence and every REGULAR hop field of a code-built
    segment are the specification's (only peer-entry MACs deviate), so every use of a
    code-built segment that does not go through a peer entry -- all non-peering paths -- is
    literally the use of the specification's beacon: same hop fields, same initial SegID.
    The delivery theorems below therefore apply to code-built segments as they are; the
    peering theorems ([peering_path_delivers], [peer_uses_are_authentic]) are stated for
    specification beacons only. *)
Theorem update_macs_regular_hops_agree :
  forall (key : Type) (mac : key -> N -> N -> N -> N -> N -> N) b0 ts (us : list (@uentry key)) k cons,
    (map se_hop (sg_entries (code_beacon mac b0 ts us)) = map se_hop (sg_entries (beacon mac b0 ts us))
     /\ map se_ia (sg_entries (code_beacon mac b0 ts us)) = map se_ia (sg_entries (beacon mac b0 ts us)))
    /\ use_hops (mkUse (code_beacon mac b0 ts us) k None cons) = use_hops (mkUse (beacon mac b0 ts us) k None cons)
    /\ use_info (mkUse (code_beacon mac b0 ts us) k None cons) = use_info (mkUse (beacon mac b0 ts us) k None cons).
Proof.
  intros. split; [rewrite code_beacon_entries; apply code_entries_hops|apply nonpeer_use_code_eq].
Qed.
Print Assumptions update_macs_regular_hops_agree.

(** The chain invariant.  For every beaconed segment (any length), every use of it in a path
    ([SolutionEdge]: from any shortcut index [k], through the regular hop field of entry [k]
    or any of its peer entries, in or against construction direction), with the SegID
    initialised as [initialize_segment_id] does: the SegID a router following the data-plane
    rules carries when AS i verifies its hop field is the value that hop field's MAC was
    computed over -- so every on-path AS accepts with its own key.  Induction over the hop
    list; no bound on the segment length. *)
Theorem chain_invariant :
  forall (key : Type) (mac : key -> N -> N -> N -> N -> N -> N)
         b0 ts (us : list (@uentry key)) k peer cons hs,
    (k < length us)%nat ->
    let u := mkUse (beacon mac b0 ts us) k peer cons in
    use_hops u = Some hs ->
    Forall2 (fun K hv => verifies mac ts K (fst hv) (snd hv))
            (use_keys us u) (combine hs (use_carried u hs)).
Proof. intros. apply chain_invariant_use; assumption. Qed.
Print Assumptions chain_invariant.

(** Every path assembled (as [PathSolution::path] + [initialize_segment_id] do) from uses of
    beaconed segments -- any number of uses, any segment lengths, any shortcut indices, in or
    against construction direction, every use with at least two hops -- is delivered by the
    reference router at its destination, for every topology that carries it
    ([route_topo]: the consecutive interfaces are joined by up links, the ASes hold the keys,
    the hop fields are within their lifetime, the crossover link types are among the valid
    three), every clock and every MAC function.  The packet that arrives is described exactly
    ([fin]: same hop fields, every segment's SegID = the value its last hop was verified with).
    PARTIAL with respect to the property sentence only in its shape: uses through a PEER
    entry (peering hops) are the subject of the separate theorem [peering_path_delivers]
    below, and [route_topo] is a hypothesis (that segments are beaconed along existing up
    links of the topology is what the control plane does; checked on every generated
    topology by the correspondence run). *)
Theorem combined_path_delivers_partial :
  forall (key : Type) (mac : key -> N -> N -> N -> N -> N -> N) (t : topology key) (now dst : N)
         (b : buse) (bs : list buse) (pk : packet),
    Forall (fun b => (S (bu_k b) < length (bu_us b))%nat) (b :: bs) ->
    assemble dst (map (use_of mac) (b :: bs)) = Some pk ->
    exists d r, g_hops (tseg_of mac b) = d :: r /\
      (route_topo t now (tseg_of mac b) d r (map (tseg_of mac) bs) dst ->
       delivers mac t now (length r + S (fuel_rest (map (tseg_of mac) bs))) (d_ia d) 0 pk dst
         (fin (all_hops (tseg_of mac b) (map (tseg_of mac) bs))
              (glen (tseg_of mac b) :: map glen (map (tseg_of mac) bs))
              (final_infos [] (tseg_of mac b) d r (map (tseg_of mac) bs)) dst)).
Proof. intros. apply combined_delivers; assumption. Qed.
Print Assumptions combined_path_delivers_partial.

(** The reply: reverse the arrived packet ([fin]) at its position ([try_reverse]); the result
    is the packet of the reversed path description, which is again authentic hop by hop (the
    SegIDs a traversal leaves behind are the initial values for the opposite direction, the
    chain relations flip by xor-involution) and again carried by the topology (every link
    leads back: interfaces identify their link, [links_wf]; the link a hop was reached over
    is up; the valid crossover pairs are symmetric) -- so the reference router delivers it
    to the sender.  Only the forward conditions are assumed.  Any path description with
    authentic MAC-chained segments of at least two hops, in particular (previous theorem) the
    assembled ones.  PARTIAL with respect to the property sentence only in its shape: the
    reply over a PEERING path is the subject of [reverse_delivers_peering] below. *)
Theorem reverse_delivers_partial :
  forall (key : Type) (mac : key -> N -> N -> N -> N -> N -> N) (t : topology key) (now : N)
         (g : tseg) (rest : list tseg) d r dst pk',
    links_wf t -> wf_topo t = true ->
    g_hops g = d :: r -> segs_two (g :: rest) ->
    route_auth mac g d r rest -> route_topo t now g d r rest dst ->
    fin (all_hops g rest) (glen g :: map glen rest) (final_infos [] g d r rest) dst pk' ->
    exists g2 rest2 d2 r2,
      rev (map rev_seg (g :: rest)) = g2 :: rest2 /\ g_hops g2 = d2 :: r2
      /\ delivers mac t now (length r2 + S (fuel_rest rest2)) (d_ia d2) 0
                  (mkPkt (d_ia d) (path_reverse (k_path pk'))) (d_ia d)
                  (fin (all_hops g2 rest2) (glen g2 :: map glen rest2) (final_infos [] g2 d2 r2 rest2) (d_ia d)).
Proof. intros. eapply reverse_delivers_full; eassumption. Qed.
Print Assumptions reverse_delivers_partial.

(** the assembled paths are such descriptions (links the two theorems) *)
Theorem assembled_paths_are_authentic :
  forall (key : Type) (mac : key -> N -> N -> N -> N -> N -> N) (bs : list buse) (b : buse),
    Forall (fun b => (S (bu_k b) < length (bu_us b))%nat) (b :: bs) ->
    match g_hops (tseg_of mac b) with
    | d :: r => route_auth mac (tseg_of mac b) d r (map (tseg_of mac) bs)
    | [] => False
    end.
Proof. intros. apply route_auth_of; assumption. Qed.
Print Assumptions assembled_paths_are_authentic.

(** Peering paths (segments as the SPECIFICATION beacons them; segments built by the code as
    written carry deviating peer-entry MACs, finding C01-peer-mac-over-beta-i).
    Two segments carrying the PEERING flag: the first travelled against
    construction direction and ending in a peering hop field, the second in construction
    direction and starting with one (the shape [PathSolution::path] gives every peering path;
    either segment may consist of its peering hop field alone).  If every hop field is
    authentic over the SegID the data-plane rules carry to it ([carried_rev .. true true]:
    restored at every ingress except the first hop and the peering hop; [carried_cons .. true]:
    chained at every egress except after the peering hop) and the topology carries the path
    ([p1_topo], [p4_topo]: usable hop fields, ASes holding the keys, up links between
    consecutive interfaces, the peering link between the two peering hop fields), the
    reference router delivers the packet at its destination, and the packet that arrives is
    given exactly (pointers at the last hop field, each segment's SegID = the value its last
    hop field was verified with).  Any lengths, any MAC function. *)
Theorem peering_path_delivers :
  forall (key : Type) (mac : key -> N -> N -> N -> N -> N -> N) (t : topology key) (now : N)
         (L0 : list hopd) (dq : hopd) (r1 : list hopd) (s0 ts0 s1 ts1 dst : N),
    Forall (fun d => auth mac d ts0) L0 ->
    betas_of L0 = carried_rev s0 (hops_of L0) true true ->
    p1_topo t now ts0 L0 dq ->
    Forall (fun d => auth mac d ts1) (dq :: r1) ->
    betas_of (dq :: r1) = carried_cons s1 (hops_of (dq :: r1)) true ->
    hopok t now dq ts1 ->
    match r1 with
    | [] => d_ia dq = dst
    | e :: r' => plink t (d_ia dq) (h_eg (d_hop dq)) (d_ia e) (h_in (d_hop e)) /\ p4_topo t now ts1 dst e r'
    end ->
    delivers mac t now (length L0 + 1 + length r1) (d_ia (hd dq L0)) 0
             (ppkt dst 0 0 (length L0) (S (length r1)) s0 ts0 s1 ts1 (hops_of L0 ++ hops_of (dq :: r1)))
             dst
             (fun pk' => pk' = ppkt dst 1 (length L0 + length r1) (length L0) (S (length r1))
                                    (last (betas_of L0) 0) ts0 (last (betas_of (dq :: r1)) 0) ts1
                                    (hops_of L0 ++ hops_of (dq :: r1))).
Proof. intros. apply peering_delivers; assumption. Qed.
Print Assumptions peering_path_delivers.

(** ... and the uses of SPECIFICATION-beaconed segments through a peer entry are exactly such
    descriptions: by the chain invariant every hop field of the use (regular ones and the
    peer entry's) is authentic over the carried value, with the SegID initialised as
    [initialize_segment_id] does (beta_(k+1) for a peer entry of entry k). *)
Theorem peer_uses_are_authentic :
  forall (key : Type) (mac : key -> N -> N -> N -> N -> N -> N) (b : buse) (pi : nat) (hs : list hopf),
    (bu_k b < length (bu_us b))%nat -> use_hops (peer_use mac b pi) = Some hs ->
    Forall (fun d => auth mac d (bu_ts b)) (peer_desc mac b pi hs)
    /\ hops_of (peer_desc mac b pi hs) = hs
    /\ betas_of (peer_desc mac b pi hs)
       = if bu_cons b then carried_cons (init_segid (peer_use mac b pi)) hs true
         else carried_rev (init_segid (peer_use mac b pi)) hs true true.
Proof. intros. apply peer_desc_auth; assumption. Qed.
Print Assumptions peer_uses_are_authentic.

(** Closing the loop with the SDK's own router: after the repairs recorded in
    known_findings/C13.json, the simulated router ([sdk_sim], the statement-by-statement model
    of pocketscion's SpecRoutingLogic) delivers every such assembled path too -- shortcuts
    included -- at its destination, provided the path has at most 64 hop fields in all (the
    SDK does not advance the 6-bit CurrHF pointer past 63) (consequence of the previous theorem
    and of C13's completeness theorem).  Peering paths it does not carry (finding C13-peering-unsupported). *)
Theorem combined_paths_delivered_by_sdk_router :
  forall (key : Type) (mac : key -> N -> N -> N -> N -> N -> N) (t : topology key) (now dst : N)
         (b : buse) (bs : list buse) (pk : packet),
    wf_topo t = true ->
    Forall (fun b => (S (bu_k b) < length (bu_us b))%nat) (b :: bs) ->
    assemble dst (map (use_of mac) (b :: bs)) = Some pk ->
    (length (p_hops (k_path pk)) <= 64)%nat ->
    exists d r, g_hops (tseg_of mac b) = d :: r /\
      (route_topo t now (tseg_of mac b) d r (map (tseg_of mac) bs) dst ->
       exists tr pk' pre il,
         sdk_sim mac (length r + S (fuel_rest (map (tseg_of mac) bs))) t now (d_ia d) 0 pk = (tr, EndVerdict, pk')
         /\ tr = pre ++ [mkStep dst il ALocal]).
Proof. intros. apply combined_delivers_sdk; assumption. Qed.
Print Assumptions combined_paths_delivered_by_sdk_router.

(** Last sentence of the property.  The lookup plan ([ListSegmentPlan::new], modelled as the
    finite table it is, regenerated from list_segment_plan.rs) requests every kind of segment
    -- up, core, down -- that a route between the two ASes can need by the SCION combination
    rules ([Spec.needed_lookups]), in each of its 18 cases (same ISD with one core / several
    cores, different ISDs; core / non-core source; core / non-core / any-core destination).
    Finite: by case analysis. *)
Theorem plan_covers :
  forall ctx srck dstk p c,
    In ctx [0; 1; 2] -> In srck [0; 1] -> In dstk [0; 1; 2] ->
    In p (needed_lookups ctx srck dstk) -> In c p ->
    exists r, Proofs_Joinable.plan_row ctx srck dstk = Some r /\ Proofs_Joinable.requested r c = true.
Proof. exact Proofs_Joinable.plan_covers_lemma. Qed.
Print Assumptions plan_covers.

(** Whenever the segments handed to the combinator can be joined into a route from [src] to
    [dst] ([Joinable]: on one non-core segment; over one core segment; up and down through a
    common AS, core or shortcut; up-core; core-down; up-core-down), that route is a valid
    combination of the combinator's specification, the search graph contains its chain of
    edges, and -- by the Combine area's [combine_complete] -- the offered list is NOT EMPTY as
    soon as that chain's path encodes and is loop-free.  Stated over the Combine area's
    segment type (the combinator's input); the executable counterpart on the real registry
    and combinator is the h_joinable oracle ([Spec.joinable]).
    PARTIAL: (1) "the joined route's path encodes (at most 63 hop fields per segment, 984
    bytes) and visits no AS twice" is a hypothesis (a looping join is dropped by the
    combinator; that some OTHER join is then loop-free is not proved); (2) joins across a
    peering link are not in [Joinable]. *)
Theorem joinable_offered_partial :
  forall Hid Hfp ord_v ord_e src dst cores non_cores out,
    Combine.Proofs.order_ok ord_v ord_e -> Combine.ProofsGraph.wf_input cores non_cores ->
    Combine.Model.combine_paths Hid Hfp ord_v ord_e src dst cores non_cores = Ok out -> src <> dst ->
    Proofs_Joinable.Joinable cores non_cores src dst ->
    exists uses l,
      Combine.SpecRules.ValidCombination cores non_cores src dst uses
      /\ Forall2 (Combine.ProofsGraph.EdgeOfUse Hid) l uses
      /\ forall p, Combine.Model.sol_path Hfp (Combine.Model.mkSol l (Combine.Model.VAS dst) (Combine.ProofsC04.edges_weight l)) = Ok (Some p) ->
                   Combine.Model.has_loops p = Ok false -> out <> [].
Proof. exact Proofs_Joinable.joinable_offered_lemma. Qed.
Print Assumptions joinable_offered_partial.

(** [Joinable] is decidable by the computation the harness oracle performs (filter the up
    segments of the source and the down segments of the destination, look for a common AS or
    a joining core segment): whenever that computation says "joinable", the conclusion of
    [joinable_offered_partial] holds. *)
Theorem joinable_decided_offered_partial :
  forall Hid Hfp ord_v ord_e src dst cores non_cores out,
    Combine.Proofs.order_ok ord_v ord_e -> Combine.ProofsGraph.wf_input cores non_cores ->
    Combine.Model.combine_paths Hid Hfp ord_v ord_e src dst cores non_cores = Ok out -> src <> dst ->
    Proofs_Joinable.cjoin cores non_cores src dst = true ->
    exists uses l,
      Combine.SpecRules.ValidCombination cores non_cores src dst uses
      /\ Forall2 (Combine.ProofsGraph.EdgeOfUse Hid) l uses
      /\ forall p, Combine.Model.sol_path Hfp (Combine.Model.mkSol l (Combine.Model.VAS dst) (Combine.ProofsC04.edges_weight l)) = Ok (Some p) ->
                   Combine.Model.has_loops p = Ok false -> out <> [].
Proof.
  intros. eapply Proofs_Joinable.joinable_offered_lemma; eauto.
  apply Proofs_Joinable.cjoin_joinable; assumption.
Qed.
Print Assumptions joinable_decided_offered_partial.

(** The reply over a peering path (segments as the specification beacons them): under the
    forward conditions of [peering_path_delivers] alone, in a topology whose interfaces
    identify their link, the reversed arrived packet -- again a peering path: the second
    segment read backwards up to its peering hop field, then the first one from its peering
    hop field down -- is delivered by the reference router to the sender.  The SegIDs the
    forward traversal left behind are exactly the initial values the way back needs
    (chaining and restoring are xor-inverse, the peering hop fields keep the value of their
    neighbours), and every link leads back. *)
Theorem reverse_delivers_peering :
  forall (key : Type) (mac : key -> N -> N -> N -> N -> N -> N) (t : topology key) (now : N)
         (L0 : list hopd) (dq : hopd) (r1 : list hopd) (s0 ts0 s1 ts1 dst : N),
    links_wf t -> wf_topo t = true ->
    Forall (fun d => auth mac d ts0) L0 ->
    betas_of L0 = carried_rev s0 (hops_of L0) true true ->
    p1_topo t now ts0 L0 dq ->
    Forall (fun d => auth mac d ts1) (dq :: r1) ->
    betas_of (dq :: r1) = carried_cons s1 (hops_of (dq :: r1)) true ->
    hopok t now dq ts1 ->
    match r1 with
    | [] => d_ia dq = dst
    | e :: r' => plink t (d_ia dq) (h_eg (d_hop dq)) (d_ia e) (h_in (d_hop e)) /\ p4_topo t now ts1 dst e r'
    end ->
    let src := d_ia (hd dq L0) in
    let arrived := ppkt dst 1 (length L0 + length r1) (length L0) (S (length r1))
                        (last (betas_of L0) 0) ts0 (last (betas_of (dq :: r1)) 0) ts1
                        (hops_of L0 ++ hops_of (dq :: r1)) in
    exists fuel first_as,
      delivers mac t now fuel first_as 0 (mkPkt src (path_reverse (k_path arrived))) src (fun _ => True).
Proof. intros. eapply peering_reverse_delivers; eassumption. Qed.
Print Assumptions reverse_delivers_peering.
