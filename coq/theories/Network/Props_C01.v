(** C01 -- property theorems only (MAC chain of beaconed segments, assembled paths).  The hop
    MAC is an arbitrary function: the routers recompute the same function, no cryptographic
    hypothesis is needed for these positive results. *)
From Sci Require Import Gen.NetworkTables Network.Model Network.Spec Network.Proofs Network.Proofs_C01.
Local Open Scope N_scope.

(** The code that extends a beacon ([SignedPathSegment::add_entry] = [AsEntry::update_macs]
    then push), iterated over any list of AS entries, builds exactly the specification's
    segment: sigma_i over beta_i, beta_(i+1) = beta_i xor sigma_i[0..2], peer entries over
    beta_(i+1).  The flag is regenerated from segment.rs: with the unrepaired helper (peer
    entries over beta_i) this proof does not go through. *)
Theorem update_macs_builds_beacon :
  forall (key : Type) (mac : key -> N -> N -> N -> N -> N -> N) b0 ts (us : list (@uentry key)),
    code_beacon mac b0 ts us = beacon mac b0 ts us.
Proof. intros. apply code_beacon_is_beacon. reflexivity. Qed.
Print Assumptions update_macs_builds_beacon.

(** The chain invariant.  For every beaconed segment (any length), every use of it in a path
    ([SolutionEdge]: from any shortcut index [k], through the regular hop field of entry [k]
    or any of its peer entries, in or against construction direction), with the SegID
    initialised as [initialize_segment_id] does: the SegID a router following the data-plane
    rules carries when AS i verifies its hop field is the value that hop field's MAC was
    computed over -- so every on-path AS accepts with its own key.  Induction over the hop
    list; no bound on the segment length. *)
Theorem chain_invariant :
  forall (key : Type) (mac : key -> N -> N -> N -> N -> N -> N)
         b0 ts (us : list (@uentry key)) k peer cons hs,
    (k < length us)%nat ->
    let u := mkUse (beacon mac b0 ts us) k peer cons in
    use_hops u = Some hs ->
    Forall2 (fun K hv => verifies mac ts K (fst hv) (snd hv))
            (use_keys us u) (combine hs (use_carried u hs)).
Proof. intros. apply chain_invariant_use; assumption. Qed.
Print Assumptions chain_invariant.
