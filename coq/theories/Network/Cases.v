(** Correspondence driver for C13 / C01 (packets): evaluated by [vm_compute] on case files
    written by harness/hc_network (bin h_network).  For each case the SDK-router model
    [sdk_sim] (with the real AES-CMAC of [Aes]) is run on the same topology, packet, clock and
    injection point as the real [ScionNetworkSim] iterator and the per-AS trace, the end
    condition and the packet state left behind are compared; the property oracles of [Spec]
    and the reference router [ref_sim] are evaluated against the IMPLEMENTATION's trace. *)
From Sci Require Export Network.Model Network.Spec Network.Aes.
Local Open Scope N_scope.

Record ncase := mkCase {
  c_ases : list (N * bool * list N);            (* ia, core, forwarding key bytes *)
  c_links : list (N * N * N * N * N * bool);    (* a, a-if, type (a IS type OF b: 0 peer 1 parent 2 child 3 core), b, b-if, up *)
  c_now : N; c_at : N; c_if : N;                (* clock, injection AS and interface *)
  c_dst : N; c_ci : N; c_ch : N; c_lens : list N;
  c_infos : list (N * N * N);                   (* flags (1 cons dir, 2 peering), SegID, timestamp *)
  c_hops : list (N * N * N * N * N);            (* flags (1 cons egress alert, 2 cons ingress alert), exp, cons in, cons eg, mac *)
  c_kind : N;                                   (* 0 offered path, 1 reverse of an arrived offered path, 2 mutated *)
  c_meta : list (N * N);                        (* interface list of the path metadata (kind 0/1) *)
  c_trace : list tline;                         (* implementation: per-AS lines *)
  c_end : N;                                    (* 0 verdict, 1 iterator error, 2 panic, 3 step cap *)
  c_fin : list N }.                             (* packet state left behind: ci, ch, SegIDs, hop flags *)

Definition slt_of_code (c : N) : slt :=
  match c with 0 => SPeer | 1 => SParent | 2 => SChild | _ => SCore end.

Definition case_topo (c : ncase) : topology cmac_key :=
  mkTopo (map (fun '(ia, core, k) => mkAs ia core (cmac_prep k)) (c_ases c))
         (map (fun '(a, ai, ty, b, bi, up) => mkLink a ai (slt_of_code ty) b bi up) (c_links c)).

Definition case_packet (c : ncase) : packet :=
  mkPkt (c_dst c)
    (mkPath (N.to_nat (c_ci c)) (N.to_nat (c_ch c)) (map N.to_nat (c_lens c))
       (map (fun '(f, s, ts) => mkInfo (N.testbit f 1) (N.testbit f 0) s ts) (c_infos c))
       (map (fun '(f, e, i, g, m) => mkHop (N.testbit f 1) (N.testbit f 0) e i g m) (c_hops c))).

Definition action_line (a : action) : N * N :=
  match a with
  | AFwd e => (1, e) | ALocal => (2, 0) | AIngressScmp i => (3, i) | AEgressScmp i => (4, i)
  | ADrop => (5, 0) | AScmp c x => (c, x) | APanic => (99, 0)
  end.
Definition step_line (s : step) : tline :=
  let '(c, x) := action_line (s_act s) in (s_ia s, s_if s, c, x).
Definition tline_eqb (a b : tline) : bool :=
  let '(a1, a2, a3, a4) := a in let '(b1, b2, b3, b4) := b in
  (a1 =? b1) && (a2 =? b2) && (a3 =? b3) && (a4 =? b4).

Definition pkt_state (pk : packet) : list N :=
  let p := k_path pk in
  N.of_nat (p_ci p) :: N.of_nat (p_ch p) :: map i_segid (p_infos p)
  ++ map (fun h => (if h_aeg h then 1 else 0) + (if h_ain h then 2 else 0)) (p_hops p).

(** the model's prediction in the implementation's output format *)
Definition model_out (t : topology cmac_key) (pk0 : packet) (c : ncase) : list tline * N * list N :=
  let '(tr, e, pk) := sdk_sim hop_mac (S (length (c_hops c))) t (c_now c) (c_at c) (c_if c) pk0 in
  let lines := map step_line tr in
  match e, rev lines with
  | EndVerdict, (_, _, 99, _) :: r => (rev r, 2, pkt_state pk)
  | EndVerdict, _ => (lines, 0, pkt_state pk)
  | EndError, _ => (lines, 1, pkt_state pk)
  | EndFuel, _ => (lines, 3, pkt_state pk)
  end.

Definition ref_out (t : topology cmac_key) (pk0 : packet) (c : ncase) :=
  ref_sim hop_mac (S (length (c_hops c))) t (c_now c) (c_at c) (c_if c) pk0.

Definition rend_delivered (e : rend) : option N :=
  match e with RDelivered ia => Some ia | _ => None end.

Definition forwards_of (tr : list tline) : list (N * N * N) :=
  flat_map (fun '(ia, i, c, a) => if c =? 1 then [(ia, i, a)] else []) tr.
Definition triple_eqb (a b : N * N * N) : bool :=
  let '(a1, a2, a3) := a in let '(b1, b2, b3) := b in (a1 =? b1) && (a2 =? b2) && (a3 =? b3).
Fixpoint is_prefix {A} (eqb : A -> A -> bool) (a b : list A) : bool :=
  match a, b with
  | [], _ => true
  | x :: a', y :: b' => eqb x y && is_prefix eqb a' b'
  | _, [] => false
  end.

Definition is_nil {A} (l : list A) : bool := match l with [] => true | _ => false end.

(** one crossover of the packet is validated at an interface pair involving a peering
    link (class of the open finding C13-peer-link-segment-change): decided on the
    reference trace is not possible, so decide it on the implementation's forwarding
    actions: some forward leaves through a peering interface at a segment change.  For
    the classification it is enough to know that the packet changes segments at an AS where
    the hop fields name a peering interface. *)
Definition names_peer_if_at_change (t : topology cmac_key) (p : path) : bool :=
  existsb (fun j =>
    match nth_error (p_hops p) j, nth_error (p_hops p) (j - 1), seg_of (p_lens p) j with
    | Some nh, Some h, Some s =>
      match nth_error (p_infos p) s, nth_error (p_infos p) (s - 1) with
      | Some ni, Some i =>
        existsb (fun a =>
          match iface_state t (a_ia a) (hop_egress nh ni), iface_state t (a_ia a) (hop_ingress h i) with
          | Some (lo, _), Some (li, _) => involves_peer li lo
          | _, _ => false
          end) (t_ases t)
      | _, _ => false
      end
    | _, _, _ => false
    end) (xover_starts p).

Definition verdict (c : ncase) : N :=
  let t := case_topo c in
  let pk := case_packet c in
  let p := k_path pk in
  let '(mtr, mend, mfin) := model_out t pk c in
  let mismatch :=
    negb (list_eqb tline_eqb mtr (c_trace c)) || negb (mend =? c_end c)
    || (negb (is_nil (c_fin c)) && negb (list_eqb N.eqb mfin (c_fin c))) in
  let '(rtr, rendv, _) := ref_out t pk c in
  let itr := c_trace c in
  (* --- oracles on the implementation's output *)
  let o1 := o_deliver_only_at (c_dst c) itr in
  let o2 := o_bounded (length (c_hops c)) (N.to_nat (c_ch c)) itr && (c_end c =? 0) in
  let o3 := forallb (fun '(ia, _, cd, a) =>
               negb (cd =? 1) || match iface_state t ia a with Some (_, true) => true | _ => false end) itr in
  (* no over-acceptance: everything the implementation forwards / delivers, the reference
     router forwards / delivers *)
  let o4 := is_prefix triple_eqb (forwards_of itr) rtr
            && match delivered_at itr with
               | Some ia => optN_eqb (rend_delivered rendv) (Some ia)
               | None => true
               end in
  (* completeness: what the reference router delivers, the implementation delivers *)
  let o5 := match rend_delivered rendv with
            | Some ia => optN_eqb (delivered_at itr) (Some ia)
            | None => true
            end in
  (* offered paths and reverses are delivered at their destination over the listed interfaces *)
  let offered := (c_kind c =? 0) || (c_kind c =? 1) in
  let o6 := negb offered
            || (optN_eqb (delivered_at itr) (Some (c_dst c))
                && list_eqb pairN_eqb (crossed true itr) (c_meta c)) in
  (* the reference router delivers every offered path (C01) *)
  let o7 := negb offered || optN_eqb (rend_delivered rendv) (Some (c_dst c)) in
  let peering := uses_peering p in
  let shortcut := uses_shortcut p in
  let peer_change := names_peer_if_at_change t p in
  let hard := negb (o1 && o2 && o3) in
  let soft_fail := negb (o4 && o5 && o6 && o7) in
  let k_peering := soft_fail && peering in
  let k_peer_change := soft_fail && negb peering && peer_change in
  let k_shortcut := soft_fail && negb peering && negb peer_change && shortcut in
  let unknown := hard || (soft_fail && negb peering && negb shortcut && negb peer_change) in
  (if mismatch then 1 else 0) + (if unknown then 2 else 0)
  + (if k_shortcut then 16 else 0) + (if k_peering then 32 else 0) + (if k_peer_change then 64 else 0)
  (* diagnostic bits above 2^8 (ignored by the driver): which oracle failed *)
  + (if o4 then 0 else 256) + (if o5 then 0 else 512) + (if o6 then 0 else 1024) + (if o7 then 0 else 2048)
  + (if o1 then 0 else 4096) + (if o2 then 0 else 8192) + (if o3 then 0 else 16384).

Definition verdicts (cs : list ncase) : list N := map verdict cs.
