(** Correspondence driver for C13 / C01 (packets): evaluated by [vm_compute] on case files
    written by harness/hc_network (bin h_network).  For each case the SDK-router model
    [sdk_sim] (with the real AES-CMAC of [Aes]) is run on the same topology, packet, clock and
    injection point as the real [ScionNetworkSim] iterator and the per-AS trace, the end
    condition and the packet state left behind are compared; the property oracles of [Spec]
    and the reference router [ref_sim] are evaluated against the IMPLEMENTATION's trace. *)
From Sci Require Export Network.Model Network.Spec Network.Aes.
Local Open Scope N_scope.

(** literal-friendly element records (plain constructors elaborate much faster than tuples) *)
Inductive c_as := A (ia : N) (core : bool) (key : N).   (* key: 16 bytes as one big-endian number *)
Inductive c_link := L (a ai ty b bi : N) (up : bool).   (* a IS type OF b: 0 peer 1 parent 2 child 3 core *)
Inductive c_info := I (flags segid ts : N).             (* flags: 1 cons dir, 2 peering *)
Inductive c_hop := H (flags exp cin ceg mac : N).       (* flags: 1 cons egress alert, 2 cons ingress alert *)
Inductive c_line := T (ia ifid code arg : N).
Inductive c_ifc := F (ia ifid : N).

Record ncase := mkCase {
  c_ases : list c_as;
  c_links : list c_link;
  c_now : N; c_at : N; c_if : N;                (* clock, injection AS and interface *)
  c_dst : N; c_ci : N; c_ch : N; c_lens : list N;
  c_infos : list c_info;
  c_hops : list c_hop;
  c_kind : N;                                   (* 0 offered path, 1 reverse of an arrived offered path, 2 mutated, 3 one-hop, 7 lifetime, 8 address *)
  c_meta_l : list c_ifc;                         (* interface list of the path metadata (kind 0/1) *)
  c_trace_l : list c_line;                      (* implementation: per-AS lines *)
  c_end : N;                                    (* 0 verdict, 1 iterator error, 2 panic, 3 step cap *)
  c_fin : list N }.                             (* packet state left behind: ci, ch, SegIDs, hop flags *)
Definition c_meta (c : ncase) : list (N * N) := map (fun '(F a i) => (a, i)) (c_meta_l c).
Definition c_trace (c : ncase) : list tline := map (fun '(T a i k x) => (a, i, k, x)) (c_trace_l c).

Definition slt_of_code (c : N) : slt :=
  match c with 0 => SPeer | 1 => SParent | 2 => SChild | _ => SCore end.

Definition case_topo (c : ncase) : topology cmac_key :=
  mkTopo (map (fun '(A ia core k) => mkAs ia core (cmac_prep (be_bytes 16 k))) (c_ases c))
         (map (fun '(L a ai ty b bi up) => mkLink a ai (slt_of_code ty) b bi up) (c_links c)).

Definition case_packet (c : ncase) : packet :=
  mkPkt (c_dst c)
    (mkPath (N.to_nat (c_ci c)) (N.to_nat (c_ch c)) (map N.to_nat (c_lens c))
       (map (fun '(I f s ts) => mkInfo (N.testbit f 1) (N.testbit f 0) s ts) (c_infos c))
       (map (fun '(H f e i g m) => mkHop (N.testbit f 1) (N.testbit f 0) e i g m) (c_hops c))).

Definition action_line (a : action) : N * N :=
  match a with
  | AFwd e => (1, e) | ALocal => (2, 0) | AIngressScmp i => (3, i) | AEgressScmp i => (4, i)
  | ADrop => (5, 0) | AScmp c x => (c, x) | APanic => (99, 0)
  end.
Definition step_line (s : step) : tline :=
  let '(c, x) := action_line (s_act s) in (s_ia s, s_if s, c, x).
Definition tline_eqb (a b : tline) : bool :=
  let '(a1, a2, a3, a4) := a in let '(b1, b2, b3, b4) := b in
  (a1 =? b1) && (a2 =? b2) && (a3 =? b3) && (a4 =? b4).

Definition pkt_state (pk : packet) : list N :=
  let p := k_path pk in
  N.of_nat (p_ci p) :: N.of_nat (p_ch p) :: map i_segid (p_infos p)
  ++ map (fun h => (if h_aeg h then 1 else 0) + (if h_ain h then 2 else 0)) (p_hops p).

(** the model's prediction in the implementation's output format *)
Definition model_out (t : topology cmac_key) (pk0 : packet) (c : ncase) : list tline * N * list N :=
  let '(tr, e, pk) := sdk_sim hop_mac (S (length (c_hops c))) t (c_now c) (c_at c) (c_if c) pk0 in
  let lines := map step_line tr in
  match e, rev lines with
  | EndVerdict, (_, _, 99, _) :: r => (rev r, 2, pkt_state pk)
  | EndVerdict, _ => (lines, 0, pkt_state pk)
  | EndError, _ => (lines, 1, pkt_state pk)
  | EndFuel, _ => (lines, 3, pkt_state pk)
  end.

Definition ref_out (t : topology cmac_key) (pk0 : packet) (c : ncase) :=
  ref_sim hop_mac (S (length (c_hops c))) t (c_now c) (c_at c) (c_if c) pk0.

Definition rend_delivered (e : rend) : option N :=
  match e with RDelivered ia => Some ia | _ => None end.

Definition forwards_of (tr : list tline) : list (N * N * N) :=
  flat_map (fun '(ia, i, c, a) => if c =? 1 then [(ia, i, a)] else []) tr.
Definition triple_eqb (a b : N * N * N) : bool :=
  let '(a1, a2, a3) := a in let '(b1, b2, b3) := b in (a1 =? b1) && (a2 =? b2) && (a3 =? b3).
Fixpoint is_prefix {A} (eqb : A -> A -> bool) (a b : list A) : bool :=
  match a, b with
  | [], _ => true
  | x :: a', y :: b' => eqb x y && is_prefix eqb a' b'
  | _, [] => false
  end.

Definition is_nil {A} (l : list A) : bool := match l with [] => true | _ => false end.

(** one crossover of the packet is validated at an interface pair involving a peering
    link (class of the open finding C13-peer-link-segment-change): decided on the
    reference trace is not possible, so decide it on the implementation's forwarding
    actions: some forward leaves through a peering interface at a segment change.  For
    the classification it is enough to know that the packet changes segments at an AS where
    the hop fields name a peering interface. *)
Definition names_peer_if_at_change (t : topology cmac_key) (p : path) : bool :=
  existsb (fun j =>
    match nth_error (p_hops p) j, nth_error (p_hops p) (j - 1), seg_of (p_lens p) j with
    | Some nh, Some h, Some s =>
      match nth_error (p_infos p) s, nth_error (p_infos p) (s - 1) with
      | Some ni, Some i =>
        existsb (fun a =>
          match iface_state t (a_ia a) (hop_egress nh ni), iface_state t (a_ia a) (hop_ingress h i) with
          | Some (lo, _), Some (li, _) => involves_peer li lo
          | _, _ => false
          end) (t_ases t)
      | _, _ => false
      end
    | _, _, _ => false
    end) (xover_starts p).

(** one-hop cases ([c_lens] empty, one info field, two hop fields): model [sdk_onehop_sim]
    against the implementation's trace; oracles: bounded (two steps), delivery only at the
    destination, forwarding only over existing up links, and no over-acceptance with respect
    to [ref_onehop].  Every oracle failure of a one-hop case belongs to the class of the open
    finding C13-onehop-unchecked (bit 128). *)
Definition case_onehop (c : ncase) : option ohpacket :=
  match c_infos c, c_hops c with
  | [I f s ts], [H f1 e1 i1 g1 m1; H f2 e2 i2 g2 m2] =>
    Some (mkOh (c_dst c) (mkInfo (N.testbit f 1) (N.testbit f 0) s ts)
               (mkHop (N.testbit f1 1) (N.testbit f1 0) e1 i1 g1 m1)
               (mkHop (N.testbit f2 1) (N.testbit f2 0) e2 i2 g2 m2))
  | _, _ => None
  end.

Definition verdict_onehop (c : ncase) : N :=
  let t := case_topo c in
  match case_onehop c with
  | None => 1
  | Some pk =>
    let '(tr, e) := sdk_onehop_sim hop_mac 3 t (c_at c) (c_if c) pk in
    let lines := map step_line tr in
    let mend := match e with EndVerdict => 0 | EndError => 1 | EndFuel => 3 end in
    let mismatch := negb (list_eqb tline_eqb lines (c_trace c)) || negb (mend =? c_end c) in
    let itr := c_trace c in
    let o1 := o_deliver_only_at (c_dst c) itr in
    let o2 := (length itr <=? 2)%nat && (c_end c =? 0) in
    let o3 := forallb (fun '(ia, _, cd, a) =>
                 negb (cd =? 1) || match iface_state t ia a with Some (_, true) => true | _ => false end) itr in
    let o4 := match delivered_at itr with
              | Some ia => optN_eqb (rend_delivered (ref_onehop hop_mac t (c_now c) (c_at c) pk)) (Some ia)
              | None => true
              end in
    (if mismatch then 1 else 0) + (if o1 && o2 && o3 && o4 then 0 else 128)
    + (if o4 then 0 else 256) + (if o1 then 0 else 4096) + (if o2 then 0 else 8192) + (if o3 then 0 else 16384)
  end.

(** (segment timestamp, ExpTime) of every hop field *)
Fixpoint hops_with_ts (lens : list nat) (infos : list infof) (hops : list hopf) : list (N * N) :=
  match lens, infos with
  | l :: lens', i :: infos' =>
      map (fun h => (i_ts i, h_exp h)) (firstn l hops) ++ hops_with_ts lens' infos' (skipn l hops)
  | _, _ => []
  end.

Definition verdict_std (c : ncase) : N :=
  let t := case_topo c in
  let pk := case_packet c in
  let p := k_path pk in
  let '(mtr, mend, mfin) := model_out t pk c in
  let mismatch :=
    negb (list_eqb tline_eqb mtr (c_trace c)) || negb (mend =? c_end c)
    || (negb (is_nil (c_fin c)) && negb (list_eqb N.eqb mfin (c_fin c))) in
  let '(rtr, rendv, _) := ref_out t pk c in
  let itr := c_trace c in
  (* --- oracles on the implementation's output *)
  let o1 := o_deliver_only_at (c_dst c) itr in
  let o2 := o_bounded (length (c_hops c)) (N.to_nat (c_ch c)) itr && (c_end c =? 0) in
  let o3 := forallb (fun '(ia, _, cd, a) =>
               negb (cd =? 1) || match iface_state t ia a with Some (_, true) => true | _ => false end) itr in
  (* no over-acceptance: everything the implementation forwards / delivers, the reference
     router forwards / delivers *)
  let o4 := is_prefix triple_eqb (forwards_of itr) rtr
            && match delivered_at itr with
               | Some ia => optN_eqb (rend_delivered rendv) (Some ia)
               | None => true
               end in
  (* completeness: what the reference router delivers, the implementation delivers -- for paths
     of at most 64 hop fields (beyond, the implementation refuses to advance the 6-bit CurrHF
     pointer past 63; the structural reference router has no encoding limit; see the
     hypothesis of [Props_C13.sdk_complete_wrt_ref]) *)
  let o5 := (64 <? length (c_hops c))%nat ||
            match rend_delivered rendv with
            | Some ia => optN_eqb (delivered_at itr) (Some ia)
            | None => true
            end in
  (* offered paths and reverses are delivered at their destination over the listed interfaces *)
  let offered := (c_kind c =? 0) || (c_kind c =? 1) in
  let o6 := negb offered
            || (optN_eqb (delivered_at itr) (Some (c_dst c))
                && list_eqb pairN_eqb (crossed true itr) (c_meta c)) in
  (* the reference router delivers every offered path (C01) *)
  let o7 := negb offered || optN_eqb (rend_delivered rendv) (Some (c_dst c)) in
  (* lifetime cases (kind 7): an authentic path minted with chosen timestamps and ExpTime values,
     sent from its source; it arrives iff the clock is inside the lifetime of every hop field,
     the lifetime being the specification's [Spec.spec_time_ok] *)
  let o8 := negb (c_kind c =? 7)
            || Bool.eqb (optN_eqb (delivered_at itr) (Some (c_dst c)))
                 (forallb (fun '(ts, e) => spec_time_ok (c_now c) ts e)
                    (hops_with_ts (p_lens p) (p_infos p) (p_hops p))) in
  (* address cases (kind 8): an offered path whose destination (or source) ISD-AS was rewritten.
     A destination that is a wildcard form, or is not the AS the path ends in, is delivered
     nowhere -- neither by the implementation nor by the reference router; with the right
     destination the packet arrives whatever the source field says *)
  let last_as := match rev (c_meta c) with (ia, _) :: _ => ia | [] => c_dst c end in
  let o9 := negb (c_kind c =? 8)
            || (if is_wildcard_ia (c_dst c) || negb (spec_local_dst last_as (c_dst c))
                then optN_eqb (delivered_at itr) None && optN_eqb (rend_delivered rendv) None
                else optN_eqb (delivered_at itr) (Some (c_dst c))
                     && optN_eqb (rend_delivered rendv) (Some (c_dst c))) in
  let peering := uses_peering p in
  let shortcut := uses_shortcut p in
  let peer_change := names_peer_if_at_change t p in
  let hard := negb (o1 && o2 && o3 && o8 && o9) in
  let soft_fail := negb (o4 && o5 && o6 && o7) in
  let k_peering := soft_fail && peering in
  let k_peer_change := soft_fail && negb peering && peer_change in
  let k_shortcut := soft_fail && negb peering && negb peer_change && shortcut in
  let unknown := hard || (soft_fail && negb peering && negb shortcut && negb peer_change) in
  (if mismatch then 1 else 0) + (if unknown then 2 else 0)
  + (if k_shortcut then 16 else 0) + (if k_peering then 32 else 0) + (if k_peer_change then 64 else 0)
  (* diagnostic bits above 2^8 (ignored by the driver): which oracle failed *)
  + (if o4 then 0 else 256) + (if o5 then 0 else 512) + (if o6 then 0 else 1024) + (if o7 then 0 else 2048)
  + (if o1 then 0 else 4096) + (if o2 then 0 else 8192) + (if o3 then 0 else 16384)
  + (if o8 then 0 else 32768) + (if o9 then 0 else 65536).

Definition verdict (c : ncase) : N := if is_nil (c_lens c) then verdict_onehop c else verdict_std c.
Definition verdicts (cs : list ncase) : list N := map verdict cs.

(** * C01: segments of the real control plane against the beacon model *)
Inductive c_peer := P (pia pif exp cin ceg mac : N).
Inductive c_entry := E (ia : N) (key : N) (exp cin ceg mac : N) (peers : list c_peer).
Record scase := mkSCase { sc_beta0 : N; sc_ts : N; sc_entries : list c_entry }.

Definition sc_uentries (c : scase) : list (@uentry cmac_key) :=
  map (fun '(E ia k e i g _ ps) =>
         mkUEntry ia (cmac_prep (be_bytes 16 k)) (mkUHop e i g)
                  (map (fun '(P pia pif pe pi pg _) => (pia, pif, mkUHop pe pi pg)) ps))
      (sc_entries c).
Definition seg_macs (s : segment) : list (N * list N) :=
  map (fun e => (h_mac (se_hop e), map (fun '(_, _, ph) => h_mac ph) (se_peers e))) (sg_entries s).
Definition sc_macs (c : scase) : list (N * list N) :=
  map (fun '(E _ _ _ _ _ m ps) => (m, map (fun '(P _ _ _ _ _ pm) => pm) ps)) (sc_entries c).
Definition macs_eqb (a b : list (N * list N)) : bool :=
  list_eqb (fun x y => (fst x =? fst y) && list_eqb N.eqb (snd x) (snd y)) a b.

(** bit 1: the model of [update_macs] disagrees with the implementation; bit 2 / 16: the
    implementation's segment is not the specification's beacon (16: only peer-entry MACs
    differ -- class of the open finding C01-peer-mac-over-beta-i) *)
Definition sverdict (c : scase) : N :=
  let us := sc_uentries c in
  let code := seg_macs (code_beacon hop_mac (sc_beta0 c) (sc_ts c) us) in
  let spec := seg_macs (beacon hop_mac (sc_beta0 c) (sc_ts c) us) in
  let impl := sc_macs c in
  let mismatch := negb (macs_eqb code impl) in
  let ok := macs_eqb spec impl in
  let hops_ok := list_eqb N.eqb (map fst spec) (map fst impl) in
  (if mismatch then 1 else 0)
  + (if ok then 0 else if hops_ok then 16 else 2).
Definition sverdicts (cs : list scase) : list N := map sverdict cs.

(** * C01: offered paths under the reference router *)
Definition verdict_c01 (c : ncase) : N :=
  let t := case_topo c in
  let pk := case_packet c in
  let '(mtr, mend, mfin) := model_out t pk c in
  let mismatch :=
    negb (list_eqb tline_eqb mtr (c_trace c)) || negb (mend =? c_end c)
    || (negb (is_nil (c_fin c)) && negb (list_eqb N.eqb mfin (c_fin c))) in
  let '(rtr, rendv, _) := ref_out t pk c in
  (* the reference router delivers at the destination, crossing exactly the listed interfaces *)
  let rcross := flat_map (fun '(ia, i, e) => (if i =? 0 then [] else [(ia, i)]) ++ [(ia, e)]) rtr
                ++ match rendv, rev rtr with
                   | RDelivered ia, (pia, _, pe) :: _ =>
                     match scion_link t pia pe with
                     | Some l => match get_peer l pia with Some (_, i') => [(ia, i')] | None => [] end
                     | None => []
                     end
                   | _, _ => []
                   end in
  let ok := optN_eqb (rend_delivered rendv) (Some (c_dst c)) && list_eqb pairN_eqb rcross (c_meta c) in
  (* the reply over the reversed arrived path reaches the sender (reference router, model
     reversal), for every offered path -- also those the simulated router cannot carry *)
  let '(_, _, rpk) := ref_out t pk c in
  let back :=
    if c_kind c =? 0 then
      let rp := mkPkt (c_at c) (path_reverse (k_path rpk)) in
      let '(_, e2, _) := ref_sim hop_mac (S (length (c_hops c))) t (c_now c) (c_dst c) 0 rp in
      optN_eqb (rend_delivered e2) (Some (c_at c))
    else true in
  (* peering paths are assembled from code-built segments whose peer-entry MACs deviate from
     the specification: class of the open finding C01-peer-mac-over-beta-i (bit 16) *)
  let fail := negb (ok && back) in
  let known := fail && uses_peering (k_path pk) in
  (if mismatch then 1 else 0) + (if fail && negb known then 2 else 0) + (if known then 16 else 0)
  + (if back then 0 else 256).
Definition verdicts_c01 (cs : list ncase) : list N := map verdict_c01 cs.

(** * C01, last sentence: joinable segments imply an offered path (oracle on the
    implementation: real registry + real combinator) *)
Record jcase := mkJCase { j_src : N; j_dst : N; j_cores : list N; j_segs : list (list N); j_offered : N }.
Definition jverdict (c : jcase) : N :=
  (* [j_segs]: ALL segments of the topology (independent beaconing by the harness); a
     destination with AS number 0 is the wildcard "any core of the ISD" (then [j_offered]
     counts the segments the lookup lists) *)
  let wildcard := N.land (j_dst c) 281474976710655 =? 0 in
  let j := if wildcard
           then joinable_any (j_src c) (N.shiftr (j_dst c) 48) (j_cores c) (j_segs c)
                && negb (existsb (N.eqb (j_src c)) (j_cores c) && (N.shiftr (j_src c) 48 =? N.shiftr (j_dst c) 48))
           else joinable (j_src c) (j_dst c) (j_cores c) (j_segs c) in
  (if j && (j_offered c =? 0) then 2 else 0)
  (* diagnostics (ignored by the driver): 256 = not joinable by the specification's rules
     (then nothing is demanded), 512 = ... although paths are offered (peering-only routes) *)
  + (if j then 0 else 256) + (if negb j && negb (j_offered c =? 0) then 512 else 0).
Definition jverdicts (cs : list jcase) : list N := map jverdict cs.
