(** C13 -- property theorems only (router / simulator).  Each is closed by short glue from
    lemmas of [Proofs] and followed by [Print Assumptions].  The hop MAC is an arbitrary
    function: nothing below depends on cryptography. *)
From Sci Require Import Network.Model Network.Spec Network.Proofs.
Local Open Scope N_scope.

(** The simulator reaches a verdict after at most max(1, hops - current hop) AS steps, for
    every topology, packet, clock, injection point and MAC function; fuel of that size is
    enough (the real iterator has no fuel: this is its termination proof). *)
Theorem sim_terminates :
  forall (key : Type) (mac : key -> N -> N -> N -> N -> N -> N) (fuel : nat) (t : topology key)
         (now ia i : N) (pk : packet) tr e pk',
    sdk_sim mac fuel t now ia i pk = (tr, e, pk') ->
    (length tr <= Nat.max 1 (length (p_hops (k_path pk)) - p_ch (k_path pk)))%nat
    /\ ((Nat.max 1 (length (p_hops (k_path pk)) - p_ch (k_path pk)) <= fuel)%nat -> e <> EndFuel).
Proof. intros. eapply sdk_sim_bound; eauto. Qed.
Print Assumptions sim_terminates.

(** A packet is delivered locally only in the AS its destination address names. *)
Theorem deliver_only_at_dst :
  forall (key : Type) (mac : key -> N -> N -> N -> N -> N -> N) fuel (t : topology key)
         now ia i pk tr e pk',
    sdk_sim mac fuel t now ia i pk = (tr, e, pk') ->
    Forall (fun s => s_act s = ALocal -> s_ia s = k_dst pk) tr.
Proof. intros. eapply sdk_sim_dst; eauto. Qed.
Print Assumptions deliver_only_at_dst.

(** Every forwarding step leaves through an interface that is attached to an existing link
    of the forwarding AS, and that link is up. *)
Theorem forward_only_existing_up_link :
  forall (key : Type) (mac : key -> N -> N -> N -> N -> N -> N) fuel (t : topology key)
         now ia i pk tr e pk',
    sdk_sim mac fuel t now ia i pk = (tr, e, pk') ->
    Forall (fun s => forall eg, s_act s = AFwd eg ->
              exists ty l ia' if', iface_state t (s_ia s) eg = Some (ty, true)
                /\ scion_link t (s_ia s) eg = Some l /\ l_up l = true
                /\ get_peer l (s_ia s) = Some (ia', if')) tr.
Proof. intros. eapply sdk_sim_links; eauto. Qed.
Print Assumptions forward_only_existing_up_link.

(** The link-type table of [validate_segment_change] (regenerated from the source) equals
    the specification's list on all pairs that do not involve a peering link: valleys, core
    loops and splices are refused, the three valid crossovers accepted.
    PARTIAL: on the two pairs (child, peer) and (peer, child) the code accepts a segment
    change which the specification does not have (finding C13-peer-link-segment-change,
    [Findings.seg_change_peer_pairs_refuted]). *)
Theorem segment_change_table_partial :
  forall a b, involves_peer a b = false -> sdk_seg_change_ok a b = spec_seg_change_ok a b.
Proof. exact seg_change_table_nonpeer. Qed.
Print Assumptions segment_change_table_partial.

Theorem segment_change_refuses_valleys_loops_splices :
  sdk_seg_change_ok ToParent ToParent = false
  /\ sdk_seg_change_ok ToPeer ToParent = false
  /\ sdk_seg_change_ok ToCore ToCore = false
  /\ sdk_seg_change_ok ToParent ToChild = false
  /\ sdk_seg_change_ok ToChild ToParent = false
  /\ sdk_seg_change_ok ToParent ToCore = false /\ sdk_seg_change_ok ToCore ToParent = false.
Proof. exact seg_change_table_refuses_valleys_loops. Qed.
Print Assumptions segment_change_refuses_valleys_loops_splices.
