(** C13 -- property theorems only (router / simulator).  Each is closed by short glue from
    lemmas of [Proofs] and followed by [Print Assumptions].  The hop MAC is an arbitrary
    function: nothing below depends on cryptography. *)
From Sci Require Import Network.Model Network.Spec Network.Proofs Network.Proofs_Sound Network.Proofs_Complete.
Local Open Scope N_scope.

(** The simulator reaches a verdict after at most max(1, hops - current hop) AS steps, for
    every topology, packet, clock, injection point and MAC function; fuel of that size is
    enough (the real iterator has no fuel: this is its termination proof). *)
Theorem sim_terminates :
  forall (key : Type) (mac : key -> N -> N -> N -> N -> N -> N) (fuel : nat) (t : topology key)
         (now ia i : N) (pk : packet) tr e pk',
    sdk_sim mac fuel t now ia i pk = (tr, e, pk') ->
    (length tr <= Nat.max 1 (length (p_hops (k_path pk)) - p_ch (k_path pk)))%nat
    /\ ((Nat.max 1 (length (p_hops (k_path pk)) - p_ch (k_path pk)) <= fuel)%nat -> e <> EndFuel).
Proof. intros. eapply sdk_sim_bound; eauto. Qed.
Print Assumptions sim_terminates.

(** ... and packets with a one-hop path after at most two AS steps (any topology without
    interface 0). *)
Theorem sim_terminates_onehop :
  forall (key : Type) (mac : key -> N -> N -> N -> N -> N -> N) fuel (t : topology key) ia i pk tr e,
    wf_topo t = true ->
    sdk_onehop_sim mac fuel t ia i pk = (tr, e) ->
    (length tr <= 2)%nat /\ ((2 <= fuel)%nat -> e <> EndFuel).
Proof. intros. eapply sdk_onehop_bound; eauto. Qed.
Print Assumptions sim_terminates_onehop.

(** A packet is delivered locally only in the AS its destination address names. *)
Theorem deliver_only_at_dst :
  forall (key : Type) (mac : key -> N -> N -> N -> N -> N -> N) fuel (t : topology key)
         now ia i pk tr e pk',
    sdk_sim mac fuel t now ia i pk = (tr, e, pk') ->
    Forall (fun s => s_act s = ALocal -> s_ia s = k_dst pk) tr.
Proof. intros. eapply sdk_sim_dst; eauto. Qed.
Print Assumptions deliver_only_at_dst.

(** Every forwarding step leaves through an interface that is attached to an existing link
    of the forwarding AS, and that link is up. *)
Theorem forward_only_existing_up_link :
  forall (key : Type) (mac : key -> N -> N -> N -> N -> N -> N) fuel (t : topology key)
         now ia i pk tr e pk',
    sdk_sim mac fuel t now ia i pk = (tr, e, pk') ->
    Forall (fun s => forall eg, s_act s = AFwd eg ->
              exists ty l ia' if', iface_state t (s_ia s) eg = Some (ty, true)
                /\ scion_link t (s_ia s) eg = Some l /\ l_up l = true
                /\ get_peer l (s_ia s) = Some (ia', if')) tr.
Proof. intros. eapply sdk_sim_links; eauto. Qed.
Print Assumptions forward_only_existing_up_link.

(** The link-type table of [validate_segment_change] (regenerated from the source) equals
    the specification's list on all pairs that do not involve a peering link: valleys, core
    loops and splices are refused, the three valid crossovers accepted.
    PARTIAL: on the two pairs (child, peer) and (peer, child) the code accepts a segment
    change which the specification does not have (finding C13-peer-link-segment-change,
    [Findings.seg_change_peer_pairs_refuted]). *)
Theorem segment_change_table_partial :
  forall a b, involves_peer a b = false -> sdk_seg_change_ok a b = spec_seg_change_ok a b.
Proof. exact seg_change_table_nonpeer. Qed.
Print Assumptions segment_change_table_partial.

Theorem segment_change_refuses_valleys_loops_splices :
  sdk_seg_change_ok ToParent ToParent = false
  /\ sdk_seg_change_ok ToPeer ToParent = false
  /\ sdk_seg_change_ok ToCore ToCore = false
  /\ sdk_seg_change_ok ToParent ToChild = false
  /\ sdk_seg_change_ok ToChild ToParent = false
  /\ sdk_seg_change_ok ToParent ToCore = false /\ sdk_seg_change_ok ToCore ToParent = false.
Proof. exact seg_change_table_refuses_valleys_loops. Qed.
Print Assumptions segment_change_refuses_valleys_loops_splices.

(** Forwarding only by authentic, unexpired hop fields: whenever an AS forwards, the ingress
    half raised no validation error (interface, timestamp, expiry, MAC of the hop field the
    packet entered on; at a segment change also link types and the next hop field), and the
    hop field used at egress is authentic for this AS's key over the SegID carried at that
    moment, within its lifetime, and names the egress interface.  All packets, all MAC
    functions ([ignore_macs = false]). *)
Theorem forward_only_authentic_unexpired :
  forall (key : Type) (mac : key -> N -> N -> N -> N -> N -> N) (t : topology key)
         ia K now i pk e pk',
    sdk_route mac t ia K now i pk = (AFwd e, pk') ->
    exists p1 al ing act h inf,
      sdk_advance_ingress mac t ia K now i (k_path pk) = Ok (p1, al, ing, act, None)
      /\ nth_error (p_hops p1) (p_ch p1) = Some h /\ nth_error (p_infos p1) (p_ci p1) = Some inf
      /\ hop_egress h inf = e /\ hop_mac_ok mac K h inf = true /\ ref_time_ok now h inf = true.
Proof. intros. eapply sdk_fwd_authentic; eauto. Qed.
Print Assumptions forward_only_authentic_unexpired.

(** The lifetime the routers enforce is the specification's,
    [ts <= now <= ts + floor ((ExpTime + 1) * 337.5 s)] ([Spec.spec_time_ok], a literal):
    [ref_time_ok] is the reference router's check and, by the theorem above, what every hop
    field the SDK router forwards by satisfies; the second clause is the SDK validator's own pair
    of comparisons (future timestamp, [expiry_timestamp] before the clock).  Clocks are 32 bit. *)
Theorem lifetime_is_specified :
  forall now h i, (now <= 4294967295)%N ->
    ref_time_ok now h i = spec_time_ok now (i_ts i) (h_exp h)
    /\ ((now <? i_ts i) || (expiry_ts h i <? now))%N%bool = negb (spec_time_ok now (i_ts i) (h_exp h)).
Proof.
  intros now h i B.
  assert (E : ref_time_ok now h i = spec_time_ok now (i_ts i) (h_exp h)).
  { unfold ref_time_ok, spec_time_ok, spec_expiry.
    destruct (i_ts i <=? now)%N eqn:E1;
      destruct (2 * now <=? 2 * i_ts i + (h_exp h + 1) * 675)%N eqn:E2;
      destruct (now <=? 4294967295)%N eqn:E3;
      destruct (now <=? i_ts i + (h_exp h + 1) * 675 / 2)%N eqn:E4;
      cbn [andb]; try reflexivity; exfalso; lia. }
  split; [exact E|]. rewrite time_ok_iff, E. reflexivity.
Qed.
Print Assumptions lifetime_is_specified.

(** No over-acceptance, one AS step: outside the two open peering findings
    ([step_scope]: no PEERING flag in the path; a segment change only for a packet that came
    from a neighbour and not onto/from a peering link), whatever the SDK router forwards or
    delivers, the independently written reference router forwards over the same interface /
    delivers, leaving the identical packet.  All topologies without interface 0, all
    well-formed paths -- including packets spliced from authentic hop fields in any order --
    all clocks, keys and MAC functions. *)
Theorem sdk_sound_wrt_ref_step :
  forall (key : Type) (mac : key -> N -> N -> N -> N -> N -> N) (t : topology key)
         ia K now i pk,
    wf_topo t = true -> path_ok (k_path pk) -> step_scope t ia i (k_path pk) = true ->
    (forall e pk', sdk_route mac t ia K now i pk = (AFwd e, pk') ->
                   ref_step mac t ia K now i pk = RForward e pk')
    /\ (forall pk', sdk_route mac t ia K now i pk = (ALocal, pk') ->
                    ref_step mac t ia K now i pk = RDeliver pk').
Proof. intros. apply sdk_step_sound; assumption. Qed.
Print Assumptions sdk_sound_wrt_ref_step.

(** ... and whole runs: the links the simulator crosses are a prefix of the links the
    reference network crosses, and if the simulator delivers, the reference network delivers
    in the same AS, having crossed exactly the same links, with the identical packet. *)
Theorem sdk_sound_wrt_ref :
  forall (key : Type) (mac : key -> N -> N -> N -> N -> N -> N) fuel (t : topology key) now,
    wf_topo t = true ->
    forall ia i pk tr e pk',
      path_ok (k_path pk) -> run_scope mac fuel t now ia i pk = true ->
      sdk_sim mac fuel t now ia i pk = (tr, e, pk') ->
      forall rtr rend rpk, ref_sim mac fuel t now ia i pk = (rtr, rend, rpk) ->
      (exists more, rtr = fwd_of_steps tr ++ more)
      /\ (forall pre s, tr = pre ++ [s] -> s_act s = ALocal ->
            rtr = fwd_of_steps tr /\ rend = RDelivered (s_ia s) /\ rpk = pk').
Proof. intros. eapply sdk_sim_sound; eauto. Qed.
Print Assumptions sdk_sound_wrt_ref.

(** Completeness, one AS step: for paths without PEERING flag whose segments all have at
    least two hop fields (the SDK refuses single-hop segments by design) and with at most 64
    hop fields in all (the SDK refuses to advance the 6-bit CurrHF pointer past 63, routing.rs
    since 37d9551; the reference router has no such encoding limit), whatever the
    reference router forwards or delivers, the SDK router forwards over the same interface /
    delivers, leaving the identical packet.  Together with [sdk_sound_wrt_ref_step]: on these
    packets the two routers agree on every forwarding and delivery decision.  With peering
    the statement is false: [Findings.sdk_rejects_peering_refuted] (finding
    C13-peering-unsupported). *)
Theorem sdk_complete_wrt_ref_step :
  forall (key : Type) (mac : key -> N -> N -> N -> N -> N -> N) (t : topology key)
         ia K now i pk,
    wf_topo t = true -> lens_two (p_lens (k_path pk)) ->
    sum_nat (p_lens (k_path pk)) = length (p_hops (k_path pk)) ->
    (length (p_hops (k_path pk)) <= 64)%nat ->
    uses_peering (k_path pk) = false ->
    (forall e pk', ref_step mac t ia K now i pk = RForward e pk' ->
                   sdk_route mac t ia K now i pk = (AFwd e, pk'))
    /\ (forall pk', ref_step mac t ia K now i pk = RDeliver pk' ->
                    sdk_route mac t ia K now i pk = (ALocal, pk')).
Proof. intros. apply sdk_step_complete; assumption. Qed.
Print Assumptions sdk_complete_wrt_ref_step.

(** ... and whole runs: whenever the reference network delivers a packet (no PEERING flag,
    segments of at least two hop fields), the simulator reaches the verdict "deliver" in the
    same AS, having crossed exactly the same links, with the identical packet. *)
Theorem sdk_complete_wrt_ref :
  forall (key : Type) (mac : key -> N -> N -> N -> N -> N -> N) fuel (t : topology key) now,
    wf_topo t = true ->
    forall ia i pk rtr x rpk,
      lens_two (p_lens (k_path pk)) -> sum_nat (p_lens (k_path pk)) = length (p_hops (k_path pk)) ->
      (length (p_hops (k_path pk)) <= 64)%nat ->
      uses_peering (k_path pk) = false ->
      ref_sim mac fuel t now ia i pk = (rtr, RDelivered x, rpk) ->
      exists tr, sdk_sim mac fuel t now ia i pk = (tr, EndVerdict, rpk)
                 /\ fwd_of_steps tr = rtr
                 /\ exists pre il, tr = pre ++ [mkStep x il ALocal].
Proof. intros. eapply ref_sim_complete; eauto. Qed.
Print Assumptions sdk_complete_wrt_ref.

(** The scope of [sdk_sound_wrt_ref] in closed form: in every topology without peering links,
    for every packet without PEERING flag that is not injected from inside an AS directly at
    a segment change, the whole run is in scope -- so there the simulator never forwards or
    delivers what the reference network does not. *)
Theorem sdk_sound_wrt_ref_without_peering :
  forall (key : Type) (mac : key -> N -> N -> N -> N -> N -> N) fuel (t : topology key) now,
    wf_topo t = true -> no_peer_links t = true ->
    forall ia i pk tr e pk',
      path_ok (k_path pk) -> uses_peering (k_path pk) = false -> start_scope i (k_path pk) = true ->
      sdk_sim mac fuel t now ia i pk = (tr, e, pk') ->
      forall rtr rend rpk, ref_sim mac fuel t now ia i pk = (rtr, rend, rpk) ->
      (exists more, rtr = fwd_of_steps tr ++ more)
      /\ (forall pre s, tr = pre ++ [s] -> s_act s = ALocal ->
            rtr = fwd_of_steps tr /\ rend = RDelivered (s_ia s) /\ rpk = pk').
Proof.
  intros key mac fuel t now W NP ia i pk tr e pk' P Sp St H rtr rend rpk R.
  eapply sdk_sim_sound; eauto. apply run_scope_global; assumption.
Qed.
Print Assumptions sdk_sound_wrt_ref_without_peering.
