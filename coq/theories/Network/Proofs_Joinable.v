(** Network area, C01 (last sentence): segments that can be joined into a route yield a valid
    combination in the sense of the combinator's specification ([Combine.SpecRules]), hence --
    by [Combine.Props_C04.combine_complete] -- an offered path; and the [ListSegmentPlan]
    table requests every kind of segment such a route can need. *)
From Coq Require Import Lia.
From Sci Require Import Gen.NetworkPlan Network.Model Network.Spec.
From Sci Require Import Combine.Model Combine.Spec Combine.Obs Combine.Proofs Combine.ProofsC19 Combine.ProofsC04 Combine.ProofsMeta Combine.ProofsPath Combine.ProofsWF Combine.SpecRules Combine.ProofsSound Combine.ProofsIfaces Combine.ProofsOrder Combine.ProofsComplete Combine.ProofsGraph Combine.Props_C04.
Local Open Scope N_scope.

(** * the lookup plan *)
Definition plan_row (ctx srck dstk : N) : option (bool * bool * bool) :=
  match find (fun '(c, s, d, _, _, _) => (c =? ctx) && (s =? srck) && (d =? dstk)) list_segment_plan_rows with
  | Some (_, _, _, u, c, d) => Some (u, c, d)
  | None => None
  end.
Definition requested (r : bool * bool * bool) (c : seg_class) : bool :=
  let '(u, co, d) := r in match c with Up => u | CoreS => co | Down => d end.

Lemma plan_covers_all :
  forallb (fun ctx => forallb (fun srck => forallb (fun dstk =>
    match plan_row ctx srck dstk with
    | Some r => forallb (fun p => forallb (requested r) p) (needed_lookups ctx srck dstk)
    | None => false
    end) [0; 1; 2]) [0; 1]) [0; 1; 2] = true.
Proof. vm_compute. reflexivity. Qed.

Lemma plan_covers_lemma ctx srck dstk p c :
  In ctx [0; 1; 2] -> In srck [0; 1] -> In dstk [0; 1; 2] ->
  In p (needed_lookups ctx srck dstk) -> In c p ->
  exists r, plan_row ctx srck dstk = Some r /\ requested r c = true.
Proof.
  intros Hc Hs Hd Hp Hcl. pose proof plan_covers_all as A.
  rewrite forallb_forall in A. specialize (A ctx Hc).
  rewrite forallb_forall in A. specialize (A srck Hs).
  rewrite forallb_forall in A. specialize (A dstk Hd).
  destruct (plan_row ctx srck dstk) as [r|]; [|discriminate]. exists r. split; [reflexivity|].
  rewrite forallb_forall in A. specialize (A p Hp). rewrite forallb_forall in A. exact (A c Hcl).
Qed.

(** * joinable segments give a valid combination *)
Section J.
Variables cores non_cores : list segment.

(** climb non-core segment [u] from its leaf [a] up to entry [i], the AS [x] *)
Definition up_to (u : segment) (i : nat) (x a : N) : Prop :=
  In u non_cores /\ last_ia u = Some a /\ S i <> seg_len u
  /\ exists ae, nth_error (sg_entries u) i = Some ae /\ ae_ia ae = x.
(** descend non-core segment [d] from entry [j], the AS [x], to its leaf [b] *)
Definition down_from (d : segment) (j : nat) (x b : N) : Prop :=
  In d non_cores /\ last_ia d = Some b /\ S j <> seg_len d
  /\ exists ae, nth_error (sg_entries d) j = Some ae /\ ae_ia ae = x.
(** core segment [c] joins the core ASes [a] and [b], in either direction *)
Definition core_joins (c : segment) (a b : N) : Prop :=
  In c cores /\ ((first_ia c = Some a /\ last_ia c = Some b) \/ (last_ia c = Some a /\ first_ia c = Some b)).

(** a route from [src] to [dst] exists over the known segments (peering links aside):
    on one non-core segment; over a core segment; up and down through a common AS (a core, or
    below it: shortcut); up, core; core, down; up, core, down *)
Definition Joinable (src dst : N) : Prop :=
  (exists u i, up_to u i dst src)
  \/ (exists d j, down_from d j src dst)
  \/ (exists c, core_joins c src dst)
  \/ (exists u i d j x, up_to u i x src /\ down_from d j x dst)
  \/ (exists u i a c, up_to u i a src /\ core_joins c a dst)
  \/ (exists c a d j, core_joins c src a /\ down_from d j a dst)
  \/ (exists u i a c b d j, up_to u i a src /\ core_joins c a b /\ down_from d j b dst).

Lemma up_use u i x a : up_to u i x a ->
  ValidUse (mkUse NonCore u i None Against) (JAS a) (JAS x) /\ from_input cores non_cores (mkUse NonCore u i None Against).
Proof.
  intros (Hin & Hl & Hn & ae & Hae & Hx). split; [|exact Hin].
  exists a, ae. cbn. subst x. repeat split; auto; discriminate.
Qed.
Lemma down_use d j x b : down_from d j x b ->
  ValidUse (mkUse NonCore d j None Along) (JAS x) (JAS b) /\ from_input cores non_cores (mkUse NonCore d j None Along).
Proof.
  intros (Hin & Hl & Hn & ae & Hae & Hx). split; [|exact Hin].
  exists b, ae. cbn. subst x. repeat split; auto; discriminate.
Qed.
Lemma core_use c a b : core_joins c a b ->
  exists dir, ValidUse (mkUse Core c 0 None dir) (JAS a) (JAS b) /\ from_input cores non_cores (mkUse Core c 0 None dir).
Proof.
  intros (Hin & [(Hf & Hl)|(Hl & Hf)]); unfold first_ia in Hf;
    destruct (sg_entries c) as [|ae r] eqn:E; try discriminate; cbn in Hf; inversion Hf; subst.
  - exists Along. split; [|exact Hin]. exists b, ae. split; [exact Hl|]. split; [cbn; rewrite E; reflexivity|].
    cbn. repeat split; auto; discriminate.
  - exists Against. split; [|exact Hin]. exists a, ae. split; [exact Hl|]. split; [cbn; rewrite E; reflexivity|].
    cbn. repeat split; auto; discriminate.
Qed.

Lemma joinable_valid src dst : Joinable src dst ->
  exists uses, ValidCombination cores non_cores src dst uses.
Proof.
  intros [(u & i & H)|[(d & j & H)|[(c & H)|[(u & i & d & j & x & H1 & H2)|[(u & i & a & c & H1 & H2)
         |[(c & a & d & j & H1 & H2)|(u & i & a & c & b & d & j & H1 & H2 & H3)]]]]]].
  - destruct (up_use _ _ _ _ H) as (V & F). eexists [_]. split; [exact I|]. split; [constructor; [exact F|constructor]|].
    cbn [Chained]. eexists. split; [exact V|reflexivity].
  - destruct (down_use _ _ _ _ H) as (V & F). eexists [_]. split; [exact I|]. split; [constructor; [exact F|constructor]|].
    cbn [Chained]. eexists. split; [exact V|reflexivity].
  - destruct (core_use _ _ _ H) as (dir & V & F). eexists [_]. split; [exact I|]. split; [constructor; [exact F|constructor]|].
    cbn [Chained]. eexists. split; [exact V|reflexivity].
  - destruct (up_use _ _ _ _ H1) as (V1 & F1). destruct (down_use _ _ _ _ H2) as (V2 & F2).
    exists [mkUse NonCore u i None Against; mkUse NonCore d j None Along]. split; [unfold kinds_allowed; cbn; auto|]. split; [repeat constructor; assumption|].
    cbn [Chained]. eexists. split; [exact V1|]. eexists. split; [exact V2|reflexivity].
  - destruct (up_use _ _ _ _ H1) as (V1 & F1). destruct (core_use _ _ _ H2) as (dir & V2 & F2).
    exists [mkUse NonCore u i None Against; mkUse Core c 0 None dir]. split; [unfold kinds_allowed; cbn; auto|]. split; [repeat constructor; assumption|].
    cbn [Chained]. eexists. split; [exact V1|]. eexists. split; [exact V2|reflexivity].
  - destruct (core_use _ _ _ H1) as (dir & V1 & F1). destruct (down_use _ _ _ _ H2) as (V2 & F2).
    exists [mkUse Core c 0 None dir; mkUse NonCore d j None Along]. split; [unfold kinds_allowed; cbn; auto|]. split; [repeat constructor; assumption|].
    cbn [Chained]. eexists. split; [exact V1|]. eexists. split; [exact V2|reflexivity].
  - destruct (up_use _ _ _ _ H1) as (V1 & F1). destruct (core_use _ _ _ H2) as (dir & V2 & F2).
    destruct (down_use _ _ _ _ H3) as (V3 & F3).
    exists [mkUse NonCore u i None Against; mkUse Core c 0 None dir; mkUse NonCore d j None Along]. split; [unfold kinds_allowed; cbn; auto|]. split; [repeat constructor; assumption|].
    cbn [Chained]. eexists. split; [exact V1|]. eexists. split; [exact V2|]. eexists. split; [exact V3|reflexivity].
Qed.
End J.

(** * ... hence an offered path *)
Lemma joinable_offered_lemma Hid Hfp ord_v ord_e src dst cores non_cores out :
  order_ok ord_v ord_e -> wf_input cores non_cores ->
  combine_paths Hid Hfp ord_v ord_e src dst cores non_cores = Ok out -> src <> dst ->
  Joinable cores non_cores src dst ->
  exists uses l,
    ValidCombination cores non_cores src dst uses /\ Forall2 (EdgeOfUse Hid) l uses
    /\ forall p, sol_path Hfp (mkSol l (VAS dst) (edges_weight l)) = Ok (Some p) ->
                 has_loops p = Ok false -> out <> [].
Proof.
  intros Ho Hw Hc Hne HJ. destruct (joinable_valid _ _ _ _ HJ) as (uses & HV).
  destruct (combine_complete Hid Hfp ord_v ord_e src dst cores non_cores out uses Ho Hw Hc Hne HV) as (l & Hl & Hp).
  exists uses, l. refine (conj HV (conj Hl _)). intros p Hs Hloop.
  destruct (Hp p Hs) as (_ & Hq). destruct (Hq Hloop) as (q & Hin & _).
  intros E. rewrite E in Hin. exact Hin.
Qed.

(** * a decision procedure for [Joinable] (the shape of the harness oracle [Spec.joinable],
    on the combinator's segment type) *)
Definition ias (s : segment) : list N := map ae_ia (sg_entries s).
Definition leaf_is (s : segment) (a : N) : bool := match last_ia s with Some x => x =? a | None => false end.
Definition first_is (s : segment) (a : N) : bool := match first_ia s with Some x => x =? a | None => false end.
Definition cjoin (cores non_cores : list segment) (src dst : N) : bool :=
  let ups := filter (fun s => leaf_is s src) non_cores in
  let downs := filter (fun s => leaf_is s dst) non_cores in
  let cj a b := existsb (fun c => (first_is c a && leaf_is c b) || (leaf_is c a && first_is c b)) cores in
  existsb (fun u => memN dst (ias u)) ups
  || existsb (fun d => memN src (ias d)) downs
  || cj src dst
  || existsb (fun u => existsb (fun d => existsb (fun x => negb (x =? src) && negb (x =? dst) && memN x (ias d)) (ias u)) downs) ups
  || existsb (fun u => existsb (fun a => negb (a =? src) && cj a dst) (ias u)) ups
  || existsb (fun d => existsb (fun a => negb (a =? dst) && cj src a) (ias d)) downs
  || existsb (fun u => existsb (fun a => negb (a =? src) &&
        existsb (fun d => existsb (fun b => negb (b =? dst) && cj a b) (ias d)) downs) (ias u)) ups.

Lemma memN_nth x (s : segment) : memN x (ias s) = true ->
  exists i ae, nth_error (sg_entries s) i = Some ae /\ ae_ia ae = x.
Proof.
  unfold memN, ias. intros H. apply existsb_exists in H. destruct H as (y & Hin & E).
  apply N.eqb_eq in E. subst y. apply in_map_iff in Hin. destruct Hin as (ae & Hx & Hin).
  apply In_nth_error in Hin. destruct Hin as (i & Hi). eauto.
Qed.

Lemma in_ias_nth x (s : segment) : In x (ias s) ->
  exists i ae, nth_error (sg_entries s) i = Some ae /\ ae_ia ae = x.
Proof.
  intros H. apply memN_nth. unfold memN. apply existsb_exists. exists x. split; [exact H|apply N.eqb_refl].
Qed.

Lemma last_entry_leaf (s : segment) i ae :
  nth_error (sg_entries s) i = Some ae -> S i = seg_len s -> last_ia s = Some (ae_ia ae).
Proof.
  unfold seg_len, last_ia. intros H L.
  assert (E : sg_entries s = firstn i (sg_entries s) ++ [ae]).
  { rewrite <- (firstn_skipn i (sg_entries s)) at 1. f_equal.
    pose proof (nth_error_split _ _ H) as (l1 & l2 & E1 & E2).
    rewrite E1. rewrite <- E2. rewrite skipn_app, skipn_all, Nat.sub_diag. cbn.
    assert (l2 = []). { rewrite E1, app_length in L. cbn in L. destruct l2; [reflexivity|cbn in L; lia]. }
    subst l2. reflexivity. }
  rewrite E, rev_app_distr. reflexivity.
Qed.

Lemma not_leaf_idx (s : segment) i ae a :
  nth_error (sg_entries s) i = Some ae -> last_ia s = Some a -> ae_ia ae <> a -> S i <> seg_len s.
Proof. intros H L N E. rewrite (last_entry_leaf s i ae H E) in L. inversion L. contradiction. Qed.

Lemma leaf_is_true s a : leaf_is s a = true -> last_ia s = Some a.
Proof. unfold leaf_is. destruct (last_ia s); [|discriminate]. intros E. apply N.eqb_eq in E. congruence. Qed.
Lemma first_is_true s a : first_is s a = true -> first_ia s = Some a.
Proof. unfold first_is. destruct (first_ia s); [|discriminate]. intros E. apply N.eqb_eq in E. congruence. Qed.

Lemma cj_joins cores a b :
  existsb (fun c => (first_is c a && leaf_is c b) || (leaf_is c a && first_is c b)) cores = true ->
  exists c, core_joins cores c a b.
Proof.
  intros H. apply existsb_exists in H. destruct H as (c & Hin & E). exists c. split; [exact Hin|].
  apply orb_true_iff in E. destruct E as [E|E]; apply andb_true_iff in E; destruct E as (E1 & E2).
  - left. split; [apply first_is_true|apply leaf_is_true]; assumption.
  - right. split; [apply leaf_is_true|apply first_is_true]; assumption.
Qed.

Lemma cjoin_joinable cores non_cores src dst :
  src <> dst -> cjoin cores non_cores src dst = true -> Joinable cores non_cores src dst.
Proof.
  intros Hne H. unfold cjoin in H. cbv zeta in H.
  repeat (apply orb_true_iff in H; destruct H as [H|H]).
  - (* dst on an up segment of src *)
    apply existsb_exists in H. destruct H as (u & Hu & Hm). apply filter_In in Hu. destruct Hu as (Hin & Hl).
    apply leaf_is_true in Hl. destruct (memN_nth _ _ Hm) as (i & ae & Hi & Hx).
    left. exists u, i. refine (conj Hin (conj Hl (conj _ _))); [|eauto].
    eapply not_leaf_idx; eauto. congruence.
  - apply existsb_exists in H. destruct H as (d & Hd & Hm). apply filter_In in Hd. destruct Hd as (Hin & Hl).
    apply leaf_is_true in Hl. destruct (memN_nth _ _ Hm) as (j & ae & Hj & Hx).
    right; left. exists d, j. refine (conj Hin (conj Hl (conj _ _))); [|eauto].
    eapply not_leaf_idx; eauto. congruence.
  - right; right; left. apply cj_joins. exact H.
  - apply existsb_exists in H. destruct H as (u & Hu & H). apply filter_In in Hu. destruct Hu as (Hin & Hl). apply leaf_is_true in Hl.
    apply existsb_exists in H. destruct H as (d & Hd & H). apply filter_In in Hd. destruct Hd as (Hind & Hld). apply leaf_is_true in Hld.
    apply existsb_exists in H. destruct H as (x & Hxu & H).
    apply andb_true_iff in H. destruct H as (H & Hxd). apply andb_true_iff in H. destruct H as (N1 & N2).
    apply negb_true_iff in N1, N2. apply N.eqb_neq in N1, N2.
    destruct (in_ias_nth _ _ Hxu) as (i & ae & Hi & Hx). destruct (memN_nth _ _ Hxd) as (j & ae2 & Hj & Hx2).
    right; right; right; left. exists u, i, d, j, x. split.
    + refine (conj Hin (conj Hl (conj _ _))); [|eauto]. eapply not_leaf_idx; eauto. congruence.
    + refine (conj Hind (conj Hld (conj _ _))); [|eauto]. eapply not_leaf_idx; eauto. congruence.
  - apply existsb_exists in H. destruct H as (u & Hu & H). apply filter_In in Hu. destruct Hu as (Hin & Hl). apply leaf_is_true in Hl.
    apply existsb_exists in H. destruct H as (a & Hau & H). apply andb_true_iff in H. destruct H as (N1 & Hc).
    apply negb_true_iff in N1. apply N.eqb_neq in N1.
    destruct (in_ias_nth _ _ Hau) as (i & ae & Hi & Hx). destruct (cj_joins _ _ _ Hc) as (c & Hcj).
    right; right; right; right; left. exists u, i, a, c. split; [|exact Hcj].
    refine (conj Hin (conj Hl (conj _ _))); [|eauto]. eapply not_leaf_idx; eauto. congruence.
  - apply existsb_exists in H. destruct H as (d & Hd & H). apply filter_In in Hd. destruct Hd as (Hin & Hl). apply leaf_is_true in Hl.
    apply existsb_exists in H. destruct H as (a & Had & H). apply andb_true_iff in H. destruct H as (N1 & Hc).
    apply negb_true_iff in N1. apply N.eqb_neq in N1.
    destruct (in_ias_nth _ _ Had) as (j & ae & Hj & Hx). destruct (cj_joins _ _ _ Hc) as (c & Hcj).
    right; right; right; right; right; left. exists c, a, d, j. split; [exact Hcj|].
    refine (conj Hin (conj Hl (conj _ _))); [|eauto]. eapply not_leaf_idx; eauto. congruence.
  - apply existsb_exists in H. destruct H as (u & Hu & H). apply filter_In in Hu. destruct Hu as (Hin & Hl). apply leaf_is_true in Hl.
    apply existsb_exists in H. destruct H as (a & Hau & H). apply andb_true_iff in H. destruct H as (N1 & H).
    apply negb_true_iff in N1. apply N.eqb_neq in N1.
    apply existsb_exists in H. destruct H as (d & Hd & H). apply filter_In in Hd. destruct Hd as (Hind & Hld). apply leaf_is_true in Hld.
    apply existsb_exists in H. destruct H as (b & Hbd & H). apply andb_true_iff in H. destruct H as (N2 & Hc).
    apply negb_true_iff in N2. apply N.eqb_neq in N2.
    destruct (in_ias_nth _ _ Hau) as (i & ae & Hi & Hx). destruct (in_ias_nth _ _ Hbd) as (j & ae2 & Hj & Hx2).
    destruct (cj_joins _ _ _ Hc) as (c & Hcj).
    right; right; right; right; right; right. exists u, i, a, c, b, d, j. split; [|split; [exact Hcj|]].
    + refine (conj Hin (conj Hl (conj _ _))); [|eauto]. eapply not_leaf_idx; eauto. congruence.
    + refine (conj Hind (conj Hld (conj _ _))); [|eauto]. eapply not_leaf_idx; eauto. congruence.
Qed.

(** non-vacuity: up-segment 1 -> 2 and down-segment 1 -> 3 join at the core AS 1 *)
Example cjoin_example :
  let up := mkSeg 1700000000 7 [mkAE 1 2 1400 0 (mkHF 63 0 1 11) []; mkAE 2 0 1400 1400 (mkHF 63 1 0 12) []] in
  let down := mkSeg 1700000000 9 [mkAE 1 3 1400 0 (mkHF 63 0 2 13) []; mkAE 3 0 1400 1400 (mkHF 63 1 0 14) []] in
  cjoin [] [up; down] 2 3 = true /\ cjoin [] [up] 2 3 = false.
Proof. vm_compute. split; reflexivity. Qed.
