(** Network area (C01, C13): executable model, no proofs.

    STRUCTURAL level: a standard path is a list of segment lengths, a list of info fields and a
    list of hop fields plus the two pointers -- not bytes.  The byte-level view (bit ranges,
    meta header, malformed encodings) is the business of [StdPath]; a bridge lemma
    "decode (advance_ingress bytes) = sdk_advance_ingress (decode bytes)" belongs there
    (see the note at [sdk_advance_ingress]).

    Two routers over the same packet type:
    - [sdk_route] / [sdk_sim]: statement-by-statement model of what the SDK does
      (sciparse [advance_ingress_with_validator] / [advance_egress_with_validator],
      pocketscion [StandardValidator], [StdRoutingLogic::handle_standard_path],
      [SpecRoutingLogic::route], [ScionNetworkSimIter::next_step]);
    - [ref_step] / [ref_sim]: the reference router, written from the SCION data-plane
      rules (border-router processing: ingress check, expiry, SegID update per direction,
      MAC verification, peering hops, segment crossover incl. shortcuts, egress lookup,
      local delivery), independent of the SDK's routing code.

    The hop MAC is a [Section] variable; [Cases] instantiates it with AES-CMAC ([Aes]). *)
From Sci Require Export Common.Outcome.
From Sci Require Import Gen.NetworkTables.
Local Open Scope N_scope.

(** * Topology *)

(** [ScionLinkType]: "the first end IS <type> OF the second end" *)
Inductive slt := SPeer | SParent | SChild | SCore.
(** [AsRoutingLinkType]: "this interface is a link TO a <type>" *)
Inductive rlt := ToCore | ToParent | ToChild | ToPeer.

Definition slt_swap (x : slt) : slt :=
  match x with SPeer => SPeer | SParent => SChild | SChild => SParent | SCore => SCore end.
Definition slt_code (x : slt) : N :=
  match x with SPeer => 0 | SParent => 1 | SChild => 2 | SCore => 3 end.
Definition rlt_code (x : rlt) : N :=
  match x with ToCore => 0 | ToParent => 1 | ToChild => 2 | ToPeer => 3 end.
Definition rlt_of_code (c : N) : rlt :=
  match c with 0 => ToCore | 1 => ToParent | 2 => ToChild | _ => ToPeer end.
(** the closure in [next_step]: table regenerated from simulator.rs *)
Definition slt_to_rlt (x : slt) : rlt :=
  rlt_of_code (match find (fun '(a, _) => a =? slt_code x) sim_link_type_map with
               | Some (_, b) => b | None => 3 end).

Record link := mkLink {
  l_a : N; l_aif : N; l_ty : slt; l_b : N; l_bif : N; l_up : bool }.

Section Keyed.
Context {key : Type}.

Record asrec := mkAs { a_ia : N; a_core : bool; a_key : key }.
Record topology := mkTopo { t_ases : list asrec; t_links : list link }.

Definition find_as (t : topology) (ia : N) : option asrec :=
  find (fun a => a_ia a =? ia) (t_ases t).

(** [ScionTopology::scion_link] *)
Definition scion_link (t : topology) (ia ifid : N) : option link :=
  find (fun l => ((l_aif l =? ifid) && (l_a l =? ia)) || ((l_bif l =? ifid) && (l_b l =? ia)))
       (t_links t).
Definition get_link_type (l : link) (ia : N) : option slt :=
  if l_a l =? ia then Some (l_ty l)
  else if l_b l =? ia then Some (slt_swap (l_ty l)) else None.
Definition get_peer (l : link) (ia : N) : option (N * N) :=
  if l_a l =? ia then Some (l_b l, l_bif l)
  else if l_b l =? ia then Some (l_a l, l_aif l) else None.

(** the interface lookup closure handed to the routing logic *)
Definition iface_state (t : topology) (ia ifid : N) : option (rlt * bool) :=
  match scion_link t ia ifid with
  | None => None
  | Some l => match get_link_type l ia with
              | None => None
              | Some ty => Some (slt_to_rlt ty, l_up l)
              end
  end.

(** * Packets *)

Record hopf := mkHop {
  h_ain : bool;   (* CONS_INGRESS_ROUTER_ALERT *)
  h_aeg : bool;   (* CONS_EGRESS_ROUTER_ALERT *)
  h_exp : N; h_in : N; h_eg : N;
  h_mac : N       (* 6 bytes, big endian *) }.
Record infof := mkInfo { i_peer : bool; i_cons : bool; i_segid : N; i_ts : N }.
Record path := mkPath {
  p_ci : nat; p_ch : nat; p_lens : list nat; p_infos : list infof; p_hops : list hopf }.
Record packet := mkPkt { k_dst : N; k_path : path }.

(** structural well-formedness: what a decoded standard path always satisfies *)
Definition wf_path (p : path) : bool :=
  (length (p_lens p) =? length (p_infos p))%nat
  && (fold_right Nat.add 0%nat (p_lens p) =? length (p_hops p))%nat
  && forallb (fun l => (1 <=? l)%nat) (p_lens p)
  && (1 <=? length (p_lens p))%nat && (length (p_lens p) <=? 3)%nat.

Definition set_segid (i : infof) (s : N) : infof := mkInfo (i_peer i) (i_cons i) s (i_ts i).
Definition set_ain (h : hopf) (b : bool) : hopf :=
  mkHop b (h_aeg h) (h_exp h) (h_in h) (h_eg h) (h_mac h).
Definition set_aeg (h : hopf) (b : bool) : hopf :=
  mkHop (h_ain h) b (h_exp h) (h_in h) (h_eg h) (h_mac h).

Definition upd {A} (l : list A) (i : nat) (x : A) : list A :=
  match skipn i l with
  | [] => l
  | _ :: r => firstn i l ++ x :: r
  end.

(** [HopFieldView::ingress_interface] / [egress_interface] *)
Definition hop_ingress (h : hopf) (i : infof) : N := if i_cons i then h_in h else h_eg h.
Definition hop_egress (h : hopf) (i : infof) : N := if i_cons i then h_eg h else h_in h.
(** [mac_beta_step]: SegID xor first two MAC bytes *)
Definition beta_step (segid m : N) : N := N.lxor segid ((m / 4294967296) mod 65536).
(** [expiry_timestamp]: ts + floor((exp+1) * 337.5 s), saturating at u32::MAX *)
Definition expiry_ts (h : hopf) (i : infof) : N :=
  N.min (i_ts i + ((h_exp h + 1) * 675) / 2) 4294967295.

(** [_calculate_segment_index] *)
Fixpoint seg_index_aux (lens : list nat) (agg idx h : nat) : option (nat * bool * bool) :=
  match lens with
  | [] => None
  | l :: r =>
    if (h <? agg + l)%nat then Some (idx, (h =? agg)%nat, (S h =? agg + l)%nat)
    else seg_index_aux r (agg + l)%nat (S idx) h
  end.
Definition seg_index (lens : list nat) (h : nat) := seg_index_aux lens 0 0 h.

(** * The SDK router *)

Variable mac : key -> N -> N -> N -> N -> N -> N.   (* key beta ts exp cons_in cons_eg *)

(** [StandardRoutingError] *)
Inductive serr :=
| EAdvance
| EInvalidIngress (cons : bool) | EInvalidEgress (cons : bool)
| EFuture | EExpired
| EUnknownIngress (cons : bool) | EUnknownEgress (cons : bool)
| EMac | ESegChange | EIfDown (ifid : N) | EAlert.

Definition hop_mac_ok (K : key) (h : hopf) (i : infof) : bool :=
  h_mac h =? mac K (i_segid i) (i_ts i) (h_exp h) (h_in h) (h_eg h).

(** [StandardValidator::validate_hop] (ignore_macs = false).
    [after_change]: this call follows a successful [validate_segment_change] of the same
    validator (the REPAIRED code records that in a [Cell]); see known_findings/C13.json. *)
Definition sdk_validate_hop (ingress : bool) (after_change : bool) (cur_if now : N) (K : key)
           (h : hopf) (i : infof) : option serr :=
  let ing := hop_ingress h i in
  let eg := hop_egress h i in
  if ingress && negb after_change && negb (cur_if =? 0) && negb (ing =? cur_if)
  then Some (EInvalidIngress (i_cons i))
  else if negb ingress && negb (eg =? cur_if) then Some (EInvalidEgress (i_cons i))
  else if now <? i_ts i then Some EFuture
  else if expiry_ts h i <? now then Some EExpired
  else if negb (hop_mac_ok K h i) then Some EMac
  else None.

(** the link-type match of [validate_segment_change]: table regenerated from standard.rs *)
Definition sdk_seg_change_ok (a b : rlt) : bool :=
  match find (fun '(x, y, _) => (x =? rlt_code a) && (y =? rlt_code b)) seg_change_arms with
  | Some (_, _, v) => v
  | None => seg_change_default
  end.

(** [StandardValidator::validate_segment_change] *)
Definition sdk_validate_seg_change (t : topology) (ia : N)
           (h : hopf) (i : infof) (nh : hopf) (ni : infof) : option serr :=
  let cur_ing := hop_ingress h i in
  let nxt_eg := hop_egress nh ni in
  if (if i_cons i then h_aeg h else h_ain h) then Some EAlert       (* egress alert of current *)
  else if (if i_cons ni then h_ain nh else h_aeg nh) then Some EAlert (* ingress alert of next *)
  else match iface_state t ia cur_ing with
       | None => Some (EUnknownIngress (i_cons i))
       | Some (lin, _) =>
         match iface_state t ia nxt_eg with
         | None => Some (EUnknownEgress (i_cons ni))
         | Some (lout, _) => if sdk_seg_change_ok lin lout then None else Some ESegChange
         end
       end.

Definition or_else {A} (a : option A) (b : option A) : option A :=
  match a with Some _ => a | None => b end.

(** result of [advance_ingress_with_validator]:
    [Err tt] = [AdvanceError] (path untouched); otherwise the committed path, the alert
    flag, the ingress interface by the packet, [Some egress] = ContinueEgress / [None] =
    ForwardLocal, and the validation error if any.  [Panic] = the [unreachable!] arm.
    BRIDGE (StdPath): on every byte string [b] accepted by the view constructor whose
    decoding [d] satisfies [wf_path], the byte-level advance equals this function on [d]. *)
Definition sdk_advance_ingress (t : topology) (ia : N) (K : key) (now cur_if : N) (p : path)
  : outcome (path * bool * N * option N * option serr) unit :=
  let n := length (p_hops p) in
  match seg_index (p_lens p) (p_ch p) with
  | None => Err tt
  | Some (seg, st, en) =>
    if st && en then Err tt
    else if negb (seg =? p_ci p)%nat then Err tt
    else
      let final := (n <=? p_ch p + 1)%nat in
      match nth_error (p_hops p) (p_ch p), nth_error (p_infos p) (p_ci p) with
      | Some h, Some inf =>
        let from_internal := cur_if =? 0 in
        let cur_ing := hop_ingress h inf in
        let cons := i_cons inf in
        let inf1 := if negb from_internal && negb cons
                    then set_segid inf (beta_step (i_segid inf) (h_mac h)) else inf in
        let verr := sdk_validate_hop true false cur_if now K h inf1 in
        let alert := if cons then h_ain h else h_aeg h in
        let h1 := if negb from_internal && alert
                  then (if cons then set_ain h false else set_aeg h false) else h in
        let commit (ci' ch' : nat) :=
            mkPath ci' ch' (p_lens p) (upd (p_infos p) (p_ci p) inf1) (upd (p_hops p) (p_ch p) h1) in
        match final, en with
        | true, true => Ok (commit (p_ci p) (p_ch p), alert, cur_ing, None, verr)
        | false, false =>
          Ok (commit (p_ci p) (p_ch p), alert, cur_ing, Some (hop_egress h1 inf1), verr)
        | false, true =>
          (* the advanced index must fit the 6-bit CurrHF field (routing.rs since 37d9551) *)
          if (63 <? S (p_ch p))%nat then Err tt else
          match nth_error (p_hops p) (S (p_ch p)), nth_error (p_infos p) (S seg) with
          | Some nh, Some ninf =>
            let verr := or_else verr (sdk_validate_seg_change t ia h1 inf1 nh ninf) in
            let eg := hop_egress nh ninf in
            let verr := or_else verr (sdk_validate_hop true true cur_if now K nh ninf) in
            Ok (commit (S seg) (S (p_ch p)), alert, cur_ing, Some eg, verr)
          | _, _ => Err tt
          end
        | true, false => Panic 1
        end
      | _, _ => Err tt
      end
  end.

(** [advance_egress_with_validator]: committed path, alert flag, egress interface, error *)
Definition sdk_advance_egress (K : key) (now eg_if : N) (p : path)
  : outcome (path * bool * N * option serr) unit :=
  let n := length (p_hops p) in
  match seg_index (p_lens p) (p_ch p) with
  | None => Err tt
  | Some (seg, st, en) =>
    if negb (seg =? p_ci p)%nat then Err tt
    else
      match nth_error (p_hops p) (p_ch p), nth_error (p_infos p) (p_ci p) with
      | Some h, Some inf =>
        if (n <=? p_ch p + 1)%nat then Err tt
        else if (63 <? S (p_ch p))%nat then Err tt     (* CurrHF must not wrap *)
        else if en then Err tt
        else
          let cons := i_cons inf in
          let verr := sdk_validate_hop false false eg_if now K h inf in
          let inf1 := if cons then set_segid inf (beta_step (i_segid inf) (h_mac h)) else inf in
          let alert := if cons then h_aeg h else h_ain h in
          let h1 := if alert then (if cons then set_aeg h false else set_ain h false) else h in
          Ok (mkPath (p_ci p) (S (p_ch p)) (p_lens p)
                     (upd (p_infos p) (p_ci p) inf1) (upd (p_hops p) (p_ch p) h1),
              alert, hop_egress h1 inf1, verr)
      | _, _ => Err tt
      end
  end.

(** what an AS decides ([AsRoutingAction] after [From<Result<..>>]) *)
Inductive action :=
| AFwd (eg : N) | ALocal | AIngressScmp (i : N) | AEgressScmp (i : N)
| AScmp (code arg : N)        (* SendSCMPErrorResponse: 6 = ExternalInterfaceDown(arg), 100+c = ParameterProblem code c *)
| ADrop | APanic.

(** [StandardRoutingError::to_scmp_error] (codes regenerated from standard.rs / types.rs) *)
Definition scmp_of (e : serr) : action :=
  match e with
  | EAdvance => ADrop
  | EInvalidIngress c | EUnknownIngress c =>
      AScmp (100 + (if c then PP_UNKNOWN_CONS_INGRESS else PP_UNKNOWN_CONS_EGRESS)) 0
  | EInvalidEgress c | EUnknownEgress c =>
      AScmp (100 + (if c then PP_EGRESS_SIDE_CONS else PP_EGRESS_SIDE_NONCONS)) 0
  | EFuture => AScmp (100 + PP_INVALID_PATH) 0
  | EExpired => AScmp (100 + PP_PATH_EXPIRED) 0
  | EMac => AScmp (100 + PP_INVALID_HOP_FIELD_MAC) 0
  | ESegChange => AScmp (100 + PP_INVALID_SEGMENT_CHANGE) 0
  | EIfDown i => AScmp 6 i
  | EAlert => AScmp (100 + PP_ERRONEOUS_HEADER_FIELD) 0
  end.

(** [StdRoutingLogic::handle_standard_path]; the path is modified in place, also when a
    validation error is returned *)
Definition sdk_handle (t : topology) (ia : N) (K : key) (now cur_if : N) (p : path)
  : path * outcome action serr :=
  match sdk_advance_ingress t ia K now cur_if p with
  | Panic s => (p, Panic s)
  | Err _ => (p, Err EAdvance)
  | Ok (p1, alert, ing, act, verr) =>
    match verr with
    | Some e => (p1, Err e)
    | None =>
      if alert && negb (cur_if =? 0) && (ing =? cur_if) then (p1, Ok (AIngressScmp cur_if))
      else match act with
      | None => (p1, Ok ALocal)
      | Some eg =>
        match nth_error (p_infos p1) (p_ci p1) with
        | None => (p1, Err EAdvance)
        | Some ci =>
          match iface_state t ia eg with
          | None => (p1, Err (EUnknownEgress (i_cons ci)))
          | Some (_, up) =>
            if negb up then (p1, Err (EIfDown eg))
            else match sdk_advance_egress K now eg p1 with
            | Panic s => (p1, Panic s)
            | Err _ => (p1, Err EAdvance)
            | Ok (p2, alert2, eg2, verr2) =>
              match verr2 with
              | Some e => (p2, Err e)
              | None =>
                if alert2 && negb (eg2 =? 0) && (eg2 =? eg) then (p2, Ok (AEgressScmp eg2))
                else (p2, Ok (AFwd eg2))
              end
            end
          end
        end
      end
    end
  end.

(** [SpecRoutingLogic::route] for a standard path *)
Definition sdk_route (t : topology) (ia : N) (K : key) (now cur_if : N) (pk : packet)
  : action * packet :=
  let '(p', r) := sdk_handle t ia K now cur_if (k_path pk) in
  let pk' := mkPkt (k_dst pk) p' in
  match r with
  | Panic _ => (APanic, pk')
  | Err e => (scmp_of e, pk')
  | Ok ALocal =>
    if ia =? k_dst pk then (ALocal, pk') else (AScmp (100 + PP_NON_LOCAL_DELIVERY) 0, pk')
  | Ok a => (a, pk')
  end.

(** one line of the simulator's trace *)
Record step := mkStep { s_ia : N; s_if : N; s_act : action }.
Inductive simend := EndVerdict | EndError | EndFuel.

(** [ScionNetworkSimIter]: iterate [next_step]; [EndError] = the iterator yields an
    [anyhow::Error] (AS or link missing), [EndFuel] = fuel exhausted (never, see Proofs) *)
Fixpoint sdk_sim (fuel : nat) (t : topology) (now ia cur_if : N) (pk : packet)
  : list step * simend * packet :=
  match fuel with
  | O => ([], EndFuel, pk)
  | S f =>
    match find_as t ia with
    | None => ([], EndError, pk)
    | Some a =>
      let '(act, pk') := sdk_route t ia (a_key a) now cur_if pk in
      match act with
      | AFwd eg =>
        match scion_link t ia eg with
        | None => ([], EndError, pk')
        | Some l =>
          match get_peer l ia with
          | None => ([], EndError, pk')
          | Some (ia', if') =>
            match find_as t ia' with
            | None => ([], EndError, pk')
            | Some _ =>
              let '(tr, e, pk'') := sdk_sim f t now ia' if' pk' in
              (mkStep ia cur_if act :: tr, e, pk'')
            end
          end
        end
      | _ => ([mkStep ia cur_if act], EndVerdict, pk')
      end
    end
  end.

(** * The reference router (SCION data-plane rules) *)

Inductive rverdict :=
| RForward (eg : N) (pk : packet)
| RDeliver (pk : packet)
| RAlert               (* router alert addressed to this router: handled here *)
| RReject (why : N).   (* 1 malformed, 2 ingress id, 3 time, 4 mac, 5 not for this AS,
                          6 segment change, 7 unknown egress, 8 link down,
                          9 router alert on an unused side of a crossover *)

Definition sum_nat (l : list nat) : nat := fold_right Nat.add 0%nat l.
(** segment number of hop [h]: how many whole segments lie before it *)
Fixpoint seg_of (lens : list nat) (h : nat) : option nat :=
  match lens with
  | [] => None
  | l :: r => if (h <? l)%nat then Some 0%nat
              else match seg_of r (h - l) with Some s => Some (S s) | None => None end
  end.

(** expiry in half seconds, without rounding: valid while ts <= now <= ts + (exp+1)*337.5 *)
Definition ref_time_ok (now : N) (h : hopf) (i : infof) : bool :=
  (i_ts i <=? now) && (2 * now <=? 2 * i_ts i + (h_exp h + 1) * 675)
  && (now <=? 4294967295).

(** the valid interface pairs at an effective segment crossover: core to down, up to core,
    up to down (shortcuts and on-path included); literal list from the specification *)
Definition ref_xover_ok (lin lout : rlt) : bool :=
  match lin, lout with
  | ToCore, ToChild => true
  | ToChild, ToCore => true
  | ToChild, ToChild => true
  | _, _ => false
  end.

Definition ref_step (t : topology) (ia : N) (K : key) (now ingress : N) (pk : packet) : rverdict :=
  let p := k_path pk in
  let n := length (p_hops p) in
  match nth_error (p_hops p) (p_ch p), seg_of (p_lens p) (p_ch p) with
  | Some h, Some s =>
    if negb (s =? p_ci p)%nat then RReject 1 else
    match nth_error (p_infos p) s with
    | None => RReject 1
    | Some inf =>
      let last_hop := (S (p_ch p) =? n)%nat in
      let next_seg := seg_of (p_lens p) (S (p_ch p)) in
      let seg_switch := match next_seg with Some s' => negb (s' =? s)%nat | None => false end in
      (* a peering hop: the two hop fields around the peering link of a two-segment path
         whose info fields carry the peering flag *)
      let len0 := hd 0%nat (p_lens p) in
      let peering_shape := (length (p_lens p) =? 2)%nat in
      if i_peer inf && negb peering_shape then RReject 1 else
      let peering := i_peer inf && ((S (p_ch p) =? len0)%nat || (p_ch p =? len0)%nat) in
      (* 1. hop field must be within its lifetime *)
      if negb (ref_time_ok now h inf) then RReject 3 else
      (* 2. the packet must have entered through the interface the hop field names *)
      if negb (ingress =? 0) && negb (hop_ingress h inf =? ingress) then RReject 2 else
      (* 3. against construction direction the ingress router restores beta_i, except on a
            peering hop, whose MAC chains to the same beta as its neighbour *)
      let inf1 := if negb (i_cons inf) && negb (ingress =? 0) && negb peering
                  then set_segid inf (beta_step (i_segid inf) (h_mac h)) else inf in
      (* 4. the hop field must be authentic for this AS *)
      if negb (hop_mac_ok K h inf1) then RReject 4 else
      (* 5. router alert for the ingress router *)
      let in_alert := if i_cons inf then h_ain h else h_aeg h in
      if negb (ingress =? 0) && in_alert then RAlert else
      let infos1 := upd (p_infos p) s inf1 in
      (* 6. end of path: deliver here, provided the packet is addressed to this AS *)
      if last_hop then
        (if k_dst pk =? ia then RDeliver (mkPkt (k_dst pk) (mkPath (p_ci p) (p_ch p) (p_lens p) infos1 (p_hops p)))
         else RReject 5)
      else
      (* 7. segment crossover (not at a peering hop): continue with the first hop field of
            the next segment, which must be valid and authentic for this AS as well *)
      let xover := seg_switch && negb peering in
      let cur :=
        if xover then
          match nth_error (p_hops p) (S (p_ch p)), nth_error infos1 (S s) with
          | Some nh, Some ninf =>
            (* router-alert flags on the two unused sides of a crossover (egress side of the
               hop field that ends the segment, ingress side of the one that continues) have
               no addressee; the rules leave them unspecified, this router refuses them *)
            if (if i_cons inf then h_aeg h else h_ain h) || (if i_cons ninf then h_ain nh else h_aeg nh)
            then inr 9
            else if negb (ref_time_ok now nh ninf) then inr 3
            else if negb (hop_mac_ok K nh ninf) then inr 4
            else inl (S (p_ch p), S s, nh, ninf)
          | _, _ => inr 1
          end
        else inl (p_ch p, s, h, inf1) in
      match cur with
      | inr why => RReject why
      | inl (ch, s2, h2, inf2) =>
        (* 8. egress interface must exist; at a crossover the pair (arrival link, departure
              link) must be one of the valid combinations; a crossover is only valid for
              a packet that arrived from a neighbour *)
        let eg := hop_egress h2 inf2 in
        match iface_state t ia eg with
        | None => RReject 7
        | Some (lout, up) =>
          let pair_ok :=
            if xover then
              match iface_state t ia ingress with
              | Some (lin, _) => ref_xover_ok lin lout
              | None => false
              end
            else true in
          if negb pair_ok then RReject 6 else
          (* 9. router alert for the egress router *)
          let eg_alert := if i_cons inf2 then h_aeg h2 else h_ain h2 in
          if eg_alert then RAlert else
          (* 10. the link must be up *)
          if negb up then RReject 8 else
          (* 11. egress: in construction direction chain the SegID (not on a peering hop),
                 move to the next hop field *)
          let inf3 := if i_cons inf2 && negb peering
                      then set_segid inf2 (beta_step (i_segid inf2) (h_mac h2)) else inf2 in
          let ch' := S ch in
          match seg_of (p_lens p) ch' with
          | None => RReject 1
          | Some ci' =>
            RForward eg (mkPkt (k_dst pk) (mkPath ci' ch' (p_lens p) (upd infos1 s2 inf3) (p_hops p)))
          end
        end
      end
    end
  | _, _ => RReject 1
  end.

Inductive rend := RDelivered (ia : N) | RRejected (ia why : N) | RAlerted (ia : N) | RNoLink | RFuel.

(** the reference network: forward over the link an egress interface is attached to *)
Fixpoint ref_sim (fuel : nat) (t : topology) (now ia ingress : N) (pk : packet)
  : list (N * N * N) * rend * packet :=   (* crossed links (ia, egress) ... *)
  match fuel with
  | O => ([], RFuel, pk)
  | S f =>
    match find_as t ia with
    | None => ([], RNoLink, pk)
    | Some a =>
      match ref_step t ia (a_key a) now ingress pk with
      | RDeliver pk' => ([], RDelivered ia, pk')
      | RAlert => ([], RAlerted ia, pk)
      | RReject why => ([], RRejected ia why, pk)
      | RForward eg pk' =>
        match scion_link t ia eg with
        | None => ([], RNoLink, pk')
        | Some l =>
          match get_peer l ia with
          | None => ([], RNoLink, pk')
          | Some (ia', if') =>
            let '(tr, e, pk'') := ref_sim f t now ia' if' pk' in
            ((ia, ingress, eg) :: tr, e, pk'')
          end
        end
      end
    end
  end.

(** * Control plane, structural: beaconing and path assembly (C01) *)

Record uhop := mkUHop { u_exp : N; u_in : N; u_eg : N }.
(** an AS entry before MACs: AS, its key, the hop (cons ingress/egress), and its peer
    entries (peer AS, the peer's interface, hop with cons ingress = own peering interface and
    the same cons egress) *)
Record uentry := mkUEntry {
  ue_ia : N; ue_key : key; ue_hop : uhop; ue_peers : list (N * N * uhop) }.
Record sentry := mkSEntry { se_ia : N; se_hop : hopf; se_peers : list (N * N * hopf) }.
Record segment := mkSeg { sg_beta0 : N; sg_ts : N; sg_entries : list sentry }.

Definition mk_hop (u : uhop) (m : N) : hopf := mkHop false false (u_exp u) (u_in u) (u_eg u) m.
Definition umac (K : key) (beta ts : N) (u : uhop) : N := mac K beta ts (u_exp u) (u_in u) (u_eg u).

(** the SCION specification: sigma_i = MAC_Ki(beta_i, ...), beta_(i+1) = beta_i xor
    sigma_i[0..2], peer entries MACed over beta_(i+1) *)
Fixpoint beacon_entries (beta ts : N) (us : list uentry) : list sentry :=
  match us with
  | [] => []
  | u :: r =>
    let sigma := umac (ue_key u) beta ts (ue_hop u) in
    let beta' := beta_step beta sigma in
    mkSEntry (ue_ia u) (mk_hop (ue_hop u) sigma)
             (map (fun '(pia, pif, ph) => (pia, pif, mk_hop ph (umac (ue_key u) beta' ts ph)))
                  (ue_peers u))
    :: beacon_entries beta' ts r
  end.
Definition beacon (beta0 ts : N) (us : list uentry) : segment :=
  mkSeg beta0 ts (beacon_entries beta0 ts us).

(** the code: [SignedPathSegment::add_entry] = [AsEntry::update_macs] then push, iterated.
    [mac_chaining_beta] folds the hop MACs of all entries already in the segment (the
    [take_while] stops at an entry equal to the new, still MAC-less one: none, as stored
    entries carry their MACs). *)
Definition chain_beta (beta0 : N) (es : list sentry) : N :=
  fold_left (fun b e => beta_step b (h_mac (se_hop e))) es beta0.
Definition code_update_macs (beta0 ts : N) (existing : list sentry) (u : uentry) : sentry :=
  let mac_beta := chain_beta beta0 existing in
  let sigma := umac (ue_key u) mac_beta ts (ue_hop u) in
  let peer_beta := if update_macs_peer_next_beta then beta_step mac_beta sigma else mac_beta in
  mkSEntry (ue_ia u) (mk_hop (ue_hop u) sigma)
           (map (fun '(pia, pif, ph) => (pia, pif, mk_hop ph (umac (ue_key u) peer_beta ts ph)))
                (ue_peers u)).
Definition code_beacon (beta0 ts : N) (us : list uentry) : segment :=
  mkSeg beta0 ts (fold_left (fun acc u => acc ++ [code_update_macs beta0 ts acc u]) us []).

(** one use of a segment in a path ([SolutionEdge]): from entry [k] (the shortcut index) to
    the end, entry [k] possibly through one of its peer entries, in or against construction
    direction *)
Record suse := mkUse { us_seg : segment; us_k : nat; us_peer : option nat; us_cons : bool }.

(** [PathSolution::path], one edge: the hop fields in travel order ([None]: the peer index is
    invalid, an [expect] in the code) *)
Definition use_hops (u : suse) : option (list hopf) :=
  match skipn (us_k u) (sg_entries (us_seg u)) with
  | [] => Some []
  | e0 :: r =>
    match (match us_peer u with
           | None => Some (se_hop e0)
           | Some pi => match nth_error (se_peers e0) pi with
                        | Some (_, _, ph) => Some ph
                        | None => None
                        end
           end) with
    | None => None
    | Some h0 =>
      let hs := h0 :: map se_hop r in
      Some (if us_cons u then hs else rev hs)
    end
  end.

(** [SolutionEdge::initialize_segment_id] *)
Definition init_segid (u : suse) : N :=
  let es := sg_entries (us_seg u) in
  let stop0 := if us_cons u then us_k u else (length es - 1)%nat in
  let stop := match us_peer u with
              | Some _ => if (us_k u =? stop0)%nat then S stop0 else stop0
              | None => stop0
              end in
  chain_beta (sg_beta0 (us_seg u)) (firstn stop es).

Definition use_info (u : suse) : infof :=
  mkInfo (match us_peer u with Some _ => true | None => false end) (us_cons u)
         (init_segid u) (sg_ts (us_seg u)).

(** the data-plane path of a solution (up to three uses) *)
Definition assemble (dst : N) (uses : list suse) : option packet :=
  let hs := map use_hops uses in
  if forallb (fun o => match o with Some _ => true | None => false end) hs then
    let hl := map (fun o => match o with Some l => l | None => [] end) hs in
    Some (mkPkt dst (mkPath 0 0 (map (@length hopf) hl) (map use_info uses) (concat hl)))
  else None.

(** reversal of a path at its current position ([StandardPath::try_reverse]) *)
Definition path_reverse (p : path) : path :=
  mkPath (length (p_lens p) - 1 - p_ci p) (length (p_hops p) - 1 - p_ch p)
         (rev (p_lens p))
         (rev (map (fun i => mkInfo (i_peer i) (negb (i_cons i)) (i_segid i) (i_ts i)) (p_infos p)))
         (rev (p_hops p)).

(** the SegID a router following the data-plane rules carries when it verifies each hop field
    of ONE segment, hop fields in travel order.
    In construction direction: verify, then chain (not across a peering hop, which comes
    first).  Against it: restore, then verify (not at the first hop field, which is verified
    as found: source AS or crossover; not at a peering hop, which comes last). *)
Fixpoint carried_cons (s : N) (hs : list hopf) (peer_first : bool) : list N :=
  match hs with
  | [] => []
  | h :: r => s :: carried_cons (if peer_first then s else beta_step s (h_mac h)) r false
  end.
Fixpoint carried_rev (s : N) (hs : list hopf) (first peer_last : bool) : list N :=
  match hs with
  | [] => []
  | h :: r =>
    let is_last := match r with [] => true | _ => false end in
    let s' := if first || (peer_last && is_last) then s else beta_step s (h_mac h) in
    s' :: carried_rev s' r false peer_last
  end.

(** * One-hop paths ([OneHopRoutingLogic], as written: "we skip all non required checks") *)
Record ohpacket := mkOh { o_dst : N; o_info : infof; o_h1 : hopf; o_h2 : hopf }.

Definition sdk_route_onehop (ia : N) (K : key) (i : N) (pk : ohpacket) : action * ohpacket :=
  let inf := o_info pk in
  if i =? 0 then
    (* handle_one_hop_path_ingress returns ContinueEgress; handle_one_hop_path_egress *)
    let inf' := if i_cons inf then set_segid inf (beta_step (i_segid inf) (h_mac (o_h1 pk))) else inf in
    (AFwd (h_eg (o_h1 pk)), mkOh (o_dst pk) inf' (o_h1 pk) (o_h2 pk))
  else
    let local (pk' : ohpacket) :=
        if ia =? o_dst pk then (ALocal, pk') else (AScmp (100 + PP_NON_LOCAL_DELIVERY) 0, pk') in
    if h_mac (o_h2 pk) =? 0 then
      if negb (i_cons inf) then (ADrop, pk)
      else
        (* set_second_hop(ingress, key, segment_id_was_advanced = true) *)
        let h2 := mkHop false false (h_exp (o_h1 pk)) i 0
                        (mac K (i_segid inf) (i_ts inf) (h_exp (o_h1 pk)) i 0) in
        local (mkOh (o_dst pk) inf (o_h1 pk) h2)
    else
      let inf' := if negb (i_cons inf)
                  then set_segid inf (beta_step (i_segid inf) (h_mac (o_h2 pk))) else inf in
      local (mkOh (o_dst pk) inf' (o_h1 pk) (o_h2 pk)).

Fixpoint sdk_onehop_sim (fuel : nat) (t : topology) (ia cur_if : N) (pk : ohpacket)
  : list step * simend :=
  match fuel with
  | O => ([], EndFuel)
  | S f =>
    match find_as t ia with
    | None => ([], EndError)
    | Some a =>
      let '(act, pk') := sdk_route_onehop ia (a_key a) cur_if pk in
      match act with
      | AFwd eg =>
        match scion_link t ia eg with
        | None => ([], EndError)
        | Some l =>
          match get_peer l ia with
          | None => ([], EndError)
          | Some (ia', if') =>
            match find_as t ia' with
            | None => ([], EndError)
            | Some _ => let '(tr, e) := sdk_onehop_sim f t ia' if' pk' in (mkStep ia cur_if act :: tr, e)
            end
          end
        end
      | _ => ([mkStep ia cur_if act], EndVerdict)
      end
    end
  end.

(** reference: the origin AS's router checks the first hop field like any other (authentic
    for its key over the SegID, within its lifetime, egress link existing and up); the
    neighbour delivers if the packet is addressed to it *)
Definition ref_onehop (t : topology) (now ia : N) (pk : ohpacket) : rend :=
  match find_as t ia with
  | None => RNoLink
  | Some a =>
    if negb (ref_time_ok now (o_h1 pk) (o_info pk)) then RRejected ia 3
    else if negb (hop_mac_ok (a_key a) (o_h1 pk) (o_info pk)) then RRejected ia 4
    else match iface_state t ia (h_eg (o_h1 pk)), scion_link t ia (h_eg (o_h1 pk)) with
         | Some (_, up), Some l =>
           if negb up then RRejected ia 8
           else match get_peer l ia with
                | Some (ia', _) => if ia' =? o_dst pk then RDelivered ia' else RRejected ia' 5
                | None => RNoLink
                end
         | _, _ => RRejected ia 7
         end
  end.

End Keyed.

Arguments asrec : clear implicits.
Arguments topology : clear implicits.
