(** Network area, C01: the reply over the reversed arrived path of a peering path. *)
From Coq Require Import Lia ZifyBool ZifyNat ZifyN.
From Sci Require Import Network.Model Network.Spec Network.Proofs Network.Proofs_Sound Network.Proofs_Deliver
     Network.Proofs_C01 Network.Proofs_Combined Network.Proofs_Peer Network.Proofs_Reverse.
Local Open Scope N_scope.
Arguments N.add : simpl never. Arguments N.sub : simpl never. Arguments N.mul : simpl never.
Arguments N.div : simpl never. Arguments N.modulo : simpl never. Arguments N.eqb : simpl never.
Arguments N.ltb : simpl never. Arguments N.leb : simpl never.

(** * SegID chains, as relations between consecutive (hop field, carried value) pairs *)
Definition Rc (x y : hopf * N) : Prop := snd y = beta_step (snd x) (h_mac (fst x)).   (* chained at egress of x *)
Definition Ra (x y : hopf * N) : Prop := snd y = beta_step (snd x) (h_mac (fst y)).   (* restored at ingress of y *)

Lemma Rc_flip x y : Rc x y -> Ra y x.
Proof. unfold Rc, Ra. intros ->. rewrite beta_step_invol. reflexivity. Qed.
Lemma Ra_flip x y : Ra x y -> Rc y x.
Proof. unfold Rc, Ra. intros ->. rewrite beta_step_invol. reflexivity. Qed.

Lemma carried_cons_consec : forall T s, consec Rc (combine T (carried_cons s T false)).
Proof.
  induction T as [|t T IH]; intros s; [exact I|]. destruct T as [|t' T']; [exact I|].
  cbn [carried_cons combine consec]. split; [reflexivity|]. apply (IH (beta_step s (h_mac t))).
Qed.
Lemma carried_rev_consec : forall T s first, consec Ra (combine T (carried_rev s T first false)).
Proof.
  induction T as [|t T IH]; intros s first; [exact I|]. destruct T as [|t' T']; [exact I|].
  cbn [carried_rev combine consec andb orb]. rewrite !orb_false_r. split; [reflexivity|]. apply (IH _ false).
Qed.

Lemma consec_carried_cons : forall T E, length E = length T ->
  consec Rc (combine T E) -> E = carried_cons (hd 0 E) T false.
Proof.
  induction T as [|t T IH]; intros E L C; [destruct E; [reflexivity|discriminate]|].
  destruct E as [|e0 E]; [discriminate|]. cbn [hd carried_cons]. f_equal.
  destruct T as [|t' T']; [destruct E; [reflexivity|discriminate]|].
  destruct E as [|e1 E]; [discriminate|].
  cbn [combine consec] in C. destruct C as (C1 & C2). unfold Rc in C1. cbn [fst snd] in C1.
  rewrite <- C1. apply (IH (e1 :: E)); [cbn in L |- *; lia|exact C2].
Qed.

Lemma consec_carried_rev : forall T E, length E = length T ->
  consec Ra (combine T E) -> E = carried_rev (hd 0 E) T true false.
Proof.
  intros T E L C. destruct T as [|t T]; [destruct E; [reflexivity|discriminate]|].
  destruct E as [|e0 E]; [discriminate|]. cbn [hd carried_rev orb]. f_equal.
  revert t e0 E L C. induction T as [|t' T IH]; intros t e0 E L C; [destruct E; [reflexivity|discriminate]|].
  destruct E as [|e1 E]; [discriminate|].
  cbn [combine consec] in C. destruct C as (C1 & C2). unfold Ra in C1. cbn [fst snd] in C1.
  cbn [carried_rev orb andb]. rewrite <- C1. f_equal. apply (IH t' e1 E); [cbn in L |- *; lia|exact C2].
Qed.

Lemma carried_cons_len T : forall s p, length (carried_cons s T p) = length T.
Proof. induction T; intros; cbn; [reflexivity|rewrite IHT; reflexivity]. Qed.

(** a chained list read backwards is a restored list, and conversely *)
Lemma flip_cons T s :
  rev (carried_cons s T false) = carried_rev (last (carried_cons s T false) 0) (rev T) true false.
Proof.
  set (E := carried_cons s T false).
  assert (L : length T = length E) by (unfold E; rewrite carried_cons_len; reflexivity).
  pose proof (carried_cons_consec T s) as C. fold E in C.
  apply (consec_rev Rc Ra Rc_flip) in C. rewrite <- (combine_rev T E L) in C.
  rewrite <- (hd_rev_last E 0). apply consec_carried_rev; [rewrite !rev_length; lia|exact C].
Qed.
Lemma flip_rev T s :
  rev (carried_rev s T true false) = carried_cons (last (carried_rev s T true false) 0) (rev T) false.
Proof.
  set (E := carried_rev s T true false).
  assert (L : length T = length E) by (unfold E; rewrite carried_rev_length; reflexivity).
  pose proof (carried_rev_consec T s true) as C. fold E in C.
  apply (consec_rev Ra Rc Ra_flip) in C. rewrite <- (combine_rev T E L) in C.
  rewrite <- (hd_rev_last E 0). apply consec_carried_cons; [rewrite !rev_length; lia|exact C].
Qed.

(** the same with a peering hop: first in construction direction / last against it *)
Lemma flip_cons_peer h0 hs' s :
  carried_rev (last (carried_cons s (h0 :: hs') true) 0) (rev (h0 :: hs')) true true
  = rev (carried_cons s (h0 :: hs') true).
Proof.
  change (carried_cons s (h0 :: hs') true) with (s :: carried_cons s hs' false).
  destruct hs' as [|h1 hs''].
  - reflexivity.
  - set (cs := carried_cons s (h1 :: hs'') false).
    assert (Hcs : cs <> []) by (unfold cs; discriminate).
    rewrite (last_shift cs s 0).
    cbn [rev]. rewrite carried_rev_snoc_peer by (intros E; apply (f_equal (@length _)) in E; rewrite app_length in E; cbn in E; lia).
    change (rev hs'' ++ [h1]) with (rev (h1 :: hs'')).
    replace (last cs s) with (last cs 0) by (apply last_default; exact Hcs).
    pose proof (flip_cons (h1 :: hs'') s) as F. fold cs in F. rewrite <- F.
    f_equal. rewrite last_rev_hd. unfold cs. reflexivity.
Qed.

Lemma flip_rev_peer T hp s :
  carried_cons (last (carried_rev s (T ++ [hp]) true true) 0) (rev (T ++ [hp])) true
  = rev (carried_rev s (T ++ [hp]) true true).
Proof.
  rewrite rev_app_distr. cbn [rev app].
  destruct T as [|t T'].
  - reflexivity.
  - rewrite carried_rev_snoc_peer by discriminate.
    set (cs := carried_rev s (t :: T') true false).
    assert (Hcs : cs <> []) by (unfold cs; discriminate).
    rewrite last_last, rev_app_distr. cbn [rev app carried_cons].
    replace (last cs s) with (last cs 0) by (apply last_default; exact Hcs).
    f_equal. pose proof (flip_rev (t :: T') s) as F. fold cs in F. rewrite F. reflexivity.
Qed.

(** * topology: every link of a peering path leads back *)
Section T.
Context {key : Type}.
Variable t : topology key.
Variable now : N.
Hypothesis Wf : links_wf t.
Hypothesis W0 : wf_topo t = true.

Lemma plink_rev a e b i : plink t a e b i -> plink t b i a e.
Proof.
  intros (ty & l & Hif & Hsl & Hgp & Hnz).
  destruct (link_sym t _ _ _ _ _ Wf Hsl Hgp) as (Hsl' & Hgp' & _).
  pose proof (iface_sym t _ _ _ _ _ _ _ Wf Hsl Hgp Hif) as Hif'.
  exists (rlt_rev ty), l. refine (conj Hif' (conj Hsl' (conj Hgp' _))). eapply iface_nonzero; eauto.
Qed.

Definition R1 (x y : @hopd key) : Prop := plink t (d_ia x) (h_in (d_hop x)) (d_ia y) (h_eg (d_hop y)).
Definition R4 (x y : @hopd key) : Prop := plink t (d_ia x) (h_eg (d_hop x)) (d_ia y) (h_in (d_hop y)).
Lemma R1_flip x y : R1 x y -> R4 y x.  Proof. apply plink_rev. Qed.
Lemma R4_flip x y : R4 x y -> R1 y x.  Proof. apply plink_rev. Qed.

Lemma p1_iff ts dq : forall L,
  p1_topo t now ts L dq <->
  (L <> [] /\ Forall (fun d => hopok t now d ts) L /\ consec R1 L
   /\ plink t (d_ia (last L dq)) (h_in (d_hop (last L dq))) (d_ia dq) (h_in (d_hop dq))).
Proof.
  induction L as [|d L IH]; [cbn; split; [tauto|intros (H & _); congruence]|].
  destruct L as [|d' L'].
  - cbn [p1_topo consec last]. split.
    + intros (H1 & H2). refine (conj _ (conj _ (conj I H2))); [discriminate|constructor; [exact H1|constructor]].
    + intros (_ & F & _ & H2). inversion F; subst. tauto.
  - cbn [p1_topo consec]. rewrite IH. change (last (d :: d' :: L') dq) with (last (d' :: L') dq). split.
    + intros (H1 & H2 & _ & F & C & P). refine (conj _ (conj _ (conj (conj H2 C) P))); [discriminate|constructor; assumption].
    + intros (_ & F & (H2 & C) & P). inversion F; subst. refine (conj _ (conj H2 (conj _ (conj _ (conj C P))))); auto. discriminate.
Qed.

Lemma p4_iff ts dst : forall r e,
  p4_topo t now ts dst e r <->
  (Forall (fun d => hopok t now d ts) (e :: r) /\ consec R4 (e :: r) /\ d_ia (last r e) = dst).
Proof.
  induction r as [|e' r IH]; intros e; cbn [p4_topo consec].
  - cbn [last]. split; [intros (H1 & H2); refine (conj _ (conj I H2)); constructor; [exact H1|constructor]|].
    intros (F & _ & H2). inversion F; subst. tauto.
  - rewrite IH. rewrite (last_shift r e' e). split.
    + intros (H1 & H2 & F & C & D). refine (conj _ (conj (conj H2 C) D)). constructor; assumption.
    + intros (F & (H2 & C) & D). inversion F; subst. tauto.
Qed.
End T.

Lemma rev_ppkt src dst a b v0 ts0 v1 ts1 (H0 H1 : list hopf) :
  length H0 = a -> length H1 = b -> (1 <= a)%nat -> (1 <= b)%nat ->
  mkPkt src (path_reverse (k_path (ppkt dst 1 (a + b - 1) a b v0 ts0 v1 ts1 (H0 ++ H1))))
  = ppkt src 0 0 b a v1 ts1 v0 ts0 (rev H1 ++ rev H0).
Proof.
  intros L0 L1 Ha Hb. unfold ppkt, path_reverse, pinfo.
  cbn [k_path p_lens p_infos p_hops p_ci p_ch length rev app map i_peer i_cons i_segid i_ts negb].
  rewrite rev_app_distr, app_length, L0, L1. f_equal. f_equal; lia.
Qed.

Section PR.
Context {key : Type}.
Variable mac : key -> N -> N -> N -> N -> N -> N.
Variable t : topology key.
Variable now : N.
Hypothesis Wf : links_wf t.
Hypothesis W0 : wf_topo t = true.

Lemma betas_rev (L : list (@hopd key)) : betas_of (rev L) = rev (betas_of L).
Proof. unfold betas_of. apply map_rev. Qed.
Lemma hops_rev (L : list (@hopd key)) : hops_of (rev L) = rev (hops_of L).
Proof. unfold hops_of. apply map_rev. Qed.

(** the reversed arrived packet of a peering path is delivered to the sender *)
Theorem peering_reverse_delivers (L0 : list (@hopd key)) (dq : @hopd key) (r1 : list (@hopd key))
        (s0 ts0 s1 ts1 dst : N) :
  Forall (fun d => auth mac d ts0) L0 ->
  betas_of L0 = carried_rev s0 (hops_of L0) true true ->
  p1_topo t now ts0 L0 dq ->
  Forall (fun d => auth mac d ts1) (dq :: r1) ->
  betas_of (dq :: r1) = carried_cons s1 (hops_of (dq :: r1)) true ->
  hopok t now dq ts1 ->
  match r1 with
  | [] => d_ia dq = dst
  | e :: r' => plink t (d_ia dq) (h_eg (d_hop dq)) (d_ia e) (h_in (d_hop e)) /\ p4_topo t now ts1 dst e r'
  end ->
  let src := d_ia (hd dq L0) in
  let arrived := ppkt dst 1 (length L0 + length r1) (length L0) (S (length r1))
                      (last (betas_of L0) 0) ts0 (last (betas_of (dq :: r1)) 0) ts1
                      (hops_of L0 ++ hops_of (dq :: r1)) in
  exists fuel first_as,
    delivers mac t now fuel first_as 0 (mkPkt src (path_reverse (k_path arrived))) src (fun _ => True).
Proof.
  intros FA0 HB0 HT0 FA1 HB1 Hq HT1 src arrived.
  apply (p1_iff t now ts0 dq L0) in HT0. destruct HT0 as (Hne & FH0 & C0 & Plast).
  destruct (exists_last Hne) as (ds0 & dp & EL0).
  assert (Hlast : last L0 dq = dp) by (rewrite EL0; apply last_last).
  rewrite Hlast in Plast.
  assert (Erev : rev L0 = dp :: rev ds0) by (rewrite EL0, rev_app_distr; reflexivity).
  (* forward second segment as lists *)
  assert (FH1 : Forall (fun d => hopok t now d ts1) (dq :: r1) /\ consec (R4 t) (dq :: r1)).
  { destruct r1 as [|e r']; [split; [constructor; [exact Hq|constructor]|exact I]|].
    destruct HT1 as (P & T4). apply (p4_iff t now ts1 dst r' e) in T4. destruct T4 as (F & C & _).
    split; [constructor; assumption|]. cbn [consec]. split; [exact P|exact C]. }
  destruct FH1 as (FH1 & C1).
  set (v0f := last (betas_of L0) 0). set (v1f := last (betas_of (dq :: r1)) 0).
  (* the reversed description *)
  pose proof (peering_delivers mac t now (rev (dq :: r1)) dp (rev ds0) v1f ts1 v0f ts0 src) as D.
  assert (P1 : Forall (fun d => auth mac d ts1) (rev (dq :: r1))) by (apply Forall_rev; exact FA1).
  assert (P2 : betas_of (rev (dq :: r1)) = carried_rev v1f (hops_of (rev (dq :: r1))) true true).
  { rewrite betas_rev, hops_rev. unfold v1f. rewrite HB1.
    change (hops_of (dq :: r1)) with (d_hop dq :: hops_of r1). symmetry. apply flip_cons_peer. }
  assert (P3 : p1_topo t now ts1 (rev (dq :: r1)) dp).
  { apply (p1_iff t now ts1 dp). refine (conj _ (conj _ (conj _ _))).
    - intros E. apply (f_equal (@length _)) in E. rewrite rev_length in E. discriminate.
    - apply Forall_rev. exact FH1.
    - revert C1. apply consec_rev. intros a b. apply R4_flip; assumption.
    - rewrite last_rev_hd. cbn [hd]. apply plink_rev; assumption. }
  assert (FA0r : Forall (fun d => auth mac d ts0) (dp :: rev ds0)) by (rewrite <- Erev; apply Forall_rev; exact FA0).
  assert (P5 : betas_of (dp :: rev ds0) = carried_cons v0f (hops_of (dp :: rev ds0)) true).
  { rewrite <- Erev, betas_rev, hops_rev. unfold v0f. rewrite HB0.
    assert (EH : hops_of L0 = hops_of ds0 ++ [d_hop dp]) by (rewrite EL0; unfold hops_of; rewrite map_app; reflexivity).
    rewrite EH. symmetry. apply flip_rev_peer. }
  assert (P6 : hopok t now dp ts0).
  { rewrite Forall_forall in FH0. apply FH0. rewrite EL0. apply in_or_app. right. left. reflexivity. }
  assert (T4r : p4_topo t now ts0 src dp (rev ds0)).
  { apply (p4_iff t now ts0 src). refine (conj _ (conj _ _)).
    - rewrite <- Erev. apply Forall_rev. exact FH0.
    - rewrite <- Erev. revert C0. apply consec_rev. intros a b. apply R1_flip; assumption.
    - unfold src. rewrite <- (last_shift (rev ds0) dp dq). rewrite <- Erev. rewrite last_rev_hd. reflexivity. }
  assert (P7 : match rev ds0 with
               | [] => d_ia dp = src
               | e :: r' => plink t (d_ia dp) (h_eg (d_hop dp)) (d_ia e) (h_in (d_hop e)) /\ p4_topo t now ts0 src e r'
               end).
  { destruct (rev ds0) as [|e r']; cbn [p4_topo] in T4r; tauto. }
  specialize (D P1 P2 P3 FA0r P5 P6 P7).
  destruct D as (tr & pk2 & R & _).
  eexists. eexists. exists tr, pk2. split; [|exact I].
  rewrite <- R. f_equal.
  (* the reversed arrived packet is the packet of the reversed description *)
  unfold arrived.
  assert (La : length (hops_of L0) = length L0) by (unfold hops_of; apply map_length).
  assert (Lb : length (hops_of (dq :: r1)) = S (length r1)) by (unfold hops_of; rewrite map_length; reflexivity).
  assert (Hge : (1 <= length L0)%nat) by (rewrite EL0, app_length; cbn; lia).
  replace (length L0 + length r1)%nat with (length L0 + S (length r1) - 1)%nat by lia.
  rewrite (rev_ppkt src dst (length L0) (S (length r1)) _ _ _ _ _ _ La Lb Hge ltac:(lia)).
  assert (E3 : hops_of (dp :: rev ds0) = rev (hops_of L0)) by (rewrite <- Erev, hops_rev; reflexivity).
  rewrite E3, hops_rev, !rev_length.
  replace (S (length ds0)) with (length L0) by (rewrite EL0, app_length; cbn; lia).
  reflexivity.
Qed.
End PR.
