(** Network area: independent statements and oracles (no import of [Gen]: the numbers and
    tables here are the literal ones of the SCION data-plane specification).
    The oracles are evaluated on the IMPLEMENTATION's observed trace by [Cases]. *)
From Sci Require Export Common.Outcome.
From Sci Require Import Network.Model.
Local Open Scope N_scope.

(** ** Segment-change table of the specification.
    Link types are those of the interface the packet ARRIVED on and the interface it LEAVES
    on, named by what lies at the other end.  A segment change (crossover inside one AS) is
    valid for exactly: core -> down (arrived from a core neighbour, leaves to a child),
    up -> core (arrived from a child, leaves to a core neighbour), up -> down (arrived from a
    child, leaves to a child: crossover at a core AS, a shortcut at a common non-core AS, or an
    on-path AS).  Everything else is a valley (down -> up), a core loop (core -> core), or a
    splice; a peering link is crossed INSIDE a segment pair by the two peering hop fields,
    never by a segment change. *)
Definition spec_seg_change_list : list (rlt * rlt) :=
  [(ToCore, ToChild); (ToChild, ToCore); (ToChild, ToChild)].
Definition rlt_eqb (a b : rlt) : bool := rlt_code a =? rlt_code b.
Definition spec_seg_change_ok (a b : rlt) : bool :=
  existsb (fun '(x, y) => rlt_eqb x a && rlt_eqb y b) spec_seg_change_list.
Definition all_rlt : list rlt := [ToCore; ToParent; ToChild; ToPeer].
Definition involves_peer (a b : rlt) : bool := rlt_eqb a ToPeer || rlt_eqb b ToPeer.

(** ** Decidable classes of the recorded findings *)
Definition uses_peering (p : path) : bool := existsb i_peer (p_infos p).

(** hop index of the first hop field of every segment but the first *)
Fixpoint seg_starts_aux (lens : list nat) (agg : nat) : list nat :=
  match lens with
  | [] => []
  | l :: r => agg :: seg_starts_aux r (agg + l)%nat
  end.
Definition xover_starts (p : path) : list nat := tl (seg_starts_aux (p_lens p) 0).

(** a shortcut: some segment change where the hop field that continues the path still names
    the (unused) interface towards its parent, or the hop field that ends the previous
    segment does *)
Definition uses_shortcut (p : path) : bool :=
  existsb (fun j =>
    match nth_error (p_hops p) j, seg_of (p_lens p) j with
    | Some h, Some s =>
      match nth_error (p_infos p) s with
      | Some i => negb (hop_ingress h i =? 0)
      | None => false
      end
    | _, _ => false
    end) (xover_starts p).

(** ** Trace oracles (on the implementation's output): a trace line is
    (AS, ingress interface, action code, argument); codes: 1 forward(egress), 2 deliver *)
Definition tline := (N * N * N * N)%type.

(** Addresses.  An ISD-AS (16 bit ISD, 48 bit AS number) names a concrete AS by EQUALITY and by
    nothing else: the wildcard forms 0-<as>, <isd>-0 and 0-0 (used in lookups and filters) are
    not the address of any AS, and neither is an equal AS number in another ISD.  "The packet is
    for the local AS" therefore means [spec_local_dst local dst = true].  Literal. *)
Definition ia_isd (x : N) : N := x / 281474976710656.
Definition ia_asn (x : N) : N := x mod 281474976710656.
Definition is_wildcard_ia (x : N) : bool := (ia_isd x =? 0) || (ia_asn x =? 0).
Definition spec_local_dst (local dst : N) : bool := local =? dst.

Definition o_deliver_only_at (dst : N) (tr : list tline) : bool :=
  forallb (fun '(ia, _, c, _) => negb (c =? 2) || spec_local_dst ia dst) tr.

Definition o_bounded (hops ch : nat) (tr : list tline) : bool :=
  (length tr <=? Nat.max 1 (hops - ch))%nat.

Definition delivered_at (tr : list tline) : option N :=
  match rev tr with
  | (ia, _, 2, _) :: _ => Some ia
  | _ => None
  end.

(** interfaces crossed: (AS, egress) of every forward and (AS, ingress) of every later line *)
Fixpoint crossed (first : bool) (tr : list tline) : list (N * N) :=
  match tr with
  | [] => []
  | (ia, i, c, a) :: r =>
    (if first then [] else [(ia, i)]) ++ (if c =? 1 then [(ia, a)] else []) ++ crossed false r
  end.

(** ** Scope of the soundness theorem [sdk_sound_wrt_ref] (decidable) *)
Section Scope.
Context {key : Type}.
(** interface 0 means "inside the AS": no link may use it ([ScionLink::new] refuses it) *)
Definition wf_topo (t : topology key) : bool :=
  forallb (fun l => negb (l_aif l =? 0) && negb (l_bif l =? 0)) (t_links t).

(** the step is outside the two open findings: no peering flag anywhere in the path, and if
    the current hop field ends its segment (a segment change happens in this AS), the packet
    came from a neighbour and neither the arrival nor the departure link is a peering link *)
Definition step_scope (t : topology key) (ia i : N) (p : path) : bool :=
  negb (uses_peering p) &&
  match seg_index (p_lens p) (p_ch p) with
  | Some (seg, _, true) =>
    if (length (p_hops p) <=? p_ch p + 1)%nat then true
    else negb (i =? 0) &&
         match nth_error (p_hops p) (S (p_ch p)), nth_error (p_infos p) (S seg) with
         | Some nh, Some ninf =>
           match iface_state t ia i, iface_state t ia (hop_egress nh ninf) with
           | Some (a, _), Some (b, _) => negb (involves_peer a b)
           | _, _ => true
           end
         | _, _ => true
         end
  | _ => true
  end.
(** class of the open finding C01-peer-mac-over-beta-i: the segment carries peer entries (only
    their MACs deviate from the specification in code-built segments) *)
Definition has_peer_entries (us : list (@uentry key)) : bool :=
  existsb (fun u => match ue_peers u with [] => false | _ => true end) us.
End Scope.

(** ** Joinability (C01, last sentence): segments as AS sequences in construction order.
    A route exists (without peering links) when: source and destination lie on one non-core
    segment; or an up segment of the source and a down segment of the destination share an AS
    (at a core, or below it: shortcut); or their core ends are joined by a core segment (in
    either direction); with the degenerate forms when source or destination are core. *)
Definition memN (x : N) (l : list N) : bool := existsb (N.eqb x) l.
Definition joinable (src dst : N) (cores : list N) (segs : list (list N)) : bool :=
  let is_core_seg s := memN (last s 0) cores in
  let ups := filter (fun s => negb (is_core_seg s) && (last s 0 =? src)) segs in
  let downs := filter (fun s => negb (is_core_seg s) && (last s 0 =? dst)) segs in
  let csegs := filter is_core_seg segs in
  let src_cores := if memN src cores then [src] else map (fun s => hd 0 s) ups in
  let dst_cores := if memN dst cores then [dst] else map (fun s => hd 0 s) downs in
  existsb (fun a => existsb (fun b =>
      (a =? b) || existsb (fun c => ((hd 0 c =? a) && (last c 0 =? b)) || ((hd 0 c =? b) && (last c 0 =? a))) csegs)
    dst_cores) src_cores
  || existsb (fun u => existsb (fun d => existsb (fun x => memN x d) u) downs) ups
  || existsb (fun u => memN dst u) ups
  || existsb (fun d => memN src d) downs.

(** a topology without peering links (then the finding C13-peer-link-segment-change cannot
    be met) *)
Definition no_peer_links {key : Type} (t : topology key) : bool :=
  forallb (fun l => match l_ty l with SPeer => false | _ => true end) (t_links t).
(** the first step of a run is in scope: a packet injected from inside an AS does not start
    with a segment change *)
Definition start_scope (i : N) (p : path) : bool :=
  negb (i =? 0) ||
  match seg_index (p_lens p) (p_ch p) with
  | Some (_, _, true) => (length (p_hops p) <=? p_ch p + 1)%nat
  | _ => true
  end.

(** destination "any core of ISD [dst_isd]" (wildcard AS number): some core of that ISD is
    the source itself or joinable from it *)
Definition joinable_any (src dst_isd : N) (cores : list N) (segs : list (list N)) : bool :=
  existsb (fun c => (N.shiftr c 48 =? dst_isd) && ((c =? src) || joinable src c cores segs)) cores.

(** ** Which segment lookups a path between two ASes can need (SCION path-combination rules):
    a path is one to three segment uses -- [Up] (a non-core segment climbed from the source),
    [CoreS], [Down] (a non-core segment descended to the destination) -- in that order.  A
    core source needs no [Up], a core destination no [Down]; a destination "any core of the
    ISD" in the source's ISD is reached by [Up] alone (or is the core source's own kind); and
    when the source's ISD has a single core AS, a path inside that ISD cannot use a core
    segment (a core segment joins two different core ASes).
    Context: 0 same ISD / single core, 1 same ISD / several cores, 2 different ISDs;
    source kind 0 core 1 non-core; destination kind 0 core 1 non-core 2 any core. *)
Inductive seg_class := Up | CoreS | Down.
Definition needed_lookups (ctx srck dstk : N) : list (list seg_class) :=
  let all :=
    match srck, dstk with
    | 0, 1 => [[Down]; [CoreS; Down]]
    | 0, _ => [[CoreS]]
    | _, 1 => [[Up]; [Down]; [Up; Down]; [Up; CoreS; Down]]
    | _, 2 => if ctx =? 2 then [[Up; CoreS]] else [[Up]]
    | _, _ => [[Up]; [Up; CoreS]]
    end in
  if ctx =? 0 then filter (fun p => negb (existsb (fun c => match c with CoreS => true | _ => false end) p)) all
  else all.

(** * Hop field lifetime (SCION data plane, "ExpTime"): the unit is 24 h / 256 = 337.5 s; a hop
    field of a segment with timestamp [ts] is valid from second [ts] up to and including second
    [ts + floor ((ExpTime + 1) * 337.5)].  Literal; nothing here comes from the source tree. *)
Definition spec_expiry (ts exp : N) : N := ts + ((exp + 1) * 675) / 2.
Definition spec_time_ok (now ts exp : N) : bool := (ts <=? now) && (now <=? spec_expiry ts exp).
