(** Network area: lemmas for C01 (MAC chain of beaconed segments). *)
From Coq Require Import Lia ZifyBool ZifyNat ZifyN.
From Sci Require Import Gen.NetworkTables Network.Model Network.Spec Network.Proofs.
Local Open Scope N_scope.
Arguments N.add : simpl never. Arguments N.sub : simpl never. Arguments N.mul : simpl never.
Arguments N.div : simpl never. Arguments N.modulo : simpl never. Arguments N.eqb : simpl never.
Arguments N.ltb : simpl never. Arguments N.leb : simpl never.

Lemma beta_step_invol b m : beta_step (beta_step b m) m = b.
Proof. unfold beta_step. rewrite N.lxor_assoc, N.lxor_nilpotent, N.lxor_0_r. reflexivity. Qed.

Section C.
Context {key : Type}.
Variable mac : key -> N -> N -> N -> N -> N -> N.

(** [verifies ts K h v]: AS key [K] accepts hop field [h] when the SegID carried is [v] *)
Definition verifies (ts : N) (K : key) (h : hopf) (v : N) : Prop :=
  h_mac h = mac K v ts (h_exp h) (h_in h) (h_eg h).

Lemma verifies_hop_mac_ok ts K h v p c :
  verifies ts K h v <-> hop_mac_ok mac K h (mkInfo p c v ts) = true.
Proof. unfold verifies, hop_mac_ok. cbn. rewrite N.eqb_eq. tauto. Qed.

(** beta_j of every entry, construction order *)
Fixpoint betas (beta ts : N) (us : list uentry) : list N :=
  match us with
  | [] => []
  | u :: r => beta :: betas (beta_step beta (umac mac (ue_key u) beta ts (ue_hop u))) ts r
  end.
(** beta after the last entry *)
Fixpoint beta_end (beta ts : N) (us : list uentry) : N :=
  match us with
  | [] => beta
  | u :: r => beta_end (beta_step beta (umac mac (ue_key u) beta ts (ue_hop u))) ts r
  end.
(** beta_k for k <= length *)
Definition beta_at (beta ts : N) (us : list uentry) (k : nat) : N := beta_end beta ts (firstn k us).

Lemma betas_length beta ts us : length (betas beta ts us) = length us.
Proof. revert beta; induction us; intros; cbn; [reflexivity|rewrite IHus; reflexivity]. Qed.
Lemma beacon_entries_length beta ts us : length (beacon_entries mac beta ts us) = length us.
Proof. revert beta; induction us; intros; cbn; [reflexivity|rewrite IHus; reflexivity]. Qed.

(** [update_macs] iterated is the specification's beacon (with the repaired peer beta) *)
Lemma chain_beta_app b es e : chain_beta b (es ++ [e]) = beta_step (chain_beta b es) (h_mac (se_hop e)).
Proof. unfold chain_beta. rewrite fold_left_app. reflexivity. Qed.

Lemma chain_beta_beacon b ts us : chain_beta b (beacon_entries mac b ts us) = beta_end b ts us.
Proof.
  revert b. induction us as [|u r IH]; intros b; [reflexivity|].
  cbn [beacon_entries beta_end]. unfold chain_beta in *. cbn [fold_left se_hop mk_hop h_mac].
  apply IH.
Qed.

Lemma chain_beta_firstn b ts us k :
  chain_beta b (firstn k (beacon_entries mac b ts us)) = beta_at b ts us k.
Proof.
  unfold beta_at. revert b k. induction us as [|u r IH]; intros b k.
  - destruct k; reflexivity.
  - destruct k as [|k]; [reflexivity|].
    cbn [beacon_entries firstn beta_end]. unfold chain_beta in *.
    cbn [fold_left se_hop mk_hop h_mac]. apply IH.
Qed.

Lemma skipn_beacon b ts us k :
  skipn k (beacon_entries mac b ts us) = beacon_entries mac (beta_at b ts us k) ts (skipn k us).
Proof.
  unfold beta_at. revert b k. induction us as [|u r IH]; intros b k.
  - destruct k; reflexivity.
  - destruct k as [|k]; [reflexivity|]. cbn [beacon_entries skipn firstn beta_end]. apply IH.
Qed.

(** the entries [update_macs] produces, as a recursion over the unsigned entries: like
    [beacon_entries], but the peer entries are MACed over [beta_i] or [beta_(i+1)] according
    to the regenerated flag *)
Fixpoint code_entries (beta ts : N) (us : list uentry) : list sentry :=
  match us with
  | [] => []
  | u :: r =>
    let sigma := umac mac (ue_key u) beta ts (ue_hop u) in
    let beta' := beta_step beta sigma in
    let pb := if update_macs_peer_next_beta then beta' else beta in
    mkSEntry (ue_ia u) (mk_hop (ue_hop u) sigma)
             (map (fun '(pia, pif, ph) => (pia, pif, mk_hop ph (umac mac (ue_key u) pb ts ph))) (ue_peers u))
    :: code_entries beta' ts r
  end.

Lemma code_beacon_aux b ts us acc :
  fold_left (fun acc u => acc ++ [code_update_macs mac b ts acc u]) us acc
  = acc ++ code_entries (chain_beta b acc) ts us.
Proof.
  revert acc. induction us as [|u r IH]; intros acc; cbn [fold_left code_entries].
  - rewrite app_nil_r. reflexivity.
  - rewrite IH. rewrite <- app_assoc. cbn [app]. f_equal.
    unfold code_update_macs. f_equal. rewrite chain_beta_app. reflexivity.
Qed.

Lemma code_beacon_entries b ts us : sg_entries (code_beacon mac b ts us) = code_entries b ts us.
Proof. unfold code_beacon. cbn [sg_entries]. rewrite (code_beacon_aux b ts us []). reflexivity. Qed.

(** without peer entries the code builds the specification's beacon *)
Lemma code_entries_no_peers : forall us b ts,
  has_peer_entries us = false -> code_entries b ts us = beacon_entries mac b ts us.
Proof.
  induction us as [|u r IH]; intros b ts H; [reflexivity|].
  cbn [has_peer_entries existsb] in H. apply orb_false_iff in H. destruct H as (H1 & H2).
  cbn [code_entries beacon_entries]. rewrite (IH _ _ H2).
  destruct (ue_peers u); [reflexivity|discriminate].
Qed.

Lemma code_beacon_is_beacon b ts us :
  has_peer_entries us = false -> code_beacon mac b ts us = beacon mac b ts us.
Proof.
  intros H. unfold code_beacon, beacon. rewrite (code_beacon_aux b ts us []). cbn [app].
  unfold chain_beta. cbn [fold_left]. rewrite (code_entries_no_peers us b ts H). reflexivity.
Qed.

(** with peer entries: the AS sequence and every regular hop field (hence the whole SegID
    chain) still agree; only peer-entry MACs can differ *)
Lemma code_entries_hops : forall us b ts,
  map se_hop (code_entries b ts us) = map se_hop (beacon_entries mac b ts us)
  /\ map se_ia (code_entries b ts us) = map se_ia (beacon_entries mac b ts us).
Proof.
  induction us as [|u r IH]; intros b ts; [split; reflexivity|].
  cbn [code_entries beacon_entries map se_hop se_ia]. destruct (IH (beta_step b (umac mac (ue_key u) b ts (ue_hop u))) ts) as (A & B).
  rewrite A, B. split; reflexivity.
Qed.

Lemma chain_beta_hops b es es' : map se_hop es = map se_hop es' -> chain_beta b es = chain_beta b es'.
Proof.
  revert b es'. induction es as [|e es IH]; intros b [|e' es'] H; try discriminate; [reflexivity|].
  cbn [map] in H. inversion H as [[H1 H2]]. unfold chain_beta in *. cbn [fold_left]. rewrite H1. apply IH. exact H2.
Qed.

Lemma map_firstn_eq {A B} (f : A -> B) : forall n l l', map f l = map f l' -> map f (firstn n l) = map f (firstn n l').
Proof. intros n l l' H. rewrite <- !firstn_map, H. reflexivity. Qed.
Lemma map_skipn_eq {A B} (f : A -> B) : forall n l l', map f l = map f l' -> map f (skipn n l) = map f (skipn n l').
Proof. intros n l l' H. rewrite <- !skipn_map, H. reflexivity. Qed.

(** a use WITHOUT peering hop reads regular hop fields only: on code-built segments it is the
    same use as on the specification's beacon, peer entries or not *)
Lemma nonpeer_use_code_eq b ts us k cons :
  use_hops (mkUse (code_beacon mac b ts us) k None cons) = use_hops (mkUse (beacon mac b ts us) k None cons)
  /\ use_info (mkUse (code_beacon mac b ts us) k None cons) = use_info (mkUse (beacon mac b ts us) k None cons).
Proof.
  destruct (code_entries_hops us b ts) as (Hh & _).
  assert (Hl : length (code_entries b ts us) = length (beacon_entries mac b ts us)).
  { rewrite <- (map_length se_hop), Hh, map_length. reflexivity. }
  split.
  - unfold use_hops. cbn [us_seg us_k us_peer us_cons]. rewrite code_beacon_entries. cbn [beacon sg_entries].
    pose proof (map_skipn_eq se_hop k _ _ Hh) as Hs.
    destruct (skipn k (code_entries b ts us)) as [|e0 r0]; destruct (skipn k (beacon_entries mac b ts us)) as [|e1 r1];
      cbn [map] in Hs; try discriminate; [reflexivity|].
    inversion Hs as [[H1 H2]]. rewrite H1, H2. reflexivity.
  - unfold use_info, init_segid. cbn [us_seg us_k us_peer us_cons sg_ts sg_beta0]. rewrite code_beacon_entries.
    cbn [beacon sg_entries sg_ts sg_beta0 code_beacon]. rewrite Hl. f_equal.
    apply chain_beta_hops. apply map_firstn_eq. exact Hh.
Qed.

(** * the chain invariant *)

(** in construction direction, from the beta of the first entry used *)
Lemma chain_cons b ts us :
  Forall2 (fun u hv => verifies ts (ue_key u) (fst hv) (snd hv))
          us
          (combine (map se_hop (beacon_entries mac b ts us))
                   (carried_cons b (map se_hop (beacon_entries mac b ts us)) false)).
Proof.
  revert b. induction us as [|u r IH]; intros b; cbn [beacon_entries map carried_cons combine].
  - constructor.
  - constructor; [reflexivity|]. cbn [se_hop mk_hop h_mac]. apply IH.
Qed.

(** the values a packet carries against construction direction: travel order, expected
    values related backwards ([e_prev = step e_next (mac t_next)]) *)
Inductive rchain : list hopf -> list N -> Prop :=
| rc1 t e : rchain [t] [e]
| rcS t0 e0 t1 e1 T E :
    e0 = beta_step e1 (h_mac t1) -> rchain (t1 :: T) (e1 :: E) -> rchain (t0 :: t1 :: T) (e0 :: e1 :: E).

Lemma rchain_snoc T E : rchain T E -> forall t e d,
  last E d = beta_step e (h_mac t) -> rchain (T ++ [t]) (E ++ [e]).
Proof.
  induction 1 as [t0 e0|t0 e0 t1 e1 T E He H IH]; intros t e d L.
  - cbn in *. constructor; [exact L|constructor].
  - cbn [app]. constructor; [exact He|]. apply (IH t e d). exact L.
Qed.

Lemma rchain_length T E : rchain T E -> length T = length E.
Proof. induction 1; cbn in *; congruence. Qed.

Lemma carried_rev_tail T : forall t0 e0 E,
  rchain (t0 :: T) (e0 :: E) -> carried_rev e0 T false false = E.
Proof.
  induction T as [|t1 T IH]; intros t0 e0 E H.
  - inversion H; subst. reflexivity.
  - inversion H as [|? ? ? e1 ? E' He Hr]; subst.
    cbn [carried_rev orb andb]. rewrite beta_step_invol. f_equal. eapply IH. exact Hr.
Qed.

Lemma carried_rev_rchain t0 T e0 E :
  rchain (t0 :: T) (e0 :: E) -> carried_rev e0 (t0 :: T) true false = e0 :: E.
Proof.
  intros H. cbn [carried_rev orb]. f_equal. eapply carried_rev_tail. exact H.
Qed.

Lemma last_rev_hd {A} (l : list A) d : last (rev l) d = hd d l.
Proof.
  destruct l as [|a l]; [reflexivity|]. cbn [rev hd].
  induction (rev l) as [|x r IH]; [reflexivity|]. cbn [app]. destruct (r ++ [a]) eqn:E.
  - destruct r; discriminate.
  - exact IH.
Qed.

Lemma beacon_rchain b ts us : us <> [] ->
  rchain (rev (map se_hop (beacon_entries mac b ts us))) (rev (betas b ts us)).
Proof.
  revert b. induction us as [|u r IH]; intros b Hne; [congruence|].
  cbn [beacon_entries map betas rev se_hop].
  destruct r as [|u2 r2].
  - cbn. constructor.
  - eapply rchain_snoc with (d := 0).
    + apply IH. discriminate.
    + rewrite last_rev_hd. cbn [betas hd mk_hop h_mac]. reflexivity.
Qed.

(** every entry's MAC is over its beta *)
Lemma beacon_verifies b ts us :
  Forall2 (fun u hv => verifies ts (ue_key u) (fst hv) (snd hv))
          us (combine (map se_hop (beacon_entries mac b ts us)) (betas b ts us)).
Proof.
  revert b. induction us as [|u r IH]; intros b; cbn [beacon_entries map betas combine].
  - constructor.
  - constructor; [reflexivity|]. apply IH.
Qed.

Lemma Forall2_rev {A B} (R : A -> B -> Prop) l1 l2 : Forall2 R l1 l2 -> Forall2 R (rev l1) (rev l2).
Proof.
  induction 1; cbn; [constructor|]. apply Forall2_app; [assumption|]. constructor; [assumption|constructor].
Qed.

Lemma combine_rev {A B} (l1 : list A) (l2 : list B) :
  length l1 = length l2 -> combine (rev l1) (rev l2) = rev (combine l1 l2).
Proof.
  revert l2. induction l1 as [|a l1 IH]; intros [|b l2] H; cbn in *; try discriminate; [reflexivity|].
  rewrite <- IH by lia. clear IH.
  assert (L : length (rev l1) = length (rev l2)) by (rewrite !rev_length; lia).
  revert L. generalize (rev l1) (rev l2). intros x. induction x as [|c x IHx]; intros [|d y] L; cbn in *; try discriminate; [reflexivity|].
  rewrite IHx by lia. reflexivity.
Qed.

(** against construction direction, whole use from entry 0 of [us] (the caller passes the
    suffix from the shortcut index): start value = beta of the last entry *)
Lemma chain_rev b ts us : us <> [] ->
  let hs := rev (map se_hop (beacon_entries mac b ts us)) in
  Forall2 (fun u hv => verifies ts (ue_key u) (fst hv) (snd hv))
          (rev us)
          (combine hs (carried_rev (last (betas b ts us) 0) hs true false)).
Proof.
  intros Hne hs.
  pose proof (beacon_rchain b ts us Hne) as R. fold hs in R.
  assert (Hb : betas b ts us <> []) by (destruct us; [congruence|discriminate]).
  destruct hs as [|t0 T] eqn:Eh.
  { apply rchain_length in R. rewrite rev_length, betas_length in R. destruct us; [congruence|discriminate]. }
  destruct (rev (betas b ts us)) as [|e0 E] eqn:Eb.
  { apply rchain_length in R. discriminate. }
  assert (last (betas b ts us) 0 = e0) as ->.
  { rewrite <- (rev_involutive (betas b ts us)), Eb. rewrite last_rev_hd. reflexivity. }
  rewrite (carried_rev_rchain _ _ _ _ R). rewrite <- Eh, <- Eb. unfold hs in *.
  rewrite combine_rev by (rewrite map_length, beacon_entries_length, betas_length; reflexivity).
  apply Forall2_rev. apply beacon_verifies.
Qed.

(** * the invariant stated on segment uses ([SolutionEdge]) *)

Lemma beta_end_app b ts u1 u2 : beta_end b ts (u1 ++ u2) = beta_end (beta_end b ts u1) ts u2.
Proof. revert b. induction u1; intros; cbn; [reflexivity|apply IHu1]. Qed.

Lemma beta_at_skip b ts us k j :
  beta_at (beta_at b ts us k) ts (skipn k us) j = beta_at b ts us (k + j).
Proof.
  unfold beta_at. rewrite <- beta_end_app. f_equal.
  revert k. induction us as [|u r IH]; intros k.
  - destruct k, j; reflexivity.
  - destruct k as [|k]; [reflexivity|]. cbn [firstn skipn Nat.add app]. f_equal. apply IH.
Qed.

Lemma last_betas b ts us : us <> [] ->
  last (betas b ts us) 0 = beta_at b ts us (length us - 1).
Proof.
  unfold beta_at. revert b. induction us as [|u r IH]; intros b Hne; [congruence|].
  destruct r as [|u2 r2]; [reflexivity|].
  cbn [betas]. cbn [betas] in IH.
  replace (length (u :: u2 :: r2) - 1)%nat with (S (length (u2 :: r2) - 1)) by (cbn; lia).
  cbn [firstn beta_end]. rewrite <- IH by discriminate. reflexivity.
Qed.

(** the peer hop field of entry [u] is MACed over the beta of the NEXT entry *)
Lemma peer_hop_verifies b ts u r pi pia pif ph :
  nth_error (se_peers (hd (mkSEntry 0 (mk_hop (mkUHop 0 0 0) 0) []) (beacon_entries mac b ts (u :: r)))) pi
    = Some (pia, pif, ph) ->
  verifies ts (ue_key u) ph (beta_step b (umac mac (ue_key u) b ts (ue_hop u))).
Proof.
  cbn [beacon_entries hd se_peers]. intros H.
  rewrite nth_error_map in H. destruct (nth_error (ue_peers u) pi) as [[[a c] uh]|]; [|discriminate].
  cbn in H. inversion H; subst. reflexivity.
Qed.

Lemma last_default {A} (l : list A) d1 d2 : l <> [] -> last l d1 = last l d2.
Proof.
  induction l as [|a l IH]; intros H; [congruence|]. destruct l; [reflexivity|].
  cbn [last] in *. apply IH. discriminate.
Qed.

Lemma carried_rev_snoc_peer T tp : T <> [] -> forall s first,
  carried_rev s (T ++ [tp]) first true
  = carried_rev s T first false ++ [last (carried_rev s T first false) s].
Proof.
  induction T as [|t T IH]; intros Hne s first; [congruence|].
  destruct T as [|t2 T2].
  - destruct first; reflexivity.
  - assert (IH' := IH ltac:(discriminate)). clear IH.
    change ((t :: t2 :: T2) ++ [tp]) with (t :: ((t2 :: T2) ++ [tp])).
    remember (t2 :: T2) as T' eqn:ET.
    assert (HT : T' <> []) by (subst; discriminate).
    cbn [carried_rev].
    assert (H1 : match T' ++ [tp] with [] => true | _ :: _ => false end = false)
      by (destruct T'; [congruence|reflexivity]).
    assert (H2 : match T' with [] => true | _ :: _ => false end = false)
      by (destruct T'; [congruence|reflexivity]).
    rewrite H1, H2. cbn [andb]. rewrite !orb_false_r.
    rewrite IH'. cbn [app]. f_equal. f_equal.
    remember (if first then s else beta_step s (h_mac t)) as s1.
    destruct (carried_rev s1 T' false false) eqn:E; [subst T'; discriminate E|].
    f_equal. change (last (s1 :: n :: l) s) with (last (n :: l) s).
    apply last_default. discriminate.
Qed.

Lemma carried_rev_length T : forall s f p, length (carried_rev s T f p) = length T.
Proof. induction T as [|t T IH]; intros; cbn [carried_rev length]; [reflexivity|rewrite IH; reflexivity]. Qed.

Lemma combine_app_eq {A B} (l1 l1' : list A) (l2 l2' : list B) :
  length l1 = length l2 -> combine (l1 ++ l1') (l2 ++ l2') = combine l1 l2 ++ combine l1' l2'.
Proof.
  revert l2. induction l1 as [|a l1 IH]; intros [|b l2] H; cbn in *; try discriminate; [reflexivity|].
  f_equal. apply IH. lia.
Qed.

Lemma skipn_S_tl {A} (l : list A) k : skipn (S k) l = tl (skipn k l).
Proof.
  revert l. induction k as [|k IH]; intros l.
  - destruct l; reflexivity.
  - destruct l as [|a l]; [reflexivity|].
    change (skipn (S (S k)) (a :: l)) with (skipn (S k) l).
    change (skipn (S k) (a :: l)) with (skipn k l). apply IH.
Qed.

Lemma Forall2_map_key {B} (P : key -> B -> Prop) us l :
  Forall2 (fun u x => P (ue_key u) x) us l -> Forall2 P (map ue_key us) l.
Proof. induction 1; cbn; constructor; assumption. Qed.

Definition use_keys (us : list uentry) (u : suse) : list key :=
  let ks := map ue_key (skipn (us_k u) us) in if us_cons u then ks else rev ks.
Definition use_carried (u : suse) (hs : list hopf) : list N :=
  let p := match us_peer u with Some _ => true | None => false end in
  if us_cons u then carried_cons (init_segid u) hs p else carried_rev (init_segid u) hs true p.

Lemma chain_invariant_use b0 ts us k peer cons hs :
  (k < length us)%nat ->
  let u := mkUse (beacon mac b0 ts us) k peer cons in
  use_hops u = Some hs ->
  Forall2 (fun K hv => verifies ts K (fst hv) (snd hv)) (use_keys us u) (combine hs (use_carried u hs)).
Proof.
  intros Hk u Hh. unfold use_hops in Hh. cbn [us_seg us_k us_peer us_cons sg_entries beacon u] in Hh.
  unfold use_keys, use_carried, init_segid.
  cbn [us_seg us_k us_peer us_cons sg_entries sg_beta0 beacon u].
  rewrite skipn_beacon in Hh. rewrite beacon_entries_length.
  destruct (skipn k us) as [|uk r] eqn:Esk.
  { exfalso. assert (length (skipn k us) = 0%nat) by (rewrite Esk; reflexivity).
    rewrite skipn_length in H. lia. }
  set (bk := beta_at b0 ts us k) in *.
  assert (Hlen : (length us - 1 = k + length r)%nat).
  { assert (length (skipn k us) = S (length r)) by (rewrite Esk; reflexivity).
    rewrite skipn_length in H. lia. }
  assert (Ebk1 : beta_at b0 ts us (S k) = beta_step bk (umac mac (ue_key uk) bk ts (ue_hop uk))).
  { replace (S k) with (k + 1)%nat by lia. rewrite <- beta_at_skip. rewrite Esk. reflexivity. }
  destruct peer as [pi|].
  - (* peering hop at entry k *)
    cbn [beacon_entries] in Hh.
    destruct (nth_error _ pi) as [[[pia pif] ph]|] eqn:Ep; [|discriminate].
    pose proof (peer_hop_verifies bk ts uk r pi pia pif ph Ep) as Vp.
    inversion Hh; subst hs; clear Hh.
    set (b1 := beta_step bk (umac mac (ue_key uk) bk ts (ue_hop uk))) in *.
    destruct cons.
    + rewrite Nat.eqb_refl. rewrite chain_beta_firstn, Ebk1. fold b1.
      cbn [map carried_cons combine]. constructor; [exact Vp|].
      apply Forall2_map_key. apply (chain_cons b1 ts r).
    + destruct (k =? length us - 1)%nat eqn:Ek.
      * apply Nat.eqb_eq in Ek. assert (r = []) by (destruct r; [reflexivity|cbn in Hlen; lia]). subst r.
        rewrite chain_beta_firstn. replace (S (length us - 1)) with (S k) by lia. rewrite Ebk1. fold b1.
        cbn. constructor; [exact Vp|constructor].
      * apply Nat.eqb_neq in Ek. assert (Hr : r <> []) by (destruct r; [cbn in Hlen; lia|discriminate]).
        rewrite chain_beta_firstn.
        cbn [map rev].
        rewrite carried_rev_snoc_peer by (intros E; apply (f_equal (@length _)) in E;
          rewrite rev_length, map_length, beacon_entries_length in E; destruct r; [congruence|discriminate]).
        pose proof (chain_rev b1 ts r Hr) as C. cbn zeta in C.
        assert (Es : beta_at b0 ts us (length us - 1) = last (betas b1 ts r) 0).
        { rewrite last_betas by exact Hr. rewrite Hlen.
          replace (k + length r)%nat with (S k + (length r - 1))%nat by (destruct r; [congruence|cbn; lia]).
          rewrite <- beta_at_skip. rewrite Ebk1. fold b1.
          replace (skipn (S k) us) with r; [reflexivity|].
          rewrite skipn_S_tl, Esk. reflexivity. }
        rewrite Es.
        set (T := rev (map se_hop (beacon_entries mac b1 ts r))) in *.
        set (cv := carried_rev (last (betas b1 ts r) 0) T true false) in *.
        assert (LT : length T = length cv) by (unfold cv; rewrite carried_rev_length; reflexivity).
        rewrite combine_app_eq by exact LT. cbn [combine].
        apply Forall2_app; [rewrite <- map_rev; apply Forall2_map_key; exact C|].
        constructor; [|constructor]. cbn [fst snd].
        (* the value carried at the peering hop is the one carried at entry k+1: beta_(k+1) *)
        assert (last cv (last (betas b1 ts r) 0) = b1) as ->; [|exact Vp].
        pose proof (beacon_rchain b1 ts r Hr) as R. fold T in R.
        destruct T as [|t0 T'] eqn:ET; [inversion R|].
        destruct (rev (betas b1 ts r)) as [|e0 E] eqn:EB; [apply rchain_length in R; discriminate|].
        assert (Hl0 : last (betas b1 ts r) 0 = e0).
        { rewrite <- (rev_involutive (betas b1 ts r)), EB, last_rev_hd. reflexivity. }
        unfold cv. rewrite Hl0, (carried_rev_rchain _ _ _ _ R).
        rewrite <- EB. rewrite last_rev_hd. destruct r; [congruence|reflexivity].
  - (* regular hop at entry k *)
    inversion Hh; subst hs; clear Hh.
    change (se_hop (hd _ _) :: _) with (map se_hop (beacon_entries mac bk ts (uk :: r))).
    destruct cons.
    + rewrite chain_beta_firstn. fold bk. apply Forall2_map_key. apply (chain_cons bk ts (uk :: r)).
    + rewrite chain_beta_firstn.
      assert (Es : beta_at b0 ts us (length us - 1) = last (betas bk ts (uk :: r)) 0).
      { rewrite last_betas by discriminate. unfold bk. rewrite <- Esk at 1. rewrite beta_at_skip.
        cbn [length]. f_equal. lia. }
      rewrite Es. rewrite <- map_rev. apply Forall2_map_key.
      apply (chain_rev bk ts (uk :: r)). discriminate.
Qed.

End C.
