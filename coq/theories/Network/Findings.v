(** Network area: witnesses (closed by [vm_compute]) for statements that are false of the
    faithful model, and the decidable classes of the recorded findings. *)
From Sci Require Import Network.Model Network.Spec Network.Aes.
Local Open Scope N_scope.

(** C13-peer-link-segment-change: [validate_segment_change] accepts two pairs the
    specification does not list *)
Lemma seg_change_peer_pairs_refuted :
  sdk_seg_change_ok ToChild ToPeer = true /\ spec_seg_change_ok ToChild ToPeer = false
  /\ sdk_seg_change_ok ToPeer ToChild = true /\ spec_seg_change_ok ToPeer ToChild = false.
Proof. vm_compute. repeat split; reflexivity. Qed.
