(** Network area: witnesses (closed by [vm_compute], real AES-CMAC) for statements that are
    false of the faithful model, the decidable classes of the recorded findings, and
    non-vacuity examples on concrete small topologies. *)
From Sci Require Import Network.Model Network.Spec Network.Aes Network.Proofs_Deliver Network.Proofs_Combined.
Local Open Scope N_scope.

(** C13-peer-link-segment-change: [validate_segment_change] accepts two pairs the
    specification does not list *)
Lemma seg_change_peer_pairs_refuted :
  sdk_seg_change_ok ToChild ToPeer = true /\ spec_seg_change_ok ToChild ToPeer = false
  /\ sdk_seg_change_ok ToPeer ToChild = true /\ spec_seg_change_ok ToPeer ToChild = false.
Proof. vm_compute. repeat split; reflexivity. Qed.

(** ** a 5-AS peering topology: core 1; 2 and 3 its children; 4 child of 2; 5 child of 3;
    2 and 3 peer.  Interfaces: 1#1-2#1, 1#2-3#1, 2#2-4#1, 3#2-5#1, 2#3~3#3. *)
Definition kk (n : N) : cmac_key := cmac_prep (repeat n 16).
Definition peer_topo : topology cmac_key :=
  mkTopo [mkAs 1 true (kk 1); mkAs 2 false (kk 2); mkAs 3 false (kk 3); mkAs 4 false (kk 4); mkAs 5 false (kk 5)]
         [mkLink 1 1 SParent 2 1 true; mkLink 1 2 SParent 3 1 true; mkLink 2 2 SParent 4 1 true;
          mkLink 3 2 SParent 5 1 true; mkLink 2 3 SPeer 3 3 true].
Definition seg_124 : segment :=
  beacon hop_mac 4660 1000
    [mkUEntry 1 (kk 1) (mkUHop 63 0 1) [];
     mkUEntry 2 (kk 2) (mkUHop 63 1 2) [(3, 3, mkUHop 63 3 2)];
     mkUEntry 4 (kk 4) (mkUHop 63 1 0) []].
Definition seg_135 : segment :=
  beacon hop_mac 22136 1000
    [mkUEntry 1 (kk 1) (mkUHop 63 0 2) [];
     mkUEntry 3 (kk 3) (mkUHop 63 1 2) [(2, 3, mkUHop 63 3 2)];
     mkUEntry 5 (kk 5) (mkUHop 63 1 0) []].

(** the peering path 4 -> 2 ~ 3 -> 5 as the combinator assembles it *)
Definition peering_packet : option packet :=
  assemble 5 [mkUse seg_124 1 (Some 0%nat) false; mkUse seg_135 1 (Some 0%nat) true].

(** C13-peering-unsupported: the reference router delivers it at AS 5 over 4#1, 2#3, 3#2;
    the SDK router rejects it at AS 2 with InvalidHopFieldMac (completeness of the SDK router
    with respect to the reference router is refuted) *)
Lemma sdk_rejects_peering_refuted :
  match peering_packet with
  | Some pk =>
    uses_peering (k_path pk) = true
    /\ (let '(tr, e, _) := ref_sim hop_mac 5 peer_topo 1100 4 0 pk in
        (tr, e) = ([(4, 0, 1); (2, 2, 3); (3, 3, 2)], RDelivered 5))
    /\ (let '(tr, e, _) := sdk_sim hop_mac 5 peer_topo 1100 4 0 pk in
        (map (fun s => (s_ia s, s_act s)) tr, e) = ([(4, AFwd 1); (2, AScmp 151 0)], EndVerdict))
  | None => False
  end.
Proof. vm_compute. repeat split; reflexivity. Qed.

(** the up-then-core-side path 4 -> 2 -> 1 -> 3 -> 5 (two segments, crossover at the core):
    both routers deliver, and so does the reply over the reversed arrived path *)
Definition via_core_packet : option packet :=
  assemble 5 [mkUse seg_124 0 None false; mkUse seg_135 0 None true].
Example via_core_delivered_and_back :
  match via_core_packet with
  | Some pk =>
    let '(tr, e, pk') := ref_sim hop_mac 6 peer_topo 1100 4 0 pk in
    let '(str, se, spk') := sdk_sim hop_mac 6 peer_topo 1100 4 0 pk in
    e = RDelivered 5 /\ map (fun s => (s_ia s, s_act s)) str = [(4, AFwd 1); (2, AFwd 1); (1, AFwd 2); (3, AFwd 2); (5, ALocal)]
    /\ spk' = pk'
    /\ (let '(_, e2, _) := ref_sim hop_mac 6 peer_topo 1100 5 0 (mkPkt 4 (path_reverse (k_path pk'))) in
        e2 = RDelivered 4)
  | None => False
  end.
Proof. vm_compute. repeat split; reflexivity. Qed.

(** ** a 4-AS shortcut topology: core 1; 2 its child; 3 and 4 children of 2.
    The shortcut path 3 -> 2 -> 4 (crossover at the non-core AS 2, whose two hop fields still
    name the parent interface) is delivered by both routers -- the SDK router rejected it
    before the repair recorded in known_findings/C13.json. *)
Definition sc_topo : topology cmac_key :=
  mkTopo [mkAs 1 true (kk 1); mkAs 2 false (kk 2); mkAs 3 false (kk 3); mkAs 4 false (kk 4)]
         [mkLink 1 1 SParent 2 1 true; mkLink 2 2 SParent 3 1 true; mkLink 2 3 SParent 4 1 true].
Definition seg_123 : segment :=
  beacon hop_mac 4660 1000
    [mkUEntry 1 (kk 1) (mkUHop 63 0 1) []; mkUEntry 2 (kk 2) (mkUHop 63 1 2) []; mkUEntry 3 (kk 3) (mkUHop 63 1 0) []].
Definition seg_124' : segment :=
  beacon hop_mac 22136 1000
    [mkUEntry 1 (kk 1) (mkUHop 63 0 1) []; mkUEntry 2 (kk 2) (mkUHop 63 1 3) []; mkUEntry 4 (kk 4) (mkUHop 63 1 0) []].
Definition shortcut_packet : option packet :=
  assemble 4 [mkUse seg_123 1 None false; mkUse seg_124' 1 None true].
Example shortcut_delivered :
  match shortcut_packet with
  | Some pk =>
    uses_shortcut (k_path pk) = true
    /\ (let '(tr, e, _) := ref_sim hop_mac 5 sc_topo 1100 3 0 pk in (tr, e) = ([(3, 0, 1); (2, 2, 3)], RDelivered 4))
    /\ (let '(tr, e, _) := sdk_sim hop_mac 5 sc_topo 1100 3 0 pk in
        map (fun s => (s_ia s, s_act s)) tr = [(3, AFwd 1); (2, AFwd 3); (4, ALocal)])
  | None => False
  end.
Proof. vm_compute. repeat split; reflexivity. Qed.

(** the over-acceptance closed by the same repair: the offered path injected at its source AS
    through an external interface is refused by both routers *)
Example external_injection_refused :
  match shortcut_packet with
  | Some pk =>
    (let '(tr, e, _) := ref_sim hop_mac 5 sc_topo 1100 3 1 pk in e = RRejected 3 2)
    /\ (let '(tr, e, _) := sdk_sim hop_mac 5 sc_topo 1100 3 1 pk in
        map (fun s => (s_ia s, s_act s)) tr = [(3, AScmp 150 0)])
  | None => False
  end.
Proof. vm_compute. repeat split; reflexivity. Qed.

(** C13-onehop-unchecked: a one-hop path is forwarded over a link that is DOWN, with a
    forged first hop field, after its expiry -- and delivered; the reference router refuses
    each (link down 8, MAC 4, lifetime 3) *)
Definition sc_topo_down : topology cmac_key :=
  mkTopo (t_ases sc_topo)
         [mkLink 1 1 SParent 2 1 true; mkLink 2 2 SParent 3 1 false; mkLink 2 3 SParent 4 1 true].
Definition oh_packet (m_xor now_ts : N) : ohpacket :=
  let m := hop_mac (kk 2) 777 now_ts 63 0 2 in
  mkOh 3 (mkInfo false true 777 now_ts) (mkHop false false 63 0 2 (N.lxor m m_xor)) (mkHop false false 0 0 0 0).
Lemma onehop_unchecked_refuted :
  (* link down *)
  (map (fun s => (s_ia s, s_act s)) (fst (sdk_onehop_sim hop_mac 3 sc_topo_down 2 0 (oh_packet 0 1000)))
     = [(2, AFwd 2); (3, ALocal)]
   /\ ref_onehop hop_mac sc_topo_down 1100 2 (oh_packet 0 1000) = RRejected 2 8)
  (* forged MAC *)
  /\ (map (fun s => (s_ia s, s_act s)) (fst (sdk_onehop_sim hop_mac 3 sc_topo 2 0 (oh_packet 4096 1000)))
       = [(2, AFwd 2); (3, ALocal)]
      /\ ref_onehop hop_mac sc_topo 1100 2 (oh_packet 4096 1000) = RRejected 2 4)
  (* expired *)
  /\ ref_onehop hop_mac sc_topo 900000 2 (oh_packet 0 1000) = RRejected 2 3.
Proof. vm_compute. repeat split; reflexivity. Qed.

(** non-vacuity of the topology hypothesis of [Props_C01.combined_path_delivers_partial]: the
    two-segment path 4 -> 2 -> 1 -> 3 -> 5 over [peer_topo] at time 1100 satisfies [route_topo]
    (so the theorem yields the delivery that [via_core_delivered_and_back] computes) *)
Definition us_124 : list (@uentry cmac_key) :=
    [mkUEntry 1 (kk 1) (mkUHop 63 0 1) [];
     mkUEntry 2 (kk 2) (mkUHop 63 1 2) [(3, 3, mkUHop 63 3 2)];
     mkUEntry 4 (kk 4) (mkUHop 63 1 0) []].
Definition us_135 : list (@uentry cmac_key) :=
    [mkUEntry 1 (kk 1) (mkUHop 63 0 2) [];
     mkUEntry 3 (kk 3) (mkUHop 63 1 2) [(2, 3, mkUHop 63 3 2)];
     mkUEntry 5 (kk 5) (mkUHop 63 1 0) []].
Definition bu_124 := mkBuse 4660 1000 us_124 0 false.
Definition bu_135 := mkBuse 22136 1000 us_135 0 true.
Example route_topo_nonvacuous :
  match g_hops (tseg_of hop_mac bu_124) with
  | d :: r => route_topo peer_topo 1100 (tseg_of hop_mac bu_124) d r [tseg_of hop_mac bu_135] 5
  | [] => False
  end.
Proof.
  vm_compute.
  repeat match goal with
         | |- _ /\ _ => split
         | |- exists _, _ => eexists
         | |- _ = _ => reflexivity
         | |- True => exact I
         end.
Qed.

(** C01-peer-mac-over-beta-i: [AsEntry::update_macs] as written MACs peer entries over beta_i;
    the specification (and [initialize_segment_id]) use beta_(i+1).  On the segment 1 -> 2 -> 4
    with a peer entry at AS 2: all regular hop MACs agree, the peer-entry MAC does not, and
    the peering path 4 -> 2 ~ 3 -> 5 assembled from code-built segments is refused by the
    reference router at AS 2 (MAC), while the one from specification beacons is delivered
    ([sdk_rejects_peering_refuted]). *)
Definition peer_macs (s : @segment) : list N :=
  flat_map (fun e => map (fun '(_, _, h) => h_mac h) (se_peers e)) (sg_entries s).
Lemma update_macs_peer_beta_refuted :
  has_peer_entries us_124 = true
  /\ map se_hop (sg_entries (code_beacon hop_mac 4660 1000 us_124)) = map se_hop (sg_entries (beacon hop_mac 4660 1000 us_124))
  /\ list_eqb N.eqb (peer_macs (code_beacon hop_mac 4660 1000 us_124)) (peer_macs (beacon hop_mac 4660 1000 us_124)) = false
  /\ match assemble 5 [mkUse (code_beacon hop_mac 4660 1000 us_124) 1 (Some 0%nat) false;
                       mkUse (code_beacon hop_mac 22136 1000 us_135) 1 (Some 0%nat) true] with
     | Some pk => (let '(tr, e, _) := ref_sim hop_mac 5 peer_topo 1100 4 0 pk in (tr, e)) = ([(4, 0, 1)], RRejected 2 4)
     | None => False
     end.
Proof. vm_compute. repeat split; reflexivity. Qed.
