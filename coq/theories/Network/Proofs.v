(** Network area: lemmas for C13 (router). *)
From Coq Require Import Lia ZifyBool ZifyNat ZifyN.
From Sci Require Import Network.Model Network.Spec.
Local Open Scope N_scope.
Arguments N.add : simpl never. Arguments N.sub : simpl never. Arguments N.mul : simpl never.
Arguments N.div : simpl never. Arguments N.modulo : simpl never. Arguments N.eqb : simpl never.
Arguments N.ltb : simpl never. Arguments N.leb : simpl never.

(** * list helpers *)
Lemma upd_nil {A} i (x : A) : upd [] i x = [].
Proof. unfold upd. destruct i; reflexivity. Qed.
Lemma upd_cons_0 {A} (a : A) l x : upd (a :: l) 0 x = x :: l.
Proof. reflexivity. Qed.
Lemma upd_cons_S {A} (a : A) l i x : upd (a :: l) (S i) x = a :: upd l i x.
Proof. unfold upd. cbn [skipn firstn]. destruct (skipn i l); reflexivity. Qed.

Lemma upd_length {A} (l : list A) i x : length (upd l i x) = length l.
Proof.
  revert i. induction l as [|a l IH]; intros i; [rewrite upd_nil; reflexivity|].
  destruct i; [reflexivity|]. rewrite upd_cons_S. cbn [length]. rewrite IH. reflexivity.
Qed.

Lemma upd_same {A} (l : list A) i x : nth_error l i = Some x -> upd l i x = l.
Proof.
  revert i. induction l as [|a l IH]; intros [|i] H; cbn in H; try discriminate.
  - inversion H; reflexivity.
  - rewrite upd_cons_S. f_equal. apply IH. exact H.
Qed.

Lemma nth_error_upd_eq {A} (l : list A) i x : (i < length l)%nat -> nth_error (upd l i x) i = Some x.
Proof.
  revert i. induction l as [|a l IH]; intros [|i] H; cbn [length] in H; try lia.
  - reflexivity.
  - rewrite upd_cons_S. cbn [nth_error]. apply IH. lia.
Qed.

Lemma nth_error_upd_neq {A} (l : list A) i j x : i <> j -> nth_error (upd l i x) j = nth_error l j.
Proof.
  revert i j. induction l as [|a l IH]; intros i j H; [rewrite upd_nil; reflexivity|].
  destruct i as [|i]; destruct j as [|j]; try congruence.
  - reflexivity.
  - rewrite upd_cons_S. reflexivity.
  - rewrite upd_cons_S. cbn [nth_error]. apply IH. congruence.
Qed.

(** * seg_index *)
Lemma seg_index_aux_bound lens agg idx h s st en :
  seg_index_aux lens agg idx h = Some (s, st, en) -> (h < agg + sum_nat lens)%nat.
Proof.
  revert agg idx. induction lens as [|l r IH]; intros agg idx H; cbn [seg_index_aux] in H; [discriminate|].
  destruct (h <? agg + l)%nat eqn:E.
  - apply Nat.ltb_lt in E. unfold sum_nat. cbn [fold_right]. lia.
  - apply IH in H. unfold sum_nat in *. cbn [fold_right]. lia.
Qed.

Section R.
Context {key : Type}.
Variable mac : key -> N -> N -> N -> N -> N -> N.
Notation topology := (topology key).

(** * one AS step of the SDK router: shape of the result *)

Definition same_shape (p p' : path) : Prop :=
  p_lens p' = p_lens p /\ length (p_hops p') = length (p_hops p)
  /\ length (p_infos p') = length (p_infos p).

Lemma adv_ingress_shape t ia K now i p p1 al ing act verr :
  sdk_advance_ingress mac t ia K now i p = Ok (p1, al, ing, act, verr) ->
  same_shape p p1 /\ (p_ch p < length (p_hops p))%nat
  /\ (p_ch p1 = p_ch p \/ p_ch p1 = S (p_ch p)) .
Proof.
  unfold sdk_advance_ingress, same_shape.
  destruct (seg_index (p_lens p) (p_ch p)) as [[[seg st] en]|] eqn:Es; [|discriminate].
  destruct (st && en); [discriminate|].
  destruct (negb (seg =? p_ci p)%nat); [discriminate|].
  destruct (nth_error (p_hops p) (p_ch p)) as [h|] eqn:Eh; [|discriminate].
  destruct (nth_error (p_infos p) (p_ci p)) as [inf|] eqn:Ei; [|discriminate].
  assert (Hlt : (p_ch p < length (p_hops p))%nat) by (apply nth_error_Some; congruence).
  destruct (length (p_hops p) <=? p_ch p + 1)%nat eqn:Ef; destruct en.
  - intros H; inversion H; subst; cbn. rewrite !upd_length. auto.
  - discriminate.
  - destruct (63 <? S (p_ch p))%nat; [discriminate|].
    destruct (nth_error (p_hops p) (S (p_ch p))); [|discriminate].
    destruct (nth_error (p_infos p) (S seg)); [|discriminate].
    intros H; inversion H; subst; cbn. rewrite !upd_length. auto.
  - intros H; inversion H; subst; cbn. rewrite !upd_length. auto.
Qed.

Lemma adv_egress_shape K now e p p2 al eg verr :
  sdk_advance_egress mac K now e p = Ok (p2, al, eg, verr) ->
  same_shape p p2 /\ p_ch p2 = S (p_ch p) /\ (S (p_ch p) < length (p_hops p))%nat.
Proof.
  unfold sdk_advance_egress, same_shape.
  destruct (seg_index (p_lens p) (p_ch p)) as [[[seg st] en]|] eqn:Es; [|discriminate].
  destruct (negb (seg =? p_ci p)%nat); [discriminate|].
  destruct (nth_error (p_hops p) (p_ch p)) as [h|] eqn:Eh; [|discriminate].
  destruct (nth_error (p_infos p) (p_ci p)) as [inf|] eqn:Ei; [|discriminate].
  destruct (length (p_hops p) <=? p_ch p + 1)%nat eqn:Ef; [discriminate|].
  destruct (63 <? S (p_ch p))%nat; [discriminate|].
  destruct en; [discriminate|].
  intros H; inversion H; subst; cbn. rewrite !upd_length.
  apply Nat.leb_gt in Ef. repeat split; lia.
Qed.

Lemma hop_egress_inv h inf (a c : bool) s :
  hop_egress (if a then (if c then set_aeg h false else set_ain h false) else h)
             (if c then set_segid inf s else inf) = hop_egress h inf.
Proof. destruct a, c; reflexivity. Qed.

(** a forwarding decision strictly advances the hop pointer and keeps it inside the path *)
Lemma sdk_handle_fwd t ia K now i p p' e :
  sdk_handle mac t ia K now i p = (p', Ok (AFwd e)) ->
  same_shape p p' /\ (p_ch p < p_ch p')%nat /\ (p_ch p' < length (p_hops p))%nat
  /\ exists up_ty, iface_state t ia e = Some (up_ty, true).
Proof.
  unfold sdk_handle.
  destruct (sdk_advance_ingress mac t ia K now i p) as [[[[[p1 al] ing] act] verr]| |] eqn:Ei;
    [|intros H; inversion H|intros H; inversion H].
  apply adv_ingress_shape in Ei. destruct Ei as ((L1 & H1 & I1) & Hlt & Hch).
  destruct verr; [intros H; inversion H|].
  destruct (al && negb (i =? 0) && (ing =? i)); [intros H; inversion H|].
  destruct act as [eg|]; [|intros H; inversion H].
  destruct (nth_error (p_infos p1) (p_ci p1)); [|intros H; inversion H].
  destruct (iface_state t ia eg) as [[ty up]|] eqn:Eif; [|intros H; inversion H].
  destruct up; cbn [negb]; [|intros H; inversion H].
  destruct (sdk_advance_egress mac K now eg p1) as [[[[p2 al2] eg2] verr2]| |] eqn:Ee;
    [|intros H; inversion H|intros H; inversion H].
  pose proof Ee as Ee'. apply adv_egress_shape in Ee'. destruct Ee' as ((L2 & H2 & I2) & Hc2 & Hlt2).
  destruct verr2 as [e2|] eqn:Ev; [intros H; inversion H|].
  destruct (al2 && negb (eg2 =? 0) && (eg2 =? eg)); [intros H; inversion H|].
  intros H; inversion H; subst p' e; clear H.
  (* egress validation forces eg2 = eg *)
  assert (eg2 = eg) as ->.
  { unfold sdk_advance_egress in Ee.
    destruct (seg_index (p_lens p1) (p_ch p1)) as [[[seg st] en]|]; [|discriminate].
    destruct (negb (seg =? p_ci p1)%nat); [discriminate|].
    destruct (nth_error (p_hops p1) (p_ch p1)) as [h|]; [|discriminate].
    destruct (nth_error (p_infos p1) (p_ci p1)) as [inf|]; [|discriminate].
    destruct (length (p_hops p1) <=? p_ch p1 + 1)%nat; [discriminate|].
    destruct (63 <? S (p_ch p1))%nat; [discriminate|].
    destruct en; [discriminate|].
    injection Ee as Hp Hal Heg Hv. rewrite <- Heg. rewrite hop_egress_inv.
    unfold sdk_validate_hop in Hv. cbn [andb negb] in Hv.
    destruct (hop_egress h inf =? eg) eqn:Eeq; cbn [negb] in Hv; [|discriminate].
    apply N.eqb_eq in Eeq. exact Eeq. }
  unfold same_shape. repeat split; try congruence; try lia.
  exists ty. exact Eif.
Qed.

(** [sdk_route]: forward keeps the destination address and inherits the above *)
Lemma sdk_route_fwd t ia K now i pk pk' e :
  sdk_route mac t ia K now i pk = (AFwd e, pk') ->
  k_dst pk' = k_dst pk /\ same_shape (k_path pk) (k_path pk')
  /\ (p_ch (k_path pk) < p_ch (k_path pk'))%nat
  /\ (p_ch (k_path pk') < length (p_hops (k_path pk)))%nat
  /\ exists ty, iface_state t ia e = Some (ty, true).
Proof.
  unfold sdk_route. destruct (sdk_handle mac t ia K now i (k_path pk)) as [p' r] eqn:E.
  destruct r as [a| |]; try (intros H; inversion H; fail).
  - destruct a; try (intros H; inversion H; fail).
    + intros H; inversion H; subst; cbn. apply sdk_handle_fwd in E. tauto.
    + destruct (ia =? k_dst pk); intros H; inversion H.
  - destruct e0; cbn; intros H; inversion H.
Qed.

Lemma sdk_route_local t ia K now i pk pk' :
  sdk_route mac t ia K now i pk = (ALocal, pk') -> ia = k_dst pk.
Proof.
  unfold sdk_route. destruct (sdk_handle mac t ia K now i (k_path pk)) as [p' r].
  destruct r as [a| |]; try (intros H; inversion H; fail).
  - destruct a; try (intros H; inversion H; fail).
    destruct (ia =? k_dst pk) eqn:E; intros H; inversion H. apply N.eqb_eq in E. exact E.
  - destruct e; cbn; intros H; inversion H.
Qed.

(** * the simulator *)

Definition remaining (pk : packet) : nat := length (p_hops (k_path pk)) - p_ch (k_path pk).

Lemma sdk_sim_bound fuel t now ia i pk tr e pk' :
  sdk_sim mac fuel t now ia i pk = (tr, e, pk') ->
  (length tr <= Nat.max 1 (remaining pk))%nat
  /\ ((Nat.max 1 (remaining pk) <= fuel)%nat -> e <> EndFuel).
Proof.
  revert ia i pk tr e pk'. induction fuel as [|f IH]; intros ia i pk tr e pk' H; cbn in H.
  - inversion H; subst. cbn [length]. split; [lia|]. intros; lia.
  - destruct (find_as t ia) as [a|]; [|inversion H; subst; cbn [length]; split; [lia|congruence]].
    destruct (sdk_route mac t ia (a_key a) now i pk) as [act pk1] eqn:Er.
    destruct act; try (inversion H; subst; cbn [length]; split; [lia|congruence]).
    apply sdk_route_fwd in Er. destruct Er as (_ & (_ & HL & _) & Hlt & Hlt2 & _).
    destruct (scion_link t ia eg) as [l|]; [|inversion H; subst; cbn [length]; split; [lia|congruence]].
    destruct (get_peer l ia) as [[ia' if']|]; [|inversion H; subst; cbn [length]; split; [lia|congruence]].
    destruct (find_as t ia'); [|inversion H; subst; cbn [length]; split; [lia|congruence]].
    destruct (sdk_sim mac f t now ia' if' pk1) as [[tr1 e1] pk2] eqn:Es.
    inversion H; subst; clear H. apply IH in Es. destruct Es as (B1 & B2).
    unfold remaining in *. cbn [length]. rewrite HL in *. split; [lia|].
    intros Hf. apply B2. lia.
Qed.

Lemma sdk_sim_dst fuel t now ia i pk tr e pk' :
  sdk_sim mac fuel t now ia i pk = (tr, e, pk') ->
  Forall (fun s => s_act s = ALocal -> s_ia s = k_dst pk) tr.
Proof.
  revert ia i pk tr e pk'. induction fuel as [|f IH]; intros ia i pk tr e pk' H; cbn in H.
  - inversion H; subst. constructor.
  - destruct (find_as t ia) as [a|]; [|inversion H; subst; constructor].
    destruct (sdk_route mac t ia (a_key a) now i pk) as [act pk1] eqn:Er.
    destruct act;
      try (inversion H; subst; constructor; [cbn; intros; try discriminate|constructor]).
    + apply sdk_route_fwd in Er. destruct Er as (Hd & _).
      destruct (scion_link t ia eg) as [l|]; [|inversion H; subst; constructor].
      destruct (get_peer l ia) as [[ia' if']|]; [|inversion H; subst; constructor].
      destruct (find_as t ia'); [|inversion H; subst; constructor].
      destruct (sdk_sim mac f t now ia' if' pk1) as [[tr1 e1] pk2] eqn:Es.
      inversion H; subst; clear H. apply IH in Es. constructor; [cbn; discriminate|].
      rewrite Hd in Es. exact Es.
    + apply sdk_route_local in Er. exact Er.
Qed.

Lemma sdk_sim_links fuel t now ia i pk tr e pk' :
  sdk_sim mac fuel t now ia i pk = (tr, e, pk') ->
  Forall (fun s => forall eg, s_act s = AFwd eg ->
            exists ty l ia' if', iface_state t (s_ia s) eg = Some (ty, true)
              /\ scion_link t (s_ia s) eg = Some l /\ l_up l = true
              /\ get_peer l (s_ia s) = Some (ia', if')) tr.
Proof.
  revert ia i pk tr e pk'. induction fuel as [|f IH]; intros ia i pk tr e pk' H; cbn in H.
  - inversion H; subst. constructor.
  - destruct (find_as t ia) as [a|]; [|inversion H; subst; constructor].
    destruct (sdk_route mac t ia (a_key a) now i pk) as [act pk1] eqn:Er.
    destruct act;
      try (inversion H; subst; constructor; [cbn; intros; discriminate|constructor]).
    apply sdk_route_fwd in Er. destruct Er as (_ & _ & _ & _ & ty & Hif).
    destruct (scion_link t ia eg) as [l|] eqn:El; [|inversion H; subst; constructor].
    destruct (get_peer l ia) as [[ia' if']|] eqn:Ep; [|inversion H; subst; constructor].
    destruct (find_as t ia'); [|inversion H; subst; constructor].
    destruct (sdk_sim mac f t now ia' if' pk1) as [[tr1 e1] pk2] eqn:Es.
    inversion H; subst; clear H. apply IH in Es. constructor; [|exact Es].
    cbn. intros eg' Heq. inversion Heq; subst eg'.
    exists ty, l, ia', if'. repeat split; auto.
    unfold iface_state in Hif. rewrite El in Hif.
    destruct (get_link_type l ia); [|discriminate]. inversion Hif; reflexivity.
Qed.

End R.


(** * one-hop paths: at most two AS steps *)
Section OneHop.
Context {key : Type}.
Variable mac : key -> N -> N -> N -> N -> N -> N.

Lemma get_peer_nonzero (t : topology key) ia eg l ia' if' :
  wf_topo t = true -> scion_link t ia eg = Some l -> get_peer l ia = Some (ia', if') -> (if' =? 0) = false.
Proof.
  unfold wf_topo, scion_link, get_peer. intros W F G.
  apply find_some in F. destruct F as (Hin & _).
  rewrite forallb_forall in W. specialize (W l Hin).
  apply andb_true_iff in W. destruct W as (W1 & W2). apply negb_true_iff in W1, W2.
  destruct (l_a l =? ia); [inversion G; subst; exact W2|].
  destruct (l_b l =? ia); [inversion G; subst; exact W1|discriminate].
Qed.

Lemma onehop_external_terminal ia K i pk :
  (i =? 0) = false -> forall eg, fst (sdk_route_onehop mac ia K i pk) <> AFwd eg.
Proof.
  intros E eg. unfold sdk_route_onehop. rewrite E.
  destruct (h_mac (o_h2 pk) =? 0); [destruct (negb (i_cons (o_info pk)))|];
    cbn; try destruct (ia =? o_dst pk); cbn; discriminate.
Qed.

Lemma sdk_onehop_bound fuel (t : topology key) ia i pk tr e :
  wf_topo t = true ->
  sdk_onehop_sim mac fuel t ia i pk = (tr, e) ->
  (length tr <= 2)%nat /\ ((2 <= fuel)%nat -> e <> EndFuel).
Proof.
  intros W. destruct fuel as [|[|f]]; cbn [sdk_onehop_sim].
  - intros H; inversion H; subst. cbn. split; [lia|intros; lia].
  - destruct (find_as t ia); [|intros H; inversion H; subst; cbn; split; [lia|intros; lia]].
    destruct (sdk_route_onehop mac ia (a_key a) i pk) as [act pk'].
    destruct act; try (intros H; inversion H; subst; cbn; split; [lia|intros; lia]).
    destruct (scion_link t ia eg); [|intros H; inversion H; subst; cbn; split; [lia|intros; lia]].
    destruct (get_peer l ia) as [[ia' if']|]; [|intros H; inversion H; subst; cbn; split; [lia|intros; lia]].
    destruct (find_as t ia'); intros H; inversion H; subst; cbn; split; try lia; intros; lia.
  - destruct (find_as t ia) as [a|]; [|intros H; inversion H; subst; cbn; split; [lia|congruence]].
    destruct (sdk_route_onehop mac ia (a_key a) i pk) as [act pk'] eqn:Er.
    destruct act; try (intros H; inversion H; subst; cbn; split; [lia|congruence]).
    destruct (scion_link t ia eg) as [l|] eqn:El; [|intros H; inversion H; subst; cbn; split; [lia|congruence]].
    destruct (get_peer l ia) as [[ia' if']|] eqn:Ep; [|intros H; inversion H; subst; cbn; split; [lia|congruence]].
    pose proof (get_peer_nonzero t ia eg l ia' if' W El Ep) as Enz.
    destruct (find_as t ia') as [a'|] eqn:Ea'; [|intros H; inversion H; subst; cbn; split; [lia|congruence]].
    cbn [sdk_onehop_sim]. try rewrite Ea'.
    pose proof (onehop_external_terminal ia' (a_key a') if' pk' Enz) as T.
    destruct (sdk_route_onehop mac ia' (a_key a') if' pk') as [act2 pk2]. cbn [fst] in T.
    destruct act2; try (intros H; inversion H; subst; cbn; split; [lia|congruence]).
    exfalso. eapply T. reflexivity.
Qed.
End OneHop.

(** * the segment-change table, by computation over all 16 pairs *)
Lemma seg_change_table_nonpeer :
  forall a b, involves_peer a b = false -> sdk_seg_change_ok a b = spec_seg_change_ok a b.
Proof. intros [] [] H; try discriminate H; vm_compute; reflexivity. Qed.

Lemma seg_change_table_refuses_valleys_loops :
  sdk_seg_change_ok ToParent ToParent = false      (* down then up: valley *)
  /\ sdk_seg_change_ok ToPeer ToParent = false     (* peer then up: valley *)
  /\ sdk_seg_change_ok ToCore ToCore = false       (* core loop *)
  /\ sdk_seg_change_ok ToParent ToChild = false    (* down then down: splice *)
  /\ sdk_seg_change_ok ToChild ToParent = false    (* up then up: splice *)
  /\ sdk_seg_change_ok ToParent ToCore = false /\ sdk_seg_change_ok ToCore ToParent = false.
Proof. vm_compute. repeat split; reflexivity. Qed.
